(* Proofs about model/Deps.v (property C04, deps_exact). *)
From Coq Require Import List Bool Arith Lia.
From XV Require Import model.Deps.
Import ListNotations.

Section Exact.
  Variable h : heap.
  Hypothesis MK : marks_ok h.

  (* every mark recorded in taskids has its job among the dependencies *)
  Definition iacc (a : acc) : Prop := forall t k, In t (snd a) -> n_sub (get h t) = Some k -> In k (fst a).

  Definition good (g : acc -> option acc) (R : nat -> Prop) : Prop :=
    forall a a', iacc a -> g a = Some a' ->
      iacc a' /\ incl (fst a) (fst a') /\ incl (snd a) (snd a') /\
      (forall k, In k (fst a') -> In k (fst a) \/ R k) /\
      (forall k, R k -> In k (fst a')).

  Lemma good_fold : forall A (f : A -> acc -> option acc) (R : A -> nat -> Prop) l,
    (forall x, In x l -> good (f x) (R x)) ->
    good (fold_opt f l) (fun k => exists x, In x l /\ R x k).
  Proof.
    intros A f R l. induction l as [|x r IH]; intros G a a' I H; simpl in H.
    - inversion H; subst. repeat split; auto; try apply incl_refl. intros k (x & [] & _).
    - destruct (f x a) as [a1|] eqn:E; [|discriminate].
      destruct (G x (or_introl eq_refl) a a1 I E) as (I1 & S1 & T1 & So1 & Co1).
      assert (G' : forall y, In y r -> good (f y) (R y)) by (intros y Hy; apply G; right; auto).
      destruct (IH G' a1 a' I1 H) as (I2 & S2 & T2 & So2 & Co2).
      split; auto. split; [eapply incl_tran; eauto|]. split; [eapply incl_tran; eauto|]. split.
      + intros k Hk. destruct (So2 k Hk) as [X|(y & Y1 & Y2)].
        * destruct (So1 k X) as [Z|Z]; auto. right. exists x. split; simpl; auto.
        * right. exists y. split; simpl; auto.
      + intros k (y & [<-|Y1] & Y2).
        * apply S2. apply Co1; auto.
        * apply Co2. exists y; auto.
  Qed.

  Lemma good_ext : forall g (R R' : nat -> Prop), good g R -> (forall k, R k <-> R' k) -> good g R'.
  Proof.
    intros g R R' G E a a' I H. destruct (G a a' I H) as (A & B & C & D & F).
    repeat split; auto.
    - intros k Hk. destruct (D k Hk); auto. right. apply E; auto.
    - intros k Hk. apply F. apply E; auto.
  Qed.

  Lemma good_seq : forall g1 g2 (R1 R2 : nat -> Prop), good g1 R1 -> good g2 R2 ->
    good (fun a => match g1 a with Some a1 => g2 a1 | None => None end) (fun k => R1 k \/ R2 k).
  Proof.
    intros g1 g2 R1 R2 G1 G2 a a' I H. destruct (g1 a) as [a1|] eqn:E; [|discriminate].
    destruct (G1 a a1 I E) as (I1 & S1 & T1 & So1 & Co1).
    destruct (G2 a1 a' I1 H) as (I2 & S2 & T2 & So2 & Co2).
    split; auto. split; [eapply incl_tran; eauto|]. split; [eapply incl_tran; eauto|]. split.
    - intros k Hk. destruct (So2 k Hk) as [X|X]; auto. destruct (So1 k X); auto.
    - intros k [X|X]; auto.
  Qed.

  Lemma mem_In : forall x l, mem x l = true <-> In x l.
  Proof.
    intros x l. unfold mem. rewrite existsb_exists. split.
    - intros (y & Y & E). apply Nat.eqb_eq in E. subst; auto.
    - intros Y. exists x. split; auto. apply Nat.eqb_refl.
  Qed.

  Theorem walk_good : forall fuel v, good (walk h fuel v) (reachv h v).
  Proof.
    induction fuel as [|f IH]; intros v.
    - intros a a' I H. discriminate.
    - destruct v as [|l|l|n]; simpl.
      + (* atom *) intros a a' I H. inversion H; subst. repeat split; auto; try apply incl_refl.
        intros k X. inversion X.
      + (* list *)
        eapply good_ext; [apply good_fold with (R := fun v k => reachv h v k); intros; apply IH|].
        intros k. split.
        * intros (x & X1 & X2). eapply r_list; eauto.
        * intros X. inversion X; subst. eauto.
      + (* dict *)
        eapply good_ext; [apply good_fold with (R := fun kv k => reachv h (fst kv) k \/ reachv h (snd kv) k)|].
        * intros kv _. apply (good_seq _ _ _ _ (IH (fst kv)) (IH (snd kv))).
        * intros k. split.
          -- intros (x & X1 & [X2|X2]); [eapply r_key|eapply r_val]; eauto.
          -- intros X. inversion X; subst; eauto.
      + (* configuration *)
        set (nd := get h n).
        set (Rp := fun k => exists p, In p (n_pre nd) /\ reachv h (VRef p) k).
        set (Ri := fun k => exists p, In p (n_init nd) /\ reachv h (VRef p) k).
        assert (Gp : good (fold_opt (fun x => walk h f (VRef x)) (n_pre nd)) Rp).
        { apply good_fold with (R := fun p k => reachv h (VRef p) k). intros; apply IH. }
        assert (Gi : good (fold_opt (fun x => walk h f (VRef x)) (n_init nd)) Ri).
        { apply good_fold with (R := fun p k => reachv h (VRef p) k). intros; apply IH. }
        intros a a' I H.
        destruct (fold_opt (fun x => walk h f (VRef x)) (n_pre nd) a) as [a1|] eqn:E1; [|discriminate].
        destruct (fold_opt (fun x => walk h f (VRef x)) (n_init nd) a1) as [a2|] eqn:E2; [|discriminate].
        destruct (Gp a a1 I E1) as (I1 & S1 & T1 & So1 & Co1).
        destruct (Gi a1 a2 I1 E2) as (I2 & S2 & T2 & So2 & Co2).
        assert (PRE : forall k, In k (fst a2) -> In k (fst a) \/ reachv h (VRef n) k).
        { intros k X. destruct (So2 k X) as [Y|(p & P1 & P2)].
          - destruct (So1 k Y) as [Z|(p & P1 & P2)]; auto. right. eapply r_pre; eauto.
          - right. eapply r_init; eauto. }
        destruct (n_task nd) as [t|] eqn:T; [destruct (n_loaded nd) eqn:LD|].
        * (* loaded: the mark is ignored, the fields are searched *)
          assert (Gf : good (fold_opt (walk h f) (n_fields nd)) (fun k => exists v, In v (n_fields nd) /\ reachv h v k)).
          { apply good_fold with (R := fun v k => reachv h v k). intros; apply IH. }
          destruct (Gf a2 a' I2 H) as (I3 & S3 & T3 & So3 & Co3).
          split; auto. split; [eapply incl_tran; [|eauto]; eapply incl_tran; eauto|].
          split; [eapply incl_tran; [|eauto]; eapply incl_tran; eauto|]. split.
          -- intros k X. destruct (So3 k X) as [Y|(v & V1 & V2)]; auto. right. eapply r_field; eauto.
          -- intros k X. inversion X; subst.
             ++ apply S3, S2, Co1. exists p; auto.
             ++ apply S3, Co2. exists p; auto.
             ++ match goal with Hl : n_loaded _ = false |- _ => assert (true = false) by (rewrite <- LD; exact Hl); discriminate end.
             ++ match goal with Hl : n_loaded _ = false |- _ => assert (true = false) by (rewrite <- LD; exact Hl); discriminate end.
             ++ apply Co3. eauto.
        * (* a task mark *)
          destruct (proj2 MK n t T) as (k0 & K0). destruct (proj1 MK t k0 K0) as (_ & J0).
          destruct (mem t (snd a2)) eqn:M.
          -- inversion H; subst a'. split; auto. split; [eapply incl_tran; eauto|]. split; [eapply incl_tran; eauto|].
             split; auto. intros k X. inversion X; subst.
             ++ apply S2, Co1. exists p; auto.
             ++ apply Co2. exists p; auto.
             ++ match goal with Hs : n_sub _ = Some k |- _ =>
                  destruct (proj1 MK n _ Hs) as (Hm & _);
                  assert (EQ : Some t = Some n) by (rewrite <- T; exact Hm); inversion EQ; subst;
                  apply (I2 n k); auto; apply mem_In; auto end.
             ++ match goal with Ht : n_task _ = Some ?t0, Hs : n_sub (get h ?t0) = Some _ |- _ =>
                  assert (EQ : Some t = Some t0) by (rewrite <- T; exact Ht); inversion EQ; subst;
                  apply (I2 t0 k); auto; apply mem_In; auto end.
             ++ match goal with Hd : _ \/ _ |- _ => destruct Hd as [Hd|(Hd&_)];
                  [assert (false = true) by (rewrite <- LD; exact Hd)|assert (Some t = None) by (rewrite <- T; exact Hd)]; discriminate end.
          -- rewrite J0 in H. inversion H; subst a'. simpl. split.
             { intros t' k [<-|X] Y.
               - rewrite K0 in Y. inversion Y; subst. apply in_or_app. right. simpl; auto.
               - apply in_or_app. left. eapply I2; eauto. }
             split; [eapply incl_tran; [|apply incl_appl, incl_refl]; eapply incl_tran; eauto|].
             split; [eapply incl_tran; [|apply incl_tl, incl_refl]; eapply incl_tran; eauto|]. split.
             ++ intros k X. apply in_app_or in X. destruct X as [X|[<-|[]]]; auto.
                right. eapply r_mark; eauto.
             ++ intros k X. apply in_or_app. inversion X; subst.
                ** left. apply S2, Co1. exists p; auto.
                ** left. apply Co2. exists p; auto.
                ** match goal with Hs : n_sub _ = Some k |- _ =>
                     destruct (proj1 MK n _ Hs) as (Hm & _);
                     assert (EQ : Some t = Some n) by (rewrite <- T; exact Hm); inversion EQ; subst;
                     assert (EQ2 : Some k0 = Some k) by (rewrite <- K0; exact Hs); inversion EQ2; subst end.
                   right; simpl; auto.
                ** match goal with Ht : n_task _ = Some ?t0, Hs : n_sub (get h ?t0) = Some _ |- _ =>
                     assert (EQ : Some t = Some t0) by (rewrite <- T; exact Ht); inversion EQ; subst;
                     assert (EQ2 : Some k0 = Some k) by (rewrite <- K0; exact Hs); inversion EQ2; subst end.
                   right; simpl; auto.
                ** match goal with Hd : _ \/ _ |- _ => destruct Hd as [Hd|(Hd&_)];
                     [assert (false = true) by (rewrite <- LD; exact Hd)|assert (Some t = None) by (rewrite <- T; exact Hd)]; discriminate end.
        * (* no mark: the fields are searched *)
          assert (Gf : good (fold_opt (walk h f) (n_fields nd)) (fun k => exists v, In v (n_fields nd) /\ reachv h v k)).
          { apply good_fold with (R := fun v k => reachv h v k). intros; apply IH. }
          assert (H' : fold_opt (walk h f) (n_fields nd) a2 = Some a') by (destruct (n_loaded nd); exact H).
          destruct (Gf a2 a' I2 H') as (I3 & S3 & T3 & So3 & Co3).
          split; auto. split; [eapply incl_tran; [|eauto]; eapply incl_tran; eauto|].
          split; [eapply incl_tran; [|eauto]; eapply incl_tran; eauto|]. split.
          -- assert (NSUB : n_sub nd = None).
             { destruct (n_sub nd) eqn:SB; auto. destruct (proj1 MK n _ SB) as (Hm & _). fold nd in Hm. congruence. }
             intros k X. destruct (So3 k X) as [Y|(v & V1 & V2)]; auto. right. eapply r_field; eauto.
          -- intros k X. inversion X; subst.
             ++ apply S3, S2, Co1. exists p; auto.
             ++ apply S3, Co2. exists p; auto.
             ++ match goal with Hs : n_sub _ = Some k |- _ =>
                  destruct (proj1 MK n _ Hs) as (Hm & _); assert (None = Some n) by (rewrite <- T; exact Hm); discriminate end.
             ++ match goal with Ht : n_task _ = Some ?t0 |- _ => assert (None = Some t0) by (rewrite <- T; exact Ht); discriminate end.
             ++ apply Co3. eauto.
  Qed.

  (* the dependency set computed at submit() = the registered jobs of the tasks reachable from the
     parameters (stopping at the first task on each path) + the explicit ones *)
  Theorem deps_exact : forall fuel root explicit ds,
    n_sub (get h root) = None ->
    collect h fuel root explicit = Some ds ->
    forall k, In k ds <-> (reachv h (VRef root) k \/ In k explicit).
  Proof.
    intros fuel root explicit ds NS H k. unfold collect in H.
    destruct (walk h fuel (VRef root) ([], [root])) as [[d t]|] eqn:E; [|discriminate]. inversion H; subst ds.
    assert (I : iacc ([], [root])).
    { intros t0 k0 [<-|[]] X. simpl in *. congruence. }
    destruct (walk_good fuel (VRef root) _ _ I E) as (_ & _ & _ & So & Co). simpl in *.
    rewrite in_app_iff. split.
    - intros [X|X]; auto. destruct (So k X) as [[]|Y]; auto.
    - intros [X|X]; auto.
  Qed.
End Exact.

(* ------------------------------------------------------------------ the duplicate-submission defect (#14) *)
(* a = Slow(x=1) submitted; b = Slow(x=1) submitted again: submit() returns a's output before
   marking b as a task, yet b carries a job; After(dep=b) is then submitted *)
Definition mk (fields : list value) (pre init : list nat) (task jobof sub : option nat) : node :=
  {| n_fields := fields; n_pre := pre; n_init := init; n_task := task; n_jobof := jobof; n_loaded := false; n_sub := sub |}.
Definition h_dup_prefix : heap :=
  [ mk [VAtom] [] [] (Some 0) (Some 0) (Some 0);      (* a: first submission, job 0 registered *)
    mk [VAtom] [] [] None (Some 1) (Some 0);          (* b: duplicate; no mark; its own job is not registered *)
    mk [VRef 1] [] [] None None None ].               (* After(dep=b), being submitted *)
(* the repair: on a duplicate, point the object at the registered job and mark it as a task *)
Definition h_dup_fixed : heap :=
  [ mk [VAtom] [] [] (Some 0) (Some 0) (Some 0);
    mk [VAtom] [] [] (Some 1) (Some 0) (Some 0);
    mk [VRef 1] [] [] None None None ].

Theorem deps_exact_dup_refuted : exists h root fuel,
  n_sub (get h root) = None /\ collect h fuel root [] = Some [] /\ reachv h (VRef root) 0.
Proof.
  exists h_dup_prefix, 2, 5. split; [reflexivity|]. split; [reflexivity|].
  apply r_field with (v := VRef 1); simpl; auto. apply r_task; reflexivity.
Qed.

Lemma marks_ok_dup_fixed : marks_ok h_dup_fixed.
Proof.
  split.
  - intros n k H. destruct n as [|[|[|n]]]; simpl in *; try discriminate; inversion H; subst; auto.
    destruct n; discriminate.
  - intros n t H. destruct n as [|[|[|n]]]; simpl in *; try discriminate; inversion H; subst; simpl; eauto.
    destruct n; discriminate.
Qed.

Example dup_fixed_collects : collect h_dup_fixed 5 2 [] = Some [0].
Proof. reflexivity. Qed.

(* deps_exact has non-trivial instances: a heap with every embedding *)
Definition h_all : heap :=
  [ mk [VAtom] [] [] (Some 0) (Some 0) (Some 0);                 (* 0: task t0 *)
    mk [VAtom] [] [] (Some 1) (Some 1) (Some 1);                 (* 1: task t1 (with task_outputs) *)
    mk [VAtom] [] [] (Some 1) None None;                         (* 2: Out config produced by t1 *)
    mk [VAtom] [] [] (Some 3) (Some 3) (Some 3);                 (* 3: task t3 *)
    mk [VAtom; VRef 3] [] [] None None None;                     (* 4: Pre(child=t3) lightweight task *)
    mk [VAtom; VList [VRef 2]] [] [] None None None;             (* 5: Node(items=[out of t1]) *)
    mk [VAtom] [] [] (Some 6) (Some 6) (Some 6);                 (* 6: task t6 *)
    mk [VAtom; VRef 0; VList [VRef 5]; VDict [(VAtom, VRef 0)]] [4] [6] None None None ].   (* 7: submitted now *)
Lemma marks_ok_all : marks_ok h_all.
Proof.
  split.
  - intros n k H. do 8 (destruct n as [|n]; [simpl in *; try discriminate; inversion H; subst; auto|]).
    destruct n; discriminate.
  - intros n t H. do 8 (destruct n as [|n]; [simpl in *; try discriminate; inversion H; subst; simpl; eauto|]).
    destruct n; discriminate.
Qed.
Example all_collects : collect h_all 8 7 [] = Some [3; 6; 0; 1].
Proof. reflexivity. Qed.

(* ------------------------------------------------------------------ the recursion depth (audit, finding 10) *)
(* `collect = Some ds` is a hypothesis of deps_exact; it is not vacuous: the walk ends on every
   configuration without an infinite chain of references, from some recursion depth on, and more
   depth never changes the result *)
Definition total_from (h : heap) (v : value) (n : nat) : Prop :=
  forall m, n <= m -> forall a, exists a', walk h m v a = Some a'.

Lemma common_fuel : forall A (P : nat -> A -> Prop) (l : list A),
  (forall x, In x l -> exists n, forall m, n <= m -> P m x) ->
  exists n, forall m, n <= m -> forall x, In x l -> P m x.
Proof.
  intros A P. induction l as [|x r IH]; intros H.
  - exists 0. intros m _ x [].
  - destruct (H x (or_introl eq_refl)) as (n1 & H1).
    destruct IH as (n2 & H2); [intros y Y; apply H; right; auto|].
    exists (max n1 n2). intros m M y [<-|Y]; [apply H1; lia|apply H2; auto; lia].
Qed.

Lemma fold_total : forall A (g : A -> acc -> option acc) l,
  (forall x, In x l -> forall a, exists a', g x a = Some a') -> forall a, exists a', fold_opt g l a = Some a'.
Proof.
  intros A g. induction l as [|x r IH]; intros H a; simpl; [eauto|].
  destruct (H x (or_introl eq_refl) a) as (a1 & E). rewrite E. apply IH. intros y Y. apply H. right; auto.
Qed.

Theorem walk_total : forall h, marks_ok h -> forall v, finite h v -> exists n, total_from h v n.
Proof.
  intros h MK v F. induction F as [|l _ IH|l _ IH1 _ IH2|n _ IHp _ IHi _ IHf].
  - exists 1. intros m M a. destruct m; [lia|]. simpl. eauto.
  - destruct (common_fuel _ (fun m v => forall a, exists a', walk h m v a = Some a') l IH) as (n & H).
    exists (S n). intros m M a. destruct m as [|m]; [lia|]. simpl. apply fold_total. intros x X. apply H; auto. lia.
  - destruct (common_fuel _ (fun m kv => forall a, exists a', walk h m (fst kv) a = Some a') l IH1) as (n1 & H1).
    destruct (common_fuel _ (fun m kv => forall a, exists a', walk h m (snd kv) a = Some a') l IH2) as (n2 & H2).
    exists (S (max n1 n2)). intros m M a. destruct m as [|m]; [lia|]. simpl. apply fold_total. intros kv X a0.
    destruct (H1 m ltac:(lia) kv X a0) as (a1 & E1). rewrite E1. apply H2; auto. lia.
  - destruct (common_fuel _ (fun m p => forall a, exists a', walk h m (VRef p) a = Some a') _ IHp) as (n1 & H1).
    destruct (common_fuel _ (fun m p => forall a, exists a', walk h m (VRef p) a = Some a') _ IHi) as (n2 & H2).
    assert (FF : exists n3, n_task (get h n) = None \/ n_loaded (get h n) = true ->
                   forall m, n3 <= m -> forall v, In v (n_fields (get h n)) -> forall a, exists a', walk h m v a = Some a').
    { destruct (n_task (get h n)) as [t|] eqn:T; [destruct (n_loaded (get h n)) eqn:LD|].
      - destruct (common_fuel _ (fun m v => forall a, exists a', walk h m v a = Some a') _ (IHf (or_intror eq_refl))) as (n3 & H3).
        exists n3. intros _. exact H3.
      - exists 0. intros [X|X]; discriminate.
      - destruct (common_fuel _ (fun m v => forall a, exists a', walk h m v a = Some a') _ (IHf (or_introl eq_refl))) as (n3 & H3).
        exists n3. intros _. exact H3. }
    destruct FF as (n3 & H3).
    exists (S (max n1 (max n2 n3))). intros m M a. destruct m as [|m]; [lia|]. simpl.
    destruct (fold_total _ (fun x => walk h m (VRef x)) (n_pre (get h n)) (fun x X => H1 m ltac:(lia) x X) a) as (a1 & E1).
    rewrite E1.
    destruct (fold_total _ (fun x => walk h m (VRef x)) (n_init (get h n)) (fun x X => H2 m ltac:(lia) x X) a1) as (a2 & E2).
    rewrite E2.
    destruct (n_task (get h n)) as [t|] eqn:T; [destruct (n_loaded (get h n)) eqn:LD|].
    + apply fold_total. intros x X. apply (H3 (or_intror eq_refl) m); auto. lia.
    + destruct (mem t (snd a2)); [eauto|].
      destruct (proj2 MK n t T) as (k & K). destruct (proj1 MK t k K) as (_ & J). rewrite J. eauto.
    + assert (G : forall a, exists a', fold_opt (walk h m) (n_fields (get h n)) a = Some a').
      { apply fold_total. intros x X. apply (H3 (or_introl eq_refl) m); auto. lia. }
      destruct (n_loaded (get h n)); apply G.
Qed.

(* the walk of submit() ends on every configuration without an infinite chain of references: there is a
   recursion depth from which `collect` gives a result *)
Theorem collect_total : forall h root explicit, marks_ok h -> finite h (VRef root) ->
  exists n, forall m, n <= m -> exists ds, collect h m root explicit = Some ds.
Proof.
  intros h root explicit MK F. destruct (walk_total h MK _ F) as (n & H). exists n. intros m M.
  unfold collect. destruct (H m M ([], [root])) as ([ds t] & E). rewrite E. eauto.
Qed.

(* more recursion depth never changes a result *)
Lemma fold_mono : forall A (g g' : A -> acc -> option acc) l,
  (forall x a a', In x l -> g x a = Some a' -> g' x a = Some a') ->
  forall a a', fold_opt g l a = Some a' -> fold_opt g' l a = Some a'.
Proof.
  intros A g g'. induction l as [|x r IH]; intros H a a' E; simpl in *; auto.
  destruct (g x a) as [a1|] eqn:G; [|discriminate]. rewrite (H x a a1 (or_introl eq_refl) G).
  apply IH; [intros y b b' Y; apply H; right; auto|exact E].
Qed.

Definition walk_body (h : heap) (w : value -> acc -> option acc) (v : value) (a : acc) : option acc :=
  match v with
  | VAtom => Some a
  | VList l => fold_opt w l a
  | VDict l => fold_opt (fun kv a => match w (fst kv) a with Some a1 => w (snd kv) a1 | None => None end) l a
  | VRef n =>
      let nd := get h n in
      match fold_opt (fun x => w (VRef x)) (n_pre nd) a with
      | None => None
      | Some a1 =>
          match fold_opt (fun x => w (VRef x)) (n_init nd) a1 with
          | None => None
          | Some a2 =>
              match n_task nd, n_loaded nd with
              | Some t, false =>
                  if mem t (snd a2) then Some a2
                  else match n_jobof (get h t) with
                       | Some k => Some (fst a2 ++ [k], t :: snd a2)
                       | None => None
                       end
              | _, _ => fold_opt w (n_fields nd) a2
              end
          end
      end
  end.
Lemma walk_S : forall h f v a, walk h (S f) v a = walk_body h (walk h f) v a.
Proof. reflexivity. Qed.

Lemma body_mono : forall h (w w' : value -> acc -> option acc),
  (forall v a a', w v a = Some a' -> w' v a = Some a') ->
  forall v a a', walk_body h w v a = Some a' -> walk_body h w' v a = Some a'.
Proof.
  intros h w w' M v a a' H. destruct v as [|l|l|n]; simpl in *; auto.
  - apply fold_mono with (g := w); auto.
  - apply fold_mono with (g := fun kv a => match w (fst kv) a with Some a1 => w (snd kv) a1 | None => None end); auto.
    intros kv b b' _ X. destruct (w (fst kv) b) as [b1|] eqn:E1; [|discriminate]. rewrite (M _ _ _ E1). auto.
  - destruct (fold_opt (fun x => w (VRef x)) (n_pre (get h n)) a) as [a1|] eqn:E1; [|discriminate].
    rewrite (fold_mono _ (fun x => w (VRef x)) (fun x => w' (VRef x)) _ (fun x b b' _ X => M _ _ _ X) _ _ E1).
    destruct (fold_opt (fun x => w (VRef x)) (n_init (get h n)) a1) as [a2|] eqn:E2; [|discriminate].
    rewrite (fold_mono _ (fun x => w (VRef x)) (fun x => w' (VRef x)) _ (fun x b b' _ X => M _ _ _ X) _ _ E2).
    assert (G : forall b b', fold_opt w (n_fields (get h n)) b = Some b' -> fold_opt w' (n_fields (get h n)) b = Some b').
    { apply fold_mono. intros x b b' _ X. auto. }
    destruct (n_task (get h n)) as [t|]; [destruct (n_loaded (get h n))|]; auto.
Qed.

Lemma walk_mono : forall h f v a a', walk h f v a = Some a' -> walk h (S f) v a = Some a'.
Proof.
  intros h. induction f as [|f IH]; intros v a a' H; [discriminate|].
  rewrite walk_S. rewrite walk_S in H. apply body_mono with (w := walk h f); auto.
Qed.

Theorem collect_stable : forall h f f' root explicit ds, f <= f' ->
  collect h f root explicit = Some ds -> collect h f' root explicit = Some ds.
Proof.
  intros h f f' root explicit ds L H. induction L as [|m L IH]; auto.
  unfold collect in *. destruct (walk h m (VRef root) ([], [root])) as [[d t]|] eqn:E; [|discriminate].
  rewrite (walk_mono _ _ _ _ _ E). exact IH.
Qed.

(* a configuration that contains itself: submit() raises RecursionError; no depth gives a result *)
Definition h_cyc : heap := [ mk [VRef 0] [] [] None None None ].
Theorem cyclic_never_collects : forall fuel explicit, collect h_cyc fuel 0 explicit = None.
Proof.
  intros fuel explicit. unfold collect.
  assert (G : forall f a, walk h_cyc f (VRef 0) a = None).
  { induction f as [|f IH]; intros a; [reflexivity|]. simpl. 
    destruct f as [|f]; [reflexivity|]. change (walk h_cyc (S f) (VRef 0) a) with (walk h_cyc (S f) (VRef 0) a). rewrite IH. reflexivity. }
  rewrite G. reflexivity.
Qed.
Lemma cyclic_not_finite : ~ finite h_cyc (VRef 0).
Proof.
  intros F. remember (VRef 0) as v eqn:E. induction F as [|l _ _|l _ _ _ _|n _ _ _ _ Hf IHf]; try discriminate.
  inversion E; subst n. apply (IHf (or_introl eq_refl) (VRef 0)); simpl; auto.
Qed.

(* the hypotheses of collect_total hold of the heap with every embedding *)
Ltac fin_step :=
  match goal with
  | |- finite _ VAtom => apply f_atom
  | |- finite _ (VList _) => apply f_list; simpl; intros ? HH
  | |- finite _ (VDict _) => apply f_dict; simpl; intros ? HH
  | |- finite _ (VRef _) => apply f_ref; simpl; [intros ? HH|intros ? HH|intros _ ? HH]
  | HH : False |- _ => contradiction
  | HH : _ \/ _ |- _ => destruct HH as [HH|HH]; [subst; simpl|]
  end.
Example finite_all : finite h_all (VRef 7).
Proof. repeat fin_step. Qed.

(* ------------------------------------------------------------------ truth value of the task object (round 4) *)
(* Dataset(items=[]) submitted (a task whose __len__ is 0), then Consumer(dataset=d): the unchanged
   `if self.task and not self.loaded` does not see the mark of the falsy task, searches its parameters and
   registers nothing *)
Definition h_falsy : heap :=
  [ mk [VAtom] [] [] (Some 0) (Some 0) (Some 0);      (* 0: the submitted task, evaluates to False *)
    mk [VRef 0] [] [] None None None ].               (* 1: Consumer(dataset=d), being submitted *)
Definition falsy0 (t : nat) : bool := Nat.eqb t 0.

Theorem deps_exact_falsy_task_refuted : exists h falsy root fuel,
  marks_ok h /\ n_sub (get h root) = None /\
  collect (blind falsy h) fuel root [] = Some [] /\ reachv h (VRef root) 0 /\
  collect h fuel root [] = Some [0].
Proof.
  exists h_falsy, falsy0, 1, 5. split.
  { split.
    - intros n k H. destruct n as [|[|n]]; simpl in *; try discriminate; inversion H; subst; auto.
      destruct n; discriminate.
    - intros n t H. destruct n as [|[|n]]; simpl in *; try discriminate; inversion H; subst; simpl; eauto.
      destruct n; discriminate. }
  split; [reflexivity|]. split; [reflexivity|]. split; [|reflexivity].
  apply r_field with (v := VRef 0); simpl; auto. apply r_task; reflexivity.
Qed.

(* when no marked task evaluates to False the literal walk is the walk *)
Lemma blind_none : forall h, blind (fun _ => false) h = h.
Proof.
  intros h. unfold blind. rewrite <- (map_id h) at 2. apply map_ext. intros nd. unfold blind_node.
  destruct (n_task nd); reflexivity.
Qed.

(* ------------------------------------------------------------------ a copied mark hides the parameters (round 6) *)
(* slow = Slow().submit(); quick = Quick().submit(); consumer = Consumer(slow=slow); consumer.copy_dependencies(quick):
   the consumer carries the mark of quick when it is submitted; the unchanged walk stops there *)
Definition h_copied : heap :=
  [ mk [VAtom] [] [] (Some 0) (Some 0) (Some 0);      (* 0: slow, submitted *)
    mk [VAtom] [] [] (Some 1) (Some 1) (Some 1);      (* 1: quick, submitted *)
    mk [VRef 0] [] [] (Some 1) None None ].           (* 2: Consumer(slow=slow) with the mark of quick copied *)

Theorem copied_mark_hides_refuted : exists h cp root fuel,
  n_sub (get h root) = None /\
  collect h fuel root [] = Some [1] /\
  reachv (uncopy cp h) (VRef root) 0 /\
  collect (uncopy cp h) fuel root [] = Some [0; 1].
Proof.
  exists h_copied, [2], 2, 6. split; [reflexivity|]. split; [reflexivity|]. split; [|reflexivity].
  apply r_field with (v := VRef 0); simpl; auto. apply r_task; reflexivity.
Qed.

(* without copied marks nothing changes *)
Lemma uncopy_nil_get : forall h n, get (uncopy [] h) n = get h n.
Proof.
  intros h n. unfold uncopy, get. simpl. rewrite app_nil_r.
  assert (G : forall (l : list node) a, map (fun p => uncopy_node [] (length h) (fst p) (snd p)) (combine (seq a (length l)) l) = l).
  { induction l as [|x r IH]; intros a; simpl; [reflexivity|]. rewrite IH. reflexivity. }
  rewrite G. reflexivity.
Qed.
