From Coq Require Import ZArith List Bool Lia Permutation.
From XV Require Import model.Launcher.
Import ListNotations.
Open Scope Z_scope.

(* ---------- match_simple: sound and complete ---------- *)

(* the documented meaning of a match, as a proposition *)
Definition satisfies (r : req) (h : host) : Prop :=
  (length (r_gpus r) <= length (h_cuda h))%nat /\
  (forall i m, nth_error (r_gpus r) i = Some m ->
      exists g, nth_error (h_cuda h) i = Some g /\ m <= g_mem g /\ g_min g <= m) /\
  c_mem (r_cpu r) <= c_mem (h_cpu h) /\
  c_cores (r_cpu r) <= c_cores (h_cpu h) /\
  (0 < h_maxdur h -> r_dur r <= h_maxdur h) /\
  h_mingpu h <= zlen (r_gpus r).

Lemma zip_ok_spec : forall hs rs,
  (length rs <= length hs)%nat ->
  (zip_ok hs rs = true <->
   forall i m, nth_error rs i = Some m ->
     exists g, nth_error hs i = Some g /\ m <= g_mem g /\ g_min g <= m).
Proof.
  induction hs as [|hg hs IH]; intros rs Hlen.
  - destruct rs as [|m rs]; [|simpl in Hlen; lia]. simpl. split; [|reflexivity].
    intros _ i m H. destruct i; discriminate.
  - destruct rs as [|m rs].
    + simpl. split; [|reflexivity]. intros _ i m H. destruct i; discriminate.
    + simpl in Hlen. cbn [zip_ok]. rewrite andb_true_iff. rewrite (IH rs) by lia.
      unfold gpu_ok. rewrite andb_true_iff, !Z.leb_le. split.
      * intros [[H1 H2] H3] i m' Hi. destruct i as [|i]; simpl in *.
        -- inversion Hi; subst. exists hg. auto.
        -- apply H3; assumption.
      * intros H. split.
        -- destruct (H 0%nat m eq_refl) as [g [Hg [H1 H2]]]. simpl in Hg. inversion Hg; subst. auto.
        -- intros i m' Hi. apply (H (S i) m'). exact Hi.
Qed.

Lemma isnil_length {A} (l : list A) : isnil l = true <-> length l = 0%nat.
Proof. destruct l; simpl; split; congruence. Qed.

Lemma match_simple_iff : forall r h s,
  match_simple r h = Some s <-> (satisfies r h /\ s = h_prio h).
Proof.
  intros r h s. unfold match_simple, match_with, satisfies, cpu_lt, zlen.
  destruct (isnil (r_gpus r)) eqn:Hnil.
  - (* no GPU requested *)
    apply isnil_length in Hnil. cbn [negb andb].
    assert (Hnth : forall i m, nth_error (r_gpus r) i = Some m -> False).
    { intros i m H. destruct (r_gpus r); [destruct i; discriminate | discriminate]. }
    rewrite Hnil.
    destruct (Z.of_nat 0 <? h_mingpu h) eqn:E1;
    destruct (c_mem (h_cpu h) <? c_mem (r_cpu r)) eqn:E2;
    destruct (c_cores (h_cpu h) <? c_cores (r_cpu r)) eqn:E3;
    destruct (0 <? h_maxdur h) eqn:E4;
    destruct (h_maxdur h <? r_dur r) eqn:E5; cbn [orb andb];
    rewrite ?Z.ltb_lt, ?Z.ltb_ge in *;
    (split; [ intros H; try discriminate; inversion H; subst; repeat split; try lia;
              intros i m Hi; exfalso; eauto
            | intros [(H0 & H1 & H2 & H3 & H4 & H5) Hs]; subst; try reflexivity; exfalso; lia ]).
  - cbn [negb andb].
    destruct (Z.of_nat (length (h_cuda h)) <? Z.of_nat (length (r_gpus r))) eqn:E0.
    { rewrite Z.ltb_lt in E0. split; [discriminate|]. intros [(H0 & _) _]. lia. }
    rewrite Z.ltb_ge in E0. assert (Hlen : (length (r_gpus r) <= length (h_cuda h))%nat) by lia.
    pose proof (zip_ok_spec (h_cuda h) (r_gpus r) Hlen) as Hz.
    destruct (zip_ok (h_cuda h) (r_gpus r)) eqn:Ez; cbn [negb].
    2:{ split; [discriminate|]. intros [(H0 & H1 & _) _]. apply Hz in H1. discriminate. }
    assert (Hz' : forall i m, nth_error (r_gpus r) i = Some m ->
       exists g, nth_error (h_cuda h) i = Some g /\ m <= g_mem g /\ g_min g <= m)
      by (apply Hz; reflexivity).
    destruct (Z.of_nat (length (r_gpus r)) <? h_mingpu h) eqn:E1;
    destruct (c_mem (h_cpu h) <? c_mem (r_cpu r)) eqn:E2;
    destruct (c_cores (h_cpu h) <? c_cores (r_cpu r)) eqn:E3;
    destruct (0 <? h_maxdur h) eqn:E4;
    destruct (h_maxdur h <? r_dur r) eqn:E5; cbn [orb andb];
    rewrite ?Z.ltb_lt, ?Z.ltb_ge in *;
    (split; [ intros H; try discriminate; inversion H; subst; repeat split; try lia; assumption
            | intros [(H0 & H1 & H2 & H3 & H4 & H5) Hs]; subst; try reflexivity; exfalso; lia ]).
Qed.

Lemma match_sound : forall r h s, match_simple r h = Some s -> satisfies r h.
Proof. intros r h s H. apply match_simple_iff in H. tauto. Qed.

Lemma match_complete : forall r h, satisfies r h -> match_simple r h = Some (h_prio h).
Proof. intros r h H. apply match_simple_iff. auto. Qed.

(* the pinned commit's comparison is unsound: a 70 GB request matches a 12 GB host *)
Definition bad_req : req := {| r_gpus := []; r_cpu := {| c_mem := 70000000000; c_cores := 1 |}; r_dur := 0 |}.
Definition bad_host : host :=
  {| h_cuda := []; h_cpu := {| c_mem := 12000000000; c_cores := 1 |}; h_prio := 0; h_maxdur := 0; h_mingpu := 0 |}.
Lemma match_conj_refuted : exists r h s, match_simple_conj r h = Some s /\ ~ satisfies r h.
Proof.
  exists bad_req, bad_host, 0. split; [vm_compute; reflexivity|].
  unfold satisfies. cbn. lia.
Qed.

(* non-vacuity: some request with GPUs satisfies some host *)
Example match_sound_nonvacuous :
  match_simple {| r_gpus := [10; 20]; r_cpu := {| c_mem := 7; c_cores := 1 |}; r_dur := 5 |}
               {| h_cuda := [{| g_mem := 48; g_min := 0 |}; {| g_mem := 24; g_min := 12 |}];
                  h_cpu := {| c_mem := 12; c_cores := 4 |}; h_prio := 3; h_maxdur := 10; h_mingpu := 1 |}
  = Some 3.
Proof. vm_compute. reflexivity. Qed.

(* ---------- union: the first matching alternative wins ---------- *)

Lemma match_score : forall r h s, match_simple r h = Some s -> s = h_prio h.
Proof. intros r h s H. apply match_simple_iff in H. tauto. Qed.

Lemma union_go_some : forall rs h i j, union_go rs h i (Some (j, h_prio h)) = Some (j, h_prio h).
Proof.
  induction rs as [|r rs IH]; intros h i j; cbn [union_go]; [reflexivity|].
  destruct (match_simple r h) eqn:E.
  - apply match_score in E. subst. rewrite Z.ltb_irrefl. apply IH.
  - apply IH.
Qed.

Lemma union_go_first : forall rs h i, union_go rs h i None = first_match rs h i.
Proof.
  induction rs as [|r rs IH]; intros h i; cbn [union_go first_match]; [reflexivity|].
  destruct (match_simple r h) eqn:E.
  - pose proof (match_score _ _ _ E); subst. apply union_go_some.
  - apply IH.
Qed.

Lemma union_first : forall rs h, union_match rs h = first_match rs h 0%nat.
Proof. intros. apply union_go_first. Qed.

Lemma first_match_spec : forall rs h i k s,
  first_match rs h i = Some (k, s) ->
  exists j, k = (i + j)%nat /\
    (exists r, nth_error rs j = Some r /\ match_simple r h = Some s) /\
    (forall j' r', (j' < j)%nat -> nth_error rs j' = Some r' -> match_simple r' h = None).
Proof.
  induction rs as [|r rs IH]; intros h i k s H; cbn [first_match] in H; [discriminate|].
  destruct (match_simple r h) eqn:E.
  - inversion H; subst. exists 0%nat. split; [lia|]. split.
    + exists r. auto.
    + intros j' r' Hj. lia.
  - apply IH in H. destruct H as [j [Hk [[r0 [Hr0 Hm]] Hbefore]]].
    exists (S j). split; [lia|]. split.
    + exists r0. auto.
    + intros j' r' Hj Hn. destruct j' as [|j']; simpl in Hn.
      * inversion Hn; subst. exact E.
      * apply (Hbefore j' r'); [lia|exact Hn].
Qed.

Lemma first_match_none : forall rs h i,
  first_match rs h i = None -> forall r, In r rs -> match_simple r h = None.
Proof.
  induction rs as [|r rs IH]; intros h i H r0 Hin; [destruct Hin|].
  cbn [first_match] in H. destruct (match_simple r h) eqn:E; [discriminate|].
  destruct Hin as [->|Hin]; [exact E|]. eapply IH; eauto.
Qed.

Lemma union_sound : forall rs h k s,
  union_match rs h = Some (k, s) ->
  exists r, nth_error rs k = Some r /\ satisfies r h /\
    (forall j' r', (j' < k)%nat -> nth_error rs j' = Some r' -> match_simple r' h = None).
Proof.
  intros rs h k s H. rewrite union_first in H. apply first_match_spec in H.
  destruct H as [j [Hk [[r [Hr Hm]] Hb]]]. simpl in Hk. subst k.
  exists r. split; [exact Hr|]. split; [eapply match_sound; eauto|exact Hb].
Qed.

(* ---------- sort ---------- *)
Lemma insert_perm : forall x l, Permutation (x :: l) (insert x l).
Proof.
  induction l as [|y l IH]; simpl; [constructor; constructor|].
  destruct (x <=? y); [apply Permutation_refl|].
  eapply perm_trans; [apply perm_swap|]. constructor. exact IH.
Qed.
Lemma sort_perm : forall l, Permutation l (sort l).
Proof.
  induction l as [|x l IH]; simpl; [constructor|].
  eapply perm_trans; [|apply insert_perm]. constructor. exact IH.
Qed.
Lemma sort_length l : length (sort l) = length l.
Proof. symmetry. apply Permutation_length, sort_perm. Qed.

Inductive sorted : list Z -> Prop :=
| sorted_nil : sorted []
| sorted_one x : sorted [x]
| sorted_cons x y l : x <= y -> sorted (y :: l) -> sorted (x :: y :: l).
Lemma insert_sorted x l : sorted l -> sorted (insert x l).
Proof.
  induction 1 as [|y|y z l Hyz Hs IH]; simpl.
  - constructor.
  - destruct (x <=? y) eqn:E; [apply Z.leb_le in E|apply Z.leb_gt in E]; repeat constructor; lia.
  - simpl in IH. destruct (x <=? y) eqn:E; [apply Z.leb_le in E|apply Z.leb_gt in E].
    + repeat constructor; try lia; assumption.
    + destruct (x <=? z) eqn:E2; [apply Z.leb_le in E2|apply Z.leb_gt in E2].
      * repeat constructor; try lia; assumption.
      * constructor; [lia|exact IH].
Qed.
Lemma sort_sorted l : sorted (sort l).
Proof. induction l; simpl; [constructor|apply insert_sorted; assumption]. Qed.

(* a combined request asks for everything both operands ask for *)
Lemma add_req_covers a b :
  Permutation (r_gpus a ++ r_gpus b) (r_gpus (add_req a b)) /\
  c_mem (r_cpu a) <= c_mem (r_cpu (add_req a b)) /\ c_mem (r_cpu b) <= c_mem (r_cpu (add_req a b)) /\
  c_cores (r_cpu a) <= c_cores (r_cpu (add_req a b)) /\ c_cores (r_cpu b) <= c_cores (r_cpu (add_req a b)) /\
  r_dur a <= r_dur (add_req a b) /\ r_dur b <= r_dur (add_req a b).
Proof. unfold add_req; cbn. split; [apply sort_perm|lia]. Qed.

(* ---------- & and * leave their operands untouched ---------- *)
Lemma nth_set_nth_other {A} : forall (l : list A) n m x d, n <> m -> nth m (set_nth n x l) d = nth m l d.
Proof.
  induction l as [|y l IH]; intros n m x d Hnm; [destruct n; reflexivity|].
  destruct n, m; simpl; try reflexivity; try congruence. apply IH. congruence.
Qed.
Lemma nth_set_nth_same {A} : forall (l : list A) n x d, (n < length l)%nat -> nth n (set_nth n x l) d = x.
Proof.
  induction l as [|y l IH]; intros n x d Hn; simpl in Hn; [lia|].
  destruct n; simpl; [reflexivity|]. apply IH. lia.
Qed.
Lemma set_nth_length {A} : forall (l : list A) n x, length (set_nth n x l) = length l.
Proof. induction l as [|y l IH]; intros [|n] x; simpl; auto. Qed.

Lemma view_deep_copy st o : valid st o ->
  let '(st1, n) := deep_copy st o in
  view st1 n = view st o /\ valid st1 n /\
  (o_cpu n = length (s_cpus st)) /\ (o_list n = length (s_lists st)) /\
  (forall p, valid st p -> view st1 p = view st p).
Proof.
  intros [Hc Hl]. unfold deep_copy, view, valid. cbn.
  rewrite !app_nth2, !Nat.sub_diag by lia. cbn.
  rewrite !app_length. cbn. repeat split; try lia.
  intros p [Hpc Hpl]. rewrite !app_nth1 by lia. reflexivity.
Qed.

Lemma add_into_spec st self other st' n : valid st self -> add_into st self other = (st', n) ->
  view st' n = add_req (view st self) (view st other) /\
  (forall p, o_cpu p <> o_cpu self -> o_list p <> o_list self -> view st' p = view st p).
Proof.
  intros [Hc Hl] H. unfold add_into in H.
  remember (add_req (view st self) (view st other)) as r eqn:Hr.
  injection H as <- <-. split.
  - unfold view at 1; cbn [s_cpus s_lists o_cpu o_list o_dur].
    rewrite !nth_set_nth_same by assumption. destruct r; reflexivity.
  - intros p Hpc Hpl. unfold view; cbn [s_cpus s_lists].
    rewrite !nth_set_nth_other by congruence. reflexivity.
Qed.

Lemma and_op_pure : forall st a b st' n,
  valid st a -> valid st b -> and_op st a b = (st', n) ->
  view st' a = view st a /\ view st' b = view st b /\ view st' n = add_req (view st a) (view st b).
Proof.
  intros st a b st' n Ha Hb H. unfold and_op, and_with in H.
  pose proof (view_deep_copy st a Ha) as Hd. destruct (deep_copy st a) as [st1 c].
  destruct Hd as (Hv & Hvalid & Hic & Hil & Hothers).
  destruct (add_into_spec _ _ _ _ _ Hvalid H) as [Hn Hrest].
  rewrite Hv, (Hothers b Hb) in Hn.
  destruct Ha as [Hac Hal], Hb as [Hbc Hbl].
  split; [|split; [|exact Hn]].
  - rewrite Hrest by lia. apply Hothers. split; assumption.
  - rewrite Hrest by lia. apply Hothers. split; assumption.
Qed.

Lemma repeat_app_cons_nil : forall l n acc, repeat_app l n acc = acc ++ repeat_app l n [].
Proof.
  intros l n; induction n as [|n IH]; intros acc; simpl; [rewrite app_nil_r; reflexivity|].
  rewrite (IH (acc ++ l)), (IH l), app_assoc. reflexivity.
Qed.

Lemma mul_op_pure : forall st a count st' n,
  valid st a -> mul_op st a count = (st', n) ->
  view st' a = view st a /\ view st' n = mul_req (view st a) count.
Proof.
  intros st a count st' n Ha H. unfold mul_op, mul_req in *.
  destruct (count =? 1).
  - inversion H; subst. auto.
  - pose proof (view_deep_copy st a Ha) as Hd. destruct (deep_copy st a) as [st1 c].
    destruct Hd as (Hv & [Hcc Hcl] & Hic & Hil & Hothers). inversion H; subst st' n; clear H.
    destruct Ha as [Hac Hal]. split.
    + rewrite <- (Hothers a) by (split; assumption). unfold view; cbn [s_cpus s_lists].
      rewrite nth_set_nth_other by lia. reflexivity.
    + assert (Hg1 : nth (o_list c) (s_lists st1) [] = r_gpus (view st a)) by (rewrite <- Hv; reflexivity).
      assert (Hc1 : nth (o_cpu c) (s_cpus st1) dcpu = r_cpu (view st a)) by (rewrite <- Hv; reflexivity).
      assert (Hd1 : o_dur c = r_dur (view st a)) by (rewrite <- Hv; reflexivity).
      unfold view at 1; cbn [s_cpus s_lists o_cpu o_list o_dur].
      rewrite nth_set_nth_same by assumption.
      rewrite Hc1, Hd1, Hg1. unfold view; cbn [r_gpus r_cpu r_dur]. reflexivity.
Qed.

(* the pinned commit's shallow copy lets a & b change a *)
Definition st0 : store := {| s_cpus := [dcpu; {| c_mem := 5; c_cores := 2 |}]; s_lists := [[]; [7]] |}.
Definition oa : robj := {| o_cpu := 0; o_list := 0; o_dur := 0 |}.
Definition ob : robj := {| o_cpu := 1; o_list := 1; o_dur := 3 |}.
Lemma and_shallow_refuted : exists st a b, valid st a /\ valid st b /\
  view (fst (and_op_shallow st a b)) a <> view st a.
Proof.
  exists st0, oa, ob. repeat split; try (cbn; lia). vm_compute. discriminate.
Qed.
Example and_op_nonvacuous : valid st0 oa /\ valid st0 ob /\
  view (fst (and_op st0 oa ob)) oa = view st0 oa /\
  r_gpus (view (fst (and_op st0 oa ob)) (snd (and_op st0 oa ob))) = [7].
Proof. repeat split; try (cbn; lia). Qed.

(* ---------- LauncherRegistry.find: each alternative in turn, then each host ---------- *)

Lemma union_single : forall r h, union_match [r] h =
  match match_simple r h with Some s => Some (0%nat, s) | None => None end.
Proof. intros. rewrite union_first. cbn. destruct (match_simple r h); reflexivity. Qed.

(* first host, in the order of launchers.py, that the simple requirement matches *)
Fixpoint find_host (r : req) (hs : list host) (j : nat) : option nat :=
  match hs with
  | [] => None
  | h :: hs' => match match_simple r h with Some _ => Some j | None => find_host r hs' (S j) end
  end.

Lemma launcher_fn_single : forall r hs j,
  launcher_fn [r] hs j = match find_host r hs j with Some j' => Some (0%nat, j') | None => None end.
Proof.
  intros r hs; induction hs as [|h hs IH]; intros j; cbn [launcher_fn find_host]; [reflexivity|].
  rewrite union_single. destruct (match_simple r h); [reflexivity|apply IH].
Qed.

Lemma find_host_spec : forall r hs j j',
  find_host r hs j = Some j' ->
  exists d h, j' = (j + d)%nat /\ nth_error hs d = Some h /\ satisfies r h /\
    (forall d' h', (d' < d)%nat -> nth_error hs d' = Some h' -> ~ satisfies r h').
Proof.
  intros r hs; induction hs as [|h hs IH]; intros j j' H; cbn [find_host] in H; [discriminate|].
  destruct (match_simple r h) eqn:E.
  - inversion H; subst. exists 0%nat, h.
    split; [lia|]. split; [reflexivity|]. split; [eapply match_sound; eauto|intros; lia].
  - apply IH in H. destruct H as (d & h0 & Hj & Hn & Hs & Hb).
    exists (S d), h0. split; [lia|]. split; [exact Hn|]. split; [exact Hs|].
    intros d' h' Hd Hn' Hsat. destruct d' as [|d']; simpl in Hn'.
    + inversion Hn'; subst. apply match_complete in Hsat. congruence.
    + apply (Hb d' h'); [lia|exact Hn'|exact Hsat].
Qed.

Lemma find_host_none : forall r hs j, find_host r hs j = None -> forall h, In h hs -> ~ satisfies r h.
Proof.
  intros r hs; induction hs as [|h hs IH]; intros j H h0 Hin Hsat; [destruct Hin|].
  cbn [find_host] in H. destruct (match_simple r h) eqn:E; [discriminate|].
  destruct Hin as [->|Hin].
  - apply match_complete in Hsat. congruence.
  - eapply IH; eauto.
Qed.

Lemma registry_go_singletons : forall rs hs off i j,
  registry_go (singletons rs) hs off = Some (i, j) ->
  exists d r h, i = (off + d)%nat /\ nth_error rs d = Some r /\ nth_error hs j = Some h /\ satisfies r h /\
    (forall d' r' h', (d' < d)%nat -> nth_error rs d' = Some r' -> In h' hs -> ~ satisfies r' h') /\
    (forall j' h', (j' < j)%nat -> nth_error hs j' = Some h' -> ~ satisfies r h').
Proof.
  induction rs as [|r rs IH]; intros hs off i j H; cbn [singletons map registry_go] in H; [discriminate|].
  rewrite launcher_fn_single in H. destruct (find_host r hs 0) as [j0|] eqn:E.
  - injection H as Hi0 Hj0. apply find_host_spec in E. destruct E as (d & h & Hj & Hn & Hs & Hb).
    simpl in Hj. subst. exists 0%nat, r, h.
    split; [lia|]. split; [reflexivity|]. split; [exact Hn|]. split; [exact Hs|].
    split; [intros; lia|exact Hb].
  - fold (singletons rs) in H. apply IH in H. destruct H as (d & r0 & h & Hi & Hr & Hh & Hs & Hb1 & Hb2).
    exists (S d), r0, h. cbn [length] in Hi.
    split; [lia|]. split; [exact Hr|]. split; [exact Hh|]. split; [exact Hs|]. split; [|exact Hb2].
    intros d' r' h' Hd Hn Hin. destruct d' as [|d']; simpl in Hn.
    + inversion Hn; subst. eapply find_host_none; eauto.
    + apply (Hb1 d' r' h'); [lia|exact Hn|exact Hin].
Qed.

Lemma registry_go_singletons_none : forall rs hs off,
  registry_go (singletons rs) hs off = None -> forall r h, In r rs -> In h hs -> ~ satisfies r h.
Proof.
  induction rs as [|r rs IH]; intros hs off H r0 h Hr Hh; [destruct Hr|].
  cbn [singletons map registry_go] in H. rewrite launcher_fn_single in H.
  destruct (find_host r hs 0) eqn:E; [discriminate|]. fold (singletons rs) in H.
  destruct Hr as [->|Hr]; [eapply find_host_none; eauto|eapply IH; eauto].
Qed.

(* alternatives are tried in the order given: the answer is the first alternative (over all the
   arguments, in order) that some host satisfies, on the first host that satisfies it *)
Lemma registry_first : forall args hs i j,
  registry_find args hs = Some (i, j) ->
  exists r h, nth_error (all_alts args) i = Some r /\ nth_error hs j = Some h /\ satisfies r h /\
    (forall i' r' h', (i' < i)%nat -> nth_error (all_alts args) i' = Some r' -> In h' hs -> ~ satisfies r' h') /\
    (forall j' h', (j' < j)%nat -> nth_error hs j' = Some h' -> ~ satisfies r h').
Proof.
  intros args hs i j H. apply registry_go_singletons in H.
  destruct H as (d & r & h & Hi & H). simpl in Hi. subst d. exists r, h. exact H.
Qed.

Lemma registry_none : forall args hs,
  registry_find args hs = None <-> (forall r h, In r (all_alts args) -> In h hs -> ~ satisfies r h).
Proof.
  intros args hs. split; [apply registry_go_singletons_none|].
  intros H. destruct (registry_find args hs) as [[i j]|] eqn:E; [|reflexivity].
  apply registry_first in E. destruct E as (r & h & Hr & Hh & Hs & _).
  exfalso. eapply H; eauto using nth_error_In.
Qed.

(* the way the alternatives are spread over the arguments (one string with |, several strings,
   objects, a mix) does not matter *)
Lemma registry_grouping : forall args args' hs,
  all_alts args = all_alts args' -> registry_find args hs = registry_find args' hs.
Proof. intros args args' hs H. unfold registry_find. rewrite H. reflexivity. Qed.

(* one union handed to find_launcher ("each host, then each alternative") is a different search:
   hosts [small; big], request "two 40G GPUs, else one 10G GPU" *)
Definition reg_alts : list req :=
  [ {| r_gpus := [40; 40]; r_cpu := dcpu; r_dur := 0 |}; {| r_gpus := [10]; r_cpu := dcpu; r_dur := 0 |} ].
Definition reg_hosts : list host :=
  [ {| h_cuda := [{| g_mem := 12; g_min := 0 |}]; h_cpu := {| c_mem := 16; c_cores := 8 |};
       h_prio := 0; h_maxdur := 0; h_mingpu := 0 |};
    {| h_cuda := [{| g_mem := 48; g_min := 0 |}; {| g_mem := 48; g_min := 0 |}];
       h_cpu := {| c_mem := 256; c_cores := 32 |}; h_prio := 0; h_maxdur := 0; h_mingpu := 0 |} ].
Lemma registry_hostfirst_refuted : exists args hs i j i' j',
  registry_find args hs = Some (i, j) /\ registry_find_hostfirst args hs = Some (i', j') /\ (i < i')%nat.
Proof. exists [(false, reg_alts)], reg_hosts, 0%nat, 1%nat, 1%nat, 0%nat. vm_compute. auto. Qed.
(* registry.py read literally: a RequirementUnion object (a | b) is handed over as one spec, so the
   programmatic a | b does not mean what the text "a | b" means *)
Lemma registry_union_object_refuted : exists alts hs,
  registry_find_objects [(true, alts)] hs <> registry_find_objects [(false, alts)] hs.
Proof. exists reg_alts, reg_hosts. vm_compute. discriminate. Qed.
Lemma registry_objects_simple : forall args hs,
  (forall a, In a args -> fst a = false) -> registry_find_objects args hs = registry_find args hs.
Proof.
  intros args hs H. unfold registry_find_objects, registry_find, all_alts. f_equal.
  induction args as [|[u alts] args IH]; [reflexivity|].
  pose proof (H (u, alts) (or_introl eq_refl)) as Hu. cbn in Hu. subst u.
  cbn [flat_map map concat fst snd]. unfold singletons at 3. rewrite map_app.
  f_equal. apply IH. intros a Ha. apply H. right. exact Ha.
Qed.
Example registry_first_nonvacuous : registry_find [(false, reg_alts)] reg_hosts = Some (0%nat, 1%nat).
Proof. vm_compute. reflexivity. Qed.

(* ---------- the GPU clause without reference to list positions ---------- *)
(* "the host offers at least the requested number of GPUs, each with at least the requested memory":
   the requested GPUs can be assigned to DISTINCT GPUs of the host that are large enough            *)
Definition offers_gpus (r : req) (h : host) : Prop :=
  exists f : nat -> nat,
    (forall i j, (i < length (r_gpus r))%nat -> (j < length (r_gpus r))%nat -> f i = f j -> i = j) /\
    (forall i m, nth_error (r_gpus r) i = Some m ->
       exists g, nth_error (h_cuda h) (f i) = Some g /\ m <= g_mem g).

(* the property's "only if", in its own words *)
Lemma match_only_if : forall r h s, match_simple r h = Some s ->
  offers_gpus r h /\ c_mem (r_cpu r) <= c_mem (h_cpu h) /\ c_cores (r_cpu r) <= c_cores (h_cpu h) /\
  (0 < h_maxdur h -> r_dur r <= h_maxdur h).
Proof.
  intros r h s H. apply match_sound in H. destruct H as (_ & Hz & Hm & Hc & Hd & _).
  split; [|auto]. exists (fun i => i). split; [auto|].
  intros i m Hi. destruct (Hz i m Hi) as (g & Hg & H1 & _). eauto.
Qed.

(* the converse does not hold: match() pairs the i-th smallest request with the i-th GPU in the order the host
   lists them (HostSpecification.__post_init__, which would sort them, never runs: the class is built with
   attrs) -- a host listing GPUs of 8, 24, 24 refuses two GPUs of 20, the same host listing 24, 24, 8 accepts *)
Definition gpu0 (m : Z) : cuda := {| g_mem := m; g_min := 0 |}.
Definition host_gpus (l : list Z) : host :=
  {| h_cuda := map gpu0 l; h_cpu := {| c_mem := 100; c_cores := 8 |}; h_prio := 0; h_maxdur := 0; h_mingpu := 0 |}.
Definition req_gpus (l : list Z) : req := {| r_gpus := l; r_cpu := dcpu; r_dur := 0 |}.
Lemma match_positional_refuted : exists r h h',
  Permutation (h_cuda h) (h_cuda h') /\ offers_gpus r h /\ offers_gpus r h' /\
  match_simple r h = None /\ match_simple r h' <> None.
Proof.
  exists (req_gpus [20; 20]), (host_gpus [8; 24; 24]), (host_gpus [24; 24; 8]).
  split; [|split; [|split; [|split; [reflexivity|vm_compute; discriminate]]]].
  - cbn. apply (Permutation_cons_append [gpu0 24; gpu0 24] (gpu0 8)).
  - exists S. split; [intros; lia|].
    intros [|[|i]] m H; simpl in H; [| |destruct i; discriminate]; inversion H; subst;
      (eexists; split; [reflexivity|cbn; lia]).
  - exists (fun i => i). split; [auto|].
    intros [|[|i]] m H; simpl in H; [| |destruct i; discriminate]; inversion H; subst;
      (eexists; split; [reflexivity|cbn; lia]).
Qed.

(* a site that describes no host that can be asked (launchers.py without find_launcher, after fixes/C18-3): no launcher *)
Lemma registry_no_host : forall args, registry_find args [] = None.
Proof. intros args. apply registry_none. intros r h _ []. Qed.
