(* Proofs about model/Filter.v (C19). *)
From Coq Require Import NArith List Bool Lia.
From XV Require Import model.Filter.
Import ListNotations.
Open Scope N_scope.

(* ---- strings ------------------------------------------------------------ *)
Lemma str_eqb_eq : forall a b, str_eqb a b = true <-> a = b.
Proof.
  induction a as [|x a IH]; destruct b as [|y b]; simpl; split; intro H;
    try reflexivity; try discriminate.
  - apply andb_true_iff in H. destruct H as [H1 H2].
    apply N.eqb_eq in H1. apply IH in H2. subst. reflexivity.
  - inversion H; subst. apply andb_true_iff. split.
    + apply N.eqb_refl.
    + apply IH. reflexivity.
Qed.

Lemma str_eqb_refl : forall a, str_eqb a a = true.
Proof. intro a. apply str_eqb_eq. reflexivity. Qed.

Lemma ostr_eqb_eq : forall a b, ostr_eqb a b = true <-> a = b.
Proof.
  destruct a as [x|]; destruct b as [y|]; simpl; split; intro H;
    try reflexivity; try discriminate.
  - apply str_eqb_eq in H. subst. reflexivity.
  - inversion H. apply str_eqb_refl.
Qed.

Lemma mem_In : forall s l, mem s l = true <-> In s l.
Proof.
  induction l as [|x l IH]; simpl.
  - split; [discriminate | tauto].
  - rewrite orb_true_iff, IH, str_eqb_eq. split; intros [H|H]; auto.
Qed.

(* ---- regular expressions: the derivative matcher is the language -------- *)
Lemma nullable_lang : forall r, nullable r = true <-> lang r [].
Proof.
  induction r; simpl.
  - split; [discriminate | intro H; inversion H].
  - split; [intros _; constructor | reflexivity].
  - split; [discriminate | intro H; inversion H].
  - split; [discriminate | intro H; inversion H].
  - rewrite andb_true_iff, IHr1, IHr2. split.
    + intros [H1 H2]. change (@nil N) with (@nil N ++ @nil N). constructor; assumption.
    + intro H. inversion H as [| | |a b s1 s2 H1 H2 E1 E2| | | |]; subst.
      apply app_eq_nil in E2. destruct E2; subst. split; assumption.
  - rewrite orb_true_iff, IHr1, IHr2. split.
    + intros [H|H]; [apply LAltL | apply LAltR]; assumption.
    + intro H. inversion H; subst; auto.
  - split; [intros _; constructor | reflexivity].
Qed.

Lemma star_cons : forall a c s, lang (RStar a) (c :: s) ->
  exists s1 s2, s = s1 ++ s2 /\ lang a (c :: s1) /\ lang (RStar a) s2.
Proof.
  intros a c s H. remember (RStar a) as r eqn:Er. remember (c :: s) as t eqn:Et.
  revert a c s Er Et.
  induction H; intros a0 c0 s0 Er Et; try discriminate.
  inversion Er; subst a0. clear Er.
  destruct s1 as [|d s1].
  - simpl in Et. eapply IHlang2; [reflexivity | exact Et].
  - simpl in Et. inversion Et; subst. exists s1, s2. auto.
Qed.

Lemma deriv_lang : forall c r s, lang (deriv c r) s <-> lang r (c :: s).
Proof.
  intros c r. induction r; intro s; simpl.
  - split; intro H; inversion H.
  - split; intro H; inversion H.
  - destruct (c =? c0) eqn:E.
    + apply N.eqb_eq in E. subst. split; intro H; inversion H; subst; constructor.
    + split; intro H; inversion H; subst. rewrite N.eqb_refl in E. discriminate.
  - split; intro H; inversion H; subst; constructor.
  - destruct (nullable r1) eqn:En.
    + split; intro H.
      * inversion H as [| | | |a b s' H1| a b s' H1| |]; subst.
        -- inversion H1 as [| | |a b s1 s2 Ha Hb E1 E2| | | |]; subst.
           apply IHr1 in Ha. change (c :: s1 ++ s2) with ((c :: s1) ++ s2).
           constructor; assumption.
        -- apply IHr2 in H1. apply nullable_lang in En.
           change (c :: s) with ([] ++ c :: s). constructor; assumption.
      * inversion H as [| | |a b s1 s2 Ha Hb E1 E2| | | |]; subst.
        destruct s1 as [|d s1]; simpl in E2.
        -- subst s2. apply LAltR. apply IHr2. assumption.
        -- inversion E2; subst. apply LAltL. constructor; [apply IHr1|]; assumption.
    + split; intro H.
      * inversion H as [| | |a b s1 s2 Ha Hb E1 E2| | | |]; subst.
        apply IHr1 in Ha. change (c :: s1 ++ s2) with ((c :: s1) ++ s2).
        constructor; assumption.
      * inversion H as [| | |a b s1 s2 Ha Hb E1 E2| | | |]; subst.
        destruct s1 as [|d s1]; simpl in E2.
        -- apply nullable_lang in Ha. rewrite Ha in En. discriminate.
        -- inversion E2; subst. constructor; [apply IHr1|]; assumption.
  - split; intro H; inversion H; subst.
    + apply LAltL. apply IHr1. assumption.
    + apply LAltR. apply IHr2. assumption.
    + apply LAltL. apply IHr1. assumption.
    + apply LAltR. apply IHr2. assumption.
  - split; intro H.
    + inversion H as [| | |a b s1 s2 Ha Hb E1 E2| | | |]; subst.
      apply IHr in Ha. change (c :: s1 ++ s2) with ((c :: s1) ++ s2).
      constructor; assumption.
    + apply star_cons in H. destruct H as (s1 & s2 & E & Ha & Hs). subst.
      constructor; [apply IHr|]; assumption.
Qed.

Lemma full_match_spec : forall s r, full_match r s = true <-> lang r s.
Proof.
  induction s as [|c s IH]; intro r; simpl.
  - apply nullable_lang.
  - rewrite IH. apply deriv_lang.
Qed.

Lemma prefix_match_spec : forall s r,
  prefix_match r s = true <-> exists pre suf, s = pre ++ suf /\ lang r pre.
Proof.
  induction s as [|c s IH]; intro r; simpl.
  - rewrite orb_false_r, nullable_lang. split.
    + intro H. exists [], []. auto.
    + intros (pre & suf & E & H). symmetry in E. apply app_eq_nil in E.
      destruct E; subst. assumption.
  - rewrite orb_true_iff, nullable_lang, IH. split.
    + intros [H | (pre & suf & E & H)].
      * exists [], (c :: s). auto.
      * exists (c :: pre), suf. subst. split; [reflexivity | apply deriv_lang; assumption].
    + intros (pre & suf & E & H). destruct pre as [|d pre].
      * left. assumption.
      * right. simpl in E. inversion E; subst. exists pre, suf.
        split; [reflexivity | apply deriv_lang; assumption].
Qed.

Lemma re_match_spec : forall p s, re_match p s = true <-> matches p s.
Proof.
  intros p s. unfold re_match, matches. destruct (p_eol p).
  - rewrite full_match_spec. split.
    + intro H. exists s, []. rewrite app_nil_r. auto.
    + intros (pre & suf & E & H & Hs). rewrite (Hs eq_refl), app_nil_r in E. subst. assumption.
  - rewrite prefix_match_spec. split.
    + intros (pre & suf & E & H). exists pre, suf. repeat split; auto. discriminate.
    + intros (pre & suf & E & H & _). exists pre, suf. auto.
Qed.

(* ---- every test means what the documentation says ----------------------- *)
Lemma in_member : forall v l e,
  match get v e with Some s => mem s l | None => false end = true <-> member v l e.
Proof.
  intros v l e. unfold member. destruct (get v e) as [s|].
  - rewrite mem_In. split.
    + intro H. exists s. auto.
    + intros (s' & E & H). inversion E; subst. assumption.
  - split; [discriminate | intros (s' & E & _); discriminate].
Qed.

Lemma eval_atom_meaning : forall a e, eval_atom a e = true <-> meaning_atom a e.
Proof.
  intros [v o | v l | v l | v p] e; simpl.
  - unfold eq_present. destruct (get v e) as [s|].
    + rewrite ostr_eqb_eq. split.
      * intro H. exists s. split; [reflexivity|symmetry; exact H].
      * intros (s' & E & H). inversion E; subst s'. symmetry. exact H.
    + split; [discriminate|intros (s' & E & _); discriminate].
  - apply in_member.
  - rewrite <- in_member. rewrite negb_true_iff.
    destruct (match get v e with Some s => mem s l | None => false end); split; intro H;
      try reflexivity; try discriminate; try (intro; discriminate).
    exfalso. apply H. reflexivity.
  - destruct (get v e) as [s|].
    + rewrite re_match_spec. split.
      * intros Hm. exists s. split; auto.
      * intros (s' & E & Hm). inversion E; subst s'. exact Hm.
    + split; [discriminate | intros (s' & E & _); discriminate].
Qed.

Definition step_prop (e : env) (P : Prop) (oa : bop * atom) : Prop :=
  match fst oa with
  | BAnd => P /\ meaning_atom (snd oa) e
  | BOr => P \/ meaning_atom (snd oa) e
  end.

Lemma eval_summary : forall rest acc e P,
  (eval_l acc e = true <-> P) ->
  (eval_l (summary acc rest) e = true <-> fold_left (step_prop e) rest P).
Proof.
  induction rest as [|[op a] rest IH]; intros acc e P H; simpl.
  - exact H.
  - apply IH. unfold step_prop. destruct op; simpl.
    + rewrite andb_true_iff, eval_atom_meaning, H. tauto.
    + rewrite orb_true_iff, eval_atom_meaning, H. tauto.
Qed.

(* main theorem on filters: for every expression and every assignment *)
Theorem eval_meaning : forall x e, eval x e = true <-> meaning x e.
Proof.
  intros x e. unfold eval, compile, meaning.
  apply (eval_summary (x_rest x) (LAtom (x_first x)) e). simpl. apply eval_atom_meaning.
Qed.

Corollary eval_false_meaning : forall x e, eval x e = false <-> ~ meaning x e.
Proof.
  intros x e. rewrite <- eval_meaning. destruct (eval x e); split; intro H;
    try reflexivity; try discriminate; try (intro; discriminate).
  exfalso. apply H. reflexivity.
Qed.

(* ---- chains fold left to right ------------------------------------------ *)
Definition step_bool (e : env) (b : bool) (oa : bop * atom) : bool :=
  match fst oa with
  | BAnd => b && eval_atom (snd oa) e
  | BOr => b || eval_atom (snd oa) e
  end.

Lemma eval_summary_fold : forall rest acc e,
  eval_l (summary acc rest) e = fold_left (step_bool e) rest (eval_l acc e).
Proof.
  induction rest as [|[op a] rest IH]; intros acc e; simpl.
  - reflexivity.
  - rewrite IH. f_equal. unfold step_bool. destruct op; simpl.
    + apply andb_comm.
    + apply orb_comm.
Qed.

Theorem eval_fold_left : forall x e,
  eval x e = fold_left (step_bool e) (x_rest x) (eval_atom (x_first x) e).
Proof. intros x e. unfold eval, compile. apply eval_summary_fold. Qed.

Lemma fold_and : forall e l b,
  fold_left (step_bool e) (map (fun a => (BAnd, a)) l) b = b && forallb (fun a => eval_atom a e) l.
Proof.
  induction l as [|a l IH]; intro b; simpl.
  - symmetry. apply andb_true_r.
  - rewrite IH. unfold step_bool. simpl. symmetry. apply andb_assoc.
Qed.

Lemma fold_or : forall e l b,
  fold_left (step_bool e) (map (fun a => (BOr, a)) l) b = b || existsb (fun a => eval_atom a e) l.
Proof.
  induction l as [|a l IH]; intro b; simpl.
  - symmetry. apply orb_false_r.
  - rewrite IH. unfold step_bool. simpl. symmetry. apply orb_assoc.
Qed.

Lemma chain_and_all : forall a l e,
  eval (chain BAnd a l) e = forallb (fun b => eval_atom b e) (a :: l).
Proof. intros. rewrite eval_fold_left. simpl. apply fold_and. Qed.

Lemma chain_or_any : forall a l e,
  eval (chain BOr a l) e = existsb (fun b => eval_atom b e) (a :: l).
Proof. intros. rewrite eval_fold_left. simpl. apply fold_or. Qed.

Lemma tree_and_all : forall t e, eval_tree BAnd t e = forallb (fun b => eval_atom b e) (leaves t).
Proof.
  induction t; intro e; simpl.
  - symmetry. apply andb_true_r.
  - rewrite forallb_app, IHt1, IHt2. reflexivity.
Qed.

Lemma tree_or_any : forall t e, eval_tree BOr t e = existsb (fun b => eval_atom b e) (leaves t).
Proof.
  induction t; intro e; simpl.
  - symmetry. apply orb_false_r.
  - rewrite existsb_app, IHt1, IHt2. reflexivity.
Qed.

(* every bracketing of a1 and a2 ... and an means the same as the flat chain *)
Theorem chain_and : forall t a l e,
  leaves t = a :: l -> eval_tree BAnd t e = eval (chain BAnd a l) e.
Proof. intros t a l e H. rewrite tree_and_all, chain_and_all, H. reflexivity. Qed.

Theorem chain_or : forall t a l e,
  leaves t = a :: l -> eval_tree BOr t e = eval (chain BOr a l) e.
Proof. intros t a l e H. rewrite tree_or_any, chain_or_any, H. reflexivity. Qed.

Theorem chain_any_bracketing : forall op t a l e,
  leaves t = a :: l -> eval_tree op t e = eval (chain op a l) e.
Proof. intros [] t a l e H; [apply chain_and | apply chain_or]; assumption. Qed.

(* the hypothesis is satisfiable by a non-trivial tree *)
Example chain_hyp_sat :
  let a := AEq VState (OConst [68; 79; 78; 69]) in
  let b := AIn (VTag [120]) [[97]; [98]] in
  let c := ANotIn VName [[116]] in
  leaves (BNode (BLeaf a) (BNode (BLeaf b) (BLeaf c))) = a :: [b; c]
  /\ leaves (BNode (BNode (BLeaf a) (BLeaf b)) (BLeaf c)) = a :: [b; c].
Proof. split; reflexivity. Qed.

(* ---- the literal code of the pinned commit ------------------------------ *)
Definition single (a : atom) : expr := {| x_first := a; x_rest := [] |}.

Lemma in_always_false : forall v l e, eval_prefix (single (AIn v l)) e = Some false.
Proof. reflexivity. Qed.

Lemma not_in_always_true : forall v l e, eval_prefix (single (ANotIn v l)) e = Some true.
Proof. reflexivity. Qed.

Lemma regex_raises : forall x e, has_regex x = true -> eval_prefix x e = None.
Proof. intros x e H. unfold eval_prefix. rewrite H. reflexivity. Qed.

Definition env_xa : env := {| e_tags := [([120], [97])]; e_state := Some Done; e_name := [116] |}.

Lemma in_always_false_refuted : exists v l e,
  meaning_atom (AIn v l) e /\ eval_prefix (single (AIn v l)) e = Some false.
Proof.
  exists (VTag [120]), [[97]; [98]], env_xa. split.
  - exists [97]. split; [reflexivity | left; reflexivity].
  - vm_compute. reflexivity.
Qed.

Lemma not_in_always_true_refuted : exists v l e,
  ~ meaning_atom (ANotIn v l) e /\ eval_prefix (single (ANotIn v l)) e = Some true.
Proof.
  exists (VTag [120]), [[97]; [98]], env_xa. split.
  - intro H. apply H. exists [97]. split; [reflexivity | left; reflexivity].
  - vm_compute. reflexivity.
Qed.

Lemma regex_raises_refuted : exists v p e,
  meaning_atom (ARegex v p) e /\ eval_prefix (single (ARegex v p)) e = None.
Proof.
  exists (VTag [120]), {| p_re := RChr 97; p_eol := false |}, env_xa. split.
  - exists [97]. split; [reflexivity|].
    exists [97], []. repeat split; try discriminate. constructor.
  - vm_compute. reflexivity.
Qed.

(* the repaired evaluator answers these three witnesses correctly *)
Example repaired_witnesses :
  eval (single (AIn (VTag [120]) [[97]; [98]])) env_xa = true
  /\ eval (single (ANotIn (VTag [120]) [[97]; [98]])) env_xa = false
  /\ eval (single (ARegex (VTag [120]) {| p_re := RChr 97; p_eol := false |})) env_xa = true.
Proof. vm_compute. auto. Qed.

Example regex_hyp_sat : has_regex (single (ARegex VName {| p_re := RAny; p_eol := true |})) = true.
Proof. reflexivity. Qed.

(* ---- two readings a user may not expect (design of the filter language, stated so that nobody has to guess) ---- *)
(* there is no precedence: a or b and c is (a or b) and c, a and b or c is (a and b) or c *)
Lemma mixed_chain_left : forall a b c e,
  eval {| x_first := a; x_rest := [(BOr, b); (BAnd, c)] |} e = (eval_atom a e || eval_atom b e) && eval_atom c e
  /\ eval {| x_first := a; x_rest := [(BAnd, b); (BOr, c)] |} e = (eval_atom a e && eval_atom b e) || eval_atom c e.
Proof. intros. rewrite !eval_fold_left. split; reflexivity. Qed.

(* ... so the usual convention (and binds tighter than or) is not what a filter means:
   @state = "DONE" or x = "a" and x = "zz"  is false on a DONE job tagged x=a *)
Lemma usual_precedence_refuted : exists a b c e,
  eval {| x_first := a; x_rest := [(BOr, b); (BAnd, c)] |} e = false /\
  (meaning_atom a e \/ (meaning_atom b e /\ meaning_atom c e)).
Proof.
  exists (AEq VState (OConst (state_name Done))), (AEq (VTag [120]) (OConst [97])), (AEq (VTag [120]) (OConst [122; 122])),
         {| e_tags := [([120], [97])]; e_state := Some Done; e_name := [116] |}.
  split; [reflexivity|left; eexists; split; reflexivity].
Qed.

(* v = w between two look-ups that are both missing was true (None == None) before fixes/C19-13: now a missing
   left-hand side equals nothing, like the other tests *)
Lemma missing_equals_nothing : forall v o e, get v e = None -> eval (single (AEq v o)) e = false.
Proof. intros v o e Hv. unfold eval, compile, single. cbn. rewrite Hv. reflexivity. Qed.

Lemma none_equals_none_refuted : exists v w e,
  ~ meaning_atom (AEq v (OVar w)) e /\ ostr_eqb (get v e) (oget (OVar w) e) = true.
Proof.
  exists (VTag [109]), (VTag [98]), {| e_tags := []; e_state := Some Done; e_name := [116] |}.
  split; [intros (s & E & _); discriminate|reflexivity].
Qed.

(* `if not value: return False` (before fixes/C19-11): a tag whose value is the empty string fails `x ~ ".*"` although
   the regular expression matches it *)
Lemma regex_empty_value_refuted : exists v p e,
  meaning_atom (ARegex v p) e /\ eval_regex_emptyfalse v p e = false /\ eval (single (ARegex v p)) e = true.
Proof.
  exists (VTag [120]), {| p_re := RStar RAny; p_eol := false |},
         {| e_tags := [([120], [])]; e_state := Some Done; e_name := [116] |}.
  split; [|split; reflexivity].
  exists []. split; [reflexivity|]. exists [], []. split; [reflexivity|]. split; [constructor|intros; reflexivity].
Qed.
