(* The model's hash function feeds H exactly the encoding of the token-level
   signature (ties model/Hash.v to the uniquely readable syntax of model/Ser.v). *)
From Coq Require Import ZArith NArith List Bool Lia.
From XV Require Import core.Value model.Hash model.Ser proofs.Ser_lemmas.
Import ListNotations.

Lemma pack_q_q8 z p : pack_q z = Ok p -> p = q8 z /\ inq z.
Proof.
  unfold pack_q, inq. destruct (Z.leb (- two63) z && Z.ltb z two63)%bool eqn:E; intros R; [|discriminate].
  inversion R. split; [reflexivity|]. apply andb_true_iff in E. destruct E as [E1 E2].
  apply Z.leb_le in E1. apply Z.ltb_lt in E2. lia.
Qed.

Section TokLemmas.
  Variable H : bytes -> bytes.
  Variable cs : classes.
  Variable h : heap.
  Variable look : nat -> option bytes.

  Lemma seq_list_tok {A} (f : A -> hres) (g : A -> tres) (l : list A) :
    (forall x, In x l -> f x = (do r <- g x; Ok (enc (fst r), snd r))) ->
    seq_list f l = (do r <- seq_tok g l; Ok (flat_map enc (fst r), snd r)) /\
    (forall r, seq_tok g l = Ok r -> length (fst r) = length l).
  Proof.
    induction l as [|x l IH]; intros Hx; cbn [seq_list seq_tok]; [split; [reflexivity|intros r E; inversion E; reflexivity]|].
    rewrite (Hx x (or_introl eq_refl)).
    destruct IH as [E2 L2]; [intros y Hy; apply Hx; right; exact Hy|]. rewrite E2.
    destruct (g x) as [[s e]|er]; cbn [bind fst snd]; [|split; [reflexivity|intros r E; discriminate]].
    destruct (seq_tok g l) as [[ss ee]|er]; cbn [bind fst snd]; [|split; [reflexivity|intros r E; discriminate]].
    split; [reflexivity|]. intros r E. inversion E. cbn [fst length]. pose proof (L2 (ss, ee) eq_refl) as L3. cbn [fst] in L3. rewrite L3. reflexivity.
  Qed.

  Lemma seq_list_tokd (f : value -> hres) (g : value -> tres) (l : list (list N * value)) :
    (forall kv, In kv l -> f (snd kv) = (do r <- g (snd kv); Ok (enc (fst r), snd r))) ->
    seq_list (fun kv : list N * value => do b <- f (snd kv); Ok (STR_ID :: fst kv ++ fst b, snd b)) l
    = (do r <- seq_tokd g l; Ok (items (fst r), snd r)).
  Proof.
    induction l as [|x l IH]; intros Hx; cbn [seq_list seq_tokd]; [reflexivity|]. cbv beta. unfold bytes in *.
    rewrite (Hx x (or_introl eq_refl)). rewrite IH by (intros y Hy; apply Hx; right; exact Hy).
    destruct (g (snd x)) as [[s e]|er]; cbn [bind fst snd]; [|reflexivity].
    destruct (seq_tokd g l) as [[ss ee]|er]; cbn [bind fst snd]; [|reflexivity].
    change (items ((fst x, s) :: ss)) with (items ((fst x, s) :: ss) ++ []) at 1 || idtac.
    unfold items. simpl. rewrite <- app_assoc. reflexivity.
  Qed.

  Lemma tok_enc : forall fuel st v,
    hv H cs h look fuel st v = (do r <- tokv H cs h look fuel st v; Ok (enc (fst r), snd r)).
  Proof.
    induction fuel as [|f IH]; intros st v; [reflexivity|].
    destruct v as [| z | b | bits | s | s | q | l | l | m]; cbn [hv tokv bind fst snd enc]; try reflexivity.
    - destruct (pack_q z) as [p|e] eqn:E; cbn [bind fst snd enc]; [|reflexivity].
      destruct (pack_q_q8 z p E) as [-> _]. reflexivity.
    - destruct (pack_q (zb b)) as [p|e] eqn:E; cbn [bind fst snd enc]; [|reflexivity].
      destruct (pack_q_q8 _ p E) as [-> _]. reflexivity.
    - set (l' := filter (fun x => negb (is_meta h x)) l).
      destruct (seq_list_tok (hv H cs h look f st) (tokv H cs h look f st) l') as [E L]; [intros x _; apply IH|].
      rewrite E. destruct (seq_tok (tokv H cs h look f st) l') as [[ss ee]|er] eqn:R; cbn [bind fst snd enc]; [|reflexivity].
      pose proof (L (ss, ee) eq_refl) as L3. cbn [fst] in L3. rewrite L3. reflexivity.
    - set (l' := sort_by fst (filter (fun kv : bytes * value => negb (is_meta h (snd kv))) l)).
      rewrite (seq_list_tokd (hv H cs h look f st) (tokv H cs h look f st) l') by (intros kv _; apply IH).
      destruct (seq_tokd (tokv H cs h look f st) l') as [[ss ee]|er]; cbn [bind fst snd enc]; reflexivity.
    - destruct (index_of m st) as [pos|].
      + destruct (pack_q (Z.of_nat (S pos))) as [p|e] eqn:E; cbn [bind fst snd enc]; [|reflexivity].
        destruct (pack_q_q8 _ p E) as [-> _]. reflexivity.
      + destruct (look m) as [d|]; cbn [bind fst snd enc]; [reflexivity|].
        destruct (hnode_with H cs h (hv H cs h look f) st m) as [[d e]|er]; cbn [bind fst snd enc]; reflexivity.
  Qed.

  Lemma args_tok ty fuel st (l : list (bytes * argsel)) :
    seq_list (hsel (hv H cs h look fuel st)) l
    = (do a <- tok_args (tokv H cs h look fuel st) ty l; Ok (flat_map argenc (fst a), snd a)).
  Proof.
    induction l as [|[k sel] l IH]; cbn [seq_list tok_args]; [reflexivity|].
    unfold hsel at 1. cbn [fst snd]. destruct sel as [| |v]; cbn [bind]; try reflexivity.
    rewrite tok_enc. rewrite IH.
    destruct (tokv H cs h look fuel st v) as [[s e]|er]; cbn [bind fst snd]; [|reflexivity].
    destruct (tok_args (tokv H cs h look fuel st) ty l) as [[ss ee]|er]; cbn [bind fst snd]; [|reflexivity].
    rewrite argenc_cons. cbn [fst snd app]. do 2 f_equal. rewrite <- app_assoc. reflexivity.
  Qed.

  (* the identifier of a node is H applied to the encoding of its token-level signature *)
  Theorem hnode_tok ty fuel st n :
    hnode H cs h look fuel st n
    = (do r <- tok_node H cs h look ty fuel st n; Ok (H (enc_sig (fst r)), snd r)).
  Proof.
    unfold hnode, hnode_with, tok_node.
    destruct (nsig cs h n) as [sg|er]; cbn [bind]; [|reflexivity].
    rewrite (args_tok ty).
    destruct (sg_task sg) as [t|].
    - rewrite tok_enc.
      destruct (tokv H cs h look fuel (n :: st) (VRef t)) as [[s e]|er]; cbn [bind fst snd]; [|reflexivity].
      destruct (tok_args (tokv H cs h look fuel (n :: st)) ty (sg_args sg)) as [[ss ee]|er]; cbn [bind fst snd]; [|reflexivity].
      unfold enc_sig, tmark. destruct (index_of t (n :: st)); cbn [ss_task ss_tid ss_args app]; reflexivity.
    - cbn [bind fst snd].
      destruct (tok_args (tokv H cs h look fuel (n :: st)) ty (sg_args sg)) as [[ss ee]|er]; cbn [bind fst snd]; [|reflexivity].
      unfold enc_sig. cbn [ss_task ss_tid ss_args app]. reflexivity.
  Qed.
End TokLemmas.

Definition collision (H : bytes -> bytes) : Prop := exists x y, x <> y /\ H x = H y.

(* two configurations (of any two graphs) whose token-level signatures are well formed over
   the same declared types: equal identifiers force equal signatures, or exhibit a collision *)
Theorem ident_inj_or_collision H ty cs1 h1 look1 f1 st1 n1 cs2 h2 look2 f2 st2 n2 s1 e1 s2 e2 d1 x1 d2 x2 :
  tok_node H cs1 h1 look1 ty f1 st1 n1 = Ok (s1, e1) -> tok_node H cs2 h2 look2 ty f2 st2 n2 = Ok (s2, e2) ->
  wf_sig s1 -> wf_sig s2 ->
  (forall k t v, In (k, t, v) (ss_args s1) \/ In (k, t, v) (ss_args s2) -> t = ty k) ->
  hnode H cs1 h1 look1 f1 st1 n1 = Ok (d1, x1) -> hnode H cs2 h2 look2 f2 st2 n2 = Ok (d2, x2) ->
  d1 = d2 -> s1 = s2 \/ collision H.
Proof.
  intros T1 T2 W1 W2 Ty H1 H2 Ed.
  rewrite (hnode_tok H cs1 h1 look1 ty), T1 in H1. rewrite (hnode_tok H cs2 h2 look2 ty), T2 in H2.
  cbn [bind fst snd] in H1, H2.
  assert (E1 : d1 = H (enc_sig s1)) by congruence. assert (E2 : d2 = H (enc_sig s2)) by congruence.
  destruct (list_eq_dec N.eq_dec (enc_sig s1) (enc_sig s2)) as [E|D].
  - left. apply enc_sig_inj; try assumption.
    intros k t1 v1 t2 v2 I1 I2. rewrite (Ty k t1 v1 (or_introl I1)), (Ty k t2 v2 (or_intror I2)). reflexivity.
  - right. exists (enc_sig s1), (enc_sig s2). split; [exact D|congruence].
Qed.

(* non-vacuity: a concrete configuration whose token-level signature is computed and is in the domain *)
Example tok_node_example :
  let c := {| c_tid := [116]%N;
              c_args := [{| a_name := [120]%N; a_ignored := false; a_gen := false; a_const := false;
                            a_required := true; a_default := None |}] |} in
  let x := {| n_cls := 0; n_fields := [([120]%N, VList [VInt 5; VInt (-1)])]; n_meta := None; n_task := None;
              n_pre := []; n_init := [] |} in
  match tok_node (fun b => b) [c] [x] (fun _ => None) (fun _ => TList TInt) 5 [] 0 with
  | Ok (s, _) => wf_sigb true s
  | Err _ => false
  end = true.
Proof. vm_compute. reflexivity. Qed.
