(* C14: sealing reaches every reachable configuration; on sealed configurations every
   modification attempt is rejected and leaves the graph - hence every identifier -
   unchanged.                                                                       *)
From Coq Require Import ZArith NArith List Bool Lia.
From XV Require Import core.Value model.Hash model.Cache model.Edits model.Seal model.Spec
  proofs.Cache_lemmas proofs.Spec_lemmas.
Import ListNotations.

Definition mark (e : centry) : centry := {| k_sealed := true; k_raw := k_raw e; k_full := k_full e |}.

Lemma cupd_length s n f : length (cupd s n f) = length s.
Proof. revert n; induction s as [|e s IH]; intros [|n]; cbn; auto. Qed.

Lemma cget_cupd_same s n f : n < length s -> cget (cupd s n f) n = f (cget s n).
Proof. revert n; induction s as [|e s IH]; intros [|n] L; cbn in *; try lia; [reflexivity|]. apply IH. lia. Qed.

Lemma cget_cupd_other s n m f : n <> m -> cget (cupd s n f) m = cget s m.
Proof.
  revert n m; induction s as [|e s IH]; intros [|n] [|m] D; cbn; try reflexivity; try congruence.
  apply IH. congruence.
Qed.

Lemma sealed_mark_mono s n m : sealed_in s m = true -> sealed_in (cupd s n mark) m = true.
Proof.
  unfold sealed_in. intros E. destruct (cget_cupd_cases s n mark m) as [->|[_ ->]]; [exact E|reflexivity].
Qed.

(* weight of the configurations not yet sealed *)
Fixpoint weight (h : heap) (s : cstate) : nat :=
  match h, s with
  | x :: h', e :: s' => (if k_sealed e then 0 else 1 + length (succs x)) + weight h' s'
  | _, _ => 0
  end.

Lemma weight_mark : forall h s n x, nth_error h n = Some x -> length s = length h -> sealed_in s n = false ->
  weight h (cupd s n mark) + 1 + length (succs x) = weight h s.
Proof.
  induction h as [|y h IH]; intros s n x E L U; [destruct n; discriminate|].
  destruct s as [|e s]; [discriminate|]. destruct n as [|n]; cbn in E.
  - inversion E. subst. unfold sealed_in, cget in U. cbn in U. cbn. rewrite U. lia.
  - cbn [cupd weight]. cbn in L. unfold sealed_in, cget in U. cbn [nth] in U.
    specialize (IH s n x E ltac:(lia) U). lia.
Qed.

Section SealWalk.
  Variable h : heap.
  Hypothesis Hwf : wf_heap h.

  Definition inv (todo : list nat) (s : cstate) : Prop :=
    forall n x, nth_error h n = Some x -> sealed_in s n = true ->
      forall m, In m (succs x) -> sealed_in s m = true \/ In m todo.

  Lemma seal_walk_correct : forall fuel todo s,
    length s = length h -> inv todo s -> length todo + weight h s <= fuel ->
    let s' := seal_walk h fuel todo s in
    closed h s' /\ (forall n, sealed_in s n = true -> sealed_in s' n = true) /\
    (forall n, In n todo -> n < length h -> sealed_in s' n = true) /\ length s' = length h.
  Proof.
    induction fuel as [|f IH]; intros todo s L I B.
    - destruct todo as [|n todo]; cbn in B; [|lia]. cbn [seal_walk].
      split; [|split; [auto|split; [intros n []|exact L]]].
      intros n x E S m Hm. destruct (I n x E S m Hm) as [Hs|[]]. exact Hs.
    - cbn [seal_walk]. destruct todo as [|n todo].
      + split; [|split; [auto|split; [intros n []|exact L]]].
        intros n x E S m Hm. destruct (I n x E S m Hm) as [Hs|[]]. exact Hs.
      + fold (sealed_in s n). destruct (sealed_in s n) eqn:Sn.
        * assert (I' : inv todo s).
          { intros k x E S m Hm. destruct (I k x E S m Hm) as [Hs|[<-|Hin]]; [left; exact Hs|left; exact Sn|right; exact Hin]. }
          destruct (IH todo s L I') as [C [M [Tt Ls]]]; [cbn in B; lia|].
          split; [exact C|split; [exact M|split; [|exact Ls]]].
          intros k [<-|Hk] Lk; [apply M; exact Sn|apply Tt; assumption].
        * destruct (nth_error h n) as [x|] eqn:Ex.
          -- assert (Ln : n < length s) by (rewrite L; apply nth_error_Some; congruence).
             assert (I' : inv (succs x ++ todo) (cupd s n mark)).
             { intros k y E S m Hm. destruct (Nat.eq_dec k n) as [->|D].
               - rewrite Ex in E. inversion E. subst y. right. apply in_or_app. left. exact Hm.
               - unfold sealed_in in S. rewrite cget_cupd_other in S by congruence.
                 destruct (I k y E S m Hm) as [Hs|[<-|Hin]].
                 + left. apply sealed_mark_mono. exact Hs.
                 + left. unfold sealed_in. rewrite cget_cupd_same by exact Ln. reflexivity.
                 + right. apply in_or_app. right. exact Hin. }
             pose proof (weight_mark h s n x Ex L Sn) as W.
             destruct (IH (succs x ++ todo) (cupd s n mark)) as [C [M [Tt Ls]]];
               [rewrite cupd_length; exact L|exact I'|rewrite app_length; cbn in B; lia|].
             split; [exact C|split; [|split; [|exact Ls]]].
             ++ intros k Sk. apply M. apply sealed_mark_mono. exact Sk.
             ++ intros k [<-|Hk] Lk.
                ** apply M. unfold sealed_in. rewrite cget_cupd_same by exact Ln. reflexivity.
                ** apply Tt; [apply in_or_app; right; exact Hk|exact Lk].
          -- assert (I' : inv todo s).
             { intros k y E S m Hm. destruct (I k y E S m Hm) as [Hs|[Enm|Hin]]; [left; exact Hs| |right; exact Hin].
               exfalso. pose proof (Hwf k y E m Hm) as Lm. apply nth_error_None in Ex. lia. }
             destruct (IH todo s L I') as [C [M [Tt Ls]]]; [cbn in B; lia|].
             split; [exact C|split; [exact M|split; [|exact Ls]]].
             intros k [<-|Hk] Lk; [apply nth_error_None in Ex; lia|apply Tt; assumption].
  Qed.

  Lemma weight_bound : forall (g : heap) s, weight g s <= length g + fold_right (fun x a => length (succs x) + a) 0 g.
  Proof.
    induction g as [|x g IH]; intros s; [destruct s; cbn; lia|]. destruct s as [|e s]; [cbn; lia|].
    cbn [weight length fold_right]. specialize (IH s). destruct (k_sealed e); lia.
  Qed.

  (* seal(): from a closed state, sealing r seals r and keeps the state closed *)
  Theorem seal_closes s r : length s = length h -> closed h s ->
    let s' := seal_walk h (walk_fuel h) [r] s in
    closed h s' /\ (forall n, sealed_in s n = true -> sealed_in s' n = true) /\
    (r < length h -> sealed_in s' r = true) /\ length s' = length h.
  Proof.
    intros L C.
    destruct (seal_walk_correct (walk_fuel h) [r] s L) as [C' [M [Tt Ls]]].
    - intros n x E S m Hm. left. exact (C n x E S m Hm).
    - unfold walk_fuel. pose proof (weight_bound h s). cbn [length]. lia.
    - split; [exact C'|split; [exact M|split; [|exact Ls]]]. intros Lr. apply Tt; [left; reflexivity|exact Lr].
  Qed.
End SealWalk.

Lemma closed_reach h s n m : closed h s -> sealed_in s n = true -> reach h n m -> sealed_in s m = true.
Proof. intros C S R. induction R as [n|n x k m E Hk R IH]; [exact S|]. apply IH. exact (C n x E S k Hk). Qed.

(* after seal(r), every configuration reachable from r - through parameters, lists, dicts,
   task marks, pre-tasks, init tasks, cycles - is sealed                                *)
Theorem seal_reaches_all h s r m : wf_heap h -> length s = length h -> closed h s -> r < length h ->
  reach h r m -> sealed_in (seal_walk h (walk_fuel h) [r] s) m = true.
Proof.
  intros W L C Lr R. destruct (seal_closes h W s r L C) as [C' [_ [Sr _]]].
  eapply closed_reach; [exact C'|apply Sr; exact Lr|exact R].
Qed.

(* ---- attempts on sealed configurations ------------------------------------------------------ *)
Section Frozen.
  Variable H : bytes -> bytes.
  Variable cs : classes.
  Variable fuel : nat.

  Definition on_sealed (s : cstate) (o : sop) : Prop :=
    match target o with Some n => sealed_in s n = true | None => True end.

  (* a rejected attempt changes nothing at all *)
  Lemma sealed_rejects h s o n : target o = Some n -> sealed_in s n = true ->
    sstep H cs fuel (h, s) o = ((h, s), ARejected).
  Proof.
    intros T S. destruct o; cbn [target] in T; inversion T; subst; cbn [sstep]; rewrite S; reflexivity.
  Qed.


  Lemma sealed_cupd_keep s n f m : (forall e, k_sealed (f e) = k_sealed e) -> sealed_in (cupd s n f) m = sealed_in s m.
  Proof.
    intros K. unfold sealed_in. destruct (cget_cupd_cases s n f m) as [->|[-> ->]]; [reflexivity|apply K].
  Qed.

  Lemma req_raw_sealed h ff s n s' d m : req_raw H cs h fuel ff s n = Ok (s', d) -> sealed_in s' m = sealed_in s m.
  Proof.
    unfold req_raw. intros E.
    destruct (if k_sealed (cget s n) then k_raw (cget s n) else None) as [[d0 fl]|].
    - injection E as <- _. reflexivity.
    - destruct (hnode H cs h (look_of s) fuel [] n) as [[d0 e0]|]; cbn [bind] in E; [|discriminate].
      injection E as <- _. destruct (k_sealed (cget s n)); [|reflexivity].
      apply sealed_cupd_keep. intros e. reflexivity.
  Qed.

  Lemma req_raws_sealed h ff : forall l s s' ds m, req_raws H cs h fuel ff s l = Ok (s', ds) -> sealed_in s' m = sealed_in s m.
  Proof.
    induction l as [|n l IH]; intros s s' ds m E; cbn [req_raws] in E.
    - injection E as <- _. reflexivity.
    - destruct (req_raw H cs h fuel ff s n) as [[s1 d1]|] eqn:R1; cbn [bind] in E; [|discriminate].
      cbn [fst snd] in E. destruct (req_raws H cs h fuel ff s1 l) as [[s2 d2]|] eqn:R2; cbn [bind] in E; [|discriminate].
      cbn [fst snd] in E. injection E as <- _. rewrite (IH s1 s2 d2 m R2). apply (req_raw_sealed h ff s n s1 d1 m R1).
  Qed.

  Lemma req_full_sealed h ff s n s' d m : req_full H cs h fuel ff s n = Ok (s', d) -> sealed_in s' m = sealed_in s m.
  Proof.
    unfold req_full. intros E. destruct (getnode h n) as [x|]; cbn [bind] in E; [|discriminate].
    destruct (req_raw H cs h fuel ff s n) as [[s1 d1]|] eqn:R1; cbn [bind] in E; [|discriminate]. cbn [fst snd] in E.
    rewrite <- (req_raw_sealed h ff s n s1 d1 m R1).
    destruct (if k_sealed (cget s1 n) then k_full (cget s1 n) else None) as [d0|].
    - injection E as <- _. reflexivity.
    - destruct (req_raws H cs h fuel ff s1 (pre_tasks_of h n)) as [[s2 p]|] eqn:R2; cbn [bind] in E; [|discriminate].
      cbn [fst snd] in E.
      destruct (req_raws H cs h fuel ff s2 (n_init x)) as [[s3 i]|] eqn:R3; cbn [bind] in E; [|discriminate].
      cbn [fst snd] in E. injection E as <- _.
      rewrite <- (req_raws_sealed h ff _ s1 s2 p m R2). rewrite <- (req_raws_sealed h ff _ s2 s3 i m R3).
      destruct (k_sealed (cget s3 n)); [|reflexivity]. apply sealed_cupd_keep. intros e. reflexivity.
  Qed.

  Lemma seal_walk_mono h : forall f todo s m, sealed_in s m = true -> sealed_in (seal_walk h f todo s) m = true.
  Proof.
    induction f as [|f IH]; intros todo s m S; cbn [seal_walk]; [exact S|].
    destruct todo as [|n todo]; [exact S|]. destruct (k_sealed (cget s n)); [apply IH; exact S|].
    destruct (nth_error h n); [|apply IH; exact S]. apply IH. apply (sealed_mark_mono s n m S).
  Qed.

  (* what each answer must be when every modification attempt targets a sealed configuration *)
  Definition frozen_answer (h : heap) (o : sop) (a : sans) : Prop :=
    match o with
    | SAssign _ _ _ | SSetMeta _ _ | SAddPre _ _ => a = ARejected
    | SSeal _ => a = AOk
    | SRaw n => forall d, a = AId d -> d = spec_id H cs h n
    | SFull n => forall d, a = AId d -> d = spec_full H cs h n
    end.

  (* For every history of assignment / meta-flag / pre-task attempts on sealed configurations
     interleaved with seals and identifier requests on any node: every attempt is rejected, the
     graph is unchanged, and every identifier answered is the one the graph had at sealing time *)
  Theorem frozen : forall h, ordered h -> forall ops s, csound H cs h s ->
    (forall o n, In o ops -> target o = Some n -> sealed_in s n = true) ->
    fst (fst (srun H cs fuel (h, s) ops)) = h /\
    Forall2 (frozen_answer h) ops (snd (srun H cs fuel (h, s) ops)).
  Proof.
    intros h Hord. induction ops as [|o ops IH]; intros s S Tg; cbn [srun]; [split; [reflexivity|constructor]|].
    assert (Step : exists s1 a, sstep H cs fuel (h, s) o = ((h, s1), a) /\ frozen_answer h o a /\ csound H cs h s1 /\
                                (forall m, sealed_in s m = true -> sealed_in s1 m = true)).
    { destruct o as [n k v|n f|n p|n|n|n].
      - exists s, ARejected. pose proof (Tg (SAssign n k v) n (or_introl eq_refl) eq_refl) as Sn.
        rewrite (sealed_rejects h s (SAssign n k v) n eq_refl Sn). cbn [frozen_answer]. auto.
      - exists s, ARejected. pose proof (Tg (SSetMeta n f) n (or_introl eq_refl) eq_refl) as Sn.
        rewrite (sealed_rejects h s (SSetMeta n f) n eq_refl Sn). cbn [frozen_answer]. auto.
      - exists s, ARejected. pose proof (Tg (SAddPre n p) n (or_introl eq_refl) eq_refl) as Sn.
        rewrite (sealed_rejects h s (SAddPre n p) n eq_refl Sn). cbn [frozen_answer]. auto.
      - exists (seal_walk h (walk_fuel h) [n] s), AOk. cbn [sstep frozen_answer].
        split; [reflexivity|split; [reflexivity|split; [apply seal_walk_sound; exact S|]]].
        intros m Sm. apply seal_walk_mono. exact Sm.
      - cbn [sstep]. destruct (req_raw H cs h fuel true s n) as [[s1 d]|] eqn:R.
        + exists s1, (AId d). destruct (req_raw_sound H cs h Hord fuel true s n s1 d S R) as [-> S1].
          split; [reflexivity|split; [intros d0 E; inversion E; reflexivity|split; [exact S1|]]].
          intros m Sm. rewrite (req_raw_sealed h true s n s1 _ m R). exact Sm.
        + exists s, AFail. split; [reflexivity|split; [intros d0 E; discriminate|auto]].
      - cbn [sstep]. destruct (req_full H cs h fuel true s n) as [[s1 d]|] eqn:R.
        + exists s1, (AId d). destruct (req_full_sound H cs h Hord fuel true s n s1 d S R) as [-> S1].
          split; [reflexivity|split; [intros d0 E; inversion E; reflexivity|split; [exact S1|]]].
          intros m Sm. rewrite (req_full_sealed h true s n s1 _ m R). exact Sm.
        + exists s, AFail. split; [reflexivity|split; [intros d0 E; discriminate|auto]]. }
    destruct Step as [s1 [a [Es [Fa [S1 Mono]]]]]. rewrite Es.
    destruct (IH s1 S1) as [Eh Fo].
    { intros o' n' Hin Tn. apply Mono. apply (Tg o' n' (or_intror Hin) Tn). }
    destruct (srun H cs fuel (h, s1) ops) as [g2 l] eqn:R2. cbn [fst snd] in *.
    split; [exact Eh|constructor; assumption].
  Qed.
End Frozen.

(* non-vacuity: a sealed two-node graph, an attempt on the reachable child, then a request *)
Example frozen_example :
  let c := {| c_tid := [116]%N;
              c_args := [{| a_name := [120]%N; a_ignored := false; a_gen := false; a_const := false;
                            a_required := false; a_default := None |}] |} in
  let h := [ {| n_cls := 0; n_fields := [([120]%N, VInt 3)]; n_meta := None; n_task := None; n_pre := []; n_init := [] |};
             {| n_cls := 0; n_fields := [([120]%N, VRef 0)]; n_meta := None; n_task := None; n_pre := []; n_init := [] |} ] in
  snd (srun (fun b => b) [c] 10 (h, map centry0 [false; false]) [SSeal 1; SAssign 0 [120]%N (VInt 4); SRaw 1])
  = [AOk; ARejected; AId (spec_id (fun b => b) [c] h 1)].
Proof. vm_compute. reflexivity. Qed.
