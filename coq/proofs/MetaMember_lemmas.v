(* C02: configurations flagged as meta, as list elements or dict values AT ANY DEPTH, do not enter
   the identifier.  remove_meta (the implementation's own normal form, now recursive) is the
   witness: two stored values with the same normal form give the same identifier to every node. *)
From Coq Require Import ZArith NArith List Bool Lia Permutation.
From XV Require Import core.Value model.Hash model.Edits proofs.Sort_lemmas proofs.Hash_lemmas
  proofs.Neutral_lemmas proofs.Spec_lemmas proofs.Vperm_lemmas proofs.Cyclic_lemmas.
Import ListNotations.

Lemma seq_list_map {A B} (g : A -> B) (f : B -> hres) (l : list A) :
  seq_list f (map g l) = seq_list (fun x => f (g x)) l.
Proof. induction l as [|x l IH]; cbn [map seq_list]; [reflexivity|]. rewrite IH. reflexivity. Qed.

Lemma seq_list_ext_in {A} (f g : A -> hres) (l : list A) : (forall x, In x l -> f x = g x) -> seq_list f l = seq_list g l.
Proof.
  induction l as [|x l IH]; intros E; cbn [seq_list]; [reflexivity|].
  rewrite (E x (or_introl eq_refl)), IH; [reflexivity|]. intros y Hy. apply E. right. exact Hy.
Qed.

(* remove_meta keeps the head constructor: the tests of the argument loop do not see it *)
Lemma rm_is_meta h v : is_meta h (remove_meta h v) = is_meta h v.
Proof. destruct v; reflexivity. Qed.
Lemma rm_is_meta_false h v : is_meta_false h (remove_meta h v) = is_meta_false h v.
Proof. destruct v; reflexivity. Qed.
Lemma rm_none h v : (match remove_meta h v with VNone => true | _ => false end) = (match v with VNone => true | _ => false end).
Proof. destruct v; reflexivity. Qed.

Lemma filter_all {A} (p : A -> bool) (l : list A) : (forall x, In x l -> p x = true) -> filter p l = l.
Proof.
  induction l as [|x l IH]; intros E; cbn [filter]; [reflexivity|].
  rewrite (E x (or_introl eq_refl)), IH; [reflexivity|]. intros y Hy. apply E. right. exact Hy.
Qed.

Section Strip.
  Variable H : bytes -> bytes.
  Variable cs : classes.
  Variable h : heap.
  Variable look : nat -> option bytes.

  (* hashing a value = hashing its normal form: meta-flagged members are invisible at every depth *)
  Lemma hv_strip : forall fuel st v, hv H cs h look fuel st v = hv H cs h look fuel st (remove_meta h v).
  Proof.
    induction fuel as [|f IH]; intros st v; [reflexivity|].
    destruct v as [| z | b | bits | s | s | q | l | l | m]; try reflexivity.
    - rewrite remove_meta_list, !hv_list.
      set (L := filter (fun x => negb (is_meta h x)) l).
      assert (E : filter (fun x => negb (is_meta h x)) (map (remove_meta h) L) = map (remove_meta h) L).
      { apply filter_all. intros y Hy. apply in_map_iff in Hy. destruct Hy as [x [<- Hx]]. rewrite rm_is_meta.
        apply filter_In in Hx. apply Hx. }
      rewrite E, map_length, seq_list_map.
      rewrite (seq_list_ext_in (fun x => hv H cs h look f st (remove_meta h x)) (hv H cs h look f st) L); [reflexivity|].
      intros x _. symmetry. apply IH.
    - rewrite remove_meta_dict, !hv_dict.
      set (L := filter (fun kv : list N * value => negb (is_meta h (snd kv))) l).
      set (g := fun kv : list N * value => (fst kv, remove_meta h (snd kv))).
      assert (E : filter (fun kv : list N * value => negb (is_meta h (snd kv))) (map g L) = map g L).
      { apply filter_all. intros y Hy. apply in_map_iff in Hy. destruct Hy as [x [<- Hx]]. unfold g. cbn [snd]. rewrite rm_is_meta.
        apply filter_In in Hx. apply Hx. }
      rewrite E. rewrite (sort_by_map fst fst g) by (intros x; reflexivity). rewrite seq_list_map.
      match goal with |- bind (seq_list ?F ?X) _ = bind (seq_list ?G _) _ => rewrite (seq_list_ext_in F G X) end; [reflexivity|].
      intros x _. unfold g. cbn [fst snd]. rewrite <- IH. reflexivity.
  Qed.
End Strip.

(* ---- across two graphs whose signatures agree up to the normal form of the selected values ---------- *)
Definition selrel_m (h : heap) (s s' : argsel) : Prop :=
  match s, s' with
  | AVal v, AVal v' => remove_meta h v = remove_meta h v'
  | ASkip, ASkip => True
  | AMissing, AMissing => True
  | _, _ => False
  end.
Definition argrel_m h (p q : bytes * argsel) : Prop := fst p = fst q /\ selrel_m h (snd p) (snd q).
Definition sigrel_m h (r r' : res nodesig) : Prop :=
  match r, r' with
  | Ok sg, Ok sg' => sg_task sg = sg_task sg' /\ sg_tid sg = sg_tid sg' /\ Forall2 (argrel_m h) (sg_args sg) (sg_args sg')
  | Err e, Err e' => e = e'
  | _, _ => False
  end.

Section RelM.
  Variable H : bytes -> bytes.
  Variables cs cs' : classes.
  Variables h h' : heap.
  Variable look : nat -> option bytes.
  Hypothesis Hmeta : meta_eq h h'.
  Hypothesis Hsig : forall n, sigrel_m h (nsig cs h n) (nsig cs' h' n).

  Lemma hv_rel_m : forall fuel st v v', remove_meta h v = remove_meta h v' ->
    hv H cs h look fuel st v = hv H cs' h' look fuel st v'.
  Proof.
    induction fuel as [|f IH]; intros st v v' E; [reflexivity|].
    rewrite (hv_strip H cs h look (S f) st v), (hv_strip H cs' h' look (S f) st v').
    rewrite <- (meta_eq_remove_meta h h' Hmeta v'), <- E.
    generalize (remove_meta h v) as w. clear v v' E. intros w.
    destruct w as [| z | b | bits | s | s | q | l | l | m]; try reflexivity.
    - rewrite !hv_list.
      rewrite (filter_ext (fun x => negb (is_meta h' x)) (fun x => negb (is_meta h x)))
        by (intros x; rewrite (meta_eq_is_meta h h' Hmeta); reflexivity).
      rewrite (seq_list_ext_in (hv H cs h look f st) (hv H cs' h' look f st)); [reflexivity|].
      intros x _. apply IH. reflexivity.
    - rewrite !hv_dict.
      rewrite (filter_ext (fun kv : list N * value => negb (is_meta h' (snd kv))) (fun kv : list N * value => negb (is_meta h (snd kv))))
        by (intros x; rewrite (meta_eq_is_meta h h' Hmeta); reflexivity).
      match goal with |- bind (seq_list ?F ?X) _ = bind (seq_list ?G _) _ => rewrite (seq_list_ext_in F G X) end; [reflexivity|].
      intros x _. rewrite (IH st (snd x) (snd x) eq_refl). reflexivity.
    - rewrite !hv_ref. destruct (index_of m st); [reflexivity|]. destruct (look m); [reflexivity|].
      unfold hnode_with. specialize (Hsig m). unfold sigrel_m in Hsig.
      destruct (nsig cs h m) as [sg|e], (nsig cs' h' m) as [sg'|e']; try contradiction; cbn [bind]; [|subst; reflexivity].
      destruct Hsig as [Et [Ei Fa]]. rewrite Et, Ei.
      assert (ET : (match sg_task sg' with
                    | Some t => do r <- hv H cs h look f (m :: st) (VRef t); Ok (tmark (m :: st) t (fst r), snd r)
                    | None => Ok ([], 0) end)
                 = (match sg_task sg' with
                    | Some t => do r <- hv H cs' h' look f (m :: st) (VRef t); Ok (tmark (m :: st) t (fst r), snd r)
                    | None => Ok ([], 0) end)).
      { destruct (sg_task sg'); [|reflexivity]. rewrite (IH (m :: st) (VRef n) (VRef n) eq_refl). reflexivity. }
      rewrite ET.
      rewrite (seq_list_F2 (argrel_m h) (hsel (hv H cs h look f (m :: st))) (hsel (hv H cs' h' look f (m :: st))) _ _ Fa); [reflexivity|].
      intros [k s] [k' s'] [Ek Rs]. cbn [fst snd] in *. subst k'. unfold hsel. cbn [fst snd].
      destruct s as [| |u], s' as [| |u']; cbn [selrel_m] in Rs; try contradiction; try reflexivity.
      rewrite (IH (m :: st) _ _ Rs). reflexivity.
  Qed.
End RelM.

(* the argument loop takes the same decision for two stored values with the same normal form *)
Lemma argsel_rm h a v v' : remove_meta h v = remove_meta h v' ->
  selrel_m h (argsel_of h [(a_name a, v)] a) (argsel_of h [(a_name a, v')] a).
Proof.
  intros E. unfold argsel_of. cbn [assoc]. rewrite bytes_eqb_refl.
  rewrite <- (rm_is_meta_false h v), <- (rm_is_meta_false h v'), <- (rm_none h v), <- (rm_none h v'),
          <- (rm_is_meta h v), <- (rm_is_meta h v'), <- E.
  destruct (a_ignored a && negb (is_meta_false h (remove_meta h v))); [exact I|]. destruct (a_gen a); [exact I|].
  match goal with |- selrel_m h (if ?c then _ else _) _ => destruct c end; [exact I|].
  destruct (is_meta h (remove_meta h v)); [exact I|exact E].
Qed.

Lemma selrel_m_refl h s : selrel_m h s s.
Proof. destruct s; cbn; auto. Qed.

(* replacing the stored value of one parameter of one node by a value with the same normal form
   (meta-flagged members added, removed or exchanged, in lists and dicts, at any depth) leaves the
   identifier of EVERY node of the graph unchanged                                              *)
Theorem meta_member_neutral H cs h look n x k v v' :
  nth_error h n = Some x -> assoc k (n_fields x) = Some v -> remove_meta h v = remove_meta h v' ->
  forall fuel m, raw_ident H cs h look fuel m
               = raw_ident H cs (upd_nth h n (with_fields x (set_field k v' (n_fields x)))) look fuel m.
Proof.
  intros Ex Ev P fuel m.
  set (h' := upd_nth h n (with_fields x (set_field k v' (n_fields x)))).
  assert (M : meta_eq h h') by (apply (meta_eq_upd h n x); [exact Ex|reflexivity]).
  assert (S : forall q, sigrel_m h (nsig cs h q) (nsig cs h' q)).
  { intros q. unfold nsig, getnode, h'. destruct (Nat.eq_dec n q) as [<-|D].
    - rewrite nth_upd_same by (eapply nth_error_lt; eassumption). rewrite Ex. cbn [bind with_fields n_cls n_task n_fields].
      destruct (getclass cs (n_cls x)) as [c|]; cbn [bind sigrel_m]; [|reflexivity].
      split; [reflexivity|split; [reflexivity|]]. cbn [sg_args]. unfold sigargs.
      apply F2_filter.
      + generalize (sort_by a_name (c_args c)) as args. induction args as [|a args IH]; cbn [map]; constructor; [|exact IH].
        split; [reflexivity|]. cbn [snd].
        rewrite <- (meta_eq_argsel h h' M). fold h'.
        destruct (list_eq_dec N.eq_dec (a_name a) k) as [Ek|Dk].
        * subst k. rewrite (argsel_single h a _ v Ev), (argsel_single h a _ v' (assoc_set_same _ _ _)).
          apply argsel_rm. exact P.
        * rewrite argsel_other_arg by exact Dk. apply selrel_m_refl.
      + intros [ka sa] [kb sb] [_ Rs]. cbn [snd] in *. destruct sa, sb; cbn in Rs; try contradiction; reflexivity.
    - rewrite nth_upd_other by exact D. destruct (nth_error h q) as [y|]; cbn [bind sigrel_m]; [|reflexivity].
      destruct (getclass cs (n_cls y)) as [c|]; cbn [bind sigrel_m]; [|reflexivity].
      split; [reflexivity|split; [reflexivity|]]. cbn [sg_args]. rewrite <- (meta_eq_sigargs h _ M).
      generalize (sigargs h (n_fields y) (c_args c)) as l. induction l as [|p l IH]; constructor; [|exact IH].
      split; [reflexivity|apply selrel_m_refl]. }
  unfold raw_ident, hnode, hnode_with. pose proof (S m) as Sm. unfold sigrel_m in Sm.
  destruct (nsig cs h m) as [sg|e], (nsig cs h' m) as [sg'|e']; try contradiction; cbn [bind]; [|subst; reflexivity].
  destruct Sm as [Et [Ei Fa]]. rewrite Et, Ei.
  assert (ET : (match sg_task sg' with
                | Some t => do r <- hv H cs h look fuel [m] (VRef t); Ok (tmark [m] t (fst r), snd r)
                | None => Ok ([], 0) end)
             = (match sg_task sg' with
                | Some t => do r <- hv H cs h' look fuel [m] (VRef t); Ok (tmark [m] t (fst r), snd r)
                | None => Ok ([], 0) end)).
  { destruct (sg_task sg') as [t|]; [|reflexivity]. rewrite (hv_rel_m H cs cs h h' look M S fuel [m] (VRef t) (VRef t) eq_refl). reflexivity. }
  rewrite ET.
  rewrite (seq_list_F2 (argrel_m h) (hsel (hv H cs h look fuel [m])) (hsel (hv H cs h' look fuel [m])) _ _ Fa); [reflexivity|].
  intros [ka sa] [kb sb] [Ek Rs]. cbn [fst snd] in *. subst kb. unfold hsel. cbn [fst snd].
  destruct sa as [| |u], sb as [| |u']; cbn [selrel_m] in Rs; try contradiction; try reflexivity.
  rewrite (hv_rel_m H cs cs h h' look M S fuel [m] _ _ Rs). reflexivity.
Qed.

(* non-vacuity, and the record of the defect: node 1 is meta-flagged; [[VRef 1]] and [[]] have the same
   normal form, but the pinned commit's one-level remove_meta1 told them apart when comparing with a
   default [[]] - one was skipped as "equal to the default", the other hashed                       *)
Definition mm_heap : heap :=
  [ {| n_cls := 0; n_fields := []; n_meta := None; n_task := None; n_pre := []; n_init := [] |};
    {| n_cls := 0; n_fields := []; n_meta := Some true; n_task := None; n_pre := []; n_init := [] |} ].
Example mm_same_normal_form :
  remove_meta mm_heap (VList [VList [VRef 1]]) = remove_meta mm_heap (VList [VList []]) /\
  remove_meta mm_heap (VDict [([97]%N, VList [VRef 1; VInt 3])]) = remove_meta mm_heap (VDict [([97]%N, VList [VInt 3; VRef 1; VRef 1])]).
Proof. split; reflexivity. Qed.
Theorem default_test_one_level_refuted : exists h d v v',
  remove_meta h v = remove_meta h v' /\ pyeq d (remove_meta1 h v) <> pyeq d (remove_meta1 h v').
Proof.
  exists mm_heap, (VList [VList []]), (VList [VList [VRef 1]]), (VList [VList []]).
  split; [reflexivity|]. vm_compute. discriminate.
Qed.
