(* A task that marks one of its own parameters as its output keeps its identifier.

   `mark h c t` is the heap after `mark_output`: the configuration c (unmarked before) now carries the mark
   "produced by t".  Every identifier computed while t is on the hash stack - in particular the identifier of t
   itself, in any context - has the same bytes on the marked heap as on the heap the task was identified (submitted)
   with; only the loop flag may differ.  This is what the job directory, the saved parameter file and a reload rely
   on, and what the repair 661195f of /repo establishes (the theorem is false for the hash of the pinned commit:
   `own_mark_changed_identifier_before`, by computation on a three-node graph with the former task clause).        *)
From Coq Require Import ZArith NArith List Bool Lia Permutation.
From XV Require Import core.Value model.Hash model.Edits proofs.Sort_lemmas proofs.Hash_lemmas proofs.Neutral_lemmas proofs.Cyclic_lemmas proofs.Coherence_lemmas.
Import ListNotations.

Definition with_task (x : node) (t : option nat) : node :=
  {| n_cls := n_cls x; n_fields := n_fields x; n_meta := n_meta x; n_task := t; n_pre := n_pre x; n_init := n_init x |}.

Definition mark (h : heap) (c t : nat) : heap :=
  match nth_error h c with
  | Some x => upd_nth h c (with_task x (Some t))
  | None => h
  end.

Lemma seq_list_bytes {A} (f f' : A -> hres) (l : list A) :
  (forall x, In x l -> forall b e, f' x = Ok (b, e) -> exists e', f x = Ok (b, e')) ->
  forall bs e, seq_list f' l = Ok (bs, e) -> exists e', seq_list f l = Ok (bs, e').
Proof.
  induction l as [|x l IH]; intros Hx bs e E; cbn [seq_list] in *.
  - inversion E. exists 0. reflexivity.
  - destruct (f' x) as [[b1 e1]|] eqn:R1; cbn [bind] in E; [|discriminate].
    destruct (seq_list f' l) as [[b2 e2]|] eqn:R2; cbn [bind] in E; [|discriminate].
    destruct (Hx x (or_introl eq_refl) b1 e1 R1) as [e1' F1].
    destruct (IH (fun y Hy => Hx y (or_intror Hy)) b2 e2 eq_refl) as [e2' F2].
    rewrite F1, F2. cbn [bind fst snd] in *. inversion E. eexists. reflexivity.
Qed.

Section OwnMark.
  Variable H : bytes -> bytes.
  Variable cs : classes.
  Variables h h' : heap.
  Variable look : nat -> option bytes.
  Variables c t : nat.

  (* what `mark` changes, abstractly: nothing but the task component of the signature of c *)
  Hypothesis Hmeta : forall v, is_meta h v = is_meta h' v.
  Hypothesis Hother : forall n, n <> c -> nsig cs h' n = nsig cs h n.
  Hypothesis Hc : forall sg', nsig cs h' c = Ok sg' ->
    exists sg, nsig cs h c = Ok sg /\ sg_task sg = None /\ sg_task sg' = Some t
               /\ sg_tid sg' = sg_tid sg /\ sg_args sg' = sg_args sg.

  Lemma hsel_bytes (f f' : value -> hres) p :
    (forall v b e, f' v = Ok (b, e) -> exists e', f v = Ok (b, e')) ->
    forall b e, hsel f' p = Ok (b, e) -> exists e', hsel f p = Ok (b, e').
  Proof.
    intros Hf b e E. unfold hsel in *. destruct (snd p) as [| |v]; try discriminate.
    destruct (f' v) as [[b1 e1]|] eqn:R; cbn [bind] in E; [|discriminate].
    destruct (Hf v b1 e1 R) as [e1' F]. rewrite F. cbn [bind fst snd] in *. inversion E. eexists. reflexivity.
  Qed.

  (* one node, given the statement for the values below it *)
  Lemma node_bytes f st m :
    (forall st v b e, In t st -> hv H cs h' look f st v = Ok (b, e) -> exists e', hv H cs h look f st v = Ok (b, e')) ->
    In t (m :: st) ->
    forall d e, hnode_with H cs h' (hv H cs h' look f) st m = Ok (d, e) ->
    exists e', hnode_with H cs h (hv H cs h look f) st m = Ok (d, e').
  Proof.
    intros IH Hin d e E. unfold hnode_with in *.
    destruct (nsig cs h' m) as [sg'|] eqn:Esg'; cbn [bind] in E; [|discriminate].
    match type of E with (bind ?x _) = _ => destruct x as [[bt et]|] eqn:RT end; cbn [bind] in E; [|discriminate].
    match type of E with (bind ?x _) = _ => destruct x as [[ba ea]|] eqn:RA end; cbn [bind] in E; [|discriminate].
    cbn [fst snd] in E.
    assert (ARGS : forall l, seq_list (hsel (hv H cs h' look f (m :: st))) l = Ok (ba, ea) ->
                             exists ea', seq_list (hsel (hv H cs h look f (m :: st))) l = Ok (ba, ea')).
    { intros l. apply seq_list_bytes. intros p _. apply hsel_bytes. intros v b0 e0. apply IH. exact Hin. }
    destruct (Nat.eq_dec m c) as [->|D].
    - (* the marked configuration: its mark is skipped, the task is on the stack *)
      destruct (Hc sg' Esg') as [sg [Esg [Tn [Ts [Tid Targs]]]]]. rewrite Esg. cbn [bind]. rewrite Tn.
      rewrite Ts in RT.
      destruct (hv H cs h' look f (c :: st) (VRef t)) as [[b1 e1]|]; cbn [bind fst snd] in RT; [|discriminate].
      assert (Eb : bt = []).
      { destruct (index_of_in_some t (c :: st) Hin) as [pos Ep]. rewrite (tmark_some _ _ _ _ Ep) in RT. inversion RT. reflexivity. }
      subst bt. cbn [bind]. rewrite Targs in RA. destruct (ARGS _ RA) as [ea' F]. rewrite F. cbn [bind fst snd].
      rewrite Tid in E. inversion E. eexists. reflexivity.
    - rewrite <- (Hother m D). rewrite Esg'. cbn [bind].
      assert (TK : exists et', (match sg_task sg' with
                                | Some t2 => do r <- hv H cs h look f (m :: st) (VRef t2); Ok (tmark (m :: st) t2 (fst r), snd r)
                                | None => Ok ([], 0) end) = Ok (bt, et')).
      { destruct (sg_task sg') as [t2|]; [|inversion RT; exists 0; reflexivity].
        destruct (hv H cs h' look f (m :: st) (VRef t2)) as [[b1 e1]|] eqn:R1; cbn [bind fst snd] in RT; [|discriminate].
        destruct (IH (m :: st) (VRef t2) b1 e1 Hin R1) as [e1' F1]. rewrite F1. cbn [bind fst snd]. inversion RT. eexists. reflexivity. }
      destruct TK as [et' F]. rewrite F. cbn [bind]. destruct (ARGS _ RA) as [ea' F2]. rewrite F2. cbn [bind fst snd].
      inversion E. eexists. reflexivity.
  Qed.

  (* every value hashed while t is on the stack *)
  Lemma hv_bytes : forall fuel st v b e, In t st ->
    hv H cs h' look fuel st v = Ok (b, e) -> exists e', hv H cs h look fuel st v = Ok (b, e').
  Proof.
    induction fuel as [|f IH]; intros st v b e Hin E; [discriminate|].
    destruct v as [| z | bb | bits | s | s | q | l | l | m]; cbn [hv] in *; try (eexists; exact E).
    - (* list *)
      assert (EF : filter (fun x => negb (is_meta h' x)) l = filter (fun x => negb (is_meta h x)) l).
      { apply filter_ext. intros x. rewrite Hmeta. reflexivity. }
      rewrite EF in E.
      match type of E with (bind ?x _) = _ => destruct x as [[bs es]|] eqn:R end; cbn [bind] in E; [|discriminate].
      destruct (seq_list_bytes (hv H cs h look f st) (hv H cs h' look f st) _
                  (fun x _ b0 e0 => IH st x b0 e0 Hin) bs es R) as [es' F].
      rewrite F. cbn [bind fst snd] in *. inversion E. eexists. reflexivity.
    - (* dict *)
      assert (EF : filter (fun kv : bytes * value => negb (is_meta h' (snd kv))) l
                   = filter (fun kv => negb (is_meta h (snd kv))) l).
      { apply filter_ext. intros x. rewrite Hmeta. reflexivity. }
      rewrite EF in E.
      match type of E with (bind ?x _) = _ => destruct x as [[bs es]|] eqn:R end; cbn [bind] in E; [|discriminate].
      assert (PW : forall kv : bytes * value,
                 In kv (sort_by fst (filter (fun kv : bytes * value => negb (is_meta h (snd kv))) l)) -> forall b0 e0,
                 (do b1 <- hv H cs h' look f st (snd kv); Ok (STR_ID :: fst kv ++ fst b1, snd b1)) = Ok (b0, e0) ->
                 exists e', (do b1 <- hv H cs h look f st (snd kv); Ok (STR_ID :: fst kv ++ fst b1, snd b1)) = Ok (b0, e')).
      { intros kv _ b0 e0 R0.
        destruct (hv H cs h' look f st (snd kv)) as [[b1 e1]|] eqn:R1; cbn [bind] in R0; [|discriminate].
        destruct (IH st (snd kv) b1 e1 Hin R1) as [e1' F1]. rewrite F1. cbn [bind fst snd] in *.
        inversion R0. eexists. reflexivity. }
      destruct (seq_list_bytes _ _ _ PW bs es R) as [es' F].
      match goal with |- exists e', (bind ?x _) = _ => change x with
        (seq_list (fun kv : bytes * value => do b1 <- hv H cs h look f st (snd kv); Ok (STR_ID :: fst kv ++ fst b1, snd b1))
                  (sort_by fst (filter (fun kv : bytes * value => negb (is_meta h (snd kv))) l))) end.
      rewrite F. cbn [bind fst snd] in *. inversion E. eexists. reflexivity.
    - (* reference *)
      destruct (index_of m st) as [pos|]; [eexists; exact E|].
      destruct (look m) as [dg|]; [eexists; exact E|].
      match type of E with (bind ?x _) = _ => destruct x as [[d0 e0]|] eqn:R end; cbn [bind] in E; [|discriminate].
      destruct (node_bytes f st m (fun st0 v0 b0 e1 Hi => IH st0 v0 b0 e1 Hi) (or_intror Hin) d0 e0 R) as [e0' F].
      rewrite F. cbn [bind fst snd] in *. inversion E. eexists. reflexivity.
  Qed.

  (* the task itself, in any context: same identifier bytes on the marked graph as on the graph it was submitted with *)
  Theorem own_mark_keeps_identifier fuel st d e :
    hnode H cs h' look fuel st t = Ok (d, e) -> exists e', hnode H cs h look fuel st t = Ok (d, e').
  Proof.
    unfold hnode. apply node_bytes; [|left; reflexivity].
    intros st0 v b0 e0 Hi. apply hv_bytes. exact Hi.
  Qed.
End OwnMark.

(* ---- the concrete marking ---------------------------------------------------------------------- *)
Section Mark.
  Variable H : bytes -> bytes.
  Variable cs : classes.
  Variable h : heap.
  Variable look : nat -> option bytes.
  Variables c t : nat.
  Variable x : node.
  Hypothesis Ex : nth_error h c = Some x.
  Hypothesis Unmarked : n_task x = None.
  Hypothesis Dct : t <> c.

  Lemma mark_unfold : mark h c t = upd_nth h c (with_task x (Some t)).
  Proof. unfold mark. rewrite Ex. reflexivity. Qed.

  Lemma mark_meta_eq : meta_eq h (mark h c t).
  Proof. rewrite mark_unfold. apply (meta_eq_upd h c x); [exact Ex|reflexivity]. Qed.

  Lemma mark_other n : n <> c -> nsig cs (mark h c t) n = nsig cs h n.
  Proof.
    intros D. unfold nsig, getnode. rewrite mark_unfold, nth_upd_other by congruence.
    destruct (nth_error h n) as [y|]; cbn [bind]; [|reflexivity].
    destruct (getclass cs (n_cls y)) as [k|]; cbn [bind]; [|reflexivity].
    rewrite <- mark_unfold. rewrite <- (meta_eq_sigargs _ _ mark_meta_eq). reflexivity.
  Qed.

  Lemma mark_at sg' : nsig cs (mark h c t) c = Ok sg' ->
    exists sg, nsig cs h c = Ok sg /\ sg_task sg = None /\ sg_task sg' = Some t
               /\ sg_tid sg' = sg_tid sg /\ sg_args sg' = sg_args sg.
  Proof.
    unfold nsig, getnode. rewrite mark_unfold, nth_upd_same by (eapply nth_error_lt; exact Ex). rewrite Ex. cbn [bind].
    cbn [with_task n_cls n_fields n_task].
    destruct (getclass cs (n_cls x)) as [k|]; cbn [bind]; [|discriminate].
    intros E. inversion E. eexists. split; [reflexivity|]. cbn [sg_task sg_tid sg_args]. rewrite Unmarked.
    split; [reflexivity|]. split.
    - destruct (Nat.eqb t c) eqn:Q; [apply Nat.eqb_eq in Q; contradiction|reflexivity].
    - split; [reflexivity|]. rewrite <- mark_unfold. rewrite <- (meta_eq_sigargs _ _ mark_meta_eq). reflexivity.
  Qed.

  Theorem mark_keeps_task_identifier fuel st d e :
    hnode H cs (mark h c t) look fuel st t = Ok (d, e) -> exists e', hnode H cs h look fuel st t = Ok (d, e').
  Proof.
    apply (own_mark_keeps_identifier H cs h (mark h c t) look c t).
    - apply meta_eq_is_meta. exact mark_meta_eq.
    - exact mark_other.
    - exact mark_at.
  Qed.

  Theorem mark_invisible_within_task fuel st v b e : In t st ->
    hv H cs (mark h c t) look fuel st v = Ok (b, e) -> exists e', hv H cs h look fuel st v = Ok (b, e').
  Proof.
    intros Hin. apply (hv_bytes H cs h (mark h c t) look c t); try assumption.
    - apply meta_eq_is_meta. exact mark_meta_eq.
    - exact mark_other.
    - exact mark_at.
  Qed.
End Mark.

(* non-vacuity: Learn(model=Model()) whose task_outputs returns dep(self.model); H is the identity, the identifier is the
   hashed stream itself.  On the marked heap the computation succeeds, is flagged as a loop, and has the bytes of the
   unmarked one.                                                                                                   *)
Definition om_classes : classes :=
  [ {| c_tid := [109]%N; c_args := [] |};
    {| c_tid := [108]%N;
       c_args := [{| a_name := [109]%N; a_ignored := false; a_gen := false; a_const := false;
                     a_required := true; a_default := None |}] |} ].
Definition om_heap : heap :=
  [ {| n_cls := 0; n_fields := []; n_meta := None; n_task := None; n_pre := []; n_init := [] |};
    {| n_cls := 1; n_fields := [([109]%N, VRef 0)]; n_meta := None; n_task := None; n_pre := []; n_init := [] |} ].

Example own_mark_example :
  exists d e e', hnode (fun b => b) om_classes (mark om_heap 0 1) (fun _ => None) 5 [] 1 = Ok (d, e)
                 /\ hnode (fun b => b) om_classes om_heap (fun _ => None) 5 [] 1 = Ok (d, e') /\ e = 1 /\ e' = 0.
Proof. eexists. eexists. eexists. split; [vm_compute; reflexivity|]. split; [vm_compute; reflexivity|]. split; reflexivity. Qed.

(* ... while the output itself, seen from anywhere else, carries the mark: its identifier differs from the unmarked one *)
Example own_mark_output_differs :
  hnode (fun b => b) om_classes (mark om_heap 0 1) (fun _ => None) 5 [] 0
  <> hnode (fun b => b) om_classes om_heap (fun _ => None) 5 [] 0.
Proof. vm_compute. intros E. discriminate E. Qed.

(* ---- the open finding C03:collision:init-tasks-of-producing-task, stated in the model -----------------------------
   Learn().submit(init_tasks=[Init(v=1)]) and Learn().submit(init_tasks=[Init(v=2)]) are two jobs (their full
   identifiers differ), but the configuration that embeds their outputs gets the same raw AND full identifier in both
   plans: the task mark is hashed through the RAW identifier of the producing task, which does not see its init tasks.
   H is the identity: identifiers are the hashed streams.                                                           *)
Definition it_classes : classes :=
  [ {| c_tid := [105]%N;                       (* "i": the init task, one parameter v *)
       c_args := [{| a_name := [118]%N; a_ignored := false; a_gen := false; a_const := false;
                     a_required := true; a_default := None |}] |};
    {| c_tid := [108]%N; c_args := [] |};      (* "l": the learner *)
    {| c_tid := [109]%N; c_args := [] |};      (* "m": its output *)
    {| c_tid := [101]%N;                       (* "e": what embeds the output *)
       c_args := [{| a_name := [109]%N; a_ignored := false; a_gen := false; a_const := false;
                     a_required := true; a_default := None |}] |} ].
Definition it_heap (v : Z) : heap :=
  [ {| n_cls := 0; n_fields := [([118]%N, VInt v)]; n_meta := None; n_task := None; n_pre := []; n_init := [] |};
    {| n_cls := 1; n_fields := []; n_meta := None; n_task := None; n_pre := []; n_init := [0] |};
    {| n_cls := 2; n_fields := []; n_meta := None; n_task := Some 1; n_pre := []; n_init := [] |};
    {| n_cls := 3; n_fields := [([109]%N, VRef 2)]; n_meta := None; n_task := None; n_pre := []; n_init := [] |} ].

Example init_tasks_of_producer_collide :
  full_pure (fun b => b) it_classes (it_heap 1) 9 1 <> full_pure (fun b => b) it_classes (it_heap 2) 9 1      (* two jobs *)
  /\ (exists d, full_pure (fun b => b) it_classes (it_heap 1) 9 3 = Ok d
                /\ full_pure (fun b => b) it_classes (it_heap 2) 9 3 = Ok d).                                (* one embedder *)
Proof. split; [vm_compute; intros E; discriminate E|]. eexists. split; vm_compute; reflexivity. Qed.

(* ---- an output handed on by dep(self.c) where c is already the output of another task (/repo e2f4b5e): the output
   is a COPY of c marked by the task, appended to the graph; c keeps its mark.  Nothing that existed changes: every
   identifier of the graph before is the identifier in the extended graph (frame theorem with R = "was there").   *)
Definition add_output (h : heap) (c t : nat) : heap :=
  match nth_error h c with
  | Some x => h ++ [with_task x (Some t)]
  | None => h
  end.

Theorem output_copy_keeps_every_identifier H cs h look c t fuel st n :
  (forall m x, nth_error h m = Some x -> forall k, In k (succs x) -> k < length h) ->
  n < length h ->
  hnode H cs h look fuel st n = hnode H cs (add_output h c t) look fuel st n.
Proof.
  intros W Ln. unfold add_output. destruct (nth_error h c) as [x|]; [|reflexivity].
  apply (Coherence_lemmas.hnode_frame H cs h (h ++ [with_task x (Some t)]) look (fun m => m < length h)).
  - intros m Lm. symmetry. apply nth_error_app1. exact Lm.
  - intros m y _ E k Hk. exact (W m y E k Hk).
  - exact Ln.
Qed.

(* the copy carries the mark of the task and the values of c *)
Theorem output_copy_is_marked h c t x :
  nth_error h c = Some x ->
  nth_error (add_output h c t) (length h) = Some (with_task x (Some t)).
Proof.
  intros E. unfold add_output. rewrite E. rewrite nth_error_app2 by apply Nat.le_refl. rewrite Nat.sub_diag. reflexivity.
Qed.
