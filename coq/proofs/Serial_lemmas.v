(* C12: saving and loading loses nothing. *)
From Coq Require Import ZArith NArith List Bool Lia Permutation.
From XV Require Import core.Value model.Hash model.Edits model.Serial model.Seal
  proofs.Sort_lemmas proofs.Hash_lemmas proofs.Neutral_lemmas.
Import ListNotations.

(* ---- association lists ------------------------------------------------------------------ *)
Lemma assoc_set_field k k2 v l : assoc k2 (set_field k v l) = if bytes_eqb k2 k then Some v else assoc k2 l.
Proof.
  destruct (bytes_eqb k2 k) eqn:E.
  - apply bytes_eqb_eq in E. subst. apply assoc_set_same.
  - apply assoc_set_other. intros ->. rewrite bytes_eqb_refl in E. discriminate.
Qed.

Lemma assoc_fold_set : forall (kvs : list (bytes * value)) base k,
  assoc k (fold_left (fun fs kv => set_field (fst kv) (snd kv) fs) kvs base)
  = match assoc k (rev kvs) with Some v => Some v | None => assoc k base end.
Proof.
  induction kvs as [|[k1 v1] kvs IH]; intros base k; cbn [fold_left rev]; [reflexivity|].
  rewrite IH. cbn [fst snd].
  assert (A : forall (l1 l2 : list (bytes * value)), assoc k (l1 ++ l2) = match assoc k l1 with Some v => Some v | None => assoc k l2 end).
  { induction l1 as [|[a b] l1 IHl]; intros l2; cbn [app assoc]; [reflexivity|]. destruct (bytes_eqb k a); [reflexivity|apply IHl]. }
  rewrite A. destruct (assoc k (rev kvs)) as [v|]; [reflexivity|].
  cbn [assoc]. rewrite assoc_set_field. destruct (bytes_eqb k k1); reflexivity.
Qed.

Lemma assoc_rev_nodup {A} k (l : list (bytes * A)) : NoDup (map fst l) -> assoc k (rev l) = assoc k l.
Proof.
  intros ND. apply assoc_perm; [apply Permutation_sym, Permutation_rev|].
  eapply Permutation_NoDup; [|exact ND]. apply Permutation_map, Permutation_rev.
Qed.

Section SerialLemmas.
  Variable cs : classes.

  (* what every configuration built through the API satisfies: values only for declared
     arguments, distinct argument names, and every argument with a default or not required
     holds a value (TypeConfig.__init__ installs them)                                     *)
  Definition complete (c : class) (x : node) : Prop :=
    NoDup (map a_name (c_args c)) /\
    (forall k v, In (k, v) (n_fields x) -> exists a, In a (c_args c) /\ a_name a = k) /\
    NoDup (map fst (n_fields x)) /\
    (forall a, In a (c_args c) -> (a_default a <> None \/ a_required a = false) -> assoc (a_name a) (n_fields x) <> None).

  Lemma xpmvalues_assoc c x k :
    NoDup (map a_name (c_args c)) ->
    assoc k (xpmvalues c x) = if existsb (fun a => bytes_eqb (a_name a) k) (c_args c) then assoc k (n_fields x) else None.
  Proof.
    unfold xpmvalues. generalize (c_args c) as args. induction args as [|a args IH]; intros ND; cbn [flat_map existsb map]; [reflexivity|].
    cbn [map] in ND. inversion ND as [|? ? Hn ND']; subst.
    assert (A : forall (l1 l2 : list (bytes * value)), assoc k (l1 ++ l2) = match assoc k l1 with Some v => Some v | None => assoc k l2 end).
    { induction l1 as [|[p q] l1 IHl]; intros l2; cbn [app assoc]; [reflexivity|]. destruct (bytes_eqb k p); [reflexivity|apply IHl]. }
    rewrite A, (IH ND').
    destruct (bytes_eqb (a_name a) k) eqn:E.
    - apply bytes_eqb_eq in E. subst k. cbn [orb].
      destruct (assoc (a_name a) (n_fields x)) as [v|] eqn:Ev; cbn [assoc]; [rewrite bytes_eqb_refl; reflexivity|].
      assert (Ex : existsb (fun a0 => bytes_eqb (a_name a0) (a_name a)) args = false).
      { apply not_true_is_false. intros Hex. apply existsb_exists in Hex. destruct Hex as [b [Hb Eb]].
        apply bytes_eqb_eq in Eb. apply Hn. rewrite <- Eb. apply in_map. exact Hb. }
      rewrite Ex. reflexivity.
    - cbn [orb]. destruct (assoc (a_name a) (n_fields x)) as [v|]; cbn [assoc]; [|reflexivity].
      rewrite bytes_eqb_sym, E. reflexivity.
  Qed.

  Lemma xpmvalues_nodup c x : NoDup (map a_name (c_args c)) -> NoDup (map fst (xpmvalues c x)).
  Proof.
    unfold xpmvalues. generalize (c_args c) as args. induction args as [|a args IH]; intros ND; cbn [flat_map map]; [constructor|].
    cbn [map] in ND. inversion ND as [|? ? Hn ND']; subst. rewrite map_app.
    destruct (assoc (a_name a) (n_fields x)) as [v|]; cbn [map app]; [|apply IH; exact ND'].
    constructor; [|apply IH; exact ND']. intros Hin. apply Hn.
    apply in_map_iff in Hin. destruct Hin as [[k w] [Ek Hin]]. cbn in Ek. subst k.
    apply in_flat_map in Hin. destruct Hin as [b [Hb Hin]].
    destruct (assoc (a_name b) (n_fields x)); [|destruct Hin]. destruct Hin as [E|[]]. inversion E. subst.
    apply in_map. exact Hb.
  Qed.

  Lemma init_fields_assoc c k :
    assoc k (init_fields c) <> None -> exists a, In a (c_args c) /\ a_name a = k /\ (a_default a <> None \/ a_required a = false).
  Proof.
    unfold init_fields. generalize (c_args c) as args. induction args as [|a args IH]; cbn [flat_map]; intros Hn; [exfalso; apply Hn; reflexivity|].
    assert (A : forall (l1 l2 : list (bytes * value)), assoc k (l1 ++ l2) = match assoc k l1 with Some v => Some v | None => assoc k l2 end).
    { induction l1 as [|[p q] l1 IHl]; intros l2; cbn [app assoc]; [reflexivity|]. destruct (bytes_eqb k p); [reflexivity|apply IHl]. }
    rewrite A in Hn.
    destruct (a_default a) as [d|] eqn:Ed.
    - cbn [assoc] in Hn. destruct (bytes_eqb k (a_name a)) eqn:E.
      + apply bytes_eqb_eq in E. exists a. split; [left; reflexivity|split; [symmetry; exact E|left; congruence]].
      + destruct (IH Hn) as [b [Hb Rest]]. exists b. split; [right; exact Hb|exact Rest].
    - destruct (a_required a) eqn:Er.
      + cbn [assoc] in Hn. destruct (IH Hn) as [b [Hb Rest]]. exists b. split; [right; exact Hb|exact Rest].
      + cbn [assoc] in Hn. destruct (bytes_eqb k (a_name a)) eqn:E.
        * apply bytes_eqb_eq in E. exists a. split; [left; reflexivity|split; [symmetry; exact E|right; exact Er]].
        * destruct (IH Hn) as [b [Hb Rest]]. exists b. split; [right; exact Hb|exact Rest].
  Qed.

  (* a definition, loaded, gives back the node: class, meta flag, producing task, pre-tasks, init
     tasks, and the value of EVERY parameter (ignored ones included)                              *)
  Definition node_equiv (x y : node) : Prop :=
    n_cls x = n_cls y /\ n_meta x = n_meta y /\ n_task x = n_task y /\ n_pre x = n_pre y /\ n_init x = n_init y /\
    forall k, assoc k (n_fields x) = assoc k (n_fields y).

  Theorem load_def_roundtrip h n x c d :
    nth_error h n = Some x -> nth_error cs (n_cls x) = Some c -> complete c x ->
    def_of cs true h n = Some d ->
    exists y, load_node cs true true d = Some y /\ node_equiv x y.
  Proof.
    intros Ex Ec [NDa [Decl [NDf Comp]]] Ed. unfold def_of in Ed. rewrite Ex, Ec in Ed. inversion Ed. subst d. clear Ed.
    unfold load_node. cbn [d_cls d_fields d_meta d_task d_pre d_init]. rewrite Ec.
    eexists. split; [reflexivity|]. unfold node_equiv. cbn [n_cls n_meta n_task n_pre n_init n_fields].
    repeat split; try reflexivity.
    - destruct (n_meta x) as [[|]|]; reflexivity.
    - intros k. rewrite assoc_fold_set. rewrite (assoc_rev_nodup k _ (xpmvalues_nodup c x NDa)).
      rewrite (xpmvalues_assoc c x k NDa).
      destruct (existsb (fun a => bytes_eqb (a_name a) k) (c_args c)) eqn:Ex1.
      + destruct (assoc k (n_fields x)) as [v|] eqn:Ek; [reflexivity|].
        destruct (assoc k (init_fields c)) as [w|] eqn:Ei; [|reflexivity]. exfalso.
        destruct (init_fields_assoc c k) as [a [Ha [En Hd]]]; [congruence|]. subst k. exact (Comp a Ha Hd Ek).
      + destruct (assoc k (n_fields x)) as [v|] eqn:Ek.
        * exfalso. apply assoc_some_in in Ek. destruct (Decl k v Ek) as [a [Ha En]].
          assert (existsb (fun a0 => bytes_eqb (a_name a0) k) (c_args c) = true).
          { apply existsb_exists. exists a. split; [exact Ha|]. subst k. apply bytes_eqb_refl. }
          congruence.
        * destruct (assoc k (init_fields c)) as [w|] eqn:Ei; [|reflexivity]. exfalso.
          destruct (init_fields_assoc c k) as [a [Ha [En Hd]]]; [congruence|].
          assert (existsb (fun a0 => bytes_eqb (a_name a0) k) (c_args c) = true).
          { apply existsb_exists. exists a. split; [exact Ha|]. subst k. apply bytes_eqb_refl. }
          congruence.
  Qed.
End SerialLemmas.

Section Reload.
  Variable cs : classes.

  (* ---- every definition written describes the node it names -------------------------------- *)
  Definition defs_ok (h : heap) (st : list def * list nat) : Prop :=
    forall d, In d (fst st) -> def_of cs true h (d_id d) = Some d.

  Lemma fold_left_inv {A S} (P : S -> Prop) (f : S -> A -> S) (l : list A) :
    (forall s a, In a l -> P s -> P (f s a)) -> forall s, P s -> P (fold_left f l s).
  Proof.
    induction l as [|a l IH]; intros Hf s Ps; cbn [fold_left]; [exact Ps|].
    apply IH; [intros s' a' Ha; apply Hf; right; exact Ha|apply Hf; [left; reflexivity|exact Ps]].
  Qed.

  Lemma collect_defs_ok h : forall fuel i st, defs_ok h st -> defs_ok h (collect cs true h fuel i st).
  Proof.
    induction fuel as [|f IH]; intros i st P; cbn [collect]; [exact P|].
    destruct i as [v|n].
    - destruct v; try exact P.
      + apply fold_left_inv; [|exact P]. intros s a _ Ps. apply IH. exact Ps.
      + apply fold_left_inv; [|exact P]. intros s a _ Ps. apply IH. exact Ps.
      + apply IH. exact P.
    - destruct (mem n (snd st)); [exact P|].
      destruct (nth_error h n) as [x|] eqn:Ex; [|exact P].
      destruct (def_of cs true h n) as [d|] eqn:Ed; [|exact P].
      assert (Eid : d_id d = n).
      { unfold def_of in Ed. rewrite Ex in Ed. destruct (nth_error cs (n_cls x)); [|discriminate]. inversion Ed. reflexivity. }
      set (st0 := (fst st, n :: snd st)).
      assert (P0 : defs_ok h st0) by exact P.
      set (st1 := fold_left (fun st kv => collect cs true h f (IVal (snd kv)) st) (d_fields d) st0).
      assert (P1 : defs_ok h st1) by (apply fold_left_inv; [intros s a _ Ps; apply IH; exact Ps|exact P0]).
      set (st2 := match n_task x with Some t => collect cs true h f (INode t) st1 | None => st1 end).
      assert (P2 : defs_ok h st2) by (unfold st2; destruct (n_task x); [apply IH; exact P1|exact P1]).
      set (st3 := fold_left (fun st p => collect cs true h f (INode p) st) (n_pre x) st2).
      assert (P3 : defs_ok h st3) by (apply fold_left_inv; [intros s a _ Ps; apply IH; exact Ps|exact P2]).
      set (st4 := fold_left (fun st p => collect cs true h f (INode p) st) (n_init x) st3).
      assert (P4 : defs_ok h st4) by (apply fold_left_inv; [intros s a _ Ps; apply IH; exact Ps|exact P3]).
      intros d' Hd'. cbn [fst] in Hd'. apply in_app_or in Hd'. destruct Hd' as [Hd'|[<-|[]]]; [apply P4; exact Hd'|].
      rewrite Eid. exact Ed.
  Qed.

  Lemma save_defs_ok h fuel r d : In d (save cs true h fuel r) -> def_of cs true h (d_id d) = Some d.
  Proof. apply (collect_defs_ok h fuel (INode r) ([], [])). intros d' []. Qed.

  (* the accumulated definitions only grow *)
  Lemma collect_mono h : forall fuel i st d, In d (fst st) -> In d (fst (collect cs true h fuel i st)).
  Proof.
    induction fuel as [|f IH]; intros i st d Hd; cbn [collect]; [exact Hd|].
    assert (F : forall {A} (g : list def * list nat -> A -> list def * list nat) (l : list A),
                 (forall s a, In d (fst s) -> In d (fst (g s a))) -> forall s, In d (fst s) -> In d (fst (fold_left g l s))).
    { intros A g l Hg. induction l as [|a l IHl]; intros s Hs; cbn [fold_left]; [exact Hs|]. apply IHl. apply Hg. exact Hs. }
    destruct i as [v|n].
    - destruct v; try exact Hd.
      + apply F; [|exact Hd]. intros s a Hs. apply IH. exact Hs.
      + apply F; [|exact Hd]. intros s a Hs. apply IH. exact Hs.
      + apply IH. exact Hd.
    - destruct (mem n (snd st)); [exact Hd|].
      destruct (nth_error h n) as [x|]; [|exact Hd]. destruct (def_of cs true h n) as [d0|]; [|exact Hd].
      cbn [fst]. apply in_or_app. left.
      apply (F _ (fun st p => collect cs true h f (INode p) st)); [intros s a Hs; apply IH; exact Hs|].
      apply (F _ (fun st p => collect cs true h f (INode p) st)); [intros s a Hs; apply IH; exact Hs|].
      assert (G : In d (fst (fold_left (fun st kv => collect cs true h f (IVal (snd kv)) st) (d_fields d0) (fst st, n :: snd st)))).
      { apply (F _ (fun st (kv : bytes * value) => collect cs true h f (IVal (snd kv)) st)); [intros s a Hs; apply IH; exact Hs|exact Hd]. }
      destruct (n_task x); [apply IH; exact G|exact G].
  Qed.

  Lemma save_root h fuel r d : def_of cs true h r = Some d -> In d (save cs true h (S fuel) r).
  Proof.
    intros Ed. unfold save. cbn [collect snd mem existsb].
    destruct (nth_error h r) as [x|] eqn:Ex; [|unfold def_of in Ed; rewrite Ex in Ed; discriminate].
    rewrite Ed. cbn [fst]. apply in_or_app. right. left. reflexivity.
  Qed.

  (* ---- loading: every position named by a definition is rebuilt equivalent to the original ---- *)
  Definition heap_equiv (h h' : heap) : Prop :=
    length h = length h' /\
    forall n, match nth_error h n, nth_error h' n with
              | Some x, Some y => node_equiv x y
              | None, None => True
              | _, _ => False
              end.

  Definition complete_at (h : heap) (n : nat) : Prop :=
    forall x c, nth_error h n = Some x -> nth_error cs (n_cls x) = Some c -> complete c x.

  Lemma upd_nth_length {A} (l : list A) n x : length (upd_nth l n x) = length l.
  Proof. revert n; induction l as [|y l IH]; intros [|n]; cbn; auto. Qed.

  Lemma load_into_equiv h : forall ds g g',
    heap_equiv h g ->
    (forall d, In d ds -> def_of cs true h (d_id d) = Some d /\ complete_at h (d_id d)) ->
    load_into cs true true g ds = Some g' -> heap_equiv h g'.
  Proof.
    induction ds as [|d ds IH]; intros g g' Eq Hd L; cbn [load_into] in L; [inversion L; subst; exact Eq|].
    destruct (load_node cs true true d) as [y|] eqn:Ly; [|discriminate].
    destruct (Hd d (or_introl eq_refl)) as [Ed Cd].
    apply (IH (upd_nth g (d_id d) y) g'); [|intros d' Hd'; apply Hd; right; exact Hd'|exact L].
    destruct Eq as [Len Eq]. split; [rewrite upd_nth_length; exact Len|].
    intros n. destruct (Nat.eq_dec (d_id d) n) as [<-|D].
    - pose proof Ed as Ed0. unfold def_of in Ed. destruct (nth_error h (d_id d)) as [x|] eqn:Ex; [|discriminate].
      destruct (nth_error cs (n_cls x)) as [c|] eqn:Ec; [|discriminate].
      rewrite nth_upd_same by (rewrite <- Len; apply nth_error_Some; congruence).
      destruct (load_def_roundtrip cs h (d_id d) x c d Ex Ec (Cd x c Ex Ec) Ed0) as [y' [Ly' Ne]].
      rewrite Ly in Ly'. inversion Ly'. subst y'. exact Ne.
    - rewrite nth_upd_other by exact D. apply Eq.
  Qed.

  (* ---- equivalent graphs have the same identifiers --------------------------------------------- *)
  Lemma argsel_assoc h f f' a : (forall k, assoc k f = assoc k f') -> argsel_of h f a = argsel_of h f' a.
  Proof. intros E. unfold argsel_of. rewrite E. reflexivity. Qed.

  Lemma heap_equiv_meta h h' : heap_equiv h h' -> meta_eq h h'.
  Proof.
    intros [_ Eq] n. specialize (Eq n). destruct (nth_error h n), (nth_error h' n); try contradiction; [|reflexivity].
    destruct Eq as [_ [Em _]]. cbn. rewrite Em. reflexivity.
  Qed.

  Lemma heap_equiv_nsig h h' : heap_equiv h h' -> forall n, nsig cs h n = nsig cs h' n.
  Proof.
    intros Eq n. pose proof (heap_equiv_meta h h' Eq) as M. destruct Eq as [_ Eq]. specialize (Eq n).
    unfold nsig, getnode. destruct (nth_error h n) as [x|], (nth_error h' n) as [y|]; try contradiction; [|reflexivity].
    destruct Eq as [Ec [_ [Et [_ [_ Ef]]]]]. cbn [bind]. rewrite <- Ec.
    destruct (getclass cs (n_cls x)) as [c|]; cbn [bind]; [|reflexivity]. rewrite <- Et.
    f_equal. f_equal. rewrite <- (meta_eq_sigargs h h' M). unfold sigargs. f_equal. apply map_ext. intros a.
    rewrite (argsel_assoc h (n_fields x) (n_fields y) a Ef). reflexivity.
  Qed.

  (* reloading a saved graph: every identifier recomputed on the reloaded graph - for any hash
     function, any cache state, any context - equals the original                               *)
  Theorem reload_ident H h fuel r h' look :
    (forall d, In d (save cs true h fuel r) -> complete_at h (d_id d)) ->
    reload cs true true h fuel r = Some h' ->
    heap_equiv h h' /\ forall f n, raw_ident H cs h look f n = raw_ident H cs h' look f n.
  Proof.
    intros Comp R. unfold reload in R. destruct (resolves (save cs true h fuel r)); [|discriminate].
    assert (Eq : heap_equiv h h').
    { apply (load_into_equiv h (save cs true h fuel r) h h'); [|intros d Hd; split; [apply (save_defs_ok h fuel r d Hd)|apply Comp; exact Hd]|exact R].
      split; [reflexivity|]. intros n. destruct (nth_error h n); [|exact I]. repeat split; reflexivity. }
    split; [exact Eq|]. intros f n. apply ident_sig_ext; [apply heap_equiv_meta; exact Eq|apply heap_equiv_nsig; exact Eq].
  Qed.

  (* nothing reachable is left out: when loading succeeds (every reference resolves, otherwise the
     real loader raises), every configuration reachable from the root has been saved              *)
  Lemma resolves_closed ds d m : resolves ds = true -> In d ds -> In m (def_refs d) -> exists d', In d' ds /\ d_id d' = m.
  Proof.
    unfold resolves. intros R Hd Hm. rewrite forallb_forall in R. specialize (R d Hd).
    rewrite forallb_forall in R. specialize (R m Hm). apply existsb_exists in R. destruct R as [d' [Hd' E]].
    apply Nat.eqb_eq in E. exists d'. split; assumption.
  Qed.

  Lemma def_refs_succs h n x c d : nth_error h n = Some x -> nth_error cs (n_cls x) = Some c -> complete c x ->
    def_of cs true h n = Some d -> forall m, In m (succs x) -> In m (def_refs d).
  Proof.
    intros Ex Ec [NDa [Decl [NDf _]]] Ed m Hm. unfold def_of in Ed. rewrite Ex, Ec in Ed. inversion Ed. subst d. clear Ed.
    unfold def_refs. cbn [d_fields d_pre d_init d_task]. unfold succs in Hm.
    apply in_app_or in Hm. destruct Hm as [Hm|Hm]; [|apply in_or_app; right; exact Hm].
    apply in_or_app. left. apply in_flat_map in Hm. destruct Hm as [[k v] [Hkv Hm]]. apply in_flat_map.
    exists (k, v). split; [|exact Hm]. apply assoc_some_in.
    rewrite (xpmvalues_assoc c x k NDa).
    destruct (Decl k v Hkv) as [a [Ha En]].
    assert (Ex1 : existsb (fun a0 => bytes_eqb (a_name a0) k) (c_args c) = true).
    { apply existsb_exists. exists a. split; [exact Ha|]. subst k. apply bytes_eqb_refl. }
    rewrite Ex1. apply assoc_in; assumption.
  Qed.

  Lemma closed_defs_reach h ds :
    (forall n, complete_at h n) -> resolves ds = true ->
    (forall d, In d ds -> def_of cs true h (d_id d) = Some d) ->
    forall n m, reach h n m -> (exists d, In d ds /\ d_id d = n) -> exists d, In d ds /\ d_id d = m.
  Proof.
    intros Comp Res Ok n m Rm. induction Rm as [n|n x k m Ex Hk Rm IH]; intros Hn; [exact Hn|].
    apply IH. destruct Hn as [d [Hd Eid]].
    pose proof (Ok d Hd) as Ed. rewrite Eid in Ed.
    pose proof Ed as Ed0. unfold def_of in Ed0. rewrite Ex in Ed0.
    destruct (nth_error cs (n_cls x)) as [c|] eqn:Ec; [|discriminate].
    pose proof (def_refs_succs h n x c d Ex Ec (Comp n x c Ex Ec) Ed k Hk) as Hr.
    exact (resolves_closed ds d k Res Hd Hr).
  Qed.

  Theorem reload_saves_all_reachable h fuel r h' :
    (forall n, complete_at h n) ->
    reload cs true true h (S fuel) r = Some h' -> (exists d, def_of cs true h r = Some d) ->
    forall m, reach h r m -> exists d, In d (save cs true h (S fuel) r) /\ d_id d = m.
  Proof.
    intros Comp R [dr Edr] m Rm. unfold reload in R.
    destruct (resolves (save cs true h (S fuel) r)) eqn:Res; [|discriminate].
    apply (closed_defs_reach h (save cs true h (S fuel) r) Comp Res (save_defs_ok h (S fuel) r) r m Rm).
    exists dr. split; [apply save_root; exact Edr|].
    unfold def_of in Edr. destruct (nth_error h r) as [x|]; [|discriminate]. destruct (nth_error cs (n_cls x)); [|discriminate].
    inversion Edr. reflexivity.
  Qed.
End Reload.

(* ---- the record of defects #7 and #8 (pinned commit) ---------------------------------------- *)
Definition c12_class : class :=
  {| c_tid := [116]%N;
     c_args := [{| a_name := [120]%N; a_ignored := false; a_gen := false; a_const := false;
                   a_required := false; a_default := None |}] |}.
Definition c12_heap : heap :=
  [ {| n_cls := 0; n_fields := [([120]%N, VNone)]; n_meta := Some false; n_task := None; n_pre := []; n_init := [] |};
    {| n_cls := 0; n_fields := [([120]%N, VRef 0)]; n_meta := None; n_task := Some 1; n_pre := []; n_init := [0] |} ].

Lemma meta_false_dropped_prefix :
  exists h', reload [c12_class] false false c12_heap 10 1 = Some h' /\
             option_map n_meta (nth_error h' 0) <> option_map n_meta (nth_error c12_heap 0).
Proof. eexists. split; [vm_compute; reflexivity|]. cbn. intros E. discriminate E. Qed.

Lemma init_tasks_dropped_prefix :
  exists h', reload [c12_class] false false c12_heap 10 1 = Some h' /\
             option_map n_init (nth_error h' 1) <> option_map n_init (nth_error c12_heap 1).
Proof. eexists. split; [vm_compute; reflexivity|]. cbn. intros E. discriminate E. Qed.

(* non-vacuity: the same graph reloads to an equivalent one on the repaired code, and is complete *)
Example reload_example :
  exists h', reload [c12_class] true true c12_heap 10 1 = Some h' /\
             map n_meta h' = map n_meta c12_heap /\ map n_init h' = map n_init c12_heap.
Proof. eexists. split; [vm_compute; reflexivity|]. split; reflexivity. Qed.
