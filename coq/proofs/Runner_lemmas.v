(* Proof scripts for model/Runner.v (property C10).
   The undisturbed run of the runner has at most 15 effects, whatever the directory and the body
   outcome; every statement below is proved for all directories (unbounded counters, any failure
   code), all outcomes, all signals, all contexts and ALL death indices k by case analysis: the
   shape of the run depends only on (done?, failed present?, variant, outcome class) and k is split
   into 0..17 and "beyond the end of the run".                                                      *)
From Coq Require Import ZArith List Bool Lia.
From XV Require Import model.Runner.
Import ListNotations.

Ltac split_dir d :=
  let dn := fresh "dn" in let fl := fresh "fl" in let pd := fresh "pd" in
  let lk := fresh "lk" in let rn := fresh "rn" in let cp := fresh "cp" in
  destruct d as [dn fl pd lk rn cp].

Ltac split_outcome o :=
  let c := fresh "c" in destruct o as [ | | c | ]; [ | | destruct c | ].

Ltac fin := cbv; intuition (try discriminate; try congruence; try lia).

(* every death index: 0..17 one by one, then the rest (k >= 18 is beyond every run) *)
Ltac split_k k tac := do 18 (destruct k as [|k]; [ tac | ]); tac.

(* ------------------------------------------------------------------ what a signal can still do *)
(* effects that touch neither the success marker nor the ghost counters *)
Definition quiet (e : eff) : bool :=
  match e with TouchDone | BodyBegin | BodyEnd _ => false | _ => true end.

Lemma run_quiet : forall es s, forallb quiet es = true ->
  done (run_effs es s) = done s /\ runs (run_effs es s) = runs s /\ completed (run_effs es s) = completed s.
Proof.
  induction es as [|e es IH]; intros s H; simpl in *.
  - auto.
  - apply andb_true_iff in H. destruct H as [He H].
    destruct (IH (apply e s) H) as (A & B & C). unfold run_effs in *. rewrite A, B, C.
    destruct s; destruct e; simpl in *; try discriminate; auto.
Qed.

(* whatever the signal, the context and the state: the handler, the except clauses it triggers and the
   exit phase only write the failure marker, remove the pid file and release the lock *)
Lemma on_signal_quiet : forall v g c s, forallb quiet (on_signal v g c s) = true.
Proof.
  intros v g c s. destruct s as [dn fl pd lk rn cp ax ht hi cl nt].
  destruct v, g, c, ht, hi, ax, cl, nt, lk, pd; reflexivity.
Qed.

Lemma run_effs_app : forall a b s, run_effs (a ++ b) s = run_effs b (run_effs a s).
Proof. intros; unfold run_effs; apply fold_left_app. Qed.

Lemma launch_death_fields : forall v d o g k c,
  let s := run_effs (firstn k (trace v o d)) (boot d) in
  let d' := launch v d o (@Some death (g, k, c)) in
  d_done d' = done s /\ d_runs d' = runs s /\ d_completed d' = completed s /\ d_lock d' = false.
Proof.
  intros v d o g k c s d'. unfold d', launch, effects. rewrite run_effs_app. fold s.
  destruct (run_quiet (on_signal v g c s) s (on_signal_quiet v g c s)) as (A & B & C).
  unfold die; simpl. auto.
Qed.

(* ------------------------------------------------------------------ kill_anywhere *)
Lemma kill_anywhere : forall v d o dth, Inv d ->
  Inv (launch v d o dth) /\
  (d_done (launch v d o dth) = true ->
     d_done d = true \/ (success o = true /\ d_completed (launch v d o dth) = S (d_completed d))).
Proof.
  intros v d o dth. split_dir d. intros (H1 & H2 & H3). simpl in H1, H2, H3. subst lk. unfold Inv.
  destruct dth as [[[g k] c]|].
  - destruct (launch_death_fields v (Build_dir dn fl pd false rn cp) o g k c) as (A & B & C & D).
    rewrite A, B, C, D. clear A B C D g c.
    destruct dn, fl, v; split_outcome o; split_k k fin.
  - destruct dn, fl, v; split_outcome o; fin.
Qed.

Example Inv_nontrivial :
  Inv {| d_done := true; d_failed := Some 15%Z; d_pid := true; d_lock := false; d_runs := 3; d_completed := 1 |}.
Proof. unfold Inv; simpl; repeat split; lia. Qed.

(* ------------------------------------------------------------------ term_in_body *)
(* the body runs after the 7th effect (the 8th when a stale failure marker had to be removed) and before the next *)
Lemma in_body_index : forall v o d k,
  d_done d = false -> in_body v o d k -> k = if is_some (d_failed d) then 8 else 7.
Proof.
  intros v o d k. split_dir d. intros Hd [b Hb]. simpl in Hd. subst dn.
  destruct fl, v; split_outcome o;
    split_k k ltac:(first [ reflexivity | exfalso; cbv in Hb; discriminate Hb ]).
Qed.

Lemma term_in_body : forall v d o g c k,
  d_done d = false -> term_signal g -> in_body v o d k ->
  let d' := launch v d o (Some (g, k, c)) in
  d_done d' = false /\ d_failed d' <> None /\ d_pid d' = false /\
  (c = CTry -> d_failed d' = Some 1%Z).
Proof.
  intros v d o g c k Hd Hg Hb. rewrite (in_body_index v o d k Hd Hb). clear Hb k.
  split_dir d. simpl in Hd. subst dn.
  destruct Hg; subst g; destruct fl, v; split_outcome o; destruct c; fin.
Qed.

Example in_body_nontrivial : in_body Fixed OOk fresh 7 /\ in_body Prefix (OExit 3) fresh 7 /\ term_signal SInt.
Proof. repeat split; try (eexists; reflexivity). right; reflexivity. Qed.

(* ------------------------------------------------------------------ relaunch_exact *)
Lemma relaunch_exact : forall v d o,
  let d' := launch v d o None in
  d_runs d' = (if d_done d then d_runs d else S (d_runs d)) /\
  d_done d' = (d_done d || success o).
Proof.
  intros v d o. split_dir d. destruct dn, fl, v; split_outcome o; fin.
Qed.

Lemma relaunch_done_skips : forall v d o dth,
  d_done d = true ->
  let d' := launch v d o dth in
  d_done d' = true /\ d_runs d' = d_runs d /\ d_completed d' = d_completed d.
Proof.
  intros v d o dth. split_dir d. intros Hd; simpl in Hd; subst dn. cbv zeta.
  destruct dth as [[[g k] c]|].
  - destruct (launch_death_fields v (Build_dir true fl pd lk rn cp) o g k c) as (A & B & C & D).
    rewrite A, B, C. clear A B C D g c.
    destruct fl, v; split_outcome o; split_k k fin.
  - destruct fl, v; split_outcome o; fin.
Qed.

Lemma relaunch_at_most_once : forall v d o dth,
  let d' := launch v d o dth in
  d_runs d' = d_runs d \/ (d_done d = false /\ d_runs d' = S (d_runs d)).
Proof.
  intros v d o dth. split_dir d. cbv zeta.
  destruct dth as [[[g k] c]|].
  - destruct (launch_death_fields v (Build_dir dn fl pd lk rn cp) o g k c) as (A & B & C & D).
    rewrite B. clear A B C D g c.
    destruct dn, fl, v; split_outcome o; split_k k fin.
  - destruct dn, fl, v; split_outcome o; fin.
Qed.

Example relaunch_nontrivial :
  d_done (launch Fixed fresh OOk None) = true /\ d_done (launch Fixed fresh ORaise None) = false.
Proof. split; reflexivity. Qed.

(* ------------------------------------------------------------------ own_exit_no_pid *)
Lemma own_exit_no_pid : forall d o, d_pid (launch Fixed d o None) = false.
Proof.
  intros d o. split_dir d. destruct dn, fl; split_outcome o; fin.
Qed.

(* a run that ends by itself also gives the lock back explicitly (not only through its death) *)
Lemma own_exit_unlocks : forall d o, In Unlock (effects Fixed o None d).
Proof.
  intros d o. split_dir d. destruct dn, fl; split_outcome o; cbv; tauto.
Qed.

Lemma pid_left_on_success_refuted :
  exists d o, Inv d /\ success o = true /\ d_pid (launch Prefix d o None) = true.
Proof.
  exists fresh, OOk. unfold Inv. cbv. intuition (try discriminate; try lia).
Qed.

(* on the code as found, only the successful return of the body leaves the pid file *)
Lemma prefix_pid_left_only_on_return : forall d o,
  d_pid (launch Prefix d o None) = true -> d_done d = false /\ o = OOk.
Proof.
  intros d o. split_dir d. destruct dn, fl; split_outcome o; fin.
Qed.

(* ------------------------------------------------------------------ histories *)
Lemma histories : forall v l d, Inv d -> Inv (history v d l).
Proof.
  intros v l. induction l as [|[o dth] l IH]; intros d H; simpl.
  - exact H.
  - apply IH. apply (kill_anywhere v d o dth H).
Qed.

Lemma Inv_fresh : Inv fresh.
Proof. unfold Inv; cbv; intuition (try discriminate; try lia). Qed.

Lemma histories_fresh : forall v l,
  let d := history v fresh l in
  Inv d /\
  (forall o, d_runs (launch v d o None) = (if d_done d then d_runs d else S (d_runs d))).
Proof.
  intros v l d. split.
  - apply histories, Inv_fresh.
  - intros o. apply (relaunch_exact v d o).
Qed.

Example history_nontrivial :
  history Fixed fresh [(ORaise, None); (OOk, Some (SKill, 8, CTry)); (OOk, Some (STerm, 7, CTry)); (OOk, None); (OOk, None)]
  = {| d_done := true; d_failed := None; d_pid := false; d_lock := false; d_runs := 4; d_completed := 1 |}.
Proof. vm_compute. reflexivity. Qed.

