(* Proof scripts for model/Runner.v (property C10).
   The undisturbed run of the runner has at most 15 effects, whatever the directory and the body
   outcome; every statement below is proved for all directories (unbounded counters, any failure
   code), all outcomes, all signals, all contexts and ALL death indices k by case analysis: the
   shape of the run depends only on (done?, failed present?, variant, outcome class) and k is split
   into 0..17 and "beyond the end of the run".                                                      *)
From Coq Require Import ZArith List Bool Lia Arith.
From XV Require Import model.Runner.
Import ListNotations.

Ltac split_dir d :=
  let dn := fresh "dn" in let fl := fresh "fl" in let pd := fresh "pd" in
  let lk := fresh "lk" in let rn := fresh "rn" in let cp := fresh "cp" in
  destruct d as [dn fl pd lk rn cp].

Ltac split_outcome o :=
  let c := fresh "c" in destruct o as [ | | c | ]; [ | | destruct c | ].

Ltac fin := cbv; intuition (try discriminate; try congruence; try lia).

(* every death index: 0..17 one by one, then the rest (k >= 18 is beyond every run) *)
Ltac split_k k tac := do 18 (destruct k as [|k]; [ tac | ]); tac.

(* ------------------------------------------------------------------ what a signal can still do *)
(* effects that touch neither the success marker nor the ghost counters *)
Definition quiet (e : eff) : bool :=
  match e with TouchDone | BodyBegin | BodyEnd _ | Child _ => false | _ => true end.

Lemma run_quiet : forall es s, forallb quiet es = true ->
  done (run_effs es s) = done s /\ runs (run_effs es s) = runs s /\ completed (run_effs es s) = completed s.
Proof.
  induction es as [|e es IH]; intros s H; simpl in *.
  - auto.
  - apply andb_true_iff in H. destruct H as [He H].
    destruct (IH (apply e s) H) as (A & B & C). unfold run_effs in *. rewrite A, B, C.
    destruct s; destruct e; simpl in *; try discriminate; auto.
Qed.

(* whatever the signal, the context and the state: the handler, the except clauses it triggers and the
   exit phase only write the failure marker, remove the pid file and release the lock *)
Lemma on_signal_quiet : forall v g c s, forallb quiet (on_signal v g c s) = true.
Proof.
  intros v g c s. destruct s as [dn fl pd lk rn cp ax ht hi cl nt].
  destruct v, g, c, ht, hi, ax, cl, nt, lk, pd, dn; reflexivity.
Qed.

Lemma run_effs_app : forall a b s, run_effs (a ++ b) s = run_effs b (run_effs a s).
Proof. intros; unfold run_effs; apply fold_left_app. Qed.

Lemma launch_death_fields : forall v d o g k c,
  let s := run_effs (firstn k (trace v o d)) (boot d) in
  let d' := launch v d o (@Some death (g, k, c)) in
  d_done d' = done s /\ d_runs d' = runs s /\ d_completed d' = completed s /\ d_lock d' = false.
Proof.
  intros v d o g k c s d'. unfold d', launch, effects. rewrite run_effs_app. fold s.
  destruct (run_quiet (on_signal v g c s) s (on_signal_quiet v g c s)) as (A & B & C).
  unfold die; simpl. auto.
Qed.

(* ------------------------------------------------------------------ kill_anywhere *)
Lemma kill_anywhere : forall v d o dth, Inv d ->
  Inv (launch v d o dth) /\
  (d_done (launch v d o dth) = true ->
     d_done d = true \/ (success o = true /\ d_completed (launch v d o dth) = S (d_completed d))).
Proof.
  intros v d o dth. split_dir d. intros (H1 & H2 & H3). simpl in H1, H2, H3. subst lk. unfold Inv.
  destruct dth as [[[g k] c]|].
  - destruct (launch_death_fields v (Build_dir dn fl pd false rn cp) o g k c) as (A & B & C & D).
    rewrite A, B, C, D. clear A B C D g c.
    destruct dn, fl, v; split_outcome o; split_k k fin.
  - destruct dn, fl, v; split_outcome o; fin.
Qed.

Example Inv_nontrivial :
  Inv {| d_done := true; d_failed := Some 15%Z; d_pid := true; d_lock := false; d_runs := 3; d_completed := 1 |}.
Proof. unfold Inv; simpl; repeat split; lia. Qed.

(* ------------------------------------------------------------------ term_in_body *)
(* the body runs after the 7th effect (the 8th when a stale failure marker had to be removed) and before the next *)
Lemma in_body_index : forall v o d k,
  d_done d = false -> in_body v o d k -> k = if is_some (d_failed d) then 8 else 7.
Proof.
  intros v o d k. split_dir d. intros Hd [b Hb]. simpl in Hd. subst dn.
  destruct fl, v; split_outcome o;
    split_k k ltac:(first [ reflexivity | exfalso; cbv in Hb; discriminate Hb ]).
Qed.

Lemma term_in_body : forall v d o g c k,
  d_done d = false -> term_signal g -> in_body v o d k ->
  let d' := launch v d o (Some (g, k, c)) in
  d_done d' = false /\ d_failed d' <> None /\ d_pid d' = false /\
  (c = CTry -> d_failed d' = Some 1%Z).
Proof.
  intros v d o g c k Hd Hg Hb. rewrite (in_body_index v o d k Hd Hb). clear Hb k.
  split_dir d. simpl in Hd. subst dn.
  destruct Hg; subst g; destruct fl, v; split_outcome o; destruct c; fin.
Qed.

Example in_body_nontrivial : in_body Fixed OOk fresh 7 /\ in_body Prefix (OExit 3) fresh 7 /\ term_signal SInt.
Proof. repeat split; try (eexists; reflexivity). right; reflexivity. Qed.

(* ------------------------------------------------------------------ relaunch_exact *)
Lemma relaunch_exact : forall v d o,
  let d' := launch v d o None in
  d_runs d' = (if d_done d then d_runs d else S (d_runs d)) /\
  d_done d' = (d_done d || success o).
Proof.
  intros v d o. split_dir d. destruct dn, fl, v; split_outcome o; fin.
Qed.

Lemma relaunch_done_skips : forall v d o dth,
  d_done d = true ->
  let d' := launch v d o dth in
  d_done d' = true /\ d_runs d' = d_runs d /\ d_completed d' = d_completed d.
Proof.
  intros v d o dth. split_dir d. intros Hd; simpl in Hd; subst dn. cbv zeta.
  destruct dth as [[[g k] c]|].
  - destruct (launch_death_fields v (Build_dir true fl pd lk rn cp) o g k c) as (A & B & C & D).
    rewrite A, B, C. clear A B C D g c.
    destruct fl, v; split_outcome o; split_k k fin.
  - destruct fl, v; split_outcome o; fin.
Qed.

Lemma relaunch_at_most_once : forall v d o dth,
  let d' := launch v d o dth in
  d_runs d' = d_runs d \/ (d_done d = false /\ d_runs d' = S (d_runs d)).
Proof.
  intros v d o dth. split_dir d. cbv zeta.
  destruct dth as [[[g k] c]|].
  - destruct (launch_death_fields v (Build_dir dn fl pd lk rn cp) o g k c) as (A & B & C & D).
    rewrite B. clear A B C D g c.
    destruct dn, fl, v; split_outcome o; split_k k fin.
  - destruct dn, fl, v; split_outcome o; fin.
Qed.

Example relaunch_nontrivial :
  d_done (launch Fixed fresh OOk None) = true /\ d_done (launch Fixed fresh ORaise None) = false.
Proof. split; reflexivity. Qed.

(* ------------------------------------------------------------------ own_exit_no_pid *)
Lemma own_exit_no_pid : forall d o, d_pid (launch Fixed d o None) = false.
Proof.
  intros d o. split_dir d. destruct dn, fl; split_outcome o; fin.
Qed.

(* a run that ends by itself also gives the lock back explicitly (not only through its death) *)
Lemma own_exit_unlocks : forall d o, In Unlock (effects Fixed o None d).
Proof.
  intros d o. split_dir d. destruct dn, fl; split_outcome o; cbv; tauto.
Qed.

Lemma pid_left_on_success_refuted :
  exists d o, Inv d /\ success o = true /\ d_pid (launch Prefix d o None) = true.
Proof.
  exists fresh, OOk. unfold Inv. cbv. intuition (try discriminate; try lia).
Qed.

(* on the code as found, only the successful return of the body leaves the pid file *)
Lemma prefix_pid_left_only_on_return : forall d o,
  d_pid (launch Prefix d o None) = true -> d_done d = false /\ o = OOk.
Proof.
  intros d o. split_dir d. destruct dn, fl; split_outcome o; fin.
Qed.

(* ------------------------------------------------------------------ histories *)
Lemma histories : forall v l d, Inv d -> Inv (history v d l).
Proof.
  intros v l. induction l as [|[o dth] l IH]; intros d H; simpl.
  - exact H.
  - apply IH. apply (kill_anywhere v d o dth H).
Qed.

Lemma Inv_fresh : Inv fresh.
Proof. unfold Inv; cbv; intuition (try discriminate; try lia). Qed.

Lemma histories_fresh : forall v l,
  let d := history v fresh l in
  Inv d /\
  (forall o, d_runs (launch v d o None) = (if d_done d then d_runs d else S (d_runs d))).
Proof.
  intros v l d. split.
  - apply histories, Inv_fresh.
  - intros o. apply (relaunch_exact v d o).
Qed.

Example history_nontrivial :
  history Fixed fresh [(ORaise, None); (OOk, Some (SKill, 8, CTry)); (OOk, Some (STerm, 7, CTry)); (OOk, None); (OOk, None)]
  = {| d_done := true; d_failed := None; d_pid := false; d_lock := false; d_runs := 4; d_completed := 1 |}.
Proof. vm_compute. reflexivity. Qed.

(* ================================================================== round 2 *)
(* ------------------------------------------------------------------ the derived part of Inv, apart from
   the assumption "the lock is gone with the process" *)
Lemma Inv_split : forall d, Inv d <-> (Truthful d /\ d_lock d = false).
Proof. intros d. unfold Inv, Truthful. tauto. Qed.

Lemma kill_anywhere_truthful : forall v d o dth, Inv d ->
  Truthful (launch v d o dth) /\
  (d_done (launch v d o dth) = true ->
     d_done d = true \/ (success o = true /\ d_completed (launch v d o dth) = S (d_completed d))).
Proof.
  intros v d o dth H. destruct (kill_anywhere v d o dth H) as [I M]. split; [|exact M].
  apply Inv_split in I. tauto.
Qed.

(* definitional (the model's `die`): NOT a result about the code, the operating system's behaviour *)
Lemma lock_free_after_death_by_definition : forall v d o dth, d_lock (launch v d o dth) = false.
Proof. reflexivity. Qed.

Lemma histories_truthful : forall v l d, Inv d -> Truthful (history v d l).
Proof. intros v l d H. apply Inv_split. apply histories, H. Qed.

Lemma histories_fresh_truthful : forall v l,
  let d := history v fresh l in
  Truthful d /\
  (forall o, d_runs (launch v d o None) = (if d_done d then d_runs d else S (d_runs d))).
Proof.
  intros v l d. destruct (histories_fresh v l) as [I R]. split; [|exact R].
  apply Inv_split in I. tauto.
Qed.

(* ------------------------------------------------------------------ own exit (every repaired variant) *)
Lemma own_exit_no_pid_v : forall v d o, v <> Prefix -> d_pid (launch v d o None) = false.
Proof.
  intros v d o Hv. split_dir d. destruct v; [congruence | |]; destruct dn, fl; split_outcome o; fin.
Qed.

(* a run that ends by itself has released the lock by its own code before the process is gone, and the
   release is the last thing it does *)
Lemma own_exit_lock_released : forall v d o, v <> Prefix ->
  lock (run_effs (effects v o None d) (boot d)) = false /\
  last (effects v o None d) RegAtexit = Unlock.
Proof.
  intros v d o Hv. split_dir d.
  destruct v; [congruence | |]; destruct dn, fl; split_outcome o; split; reflexivity.
Qed.

(* ... while the code of the pinned commit releases it only by dying (successful return of the body) *)
Lemma prefix_never_unlocks :
  ~ In Unlock (effects Prefix OOk None fresh) /\
  lock (run_effs (effects Prefix OOk None fresh) (boot fresh)) = true.
Proof. split; [cbv; intuition discriminate|reflexivity]. Qed.

(* ------------------------------------------------------------------ a signal handled without the lock *)
Lemma map_snd_at : forall c b s, map snd (at_ c b s) = b s.
Proof. intros. unfold at_. rewrite map_map. simpl. apply map_id. Qed.

Lemma map_snd_tseq : forall a b s,
  map snd (tseq a b s) = map snd (a s) ++ map snd (b (run_effs (map snd (a s)) s)).
Proof. intros. unfold tseq. apply map_app. Qed.

(* the run of a launch that finds no success marker = up to the beginning of the body, then the rest *)
Lemma runner_split : forall v o d, d_done d = false ->
  trace v o d = map snd (upto_body (boot d)) ++ map snd (from_body v o (at_body d)).
Proof.
  intros v o d. split_dir d. simpl. intros ->.
  destruct fl, v; split_outcome o; reflexivity.
Qed.

(* a runner never gets further than three private steps without the lock *)
Lemma before_lock_runner : forall v o s,
  before_lock (map snd (runner v o s)) = [RegAtexit; SetTerm; SetInt].
Proof. intros. reflexivity. Qed.

(* the state of H in its body: the lock is held and noted, the handlers and the exit callback installed *)
Lemma at_body_shape : forall d, d_done d = false ->
  at_body d = {| done := false; failed := None; pid := true; lock := true; runs := S (d_runs d);
                 completed := d_completed d; atexit := true; hterm := true; hint := true;
                 cleaned := false; noted := true |}.
Proof. intros d. split_dir d. simpl. intros ->. destruct fl; reflexivity. Qed.

(* REPAIRED handler: whatever the signal, the point and the context, the second process leaves every
   file of the directory as it found it *)
Lemma waiter_silent : forall d ow dw, d_done d = false ->
  double_mid Guarded d ow dw = snap (at_body d).
Proof.
  intros d ow [[g k] c] Hd. unfold double_mid, waiter_end, waiter_effects.
  rewrite before_lock_runner. rewrite (at_body_shape d Hd).
  destruct g, c; do 4 (destruct k as [|k]; [reflexivity|]); reflexivity.
Qed.

Lemma waiter_back : forall d ow dw, d_done d = false ->
  back (at_body d) (waiter_end Guarded d ow dw) = at_body d.
Proof.
  intros d ow [[g k] c] Hd. unfold waiter_end, waiter_effects.
  rewrite before_lock_runner. rewrite (at_body_shape d Hd).
  destruct g, c; do 4 (destruct k as [|k]; [reflexivity|]); reflexivity.
Qed.

(* hence a double launch is the launch of H alone, with H's own death at the same place *)
Lemma effects_shift : forall v o d dh, d_done d = false ->
  effects v o (shift d dh) d = map snd (upto_body (boot d)) ++ double_effects v o dh (at_body d).
Proof.
  intros v o d dh Hd. unfold effects, double_effects. rewrite (runner_split v o d Hd).
  destruct dh as [[[g k] c]|]; unfold shift; cbv beta iota zeta; [|reflexivity].
  replace (length (upto_body (boot d))) with (length (map snd (upto_body (boot d)))) by apply map_length.
  rewrite firstn_app_2. rewrite run_effs_app. rewrite <- app_assoc. reflexivity.
Qed.

Lemma double_is_single : forall d oh ow dw dh, d_done d = false ->
  double Guarded d oh ow dw dh = launch Guarded d oh (shift d dh).
Proof.
  intros d oh ow dw dh Hd. unfold double. rewrite (waiter_back d ow dw Hd).
  unfold launch. rewrite (effects_shift Guarded oh d dh Hd). rewrite run_effs_app. reflexivity.
Qed.

(* the markers of a double launch tell the truth about H's body (H ends by itself) *)
Lemma double_truthful : forall d oh ow dw, d_done d = false ->
  let d' := double Guarded d oh ow dw None in
  d_done d' = success oh /\
  (success oh = true -> d_failed d' = None) /\
  (success oh = false -> oh <> OBase -> d_failed d' <> None) /\
  d_pid d' = false /\
  d_runs d' = S (d_runs d) /\
  d_completed d' = (if success oh then S (d_completed d) else d_completed d).
Proof.
  intros d oh ow dw Hd. cbv zeta. rewrite (double_is_single d oh ow dw None Hd). simpl shift.
  split_dir d. simpl in Hd. subst dn. destruct fl; split_outcome oh; fin.
Qed.

Lemma double_inv : forall d oh ow dw dh, Inv d -> d_done d = false ->
  Truthful (double Guarded d oh ow dw dh) /\
  (d_done (double Guarded d oh ow dw dh) = true -> success oh = true).
Proof.
  intros d oh ow dw dh HI Hd. rewrite (double_is_single d oh ow dw dh Hd).
  destruct (kill_anywhere_truthful Guarded d oh (shift d dh) HI) as [T M]. split; [exact T|].
  intros H. destruct (M H) as [A|[A _]]; [congruence|exact A].
Qed.

(* LITERAL handler (the code of /repo 3854c75): the property is refuted.  H runs a body that succeeds and
   is never disturbed; W gets SIGTERM while it waits for the lock (3 effects done, inside the try).
   While H is still in its body the directory shows a failure marker and no pid file; at the end both
   markers are there although the only run of the body succeeded. *)
Lemma waiter_marks_failed_refuted :
  exists d oh ow dw,
    Inv d /\ d_done d = false /\ success oh = true /\
    nth_error (trace Fixed ow d) 3 = Some Lock /\ dw = (STerm, 3, CTry) /\
    d_failed (double_mid Fixed d ow dw) = Some 1%Z /\ d_pid (double_mid Fixed d ow dw) = false /\
    d_lock (double_mid Fixed d ow dw) = true /\
    d_done (double Fixed d oh ow dw None) = true /\ d_failed (double Fixed d oh ow dw None) = Some 1%Z /\
    d_runs (double Fixed d oh ow dw None) = 1 /\ d_completed (double Fixed d oh ow dw None) = 1.
Proof.
  exists fresh, OOk, OOk, (STerm, 3, CTry). split; [apply Inv_fresh|].
  vm_compute. repeat split; reflexivity.
Qed.

(* the literal handler is wrong exactly for the termination signals that find it installed, and for
   SIGINT before that (the exit callback removes the pid file); SIGKILL and the default SIGTERM are harmless *)
Example literal_waiter_cases :
  double_mid Fixed fresh OOk (SKill, 3, CTry) = snap (at_body fresh) /\
  double_mid Fixed fresh OOk (STerm, 1, CProp) = snap (at_body fresh) /\
  d_pid (double_mid Fixed fresh OOk (SInt, 1, CProp)) = false /\
  d_failed (double_mid Fixed fresh OOk (SInt, 3, CProp)) = Some 2%Z /\
  d_failed (double_mid Prefix fresh OOk (STerm, 2, CProp)) = Some 15%Z.
Proof. vm_compute. repeat split; reflexivity. Qed.

(* non-vacuity: the hypotheses of the two-process lemmas are met, both processes die *)
Example double_nontrivial :
  d_done fresh = false /\ Inv fresh /\
  double Guarded fresh OOk ORaise (SInt, 3, CTry) None
    = {| d_done := true; d_failed := None; d_pid := false; d_lock := false; d_runs := 1; d_completed := 1 |} /\
  double Guarded fresh (OExit 3) OOk (STerm, 2, CProp) (Some (SKill, 1, CProp))
    = {| d_done := false; d_failed := None; d_pid := true; d_lock := false; d_runs := 1; d_completed := 0 |} /\
  double Guarded fresh OOk OOk (STerm, 7, CTry) (Some (STerm, 0, CTry))
    = {| d_done := false; d_failed := Some 1%Z; d_pid := false; d_lock := false; d_runs := 1; d_completed := 0 |}.
Proof. split; [reflexivity|]. split; [apply Inv_fresh|]. vm_compute. repeat split; reflexivity. Qed.

(* ------------------------------------------------------------------ a second death inside the handler *)
Lemma forallb_firstn : forall {A} (f : A -> bool) j l, forallb f l = true -> forallb f (firstn j l) = true.
Proof.
  intros A f j. induction j as [|j IH]; intros [|x l] H; simpl in *; auto.
  apply andb_true_iff in H. destruct H as [Hx Hl]. rewrite Hx. simpl. auto.
Qed.

(* the success marker and the counters do not depend on how far the handler got *)
Lemma launch2_fields : forall v d o dth j,
  d_done (launch2 v d o dth j) = d_done (launch v d o (Some dth)) /\
  d_runs (launch2 v d o dth j) = d_runs (launch v d o (Some dth)) /\
  d_completed (launch2 v d o dth j) = d_completed (launch v d o (Some dth)) /\
  d_lock (launch2 v d o dth j) = false.
Proof.
  intros v d o [[g k] c] j.
  destruct (launch_death_fields v d o g k c) as (A & B & C & _). cbv zeta in A, B, C. rewrite A, B, C.
  unfold launch2, effects2. rewrite run_effs_app.
  set (s := run_effs (firstn k (trace v o d)) (boot d)).
  destruct (run_quiet (firstn j (on_signal v g c s)) s (forallb_firstn quiet j _ (on_signal_quiet v g c s)))
    as (A' & B' & C').
  unfold die; simpl. auto.
Qed.

Lemma kill_anywhere_f : forall v d o f, Inv d ->
  Inv (launchf v d o f) /\
  (d_done (launchf v d o f) = true ->
     d_done d = true \/ (success o = true /\ d_completed (launchf v d o f) = S (d_completed d))).
Proof.
  intros v d o [|dth|dth j] H; simpl launchf; try apply (kill_anywhere v d o _ H).
  destruct (launch2_fields v d o dth j) as (A & B & C & D).
  destruct (kill_anywhere v d o (Some dth) H) as [(I1 & I2 & I3) M].
  unfold Inv. rewrite A, B, C, D. auto.
Qed.

Lemma histories_f : forall v l d, Inv d -> Truthful (historyf v d l).
Proof.
  intros v l d H. apply Inv_split.
  revert d H. induction l as [|[o f] l IH]; intros d H; simpl.
  - exact H.
  - apply IH. apply (kill_anywhere_f v d o f H).
Qed.

Lemma relaunch_f : forall v d o f,
  let d' := launchf v d o f in
  (d_done d = true -> d_done d' = true /\ d_runs d' = d_runs d /\ d_completed d' = d_completed d) /\
  (d_runs d' = d_runs d \/ (d_done d = false /\ d_runs d' = S (d_runs d))).
Proof.
  intros v d o [|dth|dth j]; cbv zeta; simpl launchf.
  - split; [apply relaunch_done_skips | apply relaunch_at_most_once].
  - split; [apply relaunch_done_skips | apply relaunch_at_most_once].
  - destruct (launch2_fields v d o dth j) as (A & B & C & D). rewrite A, B, C.
    split; [apply relaunch_done_skips | apply relaunch_at_most_once].
Qed.

(* the clause about termination signals presupposes that the handler is left alone: a SIGKILL right
   after the SIGTERM leaves no failure marker (and the pid file) *)
Example kill_in_handler_cases :
  launch2 Guarded fresh OOk (STerm, 7, CTry) 0
    = {| d_done := false; d_failed := None; d_pid := true; d_lock := false; d_runs := 1; d_completed := 0 |} /\
  launch2 Guarded fresh OOk (STerm, 7, CTry) 2
    = {| d_done := false; d_failed := Some 15%Z; d_pid := true; d_lock := false; d_runs := 1; d_completed := 0 |} /\
  launch2 Guarded fresh OOk (STerm, 7, CTry) 9 = launch Guarded fresh OOk (Some (STerm, 7, CTry)) /\
  historyf Guarded fresh [(OOk, DiesTwice (STerm, 7, CTry) 3); (ORaise, Dies (SKill, 9, CTry)); (OOk, Alone)]
    = {| d_done := true; d_failed := None; d_pid := false; d_lock := false; d_runs := 3; d_completed := 1 |}.
Proof. vm_compute. repeat split; reflexivity. Qed.

(* ================================================================== round 4: a body that forks *)
(* without a fork the new runner is the old one *)
Lemma runner_f_none : forall v fsafe o s, runner_f v fsafe None o s = runner v o s.
Proof. intros. reflexivity. Qed.

Lemma launch_f_none : forall v fsafe d o dth, launch_f v fsafe d None o dth = launch v d o dth.
Proof. intros. reflexivity. Qed.

(* a child that leaves through os._exit, and every child once the except clauses re-raise in a process
   that is not the job, does nothing: all such runs have one shape *)
Lemma silent_shape : forall v fsafe ce o s, (fsafe || wellbehaved (Some ce)) = true ->
  runner_f v fsafe (Some ce) o s = runner_f v true (Some CQuit) o s.
Proof.
  intros v fsafe ce o s H. destruct fsafe; [reflexivity|].
  destruct ce; simpl in H; try discriminate. reflexivity.
Qed.

Lemma silent_launch : forall v fsafe ce d o dth, (fsafe || wellbehaved (Some ce)) = true ->
  launch_f v fsafe d (Some ce) o dth = launch_f v true d (Some CQuit) o dth.
Proof.
  intros v fsafe ce d o dth H. unfold launch_f, effects_f, trace_f.
  rewrite (silent_shape v fsafe ce o (boot d) H). reflexivity.
Qed.

Lemma launch_f_death_fields : forall v fsafe d fk o g k c,
  let s := run_effs (firstn k (trace_f v fsafe fk o d)) (boot d) in
  let d' := launch_f v fsafe d fk o (@Some death (g, k, c)) in
  d_done d' = done s /\ d_runs d' = runs s /\ d_completed d' = completed s /\ d_lock d' = false.
Proof.
  intros v fsafe d fk o g k c s d'. unfold d', launch_f, effects_f. rewrite run_effs_app. fold s.
  destruct (run_quiet (on_signal v g c s) s (on_signal_quiet v g c s)) as (A & B & C).
  unfold die; simpl. auto.
Qed.

(* the canonical silent fork: every death index (the run has one effect more: 0..18 and beyond) *)
Ltac split_k19 k tac := do 19 (destruct k as [|k]; [ tac | ]); tac.

Lemma fork_kill_anywhere_q : forall v d o dth, Inv d ->
  Inv (launch_f v true d (Some CQuit) o dth) /\
  (d_done (launch_f v true d (Some CQuit) o dth) = true ->
     d_done d = true \/ (success o = true /\ d_completed (launch_f v true d (Some CQuit) o dth) = S (d_completed d))).
Proof.
  intros v d o dth. split_dir d. intros (H1 & H2 & H3). simpl in H1, H2, H3. subst lk. unfold Inv.
  destruct dth as [[[g k] c]|].
  - destruct (launch_f_death_fields v true (Build_dir dn fl pd false rn cp) (Some CQuit) o g k c) as (A & B & C & D).
    rewrite A, B, C, D. clear A B C D g c.
    destruct dn, fl, v; split_outcome o; split_k19 k fin.
  - destruct dn, fl, v; split_outcome o; fin.
Qed.

Lemma fork_kill_anywhere : forall v fsafe d fk o dth, Inv d -> (fsafe || wellbehaved fk) = true ->
  Inv (launch_f v fsafe d fk o dth) /\
  (d_done (launch_f v fsafe d fk o dth) = true ->
     d_done d = true \/ (success o = true /\ d_completed (launch_f v fsafe d fk o dth) = S (d_completed d))).
Proof.
  intros v fsafe d [ce|] o dth HI H.
  - rewrite (silent_launch v fsafe ce d o dth H). apply fork_kill_anywhere_q, HI.
  - rewrite launch_f_none. apply kill_anywhere, HI.
Qed.

Lemma fork_kill_anywhere_truthful : forall v fsafe d fk o dth, Inv d -> (fsafe || wellbehaved fk) = true ->
  Truthful (launch_f v fsafe d fk o dth) /\
  (d_done (launch_f v fsafe d fk o dth) = true ->
     d_done d = true \/ (success o = true /\ d_completed (launch_f v fsafe d fk o dth) = S (d_completed d))).
Proof.
  intros v fsafe d fk o dth HI H. destruct (fork_kill_anywhere v fsafe d fk o dth HI H) as [I M].
  split; [|exact M]. apply Inv_split in I. tauto.
Qed.

Lemma fork_histories : forall v fsafe l d, Inv d ->
  (forall x, In x l -> (fsafe || wellbehaved (fst (fst x))) = true) ->
  Truthful (history_f v fsafe d l).
Proof.
  intros v fsafe l d HI Hl. apply Inv_split. revert d HI.
  induction l as [|[[fk o] dth] l IH]; intros d HI; simpl.
  - exact HI.
  - apply IH.
    + intros x Hx. apply Hl. right. exact Hx.
    + apply (fork_kill_anywhere v fsafe d fk o dth HI). apply (Hl (fk, o, dth)). left. reflexivity.
Qed.

(* where the body is: with a fork, the next effect is the fork (7 / 8) or the end of the body (8 / 9) *)
Lemma in_body_f_index_q : forall v o d k,
  d_done d = false -> in_body_f v true (Some CQuit) o d k ->
  k = (if is_some (d_failed d) then 8 else 7) \/ k = (if is_some (d_failed d) then 9 else 8).
Proof.
  intros v o d k. split_dir d. intros Hd Hb. simpl in Hd. subst dn.
  destruct Hb as [[b Hb]|[l Hb]];
    destruct fl, v; split_outcome o;
    split_k19 k ltac:(first [ left; reflexivity | right; reflexivity | exfalso; cbv in Hb; discriminate Hb ]).
Qed.

Lemma fork_term_in_body_q : forall v d o g c k,
  d_done d = false -> term_signal g -> in_body_f v true (Some CQuit) o d k ->
  let d' := launch_f v true d (Some CQuit) o (Some (g, k, c)) in
  d_done d' = false /\ d_failed d' <> None /\ d_pid d' = false /\
  (c = CTry -> d_failed d' = Some 1%Z).
Proof.
  intros v d o g c k Hd Hg Hb.
  destruct (in_body_f_index_q v o d k Hd Hb) as [-> | ->]; clear Hb;
    split_dir d; simpl in Hd; subst dn;
    destruct Hg; subst g; destruct fl, v; split_outcome o; destruct c; fin.
Qed.

(* SIGTERM / SIGINT anywhere in a body that forks - before the fork or after it: the job process still has
   its handlers (the at-fork hook ran in the child) *)
Lemma fork_term_in_body : forall v fsafe ce d o g c k,
  (fsafe || wellbehaved (Some ce)) = true ->
  d_done d = false -> term_signal g -> in_body_f v fsafe (Some ce) o d k ->
  let d' := launch_f v fsafe d (Some ce) o (Some (g, k, c)) in
  d_done d' = false /\ d_failed d' <> None /\ d_pid d' = false /\
  (c = CTry -> d_failed d' = Some 1%Z).
Proof.
  intros v fsafe ce d o g c k H Hd Hg Hb. cbv zeta.
  rewrite (silent_launch v fsafe ce d o _ H). apply (fork_term_in_body_q v d o g c k Hd Hg).
  unfold in_body_f, trace_f in *. rewrite <- (silent_shape v fsafe ce o (boot d) H). exact Hb.
Qed.

Example in_body_f_nontrivial :
  in_body_f Guarded true (Some (CExit 0)) OOk fresh 7 /\ in_body_f Guarded false (Some CQuit) ORaise fresh 8.
Proof. split; [right|left]; eexists; reflexivity. Qed.

(* a job whose body forked and that ends by itself: no pid file, the lock released by its own code, the
   body ran once, the success marker says whether it succeeded *)
Lemma fork_own_exit_q : forall v d o, v <> Prefix ->
  let d' := launch_f v true d (Some CQuit) o None in
  d_pid d' = false /\
  lock (run_effs (effects_f v true (Some CQuit) o None d) (boot d)) = false /\
  d_runs d' = (if d_done d then d_runs d else S (d_runs d)) /\
  d_done d' = (d_done d || success o).
Proof.
  intros v d o Hv. split_dir d.
  destruct v; [congruence | |]; destruct dn, fl; split_outcome o; fin.
Qed.

Lemma fork_own_exit : forall v fsafe ce d o, v <> Prefix -> (fsafe || wellbehaved (Some ce)) = true ->
  let d' := launch_f v fsafe d (Some ce) o None in
  d_pid d' = false /\
  lock (run_effs (effects_f v fsafe (Some ce) o None d) (boot d)) = false /\
  d_runs d' = (if d_done d then d_runs d else S (d_runs d)) /\
  d_done d' = (d_done d || success o).
Proof.
  intros v fsafe ce d o Hv H. cbv zeta. rewrite (silent_launch v fsafe ce d o None H).
  unfold effects_f, trace_f. rewrite (silent_shape v fsafe ce o (boot d) H).
  apply (fork_own_exit_q v d o Hv).
Qed.

(* LITERAL code (/repo 36bcb7f, fsafe = false) refuted.
   1. the child leaves with sys.exit(0): the success marker appears while the parent is in its body; the
      parent is SIGKILLed right after (9 effects done, the next would be the end of the body): marker
      without a completed body, and the next launch skips the body. *)
Lemma forked_child_exit0_refuted :
  exists d o k,
    Inv d /\ nth_error (trace_f Guarded false (Some (CExit 0)) o d) k = Some (BodyEnd true) /\
    let d' := launch_f Guarded false d (Some (CExit 0)) o (Some (SKill, k, CTry)) in
    d_done d' = true /\ d_completed d' = 0 /\ d_runs d' = 1 /\ ~ Truthful d' /\
    d_runs (launch Guarded d' OOk None) = 1 /\ d_completed (launch Guarded d' OOk None) = 0.
Proof.
  exists fresh, OOk, 8. split; [apply Inv_fresh|]. split; [reflexivity|].
  cbv zeta. vm_compute. repeat split; try reflexivity.
  intros [H _]. specialize (H eq_refl). lia.
Qed.

(*  2. the child leaves with sys.exit(3) or an exception: failure marker and no pid file while the parent
      runs on; the parent succeeds undisturbed: both markers *)
Lemma forked_child_failure_refuted :
  exists d ce o,
    Inv d /\ success o = true /\
    let d' := launch_f Guarded false d (Some ce) o None in
    d_done d' = true /\ d_failed d' = Some 3%Z /\ d_runs d' = 1 /\ d_completed d' = 1 /\
    d_pid (die (run_effs (firstn 9 (trace_f Guarded false (Some ce) o d)) (boot d))) = false.
Proof.
  exists fresh, (CExit 3), OOk. split; [apply Inv_fresh|]. vm_compute. repeat split; reflexivity.
Qed.

Example fork_cases :
  trace_f Guarded false (Some CRaise) OOk fresh
    = [RegAtexit; SetTerm; SetInt; Lock; NoteLock; TestDone; BodyBegin; Child [CWriteFailed 1; CRmPid; CUnlock];
       BodyEnd true; RestoreTerm; RestoreInt; TouchDone; SetCleaned; Unlock] /\
  trace_f Guarded true (Some CRaise) OOk fresh
    = [RegAtexit; SetTerm; SetInt; Lock; NoteLock; TestDone; BodyBegin; Child [];
       BodyEnd true; RestoreTerm; RestoreInt; TouchDone; SetCleaned; RmPid; Unlock] /\
  history_f Guarded true fresh [(Some (CExit 0), OOk, Some (SKill, 8, CTry)); (Some CRaise, ORaise, None); (None, OOk, None)]
    = {| d_done := true; d_failed := None; d_pid := false; d_lock := false; d_runs := 3; d_completed := 1 |}.
Proof. vm_compute. repeat split; reflexivity. Qed.

(* ================================================================== round 5: the end-of-job notification *)
(* notification last (the code): whether it raises or not, the run is the run of the model used everywhere else *)
Lemma notify_last_is_runner : forall nf v o d,
  map snd (runner_n NotifyLast nf v o (boot d)) = trace v o d.
Proof.
  intros nf v o d. split_dir d. destruct dn, fl, v; split_outcome o; reflexivity.
Qed.

Lemma notify_last_own_exit : forall nf v d o, v <> Prefix ->
  pid (end_n NotifyLast nf v d o) = false /\ lock (end_n NotifyLast nf v d o) = false.
Proof.
  intros nf v d o Hv. unfold end_n. rewrite notify_last_is_runner.
  split.
  - apply (own_exit_no_pid_v v d o Hv).
  - apply (own_exit_lock_released v d o Hv).
Qed.

(* notification before the removal of the pid file, and it raises: a job that ended by itself - successfully
   or not - keeps its pid file, and its lock until the process is gone *)
Lemma notify_first_refuted :
  exists d, Inv d /\
    pid (end_n NotifyFirst true Guarded d OOk) = true /\ done (end_n NotifyFirst true Guarded d OOk) = true /\
    lock (end_n NotifyFirst true Guarded d OOk) = true /\
    pid (end_n NotifyFirst true Guarded d ORaise) = true /\ failed (end_n NotifyFirst true Guarded d ORaise) = Some 1%Z.
Proof. exists fresh. split; [apply Inv_fresh|]. vm_compute. repeat split; reflexivity. Qed.

(* ... while the same order is harmless as long as the notification does not raise, and on a directory whose
   success marker makes the launch skip the body (no notification at all) *)
Lemma notify_first_quiet : forall v o d, map snd (runner_n NotifyFirst false v o (boot d)) = trace v o d.
Proof.
  intros v o d. split_dir d. destruct dn, fl, v; split_outcome o; reflexivity.
Qed.

(* ================================================================== round 7 *)
(* the relaunch of a finished job, whatever signal it gets and wherever: the literal handler (code of /repo
   c09fbf1, variant Fixed stands for it here) writes a failure marker next to the success marker ... *)
Lemma relaunch_of_finished_job_marks_failed_refuted :
  exists d k, Inv d /\ d_done d = true /\ d_failed d = None /\
    d_failed (launch Fixed d OOk (Some (STerm, k, CTry))) = Some 1%Z /\
    d_done (launch Fixed d OOk (Some (STerm, k, CTry))) = true.
Proof.
  exists (launch Fixed fresh OOk None), 6. split; [apply kill_anywhere, Inv_fresh|].
  vm_compute. repeat split; reflexivity.
Qed.

(* ... the repaired one never does: a launch that finds the success marker leaves the failure marker as it was *)
Lemma relaunch_of_finished_job_keeps_failed : forall d o dth, d_done d = true ->
  d_failed (launch Guarded d o dth) = d_failed d.
Proof.
  intros d o dth. split_dir d. simpl. intros ->.
  destruct dth as [[[g k] c]|].
  - destruct fl; split_outcome o; destruct g, c; split_k k ltac:(reflexivity).
  - destruct fl; split_outcome o; reflexivity.
Qed.

(* ------------------------------------------------------------------ round 7: the lock file *)
(* all processes look at one inode *)
Definition one_inode (s : lst) : Prop :=
  exists i, (forall q j, In (q, j) (lk_ino s) -> j = i) /\ (forall q j, In (q, j) (lk_held s) -> j = i) /\
            (lk_file s = None -> lk_ino s = [] /\ lk_held s = []) /\ (forall j, lk_file s = Some j -> j = i) /\
            length (lk_held s) <= 1.

Lemma lk_lookup_in : forall p l i, lk_lookup p l = Some i -> In (p, i) l.
Proof.
  induction l as [|[q j] l IH]; simpl; intros i H; [discriminate|].
  destruct (Nat.eqb p q) eqn:E.
  - apply Nat.eqb_eq in E. inversion H. subst. left. reflexivity.
  - right. apply IH, H.
Qed.

Lemma filter_length_le : forall {A} (f : A -> bool) l, length (filter f l) <= length l.
Proof. intros A f l. induction l as [|x l IH]; simpl; [lia|]. destruct (f x); simpl; lia. Qed.

Lemma one_inode_step : forall s e, one_inode s -> (match e with LUnlink => False | _ => True end) -> one_inode (lk_step s e).
Proof.
  intros s e (i & Hi & Hh & Hn & Hf & Hl) He. destruct e as [p|p|p|]; [| | |contradiction]; simpl.
  - destruct (lk_file s) as [j|] eqn:F.
    + exists i. simpl. refine (conj _ (conj _ (conj _ (conj _ _)))); auto; try discriminate;
        try (intros q k [E|E]; [inversion E; subst; apply Hf; reflexivity | eauto]);
        try (intros k E; inversion E; subst; apply Hf; reflexivity).
    + destruct (Hn eq_refl) as [N1 N2]. exists (lk_fresh s). simpl. rewrite N1, N2. simpl.
      refine (conj _ (conj _ (conj _ (conj _ _)))); try discriminate; try lia;
        try (intros q k [E|[]]; inversion E; reflexivity); try (intros q k []); try (intros k E; inversion E; reflexivity).
  - destruct (lk_lookup p (lk_ino s)) as [j|] eqn:L; [|exists i; auto 6].
    destruct (existsb (fun h => Nat.eqb (snd h) j) (lk_held s)) eqn:X; [exists i; auto 6|].
    assert (J : j = i) by (apply (Hi p), lk_lookup_in, L).
    exists i. simpl. refine (conj Hi (conj _ (conj _ (conj Hf _)))).
    + intros q k [E|E]; [inversion E; subst; reflexivity | apply (Hh q k E)].
    + intros F. destruct (Hn F) as [N1 _]. rewrite N1 in L. discriminate.
    + destruct (lk_held s) as [|[q k] r] eqn:R; simpl; [lia|]. exfalso.
      simpl in X. apply orb_false_iff in X. destruct X as [X _].
      assert (k = i) by (apply (Hh q); left; reflexivity). subst.
      rewrite Nat.eqb_refl in X. discriminate.
  - exists i. simpl. refine (conj _ (conj _ (conj _ (conj _ _)))); auto;
      try (intros q k H; apply filter_In in H; destruct H; eauto; fail);
      try (intros F; destruct (Hn F) as [N1 N2]; rewrite N2; auto; fail).
    pose proof (filter_length_le (fun h => negb (Nat.eqb (fst h) p)) (lk_held s)). lia.
Qed.

(* as long as nobody unlinks the lock file: at most one process holds the run lock, whatever the processes do *)
Lemma lock_file_kept_exclusive : forall l, no_unlink l = true -> length (lk_held (lk_run lk0 l)) <= 1.
Proof.
  intros l H.
  assert (G : forall l s, no_unlink l = true -> one_inode s -> one_inode (lk_run s l)).
  { clear. induction l as [|e l IH]; intros s H I; simpl; [exact I|].
    simpl in H. apply andb_true_iff in H. destruct H as [He Hl].
    apply IH; [exact Hl|]. apply one_inode_step; [exact I|]. destruct e; auto; discriminate. }
  assert (I0 : one_inode lk0).
  { exists 0. simpl. repeat split; auto; try discriminate; try (intros q j []). }
  destruct (G l lk0 H I0) as (i & _ & _ & _ & _ & L). exact L.
Qed.

(* cleanup unlinks the lock file after releasing it (A = 0 ends while B = 1 waits; C = 2 comes later):
   B gets the lock of the unlinked inode, C creates a new file and gets its lock at once: two holders *)
Lemma lock_file_unlinked_refuted :
  exists l, lk_held (lk_run lk0 l) = [(2, 1); (1, 0)] /\
            l = [LOpen 0; LAcquire 0; LOpen 1; LAcquire 1; LRelease 0; LUnlink; LAcquire 1; LOpen 2; LAcquire 2].
Proof. eexists. split; [|reflexivity]. reflexivity. Qed.
