(* Proofs about model/Sched.v, part 4: deadlock freedom at quiescence (C06 no_hang). *)
From Coq Require Import ZArith List Bool Arith Lia ZifyBool.
From XV Require Import model.Sched proofs.Sched_lemmas proofs.Sched_inv proofs.Sched_thm.
Import ListNotations.
Open Scope Z_scope.

Set Implicit Arguments.

Definition is_woken (p : pcT) : bool := match p with PWokenReady | PWoken _ => true | _ => false end.

(* tokens held by the running aio_start of each job *)
Fixpoint hcount (l : list (nat * nat)) (t : nat) : nat :=
  match l with [] => 0 | (t', c) :: r => (if Nat.eqb t' t then c else 0) + hcount r t end%nat.
Fixpoint hsum_l (s : state) (t : nat) (js : list nat) : nat :=
  match js with [] => 0 | j :: r => hcount (held (jobs s j)) t + hsum_l s t r end%nat.
Definition hsum (W : workload) (s : state) (t : nat) : nat := hsum_l s t (seq 0 (njobs W)).

(* the liveness invariant, relative to the set Q of ready callbacks *)
Record LivQ (W : workload) (s : state) (Q : cb -> Prop) : Prop := {
  V_spawn : forall j, pc (jobs s j) = PSpawned -> Q (CSpawn j);
  V_step : forall j, is_woken (pc (jobs s j)) = true -> Q (CStep j);
  V_tok : forall j i t c, started (pc (jobs s j)) = true -> nth_error (deps W j) i = Some (DTok t c) ->
            nth_error (cur (jobs s j)) i = Some DWAIT -> (avail s t < c)%nat \/ Q (CNotify j i);
  V_job : forall j i k, started (pc (jobs s j)) = true -> nth_error (deps W j) i = Some (DJob k) ->
            nth_error (cur (jobs s j)) i = Some DWAIT ->
            (forall r, pc (jobs s k) <> PReturned r) \/ Q (CCheck j i);
  V_cons : forall t, (avail s t + hsum W s t = total W t)%nat;
  V_wait : (wst s = WStarting -> Q CWaitStart) /\ (wst s = WWoken -> Q CWakeExit) /\ (wst s = WBlocked -> unfinished s <> 0)
}.
Definition Liv (W : workload) (s : state) : Prop := LivQ W s (fun c => In c (queue s)).

Definition updated (s s' : state) (j : nat) (r' : jst) : Prop :=
  (forall x, x <> j -> jobs s' x = jobs s x) /\ jobs s' j = r'.
Lemma updated_of_eq : forall s s' j r', jobs s' = upd (jobs s) j r' -> updated s s' j r'.
Proof. intros s s' j r' E. split; [intros x N; rewrite E; apply upd_other; auto|rewrite E; apply upd_same]. Qed.

Lemma hsum_l_upd_out : forall s s' t js j r', updated s s' j r' -> ~ In j js -> hsum_l s' t js = hsum_l s t js.
Proof.
  intros s s' t js j r' (E & _). induction js as [|x r IH]; simpl; intros N; auto.
  rewrite E; [|intros ->; apply N; auto]. rewrite IH; auto.
Qed.

Lemma hsum_l_upd : forall s s' t j r' a n, updated s s' j r' -> (a <= j < a + n)%nat ->
  (hsum_l s' t (seq a n) + hcount (held (jobs s j)) t = hsum_l s t (seq a n) + hcount (held r') t)%nat.
Proof.
  intros s s' t j r' a n E. revert a. induction n; intros a H; simpl; [lia|].
  destruct (Nat.eq_dec a j) as [->|N].
  - rewrite (proj2 E).
    rewrite (@hsum_l_upd_out s s' t (seq (S j) n) j r' E); [lia|]. rewrite in_seq. lia.
  - rewrite (proj1 E a N). specialize (IHn (S a)). lia.
Qed.

Lemma hsum_upd_same_held : forall W s s' t j r', updated s s' j r' -> held r' = held (jobs s j) ->
  hsum W s' t = hsum W s t.
Proof.
  intros W s s' t j r' E H. unfold hsum. destruct (Nat.lt_ge_cases j (njobs W)) as [L|L].
  - pose proof (@hsum_l_upd s s' t j r' 0 (njobs W) E). rewrite H in H0. lia.
  - apply (@hsum_l_upd_out s s' t _ j r' E). rewrite in_seq. lia.
Qed.

Definition own (j : nat) (c : cb) : Prop :=
  match c with CSpawn x | CStep x | CNotify x _ | CCheck x _ => x = j | _ => False end.

(* a change of job j's record that keeps the token state; callbacks that concern j may have been consumed *)
Lemma livq_update_pw0 : forall W s s' j r' (Q Q' : cb -> Prop),
  LivQ W s Q ->
  updated s s' j r' -> avail s' = avail s -> held r' = held (jobs s j) ->
  (forall c, Q c -> Q' c \/ own j c) ->
  (pc r' = PSpawned -> Q' (CSpawn j)) ->
  (is_woken (pc r') = true -> Q' (CStep j)) ->
  (forall i t c, started (pc r') = true -> nth_error (deps W j) i = Some (DTok t c) ->
     nth_error (cur r') i = Some DWAIT -> (avail s t < c)%nat \/ Q' (CNotify j i)) ->
  (forall i k, started (pc r') = true -> nth_error (deps W j) i = Some (DJob k) ->
     nth_error (cur r') i = Some DWAIT -> (forall r, pc (jobs s k) <> PReturned r) \/ Q' (CCheck j i)) ->
  (forall r0, pc r' = PReturned r0 -> (exists r1, pc (jobs s j) = PReturned r1) \/
     (forall x i, started (pc (jobs s x)) = true -> nth_error (deps W x) i = Some (DJob j) ->
        nth_error (cur (jobs s x)) i = Some DWAIT -> Q' (CCheck x i))) ->
  ((wst s' = WStarting -> Q' CWaitStart) /\ (wst s' = WWoken -> Q' CWakeExit) /\ (wst s' = WBlocked -> unfinished s' <> 0)) ->
  wf W = true ->
  LivQ W s' Q'.
Proof.
  intros W s s' j r' Q Q' L EJ EA EH HQ HS HW OT OJ HR VW WF.
  destruct EJ as (SAME & ATJ). assert (EJ : updated s s' j r') by (split; auto).
  assert (KEEP : forall c, Q c -> ~ own j c -> Q' c).
  { intros c Hc N1. destruct (HQ c Hc) as [X|X]; auto. contradiction. }
  constructor.
  - intros x P. destruct (Nat.eq_dec x j) as [->|N]; [rewrite ATJ in P; auto|].
    rewrite SAME in P; auto. apply KEEP; [apply (V_spawn L x P)|simpl; auto].
  - intros x P. destruct (Nat.eq_dec x j) as [->|N]; [rewrite ATJ in P; auto|].
    rewrite SAME in P; auto. apply KEEP; [apply (V_step L x P)|simpl; auto].
  - intros x i t c. rewrite EA. destruct (Nat.eq_dec x j) as [->|N]; [rewrite ATJ; auto|].
    rewrite SAME; auto. intros A B C. destruct (V_tok L x i A B C) as [X|X]; [left; auto|right; apply KEEP; simpl; auto].
  - intros x i k. destruct (Nat.eq_dec x j) as [->|N].
    + rewrite ATJ. intros A B C.
      assert (KJ : k <> j).
      { assert (In (DJob k) (deps W j)) by (eapply nth_error_In; eauto). pose proof (@wf_lt W j k WF H). lia. }
      rewrite (SAME k KJ). auto.
    + rewrite (SAME x N). intros A B C. destruct (V_job L x i A B C) as [X|X].
      * destruct (Nat.eq_dec k j) as [->|NK]; [|left; rewrite SAME; auto].
        rewrite ATJ. destruct (pc r') as [| | | | | | |r0] eqn:P; try (left; intros r; discriminate).
        destruct (HR r0 eq_refl) as [(r1 & Y)|Y]; [exfalso; eapply X; eauto|].
        right. apply (Y x i); auto.
      * right; apply KEEP; simpl; auto.
  - intros t. rewrite EA. rewrite (@hsum_upd_same_held W s s' t j r' EJ EH). apply (V_cons L).
  - exact VW.
Qed.

Lemma livq_update : forall W s s' j r' (Q Q' : cb -> Prop),
  LivQ W s Q -> Inv W s ->
  jobs s' = upd (jobs s) j r' -> avail s' = avail s -> held r' = held (jobs s j) ->
  (forall c, Q c -> Q' c \/ own j c) ->
  (pc r' = PSpawned -> Q' (CSpawn j)) ->
  (is_woken (pc r') = true -> Q' (CStep j)) ->
  (forall i t c, started (pc r') = true -> nth_error (deps W j) i = Some (DTok t c) ->
     nth_error (cur r') i = Some DWAIT -> (avail s t < c)%nat \/ Q' (CNotify j i)) ->
  (forall i k, started (pc r') = true -> nth_error (deps W j) i = Some (DJob k) ->
     nth_error (cur r') i = Some DWAIT -> (forall r, pc (jobs s k) <> PReturned r) \/ Q' (CCheck j i)) ->
  (forall r0, pc r' = PReturned r0 -> (exists r1, pc (jobs s j) = PReturned r1) \/
     (forall x i, started (pc (jobs s x)) = true -> nth_error (deps W x) i = Some (DJob j) ->
        nth_error (cur (jobs s x)) i = Some DWAIT -> Q' (CCheck x i))) ->
  ((wst s' = WStarting -> Q' CWaitStart) /\ (wst s' = WWoken -> Q' CWakeExit) /\ (wst s' = WBlocked -> unfinished s' <> 0)) ->
  wf W = true ->
  LivQ W s' Q'.
Proof.
  intros W s s' j r' Q Q' L I EJ. apply livq_update_pw0; auto. apply updated_of_eq; auto.
Qed.

Lemma returned_finished : forall W s k r, Inv W s -> pc (jobs s k) = PReturned r -> finished (st (jobs s k)) = true.
Proof. intros W s k r I P. apply (l_A (I_loc I k)). rewrite P. reflexivity. Qed.

Lemma check_cases' : forall W s j i,
  (nth_error (deps W j) i = None /\ check W all_fixed s j i = s) \/
  exists d r' w, nth_error (deps W j) i = Some d /\ check_l true true (jobs s j) i (dep_status s d) = (r', w) /\
    check W all_fixed s j i = (if w then enqueue (setjob s j r') (CStep j) else setjob s j r').
Proof.
  intros. unfold check. destruct (nth_error (deps W j) i) as [d|] eqn:N; auto.
  right. simpl. destruct (check_l true true (jobs s j) i (dep_status s d)) as [r' w] eqn:C.
  exists d, r', w. auto.
Qed.

(* callbacks about a dependency that does not exist carry no obligation *)
Lemma livq_weaken : forall W s j i (Q Q' : cb -> Prop), LivQ W s Q -> nth_error (deps W j) i = None ->
  (forall c, Q c -> Q' c \/ c = CCheck j i \/ c = CNotify j i) -> LivQ W s Q'.
Proof.
  intros W s j i Q Q' L N HQ.
  assert (K : forall c, Q c -> c <> CCheck j i -> c <> CNotify j i -> Q' c).
  { intros c Hc N1 N2. destruct (HQ c Hc) as [X|[X|X]]; auto; contradiction. }
  destruct L as [A B C D E (F1 & F2 & F3)]. constructor; auto.
  - intros x P. apply K; auto; discriminate.
  - intros x P. apply K; auto; discriminate.
  - intros x i' t c S Dp Cu. destruct (C x i' t c S Dp Cu) as [X|X]; auto. right. apply K; auto; try discriminate.
    intros Y. inversion Y; subst. congruence.
  - intros x i' k S Dp Cu. destruct (D x i' k S Dp Cu) as [X|X]; auto. right. apply K; auto; try discriminate.
    intros Y. inversion Y; subst. congruence.
  - split; [|split]; auto; intros X; apply K; auto; discriminate.
Qed.

(* Dependency.check on (j, i): afterwards the recorded status is the current one *)
Lemma livq_check : forall W s j i (Q Q' : cb -> Prop),
  wf W = true -> LivQ W s Q -> Inv W s -> started (pc (jobs s j)) = true ->
  (forall c, Q c -> Q' c \/ c = CCheck j i \/ c = CNotify j i) ->
  (forall c, In c (queue (check W all_fixed s j i)) -> In c (queue s) \/ Q' c) ->
  (is_woken (pc (jobs (check W all_fixed s j i) j)) = true -> is_woken (pc (jobs s j)) = false -> Q' (CStep j)) ->
  LivQ W (check W all_fixed s j i) Q'.
Proof.
  intros W s j i Q Q' WF L I S HQ _ HWK.
  destruct (check_cases' W s j i) as [(Nd & E)|(d & r' & w & Nd & C & E)].
  - rewrite E. eapply livq_weaken; eauto.
  - rewrite E in *. set (r := jobs s j) in *.
    apply check_l_async in C. destruct C as (A & Wk & _ & Cur & _).
    destruct (l_CI (I_loc I j) S) as (Len & _). fold r in Len.
    assert (Hi : exists old, nth_error (cur r) i = Some old).
    { assert (i < length (cur r))%nat by (rewrite Len; apply nth_error_Some; congruence).
      destruct (nth_error (cur r) i) eqn:X; eauto. apply nth_error_None in X. lia. }
    destruct Hi as (old & Hold). destruct (Cur _ Hold) as (Cc & _). clear Cur.
    destruct A as [Ah Al Ap Ae As Afd Alen Aw Aes Au0 Af2].
    remember (if w then enqueue (setjob s j r') (CStep j) else setjob s j r') as s' eqn:ES.
    assert (EJ : jobs s' = upd (jobs s) j r') by (rewrite ES; destruct w; reflexivity).
    assert (ATJ : jobs s' j = r') by (rewrite EJ; apply upd_same).
    assert (HQ' : forall c, Q c -> Q' c \/ own j c).
    { intros c Hc. destruct (HQ c Hc) as [X|[X|X]]; auto; right; rewrite X; simpl; auto. }
    assert (KEEPI : forall c, Q c -> c <> CCheck j i -> c <> CNotify j i -> Q' c).
    { intros c Hc N1 N2. destruct (HQ c Hc) as [X|[X|X]]; auto; contradiction. }
    assert (PCS : pc r' = pc r \/ (pc r = PAwaitReady /\ pc r' = PWokenReady)) by (destruct Ap as [?|(?&?&_)]; auto).
    apply (@livq_update W s s' j r' Q Q'); auto.
    + rewrite ES; destruct w; reflexivity.
    + intros P. destruct PCS as [X|(_&X)]; [|congruence]. rewrite X in P.
      apply KEEPI; [apply (V_spawn L j P)|discriminate|discriminate].
    + intros P. destruct (is_woken (pc r)) eqn:WK.
      * apply KEEPI; [apply (V_step L j WK)|discriminate|discriminate].
      * apply HWK; auto. rewrite ATJ. exact P.
    + intros i' t c _ Dp Cu. rewrite Cc, nth_error_replace in Cu. destruct (Nat.eqb i i') eqn:Ei.
      * apply Nat.eqb_eq in Ei. subst i'. rewrite Hold in Cu. inversion Cu as [X].
        rewrite Dp in Nd. inversion Nd; subst d. simpl in X.
        destruct (c <=? avail s t)%nat eqn:LE; [discriminate|]. left. apply Nat.leb_gt. exact LE.
      * destruct (V_tok L j i' S Dp Cu) as [X|X]; auto. right. apply KEEPI; auto; try discriminate.
        intros Y. inversion Y; subst. rewrite Nat.eqb_refl in Ei. discriminate.
    + intros i' k _ Dp Cu. rewrite Cc, nth_error_replace in Cu. destruct (Nat.eqb i i') eqn:Ei.
      * apply Nat.eqb_eq in Ei. subst i'. rewrite Hold in Cu. inversion Cu as [X].
        rewrite Dp in Nd. inversion Nd; subst d. simpl in X. left. intros r0 P.
        pose proof (@returned_finished W s k r0 I P) as F.
        destruct (st (jobs s k)); simpl in F; discriminate.
      * destruct (V_job L j i' S Dp Cu) as [X|X]; auto. right. apply KEEPI; auto; try discriminate.
        intros Y. inversion Y; subst. rewrite Nat.eqb_refl in Ei. discriminate.
    + intros r0 P. left. destruct PCS as [X|(_&X)]; [|congruence]. exists r0. fold r. congruence.
    + destruct (V_wait L) as (F1 & F2 & F3).
      assert (EW : wst s' = wst s /\ unfinished s' = unfinished s) by (rewrite ES; destruct w; auto).
      destruct EW as (EW & EU). rewrite EW, EU.
      split; [|split]; auto; intros X; (apply KEEPI; [auto|discriminate|discriminate]).
Qed.

(* ------------------------------------------------------------------ helpers *)
Lemma in_remove_nth_or : forall A n (l : list A) x c, nth_error l n = Some x -> In c l -> In c (remove_nth n l) \/ c = x.
Proof.
  induction n; destruct l; simpl; intros x c H I; try discriminate.
  - inversion H; subst. destruct I; auto.
  - destruct I as [->|I]; [left; left; auto|]. destruct (IHn l x c H I); auto.
Qed.

Lemma dep_indices_complete : forall p ds i0 i d, nth_error ds i = Some d -> p d = true -> In (i0 + i)%nat (dep_indices p ds i0).
Proof.
  intros p ds. induction ds as [|x r IH]; intros i0 i d H P; destruct i; simpl in *; try discriminate.
  - inversion H; subst. rewrite P. left. lia.
  - specialize (IH (S i0) i d H P). replace (i0 + S i)%nat with (S i0 + i)%nat by lia.
    destruct (p x); [right|]; auto.
Qed.

Lemma dependents_complete : forall W s p j i d, (j < njobs W)%nat -> started (pc (jobs s j)) = true ->
  nth_error (deps W j) i = Some d -> p d = true -> In (j, i) (dependents W s p).
Proof.
  intros W s p j i d L S N P. unfold dependents. apply in_flat_map. exists j. split; [apply in_seq; lia|].
  rewrite S. apply in_map_iff. exists i. split; auto.
  apply (@dep_indices_complete p (deps W j) 0%nat i d N P).
Qed.

Lemma acquire_l_facts : forall ds av hd i av' hd' res, acquire_l av hd ds i = (av', hd', res) ->
  (forall t, av' t + hcount hd' t = av t + hcount hd t)%nat /\ (forall t, av' t <= av t)%nat.
Proof.
  induction ds as [|d r IH]; simpl; intros av hd i av' hd' res H.
  - inversion H; subst. split; auto.
  - destruct d as [k|t c].
    + eapply IH; eauto.
    + destruct (av t <? c)%nat eqn:E.
      * inversion H; subst. split; auto.
      * apply Nat.ltb_ge in E. destruct (IH _ _ _ _ _ _ H) as (A & B). split.
        -- intros t0. rewrite A. clear - E.
           assert (HC : forall l, hcount (l ++ [(t, c)]) t0 = (hcount l t0 + (if Nat.eqb t t0 then c else 0))%nat).
           { induction l as [|[a b] l IHl]; simpl; [lia|]. rewrite IHl. lia. }
           rewrite HC. unfold upd. destruct (Nat.eqb t0 t) eqn:E1.
           ++ apply Nat.eqb_eq in E1. subst. rewrite Nat.eqb_refl. lia.
           ++ rewrite Nat.eqb_sym, E1. lia.
        -- intros t0. specialize (B t0). unfold upd in B. destruct (Nat.eqb t0 t) eqn:E1; auto.
           apply Nat.eqb_eq in E1. subst. lia.
Qed.

Lemma release_avail_facts : forall l av t, release_avail av l t = (av t + hcount l t)%nat.
Proof.
  induction l as [|[a b] l IH]; simpl; intros av t; [lia|].
  rewrite IH. unfold upd. destruct (Nat.eqb t a) eqn:E.
  - apply Nat.eqb_eq in E. subst. rewrite Nat.eqb_refl. lia.
  - rewrite Nat.eqb_sym, E. lia.
Qed.

Lemma hcount_zero : forall l t, ~ In t (map fst l) -> hcount l t = 0%nat.
Proof.
  induction l as [|[a b] l IH]; simpl; intros t N; auto.
  destruct (Nat.eqb a t) eqn:E; [apply Nat.eqb_eq in E; subst; exfalso; auto|]. rewrite IH; auto.
Qed.

Lemma hsum_upd_held : forall W s s' t j r', (j < njobs W)%nat -> updated s s' j r' ->
  (hsum W s' t + hcount (held (jobs s j)) t = hsum W s t + hcount (held r') t)%nat.
Proof. intros W s s' t j r' L E. unfold hsum. apply hsum_l_upd; auto. lia. Qed.

(* dropping a callback whose obligations are void *)
Definition void (W : workload) (s : state) (x : cb) : Prop :=
  match x with
  | CSpawn j => pc (jobs s j) <> PSpawned
  | CStep j => is_woken (pc (jobs s j)) = false
  | CCheck j i => forall k, nth_error (deps W j) i = Some (DJob k) -> nth_error (cur (jobs s j)) i = Some DWAIT ->
                    forall r, pc (jobs s k) <> PReturned r
  | CNotify j i => forall t c, nth_error (deps W j) i = Some (DTok t c) -> nth_error (cur (jobs s j)) i = Some DWAIT ->
                    (avail s t < c)%nat
  | CWaitStart => wst s <> WStarting
  | CWakeExit => wst s <> WWoken
  end.

Lemma livq_drop : forall W s x (Q Q' : cb -> Prop), LivQ W s Q -> void W s x ->
  (forall c, Q c -> Q' c \/ c = x) -> LivQ W s Q'.
Proof.
  intros W s x Q Q' L V HQ. destruct L as [A B C D E (F1 & F2 & F3)]. constructor; auto.
  - intros j P. destruct (HQ _ (A j P)) as [X|X]; auto. subst x. simpl in V. contradiction.
  - intros j P. destruct (HQ _ (B j P)) as [X|X]; auto. subst x. simpl in V. congruence.
  - intros j i t c S Dp Cu. destruct (C j i t c S Dp Cu) as [X|X]; auto.
    destruct (HQ _ X) as [Y|Y]; auto. subst x. simpl in V. left. eapply V; eauto.
  - intros j i k S Dp Cu. destruct (D j i k S Dp Cu) as [X|X]; auto.
    destruct (HQ _ X) as [Y|Y]; auto. subst x. simpl in V. left. eapply V; eauto.
  - split; [|split]; auto.
    + intros X. destruct (HQ _ (F1 X)) as [Y|Y]; auto. subst x. simpl in V. contradiction.
    + intros X. destruct (HQ _ (F2 X)) as [Y|Y]; auto. subst x. simpl in V. contradiction.
Qed.

(* changes that do not touch the jobs, the tokens nor wait() *)
Lemma livq_mono : forall W s s' (Q Q' : cb -> Prop), LivQ W s Q -> jobs s' = jobs s -> avail s' = avail s ->
  wst s' = wst s -> unfinished s' = unfinished s -> (forall c, Q c -> Q' c) -> LivQ W s' Q'.
Proof.
  intros W s s' Q Q' [A B C D E (F1 & F2 & F3)] EJ EA EW EU HQ.
  constructor; rewrite ?EJ, ?EA, ?EW, ?EU; auto.
  - intros j i t c S Dp Cu. destruct (C j i t c S Dp Cu); auto.
  - intros j i k S Dp Cu. destruct (D j i k S Dp Cu); auto.
  - intros t. unfold hsum. replace (hsum_l s' t (seq 0 (njobs W))) with (hsum_l s t (seq 0 (njobs W))); [apply E|].
    induction (seq 0 (njobs W)); simpl; auto. rewrite EJ. congruence.
Qed.

Lemma hsum_eq : forall W s s' t, jobs s' = jobs s -> hsum W s' t = hsum W s t.
Proof. intros W s s' t E. unfold hsum. induction (seq 0 (njobs W)); simpl; auto. rewrite E. congruence. Qed.

(* ------------------------------------------------------------------ the transitions *)
Definition posreq (W : workload) : Prop :=
  forall j t c, In (DTok t c) (deps W j) -> (1 <= c)%nat.

Lemma liv_deliver : forall W s j a, wf W = true -> Liv W s -> Inv W s -> pc (jobs s j) = PExt a ->
  Liv W (enqueue (setjob s j (w_pc (jobs s j) (PWoken a))) (CStep j)).
Proof.
  intros W s j a WF L I P. unfold Liv.
  apply (@livq_update W s _ j (w_pc (jobs s j) (PWoken a)) (fun c => In c (queue s))); auto; simpl.
  - intros c Hc. left. apply in_or_app; auto.
  - discriminate.
  - intros _. apply in_or_app; right; simpl; auto.
  - intros i t c _ Dp Cu. destruct (V_tok L j i) with (t := t) (c := c) as [X|X]; auto; [rewrite P; auto|].
    right. apply in_or_app; auto.
  - intros i k _ Dp Cu. destruct (V_job L j i) with (k := k) as [X|X]; auto; [rewrite P; auto|].
    right. apply in_or_app; auto.
  - discriminate.
  - destruct (V_wait L) as (F1 & F2 & F3). split; [|split]; auto; intros X; apply in_or_app; auto.
Qed.

Lemma liv_lwait : forall W s, Liv W s -> wait_done (wst s) = true \/ wst s = WNone ->
  Liv W (enqueue (s_wst s WStarting) CWaitStart).
Proof.
  intros W s [A B C D E (F1 & F2 & F3)] H. constructor; simpl; auto.
  - intros j P. apply in_or_app; auto.
  - intros j P. apply in_or_app; auto.
  - intros j i t c S Dp Cu. destruct (C j i t c S Dp Cu); auto. right. apply in_or_app; auto.
  - intros j i k S Dp Cu. destruct (D j i k S Dp Cu); auto. right. apply in_or_app; auto.
  - intros t. rewrite (@hsum_eq W s _ t); auto.
  - split; [|split]; try discriminate. intros _. apply in_or_app; right; simpl; auto.
Qed.

Lemma liv_submit : forall W s j, wf W = true -> Liv W s -> Inv W s -> pc (jobs s j) = PNot ->
  Liv W (submit W all_fixed s j).
Proof.
  intros W s j WF L I P. unfold submit. simpl fx2.
  assert (UN : 0 <= unfinished s) by (rewrite (I_cnt I); apply Nat2Z.is_nonneg).
  assert (SPN : forall s0, jobs s0 = jobs s -> avail s0 = avail s -> wst s0 = wst s -> unfinished s0 = unfinished s + 1 ->
            queue s0 = queue s -> Liv W (enqueue (setjob s0 j (w_pc (jobs s0 j) PSpawned)) (CSpawn j))).
  { intros s0 E1 E2 E3 E4 E5. unfold Liv.
    apply (@livq_update W s _ j (w_pc (jobs s j) PSpawned) (fun c => In c (queue s))); auto; simpl; rewrite ?E1, ?E2, ?E3, ?E4, ?E5; auto.
    - intros c Hc. left. apply in_or_app; auto.
    - intros _. apply in_or_app; right; simpl; auto.
    - discriminate.
    - discriminate.
    - discriminate.
    - discriminate.
    - destruct (V_wait L) as (F1 & F2 & F3). split; [|split]; try (intros X; apply in_or_app; auto).
      intros _. clear - UN. lia. }
  destruct (reg s (j_ident (spec W j))) as [k|].
  - destruct (st (jobs s k)) eqn:SK; try (
      unfold Liv; apply (@livq_update W s _ j (w_pc (jobs s j) (PDup k)) (fun c => In c (queue s))); auto; simpl; auto;
      try discriminate; apply (V_wait L)).
    apply SPN; auto.
  - apply SPN; auto.
Qed.

(* committing the result of a loop function: the job is neither freshly spawned nor woken *)
Lemma liv_commit_loop : forall W s j r2 p x,
  wf W = true -> LivQ W s (fun c => In c (queue s) \/ c = x) -> Inv W s -> own j x ->
  started (pc (jobs s j)) = true ->
  (forall r0, pc (jobs s j) <> PReturned r0) ->
  loop_shape r2 p -> cur r2 = cur (jobs s j) -> held r2 = held (jobs s j) ->
  (forall i, x <> CNotify j i) -> (forall i, x <> CCheck j i) ->
  Liv W (commit s j p).
Proof.
  intros W s j r2 p x WF L I OW S NR (S_st & S_cur & S_uns & S_held & S_fdep & S_l & S_snd & S_pc) C2 H2 NN NC.
  unfold Liv.
  assert (EQ : queue (commit s j p) = queue s) by (unfold commit; destruct (snd p); reflexivity).
  apply (@livq_update W s _ j (fst p) (fun c => In c (queue s) \/ c = x)); auto.
  - unfold commit; destruct (snd p); reflexivity.
  - unfold commit; destruct (snd p); reflexivity.
  - congruence.
  - intros c [Hc| ->]; [left; rewrite EQ; auto|right; auto].
  - intros P. destruct S_pc as [(X&_)|[(X&_)|(X&_)]]; congruence.
  - intros P. destruct S_pc as [(X&_)|[(X&_)|(X&_)]]; rewrite X in P; discriminate.
  - intros i t c _ Dp Cu. rewrite S_cur, C2 in Cu. destruct (V_tok L j i S Dp Cu) as [X|[X|X]]; auto.
    + right. rewrite EQ. auto.
    + exfalso. eapply NN; eauto.
  - intros i k _ Dp Cu. rewrite S_cur, C2 in Cu. destruct (V_job L j i S Dp Cu) as [X|[X|X]]; auto.
    + right. rewrite EQ. auto.
    + exfalso. eapply NC; eauto.
  - intros r0 P. destruct S_pc as [(X&_)|[(X&_)|(X&_)]]; congruence.
  - assert (EW : wst (commit s j p) = wst s /\ unfinished (commit s j p) = unfinished s) by (unfold commit; destruct (snd p); auto).
    destruct EW as (EW & EU). rewrite EW, EU, EQ. destruct (V_wait L) as (F1 & F2 & F3).
    split; [|split]; auto.
    + intros X. destruct (F1 X) as [Y|Y]; auto. subst x. simpl in OW. contradiction.
    + intros X. destruct (F2 X) as [Y|Y]; auto. subst x. simpl in OW. contradiction.
Qed.

Lemma liv_spawn : forall W s j, wf W = true -> LivQ W s (fun c => In c (queue s) \/ c = CSpawn j) -> Inv W s ->
  pc (jobs s j) = PSpawned -> Liv W (run_spawn W all_fixed s j).
Proof.
  intros W s j WF L I P. unfold run_spawn. simpl fx3. simpl fx6. rewrite <- adopted_some.
  set (r := jobs s j) in *. set (news := map (dep_status s) (deps W j)).
  set (p := spawn_l true true (j_marker (spec W j)) (is_some_b (adopted W j)) r news).
  pose proof (I_loc I j) as L0. unfold jl in L0. fold r in L0.
  assert (Len : length news = length (deps W j)) by (apply map_length).
  destruct (@spawn_l_ok (deps W j) (j_marker (spec W j)) (j_code (spec W j)) (adopted W j) r news L0 P Len)
    as (LI & C & ST & SND & RDY & HD & LA & DN & IST & FDP & CT & SHP).
  fold p in LI, C, ST, SND, RDY, HD, LA, DN, IST, FDP, CT, SHP.
  assert (NS : started (pc r) = false) by (rewrite P; auto).
  destruct (l_un L0 NS) as (Ul & Uh & Us & Uf & Uc & Uu).
  assert (EQ : queue (commit s j p) = queue s) by (unfold commit; destruct (snd p); reflexivity).
  assert (NTH : forall i d, nth_error (deps W j) i = Some d -> nth_error news i = Some (dep_status s d)).
  { intros i d X. unfold news. rewrite nth_error_map, X. auto. }
  unfold Liv.
  apply (@livq_update W s _ j (fst p) (fun c => In c (queue s) \/ c = CSpawn j)); auto.
  - unfold commit; destruct (snd p); reflexivity.
  - unfold commit; destruct (snd p); reflexivity.
  - fold r. congruence.
  - intros c [Hc| ->]; [left; rewrite EQ; auto|right; simpl; auto].
  - intros X. destruct SHP as [Y|[Y|[Y|Y]]]; congruence.
  - intros X. destruct SHP as [Y|[Y|[Y|Y]]]; rewrite Y in X; discriminate.
  - intros i t c _ Dp Cu. rewrite C, (NTH _ _ Dp) in Cu. inversion Cu as [X]. simpl in X.
    destruct (c <=? avail s t)%nat eqn:LE; [discriminate|]. left. apply Nat.leb_gt. exact LE.
  - intros i k _ Dp Cu. rewrite C, (NTH _ _ Dp) in Cu. inversion Cu as [X]. simpl in X. left. intros r0 PR.
    pose proof (@returned_finished W s k r0 I PR) as F. destruct (st (jobs s k)); simpl in F; discriminate.
  - intros r0 X. destruct SHP as [Y|[Y|[Y|Y]]]; congruence.
  - assert (EW : wst (commit s j p) = wst s /\ unfinished (commit s j p) = unfinished s) by (unfold commit; destruct (snd p); auto).
    destruct EW as (EW & EU). rewrite EW, EU, EQ. destruct (V_wait L) as (F1 & F2 & F3).
    split; [|split]; auto.
    + intros X. destruct (F1 X) as [Y|Y]; auto. discriminate.
    + intros X. destruct (F2 X) as [Y|Y]; auto. discriminate.
Qed.

(* PWokenReady, PWoken ALockOutRun *)
Lemma liv_after_ready : forall W s j, wf W = true -> LivQ W s (fun c => In c (queue s) \/ c = CStep j) -> Inv W s ->
  pc (jobs s j) = PWokenReady -> Liv W (commit s j (after_ready_l (jobs s j))).
Proof.
  intros W s j WF L I P.
  apply (@liv_commit_loop W s j (jobs s j) (after_ready_l (jobs s j)) (CStep j)); auto; simpl; auto.
  - rewrite P; auto.
  - intros r0. rewrite P. discriminate.
  - apply after_ready_l_shape.
  - discriminate.
  - discriminate.
Qed.

Lemma liv_lockoutrun : forall W s j, wf W = true -> LivQ W s (fun c => In c (queue s) \/ c = CStep j) -> Inv W s ->
  pc (jobs s j) = PWoken ALockOutRun -> Liv W (setjob s j (w_pc (jobs s j) (PExt AProc))).
Proof.
  intros W s j WF L I P. unfold Liv.
  apply (@livq_update W s _ j (w_pc (jobs s j) (PExt AProc)) (fun c => In c (queue s) \/ c = CStep j)); auto; simpl.
  - intros c [Hc| ->]; [left; auto|right; simpl; auto].
  - discriminate.
  - discriminate.
  - intros i t c _ Dp Cu. destruct (V_tok L j i) with (t := t) (c := c) as [X|[X|X]]; auto; [rewrite P; auto|discriminate].
  - intros i k _ Dp Cu. destruct (V_job L j i) with (k := k) as [X|[X|X]]; auto; [rewrite P; auto|discriminate].
  - discriminate.
  - destruct (V_wait L) as (F1 & F2 & F3). split; [|split]; auto; intros X;
      [destruct (F1 X) as [Y|Y]|destruct (F2 X) as [Y|Y]]; auto; discriminate.
Qed.

Lemma liv_done_return : forall W s j, wf W = true -> LivQ W s (fun c => In c (queue s) \/ c = CStep j) -> Inv W s ->
  pc (jobs s j) = PWoken ADoneH -> Liv W (done_return W s j).
Proof.
  intros W s j WF L I P. unfold Liv.
  set (s1 := notify_exit (s_unfinished s (unfinished s - 1))).
  assert (J1 : jobs s1 = jobs s) by (unfold s1, notify_exit; destruct (wst _); reflexivity).
  assert (A1 : avail s1 = avail s) by (unfold s1, notify_exit; destruct (wst _); reflexivity).
  assert (Q1 : forall c, In c (queue s) -> In c (queue s1)).
  { intros c Hc. unfold s1, notify_exit. destruct (wst _); simpl; auto. apply in_or_app; auto. }
  set (cs := map (fun p => CCheck (fst p) (snd p)) (dependents W s1 (is_job j))).
  assert (QS : queue (done_return W s j) = queue s1 ++ cs) by reflexivity.
  set (r' := w_pc (jobs s j) (PReturned (st (jobs s j)))).
  set (Q := fun c => In c (queue s) \/ c = CStep j) in *.
  set (Q' := fun c => In c (queue (done_return W s j))).
  assert (EJ : jobs (done_return W s j) = upd (jobs s) j r').
  { change (jobs (done_return W s j)) with (upd (jobs s1) j (w_pc (jobs s1 j) (PReturned (st (jobs s1 j))))). rewrite J1. reflexivity. }
  assert (EA : avail (done_return W s j) = avail s) by (change (avail (done_return W s j)) with (avail s1); exact A1).
  assert (EH : held r' = held (jobs s j)) by reflexivity.
  assert (HQ : forall c, Q c -> Q' c \/ own j c).
  { intros c [Hc| ->]; [left; unfold Q'; rewrite QS; apply in_or_app; auto|right; simpl; auto]. }
  assert (HS : pc r' = PSpawned -> Q' (CSpawn j)) by (simpl; discriminate).
  assert (HW : is_woken (pc r') = true -> Q' (CStep j)) by (simpl; discriminate).
  assert (OT : forall i t c, started (pc r') = true -> nth_error (deps W j) i = Some (DTok t c) ->
     nth_error (cur r') i = Some DWAIT -> (avail s t < c)%nat \/ Q' (CNotify j i)).
  { simpl. intros i t c _ Dp Cu. destruct (V_tok L j i) with (t := t) (c := c) as [X|[X|X]]; auto; [rewrite P; auto| |discriminate].
    right. unfold Q'. rewrite QS. apply in_or_app; auto. }
  assert (OJ : forall i k, started (pc r') = true -> nth_error (deps W j) i = Some (DJob k) ->
     nth_error (cur r') i = Some DWAIT -> (forall r, pc (jobs s k) <> PReturned r) \/ Q' (CCheck j i)).
  { simpl. intros i k _ Dp Cu. destruct (V_job L j i) with (k := k) as [X|[X|X]]; auto; [rewrite P; auto| |discriminate].
    right. unfold Q'. rewrite QS. apply in_or_app; auto. }
  assert (HR : forall r0, pc r' = PReturned r0 -> (exists r1, pc (jobs s j) = PReturned r1) \/
     (forall x i, started (pc (jobs s x)) = true -> nth_error (deps W x) i = Some (DJob j) ->
        nth_error (cur (jobs s x)) i = Some DWAIT -> Q' (CCheck x i))).
  { intros r0 _. right. intros x i Sx Dp Cu. unfold Q'. rewrite QS. apply in_or_app. right. unfold cs.
    apply in_map_iff. exists (x, i). split; auto.
    apply dependents_complete with (d := DJob j); auto.
    + apply inv_job_lt with (s := s); auto. destruct (pc (jobs s x)); simpl in Sx; congruence.
    + rewrite J1. auto.
    + simpl. apply Nat.eqb_refl. }
  assert (VW : (wst (done_return W s j) = WStarting -> Q' CWaitStart) /\ (wst (done_return W s j) = WWoken -> Q' CWakeExit) /\
               (wst (done_return W s j) = WBlocked -> unfinished (done_return W s j) <> 0)).
  { destruct (V_wait L) as (F1 & F2 & F3). unfold Q'. rewrite QS.
    change (wst (done_return W s j)) with (wst s1). change (unfinished (done_return W s j)) with (unfinished s1).
    unfold s1, notify_exit. simpl. destruct (wst s) eqn:EW; simpl; rewrite ?EW; (split; [|split]); intros X; try discriminate X.
    + destruct (F1 eq_refl) as [Y|Y]; [apply in_or_app; auto|discriminate].
    + apply in_or_app; left. apply in_or_app; right; simpl; auto.
    + destruct (F2 eq_refl) as [Y|Y]; [apply in_or_app; auto|discriminate]. }
  exact (@livq_update W s (done_return W s j) j r' Q Q' L I EJ EA EH HQ HS HW OT OJ HR VW WF).
Qed.

(* Locks.__exit__: the tokens come back and every dependent of a released token is notified *)
Lemma livq_release : forall W s j (Q : cb -> Prop), wf W = true -> LivQ W s Q -> Inv W s ->
  started (pc (jobs s j)) = true ->
  LivQ W (release_all W s j) (fun c => Q c \/ In c (release_notes W s (held (jobs s j)))).
Proof.
  intros W s j Q WF L I S. set (r := jobs s j) in *. set (hd := held r).
  assert (Jn : (j < njobs W)%nat).
  { apply inv_job_lt with (s := s); auto. fold r. destruct (pc r); simpl in S; congruence. }
  assert (EJ : jobs (release_all W s j) = upd (jobs s) j (w_held r [])) by reflexivity.
  assert (PCS : forall x, pc (jobs (release_all W s j) x) = pc (jobs s x) /\ cur (jobs (release_all W s j) x) = cur (jobs s x)).
  { intros x. rewrite EJ. unfold upd. destruct (Nat.eqb x j) eqn:E; auto. apply Nat.eqb_eq in E. subst. auto. }
  assert (EA : forall t, avail (release_all W s j) t = (avail s t + hcount hd t)%nat).
  { intros t. change (avail (release_all W s j)) with (release_avail (avail s) hd). apply release_avail_facts. }
  destruct L as [A B C D E (F1 & F2 & F3)]. constructor.
  - intros x P. rewrite (proj1 (PCS x)) in P. left; auto.
  - intros x P. rewrite (proj1 (PCS x)) in P. left; auto.
  - intros x i t c Sx Dp Cu. rewrite (proj1 (PCS x)) in Sx. rewrite (proj2 (PCS x)) in Cu.
    destruct (C x i t c Sx Dp Cu) as [X|X]; [|right; left; auto].
    destruct (in_dec Nat.eq_dec t (map fst hd)) as [IN|NIN].
    + right; right. unfold release_notes. apply in_flat_map.
      apply in_map_iff in IN. destruct IN as ([t' c'] & Et & IN). simpl in Et. subst t'.
      exists (t, c'). split; auto. simpl. apply in_map_iff. exists (x, i). split; auto.
      apply dependents_complete with (d := DTok t c); auto.
      * apply inv_job_lt with (s := s); auto. destruct (pc (jobs s x)); simpl in Sx; congruence.
      * simpl. apply Nat.eqb_refl.
    + left. rewrite EA, (hcount_zero hd t NIN). lia.
  - intros x i k Sx Dp Cu. rewrite (proj1 (PCS x)) in Sx. rewrite (proj2 (PCS x)) in Cu.
    destruct (D x i k Sx Dp Cu) as [X|X]; [left|right; left; auto].
    intros r0. rewrite (proj1 (PCS k)). apply X.
  - intros t. rewrite EA. pose proof (@hsum_upd_held W s (release_all W s j) t j (w_held r []) Jn (@updated_of_eq s (release_all W s j) j (w_held r []) EJ)) as H.
    simpl in H. fold r in H. fold hd in H. specialize (E t). lia.
  - split; [|split]; auto.
Qed.

Lemma livq_imp : forall W s (Q Q' : cb -> Prop), LivQ W s Q -> (forall c, Q c -> Q' c) -> LivQ W s Q'.
Proof. intros. eapply livq_mono; eauto. Qed.

Lemma liv_after_release : forall W s j, wf W = true -> LivQ W s (fun c => In c (queue s) \/ c = CStep j) -> Inv W s ->
  started (pc (jobs s j)) = true ->
  LivQ W (release_all W s j) (fun c => In c (queue (release_all W s j)) \/ c = CStep j).
Proof.
  intros W s j WF L I S. eapply livq_imp; [apply livq_release; eauto|].
  intros c [[X|X]|X]; auto; left; simpl; apply in_or_app; auto.
Qed.

Lemma liv_abort_return : forall W s j, wf W = true -> LivQ W s (fun c => In c (queue s) \/ c = CStep j) -> Inv W s ->
  pc (jobs s j) = PWoken ALockOutAbort -> Liv W (abort_return W all_fixed s j).
Proof.
  intros W s j WF L I P. unfold abort_return. simpl fx4.
  assert (S : started (pc (jobs s j)) = true) by (rewrite P; auto).
  pose proof (liv_after_release WF L I S) as L1.
  destruct (@inv_release W s j WF I S) as (I1 & _).
  set (s1 := release_all W s j) in *.
  assert (E1 : jobs s1 j = w_held (jobs s j) []) by (unfold s1; rewrite release_all_jobs; apply upd_same).
  set (r1 := jobs s1 j) in *.
  assert (P1 : pc r1 = PWoken ALockOutAbort) by (rewrite E1; exact P).
  assert (H1 : held r1 = []) by (rewrite E1; reflexivity).
  pose proof (I_loc I1 j) as LL. unfold jl in LL. fold r1 in LL.
  destruct (@abort_l_ok _ _ _ _ r1 LL P1 H1) as (_ & SH).
  set (r2 := if uns r1 =? 0 then fst (set_event_l (w_st r1 READY)) else w_st r1 WAITING) in *.
  assert (R2 : cur r2 = cur r1 /\ held r2 = held r1).
  { unfold r2. destruct (uns r1 =? 0); [|auto].
    destruct (set_event_l (w_st r1 READY)) as [x w] eqn:SE. apply set_event_l_spec in SE. simpl in *. intuition. }
  destruct R2 as (C2 & HH2).
  assert (OW : own j (CStep j)) by (simpl; auto).
  assert (S1 : started (pc (jobs s1 j)) = true) by (fold r1; rewrite P1; auto).
  assert (NR : forall r0, pc (jobs s1 j) <> PReturned r0) by (intros r0; fold r1; rewrite P1; discriminate).
  assert (NN : forall i, CStep j <> CNotify j i) by (intros; discriminate).
  assert (NC : forall i, CStep j <> CCheck j i) by (intros; discriminate).
  exact (@liv_commit_loop W s1 j r2 (abort_l true r1) (CStep j) WF L1 I1 OW S1 NR SH C2 HH2 NN NC).
Qed.

Lemma liv_proc_return : forall W s j, wf W = true -> LivQ W s (fun c => In c (queue s) \/ c = CStep j) -> Inv W s ->
  pc (jobs s j) = PWoken AProc -> Liv W (proc_return W s j).
Proof.
  intros W s j WF L I P. unfold proc_return.
  assert (S : started (pc (jobs s j)) = true) by (rewrite P; auto).
  pose proof (liv_after_release WF L I S) as L1.
  destruct (@inv_release W s j WF I S) as (I1 & _).
  set (s1 := release_all W s j) in *.
  assert (E1 : jobs s1 j = w_held (jobs s j) []) by (unfold s1; rewrite release_all_jobs; apply upd_same).
  set (r1 := jobs s1 j) in *.
  assert (P1 : pc r1 = PWoken AProc) by (rewrite E1; exact P).
  assert (H1 : held r1 = []) by (rewrite E1; reflexivity).
  pose proof (I_loc I1 j) as LL. unfold jl in LL. fold r1 in LL.
  destruct (@proc_l_ok _ _ _ _ r1 LL P1 H1) as (_ & SH & _).
  assert (OW : own j (CStep j)) by (simpl; auto).
  assert (S1 : started (pc (jobs s1 j)) = true) by (fold r1; rewrite P1; auto).
  assert (NR : forall r0, pc (jobs s1 j) <> PReturned r0) by (intros r0; fold r1; rewrite P1; discriminate).
  assert (NN : forall i, CStep j <> CNotify j i) by (intros; discriminate).
  assert (NC : forall i, CStep j <> CCheck j i) by (intros; discriminate).
  assert (C2 : cur (w_st r1 (code_state (j_code (spec W j)))) = cur (jobs s1 j)) by reflexivity.
  assert (HH2 : held (w_st r1 (code_state (j_code (spec W j)))) = held (jobs s1 j)) by reflexivity.
  exact (@liv_commit_loop W s1 j _ (proc_l (j_code (spec W j)) r1) (CStep j) WF L1 I1 OW S1 NR SH C2 HH2 NN NC).
Qed.

(* aio_start takes the token locks *)
Lemma livq_acquire : forall W s j (Q : cb -> Prop) av hd res, LivQ W s Q -> (j < njobs W)%nat ->
  acquire_l (avail s) (held (jobs s j)) (deps W j) 0 = (av, hd, res) ->
  LivQ W (s_avail (setjob s j (w_held (jobs s j) hd)) av) Q.
Proof.
  intros W s j Q av hd res L Jn AC. destruct (acquire_l_facts _ _ _ _ AC) as (F1 & F2).
  set (s1 := s_avail (setjob s j (w_held (jobs s j) hd)) av).
  assert (EJ : jobs s1 = upd (jobs s) j (w_held (jobs s j) hd)) by reflexivity.
  assert (PCS : forall x, pc (jobs s1 x) = pc (jobs s x) /\ cur (jobs s1 x) = cur (jobs s x)).
  { intros x. rewrite EJ. unfold upd. destruct (Nat.eqb x j) eqn:E; auto. apply Nat.eqb_eq in E. subst. auto. }
  destruct L as [A B C D E (G1 & G2 & G3)]. constructor.
  - intros x P. rewrite (proj1 (PCS x)) in P. auto.
  - intros x P. rewrite (proj1 (PCS x)) in P. auto.
  - intros x i t c Sx Dp Cu. rewrite (proj1 (PCS x)) in Sx. rewrite (proj2 (PCS x)) in Cu.
    destruct (C x i t c Sx Dp Cu) as [X|X]; auto. left. change (avail s1 t) with (av t). specialize (F2 t). lia.
  - intros x i k Sx Dp Cu. rewrite (proj1 (PCS x)) in Sx. rewrite (proj2 (PCS x)) in Cu.
    destruct (D x i k Sx Dp Cu) as [X|X]; auto. left. intros r0. rewrite (proj1 (PCS k)). apply X.
  - intros t. change (avail s1 t) with (av t).
    pose proof (@hsum_upd_held W s s1 t j (w_held (jobs s j) hd) Jn (@updated_of_eq s s1 j _ EJ)) as H.
    simpl in H. specialize (F1 t). specialize (E t). lia.
  - split; [|split]; auto.
Qed.

Lemma check_queue : forall W s j i c, In c (queue s) -> In c (queue (check W all_fixed s j i)).
Proof.
  intros W s j i c H. destruct (check_cases' W s j i) as [(_ & E)|(d & r' & w & _ & _ & E)]; rewrite E; auto.
  destruct w; simpl; auto. apply in_or_app; auto.
Qed.

Lemma check_queue_woken : forall W s j i,
  is_woken (pc (jobs (check W all_fixed s j i) j)) = true -> is_woken (pc (jobs s j)) = false ->
  In (CStep j) (queue (check W all_fixed s j i)).
Proof.
  intros W s j i H N. destruct (check_cases' W s j i) as [(_ & E)|(d & r' & w & _ & C & E)]; rewrite E in *; [congruence|].
  apply check_l_async in C. destruct C as (A & Wk & _).
  destruct w; simpl in *; [apply in_or_app; right; simpl; auto|].
  rewrite upd_same in H. exfalso.
  assert (X : pc r' = pc (jobs s j)).
  { destruct (ao_pc A) as [X|(_&X&_)]; auto. exfalso.
    assert (false = true); [|discriminate]. apply Wk. destruct (ao_pc A) as [Y|(Y&_)]; congruence. }
  rewrite X in H. congruence.
Qed.

Lemma liv_start_body : forall W s j, wf W = true -> LivQ W s (fun c => In c (queue s) \/ c = CStep j) -> Inv W s ->
  pc (jobs s j) = PWoken ALockIn -> Liv W (start_body W all_fixed s j).
Proof.
  intros W s j WF L I P. unfold start_body.
  assert (Jn : (j < njobs W)%nat) by (apply inv_job_lt with (s := s); auto; rewrite P; discriminate).
  destruct (acquire_l (avail s) (held (jobs s j)) (deps W j) 0) as [[av hd] [i|]] eqn:ACQ.
  - (* aborted start *)
    pose proof (livq_acquire L Jn ACQ) as L1.
    destruct (@inv_acquired W s j hd av WF I P) as (I1 & _).
    set (s1a := s_avail (setjob s j (w_held (jobs s j) hd)) av) in *.
    set (r' := w_pc (w_held (jobs s j) hd) (PExt ALockOutAbort)).
    set (s1 := s_avail (setjob s j r') av) in *.
    assert (J1 : jobs s1a j = w_held (jobs s j) hd) by (simpl; apply upd_same).
    assert (S1a : started (pc (jobs s1a j)) = true) by (rewrite J1; simpl; rewrite P; auto).
    assert (L1b : LivQ W s1 (fun c => In c (queue s1))).
    { set (Q := fun c => In c (queue s1a) \/ c = CStep j) in *.
      set (Q' := fun c => In c (queue s1)).
      assert (EJ : updated s1a s1 j r').
      { split; simpl; [intros x N; rewrite !upd_other; auto|apply upd_same]. }
      assert (EA : avail s1 = avail s1a) by reflexivity.
      assert (EH : held r' = held (jobs s1a j)) by (rewrite J1; reflexivity).
      assert (HQ : forall c, Q c -> Q' c \/ own j c) by (intros c [X| ->]; [left; exact X|right; simpl; auto]).
      assert (HS : pc r' = PSpawned -> Q' (CSpawn j)) by (simpl; discriminate).
      assert (HW : is_woken (pc r') = true -> Q' (CStep j)) by (simpl; discriminate).
      assert (OT : forall i0 t c, started (pc r') = true -> nth_error (deps W j) i0 = Some (DTok t c) ->
         nth_error (cur r') i0 = Some DWAIT -> (avail s1a t < c)%nat \/ Q' (CNotify j i0)).
      { intros i0 t c _ Dp Cu. assert (Cu1 : nth_error (cur (jobs s1a j)) i0 = Some DWAIT) by (rewrite J1; exact Cu).
        destruct (V_tok L1 j i0 S1a Dp Cu1) as [X|[X|X]]; auto. discriminate. }
      assert (OJ : forall i0 k, started (pc r') = true -> nth_error (deps W j) i0 = Some (DJob k) ->
         nth_error (cur r') i0 = Some DWAIT -> (forall r0, pc (jobs s1a k) <> PReturned r0) \/ Q' (CCheck j i0)).
      { intros i0 k _ Dp Cu. assert (Cu1 : nth_error (cur (jobs s1a j)) i0 = Some DWAIT) by (rewrite J1; exact Cu).
        destruct (V_job L1 j i0 S1a Dp Cu1) as [X|[X|X]]; auto. discriminate. }
      assert (HR : forall r0, pc r' = PReturned r0 -> (exists r1, pc (jobs s1a j) = PReturned r1) \/
         (forall x i1, started (pc (jobs s1a x)) = true -> nth_error (deps W x) i1 = Some (DJob j) ->
            nth_error (cur (jobs s1a x)) i1 = Some DWAIT -> Q' (CCheck x i1))) by (simpl; discriminate).
      assert (VW : (wst s1 = WStarting -> Q' CWaitStart) /\ (wst s1 = WWoken -> Q' CWakeExit) /\ (wst s1 = WBlocked -> unfinished s1 <> 0)).
      { destruct (V_wait L1) as (F1 & F2 & F3). split; [|split]; auto; intros X;
          [destruct (F1 X) as [Y|Y]|destruct (F2 X) as [Y|Y]]; auto; discriminate. }
      exact (@livq_update_pw0 W s1a s1 j r' Q Q' L1 EJ EA EH HQ HS HW OT OJ HR VW WF). }
    assert (S1 : started (pc (jobs s1 j)) = true) by (simpl; rewrite upd_same; reflexivity).
    unfold Liv.
    apply (@livq_check W s1 j i (fun c => In c (queue s1))); auto.
    + intros c X. left. apply check_queue. exact X.
    + apply check_queue_woken.
  - (* launch *)
    pose proof (livq_acquire L Jn ACQ) as L1.
    set (s1 := s_avail (setjob s j (w_held (jobs s j) hd)) av) in *.
    set (r := w_held (jobs s j) hd).
    set (r' := w_pc (w_st (w_launches r (S (launches r))) RUNNING) (PExt ALockOutRun)).
    assert (J1 : jobs s1 j = r) by (simpl; apply upd_same).
    set (s' := s_avail (setjob s j r') av).
    set (Q := fun c => In c (queue s1) \/ c = CStep j) in *.
    set (Q' := fun c => In c (queue s')).
    assert (PR : pc r = PWoken ALockIn) by exact P.
    assert (EJ : updated s1 s' j r').
    { split; simpl; [intros x N; rewrite !upd_other; auto|apply upd_same]. }
    assert (EA : avail s' = avail s1) by reflexivity.
    assert (EH : held r' = held (jobs s1 j)) by (rewrite J1; reflexivity).
    assert (HQ : forall c, Q c -> Q' c \/ own j c) by (intros c [X| ->]; [left; exact X|right; simpl; auto]).
    assert (HS : pc r' = PSpawned -> Q' (CSpawn j)) by (simpl; discriminate).
    assert (HW : is_woken (pc r') = true -> Q' (CStep j)) by (simpl; discriminate).
    assert (S1 : started (pc (jobs s1 j)) = true) by (rewrite J1, PR; auto).
    assert (OT : forall i t c, started (pc r') = true -> nth_error (deps W j) i = Some (DTok t c) ->
       nth_error (cur r') i = Some DWAIT -> (avail s1 t < c)%nat \/ Q' (CNotify j i)).
    { intros i0 t c _ Dp Cu. assert (Cu1 : nth_error (cur (jobs s1 j)) i0 = Some DWAIT) by (rewrite J1; exact Cu).
      destruct (V_tok L1 j i0 S1 Dp Cu1) as [X|[X|X]]; auto. discriminate. }
    assert (OJ : forall i k, started (pc r') = true -> nth_error (deps W j) i = Some (DJob k) ->
       nth_error (cur r') i = Some DWAIT -> (forall r0, pc (jobs s1 k) <> PReturned r0) \/ Q' (CCheck j i)).
    { intros i0 k _ Dp Cu. assert (Cu1 : nth_error (cur (jobs s1 j)) i0 = Some DWAIT) by (rewrite J1; exact Cu).
      destruct (V_job L1 j i0 S1 Dp Cu1) as [X|[X|X]]; auto. discriminate. }
    assert (HR : forall r0, pc r' = PReturned r0 -> (exists r1, pc (jobs s1 j) = PReturned r1) \/
       (forall x i, started (pc (jobs s1 x)) = true -> nth_error (deps W x) i = Some (DJob j) ->
          nth_error (cur (jobs s1 x)) i = Some DWAIT -> Q' (CCheck x i))) by (simpl; discriminate).
    assert (VW : (wst s' = WStarting -> Q' CWaitStart) /\ (wst s' = WWoken -> Q' CWakeExit) /\ (wst s' = WBlocked -> unfinished s' <> 0)).
    { destruct (V_wait L1) as (F1 & F2 & F3). split; [|split]; auto; intros X;
        [destruct (F1 X) as [Y|Y]|destruct (F2 X) as [Y|Y]]; auto; discriminate. }
    exact (@livq_update_pw0 W s1 s' j r' Q Q' L1 EJ EA EH HQ HS HW OT OJ HR VW WF).
Qed.

Lemma liv_adopt_return : forall W s j, wf W = true -> LivQ W s (fun c => In c (queue s) \/ c = CStep j) -> Inv W s ->
  pc (jobs s j) = PWoken AAdopt -> Liv W (adopt_return W s j).
Proof.
  intros W s j WF L I P. unfold adopt_return. set (r := jobs s j) in *.
  pose proof (I_loc I j) as LL. unfold jl in LL. fold r in LL.
  destruct (adopted W j) as [v|] eqn:AD.
  2:{ exfalso. apply (l_adpc LL); [rewrite P; reflexivity|reflexivity]. }
  assert (FV : finished v = true).
  { unfold adopted in AD. destruct (j_adopt (spec W j)); inversion AD. apply adopt_state_finished. }
  destruct (@adopt_l_ok _ _ _ v r LL P FV) as (_ & SH & _).
  assert (OW : own j (CStep j)) by (simpl; auto).
  assert (S1 : started (pc (jobs s j)) = true) by (fold r; rewrite P; auto).
  assert (NR : forall r0, pc (jobs s j) <> PReturned r0) by (intros r0; fold r; rewrite P; discriminate).
  assert (NN : forall i, CStep j <> CNotify j i) by (intros; discriminate).
  assert (NC : forall i, CStep j <> CCheck j i) by (intros; discriminate).
  assert (C2 : cur (w_st r v) = cur (jobs s j)) by reflexivity.
  assert (HH2 : held (w_st r v) = held (jobs s j)) by reflexivity.
  exact (@liv_commit_loop W s j _ (adopt_l v r) (CStep j) WF L I OW S1 NR SH C2 HH2 NN NC).
Qed.

Lemma liv_check_cb : forall W s j i x, wf W = true -> (x = CCheck j i \/ x = CNotify j i) ->
  LivQ W s (fun c => In c (queue s) \/ c = x) -> Inv W s -> started (pc (jobs s j)) = true ->
  Liv W (check W all_fixed s j i).
Proof.
  intros W s j i x WF HX L I S. unfold Liv.
  apply (@livq_check W s j i (fun c => In c (queue s) \/ c = x)); auto.
  - intros c [X|X]; [left; apply check_queue; exact X|right; destruct HX; subst; auto].
  - apply check_queue_woken.
Qed.

Lemma liv_wait_check : forall W s x, (x = CWaitStart \/ x = CWakeExit) ->
  LivQ W s (fun c => In c (queue s) \/ c = x) -> Liv W (wait_check s).
Proof.
  intros W s x HX [A B C D E (F1 & F2 & F3)].
  assert (K : forall c, In c (queue s) \/ c = x -> c <> CWaitStart -> c <> CWakeExit -> In c (queue (wait_check s))).
  { intros c [X|X] N1 N2; [unfold wait_check; destruct (unfinished s =? 0); exact X|destruct HX; congruence]. }
  assert (EJ : jobs (wait_check s) = jobs s) by (unfold wait_check; destruct (unfinished s =? 0); reflexivity).
  assert (EA : avail (wait_check s) = avail s) by (unfold wait_check; destruct (unfinished s =? 0); reflexivity).
  constructor; rewrite ?EJ, ?EA.
  - intros j P. apply K; auto; discriminate.
  - intros j P. apply K; auto; discriminate.
  - intros j i t c S Dp Cu. destruct (C j i t c S Dp Cu) as [X|X]; auto. right. apply K; auto; discriminate.
  - intros j i k S Dp Cu. destruct (D j i k S Dp Cu) as [X|X]; auto. right. apply K; auto; discriminate.
  - intros t. rewrite (@hsum_eq W s _ t EJ). apply E.
  - unfold wait_check. destruct (unfinished s =? 0) eqn:U; simpl.
    + split; [|split]; destruct (fdict s); discriminate.
    + split; [|split]; try discriminate. intros _. apply Z.eqb_neq; auto.
Qed.

Lemma liv_run_cb : forall W s x, wf W = true -> posreq W ->
  LivQ W s (fun c => In c (queue s) \/ c = x) -> Inv W s -> cb_ok s x ->
  Liv W (run_cb W all_fixed s x).
Proof.
  intros W s x WF PQ L I OK.
  assert (DROP : void W s x -> Liv W s).
  { intros V. unfold Liv. apply (@livq_drop W s x (fun c => In c (queue s) \/ c = x)); auto. }
  destruct x as [j|j|j i|j i| |]; simpl.
  - destruct (pc (jobs s j)) eqn:P; try (apply DROP; simpl; congruence). apply liv_spawn; auto.
  - unfold run_step. destruct (pc (jobs s j)) eqn:P; try (apply DROP; simpl; rewrite P; reflexivity).
    + apply liv_after_ready; auto.
    + destruct a.
      * apply liv_start_body; auto.
      * apply liv_abort_return; auto.
      * apply liv_lockoutrun; auto.
      * apply liv_proc_return; auto.
      * apply liv_done_return; auto.
      * apply liv_adopt_return; auto.
  - apply (@liv_check_cb W s j i (CCheck j i)); auto.
  - destruct (nth_error (deps W j) i) as [[k|t c]|] eqn:Dp.
    + apply DROP. simpl. intros t c X. congruence.
    + destruct (0 <? avail s t)%nat eqn:AV.
      * apply (@liv_check_cb W s j i (CNotify j i)); auto.
      * apply DROP. simpl. intros t0 c0 X _. rewrite Dp in X. inversion X; subst.
        apply Nat.ltb_ge in AV. assert (1 <= c0)%nat by (apply (PQ j t0 c0); eapply nth_error_In; eauto). lia.
    + apply DROP. simpl. intros t c X. congruence.
  - destruct (wst s) eqn:EW; try (apply DROP; simpl; congruence). apply (@liv_wait_check W s CWaitStart); auto.
  - destruct (wst s) eqn:EW; try (apply DROP; simpl; congruence). apply (@liv_wait_check W s CWakeExit); auto.
Qed.

Theorem liv_step : forall W s l s', wf W = true -> posreq W -> Inv W s -> Liv W s -> step W s l = Some s' -> Liv W s'.
Proof.
  intros W s l s' WF PQ I L H. unfold step in H. destruct l as [j|n|j|]; simpl in H.
  - destruct ((j <? njobs W)%nat && match pc (jobs s j) with PNot => true | _ => false end
              && forallb (dep_submitted s) (deps W j) && fits W j) eqn:E; [|discriminate].
    inversion H; subst s'. apply andb_true_iff in E. destruct E as (E & EFIT). apply andb_true_iff in E. destruct E as (E & E3). apply andb_true_iff in E. destruct E as (E1 & E2).
    apply liv_submit; auto. destruct (pc (jobs s j)); try discriminate; auto.
  - destruct (nth_error (queue s) n) as [c|] eqn:E; [|discriminate]. inversion H; subst s'.
    set (s0 := s_queue s (remove_nth n (queue s))).
    assert (L0 : LivQ W s0 (fun c0 => In c0 (queue s0) \/ c0 = c)).
    { apply (@livq_mono W s s0 (fun c0 => In c0 (queue s))); auto.
      intros c0 Hc. apply in_remove_nth_or with (x := c); auto. }
    destruct (@inv_dequeue W s n I) as (I0 & _).
    apply liv_run_cb; auto.
    pose proof (I_q I c (nth_error_In _ _ E)) as X. destruct c; simpl in *; auto.
  - destruct (pc (jobs s j)) eqn:P; try discriminate. inversion H; subst s'. apply liv_deliver; auto.
  - destruct (wst s) eqn:EW; try discriminate; inversion H; subst s'; apply liv_lwait; auto; rewrite EW; auto.
Qed.

Lemma liv_init : forall W, Liv W (init W).
Proof.
  intros W. constructor; simpl.
  - intros j H; discriminate.
  - intros j H; discriminate.
  - intros j i t c H; discriminate.
  - intros j i k H; discriminate.
  - intros t. unfold hsum. assert (X : forall l, hsum_l (init W) t l = 0%nat) by (induction l; simpl; auto). rewrite X. lia.
  - split; [|split]; discriminate.
Qed.

Theorem liv_reachable : forall W s, wf W = true -> posreq W -> reachable W s -> Liv W s /\ Inv W s.
Proof.
  intros W s WF PQ (ls & H). unfold steps in H.
  assert (G : forall ls s0 s1, Inv W s0 -> Liv W s0 -> steps_gen W all_fixed s0 ls = Some s1 -> Liv W s1 /\ Inv W s1).
  { induction ls0 as [|l r IH]; simpl; intros s0 s1 I0 L0 H0.
    - inversion H0; subst; auto.
    - destruct (step_gen W all_fixed s0 l) as [s2|] eqn:E; [|discriminate].
      apply (IH s2 s1); auto; [eapply inv_step; eauto|eapply liv_step; eauto]. }
  apply (G ls (init W) s); auto; [apply inv_init|apply liv_init].
Qed.

(* ------------------------------------------------------------------ deadlock freedom at quiescence *)
Lemma count_nok_pos : forall l, (count_nok l > 0)%nat -> exists i d, nth_error l i = Some d /\ d <> DOK.
Proof.
  induction l as [|a l IH]; simpl; intros H; [lia|].
  destruct a; simpl in *.
  - exists 0%nat, DWAIT. split; auto. discriminate.
  - destruct (IH H) as (i & d & X & Y). exists (S i), d. auto.
  - exists 0%nat, DFAIL. split; auto. discriminate.
Qed.

Lemma hsum_l_zero : forall s t l, (forall j, held (jobs s j) = []) -> hsum_l s t l = 0%nat.
Proof. intros s t l H. induction l; simpl; auto. rewrite H. simpl. auto. Qed.

Lemma has_pending_false : forall W s j a, has_pending s W = false -> (j < njobs W)%nat -> pc (jobs s j) <> PExt a.
Proof.
  intros W s j a H L P. unfold has_pending in H.
  assert (X : existsb (fun j0 => match pc (jobs s j0) with PExt _ => true | _ => false end) (seq 0 (njobs W)) = true).
  { apply existsb_exists. exists j. split; [apply in_seq; lia|rewrite P; auto]. }
  congruence.
Qed.

(* ------------------------------------------------------------------ frames on the coroutine positions *)
Unset Implicit Arguments.
(* pcs after a check: only the target may move, from PAwaitReady to PWokenReady, with its wake-up queued *)
Lemma check_pcs : forall W s j i,
  (forall x, x <> j -> pc (jobs (check W all_fixed s j i) x) = pc (jobs s x)) /\
  ((pc (jobs (check W all_fixed s j i) j) = pc (jobs s j) /\ length (queue (check W all_fixed s j i)) = length (queue s)) \/
   (pc (jobs s j) = PAwaitReady /\ pc (jobs (check W all_fixed s j i) j) = PWokenReady)).
Proof.
  intros W s j i. destruct (check_cases' W s j i) as [(_ & E)|(d & r' & w & _ & C & E)]; rewrite E; [auto|].
  apply check_l_async in C. destruct C as (A & Wk & _).
  assert (X : jobs (if w then enqueue (setjob s j r') (CStep j) else setjob s j r') = upd (jobs s) j r') by (destruct w; reflexivity).
  rewrite X. split; [intros x N; rewrite upd_other; auto|]. rewrite upd_same.
  destruct (ao_pc A) as [Y|(Y1 & Y2 & _)]; [left|right; auto].
  split; auto. destruct w; auto. exfalso. apply (proj1 Wk eq_refl). exact Y.
Qed.

Lemma commit_pcs : forall s j p x, pc (jobs (commit s j p) x) = if Nat.eqb x j then pc (fst p) else pc (jobs s x).
Proof. intros. unfold commit. destruct (snd p); simpl; unfold upd; destruct (Nat.eqb x j); auto. Qed.

Lemma release_pcs : forall W s j x, pc (jobs (release_all W s j) x) = pc (jobs s x).
Proof. intros. rewrite release_all_jobs. unfold upd. destruct (Nat.eqb x j) eqn:E; auto. apply Nat.eqb_eq in E. subst; auto. Qed.

(* a job that has not been submitted is left alone by every callback *)
Lemma run_cb_pnot : forall W s c x, pc (jobs s x) = PNot -> pc (jobs (run_cb W all_fixed s c) x) = PNot.
Proof.
  intros W s c x PN.
  assert (CHK : forall s0 j i, pc (jobs s0 x) = PNot -> pc (jobs (check W all_fixed s0 j i) x) = PNot).
  { intros s0 j i P0. destruct (check_pcs W s0 j i) as (A & [(B1 & _)|(B1 & _)]).
    - destruct (Nat.eq_dec x j) as [->|N]; [rewrite B1; auto|rewrite A; auto].
    - destruct (Nat.eq_dec x j) as [->|N]; [rewrite P0 in B1; discriminate|rewrite A; auto]. }
  destruct c as [j|j|j i|j i| |]; simpl.
  - destruct (pc (jobs s j)) eqn:P; auto. unfold run_spawn. rewrite commit_pcs.
    destruct (Nat.eqb x j) eqn:E; auto. apply Nat.eqb_eq in E; subst. rewrite PN in P; discriminate.
  - unfold run_step. destruct (Nat.eq_dec x j) as [->|N]; [rewrite PN; exact PN|].
    assert (E : Nat.eqb x j = false) by (apply Nat.eqb_neq; auto).
    destruct (pc (jobs s j)) eqn:P; auto.
    + rewrite commit_pcs, E. auto.
    + destruct a.
      * unfold start_body. destruct (acquire_l (avail s) (held (jobs s j)) (deps W j) 0) as [[av hd] [i|]]; simpl.
        -- apply CHK. simpl. rewrite upd_other; auto.
        -- rewrite upd_other; auto.
      * unfold abort_return. rewrite commit_pcs, E, release_pcs. auto.
      * simpl. rewrite upd_other; auto.
      * unfold proc_return. rewrite commit_pcs, E, release_pcs. auto.
      * unfold done_return. simpl. rewrite upd_other; auto. unfold notify_exit. destruct (wst _); exact PN.
      * unfold adopt_return. destruct (adopted W j); auto. rewrite commit_pcs, E. auto.
  - apply CHK; auto.
  - destruct (nth_error (deps W j) i) as [[k|t c]|]; auto. destruct (0 <? avail s t)%nat; auto.
  - destruct (wst s); auto; unfold wait_check; destruct (unfinished s =? 0); exact PN.
  - destruct (wst s); auto; unfold wait_check; destruct (unfinished s =? 0); exact PN.
Qed.

Lemma step_pnot : forall W s l s' x, step W s l = Some s' -> pc (jobs s x) = PNot ->
  pc (jobs s' x) = PNot \/ (l = LSubmit x /\ fits W x = true).
Proof.
  intros W s l s' j H PN. unfold step in H. destruct l as [j0|n|j0|]; simpl in H.
  - destruct ((j0 <? njobs W)%nat && match pc (jobs s j0) with PNot => true | _ => false end
            && forallb (dep_submitted s) (deps W j0) && fits W j0) eqn:G; [|discriminate].
    inversion H; subst s'. destruct (Nat.eq_dec j j0) as [->|NE].
    + right. apply andb_true_iff in G. split; [reflexivity|exact (proj2 G)].
    + left. rewrite <- PN. unfold submit.
      destruct (reg s (j_ident (spec W j0))) as [k|]; [destruct (st (jobs s k))|]; simpl; rewrite ?upd_other; auto.
  - destruct (nth_error (queue s) n) as [c|]; [|discriminate]. inversion H; subst s'.
    left. apply run_cb_pnot. exact PN.
  - destruct (pc (jobs s j0)) eqn:P; try discriminate. inversion H; subst s'. left.
    simpl. destruct (Nat.eq_dec j j0) as [->|NE]; [rewrite PN in P; discriminate|rewrite upd_other; auto].
  - left. destruct (wst s); try discriminate; inversion H; subst s'; exact PN.
Qed.

(* a job that has been submitted fits: Scheduler.submit refuses the others (a963860) *)
Lemma submitted_fits : forall W s j, reachable W s -> pc (jobs s j) <> PNot -> fits W j = true.
Proof.
  intros W s j (ls & H). unfold steps in H.
  assert (G : forall ls s0, steps_gen W all_fixed s0 ls = Some s -> (pc (jobs s0 j) <> PNot -> fits W j = true) ->
              pc (jobs s j) <> PNot -> fits W j = true).
  { clear H ls. induction ls as [|l r IH]; simpl; intros s0 H A N.
    - inversion H; subst. auto.
    - destruct (step_gen W all_fixed s0 l) as [s1|] eqn:S; [|discriminate].
      apply (IH s1 H); auto. intros N1.
      destruct (pc (jobs s0 j)) eqn:P; try (apply A; discriminate).
      destruct (step_pnot W s0 l s1 j S P) as [X|(_ & X)]; [contradiction|exact X]. }
  apply (G ls (init W) H). intros N. exfalso. apply N. reflexivity.
Qed.

Lemma sumreq_ge : forall ds t c, In (DTok t c) ds -> (c <= sumreq ds t)%nat.
Proof.
  induction ds as [|d r IH]; simpl; intros t c H; [contradiction|].
  destruct H as [->|H]; [rewrite Nat.eqb_refl; lia|].
  specialize (IH t c H). destruct d; [exact IH|lia].
Qed.

(* ... and a job that does not fit is refused: `raise ValueError` in Scheduler.submit *)
Lemma oversubscribed_refused : forall W s j, fits W j = false -> step W s (LSubmit j) = None.
Proof. intros W s j F. unfold step. simpl. rewrite F. rewrite andb_false_r. reflexivity. Qed.
Set Implicit Arguments.

Lemma no_hang_core : forall W s, wf W = true -> posreq W -> Liv W s -> Inv W s ->
  (forall j t c, spawned (pc (jobs s j)) = true -> In (DTok t c) (deps W j) -> (c <= total W t)%nat) ->
  queue s = [] -> has_pending s W = false ->
  (forall j, spawned (pc (jobs s j)) = true -> exists r, pc (jobs s j) = PReturned r) /\
  (wst s = WNone \/ wst s = WReturned \/ wst s = WRaised).
Proof.
  intros W s WF PQ L I CAP QE HP. unfold Liv in L. rewrite QE in L.
  (* 1. only suspended-on-event or returned coroutines remain *)
  assert (PCS : forall j, spawned (pc (jobs s j)) = true ->
            pc (jobs s j) = PAwaitReady \/ exists r, pc (jobs s j) = PReturned r).
  { intros j S. destruct (pc (jobs s j)) eqn:P; simpl in S; try discriminate; eauto.
    - exfalso. apply (V_spawn L j P).
    - exfalso. apply (V_step L j). rewrite P. auto.
    - exfalso. apply (@has_pending_false W s j a HP); auto.
      apply inv_job_lt with (s := s); auto. rewrite P. discriminate.
    - exfalso. apply (V_step L j). rewrite P. auto. }
  assert (NOSP : forall j, pc (jobs s j) = PNot \/ (exists k, pc (jobs s j) = PDup k) \/ spawned (pc (jobs s j)) = true).
  { intros j. destruct (pc (jobs s j)); simpl; eauto. }
  (* 2. nobody holds a token *)
  assert (HELD : forall j, held (jobs s j) = []).
  { intros j. destruct (held (jobs s j)) eqn:E; auto. exfalso.
    assert (X : held (jobs s j) <> []) by congruence.
    destruct (NOSP j) as [P|[(k & P)|S]].
    - destruct (l_un (I_loc I j)) as (_ & H & _); [rewrite P; auto|congruence].
    - destruct (l_un (I_loc I j)) as (_ & H & _); [rewrite P; auto|congruence].
    - destruct (l_held (I_loc I j) X) as [Y|[Y|Y]]; destruct (PCS j S) as [Z|(r & Z)]; rewrite Z in Y; discriminate. }
  assert (AV : forall t, avail s t = total W t).
  { intros t. pose proof (V_cons L t) as C. unfold hsum in C. rewrite hsum_l_zero in C; auto. lia. }
  (* 3. nobody sleeps *)
  assert (RET : forall n j, (j < n)%nat -> spawned (pc (jobs s j)) = true -> exists r, pc (jobs s j) = PReturned r).
  { induction n as [|n IH]; intros j Lt S; [lia|].
    destruct (PCS j S) as [P|X]; auto. exfalso.
    pose proof (I_loc I j) as LJ. unfold jl in LJ.
    destruct (l_EV LJ P) as (_ & SW & UN).
    assert (ST : started (pc (jobs s j)) = true) by (rewrite P; auto).
    destruct (l_CI LJ ST) as (Len & CU).
    assert (CP : (count_nok (cur (jobs s j)) > 0)%nat) by (clear - UN CU; lia).
    destruct (count_nok_pos _ CP) as (i & d & Hi & ND).
    assert (DP : exists dd, nth_error (deps W j) i = Some dd).
    { assert (i < length (deps W j))%nat by (rewrite <- Len; apply nth_error_Some; congruence).
      destruct (nth_error (deps W j) i) eqn:X; eauto. apply nth_error_None in X. lia. }
    destruct DP as (dd & DP).
    destruct d; [|congruence|].
    - destruct dd as [k|t c].
      + destruct (V_job L j i ST DP Hi) as [X|[]].
        assert (IN : In (DJob k) (deps W j)) by (eapply nth_error_In; eauto).
        assert (SK : spawned (pc (jobs s k)) = true).
        { apply (I_sub I j k); auto; rewrite P; auto. }
        pose proof (@wf_lt W j k WF IN) as LK.
        destruct (IH k) as (r & Y); auto; [lia|]. apply (X r Y).
      + destruct (V_tok L j i ST DP Hi) as [X|[]]. rewrite AV in X.
        assert (IN : In (DTok t c) (deps W j)) by (eapply nth_error_In; eauto).
        pose proof (CAP j t c S IN) as Y. lia.
    - destruct (l_F LJ) as [F|F]; [eauto|rewrite SW in F; discriminate|rewrite P in F; discriminate]. }
  assert (ALL : forall j, spawned (pc (jobs s j)) = true -> exists r, pc (jobs s j) = PReturned r).
  { intros j Sj. apply (RET (Datatypes.S j) j); auto. }
  split; auto.
  (* 4. a pending wait() has completed *)
  destruct (V_wait L) as (F1 & F2 & F3).
  destruct (wst s) eqn:EW; auto.
  - exfalso. apply (F1 eq_refl).
  - exfalso. apply (F3 eq_refl).
    pose proof (I_cnt I) as C. rewrite C.
    assert (Z0 : filter (cntf s) (seq 0 (njobs W)) = []).
    { destruct (filter (cntf s) (seq 0 (njobs W))) as [|x l] eqn:E; auto. exfalso.
      assert (X : In x (filter (cntf s) (seq 0 (njobs W)))) by (rewrite E; left; auto).
      apply filter_In in X. destruct X as (_ & X). unfold cntf in X.
      destruct (NOSP x) as [P|[(k & P)|SX]]; try (rewrite P in X; discriminate).
      destruct (ALL x SX) as (r & P). rewrite P in X. discriminate. }
    rewrite Z0. reflexivity.
  - exfalso. apply (F2 eq_refl).
Qed.

Theorem no_hang : forall W s, wf W = true -> posreq W -> reachable W s ->
  queue s = [] -> has_pending s W = false ->
  (forall j, spawned (pc (jobs s j)) = true -> exists r, pc (jobs s j) = PReturned r) /\
  (wst s = WNone \/ wst s = WReturned \/ wst s = WRaised).
Proof.
  intros W s WF PQ R. destruct (liv_reachable WF PQ R) as (L & I). apply no_hang_core; auto.
  intros j t c S IN.
  assert (F : fits W j = true).
  { apply submitted_fits with (s := s); auto. intros X. rewrite X in S. discriminate. }
  unfold fits in F. rewrite forallb_forall in F. specialize (F _ IN). simpl in F. apply Nat.leb_le in F.
  pose proof (sumreq_ge (deps W j) t c IN). lia.
Qed.


(* the hypotheses of no_hang are satisfiable: the run of W_fail to its end *)
Lemma posreq_W_fail : posreq W_fail.
Proof.
  intros j t c H. do 4 (destruct j as [|j]; [simpl in H; repeat (destruct H as [H|H]; [inversion H; subst; lia|]); contradiction|]).
  unfold deps, spec in H. simpl in H. destruct j; simpl in H; contradiction.
Qed.

Example ex_quiescent_end :
  let s := final W_fail all_fixed (L_fail ++ L_fail_end) in
  wf W_fail = true /\ posreq W_fail /\ reachable W_fail s /\ queue s = [] /\ has_pending s W_fail = false /\
  wst s = WRaised /\ pc (jobs s 3) = PReturned DONE.
Proof.
  cbv zeta. split; [reflexivity|]. split; [exact posreq_W_fail|].
  split; [apply reachable_final; vm_compute; reflexivity|].
  repeat split; vm_compute; reflexivity.
Qed.

(* a workload with processes left running by an earlier scheduler: one whose exit code cannot be
   retrieved and that wrote no marker (ERROR), one that wrote its marker (DONE), and a dependent *)
Definition W_adopt : workload :=
  {| w_jobs := [ {| j_deps := []; j_code := 0; j_marker := false; j_ident := 0; j_adopt := Some (None, false) |};
                 {| j_deps := [DTok 0 1]; j_code := 1; j_marker := false; j_ident := 1; j_adopt := Some (None, true) |};
                 {| j_deps := [DJob 1; DTok 0 1]; j_code := 0; j_marker := false; j_ident := 2; j_adopt := None |} ];
     w_tokens := [1%nat] |}.
Definition L_adopt := expand W_adopt all_fixed (init W_adopt)
  [XSubmit 0; XSubmit 1; XSubmit 2; XDeliver 1; XDeliver 0; XDeliver 1; XDeliver 0;
   XDeliver 2; XDeliver 2; XDeliver 2; XDeliver 2; XWait]%nat.
Example ex_adopted :
  let s := final W_adopt all_fixed L_adopt in
  wf W_adopt = true /\ reachable W_adopt s /\ queue s = [] /\ has_pending s W_adopt = false /\
  pc (jobs s 0) = PReturned ERROR /\ launches (jobs s 0) = 0%nat /\
  pc (jobs s 1) = PReturned DONE /\ launches (jobs s 1) = 0%nat /\
  pc (jobs s 2) = PReturned DONE /\ launches (jobs s 2) = 1%nat /\ wst s = WRaised.
Proof.
  cbv zeta. split; [reflexivity|]. split; [apply reachable_final; vm_compute; reflexivity|].
  repeat split; vm_compute; reflexivity.
Qed.

(* ------------------------------------------------------------------ containment stated on the workload alone (C07)
   (statement and proof structure from the independent audit, notes/AUDIT_A.md finding 9; extended to jobs whose
   process was left running by an earlier scheduler) *)
Unset Implicit Arguments.

(* okjob W j : j ends DONE  - decided by an earlier run (the process it left running ends well, or, no
               such process, the marker pre-exists), or its exit code is 0 and every job it depends
               on ends DONE;
   kojob W j : j ends ERROR - the process left by an earlier run ends badly, or, not decided by an
               earlier run, its exit code is not 0 or some job it depends on ends ERROR.          *)
Inductive okjob (W : workload) : nat -> Prop :=
  | ok_adopted : forall j, adopted W j = Some DONE -> okjob W j
  | ok_marker : forall j, adopted W j = None -> j_marker (spec W j) = true -> okjob W j
  | ok_run : forall j, adopted W j = None -> j_code (spec W j) = 0 ->
               (forall k, In (DJob k) (deps W j) -> okjob W k) -> okjob W j.
Inductive kojob (W : workload) : nat -> Prop :=
  | ko_adopted : forall j, adopted W j = Some ERROR -> kojob W j
  | ko_own : forall j, adopted W j = None -> j_marker (spec W j) = false -> j_code (spec W j) <> 0 -> kojob W j
  | ko_dep : forall j k, adopted W j = None -> j_marker (spec W j) = false -> In (DJob k) (deps W j) ->
               kojob W k -> kojob W j.
(* cancelled: not decided by an earlier run and some dependency ends ERROR *)
Definition cancelled (W : workload) (j : nat) : Prop :=
  adopted W j = None /\ j_marker (spec W j) = false /\ exists k, In (DJob k) (deps W j) /\ kojob W k.

Section Closed.
  Variables (W : workload) (s : state).
  Hypothesis WF : wf W = true.
  Hypothesis PQ : posreq W.
  Hypothesis R : reachable W s.
  Hypothesis Q : queue s = [].
  Hypothesis HP : has_pending s W = false.

  Let NH := proj1 (no_hang WF PQ R Q HP).
  Let I := reachable_inv W s WF R.

  Lemma ok_done : forall j, okjob W j -> spawned (pc (jobs s j)) = true -> pc (jobs s j) = PReturned DONE.
  Proof.
    induction 1 as [j A|j A M|j A C D IH]; intros S; destruct (NH j S) as (r & P);
      pose proof (final_truthful W s j r WF R P) as FT; rewrite A in FT.
    - destruct FT as (_ & E & _). rewrite E in P. exact P.
    - destruct FT as (_ & (_ & B) & _). rewrite (B (or_introl M)) in P. exact P.
    - destruct FT as (_ & (_ & B) & _). destruct (j_marker (spec W j)) eqn:M.
      + rewrite (B (or_introl eq_refl)) in P. exact P.
      + assert (DD : forall k, In (DJob k) (deps W j) -> st (jobs s k) = DONE).
        { intros k Hk. pose proof (IH k Hk (I_sub I j k S Hk)) as Pk.
          exact (proj1 (final_truthful W s k DONE WF R Pk)). }
        destruct (independent_unaffected W s j r WF R P M A DD) as (_ & E).
        rewrite E in P. unfold code_state in P. rewrite C in P. exact P.
  Qed.

  Lemma ko_error : forall j, kojob W j -> spawned (pc (jobs s j)) = true -> pc (jobs s j) = PReturned ERROR.
  Proof.
    induction 1 as [j A|j A M C|j k A M D K IH]; intros S; destruct (NH j S) as (r & P).
    - pose proof (final_truthful W s j r WF R P) as FT; rewrite A in FT. destruct FT as (_ & E & _).
      rewrite E in P. exact P.
    - pose proof (final_truthful W s j r WF R P) as FT; rewrite A in FT; destruct FT as (_ & (B & _) & N).
      assert (X : r <> DONE).
      { intros E. destruct (B E) as [Y|(_ & Y)]; [rewrite M in Y; discriminate|contradiction]. }
      rewrite (N X) in P. exact P.
    - pose proof (IH (I_sub I j k S D)) as Pk.
      pose proof (returned_error_fanc W s j k WF R D Pk) as F.
      destruct (failed_ancestor_not_launched W s j r WF R F M A) as (_ & X).
      destruct (X P) as (E & _). rewrite E in P. exact P.
  Qed.

  (* the results of the run, at its end, are a function of the workload alone: whatever the
     schedule, the submission order, the moment at which failures arrive *)
  Theorem results_closed : forall j, spawned (pc (jobs s j)) = true ->
    (okjob W j -> pc (jobs s j) = PReturned DONE) /\
    (kojob W j -> pc (jobs s j) = PReturned ERROR) /\
    (* not affected: every dependency succeeds => launched exactly once, result = own exit code *)
    (adopted W j = None -> j_marker (spec W j) = false -> (forall k, In (DJob k) (deps W j) -> okjob W k) ->
       launches (jobs s j) = 1%nat /\ pc (jobs s j) = PReturned (code_state (j_code (spec W j)))) /\
    (* cancelled: never launched, ERROR, failure_status = DEPENDENCY *)
    (cancelled W j -> launches (jobs s j) = 0%nat /\ pc (jobs s j) = PReturned ERROR /\ fdep (jobs s j) = true).
  Proof.
    intros j S. split; [intros H; apply ok_done; auto|]. split; [intros H; apply ko_error; auto|]. split.
    - intros A M D. destruct (NH j S) as (r & P).
      assert (DD : forall k, In (DJob k) (deps W j) -> st (jobs s k) = DONE).
      { intros k Hk. pose proof (ok_done k (D k Hk) (I_sub I j k S Hk)) as Pk.
        exact (proj1 (final_truthful W s k DONE WF R Pk)). }
      destruct (independent_unaffected W s j r WF R P M A DD) as (L & E). split; [exact L|]. rewrite <- E. exact P.
    - intros (A & M & k & D & K).
      pose proof (ko_error k K (I_sub I j k S D)) as Pk.
      pose proof (returned_error_fanc W s j k WF R D Pk) as F.
      destruct (NH j S) as (r & P).
      destruct (failed_ancestor_not_launched W s j r WF R F M A) as (L & X).
      destruct (X P) as (E & FD). rewrite E in P. auto.
  Qed.

  (* every job of a well-formed workload is classified: the two cases are exhaustive *)
  Theorem every_job_classified : forall j, okjob W j \/ kojob W j.
  Proof.
    intros j. induction j as [j IH] using lt_wf_ind.
    destruct (adopted W j) as [v|] eqn:A.
    { assert (F : finished v = true).
      { unfold adopted in A. destruct (j_adopt (spec W j)); inversion A. apply adopt_state_finished. }
      destruct v; simpl in F; try discriminate; [left; apply ok_adopted; auto|right; apply ko_adopted; auto]. }
    destruct (j_marker (spec W j)) eqn:M; [left; apply ok_marker; auto|].
    assert (X : forall l, (forall k, In (DJob k) l -> (k < j)%nat) ->
                (forall k, In (DJob k) l -> okjob W k) \/ (exists k, In (DJob k) l /\ kojob W k)).
    { induction l as [|d l IHl]; intros Hl; [left; intros k []|].
      destruct IHl as [Al|(k & Hk & Kk)]; [intros k Hk; apply Hl; right; exact Hk| |right; exists k; split; [right|]; auto].
      destruct d as [k|t c].
      - destruct (IH k (Hl k (or_introl eq_refl))) as [O|K].
        + left. intros k' [E|Hk']; [inversion E; subst; exact O|apply Al; exact Hk'].
        + right. exists k. split; [left; reflexivity|exact K].
      - left. intros k' [E|Hk']; [discriminate|apply Al; exact Hk']. }
    destruct (X (deps W j) (fun k Hk => wf_lt W j k WF Hk)) as [O|(k & Hk & K)].
    - destruct (Z.eq_dec (j_code (spec W j)) 0) as [C|C]; [left; apply ok_run; auto|right; apply ko_own; auto].
    - right. apply ko_dep with (k := k); auto.
  Qed.
End Closed.

(* instance: the end of the run of W_adopt (two adopted processes, a dependent behind one of them) *)
Example ex_closed_adopt :
  let s := final W_adopt all_fixed L_adopt in
  pc (jobs s 0) = PReturned ERROR /\ pc (jobs s 1) = PReturned DONE /\
  launches (jobs s 2) = 1%nat /\ pc (jobs s 2) = PReturned DONE.
Proof.
  cbv zeta. destruct ex_adopted as (WF & R & Q & HP & _).
  assert (PQ : posreq W_adopt).
  { intros j t c H. do 3 (destruct j as [|j]; [simpl in H; repeat (destruct H as [H|H]; [inversion H; subst; lia|]); contradiction|]).
    unfold deps, spec in H. simpl in H. destruct j; simpl in H; contradiction. }
  set (s := final W_adopt all_fixed L_adopt) in *.
  assert (S0 : spawned (pc (jobs s 0)) = true) by (vm_compute; reflexivity).
  assert (S1 : spawned (pc (jobs s 1)) = true) by (vm_compute; reflexivity).
  assert (S2 : spawned (pc (jobs s 2)) = true) by (vm_compute; reflexivity).
  destruct (results_closed W_adopt s WF PQ R Q HP 0 S0) as (_ & K0 & _).
  destruct (results_closed W_adopt s WF PQ R Q HP 1 S1) as (O1 & _).
  destruct (results_closed W_adopt s WF PQ R Q HP 2 S2) as (_ & _ & U2 & _).
  split; [apply K0; apply ko_adopted; reflexivity|]. split; [apply O1; apply ok_adopted; reflexivity|].
  apply U2; [reflexivity|reflexivity|].
  intros k D. vm_compute in D. destruct D as [D|[D|[]]]; inversion D; subst. apply ok_adopted. reflexivity.
Qed.

(* ------------------------------------------------------------------ start attempts (C06: livelock, finding A1 of the audit) *)
(* the repaired scheduler minus the refusal of over-subscribed jobs at submission (a963860) *)
Definition f5off := {| fx2 := true; fx3 := true; fx4 := true; fx5 := false; fx6 := true; fx7 := true |}.
Definition step5 (W : workload) := step_gen W f5off.
Inductive reach5 (W : workload) : state -> Prop :=
  | r5_init : reach5 W (init W)
  | r5_step : forall s l s', reach5 W s -> step5 W s l = Some s' -> reach5 W s'.

Lemma step5_cases : forall W s l s', step5 W s l = Some s' ->
  step W s l = Some s' \/
  (exists j, l = LSubmit j /\ (j < njobs W)%nat /\ pc (jobs s j) = PNot /\
             forallb (dep_submitted s) (deps W j) = true /\ s' = submit W all_fixed s j).
Proof.
  intros W s l s' H. unfold step5, step in *. destruct l as [j|n|j|]; simpl in *; auto.
  destruct ((j <? njobs W)%nat && match pc (jobs s j) with PNot => true | _ => false end
            && forallb (dep_submitted s) (deps W j)) eqn:E; simpl in H; [|discriminate].
  inversion H; subst s'. right. exists j.
  apply andb_true_iff in E. destruct E as (E & E3). apply andb_true_iff in E. destruct E as (E1 & E2).
  split; auto. split; [apply Nat.ltb_lt; auto|]. split; [destruct (pc (jobs s j)); try discriminate; auto|]. split; auto.
Qed.

Lemma reach5_inv : forall W s, wf W = true -> posreq W -> reach5 W s -> Inv W s /\ Liv W s.
Proof.
  intros W s WF PQ R. induction R as [|s l s' R (I & L) H].
  - split; [apply inv_init|apply liv_init].
  - destruct (step5_cases W s l s' H) as [S|(j & -> & Jn & P & FS & ->)].
    + split; [eapply inv_step; eauto|eapply liv_step; eauto].
    + split; [apply (@inv_submit W s j WF I Jn P FS)|apply liv_submit; auto].
Qed.

Lemma reachable_reach5 : forall W s, reachable W s -> reach5 W s.
Proof.
  intros W s (ls & H). unfold steps in H. revert H. generalize (r5_init W). generalize (init W).
  induction ls as [|l r IH]; simpl; intros s0 R0 H.
  - inversion H; subst; auto.
  - destruct (step_gen W all_fixed s0 l) as [s1|] eqn:E; [|discriminate].
    apply (IH s1); auto. apply r5_step with (s := s0) (l := l); auto.
    unfold step5. destruct l as [j|n|j|]; simpl in *; auto.
    destruct ((j <? njobs W)%nat && match pc (jobs s0 j) with PNot => true | _ => false end
              && forallb (dep_submitted s0) (deps W j)); simpl in *; auto.
    destruct (fits W j); simpl in *; auto; discriminate.
Qed.

Lemma acquire_l_success : forall ds av hd i av' hd', acquire_l av hd ds i = (av', hd', None) ->
  forall t, (sumreq ds t <= av t)%nat.
Proof.
  induction ds as [|d r IH]; simpl; intros av hd i av' hd' H t; [lia|].
  destruct d as [k|t0 c]; [eapply IH; eauto|].
  destruct (av t0 <? c)%nat eqn:E; [discriminate|]. apply Nat.ltb_ge in E.
  specialize (IH _ _ _ _ _ H t). unfold upd in IH. destruct (Nat.eqb t0 t) eqn:E1.
  - apply Nat.eqb_eq in E1. subst t0. rewrite Nat.eqb_refl in IH. lia.
  - rewrite Nat.eqb_sym, E1 in IH. lia.
Qed.

Lemma check_launches : forall W s j i k, launches (jobs (check W all_fixed s j i) k) = launches (jobs s k).
Proof.
  intros W s j i k. destruct (check_cases' W s j i) as [(_ & E)|(d & r' & w & _ & C & E)]; rewrite E; auto.
  apply check_l_async in C. destruct C as (A & _).
  assert (X : jobs (if w then enqueue (setjob s j r') (CStep j) else setjob s j r') = upd (jobs s) j r') by (destruct w; reflexivity).
  rewrite X. unfold upd. destruct (Nat.eqb k j) eqn:Ek; auto. apply Nat.eqb_eq in Ek. subst. apply (ao_launches A).
Qed.

Lemma start_body_launches : forall W s j k,
  launches (jobs (start_body W all_fixed s j) k) = launches (jobs s k) \/
  (k = j /\ exists av hd, acquire_l (avail s) (held (jobs s j)) (deps W j) 0 = (av, hd, None)).
Proof.
  intros W s j k. unfold start_body.
  destruct (acquire_l (avail s) (held (jobs s j)) (deps W j) 0) as [[av hd] [i|]] eqn:ACQ.
  - left. simpl. unfold upd. destruct (Nat.eqb k j) eqn:Ek.
    + apply Nat.eqb_eq in Ek. subst k. simpl. rewrite check_launches. simpl. rewrite upd_same. reflexivity.
    + rewrite check_launches. simpl. unfold upd. rewrite Ek. reflexivity.
  - destruct (Nat.eq_dec k j) as [->|N]; [right; split; auto; eauto|].
    left. simpl. rewrite upd_other; auto.
Qed.

(* which transitions launch a job *)
Lemma step_launches : forall W s l s' k, wf W = true -> Inv W s -> step W s l = Some s' ->
  launches (jobs s' k) = launches (jobs s k) \/
  (exists av hd, acquire_l (avail s) (held (jobs s k)) (deps W k) 0 = (av, hd, None)).
Proof.
  intros W s l s' k WF I H.
  assert (Z0 : forall s1, stab0 s s1 -> launches (jobs s1 k) = launches (jobs s k)).
  { intros s1 ST. destruct (ST k) as (_ & _ & _ & _ & [X|(X & _)]); [auto|discriminate]. }
  unfold step in H. destruct l as [j|n|j|]; simpl in H.
  - destruct ((j <? njobs W)%nat && match pc (jobs s j) with PNot => true | _ => false end
              && forallb (dep_submitted s) (deps W j) && fits W j) eqn:E; [|discriminate].
    inversion H; subst s'. apply andb_true_iff in E. destruct E as (E & _). apply andb_true_iff in E. destruct E as (E & E3).
    apply andb_true_iff in E. destruct E as (E1 & E2). left. apply Z0.
    assert (Jn : (j < njobs W)%nat) by (apply Nat.ltb_lt; auto).
    assert (P : pc (jobs s j) = PNot) by (destruct (pc (jobs s j)); try discriminate; auto).
    exact (proj2 (@inv_submit W s j WF I Jn P E3)).
  - destruct (nth_error (queue s) n) as [c|] eqn:E; [|discriminate]. inversion H; subst s'. clear H.
    destruct (@inv_dequeue W s n I) as (I0 & _).
    assert (OK0 : cb_ok (s_queue s (remove_nth n (queue s))) c).
    { pose proof (I_q I c (nth_error_In _ _ E)) as X. destruct c; simpl in *; auto. }
    remember (s_queue s (remove_nth n (queue s))) as s0 eqn:ES0.
    assert (JS : jobs s0 = jobs s) by (rewrite ES0; reflexivity).
    assert (AS : avail s0 = avail s) by (rewrite ES0; reflexivity).
    assert (OK : cb_ok s0 c) by exact OK0.
    assert (Z1 : forall s1, stab0 s0 s1 -> launches (jobs s1 k) = launches (jobs s0 k)).
    { intros s1 ST. destruct (ST k) as (_ & _ & _ & _ & [X|(X & _)]); [exact X|discriminate]. }
    rewrite <- JS, <- AS.
    destruct c as [j|j|j i|j i| |]; simpl.
    + destruct (pc (jobs s0 j)) eqn:P; auto. left. apply Z1. exact (proj2 (@inv_spawn W s0 j WF I0 P)).
    + unfold run_step. destruct (pc (jobs s0 j)) eqn:P; auto.
      * left. apply Z1. exact (proj2 (@inv_after_ready W s0 j WF I0 P)).
      * destruct a.
        -- destruct (start_body_launches W s0 j k) as [X|(-> & av & hd & X)]; [left; exact X|right; eauto].
        -- left. apply Z1. exact (proj2 (@inv_abort_return W s0 j WF I0 P)).
        -- left. apply Z1. exact (proj2 (@inv_lockoutrun W s0 j WF I0 P)).
        -- left. apply Z1. exact (proj2 (@inv_proc_return W s0 j WF I0 P)).
        -- left. apply Z1. exact (proj2 (@inv_done_return W s0 j WF I0 P)).
        -- left. apply Z1. exact (proj2 (@inv_adopt_return W s0 j WF I0 P)).
    + left. apply Z1. exact (proj2 (@inv_check W s0 j i WF I0 OK)).
    + destruct (nth_error (deps W j) i) as [[k0|t c]|]; auto.
      destruct (0 <? avail s0 t)%nat; auto. left. apply Z1. exact (proj2 (@inv_check W s0 j i WF I0 OK)).
    + destruct (wst s0); auto; left; apply Z1; exact (proj2 (@inv_wait_check W s0 I0)).
    + destruct (wst s0); auto; left; apply Z1; exact (proj2 (@inv_wait_check W s0 I0)).
  - destruct (pc (jobs s j)) eqn:P; try discriminate. inversion H; subst s'. left. apply Z0. exact (proj2 (@inv_deliver W s j a WF I P)).
  - left. destruct (wst s); try discriminate; inversion H; subst s'; reflexivity.
Qed.

(* a job is only launched when every token can give, at that moment, all that the job asks of it *)
Theorem launch_needs_room : forall W s l s' j t, wf W = true -> posreq W -> reach5 W s -> step5 W s l = Some s' ->
  launches (jobs s' j) <> launches (jobs s j) ->
  (sumreq (deps W j) t <= avail s t)%nat /\ (avail s t <= total W t)%nat.
Proof.
  intros W s l s' j t WF PQ R H N. destruct (reach5_inv W s WF PQ R) as (I & L).
  split; [|pose proof (V_cons L t); lia].
  destruct (step5_cases W s l s' H) as [S|(j0 & -> & Jn & P & FS & ->)].
  - destruct (step_launches W s l s' j WF I S) as [X|(av & hd & X)]; [contradiction|].
    eapply acquire_l_success; eauto.
  - exfalso. apply N. destruct (@inv_submit W s j0 WF I Jn P FS) as (_ & ST).
    destruct (ST j) as (_ & _ & _ & _ & [X|(X & _)]); [exact X|discriminate].
Qed.

Theorem oversubscribed_never_launched : forall W s j t, wf W = true -> posreq W -> reach5 W s ->
  (total W t < sumreq (deps W j) t)%nat -> launches (jobs s j) = 0%nat.
Proof.
  intros W s j t WF PQ R O. induction R as [|s l s' R IH H]; [reflexivity|].
  destruct (Nat.eq_dec (launches (jobs s' j)) (launches (jobs s j))) as [E|N]; [congruence|].
  destruct (launch_needs_room W s l s' j t WF PQ R H N). lia.
Qed.

(* the audit's workload: one job with two requests of 1 on a token of 1 *)
Definition W_twice : workload :=
  {| w_jobs := [ {| j_deps := [DTok 0 1; DTok 0 1]; j_code := 0; j_marker := false; j_ident := 0; j_adopt := None |} ];
     w_tokens := [1%nat] |}.

Lemma posreq_W_twice : posreq W_twice.
Proof.
  intros j t c H. destruct j as [|j]; [simpl in H; repeat (destruct H as [H|H]; [inversion H; subst; lia|]); contradiction|].
  unfold deps, spec in H. simpl in H. destruct j; simpl in H; contradiction.
Qed.

Lemma cap_W_twice : forall (s : state) j t c, spawned (pc (jobs s j)) = true -> In (DTok t c) (deps W_twice j) -> (c <= total W_twice t)%nat.
Proof.
  intros s j t c _ H. destruct j as [|j]; [simpl in H; repeat (destruct H as [H|H]; [inversion H; subst; unfold total; simpl; lia|]); contradiction|].
  unfold deps, spec in H. simpl in H. destruct j; simpl in H; contradiction.
Qed.

(* under the hypotheses of no_hang (wf, posreq), without the refusal at submission: once the job has
   been submitted it never returns and the scheduler never comes to rest, whatever the schedule *)
Theorem livelock_refuted : exists W, wf W = true /\ posreq W /\
  (exists s, reach5 W s /\ spawned (pc (jobs s 0)) = true) /\
  forall s, reach5 W s -> spawned (pc (jobs s 0)) = true ->
    launches (jobs s 0) = 0%nat /\ (forall r, pc (jobs s 0) <> PReturned r) /\
    ~ (queue s = [] /\ has_pending s W = false).
Proof.
  exists W_twice. split; [reflexivity|]. split; [exact posreq_W_twice|]. split.
  { exists (submit W_twice all_fixed (init W_twice) 0). split; [|vm_compute; reflexivity].
    apply r5_step with (s := init W_twice) (l := LSubmit 0); [apply r5_init|reflexivity]. }
  intros s R S. destruct (reach5_inv W_twice s eq_refl posreq_W_twice R) as (I & L).
  assert (L0 : launches (jobs s 0) = 0%nat).
  { apply (oversubscribed_never_launched W_twice s 0 0 eq_refl posreq_W_twice R). vm_compute. lia. }
  assert (NR : forall r, pc (jobs s 0) <> PReturned r).
  { intros r P. destruct (final_truthful_inv W_twice s 0 r I P) as (RT & B & E).
    change (adopted W_twice 0) with (@None jstate) in B. simpl in B.
    assert (X : r = ERROR).
    { apply E. intros D. destruct (proj1 B D) as [Y|(Y & _)]; [discriminate|]. rewrite L0 in Y. lia. }
    assert (FD : fdep (jobs s 0) = true) by (apply (l_E (I_loc I 0)); [reflexivity|congruence|exact L0]).
    destruct (I_FD I 0 FD) as (k & D & _). simpl in D. destruct D as [D|[D|[]]]; discriminate. }
  split; [exact L0|]. split; [exact NR|].
  intros (Q & HP). destruct (@no_hang_core W_twice s eq_refl posreq_W_twice L I (cap_W_twice s) Q HP) as (A & _).
  destruct (A 0%nat S) as (r & P). exact (NR r P).
Qed.

(* an aborted start is always caused by ANOTHER job that holds the token at that moment (and that job
   has a completion pending or a step queued): a fitting job never blocks itself *)
Lemma acquire_l_fail : forall ds av hd i0 av' hd' i, acquire_l av hd ds i0 = (av', hd', Some i) ->
  (i0 <= i)%nat /\ exists t c, nth_error ds (i - i0) = Some (DTok t c) /\ (av t < sumreq ds t)%nat.
Proof.
  induction ds as [|d r IH]; simpl; intros av hd i0 av' hd' i H; [discriminate|].
  destruct d as [k|t0 c0].
  - destruct (IH _ _ _ _ _ _ H) as (Le & t & c & N & Lt). split; [lia|]. exists t, c. split; auto.
    replace (i - i0)%nat with (S (i - S i0))%nat by lia. exact N.
  - destruct (av t0 <? c0)%nat eqn:E.
    + inversion H; subst. apply Nat.ltb_lt in E. split; [lia|]. exists t0, c0.
      rewrite Nat.sub_diag. split; [reflexivity|]. rewrite Nat.eqb_refl. lia.
    + apply Nat.ltb_ge in E. destruct (IH _ _ _ _ _ _ H) as (Le & t & c & N & Lt). split; [lia|]. exists t, c. split.
      * replace (i - i0)%nat with (S (i - S i0))%nat by lia. exact N.
      * unfold upd in Lt. destruct (Nat.eqb t0 t) eqn:E1.
        -- apply Nat.eqb_eq in E1. subst t0. rewrite Nat.eqb_refl in Lt. lia.
        -- rewrite Nat.eqb_sym, E1 in Lt. lia.
Qed.

Lemma fits_sumreq : forall W j t c, fits W j = true -> In (DTok t c) (deps W j) -> (sumreq (deps W j) t <= total W t)%nat.
Proof.
  intros W j t c F H. unfold fits in F. rewrite forallb_forall in F. specialize (F _ H). simpl in F.
  apply Nat.leb_le. exact F.
Qed.

Lemma hsum_l_pos : forall s t l, (hsum_l s t l > 0)%nat -> exists k, In k l /\ (hcount (held (jobs s k)) t > 0)%nat.
Proof.
  induction l as [|x r IH]; simpl; intros H; [lia|].
  destruct (Nat.eq_dec (hcount (held (jobs s x)) t) 0) as [E|E].
  - destruct IH as (k & K1 & K2); [lia|]. exists k. auto.
  - exists x. split; auto. lia.
Qed.

Theorem abort_blames_other : forall W s j i t c av hd, wf W = true -> posreq W -> reachable W s ->
  fits W j = true -> pc (jobs s j) = PWoken ALockIn ->
  acquire_l (avail s) (held (jobs s j)) (deps W j) 0 = (av, hd, Some i) ->
  nth_error (deps W j) i = Some (DTok t c) ->
  exists k, k <> j /\ (k < njobs W)%nat /\ (hcount (held (jobs s k)) t > 0)%nat /\
            exists a, pc (jobs s k) = PExt a \/ pc (jobs s k) = PWoken a.
Proof.
  intros W s j i t c av hd WF PQ R FIT P ACQ Dp.
  destruct (@liv_reachable W s WF PQ R) as (L & I).
  pose proof (I_loc I j) as LJ. unfold jl in LJ.
  assert (HJ : held (jobs s j) = []).
  { apply (held_nil_of_pc LJ); rewrite P; try discriminate. reflexivity. }
  destruct (acquire_l_fail _ _ _ _ _ _ _ ACQ) as (_ & t' & c' & N & Lt).
  rewrite Nat.sub_0_r, Dp in N. inversion N; subst t' c'.
  assert (IN : In (DTok t c) (deps W j)) by (eapply nth_error_In; eauto).
  pose proof (fits_sumreq W j t c FIT IN) as F.
  pose proof (V_cons L t) as C.
  assert (HS : (hsum W s t > 0)%nat) by lia.
  destruct (hsum_l_pos s t _ HS) as (k & K1 & K2).
  exists k. apply in_seq in K1.
  assert (KJ : k <> j) by (intros ->; rewrite HJ in K2; simpl in K2; lia).
  split; auto. split; [lia|]. split; auto.
  assert (HK : held (jobs s k) <> []) by (intros X; rewrite X in K2; simpl in K2; lia).
  destruct (l_held (I_loc I k) HK) as [Y|[Y|Y]]; try (eexists; rewrite Y; eauto; fail).
  destruct (pc (jobs s k)) as [| | | | |a|a|]; simpl in Y; try discriminate; eauto.
Qed.

(* hence: when no other job holds anything, the start of a fitting job succeeds *)
Corollary calm_start_succeeds : forall W s j, wf W = true -> posreq W -> reachable W s ->
  fits W j = true -> pc (jobs s j) = PWoken ALockIn ->
  (forall k, k <> j -> held (jobs s k) = []) ->
  exists av hd, acquire_l (avail s) (held (jobs s j)) (deps W j) 0 = (av, hd, None).
Proof.
  intros W s j WF PQ R FIT P CALM.
  destruct (acquire_l (avail s) (held (jobs s j)) (deps W j) 0) as [[av hd] [i|]] eqn:ACQ; [|eauto].
  exfalso. destruct (acquire_l_fail _ _ _ _ _ _ _ ACQ) as (_ & t & c & N & _). rewrite Nat.sub_0_r in N.
  destruct (abort_blames_other W s j i t c av hd WF PQ R FIT P ACQ N) as (k & KJ & _ & K2 & _).
  rewrite (CALM k KJ) in K2. simpl in K2. lia.
Qed.

(* ------------------------------------------------------------------ termination of everything but start attempts *)
(* how far the coroutine of a job still has to go, start attempts (delivery of `lock (aenter)`) apart *)
Definition rank (p : pcT) : nat :=
  match p with
  | PNot | PDup _ | PReturned _ => 0
  | PSpawned => 20
  | PWoken ALockIn => 18
  | PExt ALockOutAbort => 17 | PWoken ALockOutAbort => 16
  | PAwaitReady => 15 | PWokenReady => 14
  | PExt ALockIn => 13
  | PExt ALockOutRun => 12 | PWoken ALockOutRun => 11
  | PExt AProc => 10 | PWoken AProc => 9
  | PExt AAdopt => 8 | PWoken AAdopt => 7
  | PExt ADoneH => 6 | PWoken ADoneH => 5
  end%nat.
Fixpoint srank_l (s : state) (js : list nat) : nat :=
  match js with [] => 0 | j :: r => rank (pc (jobs s j)) + srank_l s r end%nat.
Definition srank (W : workload) (s : state) : nat := srank_l s (seq 0 (njobs W)).

(* internal transitions other than the start attempts *)
Definition inflight (s : state) (l : label) : Prop :=
  match l with
  | LRun _ => True
  | LDeliver j => pc (jobs s j) <> PExt ALockIn
  | _ => False
  end.
(* lexicographic order on (remaining coroutine work, ready callbacks) *)
Definition mless (W : workload) (s' s : state) : Prop :=
  (srank W s' < srank W s)%nat \/ (srank W s' = srank W s /\ (length (queue s') < length (queue s))%nat).

Lemma srank_l_same : forall s s' l, (forall x, In x l -> pc (jobs s' x) = pc (jobs s x)) -> srank_l s' l = srank_l s l.
Proof. induction l as [|a r IH]; simpl; intros H; auto. rewrite H, IH; auto. Qed.

Lemma srank_l_dec : forall s s' j a n, (forall x, x <> j -> pc (jobs s' x) = pc (jobs s x)) ->
  (a <= j < a + n)%nat ->
  (srank_l s' (seq a n) + rank (pc (jobs s j)) = srank_l s (seq a n) + rank (pc (jobs s' j)))%nat.
Proof.
  intros s s' j a n H. revert a. induction n; intros a R; simpl; [lia|].
  destruct (Nat.eq_dec a j) as [->|N].
  - rewrite (@srank_l_same s s' (seq (S j) n)); [lia|]. intros x Hx. apply in_seq in Hx. apply H. lia.
  - rewrite (H a N). specialize (IHn (S a)). lia.
Qed.

Lemma srank_dec : forall W s s' j, (j < njobs W)%nat -> (forall x, x <> j -> pc (jobs s' x) = pc (jobs s x)) ->
  (rank (pc (jobs s' j)) < rank (pc (jobs s j)))%nat -> (srank W s' < srank W s)%nat.
Proof. intros W s s' j Jn H R. unfold srank. pose proof (@srank_l_dec s s' j 0 (njobs W) H). lia. Qed.

Lemma srank_same : forall W s s', (forall x, pc (jobs s' x) = pc (jobs s x)) -> srank W s' = srank W s.
Proof. intros. apply srank_l_same; auto. Qed.

Lemma remove_nth_length : forall A n (l : list A) x, nth_error l n = Some x -> length l = S (length (remove_nth n l)).
Proof. induction n; destruct l; simpl; intros; try discriminate; auto. f_equal. eapply IHn; eauto. Qed.

Theorem inflight_decreases : forall W s l s', wf W = true -> reachable W s -> step W s l = Some s' ->
  inflight s l -> mless W s' s.
Proof.
  intros W s l s' WF R H IF. pose proof (reachable_inv W s WF R) as I.
  unfold step in H. destruct l as [j|n|j|]; simpl in H, IF; try contradiction.
  - (* a ready callback *)
    destruct (nth_error (queue s) n) as [c|] eqn:E; [|discriminate]. inversion H; subst s'. clear H.
    pose proof (remove_nth_length _ n (queue s) c E) as QL.
    remember (s_queue s (remove_nth n (queue s))) as s0 eqn:ES0.
    assert (JS : jobs s0 = jobs s) by (rewrite ES0; reflexivity).
    assert (Q0 : length (queue s) = S (length (queue s0))) by (rewrite ES0; exact QL).
    assert (SR0 : srank W s0 = srank W s) by (apply srank_same; intros; rewrite JS; auto).
    assert (NOOP : mless W s0 s) by (right; split; [exact SR0|lia]).
    assert (I0 : Inv W s0) by (rewrite ES0; apply (@inv_dequeue W s n I)).
    assert (DEC : forall s1 j, (j < njobs W)%nat -> (forall x, x <> j -> pc (jobs s1 x) = pc (jobs s0 x)) ->
              (rank (pc (jobs s1 j)) < rank (pc (jobs s0 j)))%nat -> mless W s1 s).
    { intros s1 j Jn A B. left. rewrite <- SR0. eapply srank_dec; eauto. }
    assert (LT : forall j, pc (jobs s0 j) <> PNot -> (j < njobs W)%nat) by (intros j X; apply inv_job_lt with (s := s0); auto).
    assert (CHK : forall j i, mless W (check W all_fixed s0 j i) s).
    { intros j i. destruct (check_pcs W s0 j i) as (A & [(B1 & B2)|(B1 & B2)]).
      - right. split; [|lia]. rewrite <- SR0. apply srank_same. intros x. destruct (Nat.eq_dec x j) as [->|N]; auto.
      - apply (DEC _ j); auto; [apply LT; rewrite B1; discriminate|rewrite B1, B2; simpl; lia]. }
    destruct c as [j|j|j i|j i| |]; simpl.
    + destruct (pc (jobs s0 j)) eqn:P; auto.
      apply (DEC _ j); [apply LT; rewrite P; discriminate| |].
      * intros x N. unfold run_spawn. rewrite commit_pcs. destruct (Nat.eqb x j) eqn:Ex; auto. apply Nat.eqb_eq in Ex. contradiction.
      * unfold run_spawn. simpl fx3. simpl fx6. rewrite commit_pcs, Nat.eqb_refl, P. rewrite <- adopted_some.
        pose proof (I_loc I0 j) as LJ. unfold jl in LJ.
        destruct (@spawn_l_ok (deps W j) (j_marker (spec W j)) (j_code (spec W j)) (adopted W j) (jobs s0 j)
                    (map (dep_status s0) (deps W j)) LJ P (map_length _ _)) as (_ & _ & _ & _ & _ & _ & _ & _ & _ & _ & _ & SHP).
        destruct SHP as [Y|[Y|[Y|Y]]]; rewrite Y; simpl; lia.
    + unfold run_step. destruct (pc (jobs s0 j)) eqn:P; auto.
      * (* PWokenReady *)
        apply (DEC _ j); [apply LT; rewrite P; discriminate| |].
        -- intros x N. rewrite commit_pcs. destruct (Nat.eqb x j) eqn:Ex; auto. apply Nat.eqb_eq in Ex. contradiction.
        -- rewrite commit_pcs, Nat.eqb_refl, P.
           pose proof (I_loc I0 j) as LJ. unfold jl in LJ.
           pose proof (after_ready_l_shape (jobs s0 j)) as (_ & _ & _ & _ & _ & _ & _ & S_pc).
           destruct S_pc as [(Y&_)|[(Y&F)|(Y&_)]]; rewrite Y; simpl; try lia.
           exfalso. destruct (l_WS LJ P) as [Z|Z]; rewrite Z in F; [|discriminate].
           (* READY is not finished, but then after_ready_l goes to the lock *)
           unfold after_ready_l in Y. simpl in Y. rewrite Z in Y. simpl in Y. discriminate.
      * destruct a.
        -- (* start attempt already delivered *)
           apply (DEC _ j); [apply LT; rewrite P; discriminate| |].
           ++ intros x N. unfold start_body.
              destruct (acquire_l (avail s0) (held (jobs s0 j)) (deps W j) 0) as [[av hd] [i|]]; simpl.
              ** rewrite (proj1 (check_pcs W _ j i) x N). simpl. rewrite upd_other; auto.
              ** rewrite upd_other; auto.
           ++ unfold start_body.
              destruct (acquire_l (avail s0) (held (jobs s0 j)) (deps W j) 0) as [[av hd] [i|]]; simpl.
              ** destruct (check_pcs W (s_avail (setjob s0 j (w_pc (w_held (jobs s0 j) hd) (PExt ALockOutAbort))) av) j i)
                   as (_ & [(B1 & _)|(B1 & _)]).
                 --- rewrite B1. simpl. rewrite upd_same, P. simpl. lia.
                 --- simpl in B1. rewrite upd_same in B1. discriminate.
              ** rewrite upd_same, P. simpl. lia.
        -- (* the aborted start returns *)
           apply (DEC _ j); [apply LT; rewrite P; discriminate| |].
           ++ intros x N. unfold abort_return. rewrite commit_pcs. destruct (Nat.eqb x j) eqn:Ex; [apply Nat.eqb_eq in Ex; contradiction|].
              apply release_pcs.
           ++ unfold abort_return. rewrite commit_pcs, Nat.eqb_refl, P. simpl fx4.
              destruct (@inv_release W s0 j WF I0) as (I1 & _); [rewrite P; reflexivity|].
              pose proof (I_loc I1 j) as L1. unfold jl in L1.
              assert (P1 : pc (jobs (release_all W s0 j) j) = PWoken ALockOutAbort) by (rewrite release_pcs; exact P).
              assert (H1 : held (jobs (release_all W s0 j) j) = []) by (rewrite release_all_jobs, upd_same; reflexivity).
              destruct (@abort_l_ok _ _ _ _ _ L1 P1 H1) as (_ & (_ & _ & _ & _ & _ & _ & _ & S_pc)).
              destruct S_pc as [(Y&F)|[(Y&_)|(Y&_)]]; rewrite Y; simpl; lia.
        -- apply (DEC _ j); [apply LT; rewrite P; discriminate| |]; simpl.
           ++ intros x N. rewrite upd_other; auto.
           ++ rewrite upd_same, P. simpl. lia.
        -- apply (DEC _ j); [apply LT; rewrite P; discriminate| |].
           ++ intros x N. unfold proc_return. rewrite commit_pcs. destruct (Nat.eqb x j) eqn:Ex; [apply Nat.eqb_eq in Ex; contradiction|].
              apply release_pcs.
           ++ unfold proc_return. rewrite commit_pcs, Nat.eqb_refl, P.
              destruct (@inv_release W s0 j WF I0) as (I1 & _); [rewrite P; reflexivity|].
              pose proof (I_loc I1 j) as L1. unfold jl in L1.
              assert (P1 : pc (jobs (release_all W s0 j) j) = PWoken AProc) by (rewrite release_pcs; exact P).
              assert (H1 : held (jobs (release_all W s0 j) j) = []) by (rewrite release_all_jobs, upd_same; reflexivity).
              destruct (@proc_l_ok _ _ _ _ _ L1 P1 H1) as (_ & _ & Y). rewrite Y. simpl. lia.
        -- apply (DEC _ j); [apply LT; rewrite P; discriminate| |].
           ++ intros x N. unfold done_return. simpl. rewrite upd_other; auto.
              unfold notify_exit. destruct (wst _); reflexivity.
           ++ unfold done_return. simpl. rewrite upd_same, P. simpl. lia.
        -- apply (DEC _ j); [apply LT; rewrite P; discriminate| |].
           ++ intros x N. unfold adopt_return. destruct (adopted W j); auto. rewrite commit_pcs.
              destruct (Nat.eqb x j) eqn:Ex; auto. apply Nat.eqb_eq in Ex. contradiction.
           ++ unfold adopt_return. pose proof (I_loc I0 j) as LJ. unfold jl in LJ.
              destruct (adopted W j) as [v|] eqn:AD.
              ** rewrite commit_pcs, Nat.eqb_refl, P.
                 assert (FV : finished v = true).
                 { unfold adopted in AD. destruct (j_adopt (spec W j)); inversion AD. apply adopt_state_finished. }
                 destruct (@adopt_l_ok _ _ _ v _ LJ P FV) as (_ & _ & Y). rewrite Y. simpl. lia.
              ** exfalso. apply (l_adpc LJ); [rewrite P; reflexivity|reflexivity].
    + apply CHK.
    + destruct (nth_error (deps W j) i) as [[k|t c]|]; auto. destruct (0 <? avail s0 t)%nat; auto.
    + destruct (wst s0); auto; right; (split; [rewrite <- SR0; apply srank_same; intros x; unfold wait_check; destruct (unfinished s0 =? 0); reflexivity|]);
        unfold wait_check; destruct (unfinished s0 =? 0); simpl; lia.
    + destruct (wst s0); auto; right; (split; [rewrite <- SR0; apply srank_same; intros x; unfold wait_check; destruct (unfinished s0 =? 0); reflexivity|]);
        unfold wait_check; destruct (unfinished s0 =? 0); simpl; lia.
  - (* a completion other than `lock (aenter)` *)
    destruct (pc (jobs s j)) eqn:P; try discriminate. inversion H; subst s'. left.
    apply srank_dec with (j := j).
    + apply inv_job_lt with (s := s); auto. rewrite P. discriminate.
    + intros x N. simpl. rewrite upd_other; auto.
    + simpl. rewrite upd_same, P. destruct a; simpl; try lia. exfalso. apply IF. reflexivity.
Qed.

(* hence no run made of callbacks and of completions other than start attempts is infinite: everything
   in flight completes; only the delivery of `lock (aenter)` (a start attempt) can keep a run going *)
Theorem inflight_terminates : forall W (f : nat -> state) (ls : nat -> label), wf W = true ->
  reachable W (f 0%nat) ->
  (forall n, step W (f n) (ls n) = Some (f (S n)) /\ inflight (f n) (ls n)) -> False.
Proof.
  intros W f ls WF.
  assert (G : forall a b (g : nat -> state) (lg : nat -> label),
            srank W (g 0%nat) = a -> length (queue (g 0%nat)) = b -> reachable W (g 0%nat) ->
            (forall n, step W (g n) (lg n) = Some (g (S n)) /\ inflight (g n) (lg n)) -> False).
  { induction a as [a IHa] using lt_wf_ind. induction b as [b IHb] using lt_wf_ind.
    intros g lg Ea Eb R H. destruct (H 0%nat) as (S0 & F0).
    pose proof (inflight_decreases W (g 0%nat) (lg 0%nat) (g 1%nat) WF R S0 F0) as M.
    pose proof (reachable_step W (g 0%nat) (lg 0%nat) (g 1%nat) R S0) as R1.
    destruct M as [M|(M1 & M2)].
    - assert (LT : (srank W (g 1%nat) < a)%nat) by (rewrite <- Ea; exact M).
      exact (IHa _ LT _ (fun n => g (S n)) (fun n => lg (S n)) eq_refl eq_refl R1 (fun n => H (S n))).
    - assert (LT : (length (queue (g 1%nat)) < b)%nat) by (rewrite <- Eb; exact M2).
      exact (IHb _ LT (fun n => g (S n)) (fun n => lg (S n)) (eq_trans M1 Ea) eq_refl R1 (fun n => H (S n))). }
  intros R H. exact (G _ _ f ls eq_refl eq_refl R H).
Qed.

(* the hypotheses are satisfiable, and the restriction to in-flight work is needed: even a fitting job
   (two requests of 1 on a token of 2) retries its start for ever while another job that holds one unit
   is running and its exit is not delivered (busy retry; ended by the exit of that other job) *)
Definition W_busy : workload :=
  {| w_jobs := [ {| j_deps := [DTok 0 1]; j_code := 0; j_marker := false; j_ident := 0; j_adopt := None |};
                 {| j_deps := [DTok 0 1; DTok 0 1]; j_code := 0; j_marker := false; j_ident := 1; j_adopt := None |} ];
     w_tokens := [2%nat] |}.
Definition X_busy_prefix := [XSubmit 0; XSubmit 1; XDeliver 0; XDeliver 0]%nat.
Definition X_busy_round := [XDeliver 1; XDeliver 1]%nat.
Definition X_busy9 := X_busy_prefix ++ X_busy_round ++ X_busy_round ++ X_busy_round ++ X_busy_round ++ X_busy_round
                             ++ X_busy_round ++ X_busy_round ++ X_busy_round ++ X_busy_round.
Definition busy_obs (xs : list ext) :=
  let s := final W_busy all_fixed (expand W_busy all_fixed (init W_busy) xs) in
  (pc (jobs s 0), pc (jobs s 1), st (jobs s 1), launches (jobs s 1), held (jobs s 1), avail s 0%nat).
Example ex_busy_retry :
  wf W_busy = true /\ fits W_busy 1 = true /\
  is_some (steps_gen W_busy all_fixed (init W_busy) (expand W_busy all_fixed (init W_busy) X_busy9)) = true /\
  busy_obs (X_busy_prefix ++ X_busy_round) = (PExt AProc, PExt ALockIn, READY, 0%nat, [], 1%nat) /\
  busy_obs X_busy9 = (PExt AProc, PExt ALockIn, READY, 0%nat, [], 1%nat).
Proof. split. vm_compute; reflexivity. split. vm_compute; reflexivity. split. vm_compute; reflexivity. split; vm_compute; reflexivity. Qed.

(* ------------------------------------------------------------------ composition with model/Deps.v (C04) *)
(* the two models meet in `job.dependencies`: when the job dependencies given to the scheduler for job j
   contain what submit() computed from the parameters of its task (Deps.collect - the harness checks on
   every run that the dependencies of the real job are that set, and replays the scheduler model with
   them), job j is launched only after every job registered for a task reachable from its parameters,
   and every explicit dependency, is DONE *)
From XV Require model.Deps proofs.Deps_lemmas.
Theorem launch_after_parameters : forall W s j h fuel root explicit ds,
  wf W = true -> reachable W s ->
  Deps.marks_ok h -> Deps.n_sub (Deps.get h root) = None ->
  Deps.collect h fuel root explicit = Some ds ->
  (forall k, In k ds -> In (DJob k) (deps W j)) ->
  (launches (jobs s j) >= 1)%nat ->
  forall k, Deps.reachv h (Deps.VRef root) k \/ In k explicit -> st (jobs s k) = DONE.
Proof.
  intros W s j h fuel root explicit ds WF R MK NS C LINK L k H.
  apply (launched_deps_done W s j k WF R L). apply LINK.
  apply (proj2 (Deps_lemmas.deps_exact h MK fuel root explicit ds NS C k)). exact H.
Qed.
