(* C03, recursively: two configurations with the same identifier have the same DEEP signature
   (type identifiers, parameter names, declared types and values at every depth of the nested
   configurations), or two different byte streams on which H collides are exhibited.          *)
From Coq Require Import ZArith NArith List Bool Lia.
From XV Require Import core.Value model.Hash model.Ser model.Deep proofs.Ser_lemmas proofs.Tok_lemmas.
Import ListNotations.

(* ---- induction on deep values ------------------------------------------------------------------ *)
Definition optP (P : dval -> Prop) (o : option dval) : Prop := match o with Some t => P t | None => True end.

Section DvalInd.
  Variable P : dval -> Prop.
  Hypothesis HNone : P DNone.
  Hypothesis HInt : forall z, P (DInt z).
  Hypothesis HFloat : forall b, P (DFloat b).
  Hypothesis HStr : forall s, P (DStr s).
  Hypothesis HEnum : forall q, P (DEnum q).
  Hypothesis HCyc : forall k, P (DCyc k).
  Hypothesis HList : forall l, Forall P l -> P (DList l).
  Hypothesis HDict : forall l, Forall (fun kv => P (snd kv)) l -> P (DDict l).
  Hypothesis HNode : forall tk tid args, optP P tk ->
    Forall (fun a => P (snd a)) args -> P (DNode tk tid args).

  Fixpoint dval_ind2 (v : dval) : P v :=
    match v with
    | DNone => HNone | DInt z => HInt z | DFloat b => HFloat b | DStr s => HStr s | DEnum q => HEnum q
    | DCyc k => HCyc k
    | DList l => HList l ((fix go (l : list dval) : Forall P l :=
                             match l with [] => Forall_nil _ | x :: l' => Forall_cons _ (dval_ind2 x) (go l') end) l)
    | DDict l => HDict l ((fix go (l : list (bytes * dval)) : Forall (fun kv => P (snd kv)) l :=
                             match l with [] => Forall_nil _ | x :: l' => Forall_cons _ (dval_ind2 (snd x)) (go l') end) l)
    | DNode tk tid args =>
        HNode tk tid args
          (match tk as o return optP P o with Some t => dval_ind2 t | None => I end)
          ((fix go (l : list (bytes * sty * dval)) : Forall (fun a => P (snd a)) l :=
              match l with [] => Forall_nil _ | x :: l' => Forall_cons _ (dval_ind2 (snd x)) (go l') end) args)
    end.
End DvalInd.

(* ---- the deep unfolding flattens to the token level of model/Ser.v ------------------------------- *)
Section DeepTok.
  Variable H : bytes -> bytes.
  Variable cs : classes.
  Variable h : heap.
  Variable cty : bytes -> bytes -> sty.
  Notation nolook := (fun _ : nat => @None bytes).

  Lemma seq_tok_d {A} (g : A -> tres) (d : A -> dres) (l : list A) :
    (forall x, In x l -> g x = (do r <- d x; Ok (flatten H (fst r), snd r))) ->
    seq_tok g l = (do r <- seq_d d l; Ok (map (flatten H) (fst r), snd r)).
  Proof.
    induction l as [|x l IH]; intros Hx; cbn [seq_tok seq_d]; [reflexivity|].
    rewrite (Hx x (or_introl eq_refl)). rewrite IH by (intros y Hy; apply Hx; right; exact Hy).
    destruct (d x) as [[a e]|er]; cbn [bind fst snd]; [|reflexivity].
    destruct (seq_d d l) as [[aa ee]|er]; cbn [bind fst snd map]; reflexivity.
  Qed.

  Lemma seq_tokd_dd (g : value -> tres) (d : value -> dres) (l : list (bytes * value)) :
    (forall kv, In kv l -> g (snd kv) = (do r <- d (snd kv); Ok (flatten H (fst r), snd r))) ->
    seq_tokd g l = (do r <- seq_dd d l; Ok (map (fun kv : bytes * dval => (fst kv, flatten H (snd kv))) (fst r), snd r)).
  Proof.
    induction l as [|x l IH]; intros Hx; cbn [seq_tokd seq_dd]; [reflexivity|].
    rewrite (Hx x (or_introl eq_refl)). rewrite IH by (intros y Hy; apply Hx; right; exact Hy).
    destruct (d (snd x)) as [[a e]|er]; cbn [bind fst snd]; [|reflexivity].
    destruct (seq_dd d l) as [[aa ee]|er]; cbn [bind fst snd map]; reflexivity.
  Qed.

  Lemma tok_args_d (g : value -> tres) (d : value -> dres) ty (l : list (bytes * argsel)) :
    (forall v, g v = (do r <- d v; Ok (flatten H (fst r), snd r))) ->
    tok_args g ty l = (do a <- dargs d ty l; Ok (map (fun a : bytes * sty * dval => (fst a, flatten H (snd a))) (fst a), snd a)).
  Proof.
    intros Hg. induction l as [|[k sel] l IH]; cbn [tok_args dargs]; [reflexivity|].
    destruct sel as [| |v]; try reflexivity. rewrite Hg, IH.
    destruct (d v) as [[a e]|er]; cbn [bind fst snd]; [|reflexivity].
    destruct (dargs d ty l) as [[aa ee]|er]; cbn [bind fst snd map]; reflexivity.
  Qed.

  (* identifier of an unfolded configuration *)
  Definition node_id (v : dval) : bytes := match flatten H v with SObj d => d | _ => [] end.

  Lemma node_flat_with (f : nat) :
    (forall st v, tokv H cs h nolook f st v = (do r <- dtokv cs h cty f st v; Ok (flatten H (fst r), snd r))) ->
    forall st m, hnode_with H cs h (hv H cs h nolook f) st m
               = (do r <- dnode_with cs h cty (dtokv cs h cty f) st m; Ok (node_id (fst r), snd r)).
  Proof.
    intros IH st m. unfold hnode_with, dnode_with.
    destruct (nsig cs h m) as [sg|er]; cbn [bind]; [|reflexivity].
    rewrite (args_tok H cs h nolook (cty (sg_tid sg))).
    rewrite (tok_args_d _ (dtokv cs h cty f (m :: st)) _ _ (IH (m :: st))).
    destruct (sg_task sg) as [t|].
    - rewrite (tok_enc H cs h nolook), IH.
      destruct (dtokv cs h cty f (m :: st) (VRef t)) as [[a e]|er]; cbn [bind fst snd]; [|reflexivity].
      destruct (dargs (dtokv cs h cty f (m :: st)) (cty (sg_tid sg)) (sg_args sg)) as [[aa ee]|er]; cbn [bind fst snd]; [|reflexivity].
      unfold node_id, tmark. destruct (index_of t (m :: st)); cbn [flatten]; unfold enc_sig; cbn [ss_task ss_tid ss_args app option_map]; reflexivity.
    - cbn [bind fst snd].
      destruct (dargs (dtokv cs h cty f (m :: st)) (cty (sg_tid sg)) (sg_args sg)) as [[aa ee]|er]; cbn [bind fst snd]; [|reflexivity].
      unfold node_id. cbn [flatten]. unfold enc_sig. cbn [ss_task ss_tid ss_args app]. reflexivity.
  Qed.

  Lemma dnode_is_node f st m r : dnode_with cs h cty (dtokv cs h cty f) st m = Ok r ->
    exists tk tid args, fst r = DNode tk tid args.
  Proof.
    unfold dnode_with. destruct (nsig cs h m) as [sg|]; cbn [bind]; [|discriminate].
    destruct (match sg_task sg with Some t => _ | None => _ end) as [t|]; cbn [bind]; [|discriminate].
    destruct (dargs _ _ _) as [a|]; cbn [bind]; [|discriminate]. intros E. inversion E. cbn [fst]. eauto.
  Qed.

  Lemma flat_tok : forall fuel st v,
    tokv H cs h nolook fuel st v = (do r <- dtokv cs h cty fuel st v; Ok (flatten H (fst r), snd r)).
  Proof.
    induction fuel as [|f IH]; intros st v; [reflexivity|].
    destruct v as [| z | b | bits | s | s | q | l | l | m]; cbn [tokv dtokv bind fst snd flatten]; try reflexivity.
    - destruct (pack_q z); reflexivity.
    - destruct (pack_q (zb b)); reflexivity.
    - rewrite (seq_tok_d _ (dtokv cs h cty f st)) by (intros x _; apply IH).
      destruct (seq_d _ _) as [[aa ee]|er]; reflexivity.
    - rewrite (seq_tokd_dd _ (dtokv cs h cty f st)) by (intros x _; apply IH).
      destruct (seq_dd _ _) as [[aa ee]|er]; reflexivity.
    - destruct (index_of m st) as [pos|].
      + destruct (pack_q (Z.of_nat (S pos))); reflexivity.
      + rewrite (node_flat_with f IH).
        destruct (dnode_with cs h cty (dtokv cs h cty f) st m) as [[a e]|er] eqn:E; cbn [bind fst snd]; [|reflexivity].
        destruct (dnode_is_node f st m (a, e) E) as [tk [tid [args Ea]]]. cbn [fst] in Ea. subst a.
        unfold node_id. cbn [flatten]. reflexivity.
  Qed.

  (* the identifier of a node is the identifier of its deep signature *)
  Theorem hnode_deep fuel st n :
    hnode H cs h nolook fuel st n = (do r <- dnode cs h cty fuel st n; Ok (node_id (fst r), snd r)).
  Proof. unfold hnode, dnode. apply node_flat_with. apply flat_tok. Qed.
End DeepTok.

(* ---- deep injectivity ------------------------------------------------------------------------------- *)
Section DeepInj.
  Variable H : bytes -> bytes.
  Variable cty : bytes -> bytes -> sty.

  Lemma wfd_list l : wfd H cty (DList l) <-> Forall (wfd H cty) l.
  Proof.
    cbn [wfd]. induction l as [|x l IH]; [split; [constructor|exact (fun _ => I)]|].
    split.
    - intros [Hx Hl]. constructor; [exact Hx|apply IH; exact Hl].
    - intros F. inversion F; subst. split; [assumption|apply IH; assumption].
  Qed.

  Lemma wfd_dict l : wfd H cty (DDict l) <-> Forall (fun kv => wfd H cty (snd kv)) l.
  Proof.
    cbn [wfd]. induction l as [|x l IH]; [split; [constructor|exact (fun _ => I)]|].
    split.
    - intros [Hx Hl]. constructor; [exact Hx|apply IH; exact Hl].
    - intros F. inversion F; subst. split; [assumption|apply IH; assumption].
  Qed.

  Lemma wfd_node tk tid args : wfd H cty (DNode tk tid args) <->
    wf_sig (flat_sig H tk tid args) /\ optP (wfd H cty) tk /\
    Forall (fun a => snd (fst a) = cty tid (fst (fst a)) /\ wfd H cty (snd a)) args.
  Proof.
    cbn [wfd]. unfold optP.
    assert (E : forall l : list (bytes * sty * dval),
              (fix go (l : list (bytes * sty * dval)) : Prop :=
                 match l with [] => True | a :: l' => (snd (fst a) = cty tid (fst (fst a)) /\ wfd H cty (snd a)) /\ go l' end) l
              <-> Forall (fun a => snd (fst a) = cty tid (fst (fst a)) /\ wfd H cty (snd a)) l).
    { induction l as [|x l IH]; [split; [constructor|exact (fun _ => I)]|]. split.
      - intros [Hx Hl]. constructor; [exact Hx|apply IH; exact Hl].
      - intros F. inversion F; subst. split; [assumption|apply IH; assumption]. }
    rewrite E. tauto.
  Qed.

  Definition inj_at (v1 : dval) : Prop :=
    forall v2, wfd H cty v1 -> wfd H cty v2 -> flatten H v1 = flatten H v2 -> v1 = v2 \/ collision H.

  Lemma list_inj l1 : Forall inj_at l1 -> forall l2, Forall (wfd H cty) l1 -> Forall (wfd H cty) l2 ->
    map (flatten H) l1 = map (flatten H) l2 -> l1 = l2 \/ collision H.
  Proof.
    induction 1 as [|x l1 Hx F IH]; intros [|y l2] W1 W2 E; cbn [map] in E; try discriminate; [left; reflexivity|].
    inversion W1; subst. inversion W2; subst. injection E as Ex El.
    destruct (Hx y) as [->|C]; try assumption; [|right; exact C].
    destruct (IH l2) as [->|C]; try assumption; [left; reflexivity|right; exact C].
  Qed.

  Lemma dict_inj (l1 : list (bytes * dval)) : Forall (fun kv => inj_at (snd kv)) l1 ->
    forall l2, Forall (fun kv => wfd H cty (snd kv)) l1 -> Forall (fun kv => wfd H cty (snd kv)) l2 ->
    map (fun kv : bytes * dval => (fst kv, flatten H (snd kv))) l1 = map (fun kv : bytes * dval => (fst kv, flatten H (snd kv))) l2 ->
    l1 = l2 \/ collision H.
  Proof.
    induction 1 as [|[k1 x] l1 Hx F IH]; intros [|[k2 y] l2] W1 W2 E; cbn [map fst snd] in E; try discriminate; [left; reflexivity|].
    inversion W1; subst. inversion W2; subst. cbn [snd] in *. injection E as Ek Ex El. subst k2.
    destruct (Hx y) as [->|C]; try assumption; [|right; exact C].
    destruct (IH l2) as [->|C]; try assumption; [left; reflexivity|right; exact C].
  Qed.

  Lemma args_inj_deep (tid : bytes) (l1 : list (bytes * sty * dval)) : Forall (fun a => inj_at (snd a)) l1 ->
    forall l2, Forall (fun a => wfd H cty (snd a)) l1 -> Forall (fun a => wfd H cty (snd a)) l2 ->
    map (fun a : bytes * sty * dval => (fst a, flatten H (snd a))) l1 = map (fun a : bytes * sty * dval => (fst a, flatten H (snd a))) l2 ->
    l1 = l2 \/ collision H.
  Proof.
    induction 1 as [|[kt1 x] l1 Hx F IH]; intros [|[kt2 y] l2] W1 W2 E; cbn [map fst snd] in E; try discriminate; [left; reflexivity|].
    inversion W1; subst. inversion W2; subst. cbn [snd] in *. injection E as Ek Ex El. subst kt2.
    destruct (Hx y) as [->|C]; try assumption; [|right; exact C].
    destruct (IH l2) as [->|C]; try assumption; [left; reflexivity|right; exact C].
  Qed.

  Lemma Forall_and_r {A} (P Q : A -> Prop) l : Forall (fun a => P a /\ Q a) l -> Forall Q l.
  Proof. induction 1 as [|x l [_ q] F IH]; constructor; assumption. Qed.

  (* two deep values, well formed at every level, that flatten to the same token are equal -
     or two different streams with the same hash are exhibited                              *)
  Theorem deep_inj : forall v1, inj_at v1.
  Proof.
    induction v1 as [| z | b | s | q | k | l IHl | l IHl | tk tid args IHt IHa] using dval_ind2; intros v2 W1 W2 E;
      destruct v2 as [| z2 | b2 | s2 | q2 | tk2 tid2 args2 | k2 | l2 | l2]; cbn [flatten] in E; try discriminate;
      try (injection E as E; subst; left; reflexivity); try (left; reflexivity).
    - (* lists *)
      injection E as E. apply wfd_list in W1. apply wfd_list in W2.
      destruct (list_inj l IHl l2 W1 W2 E) as [->|C]; [left; reflexivity|right; exact C].
    - (* dicts *)
      injection E as E. apply wfd_dict in W1. apply wfd_dict in W2.
      destruct (dict_inj l IHl l2 W1 W2 E) as [->|C]; [left; reflexivity|right; exact C].
    - (* nested configurations *)
      injection E as E. fold (flat_sig H tk tid args) in E. fold (flat_sig H tk2 tid2 args2) in E.
      apply wfd_node in W1. apply wfd_node in W2. destruct W1 as [S1 [T1 A1]], W2 as [S2 [T2 A2]].
      destruct (list_eq_dec N.eq_dec (enc_sig (flat_sig H tk tid args)) (enc_sig (flat_sig H tk2 tid2 args2))) as [Ee|De];
        [|right; exists (enc_sig (flat_sig H tk tid args)), (enc_sig (flat_sig H tk2 tid2 args2)); split; assumption].
      assert (Es : flat_sig H tk tid args = flat_sig H tk2 tid2 args2).
      { apply enc_sig_inj_tid; try assumption. cbn [flat_sig ss_tid]. intros Et. subst tid2.
        intros k t1 v1 t2 v2 I1 I2. cbn [flat_sig ss_args] in I1, I2.
        apply in_map_iff in I1. destruct I1 as [a1 [Ea1 Ia1]]. apply in_map_iff in I2. destruct I2 as [a2 [Ea2 Ia2]].
        rewrite Forall_forall in A1, A2. destruct (A1 a1 Ia1) as [Ty1 _]. destruct (A2 a2 Ia2) as [Ty2 _].
        destruct a1 as [[k1 ty1] x1], a2 as [[k2' ty2] x2]. cbn [fst snd] in *. inversion Ea1. inversion Ea2. subst. reflexivity. }
      unfold flat_sig in Es. injection Es as Etk Etid Eargs. subst tid2.
      assert (Tk : tk = tk2 \/ collision H).
      { destruct tk as [t|], tk2 as [t2|]; try discriminate; [|left; reflexivity].
        injection Etk as Et. unfold optP in IHt, T1, T2. destruct (IHt t2 T1 T2 Et) as [->|C]; [left; reflexivity|right; exact C]. }
      destruct Tk as [->|C]; [|right; exact C].
      destruct (args_inj_deep tid args IHa args2 (Forall_and_r _ _ _ A1) (Forall_and_r _ _ _ A2) Eargs) as [->|C];
        [left; reflexivity|right; exact C].
  Qed.
End DeepInj.

(* the user-facing statement: two configurations of any two graphs, both in the typed domain at every
   depth: equal identifiers force equal deep signatures, or exhibit a collision of H               *)
Theorem deep_ident_inj H cty cs1 h1 f1 st1 n1 cs2 h2 f2 st2 n2 t1 e1 t2 e2 d1 x1 d2 x2 :
  dnode cs1 h1 cty f1 st1 n1 = Ok (t1, e1) -> dnode cs2 h2 cty f2 st2 n2 = Ok (t2, e2) ->
  wfd H cty t1 -> wfd H cty t2 ->
  hnode H cs1 h1 (fun _ => None) f1 st1 n1 = Ok (d1, x1) -> hnode H cs2 h2 (fun _ => None) f2 st2 n2 = Ok (d2, x2) ->
  d1 = d2 -> t1 = t2 \/ collision H.
Proof.
  intros D1 D2 W1 W2 H1 H2 Ed.
  rewrite (hnode_deep H cs1 h1 cty), D1 in H1. rewrite (hnode_deep H cs2 h2 cty), D2 in H2. cbn [bind fst snd] in H1, H2.
  destruct (dnode_is_node cs1 h1 cty f1 st1 n1 (t1, e1) D1) as [tk1 [tid1 [a1 E1]]].
  destruct (dnode_is_node cs2 h2 cty f2 st2 n2 (t2, e2) D2) as [tk2 [tid2 [a2 E2]]]. cbn [fst] in E1, E2. subst t1 t2.
  apply (deep_inj H cty _ _ W1 W2). unfold node_id in H1, H2. cbn [flatten] in *. congruence.
Qed.

(* ---- the decidable deep domain test is sound --------------------------------------------------------- *)
Lemma sty_eqb_eq a : forall b, sty_eqb a b = true -> a = b.
Proof. induction a; intros [] E; cbn in E; try discriminate; try reflexivity; f_equal; apply IHa; exact E. Qed.

Theorem wfdb_sound H cty : forall v, wfdb H cty true v = true -> wfd H cty v.
Proof.
  induction v as [| z | b | s | q | k | l IHl | l IHl | tk tid args IHt IHa] using dval_ind2; intros E; try exact I.
  - apply wfd_list. cbn [wfdb] in E. rewrite forallb_forall in E. rewrite Forall_forall in *. intros x Hx. apply IHl; [exact Hx|apply E; exact Hx].
  - apply wfd_dict. cbn [wfdb] in E. rewrite forallb_forall in E. rewrite Forall_forall in *. intros x Hx. apply IHl; [exact Hx|apply (E x Hx)].
  - apply wfd_node. cbn [wfdb] in E. apply andb_prop in E. destruct E as [E E3]. apply andb_prop in E. destruct E as [E1 E2].
    split; [apply wf_sigb_ok; exact E1|]. split.
    + unfold optP in *. destruct tk as [t|]; [apply IHt; exact E2|exact I].
    + rewrite forallb_forall in E3. rewrite Forall_forall in *. intros a Ha. specialize (E3 a Ha). apply andb_prop in E3.
      destruct E3 as [Ety Ew]. split; [apply sty_eqb_eq; exact Ety|apply IHa; [exact Ha|exact Ew]].
Qed.

(* non-vacuity: an outer configuration holding a list of two nested configurations that differ in one
   integer, hashed with the identity "hash" (so streams are visible): well formed at every depth    *)
Example deep_example :
  let leaf := {| c_tid := [108]%N;
                 c_args := [{| a_name := [120]%N; a_ignored := false; a_gen := false; a_const := false;
                               a_required := true; a_default := None |}] |} in
  let outer := {| c_tid := [111]%N;
                  c_args := [{| a_name := [108]%N; a_ignored := false; a_gen := false; a_const := false;
                                a_required := true; a_default := None |}] |} in
  let mk c f := {| n_cls := c; n_fields := f; n_meta := None; n_task := None; n_pre := []; n_init := [] |} in
  let hp := [mk 1 [([108]%N, VList [VRef 1; VRef 2])]; mk 0 [([120]%N, VInt 5)]; mk 0 [([120]%N, VInt 6)]] in
  let cty := fun (tid k : bytes) => match tid with [111]%N => TList TObj | _ => TInt end in
  match dnode [leaf; outer] hp cty 6 [] 0 with
  | Ok (DNode None [111]%N [(_, TList TObj, DList [DNode None [108]%N [(_, TInt, DInt 5)]; DNode None [108]%N [(_, TInt, DInt 6)]])], _) => True
  | _ => False
  end.
Proof. vm_compute. exact I. Qed.
