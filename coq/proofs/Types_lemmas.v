(* C15 - proofs about model/Types.v *)
From Coq Require Import ZArith List Bool String Lia.
From XV Require Import model.Types.
Import ListNotations.
Open Scope Z_scope.

(* ================================================================ helpers *)
Lemma is_none_true : forall v, is_none v = true -> v = VNone.
Proof. destruct v; simpl; congruence. Qed.

Lemma mem_In : forall x l, mem x l = true <-> In x l.
Proof.
  intros x l. unfold mem. rewrite existsb_exists. split.
  - intros [y [Hy He]]. apply Nat.eqb_eq in He. subst. exact Hy.
  - intros H. exists x. split; [exact H | apply Nat.eqb_refl].
Qed.

Lemma mem_false_In : forall x l, mem x l = false -> ~ In x l.
Proof. intros x l H Hi. apply mem_In in Hi. congruence. Qed.

Lemma map_res_Forall : forall (f : value -> result value) (P : value -> Prop) l l',
  (forall x y, f x = Ok y -> P y) -> map_res f l = Ok l' -> Forall P l'.
Proof.
  intros f P l. induction l as [|x r IH]; intros l' Hf H; simpl in H.
  - inversion H. constructor.
  - destruct (f x) eqn:E; [|discriminate].
    destruct (map_res f r) eqn:E2; [|discriminate]. inversion H; subst.
    constructor; [eapply Hf; eauto | apply IH; auto].
Qed.

Lemma map_res_Forall2 : forall (f : value -> result value) (R : value -> value -> Prop) l l',
  (forall x y, R x y -> f x = Ok y) -> Forall2 R l l' -> map_res f l = Ok l'.
Proof.
  intros f R l l' Hf H. induction H; simpl; [reflexivity|].
  rewrite (Hf _ _ H), IHForall2. reflexivity.
Qed.

Lemma Forall_Forall2_diag : forall (A : Type) (R : A -> A -> Prop) l,
  Forall (fun x => R x x) l -> Forall2 R l l.
Proof. intros A R l H. induction H; constructor; auto. Qed.

Lemma Forall2_imp : forall (A B : Type) (R S : A -> B -> Prop) l l',
  (forall x y, R x y -> S x y) -> Forall2 R l l' -> Forall2 S l l'.
Proof. intros A B R S l l' H HF. induction HF; constructor; auto. Qed.

(* ------------------------------------------------------------- dict lemmas *)
Lemma dict_replace_keys : forall acc k v, map fst (dict_replace acc k v) = map fst acc.
Proof.
  induction acc as [|[k0 v0] r IH]; intros k v; simpl; [reflexivity|].
  destruct (keq k0 k); simpl; [reflexivity | rewrite IH; reflexivity].
Qed.

Lemma dict_replace_Forall : forall (PK PV : value -> Prop) acc k v,
  Forall (fun p => PK (fst p) /\ PV (snd p)) acc -> PV v ->
  Forall (fun p => PK (fst p) /\ PV (snd p)) (dict_replace acc k v).
Proof.
  intros PK PV acc. induction acc as [|[k0 v0] r IH]; intros k v H Hv; simpl; [constructor|].
  inversion H; subst. simpl in *. destruct (keq k0 k).
  - constructor; [simpl; tauto | assumption].
  - constructor; [simpl; tauto | apply IH; assumption].
Qed.

Lemma distinct_snoc : forall ks k,
  distinct_keys ks -> (forall a, In a ks -> keq a k = false) -> distinct_keys (ks ++ [k]).
Proof.
  induction ks as [|a r IH]; intros k Hd Hk; simpl.
  - split; [intros k' []| exact I].
  - destruct Hd as [Ha Hr]. split.
    + intros k' Hin. apply in_app_or in Hin. destruct Hin as [Hin|[<-|[]]].
      * apply Ha; assumption.
      * apply Hk. left. reflexivity.
    + apply IH; [assumption|]. intros b Hb. apply Hk. right. assumption.
Qed.

Lemma distinct_app_mid : forall l1 k l2,
  distinct_keys (l1 ++ k :: l2) -> forall a, In a l1 -> keq a k = false.
Proof.
  induction l1 as [|x r IH]; intros k l2 Hd a Ha; [destruct Ha|].
  simpl in Hd. destruct Hd as [Hx Hr]. destruct Ha as [<-|Ha].
  - apply Hx. apply in_or_app. right. left. reflexivity.
  - eapply IH; eauto.
Qed.

Lemma dict_mem_false : forall acc k,
  dict_mem acc k = false <-> (forall a, In a (map fst acc) -> keq a k = false).
Proof.
  intros acc k. unfold dict_mem. induction acc as [|[k0 v0] r IH]; simpl.
  - split; [intros _ a []| reflexivity].
  - rewrite orb_false_iff, IH. split.
    + intros [H1 H2] a [<-|Ha]; auto.
    + intros H. split; [apply H; left; reflexivity | intros a Ha; apply H; right; assumption].
Qed.

Lemma dict_set_inv : forall (PK PV : value -> Prop) acc k v,
  Forall (fun p => PK (fst p) /\ PV (snd p)) acc -> distinct_keys (map fst acc) -> PK k -> PV v ->
  Forall (fun p => PK (fst p) /\ PV (snd p)) (dict_set acc k v) /\
  distinct_keys (map fst (dict_set acc k v)).
Proof.
  intros PK PV acc k v HF HD Hk Hv. unfold dict_set. destruct (dict_mem acc k) eqn:E.
  - split; [apply dict_replace_Forall; assumption | rewrite dict_replace_keys; assumption].
  - split.
    + apply Forall_app. split; [assumption|]. constructor; [simpl; tauto | constructor].
    + rewrite map_app. simpl. apply distinct_snoc; [assumption|]. apply dict_mem_false. exact E.
Qed.

Lemma dict_build_sound : forall (fk fv : value -> result value) (PK PV : value -> Prop),
  (forall x y, fk x = Ok y -> PK y) -> (forall x y, fv x = Ok y -> PV y) ->
  forall ps acc out,
  Forall (fun p => PK (fst p) /\ PV (snd p)) acc -> distinct_keys (map fst acc) ->
  dict_build fk fv ps acc = Ok out ->
  Forall (fun p => PK (fst p) /\ PV (snd p)) out /\ distinct_keys (map fst out).
Proof.
  intros fk fv PK PV Hk Hv ps. induction ps as [|[k v] r IH]; intros acc out HF HD H; simpl in H.
  - inversion H; subst. tauto.
  - destruct (fk k) eqn:Ek; [|discriminate]. destruct (fv v) eqn:Ev; [|discriminate].
    destruct (dict_set_inv PK PV acc a a0 HF HD (Hk _ _ Ek) (Hv _ _ Ev)) as [HF' HD'].
    eapply IH; eauto.
Qed.

Lemma dict_build_exact : forall (fk fv : value -> result value) ps ps' acc,
  Forall2 (fun p p' => fk (fst p) = Ok (fst p') /\ fv (snd p) = Ok (snd p')) ps ps' ->
  distinct_keys (map fst (acc ++ ps')) ->
  dict_build fk fv ps acc = Ok (acc ++ ps').
Proof.
  intros fk fv ps ps' acc H. revert acc. induction H as [|[k v] [k' v'] r r' [Hk Hv] HR IH]; intros acc HD; simpl.
  - rewrite app_nil_r. reflexivity.
  - simpl in Hk, Hv. rewrite Hk, Hv.
    assert (E : dict_set acc k' v' = acc ++ [(k', v')]).
    { unfold dict_set. rewrite map_app in HD. simpl in HD.
      assert (M : dict_mem acc k' = false)
        by (apply dict_mem_false; intros a Ha; eapply distinct_app_mid; eauto).
      rewrite M. reflexivity. }
    rewrite E. rewrite IH.
    + rewrite <- app_assoc. reflexivity.
    + rewrite <- app_assoc. exact HD.
Qed.

(* ====================================================== Type.validate *)
Theorem validate_sound : forall cl t v v',
  validate cl t v = Ok v' -> has_type cl v' t.
Proof.
  intros cl t. unfold validate, has_type.
  induction t as [| | | | |e|t IH|tk IHk tv IHv|c]; intros v v' H; simpl in H.
  - destruct v as [|z|b|[z|x]|s|s|e m|l|ps|o c sub]; inversion H; subst; exact I.
  - destruct v as [|z|b|f|s|s|e m|l|ps|o c sub]; inversion H; subst; exact I.
  - destruct v; inversion H; subst; exact I.
  - destruct v; inversion H; subst; exact I.
  - destruct v as [|z|b|f|s|s|e m|l|ps|o c sub]; try discriminate.
    + inversion H; subst; exact I.
    + inversion H; subst; exact I.
    + destruct (dict_get ps (VStr "$type")) as [[| | | |tag| | | | |]|]; try discriminate.
      destruct (String.eqb tag "path"); [|discriminate].
      destruct (dict_get ps (VStr "$value")) as [[| | | |s|s| | | |]|]; try discriminate;
        inversion H; subst; exact I.
  - destruct v as [|z|b|f|s|s|e' m|l|ps|o c sub]; try discriminate.
    destruct (Nat.eqb e' e) eqn:E; [|discriminate]. inversion H; subst. simpl.
    apply Nat.eqb_eq. exact E.
  - destruct v as [|z|b|f|s|s|e' m|l|ps|o c sub]; try discriminate.
    destruct (map_res (validate_gen false cl t) l) eqn:E; [|discriminate].
    inversion H; subst. simpl. eapply map_res_Forall; [|exact E]. intros x y. apply IH.
  - destruct v as [|z|b|f|s|s|e' m|l|ps|o c sub]; try discriminate.
    destruct (dict_build (validate_gen false cl tk) (validate_gen false cl tv) ps []) eqn:E; [|discriminate].
    inversion H; subst. simpl.
    eapply (dict_build_sound _ _ (ht cl tk) (ht cl tv)); [apply IHk | apply IHv | | | exact E].
    + constructor.
    + exact I.
  - destruct v as [|z|b|f|s|s|e' m|l|ps|o c' sub]; try discriminate.
    destruct (subclass cl c' c) eqn:E; [|discriminate].
    destruct (class_task cl c && negb sub) eqn:E2; [discriminate|].
    inversion H; subst. simpl. split; [exact E|].
    intros Ht. rewrite Ht in E2. simpl in E2. destruct sub; [reflexivity | discriminate].
Qed.


(* a value of the type is stored as it is: it reads back equal *)
Lemma map_res_id : forall (f : value -> result value) l,
  Forall (fun x => f x = Ok x) l -> map_res f l = Ok l.
Proof.
  intros f l H. induction H; simpl; [reflexivity|]. rewrite H, IHForall. reflexivity.
Qed.

Theorem validate_conforming_gen : forall b cl t v,
  has_type cl v t -> validate_gen b cl t v = Ok v.
Proof.
  intros b cl t. unfold has_type.
  induction t as [| | | | |e|t IH|tk IHk tv IHv|c]; intros v H; simpl in H.
  - destruct v; try contradiction; reflexivity.
  - destruct v; try contradiction; reflexivity.
  - destruct v as [|z|b0|f|s|s|e m|l|ps|o c sub]; try contradiction. destruct b; reflexivity.
  - destruct v; try contradiction; reflexivity.
  - destruct v; try contradiction; reflexivity.
  - destruct v as [|z|b0|f|s|s|e' m|l|ps|o c sub]; try contradiction. subst. simpl.
    rewrite Nat.eqb_refl. reflexivity.
  - destruct v as [|z|b0|f|s|s|e' m|l|ps|o c sub]; try contradiction. simpl.
    rewrite map_res_id; [reflexivity|]. eapply Forall_impl; [|exact H]. intros x Hx. apply IH. exact Hx.
  - destruct v as [|z|b0|f|s|s|e' m|l|ps|o c sub]; try contradiction. simpl.
    destruct H as [HF HD].
    rewrite (dict_build_exact _ _ ps ps []); [reflexivity| |exact HD].
    apply Forall_Forall2_diag. eapply Forall_impl; [|exact HF].
    intros [k v] [Hk Hv]. simpl in *. split; [apply IHk | apply IHv]; assumption.
  - destruct v as [|z|b0|f|s|s|e' m|l|ps|o c' sub]; try contradiction. simpl.
    destruct H as [Hs Ht]. rewrite Hs.
    destruct (class_task cl c) eqn:E; simpl; [|reflexivity].
    rewrite (Ht eq_refl). reflexivity.
Qed.

Theorem validate_conforming : forall cl t v, has_type cl v t -> validate cl t v = Ok v.
Proof. intros. apply validate_conforming_gen. assumption. Qed.

Corollary validate_idempotent : forall cl t v v',
  validate cl t v = Ok v' -> validate cl t v' = Ok v'.
Proof. intros. apply validate_conforming. eapply validate_sound; eauto. Qed.

(* nothing is ever of a type and None at once *)
Lemma has_type_not_none : forall cl t, ~ has_type cl VNone t.
Proof. intros cl t. unfold has_type. destruct t; simpl; auto. Qed.

(* the documented coercions are applied, at any depth, and nothing else changes *)
Lemma has_type_coerced : forall cl t v, has_type cl v t -> coerced cl t v v.
Proof.
  intros cl t. unfold has_type.
  induction t as [| | | | |e|t IH|tk IHk tv IHv|c]; intros v H; simpl; try (left; split; [exact H|reflexivity]);
    try (split; [exact H | reflexivity]).
  - simpl in H. destruct v as [|z|b0|f|s|s|e' m|l|ps|o c sub]; try contradiction.
    exists l, l. split; [reflexivity|]. split; [reflexivity|].
    apply Forall_Forall2_diag. eapply Forall_impl; [|exact H]. intros x Hx. apply IH. exact Hx.
  - simpl in H. destruct v as [|z|b0|f|s|s|e' m|l|ps|o c sub]; try contradiction.
    destruct H as [HF HD]. exists ps, ps. split; [reflexivity|]. split; [reflexivity|]. split; [|exact HD].
    apply Forall_Forall2_diag. eapply Forall_impl; [|exact HF].
    intros [k v] [Hk Hv]. simpl in *. split; [apply IHk | apply IHv]; assumption.
Qed.

Theorem validate_coerces : forall cl t v v', coerced cl t v v' -> validate cl t v = Ok v'.
Proof.
  intros cl t. unfold validate.
  induction t as [| | | | |e|t IH|tk IHk tv IHv|c]; intros v v' H; simpl in H.
  - destruct H as [[H ->]|[z [-> ->]]]; [apply validate_conforming_gen; exact H | reflexivity].
  - destruct H as [[H ->]|[z [-> ->]]]; [apply validate_conforming_gen; exact H | reflexivity].
  - destruct H as [H ->]. apply validate_conforming_gen; exact H.
  - destruct H as [H ->]. apply validate_conforming_gen; exact H.
  - destruct H as [[H ->]|[s [-> ->]]]; [apply validate_conforming_gen; exact H | reflexivity].
  - destruct H as [H ->]. apply validate_conforming_gen; exact H.
  - destruct H as [l [l' [-> [-> HF]]]]. simpl.
    rewrite (map_res_Forall2 _ (coerced cl t) l l'); [reflexivity| |exact HF].
    intros x y Hxy. apply IH. exact Hxy.
  - destruct H as [ps [ps' [-> [-> [HF HD]]]]]. simpl.
    rewrite (dict_build_exact _ _ ps ps' []); [reflexivity| |exact HD].
    eapply Forall2_imp; [|exact HF]. intros p p' [Hk Hv]. split; [apply IHk | apply IHv]; assumption.
  - destruct H as [H ->]. apply validate_conforming_gen; exact H.
Qed.

(* ---- what is accepted is the given value up to the documented coercions, or a listed oddity *)
Lemma map_res_pairs : forall (f : value -> result value) l l',
  map_res f l = Ok l' -> Forall2 (fun x y => f x = Ok y) l l'.
Proof.
  intros f l. induction l as [|x r IH]; intros l' H; simpl in H.
  - inversion H. constructor.
  - destruct (f x) eqn:E; [|discriminate]. destruct (map_res f r) eqn:E2; [|discriminate].
    inversion H; subst. constructor; [exact E | apply IH; reflexivity].
Qed.

Lemma Forall2_or_split : forall (A B : Type) (R : A -> B -> Prop) (P : A -> Prop) l l',
  Forall2 (fun x y => R x y \/ P x) l l' -> Forall2 R l l' \/ Exists P l.
Proof.
  intros A B R P l l' H. induction H as [|x y r r' [Hxy|Hx] _ [IH|IH]].
  - left. constructor.
  - left. constructor; assumption.
  - right. apply Exists_cons_tl. exact IH.
  - right. apply Exists_cons_hd. exact Hx.
  - right. apply Exists_cons_hd. exact Hx.
Qed.

Lemma dict_build_pairs : forall (fk fv : value -> result value) ps acc out,
  dict_build fk fv ps acc = Ok out ->
  exists qs, Forall2 (fun p q => fk (fst p) = Ok (fst q) /\ fv (snd p) = Ok (snd q)) ps qs.
Proof.
  intros fk fv ps. induction ps as [|[k v] r IH]; intros acc out H; simpl in H.
  - exists []. constructor.
  - destruct (fk k) as [k'|] eqn:Ek; [|discriminate]. destruct (fv v) as [v'|] eqn:Ev; [|discriminate].
    destruct (IH _ _ H) as [qs Hq]. exists ((k', v') :: qs). constructor; [split; assumption | exact Hq].
Qed.

Lemma distinct_keys_dec : forall ks, distinct_keys ks \/ ~ distinct_keys ks.
Proof.
  induction ks as [|k r [IH|IH]]; simpl.
  - left. exact I.
  - destruct (existsb (keq k) r) eqn:E.
    + right. intros [H _]. apply existsb_exists in E. destruct E as [k' [Hin Hk]].
      rewrite (H k' Hin) in Hk. discriminate.
    + left. split; [|exact IH]. intros k' Hin.
      destruct (keq k k') eqn:E2; [|reflexivity].
      assert (existsb (keq k) r = true) by (apply existsb_exists; exists k'; auto). congruence.
  - right. intros [_ H]. contradiction.
Qed.

(* REPAIRED validate: a value that is accepted is the given value up to the documented
   coercions (integral float -> int, int -> float, str -> path, at any depth), unless one
   of the listed oddities occurs in it: a bool at a float position, the serialised dict
   form at a path position, dict keys that collapse                                     *)
Theorem validate_explained : forall cl t v v',
  validate cl t v = Ok v' -> coerced cl t v v' \/ odd cl t v.
Proof.
  intros cl t. unfold validate.
  induction t as [| | | | |e|t IH|tk IHk tv IHv|c]; intros v v' H.
  - simpl in H. destruct v as [|z|b|[z|x]|s|s|e m|l|ps|o c sub]; inversion H; subst; left; simpl.
    + left. split; [exact I | reflexivity].
    + left. split; [exact I | reflexivity].
    + right. exists z. split; reflexivity.
  - simpl in H. destruct v as [|z|b|f|s|s|e m|l|ps|o c sub]; inversion H; subst; simpl.
    + left. right. exists z. split; reflexivity.
    + right. exists b. reflexivity.
    + left. left. split; [exact I | reflexivity].
  - simpl in H. destruct v; inversion H; subst. left. simpl. split; [exact I | reflexivity].
  - simpl in H. destruct v; inversion H; subst. left. simpl. split; [exact I | reflexivity].
  - destruct v as [|z|b|f|s|s|e m|l|ps|o c sub]; try (simpl in H; discriminate).
    + simpl in H. inversion H; subst. left. simpl. right. exists s. split; reflexivity.
    + simpl in H. inversion H; subst. left. simpl. left. split; [exact I | reflexivity].
    + right. simpl. exists ps. reflexivity.
  - simpl in H. destruct v as [|z|b|f|s|s|e' m|l|ps|o c sub]; try discriminate.
    destruct (Nat.eqb e' e) eqn:E; [|discriminate]. inversion H; subst. left. simpl.
    split; [apply Nat.eqb_eq; exact E | reflexivity].
  - simpl in H. destruct v as [|z|b|f|s|s|e' m|l|ps|o c sub]; try discriminate.
    destruct (map_res (validate_gen false cl t) l) as [l'|] eqn:E; [|discriminate].
    inversion H; subst. apply map_res_pairs in E.
    assert (E' : Forall2 (fun x y => coerced cl t x y \/ odd cl t x) l l').
    { eapply Forall2_imp; [|exact E]. intros x y Hxy. apply IH. exact Hxy. }
    apply Forall2_or_split in E'. destruct E' as [E'|E'].
    + left. simpl. exists l, l'. auto.
    + right. simpl. exists l. auto.
  - simpl in H. destruct v as [|z|b|f|s|s|e' m|l|ps|o c sub]; try discriminate.
    destruct (dict_build (validate_gen false cl tk) (validate_gen false cl tv) ps []) as [out|] eqn:E; [|discriminate].
    inversion H; subst. destruct (dict_build_pairs _ _ _ _ _ E) as [qs Hq].
    destruct (distinct_keys_dec (map fst qs)) as [HD|HD].
    + assert (Eo : out = qs).
      { pose proof (dict_build_exact _ _ ps qs [] Hq HD) as E2. simpl in E2. rewrite E in E2. inversion E2. reflexivity. }
      subst out.
      assert (E' : Forall2 (fun p q => (coerced cl tk (fst p) (fst q) /\ coerced cl tv (snd p) (snd q)) \/
                                      (odd cl tk (fst p) \/ odd cl tv (snd p))) ps qs).
      { eapply Forall2_imp; [|exact Hq]. intros p q [Hk Hv].
        destruct (IHk _ _ Hk) as [Ck|Ok_]; [|right; left; exact Ok_].
        destruct (IHv _ _ Hv) as [Cv|Ov]; [left; split; assumption | right; right; exact Ov]. }
      apply Forall2_or_split in E'. destruct E' as [E'|E'].
      * left. simpl. exists ps, qs. auto.
      * right. simpl. exists ps. split; [reflexivity|]. left. exact E'.
    + right. simpl. exists ps. split; [reflexivity|]. right. exists (map fst qs). split; [|exact HD].
      clear - Hq. induction Hq as [|p q r r' [Hk _] _ IH]; simpl; constructor; [exact Hk | exact IH].
  - left. pose proof (validate_sound cl (TObj c) v v' H) as Ht. simpl in H.
    destruct v as [|z|b|f|s|s|e' m|l|ps|o c' sub]; try discriminate.
    destruct (subclass cl c' c); [|discriminate]. destruct (class_task cl c && negb sub); [discriminate|].
    inversion H; subst. simpl. split; [exact Ht | reflexivity].
Qed.

(* hence: a value that is not of the type up to the documented coercions, and contains
   none of the listed oddities, is REJECTED (the assignment raises)                    *)
Corollary nonconforming_rejected : forall cl t v,
  (forall v', ~ coerced cl t v v') -> ~ odd cl t v -> validate cl t v = Err.
Proof.
  intros cl t v Hc Ho. destruct (validate cl t v) as [v'|] eqn:E; [|reflexivity].
  destruct (validate_explained _ _ _ _ E) as [H|H]; [exfalso; eapply Hc; exact H | contradiction].
Qed.

(* each listed oddity does occur (same behaviour in the code) *)
Example odd_bool_as_float : validate [] TFloat (VBool true) = Ok (VFloat (FInt 1)) /\ odd [] TFloat (VBool true).
Proof. split; [reflexivity | exists true; reflexivity]. Qed.
Example odd_path_dict :
  validate [] TPath (VDict [(VStr "$type", VStr "path"); (VStr "$value", VStr "q")]) = Ok (VPath "q").
Proof. reflexivity. Qed.
Example odd_keys_collapse :
  validate [] (TDict TFloat TStr) (VDict [(VInt 1, VStr "a"); (VFloat (FInt 1), VStr "b")]) = Ok (VDict [(VFloat (FInt 1), VStr "b")]).
Proof. reflexivity. Qed.
Example nonconforming_rejected_ex :
  validate [] (TList (TDict TStr TBool)) (VList [VDict [(VStr "k", VDict [(VInt 1, VNone)])]]) = Err /\
  validate [] TBool (VList [VStr "x"]) = Err /\ validate [] TBool (VInt 1) = Err.
Proof. repeat split. Qed.

(* the code as it is: bool(value) for ANY value - Param[bool] given ["x"], "no" or 0.5
   silently stores True: not the given value up to any documented coercion           *)
Theorem bool_accepts_anything_refuted : exists cl v v',
  validate_prefix cl TBool v = Ok v' /\ ~ coerced cl TBool v v' /\ ~ odd cl TBool v /\
  validate_prefix cl TBool (VStr "no") = Ok (VBool true).
Proof.
  exists [], (VList [VStr "x"]), (VBool true). split; [reflexivity|].
  split; [simpl; intros [H _]; exact H|]. split; [simpl; tauto | reflexivity].
Qed.

(* the pinned commit lets None through wherever a configuration is expected *)
Theorem none_in_container_refuted : exists cl t v v',
  validate_prefix cl t v = Ok v' /\ ~ has_type cl v' t.
Proof.
  exists [ {| c_parents := []; c_task := false; c_args := [] |} ], (TList (TObj 0)), (VList [VNone]), (VList [VNone]).
  split; [reflexivity|]. unfold has_type. simpl. intros H. inversion H; subst. assumption.
Qed.

(* ================================================= ConfigInformation.set *)
Theorem assign_sound : forall cl d sealed bypass v v',
  assign cl d sealed bypass v = Ok v' -> arg_has_type cl d v'.
Proof.
  intros cl d sealed bypass v v'. unfold assign, assign_gen, arg_has_type.
  destruct (sealed && negb bypass); [discriminate|].
  destruct (negb bypass && (a_generated d || a_constant d)); [discriminate|].
  destruct (is_none v).
  - destruct (a_required d); [discriminate|].
    destruct (negb false && negb bypass && negb (a_optional d)); [discriminate|].
    intros H. inversion H. left. auto.
  - unfold arg_validate_gen. intros H. right.
    destruct (validate_gen false cl (a_ty d) v) as [x|] eqn:E; [|discriminate].
    destruct (check_ok (a_checker d) x); [|discriminate]. inversion H; subst.
    eapply validate_sound. exact E.
Qed.

(* Argument.validate: what a parameter with a checker stores is the COERCED value
   (never the caller's raw value), and the checker has accepted that coerced value   *)
Theorem arg_validate_coerced : forall cl d v v',
  arg_validate cl d v = Ok v' ->
  validate cl (a_ty d) v = Ok v' /\ check_ok (a_checker d) v' = true /\ has_type cl v' (a_ty d).
Proof.
  intros cl d v v'. unfold arg_validate, arg_validate_gen, validate.
  destruct (validate_gen false cl (a_ty d) v) as [x|] eqn:E; [|discriminate].
  destruct (check_ok (a_checker d) x) eqn:C; [|discriminate]. intros H. inversion H; subst.
  split; [reflexivity|]. split; [exact C|]. eapply validate_sound. exact E.
Qed.

Theorem arg_validate_accepts : forall cl d v v',
  coerced cl (a_ty d) v v' -> check_ok (a_checker d) v' = true -> arg_validate cl d v = Ok v'.
Proof.
  intros cl d v v' Hc Hk. unfold arg_validate, arg_validate_gen.
  pose proof (validate_coerces cl (a_ty d) v v' Hc) as E. unfold validate in E. rewrite E, Hk. reflexivity.
Qed.

Theorem arg_validate_checker_refuses : forall cl d v v',
  validate cl (a_ty d) v = Ok v' -> check_ok (a_checker d) v' = false -> arg_validate cl d v = Err.
Proof.
  intros cl d v v' E Hk. unfold arg_validate, arg_validate_gen. unfold validate in E. rewrite E, Hk. reflexivity.
Qed.

(* what an assignment (not the library's own bypass) stores: None only for a parameter
   declared Optional; anything else is the coerced value and passed the checker       *)
Theorem assign_stored : forall cl d sealed v v',
  assign cl d sealed false v = Ok v' ->
  (v = VNone /\ v' = VNone /\ a_optional d = true /\ a_required d = false) \/
  (v <> VNone /\ validate cl (a_ty d) v = Ok v' /\ check_ok (a_checker d) v' = true).
Proof.
  intros cl d sealed v v'. unfold assign, assign_gen.
  destruct (sealed && negb false); [discriminate|].
  destruct (negb false && (a_generated d || a_constant d)); [discriminate|].
  destruct (is_none v) eqn:E.
  - apply is_none_true in E. subst v. destruct (a_required d); [discriminate|].
    destruct (a_optional d); simpl; [|discriminate]. intros H. inversion H. left. auto.
  - intros H. right. split; [intros ->; discriminate|].
    destruct (arg_validate_coerced cl d v v' H) as [A [B _]]. auto.
Qed.

Lemma get_set_same : forall fs k v, get_field (set_field fs k v) k = Some v.
Proof.
  induction fs as [|[k0 v0] r IH]; intros k v; simpl.
  - rewrite Nat.eqb_refl. reflexivity.
  - destruct (Nat.eqb k0 k) eqn:E; simpl; rewrite E; [reflexivity | apply IH].
Qed.

Lemma get_set_other : forall fs k j v, j <> k -> get_field (set_field fs k v) j = get_field fs j.
Proof.
  induction fs as [|[k0 v0] r IH]; intros k j v Hj; simpl.
  - destruct (Nat.eqb k j) eqn:E; [apply Nat.eqb_eq in E; congruence | reflexivity].
  - destruct (Nat.eqb k0 k) eqn:E; simpl.
    + apply Nat.eqb_eq in E. subst k0. destruct (Nat.eqb k j) eqn:E2; [apply Nat.eqb_eq in E2; congruence | reflexivity].
    + destruct (Nat.eqb k0 j); [reflexivity | apply IH; assumption].
Qed.

(* an assignment either raises and changes nothing, or stores a value of the
   declared type (None only where the parameter is not required) and touches
   nothing else                                                               *)
Theorem assign_stores_or_raises : forall cl n k v n' o,
  cfg_set cl n k v = (n', o) ->
  (o <> Stored /\ n' = n) \/
  (o = Stored /\ exists d v',
      nth_error (class_args cl (n_cls n)) k = Some d /\
      cfg_get n' k = Some v' /\ arg_has_type cl d v' /\
      (forall j, j <> k -> cfg_get n' j = cfg_get n j) /\
      n_cls n' = n_cls n /\ n_pre n' = n_pre n /\ n_init n' = n_init n /\ n_sealed n' = n_sealed n).
Proof.
  intros cl n k v n' o. unfold cfg_set.
  destruct (nth_error (class_args cl (n_cls n)) k) as [d|] eqn:Ed.
  - destruct (assign cl d (n_sealed n) false v) as [v'|] eqn:Ea; intros H; inversion H; subst; clear H.
    + right. split; [reflexivity|]. exists d, v'. unfold cfg_get. simpl.
      split; [reflexivity|]. split; [apply get_set_same|].
      split; [eapply assign_sound; exact Ea|].
      split; [intros j Hj; apply get_set_other; assumption|]. auto.
    + left. split; [discriminate | reflexivity].
  - intros H. inversion H; subst. left. split; [discriminate | reflexivity].
Qed.

(* a value of the declared type, given to a writable parameter, reads back equal *)
Theorem readback : forall cl n k d v,
  nth_error (class_args cl (n_cls n)) k = Some d ->
  n_sealed n = false -> a_generated d = false -> a_constant d = false ->
  (v = VNone /\ a_required d = false /\ a_optional d = true) \/
  (has_type cl v (a_ty d) /\ check_ok (a_checker d) v = true) ->
  exists n', cfg_set cl n k v = (n', Stored) /\ cfg_get n' k = Some v.
Proof.
  intros cl n k d v Hd Hs Hg Hc Ht. unfold cfg_set. rewrite Hd.
  assert (Ea : assign cl d (n_sealed n) false v = Ok v).
  { unfold assign, assign_gen. rewrite Hs, Hg, Hc. simpl.
    destruct Ht as [[-> [Hr Ho]]|[Ht Hk]].
    - simpl. rewrite Hr, Ho. reflexivity.
    - destruct (is_none v) eqn:E.
      + apply is_none_true in E. subst. exfalso. eapply has_type_not_none; eauto.
      + unfold arg_validate_gen. rewrite (validate_conforming_gen false cl (a_ty d) v Ht), Hk. reflexivity. }
  rewrite Ea. eexists. split; [reflexivity|]. unfold cfg_get. simpl. apply get_set_same.
Qed.

(* ============================================ ConfigInformation.validate *)
Section Walk.
  Variable ob : value -> list nat.
  Hypothesis ob_none : ob VNone = [].
  Variable cl : classes.
  Variable h : heap.

  Let acts := actions_of ob cl h.

  (* ---- the actions of a node, in source terms *)
  Lemma afail_not_visit : forall l, ~ In AFail (map AVisit l).
  Proof. intros l H. apply in_map_iff in H. destruct H as [x [Hx _]]. discriminate. Qed.

  Lemma afail_arg : forall d fv,
    In AFail (arg_actions ob d fv) <->
    (a_required d = true /\ a_generated d = false /\ (fv = None \/ fv = Some VNone)).
  Proof.
    intros d fv. unfold arg_actions. destruct fv as [v|].
    - destruct (is_none v) eqn:E.
      + apply is_none_true in E. subst v.
        destruct (a_required d); destruct (a_generated d); simpl; split; intros H;
          try tauto; try (destruct H as [? [? ?]]; discriminate).
      + split.
        * intros H. exfalso. eapply afail_not_visit; eauto.
        * intros [_ [_ [H|H]]]; [discriminate|]. inversion H; subst. discriminate.
    - destruct (a_required d); destruct (a_generated d); simpl; split; intros H;
        try tauto; try (destruct H as [? [? ?]]; discriminate).
  Qed.

  Lemma avisit_arg : forall d fv b,
    In (AVisit b) (arg_actions ob d fv) <-> (exists v, fv = Some v /\ In b (ob v)).
  Proof.
    intros d fv b. unfold arg_actions. destruct fv as [v|].
    - destruct (is_none v) eqn:E.
      + apply is_none_true in E. subst v. split.
        * destruct (a_required d && negb (a_generated d)); simpl; intros H; [destruct H as [H|[]]; discriminate | contradiction].
        * intros [v [Hv Hb]]. inversion Hv; subst. rewrite ob_none in Hb. contradiction.
      + rewrite in_map_iff. split.
        * intros [x [Hx Hin]]. inversion Hx; subst. eauto.
        * intros [v' [Hv Hb]]. inversion Hv; subst. eauto.
    - split.
      + destruct (a_required d && negb (a_generated d)); simpl; intros H; [destruct H as [H|[]]; discriminate | contradiction].
      + intros [v [Hv _]]. discriminate.
  Qed.

  Lemma in_args_actions : forall ds fs i a,
    In a (args_actions ob ds fs i) <->
    exists j d, nth_error ds j = Some d /\ In a (arg_actions ob d (get_field fs (i + j))).
  Proof.
    induction ds as [|d r IH]; intros fs i a; simpl.
    - split; [contradiction|]. intros [j [d [H _]]]. destruct j; discriminate.
    - rewrite in_app_iff, IH. split.
      + intros [H|[j [d' [Hj Ha]]]].
        * exists 0%nat, d. rewrite Nat.add_0_r. auto.
        * exists (S j), d'. rewrite Nat.add_succ_r. auto.
      + intros [j [d' [Hj Ha]]]. destruct j as [|j]; simpl in Hj.
        * inversion Hj; subst. rewrite Nat.add_0_r in Ha. left. exact Ha.
        * right. exists j, d'. rewrite Nat.add_succ_r in Ha. auto.
  Qed.

  Lemma lacks_acts : forall m, lacks_required cl h m <-> In AFail (acts m).
  Proof.
    intros m. unfold lacks_required, acts, actions_of. split.
    - intros [n [i [d [Hn [Hd [Hr [Hg Hv]]]]]]]. rewrite Hn. unfold node_actions.
      apply in_or_app. left. apply in_args_actions. exists i, d. split; [exact Hd|].
      simpl. apply afail_arg. auto.
    - destruct (nth_error h m) as [n|] eqn:Hn; [|contradiction].
      unfold node_actions. rewrite !in_app_iff. intros [H|[H|H]].
      + apply in_args_actions in H. destruct H as [j [d [Hd Ha]]]. simpl in Ha.
        apply afail_arg in Ha. destruct Ha as [Hr [Hg Hv]]. exists n, j, d. auto.
      + exfalso. eapply afail_not_visit; eauto.
      + exfalso. eapply afail_not_visit; eauto.
  Qed.

  Lemma edge_acts : forall a b, cfg_edge ob cl h a b <-> In (AVisit b) (acts a).
  Proof.
    intros a b. unfold cfg_edge, acts, actions_of. split.
    - intros [n [Hn H]]. rewrite Hn. unfold node_actions. rewrite !in_app_iff.
      destruct H as [[i [d [v [Hd [Hv Hb]]]]]|[H|H]].
      + left. apply in_args_actions. exists i, d. split; [exact Hd|]. simpl. apply avisit_arg. eauto.
      + right. left. apply in_map. exact H.
      + right. right. apply in_map. exact H.
    - destruct (nth_error h a) as [n|] eqn:Hn; [|contradiction].
      unfold node_actions. rewrite !in_app_iff. intros H. exists n. split; [reflexivity|].
      destruct H as [H|[H|H]].
      + left. apply in_args_actions in H. destruct H as [j [d [Hd Ha]]]. simpl in Ha.
        apply avisit_arg in Ha. destruct Ha as [v [Hv Hb]]. exists j, d, v. auto.
      + right. left. apply in_map_iff in H. destruct H as [x [Hx Hin]]. inversion Hx; subst. exact Hin.
      + right. right. apply in_map_iff in H. destruct H as [x [Hx Hin]]. inversion Hx; subst. exact Hin.
  Qed.

  (* ---- invariant of the walk: every action of a marked node is either still
          pending or is a visit of a marked node *)
  Definition inv (vis : list nat) (todo : list action) : Prop :=
    forall n a, In n vis -> In a (acts n) -> In a todo \/ exists m, a = AVisit m /\ In m vis.

  (* a set of marks is sound when every marked node is complete and all the
     configurations it refers to are marked as well (what a successful validation leaves) *)
  Definition closed_marks (vis : list nat) : Prop := inv vis [].

  Lemma run_ok_closed : forall fuel vis todo vis',
    inv vis todo -> run ob cl h fuel vis todo = Some (VOk vis') ->
    incl vis vis' /\ (forall m, In (AVisit m) todo -> In m vis') /\ closed_marks vis'.
  Proof.
    induction fuel as [|f IH]; intros vis todo vis' Hinv H; simpl in H; [discriminate|].
    destruct todo as [|[|m] rest].
    - inversion H; subst. split; [apply incl_refl|]. split; [intros m []|exact Hinv].
    - discriminate.
    - destruct (mem m vis) eqn:Em.
      + apply mem_In in Em.
        assert (Hinv' : inv vis rest).
        { intros n a Hn Ha. destruct (Hinv n a Hn Ha) as [[<-|Hr]|Hr]; [right; eauto | left; exact Hr | right; exact Hr]. }
        destruct (IH _ _ _ Hinv' H) as [Hi [Ht Hc]]. split; [exact Hi|]. split; [|exact Hc].
        intros m' [Hm|Hm]; [inversion Hm; subst; apply Hi; exact Em | apply Ht; exact Hm].
      + assert (Hinv' : inv (m :: vis) (acts m ++ rest)).
        { intros n a Hn Ha. destruct Hn as [<-|Hn].
          - left. apply in_or_app. left. exact Ha.
          - destruct (Hinv n a Hn Ha) as [[<-|Hr]|[m0 [-> Hm0]]].
            + right. exists m. split; [reflexivity | left; reflexivity].
            + left. apply in_or_app. right. exact Hr.
            + right. exists m0. split; [reflexivity | right; exact Hm0]. }
        destruct (IH _ _ _ Hinv' H) as [Hi [Ht Hc]].
        split; [intros x Hx; apply Hi; right; exact Hx|]. split; [|exact Hc].
        intros m' [Hm|Hm].
        * inversion Hm; subst. apply Hi. left. reflexivity.
        * apply Ht. apply in_or_app. right. exact Hm.
  Qed.

  Lemma closed_reach : forall vis a b,
    closed_marks vis -> In a vis -> reach ob cl h a b -> In b vis.
  Proof.
    intros vis a b Hc Ha Hr. induction Hr as [a|a b c Hab IH Hbc]; [exact Ha|].
    specialize (IH Ha). apply edge_acts in Hbc.
    destruct (Hc b (AVisit c) IH Hbc) as [[]|[m [Hm Hin]]]. inversion Hm; subst. exact Hin.
  Qed.

  Lemma closed_complete : forall vis m, closed_marks vis -> In m vis -> ~ lacks_required cl h m.
  Proof.
    intros vis m Hc Hm Hl. apply lacks_acts in Hl.
    destruct (Hc m AFail Hm Hl) as [[]|[m' [Hm' _]]]. discriminate.
  Qed.

  (* acceptance is sound: nothing reachable lacks a required value *)
  Lemma run_never_accepts_missing : forall fuel vis0 root m vis',
    closed_marks vis0 -> reach ob cl h root m -> lacks_required cl h m ->
    run ob cl h fuel vis0 [AVisit root] <> Some (VOk vis').
  Proof.
    intros fuel vis0 root m vis' Hc Hr Hl H.
    assert (Hinv : inv vis0 [AVisit root]).
    { intros n a Hn Ha. destruct (Hc n a Hn Ha) as [[]|Hx]. right. exact Hx. }
    destruct (run_ok_closed _ _ _ _ Hinv H) as [_ [Ht Hc']].
    assert (Hroot : In root vis') by (apply Ht; left; reflexivity).
    eapply closed_complete; [exact Hc'| |exact Hl].
    eapply closed_reach; eauto.
  Qed.

  (* ---- termination: the fuel of fuel_for is enough *)
  Fixpoint weight_from (i : nat) (l : heap) (vis : list nat) : nat :=
    match l with
    | [] => O
    | n :: r => (if mem i vis then O else S (List.length (node_actions ob cl n))) + weight_from (S i) r vis
    end.

  Lemma weight_le_total : forall l i vis, (weight_from i l vis <= total_actions ob cl l)%nat.
  Proof.
    induction l as [|n r IH]; intros i vis; simpl; [lia|].
    specialize (IH (S i) vis). destruct (mem i vis); lia.
  Qed.

  Lemma mem_cons : forall j m vis, mem j (m :: vis) = Nat.eqb j m || mem j vis.
  Proof. reflexivity. Qed.

  Lemma weight_mono : forall l i vis m, (weight_from i l (m :: vis) <= weight_from i l vis)%nat.
  Proof.
    induction l as [|n r IH]; intros i vis m; cbn [weight_from]; [lia|].
    specialize (IH (S i) vis m). rewrite mem_cons.
    destruct (Nat.eqb i m); destruct (mem i vis); simpl; lia.
  Qed.

  Lemma weight_visit : forall l i vis m n,
    mem m vis = false -> (i <= m)%nat -> nth_error l (m - i) = Some n ->
    (weight_from i l (m :: vis) + S (List.length (node_actions ob cl n)) <= weight_from i l vis)%nat.
  Proof.
    induction l as [|n0 r IH]; intros i vis m n Hm Hi Hn; [destruct (m - i)%nat; discriminate|].
    cbn [weight_from]. rewrite mem_cons. destruct (Nat.eq_dec i m) as [->|Hne].
    - rewrite Nat.sub_diag in Hn. simpl in Hn. inversion Hn; subst.
      rewrite Nat.eqb_refl, Hm. simpl. pose proof (weight_mono r (S m) vis m). lia.
    - assert (E : Nat.eqb i m = false) by (apply Nat.eqb_neq; exact Hne). rewrite E. simpl.
      replace (m - i)%nat with (S (m - S i)) in Hn by lia. simpl in Hn.
      assert (Hi' : (S i <= m)%nat) by lia.
      pose proof (IH (S i) vis m n Hm Hi' Hn). destruct (mem i vis); lia.
  Qed.

  Lemma run_terminates : forall fuel vis todo,
    (weight_from 0 h vis + List.length todo < fuel)%nat -> run ob cl h fuel vis todo <> None.
  Proof.
    induction fuel as [|f IH]; intros vis todo Hf; [lia|]. simpl.
    destruct todo as [|[|m] rest]; try discriminate.
    simpl in Hf. destruct (mem m vis) eqn:Em.
    - apply IH. lia.
    - apply IH. rewrite app_length. unfold acts, actions_of.
      destruct (nth_error h m) as [n|] eqn:En.
      + assert (H0 : (0 <= m)%nat) by lia.
        assert (En' : nth_error h (m - 0) = Some n) by (rewrite Nat.sub_0_r; exact En).
        pose proof (weight_visit h 0 vis m n Em H0 En'). lia.
      + pose proof (weight_mono h 0 vis m). simpl. lia.
  Qed.

  Lemma run_fuel_for : forall vis root, run ob cl h (fuel_for ob cl h) vis [AVisit root] <> None.
  Proof.
    intros vis root. apply run_terminates. unfold fuel_for. simpl.
    pose proof (weight_le_total h 0 vis). lia.
  Qed.

  (* ---- rejection: a reachable node lacking a required value makes validation raise *)
  Theorem run_rejects : forall vis0 root m,
    closed_marks vis0 -> reach ob cl h root m -> lacks_required cl h m ->
    exists vis, run ob cl h (fuel_for ob cl h) vis0 [AVisit root] = Some (VErr vis).
  Proof.
    intros vis0 root m Hc Hr Hl.
    destruct (run ob cl h (fuel_for ob cl h) vis0 [AVisit root]) as [[vis|vis]|] eqn:E.
    - exfalso. eapply run_never_accepts_missing; eauto.
    - eauto.
    - exfalso. eapply run_fuel_for; eauto.
  Qed.

  (* ---- acceptance: a graph without missing values is accepted *)
  Lemma reach_trans_edge : forall a b c, reach ob cl h a b -> cfg_edge ob cl h b c -> reach ob cl h a c.
  Proof. intros. eapply reach_step; eauto. Qed.

  Lemma run_accepts_aux : forall root,
    (forall m, reach ob cl h root m -> ~ lacks_required cl h m) ->
    forall fuel vis todo r,
    (forall a, In a todo -> exists m, a = AVisit m /\ reach ob cl h root m) ->
    run ob cl h fuel vis todo = Some r -> exists vis', r = VOk vis'.
  Proof.
    intros root Hok. induction fuel as [|f IH]; intros vis todo r Hj H; simpl in H; [discriminate|].
    destruct todo as [|[|m] rest].
    - inversion H. eauto.
    - destruct (Hj AFail (or_introl eq_refl)) as [m [Hm _]]. discriminate.
    - destruct (Hj (AVisit m) (or_introl eq_refl)) as [m' [Hm' Hr]]. inversion Hm'; subst m'.
      destruct (mem m vis).
      + eapply IH; [|exact H]. intros a Ha. apply Hj. right. exact Ha.
      + eapply IH; [|exact H]. intros a Ha. apply in_app_or in Ha. destruct Ha as [Ha|Ha].
        * destruct a as [|m2].
          -- exfalso. apply (Hok m Hr). apply lacks_acts. exact Ha.
          -- exists m2. split; [reflexivity|]. eapply reach_step; [exact Hr|]. apply edge_acts. exact Ha.
        * apply Hj. right. exact Ha.
  Qed.

  Theorem run_accepts : forall vis0 root,
    (forall m, reach ob cl h root m -> ~ lacks_required cl h m) ->
    exists vis, run ob cl h (fuel_for ob cl h) vis0 [AVisit root] = Some (VOk vis).
  Proof.
    intros vis0 root Hok.
    destruct (run ob cl h (fuel_for ob cl h) vis0 [AVisit root]) as [r|] eqn:E.
    - assert (Hj : forall a, In a [AVisit root] -> exists m, a = AVisit m /\ reach ob cl h root m).
      { intros a [<-|[]]. exists root. split; [reflexivity | apply reach_refl]. }
      destruct (run_accepts_aux root Hok _ _ _ _ Hj E) as [vis' ->]. eauto.
    - exfalso. eapply run_fuel_for; eauto.
  Qed.
End Walk.

(* ---- the recursive method and the stack walk give the same answer *)
Section RecEq.
  Variable ob : value -> list nat.
  Variable cl : classes.
  Variable h : heap.

  Definition rec_go (f : nat) :=
    fix go (acts : list action) (vis : list nat) : option vres :=
      match acts with
      | [] => Some (VOk vis)
      | AFail :: _ => Some (VErr vis)
      | AVisit k :: r =>
          match validate_rec ob cl h f vis k with
          | Some (VOk vis') => go r vis'
          | other => other
          end
      end.

  Lemma run_more : forall fuel vis todo r k,
    run ob cl h fuel vis todo = Some r -> run ob cl h (fuel + k) vis todo = Some r.
  Proof.
    induction fuel as [|f IH]; intros vis todo r k H; simpl in H; [discriminate|].
    simpl. destruct todo as [|[|m] rest]; try exact H.
    destruct (mem m vis); apply IH; exact H.
  Qed.

  Definition Pv (f : nat) : Prop :=
    forall vis m r, validate_rec ob cl h f vis m = Some r ->
      forall rest, exists k,
        match r with
        | VOk vis' => forall F, run ob cl h (k + F) vis (AVisit m :: rest) = run ob cl h F vis' rest
        | VErr v => forall F, run ob cl h (S k + F) vis (AVisit m :: rest) = Some (VErr v)
        end.
  Definition Pg (f : nat) : Prop :=
    forall acts vis r, rec_go f acts vis = Some r ->
      forall rest, exists k,
        match r with
        | VOk vis' => forall F, run ob cl h (k + F) vis (acts ++ rest) = run ob cl h F vis' rest
        | VErr v => forall F, run ob cl h (S k + F) vis (acts ++ rest) = Some (VErr v)
        end.

  Lemma Pv_Pg : forall f, Pv f -> Pg f.
  Proof.
    intros f Hv. unfold Pg. induction acts as [|[|m] acts IHa]; intros vis r H rest; simpl in H.
    - inversion H; subst. exists 0%nat. intros F. reflexivity.
    - inversion H; subst. exists 0%nat. intros F. reflexivity.
    - destruct (validate_rec ob cl h f vis m) as [[vis1|v1]|] eqn:E; [| |discriminate].
      + destruct (Hv _ _ _ E (acts ++ rest)) as [k1 Hk1]. simpl in Hk1.
        destruct (IHa _ _ H rest) as [k2 Hk2]. destruct r as [vis'|v].
        * exists (k1 + k2)%nat. intros F. change ((AVisit m :: acts) ++ rest) with (AVisit m :: acts ++ rest).
          replace (k1 + k2 + F)%nat with (k1 + (k2 + F))%nat by lia. rewrite Hk1. apply Hk2.
        * exists (k1 + k2)%nat. intros F. change ((AVisit m :: acts) ++ rest) with (AVisit m :: acts ++ rest).
          replace (S (k1 + k2) + F)%nat with (k1 + (S k2 + F))%nat by lia. rewrite Hk1. apply Hk2.
      + inversion H; subst. destruct (Hv _ _ _ E (acts ++ rest)) as [k1 Hk1]. simpl in Hk1.
        exists k1. intros F. change ((AVisit m :: acts) ++ rest) with (AVisit m :: acts ++ rest). apply Hk1.
  Qed.

  Lemma Pv_all : forall f, Pv f.
  Proof.
    induction f as [|f IH]; intros vis m r H rest; [discriminate|].
    pose proof (Pv_Pg f IH) as Hg.
    cbn [validate_rec] in H. destruct (mem m vis) eqn:Em.
    - inversion H; subst. exists 1%nat. intros F. cbn [Nat.add run]. rewrite Em. reflexivity.
    - change (rec_go f (actions_of ob cl h m) (m :: vis) = Some r) in H.
      destruct (Hg _ _ _ H rest) as [k Hk]. destruct r as [vis'|v].
      + exists (S k). intros F. cbn [Nat.add run]. rewrite Em. apply Hk.
      + exists (S k). intros F. cbn [Nat.add run]. rewrite Em. apply Hk.
  Qed.

  (* what the recursive method answers, the stack walk answers *)
  Theorem validate_rec_run : forall fuel vis m r,
    validate_rec ob cl h fuel vis m = Some r -> exists fuel', run ob cl h fuel' vis [AVisit m] = Some r.
  Proof.
    intros fuel vis m r H. destruct (Pv_all fuel vis m r H []) as [k Hk]. destruct r as [vis'|v].
    - exists (k + 1)%nat. rewrite Hk. reflexivity.
    - exists (S k + 0)%nat. apply Hk.
  Qed.

  Theorem validate_rec_run_fuel : forall fuel vis m r,
    validate_rec ob cl h fuel vis m = Some r ->
    run ob cl h (fuel_for ob cl h) vis [AVisit m] = Some r.
  Proof.
    intros fuel vis m r H. destruct (validate_rec_run _ _ _ _ H) as [f' Hf'].
    destruct (run ob cl h (fuel_for ob cl h) vis [AVisit m]) as [r'|] eqn:E.
    - pose proof (run_more _ _ _ _ f' E) as H1. pose proof (run_more _ _ _ _ (fuel_for ob cl h) Hf') as H2.
      rewrite Nat.add_comm in H2. rewrite H1 in H2. exact H2.
    - exfalso. eapply run_fuel_for; eauto.
  Qed.
End RecEq.

Lemma closed_nil : forall ob cl h, closed_marks ob cl h [].
Proof. intros ob cl h n a []. Qed.

(* ============================================================== submit *)
(* repaired code: a required value missing anywhere in the graph - under
   configuration-typed values, inside lists and dicts at any depth, under
   pre-tasks or init tasks - is rejected and nothing is registered          *)
Theorem missing_rejected : forall cl h registry root m,
  reach objs cl h root m -> lacks_required cl h m ->
  submit cl h registry root = (registry, Rejected).
Proof.
  intros cl h registry root m Hr Hl. unfold submit, cfg_validate.
  destruct (run_rejects objs eq_refl cl h [] root m (closed_nil _ _ _) Hr Hl) as [vis ->]. reflexivity.
Qed.

(* and only such graphs are rejected *)
Theorem complete_accepted : forall cl h registry root,
  (forall m, reach objs cl h root m -> ~ lacks_required cl h m) ->
  submit cl h registry root = (registry ++ [root], Accepted).
Proof.
  intros cl h registry root Hok. unfold submit, cfg_validate.
  destruct (run_accepts objs eq_refl cl h [] root Hok) as [vis ->]. reflexivity.
Qed.

Corollary submit_registers_iff : forall cl h registry root registry' v,
  submit cl h registry root = (registry', v) ->
  (v = Accepted /\ registry' = registry ++ [root]) \/ (v <> Accepted /\ registry' = registry).
Proof.
  intros cl h registry root registry' v. unfold submit.
  destruct (cfg_validate cl h root) as [[vis|vis]|]; intros H; inversion H; subst;
    [left; auto | right; split; [discriminate|reflexivity] | right; split; [discriminate|reflexivity]].
Qed.

(* the pinned commit: the same holds only for what the literal walk sees
   (configurations held directly) and when the marks left by earlier calls are sound *)
Theorem missing_rejected_prefix : forall cl h st root m,
  closed_marks objs_prefix cl h (fst st) ->
  reach objs_prefix cl h root m -> lacks_required cl h m ->
  exists marks, submit_prefix cl h st root = ((marks, snd st), Rejected).
Proof.
  intros cl h st root m Hc Hr Hl. unfold submit_prefix, cfg_validate_prefix.
  destruct (run_rejects objs_prefix eq_refl cl h (fst st) root m Hc Hr Hl) as [vis ->]. eauto.
Qed.

(* ---- the two defects of the pinned commit *)
Definition ex_classes : classes :=
  [ (* 0: Leaf  v: Param[int]; m: Meta[int] *)
    {| c_parents := []; c_task := false;
       c_args := [ {| a_ty := TInt; a_required := true; a_generated := false; a_constant := false; a_optional := false; a_checker := None |};
                   {| a_ty := TInt; a_required := true; a_generated := false; a_constant := false; a_optional := false; a_checker := None |} ] |};
    (* 1: Node  leaves: Param[List[Leaf]] *)
    {| c_parents := []; c_task := false;
       c_args := [ {| a_ty := TList (TObj 0); a_required := true; a_generated := false; a_constant := false; a_optional := false; a_checker := None |} ] |};
    (* 2: TT(Task)  n: Param[Node] *)
    {| c_parents := []; c_task := true;
       c_args := [ {| a_ty := TObj 1; a_required := true; a_generated := false; a_constant := false; a_optional := false; a_checker := None |} ] |};
    (* 3: TL(Task)  l: Param[Leaf] *)
    {| c_parents := []; c_task := true;
       c_args := [ {| a_ty := TObj 0; a_required := true; a_generated := false; a_constant := false; a_optional := false; a_checker := None |} ] |} ].

Definition mk (c : nat) (fs : list (nat * value)) : node :=
  {| n_cls := c; n_fields := fs; n_pre := []; n_init := []; n_sealed := false |}.

(* TT(n=Node(leaves=[Leaf(v=2)])) : Leaf.m is missing *)
Definition ex_heap_list : heap :=
  [ mk 2 [(0%nat, VObj 1 1 false)];
    mk 1 [(0%nat, VList [VObj 2 0 false])];
    mk 0 [(0%nat, VInt 2)] ].

Theorem missing_in_list_refuted : exists cl h root m,
  reach objs cl h root m /\ lacks_required cl h m /\
  submit_prefix cl h ([], []) root = (([1; 0]%nat, [root]), Accepted).
Proof.
  exists ex_classes, ex_heap_list, 0%nat, 2%nat. split; [|split].
  - eapply reach_step; [eapply reach_step; [apply reach_refl|]|].
    + exists (mk 2 [(0%nat, VObj 1 1 false)]). split; [reflexivity|]. left.
      exists 0%nat, {| a_ty := TObj 1; a_required := true; a_generated := false; a_constant := false; a_optional := false; a_checker := None |}, (VObj 1 1 false).
      split; [reflexivity|]. split; [reflexivity|]. simpl. auto.
    + exists (mk 1 [(0%nat, VList [VObj 2 0 false])]). split; [reflexivity|]. left.
      exists 0%nat, {| a_ty := TList (TObj 0); a_required := true; a_generated := false; a_constant := false; a_optional := false; a_checker := None |},
             (VList [VObj 2 0 false]).
      split; [reflexivity|]. split; [reflexivity|]. simpl. auto.
  - exists (mk 0 [(0%nat, VInt 2)]), 1%nat,
           {| a_ty := TInt; a_required := true; a_generated := false; a_constant := false; a_optional := false; a_checker := None |}.
    split; [reflexivity|]. split; [reflexivity|]. split; [reflexivity|]. split; [reflexivity|]. left. reflexivity.
  - vm_compute. reflexivity.
Qed.

(* the repaired walk rejects the same graph *)
Example missing_in_list_now_rejected : submit ex_classes ex_heap_list [] 0%nat = ([], Rejected).
Proof. vm_compute. reflexivity. Qed.

(* lf = Leaf(v=1); TL(l=lf).submit() raises; TL(l=lf).submit() again is accepted:
   the mark is set before the check and survives the exception *)
Definition ex_heap_stale : heap :=
  [ mk 3 [(0%nat, VObj 2 0 false)];
    mk 3 [(0%nat, VObj 2 0 false)];
    mk 0 [(0%nat, VInt 1)] ].

Theorem stale_mark_refuted : exists cl h t1 t2 m st1,
  reach objs_prefix cl h t2 m /\ lacks_required cl h m /\
  submit_prefix cl h ([], []) t1 = (st1, Rejected) /\
  submit_prefix cl h st1 t2 = ((t2 :: fst st1, [t2]), Accepted).
Proof.
  exists ex_classes, ex_heap_stale, 0%nat, 1%nat, 2%nat, ([2; 0]%nat, []). split; [|split; [|split]].
  - eapply reach_step; [apply reach_refl|].
    exists (mk 3 [(0%nat, VObj 2 0 false)]). split; [reflexivity|]. left.
    exists 0%nat, {| a_ty := TObj 0; a_required := true; a_generated := false; a_constant := false; a_optional := false; a_checker := None |}, (VObj 2 0 false).
    split; [reflexivity|]. split; [reflexivity|]. simpl. auto.
  - exists (mk 0 [(0%nat, VInt 1)]), 1%nat,
           {| a_ty := TInt; a_required := true; a_generated := false; a_constant := false; a_optional := false; a_checker := None |}.
    split; [reflexivity|]. split; [reflexivity|]. split; [reflexivity|]. split; [reflexivity|]. left. reflexivity.
  - vm_compute. reflexivity.
  - vm_compute. reflexivity.
Qed.

(* ===================================== the hypotheses are satisfiable *)
Definition ex_cl : classes :=
  [ {| c_parents := []; c_task := false; c_args := [] |};                 (* 0: A *)
    {| c_parents := [0%nat]; c_task := false; c_args := [] |};            (* 1: A1(A) *)
    {| c_parents := []; c_task := true; c_args := [] |} ].                (* 2: T(Task) *)

(* validate_sound: List[Dict[str, int]] given [{"a": 1.0, "b": True}] *)
Example validate_sound_ex :
  validate ex_cl (TList (TDict TStr TInt))
    (VList [VDict [(VStr "a", VFloat (FInt 1)); (VStr "b", VBool true)]])
  = Ok (VList [VDict [(VStr "a", VInt 1); (VStr "b", VBool true)]]).
Proof. reflexivity. Qed.

(* validate_conforming: a value of type Dict[str, List[A]] with a subclass instance *)
Example validate_conforming_ex :
  has_type ex_cl (VDict [(VStr "k", VList [VObj 7 1 false; VObj 8 0 false])]) (TDict TStr (TList (TObj 0))).
Proof.
  unfold has_type. simpl. split.
  - constructor; [|constructor]. simpl. split; [exact I|].
    constructor; [|constructor; [|constructor]]; simpl; split; try reflexivity; discriminate.
  - split; [intros k' []|exact I].
Qed.

(* validate_coerces: the three documented coercions at depth 2 *)
Example validate_coerces_ex :
  coerced ex_cl (TDict TStr (TList TPath))
    (VDict [(VStr "k", VList [VStr "a"; VPath "b"; VStr ""])])
    (VDict [(VStr "k", VList [VPath "a"; VPath "b"; VPath "."])]).
Proof.
  simpl. eexists _, _. split; [reflexivity|]. split; [reflexivity|]. split.
  - constructor; [|constructor]. simpl. split; [auto|].
    eexists _, _. split; [reflexivity|]. split; [reflexivity|].
    constructor; [right; exists "a"%string; auto|].
    constructor; [left; simpl; auto|].
    constructor; [right; exists ""%string; auto|constructor].
  - simpl. split; [intros k' []|exact I].
Qed.

(* a task-typed parameter: an unsubmitted task is refused, a submitted one kept *)
Example task_must_be_submitted :
  validate ex_cl (TObj 2) (VObj 5 2 false) = Err /\ validate ex_cl (TObj 2) (VObj 5 2 true) = Ok (VObj 5 2 true).
Proof. split; reflexivity. Qed.

(* readback / assign_stores_or_raises on a node of class with one Param[List[int]] *)
Definition ex_cl2 : classes :=
  [ {| c_parents := []; c_task := false;
       c_args := [ {| a_ty := TList TInt; a_required := true; a_generated := false; a_constant := false; a_optional := false; a_checker := None |} ] |} ].
Example assign_raises_ex :
  cfg_set ex_cl2 (mk 0 [(0%nat, VList [VInt 1])]) 0 (VList [VInt 2; VStr "x"]) = (mk 0 [(0%nat, VList [VInt 1])], Raised).
Proof. reflexivity. Qed.
Example assign_stores_ex :
  cfg_set ex_cl2 (mk 0 [(0%nat, VList [VInt 1])]) 0 (VList [VInt 2; VFloat (FInt 3)]) = (mk 0 [(0%nat, VList [VInt 2; VInt 3])], Stored).
Proof. reflexivity. Qed.

(* missing_rejected: hypotheses hold for the list example (shown in missing_in_list_refuted);
   complete_accepted: a complete graph with a list *)
Definition ex_heap_ok : heap :=
  [ mk 2 [(0%nat, VObj 1 1 false)];
    mk 1 [(0%nat, VList [VObj 2 0 false])];
    mk 0 [(0%nat, VInt 2); (1%nat, VInt 5)] ].
Example complete_accepted_ex : submit ex_classes ex_heap_ok [] 0%nat = ([0%nat], Accepted).
Proof. vm_compute. reflexivity. Qed.

(* closed_marks is what a successful literal validation leaves *)
Example closed_marks_ex : closed_marks objs_prefix ex_classes ex_heap_ok [2; 1; 0]%nat.
Proof.
  intros n a Hn Ha. right.
  destruct Hn as [<-|[<-|[<-|[]]]]; vm_compute in Ha;
    repeat match goal with H : _ \/ _ |- _ => destruct H | H : False |- _ => contradiction end; subst;
    eexists; (split; [reflexivity|]); simpl; auto.
Qed.

Theorem recursive_validate_agrees : forall cl h fuel root r,
  validate_rec objs cl h fuel [] root = Some r -> cfg_validate cl h root = Some r.
Proof. intros cl h fuel root r H. unfold cfg_validate. eapply validate_rec_run_fuel. exact H. Qed.

(* so the recursive method cannot accept a graph with a missing value either *)
Corollary rec_missing_rejected : forall cl h fuel root m r,
  validate_rec objs cl h fuel [] root = Some r ->
  reach objs cl h root m -> lacks_required cl h m -> exists vis, r = VErr vis.
Proof.
  intros cl h fuel root m r H Hr Hl.
  apply validate_rec_run_fuel in H.
  destruct (run_rejects objs eq_refl cl h [] root m (closed_nil _ _ _) Hr Hl) as [vis Hv].
  rewrite Hv in H. inversion H. eauto.
Qed.

Example validate_rec_ex :
  validate_rec objs ex_classes ex_heap_list 4 [] 0%nat = Some (VErr [2; 1; 0]%nat) /\
  validate_rec objs ex_classes ex_heap_ok 4 [] 0%nat = Some (VOk [2; 1; 0]%nat).
Proof. split; vm_compute; reflexivity. Qed.

(* ============================ declared defaults / TypeConfig.__init__ (construction) *)
Lemma init_fields_typed : forall cl ds defs i skip fs,
  init_fields cl ds defs i skip = Ok fs ->
  forall j v, get_field fs j = Some v ->
    (i <= j)%nat /\ exists d, nth_error ds (j - i) = Some d /\ arg_has_type cl d v.
Proof.
  intros cl ds. induction ds as [|d r IH]; intros defs i skip fs H j v Hg; simpl in H.
  - inversion H; subst. simpl in Hg. discriminate.
  - destruct (init_fields cl r (tl defs) (S i) skip) as [fs'|] eqn:E; [|discriminate].
    assert (Tail : forall v0, get_field fs' j = Some v0 ->
              (i <= j)%nat /\ exists d0, nth_error (d :: r) (j - i) = Some d0 /\ arg_has_type cl d0 v0).
    { intros v0 Hg0. destruct (IH _ _ _ _ E j v0 Hg0) as [Hle [d0 [Hn Ht]]].
      split; [lia|]. exists d0. split; [|exact Ht].
      replace (j - i)%nat with (S (j - S i)) by lia. exact Hn. }
    assert (Head : forall x, arg_has_type cl d x -> get_field ((i, x) :: fs') j = Some v ->
              (i <= j)%nat /\ exists d0, nth_error (d :: r) (j - i) = Some d0 /\ arg_has_type cl d0 v).
    { intros x Hx Hg0. simpl in Hg0. destruct (Nat.eqb i j) eqn:Eij.
      - apply Nat.eqb_eq in Eij. subst j. inversion Hg0; subst. split; [lia|].
        exists d. rewrite Nat.sub_diag. split; [reflexivity | exact Hx].
      - apply Tail. exact Hg0. }
    destruct (existsb (Nat.eqb i) skip).
    + inversion H; subst. apply Tail. exact Hg.
    + destruct (hd None defs) as [dv|].
      * destruct (assign cl d false true dv) as [x|] eqn:Ea; [|discriminate].
        inversion H; subst. eapply Head; [eapply assign_sound; exact Ea | exact Hg].
      * destruct (a_required d) eqn:Er.
        -- inversion H; subst. apply Tail. exact Hg.
        -- inversion H; subst. eapply Head; [|exact Hg]. left. split; [reflexivity | exact Er].
Qed.

(* an assignment keeps every parameter of the configuration typed *)
Lemma set_preserves_typed : forall cl n k v n' o,
  cfg_set cl n k v = (n', o) -> fields_typed cl n -> fields_typed cl n'.
Proof.
  intros cl n k v n' o H Ht.
  destruct (assign_stores_or_raises cl n k v n' o H) as [[_ ->]|[_ [d [v' [Hd [Hg [Hty [Hoth [Hc _]]]]]]]]]; [exact Ht|].
  intros i d0 v0 Hn Hv. rewrite Hc in Hn.
  destruct (Nat.eq_dec i k) as [->|Hne].
  - rewrite Hd in Hn. inversion Hn; subst. rewrite Hg in Hv. inversion Hv; subst. exact Hty.
  - rewrite (Hoth i Hne) in Hv. eapply Ht; eauto.
Qed.

Lemma set_keeps_class : forall cl n k v n' o, cfg_set cl n k v = (n', o) -> n_cls n' = n_cls n.
Proof.
  intros cl n k v n' o H.
  destruct (assign_stores_or_raises cl n k v n' o H) as [[_ ->]|[_ [d [v' [_ [_ [_ [_ [Hc _]]]]]]]]]; auto.
Qed.

Lemma set_all_typed : forall cl kw n n',
  set_all cl n kw = Ok n' -> fields_typed cl n -> fields_typed cl n' /\ n_cls n' = n_cls n.
Proof.
  intros cl kw. induction kw as [|[k v] r IH]; intros n n' H Ht; simpl in H.
  - inversion H; subst. auto.
  - destruct (cfg_set cl n k v) as [n1 o] eqn:E. destruct o; try discriminate.
    destruct (IH _ _ H (set_preserves_typed _ _ _ _ _ _ E Ht)) as [H1 H2].
    split; [exact H1|]. rewrite H2. eapply set_keeps_class; exact E.
Qed.

(* a configuration that has just been built - defaults, None for what is not
   required, then the keywords - only holds values of the declared types        *)
Theorem new_typed : forall cl defs c kw n,
  cfg_new cl defs c kw = Ok n -> fields_typed cl n /\ n_cls n = c.
Proof.
  intros cl defs c kw n. unfold cfg_new.
  destruct (init_fields cl (class_args cl c) defs 0 (map fst kw)) as [fs|] eqn:E; [|discriminate].
  intros H. apply set_all_typed in H; [exact H|].
  intros i d v Hn Hv. unfold cfg_get in Hv. simpl in Hn, Hv.
  destruct (init_fields_typed _ _ _ _ _ _ E i v Hv) as [_ [d0 [Hn0 Ht]]].
  rewrite Nat.sub_0_r in Hn0. rewrite Hn in Hn0. inversion Hn0; subst. exact Ht.
Qed.

Lemma init_fields_get : forall cl ds defs i fs k d dv,
  init_fields cl ds defs i [] = Ok fs ->
  nth_error ds k = Some d -> nth_error defs k = Some (Some dv) ->
  exists x, assign cl d false true dv = Ok x /\ get_field fs (i + k) = Some x.
Proof.
  intros cl ds. induction ds as [|d0 r IH]; intros defs i fs k d dv H Hd Hdv.
  - destruct k; discriminate.
  - simpl in H. destruct (init_fields cl r (tl defs) (S i) []) as [fs'|] eqn:E; [|discriminate].
    simpl in H. destruct k as [|k].
    + simpl in Hd. inversion Hd; subst d0. destruct defs as [|x0 defs]; [discriminate|].
      simpl in Hdv. inversion Hdv; subst x0. simpl in H.
      destruct (assign cl d false true dv) as [x|]; [|discriminate].
      inversion H; subst. exists x. split; [reflexivity|]. simpl.
      rewrite Nat.add_0_r, Nat.eqb_refl. reflexivity.
    + simpl in Hd. destruct defs as [|x0 defs]; [discriminate|]. simpl in Hdv. simpl in E.
      destruct (IH _ _ _ _ _ _ E Hd Hdv) as [x [Ha Hg]].
      exists x. split; [exact Ha|].
      replace (i + S k)%nat with (S i + k)%nat by lia.
      assert (Hne : Nat.eqb i (S i + k) = false) by (apply Nat.eqb_neq; lia).
      simpl in H. destruct x0 as [dv0|].
      * destruct (assign cl d0 false true dv0) as [x1|]; [|discriminate].
        inversion H; subst. simpl. simpl in Hne. rewrite Hne. exact Hg.
      * destruct (a_required d0); inversion H; subst; [exact Hg|].
        simpl. simpl in Hne. rewrite Hne. exact Hg.
Qed.

Lemma assign_bypass_not_none : forall cl d dv,
  dv <> VNone -> assign cl d false true dv = arg_validate cl d dv.
Proof.
  intros cl d dv Hn. unfold assign, assign_gen. simpl.
  destruct (is_none dv) eqn:E; [apply is_none_true in E; contradiction | reflexivity].
Qed.

(* a parameter that was never assigned holds its declared default AFTER the
   documented coercions (integral float -> int, int -> float, str -> path, at any
   depth), not the default as it was written                                     *)
Theorem new_default_coerced : forall cl defs c n i d dv x,
  cfg_new cl defs c [] = Ok n ->
  nth_error (class_args cl c) i = Some d -> nth_error defs i = Some (Some dv) ->
  dv <> VNone -> coerced cl (a_ty d) dv x -> check_ok (a_checker d) x = true ->
  cfg_get n i = Some x.
Proof.
  intros cl defs c n i d dv x H Hd Hdv Hnn Hco Hck. unfold cfg_new in H. simpl in H.
  destruct (init_fields cl (class_args cl c) defs 0 []) as [fs|] eqn:E; [|discriminate].
  inversion H; subst. unfold cfg_get. simpl.
  destruct (init_fields_get _ _ _ _ _ _ _ _ E Hd Hdv) as [y [Ha Hg]].
  rewrite assign_bypass_not_none in Ha by exact Hnn.
  rewrite (arg_validate_accepts _ _ _ _ Hco Hck) in Ha. inversion Ha; subst. exact Hg.
Qed.

(* ... and it is exactly what assigning the default would store: C().x and
   C(); c.x = default cannot be told apart                                       *)
Theorem new_default_as_assigned : forall cl defs c n i d dv n0,
  cfg_new cl defs c [] = Ok n ->
  nth_error (class_args cl c) i = Some d -> nth_error defs i = Some (Some dv) ->
  dv <> VNone -> a_generated d = false -> a_constant d = false ->
  n_cls n0 = c -> n_sealed n0 = false ->
  exists n1, cfg_set cl n0 i dv = (n1, Stored) /\ cfg_get n1 i = cfg_get n i.
Proof.
  intros cl defs c n i d dv n0 H Hd Hdv Hnn Hg Hc Hcls Hs. unfold cfg_new in H. simpl in H.
  destruct (init_fields cl (class_args cl c) defs 0 []) as [fs|] eqn:E; [|discriminate].
  inversion H; subst n. clear H.
  destruct (init_fields_get _ _ _ _ _ _ _ _ E Hd Hdv) as [y [Ha Hgf]].
  unfold cfg_set. rewrite Hcls, Hd.
  assert (Ha' : assign cl d (n_sealed n0) false dv = Ok y).
  { rewrite Hs. unfold assign, assign_gen in *. rewrite Hg, Hc. simpl in *.
    destruct (is_none dv) eqn:En; [apply is_none_true in En; contradiction | exact Ha]. }
  rewrite Ha'. eexists. split; [reflexivity|]. unfold cfg_get. simpl.
  rewrite get_set_same. symmetry. exact Hgf.
Qed.

(* ======================================================= sessions (histories) *)
Lemma nth_upd_same : forall (A : Type) (l : list A) i x y,
  nth_error l i = Some y -> nth_error (upd_nth l i x) i = Some x.
Proof.
  intros A l. induction l as [|a r IH]; intros i x y H; destruct i; simpl in *; try discriminate.
  - reflexivity.
  - eapply IH; exact H.
Qed.

Lemma nth_upd_other : forall (A : Type) (l : list A) i j x,
  i <> j -> nth_error (upd_nth l i x) j = nth_error l j.
Proof.
  intros A l. induction l as [|a r IH]; intros i j x H; destruct i, j; simpl; try reflexivity.
  - congruence.
  - apply IH. congruence.
Qed.

Lemma heap_typed_upd : forall cl h m n,
  heap_typed cl h -> fields_typed cl n -> heap_typed cl (upd_nth h m n).
Proof.
  intros cl h m n Hh Hn j nj Hj.
  destruct (Nat.eq_dec m j) as [->|Hne].
  - destruct (nth_error h j) as [y|] eqn:E.
    + rewrite (nth_upd_same _ h j n y E) in Hj. inversion Hj; subst. exact Hn.
    + assert (L : forall (l : list node) i x, nth_error l i = None -> nth_error (upd_nth l i x) i = None).
      { induction l as [|a r IH]; intros i x H; destruct i; simpl in *; try discriminate; auto. }
      rewrite (L _ _ _ E) in Hj. discriminate.
  - rewrite nth_upd_other in Hj by exact Hne. eapply Hh; exact Hj.
Qed.

(* sealing changes the read-only flag only *)
Lemma seal_from_nth : forall vis h i m n,
  nth_error (seal_from i vis h) m = Some n ->
  exists n0, nth_error h m = Some n0 /\ n_cls n = n_cls n0 /\ n_fields n = n_fields n0.
Proof.
  intros vis h. induction h as [|x r IH]; intros i m n H; destruct m; simpl in H; try discriminate.
  - inversion H; subst. exists x. split; [reflexivity|]. destruct (mem i vis); simpl; auto.
  - eapply IH. exact H.
Qed.

Lemma heap_typed_seal : forall cl vis h, heap_typed cl h -> heap_typed cl (seal_nodes vis h).
Proof.
  intros cl vis h Ht m n Hn. destruct (seal_from_nth _ _ _ _ _ Hn) as [n0 [Hn0 [Hc Hf]]].
  intros i d v Hd Hv. unfold cfg_get in Hv. rewrite Hc in Hd. rewrite Hf in Hv. eapply (Ht _ _ Hn0); eauto.
Qed.

(* the states of a submit *)
Lemma submit_trace_cases : forall rb cl s root init tr v,
  submit_trace rb cl s root init = (tr, v) ->
  (tr = [] /\ v = Rejected) \/
  exists n, nth_error (s_heap s) root = Some n /\
    mem root (s_jobs s) || negb (class_task cl (n_cls n)) = false /\
    let s1 := begin_submit s root n init in
    ((exists vis, cfg_validate cl (s_heap s1) root = Some (VOk vis) /\
                  tr = [s1; seal_session s1 vis; register (seal_session s1 vis) root] /\ v = Accepted) \/
     (exists vis, cfg_validate cl (s_heap s1) root = Some (VErr vis) /\ tr = [s1; if rb then s else s1] /\ v = Rejected) \/
     (cfg_validate cl (s_heap s1) root = None /\ tr = [s1] /\ v = OutOfFuel)).
Proof.
  intros rb cl s root init tr v H. unfold submit_trace in H.
  destruct (nth_error (s_heap s) root) as [n|] eqn:En; [|inversion H; auto].
  destruct (mem root (s_jobs s) || negb (class_task cl (n_cls n))) eqn:G; [inversion H; auto|].
  right. exists n. split; [first [reflexivity | assumption]|]. split; [first [reflexivity | assumption]|]. simpl.
  destruct (cfg_validate cl (s_heap (begin_submit s root n init)) root) as [[vis|vis]|] eqn:E;
    inversion H; subst.
  - left. exists vis. auto.
  - right. left. exists vis. auto.
  - right. right. auto.
Qed.

(* in a history of assignments, submits, instantiations and validations the parameters
   only ever hold values of their declared types (whichever of the two submit behaviours) *)
Theorem sess_step_typed : forall rb cl s o s' r,
  sess_step_gen rb cl s o = (s', r) -> heap_typed cl (s_heap s) -> heap_typed cl (s_heap s').
Proof.
  intros rb cl s o s' r H Ht. destruct o as [root init|root|m k v|root]; simpl in H.
  - destruct (submit_trace rb cl s root init) as [tr v] eqn:E. inversion H; subst. clear H.
    destruct (submit_trace_cases _ _ _ _ _ _ _ E) as [[-> _]|[n [En [_ C]]]]; [exact Ht|].
    assert (H1 : heap_typed cl (s_heap (begin_submit s root n init))).
    { simpl. apply heap_typed_upd; [exact Ht|]. intros i d v0 Hn Hv. eapply (Ht _ _ En); eauto. }
    simpl in C. destruct C as [[vis [_ [-> _]]]|[[vis [_ [-> _]]]|[_ [-> _]]]]; simpl; try exact H1.
    + apply heap_typed_seal. exact H1.
    + destruct rb; [exact Ht | exact H1].
  - inversion H; subst. exact Ht.
  - destruct (nth_error (s_heap s) m) as [n|] eqn:En; [|inversion H; subst; exact Ht].
    destruct (cfg_set cl n k (stamp (s_jobs s) v)) as [n' o] eqn:Es.
    destruct o; inversion H; subst; try exact Ht. simpl.
    apply heap_typed_upd; [exact Ht|]. eapply set_preserves_typed; [exact Es | eapply Ht; exact En].
  - destruct (cfg_validate cl (s_heap s) root) as [[vis|vis]|]; inversion H; subst; try exact Ht.
    simpl. apply heap_typed_seal. exact Ht.
Qed.

Theorem sess_run_typed : forall cl ops s,
  heap_typed cl (s_heap s) -> heap_typed cl (s_heap (sess_run cl s ops)).
Proof.
  intros cl ops. induction ops as [|o r IH]; intros s Ht; simpl; [exact Ht|].
  apply IH. destruct (sess_step cl s o) as [s' v] eqn:E. simpl. eapply sess_step_typed; eauto.
Qed.

(* registration is a step of its own: in every state a submit goes through, the
   registry is what it was, or it has gained the task - and that only after the
   validation of the task (with its new init tasks) has answered VOk              *)
Theorem registered_only_after_validation : forall rb cl s root init tr v,
  submit_trace rb cl s root init = (tr, v) ->
  Forall (fun s' => s_reg s' = s_reg s \/
                    (s_reg s' = s_reg s ++ [root] /\ v = Accepted /\
                     exists n vis, nth_error (s_heap s) root = Some n /\
                       cfg_validate cl (s_heap (begin_submit s root n init)) root = Some (VOk vis))) tr.
Proof.
  intros rb cl s root init tr v H.
  destruct (submit_trace_cases _ _ _ _ _ _ _ H) as [[-> _]|[n [En [_ C]]]]; [constructor|].
  simpl in C. destruct C as [[vis [Hv [-> ->]]]|[[vis [_ [-> ->]]]|[_ [-> ->]]]].
  - constructor; [left; reflexivity|]. constructor; [left; reflexivity|]. constructor; [|constructor].
    right. split; [reflexivity|]. split; [reflexivity|]. exists n, vis. split; [exact En | exact Hv].
  - constructor; [left; reflexivity|]. constructor; [|constructor]. left. destruct rb; reflexivity.
  - constructor; [left; reflexivity | constructor].
Qed.

(* submit fails fast whatever happened before: whichever objects already "have a
   job" or are sealed (a loaded configuration, a task instantiated before being
   submitted), a required value missing anywhere below the submitted task makes submit
   raise, and NO state the submit goes through has anything more registered        *)
Theorem session_missing_rejected : forall rb cl s root init n m,
  nth_error (s_heap s) root = Some n ->
  let h' := upd_nth (s_heap s) root (set_init n init) in
  reach objs cl h' root m -> lacks_required cl h' m ->
  exists tr, submit_trace rb cl s root init = (tr, Rejected) /\
             Forall (fun s' => s_reg s' = s_reg s) tr.
Proof.
  intros rb cl s root init n m En h' Hr Hl.
  destruct (submit_trace rb cl s root init) as [tr v] eqn:E. exists tr.
  pose proof (missing_rejected cl h' [] root m Hr Hl) as Hm. unfold submit in Hm.
  destruct (submit_trace_cases _ _ _ _ _ _ _ E) as [[-> ->]|[n0 [En0 [_ C]]]]; [split; [reflexivity|constructor]|].
  rewrite En in En0. inversion En0; subst n0. simpl in C. fold h' in C.
  destruct C as [[vis [Hv _]]|[[vis [Hv [-> ->]]]|[Hv _]]].
  - rewrite Hv in Hm. discriminate.
  - split; [reflexivity|]. constructor; [reflexivity|]. constructor; [|constructor]. destruct rb; reflexivity.
  - rewrite Hv in Hm. discriminate.
Qed.

(* conversely, a task that is complete and has not been submitted is accepted and registered *)
Theorem session_complete_accepted : forall rb cl s root init n,
  nth_error (s_heap s) root = Some n ->
  mem root (s_jobs s) = false -> class_task cl (n_cls n) = true ->
  let h' := upd_nth (s_heap s) root (set_init n init) in
  (forall m, reach objs cl h' root m -> ~ lacks_required cl h' m) ->
  exists s', sess_step_gen rb cl s (OSubmit root init) = (s', Accepted) /\ s_reg s' = s_reg s ++ [root].
Proof.
  intros rb cl s root init n En Hj Ht h' Hc.
  pose proof (complete_accepted cl h' [] root Hc) as Hm. unfold submit in Hm.
  simpl. unfold submit_trace. rewrite En, Hj, Ht. simpl. fold h'.
  destruct (cfg_validate cl h' root) as [[vis|vis]|]; try discriminate.
  eexists. split; reflexivity.
Qed.

(* REPAIRED code: a call that raises leaves every object, every job flag and the
   registry as they were                                                        *)
Theorem rejected_changes_nothing : forall cl s o s',
  sess_step cl s o = (s', Rejected) -> s' = s.
Proof.
  intros cl s o s' H. unfold sess_step in H. destruct o as [root init|root|m k v|root]; simpl in H.
  - destruct (submit_trace true cl s root init) as [tr v] eqn:E. inversion H; subst. clear H.
    destruct (submit_trace_cases _ _ _ _ _ _ _ E) as [[-> _]|[n [_ [_ C]]]]; [reflexivity|].
    simpl in C. destruct C as [[vis [_ [_ C]]]|[[vis [_ [-> _]]]|[_ [_ C]]]]; try discriminate. reflexivity.
  - inversion H; reflexivity.
  - destruct (nth_error (s_heap s) m) as [n|]; [|inversion H; reflexivity].
    destruct (cfg_set cl n k (stamp (s_jobs s) v)) as [n' o]. destruct o; inversion H; reflexivity.
  - destruct (cfg_validate cl (s_heap s) root) as [[vis|vis]|]; inversion H; reflexivity.
Qed.

(* instantiating validates: a configuration with a required value missing below it
   cannot be instantiated (and nothing is sealed)                                  *)
Theorem instance_missing_rejected : forall rb cl s root m,
  reach objs cl (s_heap s) root m -> lacks_required cl (s_heap s) m ->
  sess_step_gen rb cl s (OInstance root) = (s, Rejected).
Proof.
  intros rb cl s root m Hr Hl. simpl.
  pose proof (missing_rejected cl (s_heap s) [] root m Hr Hl) as Hm. unfold submit in Hm.
  destruct (cfg_validate cl (s_heap s) root) as [[vis|vis]|]; try discriminate. reflexivity.
Qed.

(* the scenario, on the code as it is: t1 = TK() lacks its required value, t1.submit()
   raises and t1 keeps its job; t2.t = t1 is accepted by the assignment (a task that was
   never registered is taken for a submitted one); t1 completed cannot be submitted again *)
Definition ex_cl_pipe : classes :=
  [ {| c_parents := []; c_task := true;
       c_args := [ {| a_ty := TInt; a_required := true; a_generated := false; a_constant := false; a_optional := false; a_checker := None |};
                   {| a_ty := TObj 0; a_required := false; a_generated := false; a_constant := false; a_optional := true; a_checker := None |} ] |} ].
Definition ex_sess_pipe : session :=
  {| s_heap := [ mk 0 [(0%nat, VInt 1); (1%nat, VNone)]; mk 0 [(1%nat, VNone)] ];
     s_jobs := []; s_reg := [] |}.

Theorem rejected_submit_leaves_job_refuted : exists cl s root init s',
  sess_step_prefix cl s (OSubmit root init) = (s', Rejected) /\ s' <> s /\
  s_reg s' = [] /\
  (* the rejected task is now accepted where a submitted task is required ... *)
  snd (sess_step_prefix cl s' (OSet 0 1 (VObj root 0 false))) = Accepted /\
  snd (sess_step_prefix cl s (OSet 0 1 (VObj root 0 false))) = Rejected /\
  (* ... and, once completed, it is refused: "already submitted" *)
  let s2 := fst (sess_step_prefix cl s' (OSet root 0 (VInt 5))) in
  snd (sess_step_prefix cl s' (OSet root 0 (VInt 5))) = Accepted /\
  snd (sess_step_prefix cl s2 (OSubmit root init)) = Rejected /\
  (* ... although its validation now passes *)
  exists vis, cfg_validate cl (s_heap s2) root = Some (VOk vis).
Proof.
  exists ex_cl_pipe, ex_sess_pipe, 1%nat, [], (fst (sess_step_prefix ex_cl_pipe ex_sess_pipe (OSubmit 1 []))).
  split; [vm_compute; reflexivity|]. split; [vm_compute; discriminate|].
  split; [vm_compute; reflexivity|]. split; [vm_compute; reflexivity|]. split; [vm_compute; reflexivity|].
  split; [vm_compute; reflexivity|]. split; [vm_compute; reflexivity|].
  eexists. vm_compute. reflexivity.
Qed.

(* the same scenario on the repaired code: the rejected task has no job, is refused
   as a parameter, and is accepted and registered once completed                   *)
Example rejected_task_repaired :
  let s1 := fst (sess_step ex_cl_pipe ex_sess_pipe (OSubmit 1 [])) in
  sess_step ex_cl_pipe ex_sess_pipe (OSubmit 1 []) = (ex_sess_pipe, Rejected) /\
  snd (sess_step ex_cl_pipe s1 (OSet 0 1 (VObj 1 0 false))) = Rejected /\
  let s2 := fst (sess_step ex_cl_pipe s1 (OSet 1 0 (VInt 5))) in
  let s3 := fst (sess_step ex_cl_pipe s2 (OSubmit 1 [])) in
  snd (sess_step ex_cl_pipe s2 (OSubmit 1 [])) = Accepted /\ s_reg s3 = [1%nat] /\
  snd (sess_step ex_cl_pipe s3 (OSet 0 1 (VObj 1 0 false))) = Accepted /\
  snd (sess_step ex_cl_pipe (fst (sess_step ex_cl_pipe s3 (OSet 0 1 (VObj 1 0 false)))) (OSubmit 0 [])) = Accepted.
Proof. vm_compute. repeat split. Qed.

Example session_missing_rejected_ex :
  exists n, nth_error (s_heap ex_sess_pipe) 1 = Some n /\
    reach objs ex_cl_pipe (upd_nth (s_heap ex_sess_pipe) 1 (set_init n [])) 1 1 /\
    lacks_required ex_cl_pipe (upd_nth (s_heap ex_sess_pipe) 1 (set_init n [])) 1.
Proof.
  vm_compute. eexists. split; [reflexivity|]. split; [apply reach_refl|].
  eexists. exists 0%nat. eexists. split; [reflexivity|]. split; [reflexivity|].
  split; [reflexivity|]. split; [reflexivity|]. left. reflexivity.
Qed.

(* defaults: Param[float] = 1 holds 1.0, Param[List[float]] = [1, 2] holds [1.0, 2.0],
   Param[Path] = "data" holds Path("data"); a default the type refuses is refused at
   declaration                                                                       *)
Definition ex_cl_def : classes :=
  [ {| c_parents := []; c_task := false;
       c_args := [ {| a_ty := TFloat; a_required := false; a_generated := false; a_constant := false; a_optional := true; a_checker := None |};
                   {| a_ty := TList TFloat; a_required := false; a_generated := false; a_constant := false; a_optional := true; a_checker := None |};
                   {| a_ty := TPath; a_required := false; a_generated := false; a_constant := false; a_optional := true; a_checker := None |};
                   {| a_ty := TInt; a_required := true; a_generated := false; a_constant := false; a_optional := false; a_checker := None |} ] |} ].
Definition ex_defs : list (option value) :=
  [ Some (VInt 1); Some (VList [VInt 1; VInt 2]); Some (VStr "data"); None ].

Example new_default_ex :
  exists n, cfg_new ex_cl_def ex_defs 0 [] = Ok n /\
    cfg_get n 0 = Some (VFloat (FInt 1)) /\
    cfg_get n 1 = Some (VList [VFloat (FInt 1); VFloat (FInt 2)]) /\
    cfg_get n 2 = Some (VPath "data") /\ cfg_get n 3 = None.
Proof. eexists. vm_compute. repeat split. Qed.

Example new_keyword_ex :
  exists n, cfg_new ex_cl_def ex_defs 0 [(3%nat, VFloat (FInt 7)); (0%nat, VFloat (FFrac 5))] = Ok n /\
    cfg_get n 0 = Some (VFloat (FFrac 5)) /\ cfg_get n 3 = Some (VInt 7) /\
    cfg_new ex_cl_def ex_defs 0 [(3%nat, VStr "a")] = Err.
Proof. eexists. vm_compute. repeat split. Qed.

Example default_refused_ex :
  declare_default ex_cl_def (AList AInt) (Some (VList [VStr "a"])) = None /\
  declare_default ex_cl_def (AList AInt) (Some (VList [VFloat (FInt 2)])) =
    Some {| a_ty := TList TInt; a_required := false; a_generated := false; a_constant := false; a_optional := false; a_checker := None |}.
Proof. vm_compute. split; reflexivity. Qed.

Example new_default_coerced_ex : coerced ex_cl_def (TList TFloat) (VList [VInt 1; VInt 2]) (VList [VFloat (FInt 1); VFloat (FInt 2)]).
Proof.
  simpl. eexists. eexists. split; [reflexivity|]. split; [reflexivity|].
  apply Forall2_cons; [right; eexists; split; reflexivity|].
  apply Forall2_cons; [right; eexists; split; reflexivity|]. apply Forall2_nil.
Qed.

(* ---- round 6: checkers, None for a parameter that is not Optional, sealed configurations *)
Definition ex_choices : argdecl :=
  {| a_ty := TInt; a_required := true; a_generated := false; a_constant := false; a_optional := false;
     a_checker := Some (CChoices [VInt 1; VInt 2; VInt 3]) |}.
Definition ex_path_choices : argdecl :=
  {| a_ty := TPath; a_required := false; a_generated := false; a_constant := false; a_optional := false;
     a_checker := Some (CChoices [VPath "cpu"; VPath "gpu"]) |}.

(* Annotated[int, Choices([1, 2, 3])] given 2.0 stores the int 2; 7 and 2.5 are refused;
   Annotated[Path, Choices([Path("cpu"), Path("gpu")])] given "gpu" stores the Path      *)
Example checker_ex :
  arg_validate [] ex_choices (VFloat (FInt 2)) = Ok (VInt 2) /\
  arg_validate [] ex_choices (VInt 7) = Err /\ arg_validate [] ex_choices (VFloat (FFrac 5)) = Err /\
  arg_validate [] ex_path_choices (VStr "gpu") = Ok (VPath "gpu") /\
  arg_validate [] ex_path_choices (VStr "tpu") = Err /\
  assign [] ex_path_choices false false VNone = Err /\       (* a default does not make None a value *)
  assign [] ex_path_choices false true VNone = Ok VNone /\   (* the library's own set(bypass=True) *)
  assign_prefix [] ex_path_choices false false VNone = Ok VNone.
Proof. repeat split. Qed.

(* the code before fixes/C15-7: x: Param[int] = 3 (not Optional) assigned None holds None *)
Theorem none_for_defaulted_refuted : exists cl d v',
  a_optional d = false /\ assign_prefix cl d false false VNone = Ok v' /\ ~ has_type cl v' (a_ty d).
Proof.
  exists [], {| a_ty := TInt; a_required := false; a_generated := false; a_constant := false;
                a_optional := false; a_checker := None |}, VNone.
  split; [reflexivity|]. split; [reflexivity|]. apply has_type_not_none.
Qed.

(* sealed configurations are walked like the others.
   (a) a LOADED configuration (load_objects seals without validating) that lacks a required
       value, held in a list by the submitted task: rejected;
   (b) a task instantiated (hence sealed) before submit(init_tasks=[incomplete]): rejected   *)
Definition ex_heap_loaded : heap :=
  [ mk 2 [(0%nat, VObj 1 1 false)];
    {| n_cls := 1; n_fields := [(0%nat, VList [VObj 2 0 false])]; n_pre := []; n_init := []; n_sealed := true |};
    {| n_cls := 0; n_fields := [(0%nat, VInt 1)]; n_pre := []; n_init := []; n_sealed := true |} ].
Example loaded_incomplete_rejected :
  sess_step ex_classes {| s_heap := ex_heap_loaded; s_jobs := []; s_reg := [] |} (OSubmit 0 [])
  = ({| s_heap := ex_heap_loaded; s_jobs := []; s_reg := [] |}, Rejected).
Proof. vm_compute. reflexivity. Qed.

Example presealed_task_incomplete_init_rejected :
  let s0 := {| s_heap := [ mk 3 [(0%nat, VObj 1 0 false)]; mk 0 [(0%nat, VInt 1); (1%nat, VInt 2)]; mk 0 [(0%nat, VInt 1)] ];
               s_jobs := []; s_reg := [] |} in
  let s1 := fst (sess_step ex_classes s0 (OInstance 0)) in
  snd (sess_step ex_classes s0 (OInstance 0)) = Accepted /\
  map n_sealed (s_heap s1) = [true; true; false] /\
  sess_step ex_classes s1 (OSubmit 0 [2%nat]) = (s1, Rejected) /\
  snd (sess_step ex_classes s1 (OSet 1 0 (VInt 5))) = Rejected /\     (* sealed: read-only *)
  snd (sess_step ex_classes s1 (OSubmit 0 [])) = Accepted.
Proof. vm_compute. repeat split. Qed.
