(* Proofs about model/TokenFS.v (C08, C09). *)
From Coq Require Import ZArith List Bool Arith Lia ZifyBool.
From XV Require Import model.TokenFS.
Import ListNotations.
Open Scope Z_scope.

(* ------------------------------------------------------------------ basic lemmas *)
Lemma upd_same {A} (f : nat -> A) k v : upd f k v k = v.
Proof. unfold upd. rewrite Nat.eqb_refl. reflexivity. Qed.
Lemma upd_other {A} (f : nat -> A) k v x : x <> k -> upd f k v x = f x.
Proof. unfold upd. intros H. destruct (Nat.eqb_spec x k); congruence. Qed.

Ltac eqb_cases :=
  repeat match goal with
  | |- context[Nat.eqb ?a ?b] => destruct (Nat.eqb_spec a b); subst
  | H : context[Nat.eqb ?a ?b] |- _ => destruct (Nat.eqb_spec a b); subst
  end.

Lemma sumf_ext n f g : (forall k, (k < n)%nat -> f k = g k) -> sumf n f = sumf n g.
Proof.
  induction n; simpl; intros H; [reflexivity|].
  rewrite IHn by (intros; apply H; lia). rewrite (H n) by lia. reflexivity.
Qed.
Lemma sumf_change n f f' k :
  (k < n)%nat -> (forall x, x <> k -> f' x = f x) -> sumf n f' = sumf n f - f k + f' k.
Proof.
  induction n; simpl; intros Hk H; [lia|].
  destruct (Nat.eq_dec k n) as [->|Hn].
  - rewrite (sumf_ext n f' f) by (intros; apply H; lia). lia.
  - rewrite IHn by (auto; lia). rewrite (H n) by auto. lia.
Qed.
Lemma sumf_zero n f : (forall k, (k < n)%nat -> f k = 0) -> sumf n f = 0.
Proof. induction n; simpl; intros H; [reflexivity|]. rewrite IHn, H by (intros; try apply H; lia). reflexivity. Qed.
Lemma sumf_nonneg n f : (forall k, (k < n)%nat -> 0 <= f k) -> 0 <= sumf n f.
Proof. induction n; simpl; intros H; [lia|]. specialize (H n ltac:(lia)) as H1. assert (0 <= sumf n f) by (apply IHn; intros; apply H; lia). lia. Qed.
Lemma sumf_le n f g : (forall k, (k < n)%nat -> f k <= g k) -> sumf n f <= sumf n g.
Proof. induction n; simpl; intros H; [lia|]. specialize (H n ltac:(lia)) as H1. assert (sumf n f <= sumf n g) by (apply IHn; intros; apply H; lia). lia. Qed.
Lemma sumf_nonzero n f : sumf n f <> 0 -> exists k, (k < n)%nat /\ f k <> 0.
Proof.
  induction n; simpl; intros H; [congruence|].
  destruct (Z.eq_dec (f n) 0) as [E|E].
  - destruct IHn as [k [Hk Hf]]; [lia|]. exists k. split; [lia|auto].
  - exists n. split; [lia|auto].
Qed.

Lemma emit_alive ev procs q : p_alive (emit ev procs q) = p_alive (procs q).
Proof. unfold emit. destruct (p_alive (procs q) && p_obs (procs q)); reflexivity. Qed.
Lemma emit_avail ev procs q : p_avail (emit ev procs q) = p_avail (procs q).
Proof. unfold emit. destruct (p_alive (procs q) && p_obs (procs q)); reflexivity. Qed.
Lemma emit_cache ev procs q : p_cache (emit ev procs q) = p_cache (procs q).
Proof. unfold emit. destruct (p_alive (procs q) && p_obs (procs q)); reflexivity. Qed.
Lemma emit_obs ev procs q : p_obs (emit ev procs q) = p_obs (procs q).
Proof. unfold emit. destruct (p_alive (procs q) && p_obs (procs q)); reflexivity. Qed.
Lemma emit_wat ev procs q : p_wat (emit ev procs q) = p_wat (procs q).
Proof. unfold emit. destruct (p_alive (procs q) && p_obs (procs q)); reflexivity. Qed.
Lemma emit_evq ev procs q :
  p_evq (emit ev procs q) = if p_alive (procs q) && p_obs (procs q) then p_evq (procs q) ++ [ev] else p_evq (procs q).
Proof. unfold emit. destruct (p_alive (procs q) && p_obs (procs q)); reflexivity. Qed.

Lemma notify_ph C p a jobs j : j_ph (notify C p a jobs j) = j_ph (jobs j).
Proof. unfold notify. destruct (0 <? a); [|reflexivity]. destruct (_ && _); reflexivity. Qed.
Lemma notify_orph C p a jobs j : j_orph (notify C p a jobs j) = j_orph (jobs j).
Proof. unfold notify. destruct (0 <? a); [|reflexivity]. destruct (_ && _); reflexivity. Qed.
Lemma notify_lock C p a jobs j : j_lock (notify C p a jobs j) = j_lock (jobs j).
Proof. unfold notify. destruct (0 <? a); [|reflexivity]. destruct (_ && _); reflexivity. Qed.
Lemma notify_pid C p a jobs j : j_pid (notify C p a jobs j) = j_pid (jobs j).
Proof. unfold notify. destruct (0 <? a); [|reflexivity]. destruct (_ && _); reflexivity. Qed.

Lemma mem_In n l : mem n l = true <-> In n l.
Proof.
  unfold mem. rewrite existsb_exists. split.
  - intros [x [Hx E]]. apply Nat.eqb_eq in E. subst. auto.
  - intros H. exists n. split; auto. apply Nat.eqb_refl.
Qed.
Lemma remove_first_In_other n x l : In x l -> x <> n -> In x (remove_first n l).
Proof.
  induction l; simpl; intros H Hn; [auto|].
  destruct (Nat.eqb_spec a n).
  - destruct H; [congruence|auto].
  - destruct H; [left; auto|right; auto].
Qed.
Lemma remove_nth_beyond {A} (l : list A) : forall i, (length l <= i)%nat -> remove_nth i l = l.
Proof. induction l; intros i H; destruct i; simpl in *; auto; try lia. f_equal. apply IHl. lia. Qed.
Lemma remove_nth_In {A} (x y : A) i l : In x l -> nth_error l i = Some y -> x <> y -> In x (remove_nth i l).
Proof.
  revert i. induction l; intros i H Hn Hxy; [destruct i; simpl in *; auto|].
  destruct i; simpl in *.
  - inversion Hn; subst. destruct H; [congruence|auto].
  - destruct H; [left; auto|right; eauto].
Qed.

(* ====== part A: lock / disk / phase invariant (every variant) *)
Definition active (ph : phase) : Prop := ph = Creating \/ ph = Holding \/ ph = Running \/ ph = Ended.

Record InvA (C : cfg) (s : state) : Prop := {
  a_lock1 : forall j, s_lock s = Some j -> j_ph (s_jobs s j) = Creating /\ (j < c_n C)%nat;
  a_lock2 : forall j, j_ph (s_jobs s j) = Creating -> s_lock s = Some j;
  a_disk : forall k, s_disk s k <> Absent -> (k < c_n C)%nat /\ active (j_ph (s_jobs s k));
  a_empty1 : forall k, s_disk s k = Empty -> j_ph (s_jobs s k) = Creating \/ j_ph (s_jobs s k) = Ended;
  a_empty2 : forall k, j_ph (s_jobs s k) = Creating -> s_disk s k = Empty;
  a_written : forall k c, s_disk s k = Written c -> c = c_cnt C k;
  a_hold : forall k, j_ph (s_jobs s k) = Holding \/ j_ph (s_jobs s k) = Running -> exists c, s_disk s k = Written c;
  a_cache : forall p k c, p_cache (s_procs s p) k = Some c -> c = c_cnt C k /\ (k < c_n C)%nat
}.

Definition cache_good (C : cfg) (pr : proc) : Prop :=
  forall k c, p_cache pr k = Some c -> c = c_cnt C k /\ (k < c_n C)%nat.

(* _update on a directory it can parse (no unparsable file outside its cache): every file
   present is counted for the request of its job *)
Lemma parsable_at C s pr k : parsable C s pr = true -> (k < c_n C)%nat -> s_disk s k = Empty -> p_cache pr k <> None.
Proof.
  intros P Hk D. unfold parsable in P. rewrite forallb_forall in P.
  specialize (P k). rewrite D in P. destruct (p_cache pr k); [congruence|].
  assert (false = true); [|discriminate]. apply P. apply in_seq. lia.
Qed.

Lemma recount_cache_spec C s pr k :
  InvA C s -> parsable C s pr = true -> cache_good C pr ->
  recount_cache s pr k = match s_disk s k with Absent => None | _ => Some (c_cnt C k) end.
Proof.
  intros I L G. unfold recount_cache. destruct (s_disk s k) eqn:D; auto.
  - assert (Hk : (k < c_n C)%nat) by (apply (a_disk _ _ I); congruence).
    assert (N := parsable_at C s pr k L Hk D). destruct (p_cache pr k) eqn:E; [|congruence].
    apply G in E. destruct E; subst; auto.
  - apply (a_written _ _ I) in D. subst. destruct (p_cache pr k) eqn:E; auto.
    apply G in E. destruct E; subst; auto.
Qed.

Lemma recount_good C s pr : InvA C s -> parsable C s pr = true -> cache_good C pr -> cache_good C (recount C s pr).
Proof.
  intros I L G k c H. unfold recount in H; simpl in H. rewrite (recount_cache_spec C s pr k I L G) in H.
  destruct (s_disk s k) eqn:D; try discriminate; inversion H; subst; (split; auto; apply (a_disk _ _ I); congruence).
Qed.

Opaque recount notify emit parsable.

Lemma invA_init C : InvA C init.
Proof.
  constructor; simpl; intros; try discriminate; try congruence.
  destruct H; discriminate.
Qed.

Ltac open_guard H :=
  match type of H with
  | (if ?b then _ else None) = Some _ => let G := fresh "G" in destruct b eqn:G; [|discriminate H]
  end.
Ltac open_start H tac :=
  match type of H with
  | (if ?b then _ else if ?c then _ else None) = Some _ =>
      let G := fresh "G" in destruct b eqn:G; [| destruct c; [inversion H; subst; clear H; tac | discriminate H]]
  end.
Ltac split_and G := repeat (rewrite andb_true_iff in G; let G' := fresh "G" in destruct G as [G G']).

Ltac solve_active :=
  unfold active in *; repeat match goal with H : _ \/ _ |- _ => destruct H end; try discriminate; try congruence; auto 7.

Ltac cu H := unfold upd in H; match type of H with context[Nat.eqb ?a ?b] => destruct (Nat.eqb_spec a b); subst; simpl in H end.
Ltac cug := unfold upd; match goal with |- context[Nat.eqb ?a ?b] => destruct (Nat.eqb_spec a b); subst; simpl end.

Lemma dead_good C : cache_good C dead_proc.
Proof. intros k c H. discriminate. Qed.


Ltac named := constructor; simpl;
  [ intros j0 HL | intros j0 HP | intros k HD | intros k HD | intros k HP | intros k c HD | intros k HP | intros q k c HC ].
Ltac sp := repeat match goal with
  | H : context[Nat.eqb ?a ?b] |- _ => destruct (Nat.eqb_spec a b); subst; simpl in H
  | |- context[Nat.eqb ?a ?b] => destruct (Nat.eqb_spec a b); subst; simpl
  end.

(* a step that leaves lock, disk and every phase unchanged *)
Lemma invA_same C s s' :
  InvA C s -> s_lock s' = s_lock s -> s_disk s' = s_disk s ->
  (forall j, j_ph (s_jobs s' j) = j_ph (s_jobs s j)) ->
  (forall q, cache_good C (s_procs s' q)) -> InvA C s'.
Proof.
  intros I L D P G. named; rewrite ?L, ?D, ?P in *.
  - apply (a_lock1 _ _ I); auto.
  - apply (a_lock2 _ _ I); auto.
  - apply (a_disk _ _ I); auto.
  - apply (a_empty1 _ _ I); auto.
  - apply (a_empty2 _ _ I); auto.
  - eapply a_written; eauto.
  - apply (a_hold _ _ I); auto.
  - eapply G; eauto.
Qed.

(* one job changes phase, lock and disk unchanged *)
Lemma invA_phase C s s' j ph :
  InvA C s -> s_lock s' = s_lock s -> s_disk s' = s_disk s ->
  (forall k, k <> j -> j_ph (s_jobs s' k) = j_ph (s_jobs s k)) ->
  j_ph (s_jobs s' j) = ph ->
  ((j_ph (s_jobs s j) = Holding /\ ph = Running) \/ (j_ph (s_jobs s j) = Running /\ ph = Ended) \/
   (j_ph (s_jobs s j) = Done /\ ph = Idle)) ->
  (forall q, cache_good C (s_procs s' q)) -> InvA C s'.
Proof.
  intros I L D P Pj T G. named; rewrite ?L, ?D in *.
  - destruct (a_lock1 _ _ I _ HL). split; auto. destruct (Nat.eq_dec j0 j); subst; [|rewrite P; auto].
    destruct T as [[T1 T2]|[[T1 T2]|[T1 T2]]]; congruence.
  - apply (a_lock2 _ _ I). destruct (Nat.eq_dec j0 j); subst; [|rewrite <- P; auto].
    destruct T as [[T1 T2]|[[T1 T2]|[T1 T2]]]; congruence.
  - destruct (a_disk _ _ I _ HD) as [HK HA]. split; auto. destruct (Nat.eq_dec k j); subst; [|rewrite P; auto].
    destruct T as [[T1 T2]|[[T1 T2]|[T1 T2]]]; subst; try (rewrite T2; unfold active; auto; fail).
    rewrite T1 in HA. unfold active in HA. repeat (destruct HA as [HA|HA]; try discriminate).
  - apply (a_empty1 _ _ I) in HD. destruct (Nat.eq_dec k j); subst; [|rewrite P; auto].
    destruct T as [[T1 T2]|[[T1 T2]|[T1 T2]]]; destruct HD; congruence.
  - apply (a_empty2 _ _ I). destruct (Nat.eq_dec k j); subst; [|rewrite <- P; auto].
    destruct T as [[T1 T2]|[[T1 T2]|[T1 T2]]]; congruence.
  - eapply a_written; eauto.
  - apply (a_hold _ _ I). destruct (Nat.eq_dec k j); subst; [|rewrite <- P; auto].
    destruct T as [[T1 T2]|[[T1 T2]|[T1 T2]]]; auto. rewrite T2 in HP. destruct HP; discriminate.
  - eapply G; eauto.
Qed.


(* files disappear whose jobs are neither creating them nor holding/running *)
Lemma invA_delete_many C s s' (del : nat -> Prop) :
  InvA C s -> s_lock s' = s_lock s ->
  (forall k, ~ del k -> s_disk s' k = s_disk s k) -> (forall k, del k -> s_disk s' k = Absent) ->
  (forall k, ~ del k -> j_ph (s_jobs s' k) = j_ph (s_jobs s k)) ->
  (forall k, del k -> j_ph (s_jobs s' k) = Idle \/ j_ph (s_jobs s' k) = Done \/ j_ph (s_jobs s' k) = Ended) ->
  (forall k, del k -> j_ph (s_jobs s k) <> Creating) ->
  (forall k, del k \/ ~ del k) ->
  (forall q, cache_good C (s_procs s' q)) -> InvA C s'.
Proof.
  intros I L D Dj P Pj NC DEC G. named; rewrite ?L in *.
  - destruct (a_lock1 _ _ I _ HL). split; auto. destruct (DEC j0) as [E|E]; [exfalso; eapply NC; eauto|rewrite P; auto].
  - apply (a_lock2 _ _ I). destruct (DEC j0) as [E|E]; [|rewrite <- P; auto].
    destruct (Pj _ E) as [X|[X|X]]; congruence.
  - destruct (DEC k) as [E|E]; [rewrite Dj in HD by auto; congruence|]. rewrite D in HD by auto. rewrite P by auto. apply (a_disk _ _ I); auto.
  - destruct (DEC k) as [E|E]; [rewrite Dj in HD by auto; congruence|]. rewrite D in HD by auto. rewrite P by auto. apply (a_empty1 _ _ I); auto.
  - destruct (DEC k) as [E|E]; [destruct (Pj _ E) as [X|[X|X]]; congruence|]. rewrite D by auto. rewrite P in HP by auto. apply (a_empty2 _ _ I); auto.
  - destruct (DEC k) as [E|E]; [rewrite Dj in HD by auto; congruence|]. rewrite D in HD by auto. eapply a_written; eauto.
  - destruct (DEC k) as [E|E]; [destruct (Pj _ E) as [X|[X|X]]; destruct HP; congruence|]. rewrite D by auto. rewrite P in HP by auto. apply (a_hold _ _ I); auto.
  - eapply G; eauto.
Qed.

Lemma invA_delete C s s' j :
  InvA C s -> s_lock s' = s_lock s ->
  (forall k, k <> j -> s_disk s' k = s_disk s k) -> s_disk s' j = Absent ->
  (forall k, k <> j -> j_ph (s_jobs s' k) = j_ph (s_jobs s k)) ->
  (j_ph (s_jobs s' j) = Idle \/ j_ph (s_jobs s' j) = Done \/ j_ph (s_jobs s' j) = Ended) ->
  (j_ph (s_jobs s j) <> Creating) ->
  (forall q, cache_good C (s_procs s' q)) -> InvA C s'.
Proof.
  intros I L D Dj P Pj NC G.
  apply (invA_delete_many C s s' (fun k => k = j)); auto.
  - intros k ->. auto.
  - intros k ->. auto.
  - intros k ->. auto.
  - intros k. destruct (Nat.eq_dec k j); auto.
Qed.

Lemma good_all C s : InvA C s -> forall q, cache_good C (s_procs s q).
Proof. intros I q k c. apply (a_cache _ _ I). Qed.

Lemma good_upd C (procs : nat -> proc) p pr :
  (forall q, cache_good C (procs q)) -> cache_good C pr -> forall q, cache_good C (upd procs p pr q).
Proof. intros H G q. unfold upd. destruct (Nat.eqb q p); auto. Qed.

Lemma good_emit C ev (procs : nat -> proc) :
  (forall q, cache_good C (procs q)) -> forall q, cache_good C (emit ev procs q).
Proof. intros H q k c. rewrite emit_cache. apply H. Qed.

Lemma lock_free_None s : lock_free s = true -> s_lock s = None.
Proof. unfold lock_free. destruct (s_lock s); congruence. Qed.

(* job lock and pid file follow the phase (needs nothing else) *)
Record InvL (s : state) : Prop := {
  l_locked : forall j, j_ph (s_jobs s j) = Creating \/ j_ph (s_jobs s j) = Holding -> j_lock (s_jobs s j) = true;
  l_unlocked : forall j, j_lock (s_jobs s j) = true -> j_ph (s_jobs s j) = Creating \/ j_ph (s_jobs s j) = Holding;
  l_pid : forall j, j_ph (s_jobs s j) = Running -> j_pid (s_jobs s j) = true
}.

Lemma invL_init : InvL init.
Proof. constructor; simpl; intros; try discriminate. destruct H; discriminate. Qed.

Lemma invL_jobs s s' :
  InvL s ->
  (forall j, s_jobs s' j = s_jobs s j \/
     (j_ph (s_jobs s' j) = j_ph (s_jobs s j) /\ j_lock (s_jobs s' j) = j_lock (s_jobs s j) /\ j_pid (s_jobs s' j) = j_pid (s_jobs s j)) \/
     (j_ph (s_jobs s' j) = Creating /\ j_lock (s_jobs s' j) = true) \/
     (j_ph (s_jobs s j) = Creating /\ j_ph (s_jobs s' j) = Holding /\ j_lock (s_jobs s' j) = j_lock (s_jobs s j)) \/
     (j_ph (s_jobs s' j) = Running /\ j_lock (s_jobs s' j) = false /\ j_pid (s_jobs s' j) = true) \/
     ((j_ph (s_jobs s' j) = Ended \/ j_ph (s_jobs s' j) = Idle \/ j_ph (s_jobs s' j) = Done) /\ j_lock (s_jobs s' j) = false)) ->
  InvL s'.
Proof.
  intros L H. constructor; intros j Hj; destruct (H j) as [E|[[E1 [E2 E3]]|[[E1 E2]|[[E0 [E1 E2]]|[[E1 [E2 E3]]|[E1 E2]]]]]].
  - rewrite E in *. apply (l_locked _ L); auto.
  - rewrite E1 in Hj. rewrite E2. apply (l_locked _ L); auto.
  - auto.
  - rewrite E2. apply (l_locked _ L); auto.
  - rewrite E1 in Hj. destruct Hj; discriminate.
  - destruct E1 as [E1|[E1|E1]]; rewrite E1 in Hj; destruct Hj; discriminate.
  - rewrite E in *. apply (l_unlocked _ L); auto.
  - rewrite E1. rewrite E2 in Hj. apply (l_unlocked _ L); auto.
  - auto.
  - auto.
  - congruence.
  - congruence.
  - rewrite E in *. apply (l_pid _ L); auto.
  - rewrite E3. rewrite E1 in Hj. apply (l_pid _ L); auto.
  - congruence.
  - congruence.
  - auto.
  - destruct E1 as [E1|[E1|E1]]; congruence.
Qed.

Lemma can_finish_phase s n :
  InvL s -> watcher_can_finish (s_jobs s n) = true ->
  j_ph (s_jobs s n) = Idle \/ j_ph (s_jobs s n) = Done \/ j_ph (s_jobs s n) = Ended.
Proof.
  intros L H. unfold watcher_can_finish in H. apply andb_true_iff in H. destruct H as [H1 H2].
  destruct (j_ph (s_jobs s n)) eqn:P; auto.
  - rewrite (l_locked _ L n) in H1 by auto. discriminate.
  - rewrite (l_locked _ L n) in H1 by auto. discriminate.
  - rewrite (l_pid _ L n P) in H2. simpl in H2. discriminate.
Qed.

Lemma invA_core V C s l s' r : v_fire V = true -> InvL s -> InvA C s -> core V C s l = Some (s', r) -> InvA C s'.
Proof.
  intros VFI IL I H. destruct l; simpl in H.
  - (* Start *)
    open_start H ltac:(assumption). split_and G. inversion H; subst; clear H. apply lock_free_None in G1.
    apply (invA_same C s); auto; simpl.
    + intros j. destruct (_ && _ && _); reflexivity.
    + apply good_upd; [apply good_all; auto|]. apply recount_good; auto. intros k c Hc; discriminate.
  - (* Kill *)
    open_guard H. inversion H; subst; clear H.
    match goal with |- InvA C (mkS _ _ _ ?J) => set (jobs' := J) end.
    assert (PH : forall j, j_ph (jobs' j) = j_ph (s_jobs s j) \/ (j_ph (s_jobs s j) = Holding /\ j_ph (jobs' j) = Ended) \/
                           (j_ph (s_jobs s j) = Creating /\ j_ph (jobs' j) = Ended /\ c_owner C j = p)).
    { intros j. unfold jobs'. destruct (s_jobs s j) as [ph ok orph lk pd]. simpl.
      destruct (Nat.eqb_spec (c_owner C j) p); simpl; auto.
      destruct ph; simpl; destruct (negb orph); simpl; auto. }
    assert (PC : forall j, j_ph (s_jobs s j) = Creating -> c_owner C j = p -> j_ph (jobs' j) = Ended).
    { intros j Hc Ho. unfold jobs'. destruct (s_jobs s j) as [ph ok orph lk pd]. simpl in *. subst ph.
      rewrite Ho, Nat.eqb_refl. simpl. rewrite orb_true_r. reflexivity. }
    named.
    + unfold not_creating in HL. destruct (s_lock s) as [j1|] eqn:LK; [|discriminate].
      destruct (Nat.eqb_spec (c_owner C j1) p); simpl in HL; [discriminate|]. inversion HL; subst.
      destruct (a_lock1 _ _ I _ LK). split; auto.
      destruct (PH j0) as [E|[[E1 E2]|[E1 [E2 E3]]]]; simpl in *; congruence.
    + destruct (PH j0) as [E|[[E1 E2]|[E1 [E2 E3]]]]; simpl in *; try congruence.
      rewrite E in HP. assert (LK := a_lock2 _ _ I _ HP). unfold not_creating. rewrite LK.
      destruct (Nat.eqb_spec (c_owner C j0) p); simpl; auto.
      rewrite (PC j0 HP e) in E. congruence.
    + destruct (a_disk _ _ I _ HD). split; auto.
      destruct (PH k) as [E|[[E1 E2]|[E1 [E2 E3]]]]; simpl in *; [rewrite E; auto|rewrite E2; unfold active; auto|rewrite E2; unfold active; auto].
    + destruct (a_empty1 _ _ I _ HD) as [X|X]; destruct (PH k) as [E|[[E1 E2]|[E1 [E2 E3]]]]; simpl in *; try congruence; auto;
      [left; congruence|right; congruence].
    + destruct (PH k) as [E|[[E1 E2]|[E1 [E2 E3]]]]; simpl in *; try congruence. apply (a_empty2 _ _ I). congruence.
    + eapply a_written; eauto.
    + apply (a_hold _ _ I). destruct (PH k) as [E|[[E1 E2]|[E1 [E2 E3]]]]; simpl in *; [rewrite <- E; auto| |]; rewrite E2 in HP; destruct HP; discriminate.
    + cu HC; [discriminate|]. eapply a_cache; eauto.
  - (* Acquire *)
    open_guard H. split_and G.
    apply lock_free_None in G1. apply Nat.ltb_lt in G6. apply Nat.eqb_eq in G5.
    assert (RG := recount_good C s _ I G0 (good_all C s I p)).
    assert (Hidle : j_ph (s_jobs s j) = Idle) by (destruct (j_ph (s_jobs s j)); simpl in G4; congruence).
    destruct (_ <? _) eqn:LT; inversion H; subst; clear H.
    + (* lock error *)
      apply (invA_same C s); auto; simpl.
      * intros k. cug; auto.
      * apply good_upd; auto. apply good_all; auto.
    + named.
      * inversion HL; subst. rewrite upd_same. simpl. auto.
      * cu HP; auto. apply (a_lock2 _ _ I) in HP. congruence.
      * cug. { split; auto. unfold active; auto. } rewrite upd_other in HD by auto. apply (a_disk _ _ I); auto.
      * cug; auto. rewrite upd_other in HD by auto. apply (a_empty1 _ _ I); auto.
      * cug; auto. rewrite upd_other in HP by auto. apply (a_empty2 _ _ I); auto.
      * cu HD; [discriminate|]. eapply a_written; eauto.
      * cu HP; [destruct HP; discriminate|]. rewrite upd_other by auto. apply (a_hold _ _ I); auto.
      * rewrite emit_cache in HC. cu HC; [|eapply a_cache; eauto].
        cu HC. { inversion HC; subst; auto. } eapply RG; eauto.
  - (* WriteF *)
    destruct (s_lock s) eqn:L; try discriminate. destruct (Nat.eqb_spec j n); try discriminate. subst.
    rewrite (a_empty2 _ _ I n (proj1 (a_lock1 _ _ I n L))) in H. cbn [is_present] in H.
    inversion H; subst; clear H. destruct (a_lock1 _ _ I n L) as [Hc Hn].
    named.
    + discriminate.
    + cu HP; [discriminate|]. apply (a_lock2 _ _ I) in HP. congruence.
    + cug. { split; auto. unfold active; auto. } rewrite upd_other in HD by auto. apply (a_disk _ _ I); auto.
    + cu HD; [discriminate|]. rewrite upd_other by auto. apply (a_empty1 _ _ I); auto.
    + cu HP; [discriminate|]. rewrite upd_other by auto. apply (a_empty2 _ _ I); auto.
    + cu HD; [congruence|]. eapply a_written; eauto.
    + cug; eauto. rewrite upd_other in HP by auto. apply (a_hold _ _ I); auto.
    + rewrite emit_cache in HC. eapply a_cache; eauto.
  - (* Launch *)
    destruct (j_ph (s_jobs s j)) eqn:P; try discriminate. destruct (j_orph (s_jobs s j)) eqn:O; try discriminate.
    inversion H; subst; clear H.
    apply (invA_phase C s _ j Running); auto; simpl.
    + intros k Hk. rewrite upd_other; auto.
    + rewrite upd_same. reflexivity.
    + apply good_all; auto.
  - (* JobEnds *)
    destruct (j_ph (s_jobs s j)) eqn:P; try discriminate.
    inversion H; subst; clear H.
    apply (invA_phase C s _ j Ended); auto; simpl.
    + intros k Hk. rewrite upd_other; auto.
    + rewrite upd_same. reflexivity.
    + apply good_all; auto.
  - (* JobKilled *)
    destruct (j_ph (s_jobs s j)) eqn:P; try discriminate.
    inversion H; subst; clear H.
    apply (invA_phase C s _ j Ended); auto; simpl.
    + intros k Hk. rewrite upd_other; auto.
    + rewrite upd_same. reflexivity.
    + apply good_all; auto.
  - (* Release *)
    destruct (match j_ph (s_jobs s j) with Holding => Some Idle | Ended => Some Done | _ => None end) as [ph'|] eqn:NP; try discriminate.
    open_guard H. split_and G. apply lock_free_None in G1. apply Nat.eqb_eq in G3. subst p.
    assert (RG := recount_good C s _ I G0 (good_all C s I (c_owner C j))).
    assert (RS := recount_cache_spec C s (s_procs s (c_owner C j)) j I G0 (good_all C s I _)).
    assert (PJ : (j_ph (s_jobs s j) = Holding /\ ph' = Idle) \/ (j_ph (s_jobs s j) = Ended /\ ph' = Done)).
    { destruct (j_ph (s_jobs s j)); inversion NP; auto. }
    assert (NC : j_ph (s_jobs s j) <> Creating) by (destruct PJ as [[E _]|[E _]]; congruence).
    assert (PJ' : ph' = Idle \/ ph' = Done \/ ph' = Ended) by (destruct PJ as [[_ E]|[_ E]]; auto).
    change (recount_cache s (s_procs s (c_owner C j)) j) with (p_cache (recount C s (s_procs s (c_owner C j))) j) in RS.
    destruct (p_cache (recount C s (s_procs s (c_owner C j))) j) eqn:PC.
    + assert (PRS : is_present (s_disk s j) = true) by (destruct (s_disk s j); simpl; congruence).
      rewrite PRS in H. inversion H; subst; clear H.
      apply (invA_delete C s _ j); auto; simpl.
      * intros k Hk. apply upd_other; auto.
      * apply upd_same.
      * intros k Hk. rewrite notify_ph. rewrite upd_other; auto.
      * rewrite notify_ph, upd_same. simpl. auto.
      * apply good_emit. apply good_upd; [apply good_all; auto|].
        intros k c9 Hc. simpl in Hc. cu Hc; [discriminate|]. eapply RG; eauto.
    + inversion H; subst; clear H.
      assert (DJ : s_disk s j = Absent).
      { destruct (s_disk s j) eqn:DJ; auto; discriminate. }
      apply (invA_delete C s _ j); auto; simpl.
      * intros k Hk. destruct (v_notify V); rewrite ?notify_ph; rewrite upd_other; auto.
      * destruct (v_notify V); rewrite ?notify_ph; rewrite upd_same; simpl; auto.
      * apply good_upd; [apply good_all; auto|auto].
  - (* Deliver *)
    open_guard H. split_and G.
    destruct (nth_error (p_evq (s_procs s p)) i) as [ev|] eqn:NE; try discriminate.
    assert (GA := good_all C s I).
    assert (SAME : forall q', cache_good C (mkProc (p_alive (s_procs s p)) (p_avail (s_procs s p)) (p_cache (s_procs s p))
                     (p_obs (s_procs s p)) q' (p_wat (s_procs s p)))) by (intros q' k c Hc; apply (GA p k c Hc)).
    assert (CR : forall n, (match ev with ECreated m | EModified m => m = n | _ => False end) -> InvA C s').
    { intros n Hev. destruct (p_cache (s_procs s p) n) eqn:PC.
      - assert (s' = mkS (s_lock s) (s_disk s) (upd (s_procs s) p (mkProc (p_alive (s_procs s p)) (p_avail (s_procs s p)) (p_cache (s_procs s p))
                     (p_obs (s_procs s p)) (remove_nth i (p_evq (s_procs s p))) (p_wat (s_procs s p)))) (s_jobs s)).
        { destruct ev; try contradiction; subst; rewrite PC in H; inversion H; auto. }
        subst s'. apply (invA_same C s); auto; simpl. apply good_upd; auto.
      - destruct (s_disk s n) eqn:DN.
        + assert (s' = mkS (s_lock s) (s_disk s) (upd (s_procs s) p (mkProc (p_alive (s_procs s p)) (p_avail (s_procs s p)) (p_cache (s_procs s p))
                     (p_obs (s_procs s p)) (remove_nth i (p_evq (s_procs s p))) (p_wat (s_procs s p)))) (s_jobs s)).
          { destruct ev; try contradiction; subst; rewrite PC, DN in H; inversion H; auto. }
          subst s'. apply (invA_same C s); auto; simpl. apply good_upd; auto.
        + destruct (v_parse V) eqn:VP.
          * assert (s' = mkS (s_lock s) (s_disk s) (upd (s_procs s) p (mkProc (p_alive (s_procs s p)) (p_avail (s_procs s p)) (p_cache (s_procs s p))
                     (p_obs (s_procs s p)) (remove_nth i (p_evq (s_procs s p))) (p_wat (s_procs s p)))) (s_jobs s)).
            { destruct ev; try contradiction; subst; rewrite PC, DN in H; inversion H; auto. }
            subst s'. apply (invA_same C s); auto; simpl. apply good_upd; auto.
          * assert (s' = mkS (s_lock s) (s_disk s) (upd (s_procs s) p (mkProc (p_alive (s_procs s p)) (p_avail (s_procs s p)) (p_cache (s_procs s p))
                     false [] (p_wat (s_procs s p)))) (s_jobs s)).
            { destruct ev; try contradiction; subst; rewrite PC, DN in H; inversion H; auto. }
            subst s'. apply (invA_same C s); auto; simpl. apply good_upd; auto.
            intros k c Hc. apply (GA p k c Hc).
        + assert (s' = mkS (s_lock s) (s_disk s) (upd (s_procs s) p (mkProc (p_alive (s_procs s p))
                     (if v_count V then p_avail (s_procs s p) - c else p_avail (s_procs s p))
                     (upd (p_cache (s_procs s p)) n (Some c)) (p_obs (s_procs s p)) (remove_nth i (p_evq (s_procs s p)))
                     (p_wat (s_procs s p) ++ [n]))) (s_jobs s)).
          { destruct ev; try contradiction; subst; rewrite PC, DN in H; inversion H; auto. }
          subst s'. apply (invA_same C s); auto; simpl. apply good_upd; auto.
          intros k c0 Hc. simpl in Hc. cu Hc; [|eapply GA; eauto].
          inversion Hc; subst. split; [eapply a_written; eauto|]. apply (a_disk _ _ I). congruence. }
    destruct ev as [n|n|n].
    + apply (CR n); simpl; auto.
    + apply (CR n); simpl; auto.
    + destruct (p_cache (s_procs s p) n) eqn:PC; inversion H; subst; clear H.
      * apply (invA_same C s); auto; simpl.
        -- intros j. apply notify_ph.
        -- apply good_upd; auto. intros k c Hc. simpl in Hc. cu Hc; [discriminate|]. eapply GA; eauto.
      * apply (invA_same C s); auto; simpl. apply good_upd; auto.
  - (* Fire *)
    open_guard H. split_and G.
    assert (PJ := can_finish_phase s n IL G0).
    assert (GA := good_all C s I).
    assert (GP : forall q, cache_good C (upd (s_procs s) p (mkProc (p_alive (s_procs s p)) (p_avail (s_procs s p)) (p_cache (s_procs s p))
                   (p_obs (s_procs s p)) (p_evq (s_procs s p)) (remove_first n (p_wat (s_procs s p)))) q)).
    { apply good_upd; auto. intros k c Hc. apply (GA p k c Hc). }
    rewrite VFI in H.
    destruct (is_present (s_disk s n)) eqn:PR; inversion H; subst; clear H.
    + apply (invA_delete C s _ n); auto; simpl.
      * intros k Hk. apply upd_other; auto.
      * apply upd_same.
      * destruct PJ as [E|[E|E]]; congruence.
      * apply good_emit; auto.
    + apply (invA_same C s); auto.
  - discriminate.
  - (* FireDelete: only in the pinned watcher *)
    rewrite VFI in H. simpl in H. discriminate.
  - (* Resubmit *)
    destruct (j_ph (s_jobs s j)) eqn:P; try discriminate. open_guard H.
    inversion H; subst; clear H.
    apply (invA_phase C s _ j Idle); auto; simpl.
    + intros k Hk. rewrite upd_other; auto.
    + rewrite upd_same. reflexivity.
    + apply good_all; auto.
  - discriminate.
  - discriminate.
Qed.

Lemma good_emit_except C p ev (procs : nat -> proc) :
  (forall q, cache_good C (procs q)) -> forall q, cache_good C (emit_except p ev procs q).
Proof. intros H q. unfold emit_except. destruct (Nat.eqb q p); auto. apply good_emit; auto. Qed.

Lemma invA_silent C s p n s' r : InvL s -> InvA C s -> silent_fire C s p n = Some (s', r) -> InvA C s'.
Proof.
  intros IL I H. unfold silent_fire in H. open_guard H. split_and G.
  assert (PJ := can_finish_phase s n IL G0).
  assert (GA := good_all C s I).
  assert (GP : forall q, cache_good C (upd (s_procs s) p (mkProc (p_alive (s_procs s p)) (p_avail (s_procs s p)) (p_cache (s_procs s p))
                 (p_obs (s_procs s p)) (p_evq (s_procs s p)) (remove_first n (p_wat (s_procs s p)))) q)).
  { apply good_upd; auto. intros k c Hc. apply (GA p k c Hc). }
  destruct (is_present (s_disk s n)) eqn:PR; inversion H; subst; clear H.
  - apply (invA_delete C s _ n); auto; simpl.
    + intros k Hk. apply upd_other; auto.
    + apply upd_same.
    + destruct PJ as [E|[E|E]]; congruence.
    + apply good_emit_except; auto.
  - apply (invA_same C s); auto.
Qed.

Lemma silent_jobs C s p n s' r : silent_fire C s p n = Some (s', r) -> s_jobs s' = s_jobs s.
Proof.
  intros H. unfold silent_fire in H. open_guard H.
  destruct (is_present (s_disk s n)); inversion H; subst; reflexivity.
Qed.

Lemma invL_core V C s l s' r : InvA C s -> InvL s -> core V C s l = Some (s', r) -> InvL s'.
Proof.
  intros I L H. apply (invL_jobs s s' L). intros j0. destruct l; simpl in H.
  - open_start H ltac:(left; reflexivity). inversion H; subst; clear H. simpl.
    match goal with |- context[if ?b then _ else _] => destruct b end; [right; left; simpl; auto|left; reflexivity].
  - open_guard H. inversion H; subst; clear H. simpl.
    destruct (s_jobs s j0) as [ph ok orph lk pd] eqn:E. simpl.
    match goal with |- context[if ?b then _ else _] => destruct b end; auto.
    destruct ph; simpl;
      [left; reflexivity | do 5 right; auto | do 5 right; auto | right; left; auto | right; left; auto | left; reflexivity].
  - open_guard H. destruct (_ <? _); inversion H; subst; clear H; simpl.
    + unfold upd. destruct (Nat.eqb_spec j0 j); subst; auto; right; left; simpl; auto.
    + unfold upd. destruct (Nat.eqb_spec j0 j); subst; auto; right; right; left; simpl; auto.
  - destruct (s_lock s) eqn:LK; try discriminate. destruct (Nat.eqb_spec j n); try discriminate. subst.
    rewrite (a_empty2 _ _ I n (proj1 (a_lock1 _ _ I n LK))) in H. cbn [is_present] in H.
    inversion H; subst; clear H. simpl. unfold upd. destruct (Nat.eqb_spec j0 n); subst; auto.
    destruct (a_lock1 _ _ I n LK) as [P _]. do 3 right. left. simpl. auto.
  - destruct (j_ph (s_jobs s j)) eqn:P; try discriminate. destruct (j_orph (s_jobs s j)); try discriminate.
    inversion H; subst; clear H. simpl. unfold upd. destruct (Nat.eqb_spec j0 j); subst; auto.
    do 4 right. left. simpl. auto.
  - destruct (j_ph (s_jobs s j)) eqn:P; try discriminate.
    inversion H; subst; clear H. simpl. unfold upd. destruct (Nat.eqb_spec j0 j); subst; auto.
    do 5 right. simpl. split; auto.
    destruct (j_lock (s_jobs s j)) eqn:LK; auto. apply (l_unlocked _ L) in LK. destruct LK; congruence.
  - destruct (j_ph (s_jobs s j)) eqn:P; try discriminate.
    inversion H; subst; clear H. simpl. unfold upd. destruct (Nat.eqb_spec j0 j); subst; auto.
    do 5 right. simpl. split; auto.
    destruct (j_lock (s_jobs s j)) eqn:LK; auto. apply (l_unlocked _ L) in LK. destruct LK; congruence.
  - destruct (match j_ph (s_jobs s j) with Holding => Some Idle | Ended => Some Done | _ => None end) as [ph'|] eqn:NP; try discriminate.
    assert (PJ' : ph' = Idle \/ ph' = Done) by (destruct (j_ph (s_jobs s j)); inversion NP; auto).
    open_guard H.
    assert (JJ : forall a (jobs1 : nat -> jst), jobs1 = upd (s_jobs s) j (set_job (s_jobs s j) ph' false (j_pid (s_jobs s j))) ->
       notify C p a jobs1 j0 = s_jobs s j0 \/
       (j_ph (notify C p a jobs1 j0) = j_ph (s_jobs s j0) /\ j_lock (notify C p a jobs1 j0) = j_lock (s_jobs s j0) /\ j_pid (notify C p a jobs1 j0) = j_pid (s_jobs s j0)) \/
       ((j_ph (notify C p a jobs1 j0) = Ended \/ j_ph (notify C p a jobs1 j0) = Idle \/ j_ph (notify C p a jobs1 j0) = Done) /\ j_lock (notify C p a jobs1 j0) = false)).
    { intros a jobs1 ->. rewrite notify_ph, notify_lock, notify_pid. unfold upd. destruct (Nat.eqb_spec j0 j); subst; simpl; auto;
      right; right; split; auto; destruct PJ' as [->| ->]; auto. }
    destruct (p_cache _ j).
    + destruct (is_present (s_disk s j)); inversion H; subst; clear H; simpl;
        (destruct (JJ (p_avail (recount C s (s_procs s p)) + z) _ eq_refl) as [E|[E|E]]; [left; exact E|right; left; exact E|do 5 right; exact E]).
    + inversion H; subst; clear H; simpl. destruct (v_notify V).
      * destruct (JJ (p_avail (recount C s (s_procs s p))) _ eq_refl) as [E|[E|E]]; [left; exact E|right; left; exact E|do 5 right; exact E].
      * unfold upd. destruct (Nat.eqb_spec j0 j); subst; simpl; auto;
        do 5 right; split; auto; destruct PJ' as [->| ->]; auto.
  - open_guard H. destruct (nth_error _ i) as [ev|]; try discriminate.
    assert (D : s_jobs s' j0 = s_jobs s j0 \/ (j_ph (s_jobs s' j0) = j_ph (s_jobs s j0) /\ j_lock (s_jobs s' j0) = j_lock (s_jobs s j0) /\ j_pid (s_jobs s' j0) = j_pid (s_jobs s j0))).
    { destruct ev; repeat match type of H with
        | match ?x with _ => _ end = _ => destruct x
        | (if ?x then _ else _) = _ => destruct x end; inversion H; subst; simpl; auto.
      right. rewrite notify_ph, notify_lock, notify_pid. auto. }
    destruct D as [D|D]; auto.
  - open_guard H. destruct (v_fire V); [destruct (is_present (s_disk s n))|]; inversion H; subst; auto.
  - discriminate.
  - open_guard H. destruct (is_present (s_disk s n)); inversion H; subst; auto.
  - destruct (j_ph (s_jobs s j)) eqn:P; try discriminate. open_guard H.
    inversion H; subst; clear H. simpl. unfold upd. destruct (Nat.eqb_spec j0 j); subst; auto.
    do 5 right. simpl. auto.
  - discriminate.
  - discriminate.
Qed.

(* ====== part B: capacity *)
Definition cnt_nonneg (C : cfg) : Prop := forall j, 0 <= c_cnt C j.

Transparent recount.
Lemma recount_avail C s pr :
  InvA C s -> parsable C s pr = true -> cache_good C pr ->
  p_avail (recount C s pr) = c_total C - held_sum C s.
Proof.
  intros I L G. unfold recount, held_sum; simpl. f_equal. apply sumf_ext. intros k Hk.
  rewrite (recount_cache_spec C s pr k I L G). unfold held.
  destruct (s_disk s k) eqn:D; simpl; auto.
Qed.
Lemma recount_cache_eq C s pr k : p_cache (recount C s pr) k = recount_cache s pr k.
Proof. reflexivity. Qed.
Lemma recount_alive C s pr : p_alive (recount C s pr) = p_alive pr.
Proof. reflexivity. Qed.
Lemma recount_obs C s pr : p_obs (recount C s pr) = p_obs pr.
Proof. reflexivity. Qed.
Lemma recount_evq C s pr : p_evq (recount C s pr) = p_evq pr.
Proof. reflexivity. Qed.
Lemma recount_wat C s pr : p_wat (recount C s pr) = p_wat pr ++ new_names C s pr.
Proof. reflexivity. Qed.
Opaque recount.

Lemma held_sum_same C s s' : s_disk s' = s_disk s -> held_sum C s' = held_sum C s.
Proof. intros D. unfold held_sum, held. rewrite D. reflexivity. Qed.

Lemma held_sum_set C s s' j :
  (j < c_n C)%nat -> (forall k, k <> j -> s_disk s' k = s_disk s k) ->
  held_sum C s' = held_sum C s - held C s j + held C s' j.
Proof.
  intros Hj D. unfold held_sum. apply sumf_change; auto.
  intros x Hx. unfold held. rewrite D; auto.
Qed.

Lemma idle_absent C s j : InvA C s -> j_ph (s_jobs s j) = Idle \/ j_ph (s_jobs s j) = Done -> s_disk s j = Absent.
Proof.
  intros I H. destruct (s_disk s j) eqn:D; auto.
  - assert (s_disk s j <> Absent) by congruence. apply (a_disk _ _ I) in H0. destruct H0 as [_ A]. unfold active in A.
    destruct H; rewrite H in A; repeat (destruct A as [A|A]; try discriminate).
  - assert (s_disk s j <> Absent) by congruence. apply (a_disk _ _ I) in H0. destruct H0 as [_ A]. unfold active in A.
    destruct H; rewrite H in A; repeat (destruct A as [A|A]; try discriminate).
Qed.

Lemma cap_core V C s l s' r :
  cnt_nonneg C -> InvA C s -> held_sum C s <= c_total C -> core V C s l = Some (s', r) -> held_sum C s' <= c_total C.
Proof.
  intros NN I Hc H. destruct l; simpl in H.
  - open_start H ltac:(assumption). inversion H; subst. rewrite (held_sum_same C s); auto.
  - open_guard H. inversion H; subst. rewrite (held_sum_same C s); auto.
  - open_guard H. split_and G. apply lock_free_None in G1. apply Nat.ltb_lt in G6.
    assert (Hidle : j_ph (s_jobs s j) = Idle) by (destruct (j_ph (s_jobs s j)); simpl in G4; congruence).
    rewrite (recount_avail C s _ I G0 (good_all C s I p)) in H.
    destruct (_ <? _) eqn:LT; inversion H; subst; clear H.
    + rewrite (held_sum_same C s); auto.
    + rewrite (held_sum_set C s _ j); simpl; auto.
      * unfold held; simpl. rewrite upd_same. rewrite (idle_absent C s j I) by auto. lia.
      * intros k Hk. apply upd_other; auto.
  - destruct (s_lock s) eqn:L; try discriminate. destruct (Nat.eqb_spec j n); try discriminate. subst.
    rewrite (a_empty2 _ _ I n (proj1 (a_lock1 _ _ I n L))) in H. cbn [is_present] in H.
    inversion H; subst; clear H. destruct (a_lock1 _ _ I n L) as [Hp Hn].
    rewrite (held_sum_set C s _ n); simpl; auto.
    + unfold held; simpl. rewrite upd_same. rewrite (a_empty2 _ _ I n Hp). lia.
    + intros k Hk. apply upd_other; auto.
  - destruct (j_ph (s_jobs s j)); try discriminate. destruct (j_orph (s_jobs s j)); try discriminate.
    inversion H; subst. rewrite (held_sum_same C s); auto.
  - destruct (j_ph (s_jobs s j)); try discriminate.
    inversion H; subst. rewrite (held_sum_same C s); auto.
  - destruct (j_ph (s_jobs s j)); try discriminate.
    inversion H; subst. rewrite (held_sum_same C s); auto.
  - destruct (match j_ph (s_jobs s j) with Holding => Some Idle | Ended => Some Done | _ => None end) as [ph'|] eqn:NP; try discriminate.
    open_guard H. destruct (p_cache _ j).
    + destruct (is_present (s_disk s j)) eqn:PR; inversion H; subst; clear H.
      * destruct (s_disk s j) eqn:DJ; try discriminate.
        -- assert (s_disk s j <> Absent) by congruence. apply (a_disk _ _ I) in H. destruct H as [Hj _].
           rewrite (held_sum_set C s _ j); simpl; auto.
           ++ unfold held; simpl. rewrite upd_same, DJ. specialize (NN j). lia.
           ++ intros k Hk. apply upd_other; auto.
        -- assert (s_disk s j <> Absent) by congruence. apply (a_disk _ _ I) in H. destruct H as [Hj _].
           rewrite (held_sum_set C s _ j); simpl; auto.
           ++ unfold held; simpl. rewrite upd_same, DJ. specialize (NN j). lia.
           ++ intros k Hk. apply upd_other; auto.
      * rewrite (held_sum_same C s); auto.
    + inversion H; subst. rewrite (held_sum_same C s); auto.
  - open_guard H. destruct (nth_error _ i) as [ev|]; try discriminate.
    assert (D : s_disk s' = s_disk s).
    { destruct ev; repeat match type of H with
        | match ?x with _ => _ end = _ => destruct x
        | (if ?x then _ else _) = _ => destruct x end; inversion H; subst; reflexivity. }
    rewrite (held_sum_same C s); auto.
  - open_guard H. destruct (v_fire V); [|inversion H; subst; rewrite (held_sum_same C s); auto].
    destruct (is_present (s_disk s n)) eqn:PR; inversion H; subst; clear H.
    + assert (s_disk s n <> Absent) by (destruct (s_disk s n); simpl in PR; congruence).
      apply (a_disk _ _ I) in H. destruct H as [Hn _].
      rewrite (held_sum_set C s _ n); simpl; auto.
      * unfold held; simpl. rewrite upd_same. specialize (NN n). destruct (s_disk s n); lia.
      * intros k Hk. apply upd_other; auto.
    + rewrite (held_sum_same C s); auto.
  - discriminate.
  - open_guard H. destruct (is_present (s_disk s n)) eqn:PR; inversion H; subst; clear H.
    + assert (s_disk s n <> Absent) by (destruct (s_disk s n); simpl in PR; congruence).
      apply (a_disk _ _ I) in H. destruct H as [Hn _].
      rewrite (held_sum_set C s _ n); simpl; auto.
      * unfold held; simpl. rewrite upd_same. specialize (NN n). destruct (s_disk s n); lia.
      * intros k Hk. apply upd_other; auto.
    + rewrite (held_sum_same C s); auto.
  - destruct (j_ph (s_jobs s j)); try discriminate. open_guard H.
    inversion H; subst. rewrite (held_sum_same C s); auto.
  - discriminate.
  - discriminate.
Qed.

Lemma cap_silent C s p n s' r :
  cnt_nonneg C -> InvA C s -> held_sum C s <= c_total C -> silent_fire C s p n = Some (s', r) -> held_sum C s' <= c_total C.
Proof.
  intros NN I Hc H. unfold silent_fire in H.
  open_guard H. destruct (is_present (s_disk s n)) eqn:PR; inversion H; subst; clear H.
  - assert (s_disk s n <> Absent) by (destruct (s_disk s n); simpl in PR; congruence).
    apply (a_disk _ _ I) in H. destruct H as [Hn _].
    rewrite (held_sum_set C s _ n); simpl; auto.
    + unfold held; simpl. rewrite upd_same. specialize (NN n). destruct (s_disk s n); lia.
    + intros k Hk. apply upd_other; auto.
  - rewrite (held_sum_same C s); auto.
Qed.

(* ---- _update's sweep of half-created files *)
Lemma emit_list_alive evs : forall procs q, p_alive (emit_list evs procs q) = p_alive (procs q).
Proof. induction evs; simpl; intros; auto. rewrite IHevs. apply emit_alive. Qed.
Lemma emit_list_avail evs : forall procs q, p_avail (emit_list evs procs q) = p_avail (procs q).
Proof. induction evs; simpl; intros; auto. rewrite IHevs. apply emit_avail. Qed.
Lemma emit_list_cache evs : forall procs q, p_cache (emit_list evs procs q) = p_cache (procs q).
Proof. induction evs; simpl; intros; auto. rewrite IHevs. apply emit_cache. Qed.
Lemma emit_list_obs evs : forall procs q, p_obs (emit_list evs procs q) = p_obs (procs q).
Proof. induction evs; simpl; intros; auto. rewrite IHevs. apply emit_obs. Qed.
Lemma emit_list_wat evs : forall procs q, p_wat (emit_list evs procs q) = p_wat (procs q).
Proof. induction evs; simpl; intros; auto. rewrite IHevs. apply emit_wat. Qed.
Lemma emit_list_evq_In evs : forall procs q e, In e (p_evq (procs q)) -> In e (p_evq (emit_list evs procs q)).
Proof.
  induction evs; simpl; intros; auto. apply IHevs. rewrite emit_evq. destruct (_ && _); auto. apply in_or_app; auto.
Qed.
Lemma emit_list_evq_dead evs : forall procs q, p_alive (procs q) = false -> p_evq (emit_list evs procs q) = p_evq (procs q).
Proof.
  induction evs; simpl; intros; auto. rewrite IHevs; [|rewrite emit_alive; auto]. rewrite emit_evq, H. reflexivity.
Qed.

Lemma sweep_lock V C s pr : s_lock (sweep V C s pr) = s_lock s.
Proof. unfold sweep. destruct (_ && _); reflexivity. Qed.
Lemma sweep_jobs V C s pr : s_jobs (sweep V C s pr) = s_jobs s.
Proof. unfold sweep. destruct (_ && _); reflexivity. Qed.
Lemma sweep_alive V C s pr q : p_alive (s_procs (sweep V C s pr) q) = p_alive (s_procs s q).
Proof. unfold sweep. destruct (_ && _); simpl; auto. apply emit_list_alive. Qed.
Lemma sweep_avail V C s pr q : p_avail (s_procs (sweep V C s pr) q) = p_avail (s_procs s q).
Proof. unfold sweep. destruct (_ && _); simpl; auto. apply emit_list_avail. Qed.
Lemma sweep_cache V C s pr q : p_cache (s_procs (sweep V C s pr) q) = p_cache (s_procs s q).
Proof. unfold sweep. destruct (_ && _); simpl; auto. apply emit_list_cache. Qed.
Lemma sweep_obs V C s pr q : p_obs (s_procs (sweep V C s pr) q) = p_obs (s_procs s q).
Proof. unfold sweep. destruct (_ && _); simpl; auto. apply emit_list_obs. Qed.
Lemma sweep_wat V C s pr q : p_wat (s_procs (sweep V C s pr) q) = p_wat (s_procs s q).
Proof. unfold sweep. destruct (_ && _); simpl; auto. apply emit_list_wat. Qed.
Lemma sweep_evq_In V C s pr q e : In e (p_evq (s_procs s q)) -> In e (p_evq (s_procs (sweep V C s pr) q)).
Proof. unfold sweep. destruct (_ && _); simpl; auto. apply emit_list_evq_In. Qed.
Lemma sweep_disk V C s pr k :
  s_disk (sweep V C s pr) k = s_disk s k \/
  (s_disk (sweep V C s pr) k = Absent /\ s_disk s k = Empty /\ p_cache pr k = None /\ s_lock s = None).
Proof.
  unfold sweep. destruct (v_empty V && lock_free s) eqn:G; auto. simpl.
  apply andb_true_iff in G. destruct G as [_ G]. apply lock_free_None in G.
  unfold stale_empty. destruct (s_disk s k) eqn:D; auto. destruct (p_cache pr k) eqn:E; auto.
Qed.

Lemma invA_sweep V C s pr : InvA C s -> InvA C (sweep V C s pr).
Proof.
  intros I.
  apply (invA_delete_many C s _ (fun k => s_disk (sweep V C s pr) k = Absent /\ s_disk s k = Empty /\ s_lock s = None)).
  - exact I.
  - apply sweep_lock.
  - intros k N. destruct (sweep_disk V C s pr k) as [E|[E1 [E2 [E3 E4]]]]; auto. exfalso. apply N. auto.
  - intros k [E _]. exact E.
  - intros k _. rewrite sweep_jobs. reflexivity.
  - intros k [_ [E L]]. rewrite sweep_jobs. destruct (a_empty1 _ _ I k E) as [X|X]; auto.
    apply (a_lock2 _ _ I) in X. congruence.
  - intros k [_ [E L]] X. apply (a_lock2 _ _ I) in X. congruence.
  - intros k. destruct (sweep_disk V C s pr k) as [E|[E1 [E2 [E3 E4]]]]; [right; intros [X [Y _]]; congruence|left; auto].
  - intros q k c Hc. rewrite sweep_cache in Hc. eapply a_cache; eauto.
Qed.

Lemma invL_same_jobs s s' : InvL s -> s_jobs s' = s_jobs s -> InvL s'.
Proof. intros L E. constructor; intros j; rewrite E; [apply (l_locked _ L)|apply (l_unlocked _ L)|apply (l_pid _ L)]. Qed.

Lemma cap_sweep V C s pr : cnt_nonneg C -> held_sum C (sweep V C s pr) <= held_sum C s.
Proof.
  intros NN. unfold held_sum. apply sumf_le. intros k Hk. unfold held.
  destruct (sweep_disk V C s pr k) as [E|[E1 [E2 _]]]; [rewrite E; lia|]. rewrite E1, E2. apply NN.
Qed.

Transparent parsable.
Lemma parsable_sweep V C s pr pr' :
  v_empty V = true -> s_lock s = None -> p_cache pr' = p_cache pr -> parsable C (sweep V C s pr) pr' = true.
Proof.
  intros VE L E. unfold parsable. apply forallb_forall. intros k _.
  unfold sweep, lock_free. rewrite VE, L. simpl. unfold stale_empty. rewrite E.
  destruct (s_disk s k); auto. destruct (p_cache pr k); auto.
Qed.
Lemma parsable_cache C s pr pr' : p_cache pr' = p_cache pr -> parsable C s pr' = parsable C s pr.
Proof. intros E. unfold parsable. rewrite E. reflexivity. Qed.
Opaque parsable.

Definition fresh_proc := mkProc true 0 (fun _ => None) true [] [].
Definition pre (V : variant) (C : cfg) (s : state) (l : label) : state :=
  match l with
  | Start p => sweep V C s fresh_proc
  | Acquire p _ | Release p _ => sweep V C s (s_procs s p)
  | _ => s
  end.
Lemma step1_pre V C s l : step1 V C s l = core V C (pre V C s l) l.
Proof. destruct l; reflexivity. Qed.
Lemma pre_cases V C s l : pre V C s l = s \/ exists pr, pre V C s l = sweep V C s pr.
Proof. destruct l; simpl; eauto. Qed.

Lemma invA_pre V C s l : InvA C s -> InvA C (pre V C s l).
Proof. intros I. destruct (pre_cases V C s l) as [E|[pr E]]; rewrite E; auto. apply invA_sweep; auto. Qed.
Lemma invL_pre V C s l : InvL s -> InvL (pre V C s l).
Proof.
  intros L. destruct (pre_cases V C s l) as [E|[pr E]]; rewrite E; auto.
  apply (invL_same_jobs s); auto. apply sweep_jobs.
Qed.
Lemma cap_pre V C s l : cnt_nonneg C -> held_sum C s <= c_total C -> held_sum C (pre V C s l) <= c_total C.
Proof.
  intros NN H. destruct (pre_cases V C s l) as [E|[pr E]]; rewrite E; auto.
  assert (X := cap_sweep V C s pr NN). lia.
Qed.

Lemma invA_step1 V C s l s' r : v_fire V = true -> InvL s -> InvA C s -> step1 V C s l = Some (s', r) -> InvA C s'.
Proof.
  intros VFI L I H. rewrite step1_pre in H.
  apply (invA_core V C _ l s' r VFI (invL_pre V C s l L) (invA_pre V C s l I) H).
Qed.
Lemma invL_step1 V C s l s' r : InvA C s -> InvL s -> step1 V C s l = Some (s', r) -> InvL s'.
Proof.
  intros I L H. rewrite step1_pre in H.
  apply (invL_core V C _ l s' r (invA_pre V C s l I) (invL_pre V C s l L) H).
Qed.
Lemma cap_step1 V C s l s' r :
  cnt_nonneg C -> InvA C s -> held_sum C s <= c_total C -> step1 V C s l = Some (s', r) -> held_sum C s' <= c_total C.
Proof.
  intros NN I Hc H. rewrite step1_pre in H.
  apply (cap_core V C _ l s' r NN (invA_pre V C s l I) (cap_pre V C s l NN Hc) H).
Qed.

(* ---- `step`: every label is a finite sequence of micro moves *)
Lemma ghost_jobs C s n s1 : ghost_delete C s n = Some s1 -> s_jobs s1 = s_jobs s /\ s_lock s1 = s_lock s.
Proof. unfold ghost_delete. destruct (_ && _); intros H; inversion H; subst; auto. Qed.

Lemma invA_ghost C s n s1 : InvL s -> InvA C s -> ghost_delete C s n = Some s1 -> InvA C s1.
Proof.
  intros IL I H. unfold ghost_delete in H. destruct (_ && _) eqn:G; try discriminate. apply andb_true_iff in G. destruct G as [G0 G1].
  inversion H; subst; clear H. assert (PJ := can_finish_phase s n IL G0).
  apply (invA_delete C s _ n); auto; simpl.
  - intros k Hk. apply upd_other; auto.
  - apply upd_same.
  - destruct PJ as [E|[E|E]]; congruence.
  - apply good_emit. apply good_all; auto.
Qed.

Lemma cap_ghost C s n s1 :
  cnt_nonneg C -> InvA C s -> held_sum C s <= c_total C -> ghost_delete C s n = Some s1 -> held_sum C s1 <= c_total C.
Proof.
  intros NN I Hc H. unfold ghost_delete in H. destruct (_ && _) eqn:G; try discriminate. apply andb_true_iff in G. destruct G as [G0 G1].
  inversion H; subst; clear H.
  assert (s_disk s n <> Absent) by (destruct (s_disk s n); simpl in G1; congruence).
  apply (a_disk _ _ I) in H. destruct H as [Hn _].
  rewrite (held_sum_set C s _ n); simpl; auto.
  - unfold held; simpl. rewrite upd_same. specialize (NN n). destruct (s_disk s n); lia.
  - intros k Hk. apply upd_other; auto.
Qed.


Lemma invA_resync V C s p s' r : InvA C s -> resync V C s p = Some (s', r) -> InvA C s'.
Proof.
  intros I H. unfold resync in H.
  assert (I0 := invA_sweep V C s (s_procs s p) I). set (s0 := sweep V C s (s_procs s p)) in *.
  open_guard H. split_and G. inversion H; subst; clear H.
  apply (invA_same C s0); auto; simpl.
  - intros j. match goal with |- context[if ?b then _ else _] => destruct b end; reflexivity.
  - apply good_upd; [apply good_all; auto|]. apply recount_good; auto. apply good_all; auto.
Qed.
Lemma resync_jobs V C s p s' r j :
  resync V C s p = Some (s', r) ->
  j_ph (s_jobs s' j) = j_ph (s_jobs s j) /\ j_lock (s_jobs s' j) = j_lock (s_jobs s j) /\ j_pid (s_jobs s' j) = j_pid (s_jobs s j) /\
  j_orph (s_jobs s' j) = j_orph (s_jobs s j).
Proof.
  intros H. unfold resync in H. open_guard H. inversion H; subst; clear H. simpl. rewrite sweep_jobs.
  match goal with |- context[if ?b then _ else _] => destruct b end; simpl; auto.
Qed.
Lemma resync_disk V C s p s' r : resync V C s p = Some (s', r) -> s_disk s' = s_disk (sweep V C s (s_procs s p)).
Proof. intros H. unfold resync in H. open_guard H. inversion H; subst; reflexivity. Qed.

(* deleted_locked: either a plain delivery, or only the queue of p and the status of jobs change *)
Lemma dlock_cases V C s p i s' r :
  deleted_locked V C s p i = Some (s', r) ->
  core V C s (Deliver p i) = Some (s', r) \/
  (p_alive (s_procs s p) = true /\
   s' = mkS (s_lock s) (s_disk s)
          (upd (s_procs s) p (mkProc (p_alive (s_procs s p)) (p_avail (s_procs s p)) (p_cache (s_procs s p)) (p_obs (s_procs s p))
                                     (remove_nth i (p_evq (s_procs s p))) (p_wat (s_procs s p))))
          (notify C p (p_avail (s_procs s p)) (s_jobs s)) /\
   forall k, EDeleted k = nth i (p_evq (s_procs s p)) (ECreated 0) -> p_cache (s_procs s p) k = None).
Proof.
  intros H. unfold deleted_locked in H. open_guard H. split_and G.
  destruct (nth_error (p_evq (s_procs s p)) i) as [[ | |n]|] eqn:NTH; try discriminate.
  destruct (p_cache (s_procs s p) n) eqn:PC; [left; exact H|right].
  inversion H; subst; clear H. split; auto. split; auto.
  intros k Hk. rewrite (nth_error_nth _ _ _ NTH) in Hk. inversion Hk; subst. auto.
Qed.

Inductive micro (V : variant) (C : cfg) : state -> state -> Prop :=
| m_dlock : forall s p i s' r, deleted_locked V C s p i = Some (s', r) -> micro V C s s'
| m_core : forall s l s' r, core V C s l = Some (s', r) -> micro V C s s'
| m_sweep : forall s pr, micro V C s (sweep V C s pr)
| m_ghost : forall s n s', ghost_delete C s n = Some s' -> micro V C s s'
| m_silent : forall s p n s' r, v_watch V = false -> silent_fire C s p n = Some (s', r) -> micro V C s s'
| m_resync : forall s p s' r, resync V C s p = Some (s', r) -> micro V C s s'.
Inductive micros (V : variant) (C : cfg) : state -> state -> Prop :=
| ms_nil : forall s, micros V C s s
| ms_cons : forall s s1 s2, micro V C s s1 -> micros V C s1 s2 -> micros V C s s2.
Lemma micros_app V C s1 s2 s3 : micros V C s1 s2 -> micros V C s2 s3 -> micros V C s1 s3.
Proof. induction 1; auto. intros. eapply ms_cons; eauto. Qed.
Lemma micros_one V C s s' : micro V C s s' -> micros V C s s'.
Proof. intros. eapply ms_cons; eauto. apply ms_nil. Qed.

Lemma step1_micros V C s l s' r : step1 V C s l = Some (s', r) -> micros V C s s'.
Proof.
  intros H. rewrite step1_pre in H. destruct (pre_cases V C s l) as [E|[pr E]]; rewrite E in H.
  - apply micros_one. eapply m_core; eauto.
  - eapply ms_cons; [apply (m_sweep V C s pr)|]. apply micros_one. eapply m_core; eauto.
Qed.
Lemma finish_write_micros V C s : micros V C s (finish_write V C s).
Proof.
  unfold finish_write. destruct (s_lock s) as [j|]; [|apply ms_nil].
  destruct (core V C s (WriteF j)) as [[s' r]|] eqn:E; [|apply ms_nil]. apply micros_one. eapply m_core; eauto.
Qed.

Lemma step_micros V C s l s' r : step V C s l = Some (s', r) -> micros V C s s'.
Proof.
  intros H. destruct l; try (apply (step1_micros V C s _ s' r H)); unfold step in H.
  - (* StartRace *)
    destruct (v_watch V) eqn:W.
    + change (mkProc true 0 (fun _ => None) true [] []) with fresh_proc in H.
      destruct (ghost_delete C (sweep V C s fresh_proc) n) as [s1|] eqn:E; try discriminate.
      eapply ms_cons; [apply (m_sweep V C s fresh_proc)|]. eapply ms_cons; [eapply m_ghost; eauto|].
      apply (step1_micros V C s1 _ s' r H).
    + destruct (step1 V C s (Start p)) as [[s1 r1]|] eqn:E; try discriminate.
      eapply micros_app; [apply (step1_micros V C s _ s1 r1 E)|]. apply micros_one. eapply m_silent; eauto.
  - (* StartMid *)
    destruct (Nat.eqb q p); try discriminate.
    destruct (step1 V C s (Start p)) as [[s1 [| |]]|] eqn:E1; try discriminate.
    destruct (step1 V C s1 (Acquire q j)) as [[s2 r2]|] eqn:E2; try discriminate.
    eapply micros_app; [apply (step1_micros V C s _ s1 _ E1)|].
    eapply micros_app; [apply (step1_micros V C s1 _ s2 _ E2)|].
    eapply micros_app; [apply finish_write_micros|].
    destruct (v_watch V); [apply micros_one; eapply m_resync; eauto|inversion H; subst; apply ms_nil].
  - (* DeliverRace *)
    destruct (_ && _ && _); try discriminate. destruct (nth_error _ i) as [[ | |n]|]; try discriminate.
    destruct (p_cache _ n); try discriminate.
    destruct (step1 V C s (if rel then Release p j else Acquire p j)) as [[s1 r1]|] eqn:E1; try discriminate.
    eapply micros_app; [apply (step1_micros V C s _ s1 _ E1)|].
    eapply micros_app; [apply finish_write_micros|]. apply micros_one. eapply m_dlock; eauto.
Qed.

Lemma invAL_micro V C s s' : v_fire V = true -> micro V C s s' -> InvA C s /\ InvL s -> InvA C s' /\ InvL s'.
Proof.
  intros VFI M [I L]. destruct M.
  - destruct (dlock_cases V C s p i s' r H) as [H'|[A [-> _]]].
    + split; [apply (invA_core V C s _ s' r VFI L I H')|apply (invL_core V C s _ s' r I L H')].
    + split.
      * apply (invA_same C s); auto; simpl; [intros j; apply notify_ph|].
        apply good_upd; [apply good_all; auto|]. intros k c Hc. apply (good_all C s I p k c Hc).
      * constructor; simpl; intros j0; rewrite notify_ph, ?notify_lock, ?notify_pid; [apply (l_locked _ L)|apply (l_unlocked _ L)|apply (l_pid _ L)].
  - split; [apply (invA_core V C s l s' r VFI L I H)|apply (invL_core V C s l s' r I L H)].
  - split; [apply invA_sweep; auto|apply (invL_same_jobs s); auto; apply sweep_jobs].
  - split; [apply (invA_ghost C s n s' L I H)|apply (invL_same_jobs s s' L); apply (ghost_jobs C s n s' H)].
  - split; [eapply invA_silent; eauto|apply (invL_same_jobs s s' L); apply (silent_jobs C s p n s' r H0)].
  - split; [eapply invA_resync; eauto|].
    constructor; intros j0; destruct (resync_jobs V C s p s' r j0 H) as [E1 [E2 [E3 _]]]; rewrite E1, ?E2, ?E3;
      [apply (l_locked _ L)|apply (l_unlocked _ L)|apply (l_pid _ L)].
Qed.
Lemma invAL_micros V C s s' : v_fire V = true -> micros V C s s' -> InvA C s /\ InvL s -> InvA C s' /\ InvL s'.
Proof. intros VFI M. induction M; auto. intros X. apply IHM. eapply invAL_micro; eauto. Qed.

Lemma invAL_step V C s l s' r : v_fire V = true -> InvA C s /\ InvL s -> step V C s l = Some (s', r) -> InvA C s' /\ InvL s'.
Proof. intros VFI X H. apply (invAL_micros V C s s' VFI (step_micros V C s l s' r H) X). Qed.

Lemma cap_micro V C s s' :
  v_fire V = true -> cnt_nonneg C -> micro V C s s' -> InvA C s -> held_sum C s <= c_total C -> held_sum C s' <= c_total C.
Proof.
  intros VFI NN M I Hc. destruct M.
  - destruct (dlock_cases V C s p i s' r H) as [H'|[A [-> _]]]; [eapply cap_core; eauto|].
    rewrite (held_sum_same C s); auto.
  - eapply cap_core; eauto.
  - assert (X := cap_sweep V C s pr NN). lia.
  - eapply cap_ghost; eauto.
  - eapply cap_silent; eauto.
  - rewrite (held_sum_same C (sweep V C s (s_procs s p))); [|eapply resync_disk; eauto].
    assert (X := cap_sweep V C s (s_procs s p) NN). lia.
Qed.
Lemma cap_micros V C s s' :
  v_fire V = true -> cnt_nonneg C -> micros V C s s' -> InvA C s /\ InvL s -> held_sum C s <= c_total C -> held_sum C s' <= c_total C.
Proof.
  intros VFI NN M. induction M; auto. intros X Hc. apply IHM; [eapply invAL_micro; eauto|].
  eapply cap_micro; eauto. apply X.
Qed.
Lemma cap_step V C s l s' r :
  v_fire V = true -> cnt_nonneg C -> InvA C s -> InvL s -> held_sum C s <= c_total C -> step V C s l = Some (s', r) -> held_sum C s' <= c_total C.
Proof. intros VFI NN I L Hc H. apply (cap_micros V C s s' VFI NN (step_micros V C s l s' r H) (conj I L) Hc). Qed.

(* ====== part C: the C09 invariant (repaired code): definitions and helpers *)
Definition cnt_pos (C : cfg) : Prop := forall j, 1 <= c_cnt C j.

Record InvB (C : cfg) (s : state) : Prop := {
  b_avail : forall p, p_alive (s_procs s p) = true -> p_avail (s_procs s p) = c_total C - cache_sum C (s_procs s p);
  b_obs : forall p, p_alive (s_procs s p) = true -> p_obs (s_procs s p) = true;
  b_known : forall p k, p_alive (s_procs s p) = true -> p_cache (s_procs s p) k <> None ->
      s_disk s k <> Absent \/ In (EDeleted k) (p_evq (s_procs s p));
  b_watch : forall q k, p_alive (s_procs s q) = true -> p_cache (s_procs s q) k <> None -> s_disk s k <> Absent ->
      In k (p_wat (s_procs s q)) \/ (j_orph (s_jobs s k) = false /\ c_owner C k = q) \/ In (EDeleted k) (p_evq (s_procs s q));
  b_wait : forall j, p_alive (s_procs s (c_owner C j)) = true -> j_ph (s_jobs s j) = Idle -> j_orph (s_jobs s j) = false ->
      j_ok (s_jobs s j) = false ->
      p_avail (s_procs s (c_owner C j)) < c_cnt C j \/ exists k, p_cache (s_procs s (c_owner C j)) k <> None;
  b_ok : forall j, j_ok (s_jobs s j) = true -> c_cnt C j <= c_total C
}.

Lemma invB_init C : InvB C init.
Proof. constructor; simpl; intros; try discriminate. Qed.

Transparent notify.
Lemma notify_wait C p av jobs j :
  cnt_pos C -> c_owner C j = p -> j_orph (jobs j) = false -> j_ok (notify C p av jobs j) = false -> av < c_cnt C j.
Proof.
  intros NP O R H. unfold notify in H. specialize (NP j). destruct (0 <? av) eqn:E; [|lia].
  rewrite O, Nat.eqb_refl, R in H. simpl in H. lia.
Qed.
Lemma notify_ok C p av jobs j :
  j_ok (notify C p av jobs j) = true -> j_ok (jobs j) = true \/ c_cnt C j <= av.
Proof.
  unfold notify. destruct (0 <? av); auto. destruct (_ && _); simpl; auto. intros H. right. lia.
Qed.
Lemma notify_other C p av jobs j : c_owner C j <> p -> notify C p av jobs j = jobs j.
Proof.
  intros H. unfold notify. destruct (0 <? av); auto. destruct (Nat.eqb_spec (c_owner C j) p); [congruence|reflexivity].
Qed.
Opaque notify.

Lemma emit_evq_In ev procs q e : In e (p_evq (procs q)) -> In e (p_evq (emit ev procs q)).
Proof. rewrite emit_evq. destruct (_ && _); auto. intros H. apply in_or_app. auto. Qed.
Lemma emit_evq_new ev procs q : p_alive (procs q) = true -> p_obs (procs q) = true -> In ev (p_evq (emit ev procs q)).
Proof. intros A O. rewrite emit_evq, A, O. simpl. apply in_or_app. right. left. reflexivity. Qed.

Lemma cache_sum_nonneg C pr : cnt_pos C -> cache_good C pr -> 0 <= cache_sum C pr.
Proof.
  intros NP G. unfold cache_sum. apply sumf_nonneg. intros k Hk. destruct (p_cache pr k) eqn:E; simpl; [|lia].
  apply G in E. destruct E; subst. specialize (NP k). lia.
Qed.

Lemma cache_sum_set C pr pr' k :
  (k < c_n C)%nat -> (forall x, x <> k -> p_cache pr' x = p_cache pr x) ->
  cache_sum C pr' = cache_sum C pr - oval (p_cache pr k) + oval (p_cache pr' k).
Proof.
  intros Hk H. unfold cache_sum.
  apply (sumf_change (c_n C) (fun x => oval (p_cache pr x)) (fun x => oval (p_cache pr' x)) k); auto.
  intros x Hx. rewrite H; auto.
Qed.

Lemma new_names_In C s pr k c :
  (k < c_n C)%nat -> s_disk s k = Written c -> p_cache pr k = None -> In k (new_names C s pr).
Proof.
  intros Hk D P. unfold new_names. apply filter_In. split.
  - apply in_seq. lia.
  - rewrite D, P. reflexivity.
Qed.

(* facts about a recount by a process whose cache is good, token.lock free *)
Lemma recount_facts C s pr :
  InvA C s -> parsable C s pr = true -> cache_good C pr ->
  (forall k, p_cache (recount C s pr) k <> None -> s_disk s k <> Absent) /\
  (forall k, s_disk s k <> Absent -> p_cache (recount C s pr) k = Some (c_cnt C k)) /\
  (forall k, p_cache (recount C s pr) k <> None -> p_cache pr k <> None \/ In k (new_names C s pr)) /\
  p_avail (recount C s pr) = c_total C - cache_sum C (recount C s pr).
Proof.
  intros I L G. split; [|split; [|split]].
  - intros k H. rewrite recount_cache_eq, (recount_cache_spec C s pr k I L G) in H.
    destruct (s_disk s k); congruence.
  - intros k D. rewrite recount_cache_eq, (recount_cache_spec C s pr k I L G).
    destruct (s_disk s k); congruence.
  - intros k H. rewrite recount_cache_eq, (recount_cache_spec C s pr k I L G) in H.
    destruct (s_disk s k) eqn:D; try congruence.
    + left. apply (parsable_at C s pr k L); auto. apply (a_disk _ _ I). congruence.
    + destruct (p_cache pr k) eqn:E; [left; congruence|right].
      eapply new_names_In; eauto. apply (a_disk _ _ I). congruence.
  - rewrite (recount_avail C s pr I L G). unfold cache_sum, held_sum. f_equal. apply sumf_ext. intros k Hk.
    rewrite recount_cache_eq, (recount_cache_spec C s pr k I L G). unfold held.
    destruct (s_disk s k) eqn:D; simpl; auto.
Qed.

(* if the directory holds something, a recount caches something *)
Lemma recount_nonempty C s pr :
  InvA C s -> parsable C s pr = true -> cache_good C pr -> held_sum C s <> 0 ->
  exists k, p_cache (recount C s pr) k <> None.
Proof.
  intros I L G H. unfold held_sum in H. apply sumf_nonzero in H. destruct H as [k [Hk Hh]].
  unfold held in Hh. exists k. destruct (recount_facts C s pr I L G) as [_ [F _]].
  rewrite (F k); [congruence|]. destruct (s_disk s k); congruence.
Qed.

Lemma avail_le_total C s p : cnt_pos C -> InvA C s -> InvB C s -> p_alive (s_procs s p) = true -> p_avail (s_procs s p) <= c_total C.
Proof.
  intros NP IA IB A. rewrite (b_avail _ _ IB p A).
  assert (0 <= cache_sum C (s_procs s p)) by (apply cache_sum_nonneg; auto; apply good_all; auto). lia.
Qed.

(* ====== part D: the C09 invariant is preserved by every step *)
Opaque recount notify emit parsable.
Ltac namedB := constructor; simpl;
  [ intros q HA | intros q HA | intros q k HA HC | intros q k HA HC HD | intros j0 HA HP HO HK | intros j0 HK ].

Ltac cq q p := destruct (Nat.eq_dec q p) as [->|NE]; [rewrite ?upd_same in * | rewrite ?upd_other in * by auto].

Lemma invB_start C s p s' r : cnt_pos C -> InvA C s -> InvB C s -> core VF C s (Start p) = Some (s', r) -> InvB C s'.
Proof.
  intros NP I B H. simpl in H. open_start H ltac:(assumption). split_and G. apply lock_free_None in G1.
  inversion H; subst; clear H.
  set (fresh := mkProc true 0 (fun _ => None) true [] []) in *.
  assert (FG : cache_good C fresh) by (intros k c Hc; discriminate).
  destruct (recount_facts C s fresh I G0 FG) as [R1 [R2 [R3 R4]]].
  assert (RG := recount_good C s fresh I G0 FG).
  assert (AV : p_avail (recount C s fresh) <= c_total C).
  { rewrite R4. assert (0 <= cache_sum C (recount C s fresh)) by (apply cache_sum_nonneg; auto). lia. }
  assert (RO : p_obs (recount C s fresh) = true) by reflexivity.
  assert (RW : p_wat (recount C s fresh) = new_names C s fresh) by reflexivity.
  remember (recount C s fresh) as pr eqn:EPR. clear EPR.
  match goal with |- InvB C (mkS _ _ _ ?J) => set (jobs' := J) end.
  assert (JO : forall j, j_orph (jobs' j) = j_orph (s_jobs s j)).
  { intros j. unfold jobs'. destruct (_ && _ && _); reflexivity. }
  assert (JP : forall j, j_ph (jobs' j) = j_ph (s_jobs s j)).
  { intros j. unfold jobs'. destruct (_ && _ && _); reflexivity. }
  namedB.
  - cq q p; [apply R4|]. apply (b_avail _ _ B); auto.
  - cq q p; [exact RO|]. apply (b_obs _ _ B); auto.
  - cq q p.
    + left. apply (R1 k HC).
    + apply (b_known _ _ B); auto.
  - cq q p.
    + left. rewrite RW.
      destruct (R3 k HC) as [E|E]; [exfalso; apply E; reflexivity|exact E].
    + rewrite JO. apply (b_watch _ _ B); auto.
  - rewrite JP in HP. rewrite JO in HO.
    destruct (Nat.eq_dec (c_owner C j0) p) as [E|E].
    + subst p. rewrite upd_same. left.
      unfold jobs' in HK. rewrite Nat.eqb_refl, HP, HO in HK. simpl in HK. lia.
    + rewrite upd_other in * by auto. unfold jobs' in HK.
      destruct (Nat.eqb_spec (c_owner C j0) p); [congruence|]. simpl in HK. apply (b_wait _ _ B); auto.
  - unfold jobs' in HK. destruct (_ && _ && _); simpl in HK; [lia|]. apply (b_ok _ _ B); auto.
Qed.

Lemma invB_kill C s p s' r : cnt_pos C -> InvA C s -> InvB C s -> core VF C s (Kill p) = Some (s', r) -> InvB C s'.
Proof.
  intros NP I B H. simpl in H. open_guard H. split_and G. inversion H; subst; clear H.
  match goal with |- InvB C (mkS _ _ _ ?J) => set (jobs' := J) end.
  assert (JQ : forall j, c_owner C j <> p -> jobs' j = s_jobs s j).
  { intros j Hj. unfold jobs'. destruct (Nat.eqb_spec (c_owner C j) p); [congruence|reflexivity]. }
  assert (JK : forall j, j_ok (jobs' j) = j_ok (s_jobs s j)).
  { intros j. unfold jobs'. destruct (_ && _); auto. destruct (j_ph (s_jobs s j)); reflexivity. }
  namedB.
  - cq q p; [discriminate|]. apply (b_avail _ _ B); auto.
  - cq q p; [discriminate|]. apply (b_obs _ _ B); auto.
  - cq q p; [discriminate|]. apply (b_known _ _ B); auto.
  - cq q p; [discriminate|].
    destruct (b_watch _ _ B q k HA HC HD) as [W|[[W1 W2]|W]]; auto.
    right. left. rewrite JQ by congruence. auto.
  - destruct (Nat.eq_dec (c_owner C j0) p) as [E|E].
    + subst p. rewrite upd_same in HA. discriminate.
    + rewrite upd_other in * by auto. rewrite JQ in * by auto. apply (b_wait _ _ B); auto.
  - rewrite JK in HK. apply (b_ok _ _ B); auto.
Qed.

Lemma in_app_l {A} (x : A) l l' : In x l -> In x (l ++ l').
Proof. intros; apply in_or_app; auto. Qed.

Lemma invB_acquire C s p j s' r : cnt_pos C -> InvA C s -> InvB C s -> core VF C s (Acquire p j) = Some (s', r) -> InvB C s'.
Proof.
  intros NP I B H. simpl in H. open_guard H. split_and G.
  apply lock_free_None in G1. apply Nat.ltb_lt in G6. apply Nat.eqb_eq in G5. subst p.
  assert (Hidle : j_ph (s_jobs s j) = Idle) by (destruct (j_ph (s_jobs s j)); simpl in G4; congruence).
  assert (Horph : j_orph (s_jobs s j) = false) by (destruct (j_orph (s_jobs s j)); simpl in G3; congruence).
  set (p := c_owner C j) in *.
  assert (PG := good_all C s I p).
  destruct (recount_facts C s (s_procs s p) I G0 PG) as [R1 [R2 [R3 R4]]].
  assert (RG := recount_good C s (s_procs s p) I G0 PG).
  assert (RA := recount_avail C s (s_procs s p) I G0 PG).
  assert (RN := recount_nonempty C s (s_procs s p) I G0 PG).
  assert (RO : p_obs (recount C s (s_procs s p)) = p_obs (s_procs s p)) by reflexivity.
  assert (RL : p_alive (recount C s (s_procs s p)) = p_alive (s_procs s p)) by reflexivity.
  assert (RE : p_evq (recount C s (s_procs s p)) = p_evq (s_procs s p)) by reflexivity.
  assert (RW : p_wat (recount C s (s_procs s p)) = p_wat (s_procs s p) ++ new_names C s (s_procs s p)) by reflexivity.
  assert (DJ : s_disk s j = Absent) by (apply (idle_absent C s j I); auto).
  remember (recount C s (s_procs s p)) as pr eqn:EPR. clear EPR.
  (* watch clause for the recounting process, entries other than the new one *)
  assert (WP : forall k, p_cache pr k <> None -> s_disk s k <> Absent ->
     In k (p_wat pr) \/ (j_orph (s_jobs s k) = false /\ c_owner C k = p) \/ In (EDeleted k) (p_evq pr)).
  { intros k HC HD. rewrite RW, RE. destruct (R3 k HC) as [E|E].
    - destruct (b_watch _ _ B p k G E HD) as [W|[W|W]]; auto. left. apply in_app_l; auto.
    - left. apply in_or_app; auto. }
  destruct (p_avail pr <? c_cnt C j) eqn:LT; inversion H; subst; clear H.
  - (* LockError *)
    namedB.
    + cq q p; [apply R4|]. apply (b_avail _ _ B); auto.
    + cq q p; [rewrite RO; apply (b_obs _ _ B); auto|]. apply (b_obs _ _ B); auto.
    + cq q p.
      * left. apply (R1 k HC).
      * apply (b_known _ _ B); auto.
    + assert (JO : j_orph (upd (s_jobs s) j (set_ok (s_jobs s j) (c_cnt C j <=? p_avail pr)) k) = j_orph (s_jobs s k)).
      { unfold upd. destruct (Nat.eqb_spec k j); subst; reflexivity. }
      rewrite JO. cq q p.
      * apply WP; auto.
      * apply (b_watch _ _ B); auto.
    + destruct (Nat.eq_dec (c_owner C j0) p) as [E|E].
      * rewrite E, upd_same.
        destruct (Z.eq_dec (held_sum C s) 0) as [Z|NZ].
        -- left. exfalso. assert (c_cnt C j <= c_total C) by (apply (b_ok _ _ B); auto). lia.
        -- right. apply RN; auto.
      * rewrite upd_other in * by auto.
        assert (j0 <> j) by (intro; subst; apply E; reflexivity).
        rewrite upd_other in * by auto. apply (b_wait _ _ B); auto.
    + cu HK; [lia|]. apply (b_ok _ _ B); auto.
  - (* token taken, file opened *)
    assert (CJ : p_cache pr j = None).
    { destruct (p_cache pr j) eqn:E; auto. exfalso. apply (R1 j); congruence. }
    assert (JO : forall k, j_orph (upd (s_jobs s) j (set_job (s_jobs s j) Creating true (j_pid (s_jobs s j))) k) = j_orph (s_jobs s k)).
    { intros k. unfold upd. destruct (Nat.eqb_spec k j); subst; reflexivity. }
    namedB.
    + rewrite emit_alive in HA. rewrite emit_avail. unfold cache_sum. rewrite emit_cache. fold (cache_sum C (upd (s_procs s) p
        {| p_alive := p_alive pr; p_avail := p_avail pr - c_cnt C j; p_cache := upd (p_cache pr) j (Some (c_cnt C j));
           p_obs := p_obs pr; p_evq := p_evq pr; p_wat := p_wat pr |} q)).
      cq q p; [|apply (b_avail _ _ B); auto]. simpl.
      rewrite (cache_sum_set C pr _ j); auto; simpl.
      * rewrite upd_same, CJ. simpl. lia.
      * intros x Hx. apply upd_other; auto.
    + rewrite emit_alive in HA. rewrite emit_obs. cq q p; simpl; [rewrite RO|]; apply (b_obs _ _ B); auto.
    + rewrite emit_alive in HA. rewrite emit_cache in HC. cq q p; simpl in *.
      * left. cu HC; [rewrite upd_same; discriminate|]. rewrite upd_other by auto. apply (R1 k HC).
      * destruct (b_known _ _ B q k HA HC) as [K|K].
        -- left. unfold upd. destruct (Nat.eqb_spec k j); [discriminate|auto].
        -- right. apply emit_evq_In. rewrite upd_other by auto. auto.
    + rewrite emit_alive in HA. rewrite emit_cache in HC. rewrite emit_wat. rewrite JO.
      assert (HD' : k <> j -> s_disk s k <> Absent) by (intros NK; rewrite upd_other in HD by auto; auto).
      clear HD.
      cq q p; simpl in *.
      * destruct (Nat.eq_dec k j) as [->|NK].
        -- right. left. auto.
        -- rewrite upd_other in HC by auto. specialize (HD' NK). destruct (WP k HC HD') as [W|[W|W]]; auto.
           right. right. apply emit_evq_In. rewrite upd_same. simpl. auto.
      * destruct (Nat.eq_dec k j) as [->|NK].
        -- right. right. apply emit_evq_In. rewrite upd_other by auto.
           destruct (b_known _ _ B q j HA HC) as [K|K]; [congruence|auto].
        -- specialize (HD' NK). destruct (b_watch _ _ B q k HA HC HD') as [W|[W|W]]; auto.
           right. right. apply emit_evq_In. rewrite upd_other by auto. auto.
    + rewrite emit_alive in HA. rewrite emit_avail, emit_cache.
      destruct (Nat.eq_dec (c_owner C j0) p) as [E|E].
      * rewrite E, upd_same. simpl. right. exists j. rewrite upd_same. discriminate.
      * rewrite upd_other in * by auto.
        assert (j0 <> j) by (intro; subst; apply E; reflexivity).
        rewrite upd_other in * by auto. apply (b_wait _ _ B); auto.
    + cu HK; [apply (b_ok _ _ B); auto|]. apply (b_ok _ _ B); auto.
Qed.

Lemma invB_write C s j s' r : cnt_pos C -> InvA C s -> InvB C s -> core VF C s (WriteF j) = Some (s', r) -> InvB C s'.
Proof.
  intros NP I B H. simpl in H.
  destruct (s_lock s) eqn:L; try discriminate. destruct (Nat.eqb_spec j n); try discriminate. subst.
  rewrite (a_empty2 _ _ I n (proj1 (a_lock1 _ _ I n L))) in H. cbn [is_present] in H.
    inversion H; subst; clear H. destruct (a_lock1 _ _ I n L) as [Hc Hn].
  assert (DE := a_empty2 _ _ I n Hc).
  assert (DD : forall k, upd (s_disk s) n (Written (c_cnt C n)) k <> Absent -> s_disk s k <> Absent).
  { intros k. unfold upd. destruct (Nat.eqb_spec k n); subst; [congruence|auto]. }
  assert (JO : forall k, j_orph (upd (s_jobs s) n (set_ph (s_jobs s n) Holding) k) = j_orph (s_jobs s k)).
  { intros k. unfold upd. destruct (Nat.eqb_spec k n); subst; reflexivity. }
  namedB.
  - rewrite emit_alive in HA. rewrite emit_avail. unfold cache_sum. rewrite emit_cache. apply (b_avail _ _ B); auto.
  - rewrite emit_alive in HA. rewrite emit_obs. apply (b_obs _ _ B); auto.
  - rewrite emit_alive in HA. rewrite emit_cache in HC. destruct (b_known _ _ B q k HA HC) as [K|K].
    + left. unfold upd. destruct (Nat.eqb_spec k n); [discriminate|auto].
    + right. apply emit_evq_In; auto.
  - rewrite emit_alive in HA. rewrite emit_cache in HC. rewrite emit_wat, JO. apply DD in HD.
    destruct (b_watch _ _ B q k HA HC HD) as [W|[W|W]]; auto. right. right. apply emit_evq_In; auto.
  - rewrite emit_alive in HA. rewrite emit_avail, emit_cache.
    cu HP; [discriminate|]. rewrite upd_other in * by auto. apply (b_wait _ _ B); auto.
  - cu HK; apply (b_ok _ _ B); auto.
Qed.

(* a job changes phase to something that is not Idle; nothing else changes *)
Lemma invB_phase C s j ph lk pd :
  InvB C s -> ph <> Idle -> InvB C (mkS (s_lock s) (s_disk s) (s_procs s) (upd (s_jobs s) j (set_job (s_jobs s j) ph lk pd))).
Proof.
  intros B NI.
  assert (JO : forall k, j_orph (upd (s_jobs s) j (set_job (s_jobs s j) ph lk pd) k) = j_orph (s_jobs s k)).
  { intros k. unfold upd. destruct (Nat.eqb_spec k j); subst; reflexivity. }
  namedB.
  - apply (b_avail _ _ B); auto.
  - apply (b_obs _ _ B); auto.
  - apply (b_known _ _ B); auto.
  - rewrite JO. apply (b_watch _ _ B); auto.
  - cu HP; [congruence|]. rewrite upd_other in * by auto. apply (b_wait _ _ B); auto.
  - cu HK; apply (b_ok _ _ B); auto.
Qed.

Lemma invB_launch C s j s' r : InvB C s -> core VF C s (Launch j) = Some (s', r) -> InvB C s'.
Proof.
  intros B H. simpl in H. destruct (j_ph (s_jobs s j)); try discriminate. destruct (j_orph (s_jobs s j)); try discriminate.
  inversion H; subst. apply invB_phase; auto. discriminate.
Qed.
Lemma invB_ends C s j c s' r : InvB C s -> core VF C s (JobEnds j c) = Some (s', r) -> InvB C s'.
Proof.
  intros B H. simpl in H. destruct (j_ph (s_jobs s j)); try discriminate.
  inversion H; subst. apply invB_phase; auto. discriminate.
Qed.

Lemma invB_fire C s p n s' r : cnt_pos C -> InvA C s -> InvB C s -> core VF C s (Fire p n) = Some (s', r) -> InvB C s'.
Proof.
  intros NP I B H. simpl in H. open_guard H. split_and G.
  set (pr' := mkProc (p_alive (s_procs s p)) (p_avail (s_procs s p)) (p_cache (s_procs s p)) (p_obs (s_procs s p))
                (p_evq (s_procs s p)) (remove_first n (p_wat (s_procs s p)))) in *.
  assert (PA : forall q, p_alive (upd (s_procs s) p pr' q) = p_alive (s_procs s q)) by (intros q; cq q p; reflexivity).
  assert (PV : forall q, p_avail (upd (s_procs s) p pr' q) = p_avail (s_procs s q)) by (intros q; cq q p; reflexivity).
  assert (PC : forall q, p_cache (upd (s_procs s) p pr' q) = p_cache (s_procs s q)) by (intros q; cq q p; reflexivity).
  assert (PO : forall q, p_obs (upd (s_procs s) p pr' q) = p_obs (s_procs s q)) by (intros q; cq q p; reflexivity).
  assert (PE : forall q, p_evq (upd (s_procs s) p pr' q) = p_evq (s_procs s q)) by (intros q; cq q p; reflexivity).
  assert (PW : forall q k, k <> n -> In k (p_wat (s_procs s q)) -> In k (p_wat (upd (s_procs s) p pr' q))).
  { intros q k NK HI. cq q p; auto. simpl. apply remove_first_In_other; auto. }
  destruct (is_present (s_disk s n)) eqn:PR; inversion H; subst; clear H.
  - namedB.
    + rewrite emit_alive, PA in HA. rewrite emit_avail, PV. unfold cache_sum. rewrite emit_cache, PC. apply (b_avail _ _ B); auto.
    + rewrite emit_alive, PA in HA. rewrite emit_obs, PO. apply (b_obs _ _ B); auto.
    + rewrite emit_alive, PA in HA. rewrite emit_cache, PC in HC.
      destruct (Nat.eq_dec k n) as [->|NK].
      * right. apply emit_evq_new; rewrite ?PA, ?PO; auto. apply (b_obs _ _ B); auto.
      * rewrite upd_other by auto. destruct (b_known _ _ B q k HA HC) as [K|K]; auto.
        right. apply emit_evq_In. rewrite PE. auto.
    + rewrite emit_alive, PA in HA. rewrite emit_cache, PC in HC. rewrite emit_wat.
      destruct (Nat.eq_dec k n) as [->|NK]; [rewrite upd_same in HD; congruence|]. rewrite upd_other in HD by auto.
      destruct (b_watch _ _ B q k HA HC HD) as [W|[W|W]]; auto.
      right. right. apply emit_evq_In. rewrite PE. auto.
    + rewrite emit_alive, PA in HA. rewrite emit_avail, emit_cache, PV, PC. apply (b_wait _ _ B); auto.
    + apply (b_ok _ _ B); auto.
  - assert (DN : s_disk s n = Absent) by (destruct (s_disk s n); simpl in PR; congruence).
    namedB.
    + rewrite PA in HA. rewrite PV. unfold cache_sum. rewrite PC. apply (b_avail _ _ B); auto.
    + rewrite PA in HA. rewrite PO. apply (b_obs _ _ B); auto.
    + rewrite PA in HA. rewrite PC in HC. rewrite PE. apply (b_known _ _ B); auto.
    + rewrite PA in HA. rewrite PC in HC. rewrite PE.
      assert (NK : k <> n) by congruence.
      destruct (b_watch _ _ B q k HA HC HD) as [W|[W|W]]; auto.
    + rewrite PA in HA. rewrite PV, PC. apply (b_wait _ _ B); auto.
    + apply (b_ok _ _ B); auto.
Qed.

Lemma invB_release C s p j s' r : cnt_pos C -> InvA C s -> InvB C s -> core VF C s (Release p j) = Some (s', r) -> InvB C s'.
Proof.
  intros NP I B H. simpl in H.
  destruct (match j_ph (s_jobs s j) with Holding => Some Idle | Ended => Some Done | _ => None end) as [ph'|] eqn:NPH; try discriminate.
  open_guard H. split_and G. apply lock_free_None in G1. apply Nat.eqb_eq in G3. subst p.
  set (p := c_owner C j) in *.
  assert (Horph : j_orph (s_jobs s j) = false) by (destruct (j_orph (s_jobs s j)); simpl in G2; congruence).
  assert (PG := good_all C s I p).
  destruct (recount_facts C s (s_procs s p) I G0 PG) as [R1 [R2 [R3 R4]]].
  assert (RG := recount_good C s (s_procs s p) I G0 PG).
  assert (RO : p_obs (recount C s (s_procs s p)) = p_obs (s_procs s p)) by reflexivity.
  assert (RL : p_alive (recount C s (s_procs s p)) = p_alive (s_procs s p)) by reflexivity.
  assert (RE : p_evq (recount C s (s_procs s p)) = p_evq (s_procs s p)) by reflexivity.
  assert (RW : p_wat (recount C s (s_procs s p)) = p_wat (s_procs s p) ++ new_names C s (s_procs s p)) by reflexivity.
  remember (recount C s (s_procs s p)) as pr eqn:EPR. clear EPR.
  assert (WP : forall k, p_cache pr k <> None -> s_disk s k <> Absent ->
     In k (p_wat pr) \/ (j_orph (s_jobs s k) = false /\ c_owner C k = p) \/ In (EDeleted k) (p_evq pr)).
  { intros k HC HD. rewrite RW, RE. destruct (R3 k HC) as [E|E].
    - destruct (b_watch _ _ B p k G E HD) as [W|[W|W]]; auto. left. apply in_app_l; auto.
    - left. apply in_or_app; auto. }
  set (jobs1 := upd (s_jobs s) j (set_job (s_jobs s j) ph' false (j_pid (s_jobs s j)))) in *.
  assert (J1O : forall k, j_orph (jobs1 k) = j_orph (s_jobs s k)).
  { intros k. unfold jobs1, upd. destruct (Nat.eqb_spec k j); subst; reflexivity. }
  assert (J1K : forall k, j_ok (jobs1 k) = j_ok (s_jobs s k)).
  { intros k. unfold jobs1, upd. destruct (Nat.eqb_spec k j); subst; reflexivity. }
  (* the clauses about jobs, for any new availability av of p that is at most total *)
  assert (WAIT : forall av (procs' : nat -> proc),
     av <= c_total C -> p_avail (procs' p) = av ->
     (forall q, q <> p -> p_avail (procs' q) = p_avail (s_procs s q) /\ p_cache (procs' q) = p_cache (s_procs s q) /\
                          p_alive (procs' q) = p_alive (s_procs s q)) ->
     (forall j0, p_alive (procs' (c_owner C j0)) = true -> j_ph (notify C p av jobs1 j0) = Idle ->
        j_orph (notify C p av jobs1 j0) = false -> j_ok (notify C p av jobs1 j0) = false ->
        p_avail (procs' (c_owner C j0)) < c_cnt C j0 \/ exists k, p_cache (procs' (c_owner C j0)) k <> None) /\
     (forall j0, j_ok (notify C p av jobs1 j0) = true -> c_cnt C j0 <= c_total C)).
  { intros av procs' AV PA PQ. split.
    - intros j0 HA HP HO HK. rewrite notify_ph in HP. rewrite notify_orph, J1O in HO.
      destruct (Nat.eq_dec (c_owner C j0) p) as [E|E].
      + left. rewrite E, PA. apply (notify_wait C p av jobs1 j0); auto. rewrite J1O; auto.
      + destruct (PQ _ E) as [Q1 [Q2 Q3]]. rewrite Q1, Q2. rewrite Q3 in HA.
        rewrite notify_other in HK by auto.
        assert (j0 <> j) by (intro; subst; apply E; reflexivity).
        unfold jobs1 in HK, HP. rewrite upd_other in HK, HP by auto. apply (b_wait _ _ B); auto.
    - intros j0 HK. apply notify_ok in HK. destruct HK as [HK|HK]; [|lia].
      rewrite J1K in HK. apply (b_ok _ _ B); auto. }
  destruct (p_cache pr j) as [c|] eqn:PC.
  - (* the file is there: deleted, cache entry dropped *)
    assert (HCJ : p_cache pr j <> None) by congruence.
    assert (DJ := R1 j HCJ). assert (PRS : is_present (s_disk s j) = true) by (destruct (s_disk s j); simpl; congruence).
    rewrite PRS in H. inversion H; subst; clear H.
    assert (Hc : c = c_cnt C j) by (apply (RG j c PC)).
    assert (Hjn : (j < c_n C)%nat) by (apply (RG j c PC)).
    set (pr' := mkProc (p_alive pr) (p_avail pr + c) (upd (p_cache pr) j None) (p_obs pr) (p_evq pr) (p_wat pr)) in *.
    assert (AVN : p_avail pr' = c_total C - cache_sum C pr').
    { unfold pr' at 1. simpl. rewrite R4. rewrite (cache_sum_set C pr pr' j); auto.
      - simpl. rewrite upd_same, PC. simpl. lia.
      - intros x Hx. simpl. apply upd_other; auto. }
    assert (GP' : cache_good C pr').
    { intros k c1 Hc1. simpl in Hc1. cu Hc1; [discriminate|]. eapply RG; eauto. }
    assert (AVT : p_avail pr' <= c_total C).
    { rewrite AVN. assert (0 <= cache_sum C pr') by (apply cache_sum_nonneg; auto). lia. }
    destruct (WAIT (p_avail pr') (emit (EDeleted j) (upd (s_procs s) p pr'))) as [W1 W2]; auto.
    { rewrite emit_avail, upd_same. reflexivity. }
    { intros q Hq. rewrite emit_avail, emit_cache, emit_alive, upd_other by auto. auto. }
    namedB.
    + rewrite emit_alive in HA. rewrite emit_avail. unfold cache_sum. rewrite emit_cache.
      cq q p; [apply AVN|]. apply (b_avail _ _ B); auto.
    + rewrite emit_alive in HA. rewrite emit_obs. cq q p; simpl; [rewrite RO|]; apply (b_obs _ _ B); auto.
    + rewrite emit_alive in HA. rewrite emit_cache in HC. cq q p; simpl in *.
      * left. cu HC; [congruence|]. rewrite upd_other by auto. apply (R1 k HC).
      * destruct (Nat.eq_dec k j) as [->|NK].
        -- right. apply emit_evq_new; rewrite upd_other by auto; auto. apply (b_obs _ _ B); auto.
        -- rewrite upd_other by auto. destruct (b_known _ _ B q k HA HC) as [K|K]; auto.
           right. apply emit_evq_In. rewrite upd_other by auto. auto.
    + rewrite emit_alive in HA. rewrite emit_cache in HC. rewrite emit_wat. rewrite notify_orph, J1O.
      destruct (Nat.eq_dec k j) as [->|NK]; [rewrite upd_same in HD; congruence|]. rewrite upd_other in HD by auto.
      cq q p; simpl in *.
      * rewrite upd_other in HC by auto. destruct (WP k HC HD) as [W|[W|W]]; auto.
        right. right. apply emit_evq_In. rewrite upd_same. simpl. auto.
      * destruct (b_watch _ _ B q k HA HC HD) as [W|[W|W]]; auto.
        right. right. apply emit_evq_In. rewrite upd_other by auto. auto.
    + apply W1; auto.
    + apply W2; auto.
  - (* "Could not find the taken token" *)
    inversion H; subst; clear H.
    assert (AVT : p_avail pr <= c_total C).
    { rewrite R4. assert (0 <= cache_sum C pr) by (apply cache_sum_nonneg; auto). lia. }
    destruct (WAIT (p_avail pr) (upd (s_procs s) p pr)) as [W1 W2]; auto.
    { rewrite upd_same. reflexivity. }
    { intros q Hq. rewrite upd_other by auto. auto. }
    namedB.
    + cq q p; [apply R4|]. apply (b_avail _ _ B); auto.
    + cq q p; [rewrite RO|]; apply (b_obs _ _ B); auto.
    + cq q p.
      * left. apply (R1 k HC).
      * apply (b_known _ _ B); auto.
    + rewrite notify_orph, J1O. cq q p.
      * apply WP; auto.
      * apply (b_watch _ _ B); auto.
    + apply W1; auto.
    + apply W2; auto.
Qed.

Lemma event_neq_del k n : k <> n -> EDeleted k <> EDeleted n.
Proof. congruence. Qed.

Lemma invB_deliver C s p i s' r : cnt_pos C -> InvA C s -> InvB C s -> core VF C s (Deliver p i) = Some (s', r) -> InvB C s'.
Proof.
  intros NP I B H. simpl in H. open_guard H. split_and G.
  destruct (nth_error (p_evq (s_procs s p)) i) as [ev|] eqn:NTH; try discriminate.
  set (q' := remove_nth i (p_evq (s_procs s p))) in *.
  assert (GA := good_all C s I).
  (* membership of a pending deletion survives the removal of a different event *)
  assert (KEEP : forall k, EDeleted k <> ev -> In (EDeleted k) (p_evq (s_procs s p)) -> In (EDeleted k) q').
  { intros k Hk HI. unfold q'. eapply remove_nth_In; eauto. }
  (* 1. the handler only dequeues the event *)
  assert (SAME : (forall k, EDeleted k = ev -> p_cache (s_procs s p) k = None) ->
     InvB C (mkS (s_lock s) (s_disk s)
        (upd (s_procs s) p (mkProc (p_alive (s_procs s p)) (p_avail (s_procs s p)) (p_cache (s_procs s p)) (p_obs (s_procs s p)) q' (p_wat (s_procs s p))))
        (s_jobs s))).
  { intros ND.
    assert (KEEP' : forall k, p_cache (s_procs s p) k <> None -> In (EDeleted k) (p_evq (s_procs s p)) -> In (EDeleted k) q').
    { intros k HC HI. apply KEEP; auto; intro E; apply HC; apply ND; auto. }
    namedB.
    - cq q p; simpl in *; apply (b_avail _ _ B); auto.
    - cq q p; simpl in *; apply (b_obs _ _ B); auto.
    - cq q p; simpl in *; [|apply (b_known _ _ B); auto].
      destruct (b_known _ _ B p k HA HC) as [K|K]; auto.
    - cq q p; simpl in *; [|apply (b_watch _ _ B); auto].
      destruct (b_watch _ _ B p k HA HC HD) as [W|[W|W]]; auto.
    - destruct (Nat.eq_dec (c_owner C j0) p) as [E|E].
      + rewrite E, upd_same in *. simpl in *. rewrite <- E. apply (b_wait _ _ B); auto. rewrite E; auto.
      + rewrite upd_other in * by auto. apply (b_wait _ _ B); auto.
    - apply (b_ok _ _ B); auto. }
  (* 2. created / modified *)
  assert (CR : forall n, (ev = ECreated n \/ ev = EModified n) ->
    match p_cache (s_procs s p) n with
    | Some _ => Some (mkS (s_lock s) (s_disk s) (upd (s_procs s) p (mkProc (p_alive (s_procs s p)) (p_avail (s_procs s p)) (p_cache (s_procs s p)) (p_obs (s_procs s p)) q' (p_wat (s_procs s p)))) (s_jobs s), ROk)
    | None => match s_disk s n with
       | Absent => Some (mkS (s_lock s) (s_disk s) (upd (s_procs s) p (mkProc (p_alive (s_procs s p)) (p_avail (s_procs s p)) (p_cache (s_procs s p)) (p_obs (s_procs s p)) q' (p_wat (s_procs s p)))) (s_jobs s), ROk)
       | Empty => Some (mkS (s_lock s) (s_disk s) (upd (s_procs s) p (mkProc (p_alive (s_procs s p)) (p_avail (s_procs s p)) (p_cache (s_procs s p)) (p_obs (s_procs s p)) q' (p_wat (s_procs s p)))) (s_jobs s), ROk)
       | Written c => Some (mkS (s_lock s) (s_disk s) (upd (s_procs s) p
             (mkProc (p_alive (s_procs s p)) (p_avail (s_procs s p) - c) (upd (p_cache (s_procs s p)) n (Some c)) (p_obs (s_procs s p)) q'
                     (p_wat (s_procs s p) ++ [n]))) (s_jobs s), ROk)
       end
    end = Some (s', r) -> InvB C s').
  { intros n Hev H'.
    assert (ND : forall k, EDeleted k = ev -> p_cache (s_procs s p) k = None) by (intros k Hk; destruct Hev; congruence).
    assert (NDk : forall k, EDeleted k <> ev) by (intros k Hk; destruct Hev; congruence).
    destruct (p_cache (s_procs s p) n) eqn:PC; [inversion H'; subst; apply SAME; auto|].
    destruct (s_disk s n) eqn:DN; try (inversion H'; subst; apply SAME; auto; fail).
    inversion H'; subst; clear H'.
    assert (Hn : (n < c_n C)%nat) by (apply (a_disk _ _ I); congruence).
    assert (Hc : c = c_cnt C n) by (eapply a_written; eauto).
    set (pr' := mkProc (p_alive (s_procs s p)) (p_avail (s_procs s p) - c) (upd (p_cache (s_procs s p)) n (Some c))
                   (p_obs (s_procs s p)) q' (p_wat (s_procs s p) ++ [n])) in *.
    assert (AVN : p_avail pr' = c_total C - cache_sum C pr').
    { unfold pr' at 1. simpl. rewrite (b_avail _ _ B p G). rewrite (cache_sum_set C (s_procs s p) pr' n); auto.
      - simpl. rewrite upd_same, PC. simpl. lia.
      - intros x Hx. simpl. apply upd_other; auto. }
    namedB.
    - cq q p; [apply AVN|]. apply (b_avail _ _ B); auto.
    - cq q p; simpl in *; apply (b_obs _ _ B); auto.
    - cq q p; simpl in *; [|apply (b_known _ _ B); auto].
      cu HC; [left; congruence|].
      destruct (b_known _ _ B p k HA HC) as [K|K]; auto.
    - cq q p; simpl in *; [|apply (b_watch _ _ B); auto].
      cu HC; [left; apply in_or_app; right; left; reflexivity|].
      destruct (b_watch _ _ B p k HA HC HD) as [W|[W|W]]; auto. left. apply in_app_l; auto.
    - destruct (Nat.eq_dec (c_owner C j0) p) as [E|E].
      + rewrite E, upd_same in *. simpl in *. right. exists n. rewrite upd_same. discriminate.
      + rewrite upd_other in * by auto. apply (b_wait _ _ B); auto.
    - apply (b_ok _ _ B); auto. }
  destruct ev as [n|n|n].
  - apply (CR n); auto.
  - apply (CR n); auto.
  - destruct (p_cache (s_procs s p) n) as [c|] eqn:PC.
    + inversion H; subst; clear H.
      assert (Hn : (n < c_n C)%nat) by (apply (GA p n c PC)).
      assert (Hc : c = c_cnt C n) by (apply (GA p n c PC)).
      set (pr' := mkProc (p_alive (s_procs s p)) (p_avail (s_procs s p) + c) (upd (p_cache (s_procs s p)) n None)
                     (p_obs (s_procs s p)) q' (p_wat (s_procs s p))) in *.
      assert (AVN : p_avail pr' = c_total C - cache_sum C pr').
      { unfold pr' at 1. simpl. rewrite (b_avail _ _ B p G). rewrite (cache_sum_set C (s_procs s p) pr' n); auto.
        - simpl. rewrite upd_same, PC. simpl. lia.
        - intros x Hx. simpl. apply upd_other; auto. }
      assert (GP' : cache_good C pr').
      { intros k c1 Hc1. simpl in Hc1. cu Hc1; [discriminate|]. eapply GA; eauto. }
      assert (AVT : p_avail pr' <= c_total C).
      { rewrite AVN. assert (0 <= cache_sum C pr') by (apply cache_sum_nonneg; auto). lia. }
      namedB.
      * cq q p; [apply AVN|]. apply (b_avail _ _ B); auto.
      * cq q p; simpl in *; apply (b_obs _ _ B); auto.
      * cq q p; simpl in *; [|apply (b_known _ _ B); auto].
        cu HC; [congruence|]. destruct (b_known _ _ B p k HA HC) as [K|K]; auto.
        right. apply KEEP; auto. apply event_neq_del; auto.
      * rewrite notify_orph. cq q p; simpl in *; [|apply (b_watch _ _ B); auto].
        cu HC; [congruence|]. destruct (b_watch _ _ B p k HA HC HD) as [W|[W|W]]; auto.
        right. right. apply KEEP; auto. apply event_neq_del; auto.
      * rewrite notify_ph in HP. rewrite notify_orph in HO.
        destruct (Nat.eq_dec (c_owner C j0) p) as [E|E].
        -- rewrite E, upd_same. left. apply (notify_wait C p (p_avail (s_procs s p) + c) (s_jobs s) j0); auto.
        -- rewrite upd_other in * by auto. rewrite notify_other in HK by auto. apply (b_wait _ _ B); auto.
      * apply notify_ok in HK. destruct HK as [HK|HK]; [apply (b_ok _ _ B); auto|].
        change (p_avail (s_procs s p) + c) with (p_avail pr') in HK. lia.
    + inversion H; subst; clear H. apply SAME. intros k Hk. inversion Hk; subst. auto.
Qed.

Lemma invB_ghost C s n s1 : cnt_pos C -> InvA C s -> InvB C s -> ghost_delete C s n = Some s1 -> InvB C s1.
Proof.
  intros NP I B H. unfold ghost_delete in H. destruct (_ && _) eqn:G; try discriminate.
  inversion H; subst; clear H.
  namedB.
  - rewrite emit_alive in HA. rewrite emit_avail. unfold cache_sum. rewrite emit_cache. apply (b_avail _ _ B); auto.
  - rewrite emit_alive in HA. rewrite emit_obs. apply (b_obs _ _ B); auto.
  - rewrite emit_alive in HA. rewrite emit_cache in HC.
    destruct (Nat.eq_dec k n) as [->|NK].
    + right. apply emit_evq_new; auto. apply (b_obs _ _ B); auto.
    + rewrite upd_other by auto. destruct (b_known _ _ B q k HA HC) as [K|K]; auto.
      right. apply emit_evq_In. auto.
  - rewrite emit_alive in HA. rewrite emit_cache in HC. rewrite emit_wat.
    destruct (Nat.eq_dec k n) as [->|NK]; [rewrite upd_same in HD; congruence|]. rewrite upd_other in HD by auto.
    destruct (b_watch _ _ B q k HA HC HD) as [W|[W|W]]; auto.
    right. right. apply emit_evq_In. auto.
  - rewrite emit_alive in HA. rewrite emit_avail, emit_cache. apply (b_wait _ _ B); auto.
  - apply (b_ok _ _ B); auto.
Qed.

Lemma invB_resubmit C s p j s' r : cnt_pos C -> InvA C s -> InvB C s -> core VF C s (Resubmit p j) = Some (s', r) -> InvB C s'.
Proof.
  intros NP I B H. simpl in H. destruct (j_ph (s_jobs s j)) eqn:P; try discriminate. open_guard H. split_and G.
  apply Nat.eqb_eq in G1. subst p. inversion H; subst; clear H.
  assert (JO : forall k, k <> j -> upd (s_jobs s) j (mkJ Idle (c_cnt C j <=? p_avail (s_procs s (c_owner C j))) false false (j_pid (s_jobs s j))) k = s_jobs s k).
  { intros k Hk. apply upd_other; auto. }
  assert (AV := avail_le_total C s (c_owner C j) NP I B G).
  namedB.
  - apply (b_avail _ _ B); auto.
  - apply (b_obs _ _ B); auto.
  - apply (b_known _ _ B); auto.
  - destruct (Nat.eq_dec k j) as [->|NK].
    + exfalso. assert (X := idle_absent C s j I (or_intror P)). congruence.
    + rewrite JO by auto. apply (b_watch _ _ B); auto.
  - destruct (Nat.eq_dec j0 j) as [->|NK].
    + rewrite upd_same in HK. simpl in HK. left. lia.
    + rewrite JO in * by auto. apply (b_wait _ _ B); auto.
  - destruct (Nat.eq_dec j0 j) as [->|NK].
    + rewrite upd_same in HK. simpl in HK. lia.
    + rewrite JO in HK by auto. apply (b_ok _ _ B); auto.
Qed.

Lemma invB_killed C s j s' r : InvB C s -> core VF C s (JobKilled j) = Some (s', r) -> InvB C s'.
Proof.
  intros B H. simpl in H. destruct (j_ph (s_jobs s j)); try discriminate.
  inversion H; subst. apply invB_phase; auto. discriminate.
Qed.

Lemma emit_list_evq_new evs : forall procs q ev,
  In ev evs -> p_alive (procs q) = true -> p_obs (procs q) = true -> In ev (p_evq (emit_list evs procs q)).
Proof.
  induction evs; simpl; intros procs q ev HI A O; [contradiction|]. destruct HI as [->|HI].
  - apply emit_list_evq_In. apply emit_evq_new; auto.
  - apply IHevs; auto; [rewrite emit_alive|rewrite emit_obs]; auto.
Qed.

Lemma invB_sweep C s pr : cnt_pos C -> InvA C s -> InvB C s -> InvB C (sweep VF C s pr).
Proof.
  intros NP I B.
  assert (SW : forall q k, p_alive (s_procs s q) = true -> s_disk (sweep VF C s pr) k = Absent -> s_disk s k <> Absent ->
     In (EDeleted k) (p_evq (s_procs (sweep VF C s pr) q))).
  { intros q k A D1 D2. unfold sweep in *. destruct (v_empty VF && lock_free s) eqn:G; [|congruence]. simpl in *.
    assert (ST : stale_empty s pr k = true).
    { unfold stale_empty. destruct (s_disk s k); try congruence. destruct (p_cache pr k); congruence. }
    apply emit_list_evq_new; auto; [|apply (b_obs _ _ B); auto].
    apply in_map. apply filter_In. split; auto. apply in_seq. destruct (a_disk _ _ I k D2). lia. }
  namedB.
  - rewrite sweep_alive in HA. rewrite sweep_avail. unfold cache_sum. rewrite sweep_cache. apply (b_avail _ _ B); auto.
  - rewrite sweep_alive in HA. rewrite sweep_obs. apply (b_obs _ _ B); auto.
  - rewrite sweep_alive in HA. rewrite sweep_cache in HC.
    destruct (b_known _ _ B q k HA HC) as [K|K]; [|right; apply sweep_evq_In; auto].
    destruct (sweep_disk VF C s pr k) as [E|[E1 _]]; [left; congruence|right; apply SW; auto].
  - rewrite sweep_alive in HA. rewrite sweep_cache in HC. rewrite sweep_wat, sweep_jobs.
    assert (HD' : s_disk s k <> Absent).
    { destruct (sweep_disk VF C s pr k) as [E|[E1 _]]; congruence. }
    destruct (b_watch _ _ B q k HA HC HD') as [W|[W|W]]; auto. right. right. apply sweep_evq_In; auto.
  - rewrite sweep_alive in HA. rewrite sweep_jobs in *. rewrite sweep_avail, sweep_cache. apply (b_wait _ _ B); auto.
  - rewrite sweep_jobs in HK. apply (b_ok _ _ B); auto.
Qed.

Lemma invB_pre C s l : cnt_pos C -> InvA C s -> InvB C s -> InvB C (pre VF C s l).
Proof.
  intros NP I B. destruct (pre_cases VF C s l) as [E|[pr E]]; rewrite E; auto. apply invB_sweep; auto.
Qed.

Lemma invB_core C s l s' r : cnt_pos C -> InvA C s -> InvB C s -> core VF C s l = Some (s', r) -> InvB C s'.
Proof.
  intros NP I B H. destruct l.
  - eapply invB_start; eauto.
  - eapply invB_kill; eauto.
  - eapply invB_acquire; eauto.
  - eapply invB_write; eauto.
  - eapply invB_launch; eauto.
  - eapply invB_ends; eauto.
  - eapply invB_killed; eauto.
  - eapply invB_release; eauto.
  - eapply invB_deliver; eauto.
  - eapply invB_fire; eauto.
  - discriminate.
  - simpl in H. discriminate.
  - eapply invB_resubmit; eauto.
  - discriminate.
  - discriminate.
Qed.

Lemma invB_step1 C s l s' r : cnt_pos C -> InvA C s -> InvB C s -> step1 VF C s l = Some (s', r) -> InvB C s'.
Proof.
  intros NP I B H. rewrite step1_pre in H.
  apply (invB_core C _ l s' r NP (invA_pre VF C s l I) (invB_pre C s l NP I B) H).
Qed.

Lemma invB_resync C s p s' r : cnt_pos C -> InvA C s -> InvB C s -> resync VF C s p = Some (s', r) -> InvB C s'.
Proof.
  intros NP I B H. unfold resync in H.
  assert (I0 := invA_sweep VF C s (s_procs s p) I). assert (B0 := invB_sweep C s (s_procs s p) NP I B).
  set (s0 := sweep VF C s (s_procs s p)) in *.
  open_guard H. split_and G. apply lock_free_None in G1. inversion H; subst; clear H.
  assert (PG := good_all C s0 I0 p).
  destruct (recount_facts C s0 (s_procs s0 p) I0 G0 PG) as [R1 [R2 [R3 R4]]].
  assert (RG := recount_good C s0 (s_procs s0 p) I0 G0 PG).
  assert (RO : p_obs (recount C s0 (s_procs s0 p)) = p_obs (s_procs s0 p)) by reflexivity.
  assert (RE : p_evq (recount C s0 (s_procs s0 p)) = p_evq (s_procs s0 p)) by reflexivity.
  assert (RW : p_wat (recount C s0 (s_procs s0 p)) = p_wat (s_procs s0 p) ++ new_names C s0 (s_procs s0 p)) by reflexivity.
  assert (AV : p_avail (recount C s0 (s_procs s0 p)) <= c_total C).
  { rewrite R4. assert (0 <= cache_sum C (recount C s0 (s_procs s0 p))) by (apply cache_sum_nonneg; auto). lia. }
  remember (recount C s0 (s_procs s0 p)) as pr eqn:EPR. clear EPR.
  assert (WP : forall k, p_cache pr k <> None -> s_disk s0 k <> Absent ->
     In k (p_wat pr) \/ (j_orph (s_jobs s0 k) = false /\ c_owner C k = p) \/ In (EDeleted k) (p_evq pr)).
  { intros k HC HD. rewrite RW, RE. destruct (R3 k HC) as [E|E].
    - destruct (b_watch _ _ B0 p k G E HD) as [W|[W|W]]; auto. left. apply in_app_l; auto.
    - left. apply in_or_app; auto. }
  match goal with |- InvB C (mkS _ _ _ ?J) => set (jobs' := J) end.
  assert (JO : forall j, j_orph (jobs' j) = j_orph (s_jobs s0 j)).
  { intros j. unfold jobs'. match goal with |- context[if ?b then _ else _] => destruct b end; reflexivity. }
  assert (JP : forall j, j_ph (jobs' j) = j_ph (s_jobs s0 j)).
  { intros j. unfold jobs'. match goal with |- context[if ?b then _ else _] => destruct b end; reflexivity. }
  namedB.
  - cq q p; [apply R4|]. apply (b_avail _ _ B0); auto.
  - cq q p; [rewrite RO|]; apply (b_obs _ _ B0); auto.
  - cq q p.
    + left. apply (R1 k HC).
    + apply (b_known _ _ B0); auto.
  - rewrite JO. cq q p.
    + apply WP; auto.
    + apply (b_watch _ _ B0); auto.
  - rewrite JP in HP. rewrite JO in HO.
    destruct (Nat.eq_dec (c_owner C j0) p) as [E|E].
    + subst p. rewrite upd_same. left.
      unfold jobs' in HK. rewrite Nat.eqb_refl, HP, HO in HK. simpl in HK. lia.
    + rewrite upd_other in * by auto. unfold jobs' in HK.
      destruct (Nat.eqb_spec (c_owner C j0) p); [congruence|]. simpl in HK. apply (b_wait _ _ B0); auto.
  - unfold jobs' in HK. match type of HK with context[if ?b then _ else _] => destruct b end; simpl in HK; [lia|].
    apply (b_ok _ _ B0); auto.
Qed.

Lemma invB_dlock_none C s p i :
  cnt_pos C -> InvA C s -> InvB C s -> p_alive (s_procs s p) = true ->
  (forall k, EDeleted k = nth i (p_evq (s_procs s p)) (ECreated 0) -> p_cache (s_procs s p) k = None) ->
  InvB C (mkS (s_lock s) (s_disk s)
          (upd (s_procs s) p (mkProc (p_alive (s_procs s p)) (p_avail (s_procs s p)) (p_cache (s_procs s p)) (p_obs (s_procs s p))
                                     (remove_nth i (p_evq (s_procs s p))) (p_wat (s_procs s p))))
          (notify C p (p_avail (s_procs s p)) (s_jobs s))).
Proof.
  intros NP I B A ND.
  assert (AV := avail_le_total C s p NP I B A).
  assert (KEEP : forall k, p_cache (s_procs s p) k <> None -> In (EDeleted k) (p_evq (s_procs s p)) ->
                 In (EDeleted k) (remove_nth i (p_evq (s_procs s p)))).
  { intros k HC HI. destruct (nth_error (p_evq (s_procs s p)) i) as [e|] eqn:NTH.
    - eapply remove_nth_In; eauto. intro E. apply HC. apply ND. rewrite (nth_error_nth _ _ _ NTH). auto.
    - assert (LEN : (length (p_evq (s_procs s p)) <= i)%nat) by (apply nth_error_None; auto).
      rewrite remove_nth_beyond; auto. }
  namedB.
  - cq q p; simpl in *; apply (b_avail _ _ B); auto.
  - cq q p; simpl in *; apply (b_obs _ _ B); auto.
  - cq q p; simpl in *; [|apply (b_known _ _ B); auto].
    destruct (b_known _ _ B p k HA HC) as [K|K]; auto.
  - rewrite notify_orph. cq q p; simpl in *; [|apply (b_watch _ _ B); auto].
    destruct (b_watch _ _ B p k HA HC HD) as [W|[W|W]]; auto.
  - rewrite notify_ph in HP. rewrite notify_orph in HO.
    destruct (Nat.eq_dec (c_owner C j0) p) as [E|E].
    + rewrite E, upd_same. simpl. left. apply (notify_wait C p (p_avail (s_procs s p)) (s_jobs s) j0); auto.
    + rewrite upd_other in * by auto. rewrite notify_other in HK by auto. apply (b_wait _ _ B); auto.
  - apply notify_ok in HK. destruct HK as [HK|HK]; [apply (b_ok _ _ B); auto|lia].
Qed.

Lemma invB_micro C s s' : cnt_pos C -> micro VF C s s' -> InvA C s -> InvB C s -> InvB C s'.
Proof.
  intros NP M I B. destruct M.
  - destruct (dlock_cases VF C s p i s' r H) as [H'|[A [-> ND]]]; [eapply invB_core; eauto|].
    eapply invB_dlock_none; eauto.
  - eapply invB_core; eauto.
  - apply invB_sweep; auto.
  - eapply invB_ghost; eauto.
  - discriminate.
  - eapply invB_resync; eauto.
Qed.
Lemma invB_micros C s s' : cnt_pos C -> micros VF C s s' -> InvA C s /\ InvL s -> InvB C s -> InvB C s'.
Proof.
  intros NP M. induction M; auto. intros X B. apply IHM; [apply (invAL_micro VF C s s1 eq_refl H X)|].
  eapply invB_micro; eauto. apply X.
Qed.
Lemma invB_step C s l s' r : cnt_pos C -> InvA C s -> InvL s -> InvB C s -> step VF C s l = Some (s', r) -> InvB C s'.
Proof. intros NP I L B H. apply (invB_micros C s s' NP (step_micros VF C s l s' r H) (conj I L) B). Qed.

(* ====== part E: theorems *)
Opaque recount notify emit parsable.

(* ------------------------------------------------------------------ reachable states *)
Lemma reach_invAL V C s : v_fire V = true -> reachable V C s -> InvA C s /\ InvL s.
Proof. intros VFI. induction 1; [split; [apply invA_init|apply invL_init]|eapply invAL_step; eauto]. Qed.
Lemma reach_invA V C s : v_fire V = true -> reachable V C s -> InvA C s.
Proof. intros VFI R. apply (reach_invAL V C s VFI R). Qed.
Lemma reach_invL V C s : v_fire V = true -> reachable V C s -> InvL s.
Proof. intros VFI R. apply (reach_invAL V C s VFI R). Qed.

Lemma reach_cap V C s : v_fire V = true -> cnt_nonneg C -> 0 <= c_total C -> reachable V C s -> held_sum C s <= c_total C.
Proof.
  intros VFI NN T R. induction R.
  - unfold held_sum. rewrite sumf_zero; auto.
  - eapply cap_step; eauto; [eapply reach_invA; eauto|eapply reach_invL; eauto].
Qed.

Lemma reach_invB C s : cnt_pos C -> reachable VF C s -> InvB C s.
Proof.
  intros NP R. induction R; [apply invB_init|].
  apply (invB_step C s l s' r NP (reach_invA VF C s eq_refl R) (reach_invL VF C s eq_refl R) IHR H).
Qed.

Lemma written_le_held C s : cnt_nonneg C -> InvA C s -> written_sum C s <= held_sum C s.
Proof.
  intros NN I. unfold written_sum, held_sum. apply sumf_le. intros k Hk. unfold written, held.
  destruct (s_disk s k) eqn:D; try lia.
  - specialize (NN k). lia.
  - apply (a_written _ _ I) in D. lia.
Qed.

(* ------------------------------------------------------------------ C08 *)
Theorem capacity_disk : forall V C s,
  cnt_nonneg C -> 0 <= c_total C -> v_fire V = true -> reachable V C s ->
  held_sum C s <= c_total C /\ written_sum C s <= c_total C.
Proof.
  intros V C s NN T VFI R. assert (H := reach_cap V C s VFI NN T R). split; auto.
  assert (H' := written_le_held C s NN (reach_invA V C s VFI R)). lia.
Qed.

Theorem running_has_file : forall V C s j,
  v_fire V = true -> reachable V C s -> j_ph (s_jobs s j) = Holding \/ j_ph (s_jobs s j) = Running ->
  s_disk s j = Written (c_cnt C j).
Proof.
  intros V C s j VFI R H. assert (I := reach_invA V C s VFI R).
  destruct (a_hold _ _ I j H) as [c D]. rewrite D. f_equal. eapply a_written; eauto.
Qed.

Theorem running_sum : forall V C s,
  cnt_nonneg C -> 0 <= c_total C -> v_fire V = true -> reachable V C s ->
  sumf (c_n C) (fun j => match j_ph (s_jobs s j) with Running => c_cnt C j | _ => 0 end) <= c_total C.
Proof.
  intros V C s NN T VFI R. assert (H := reach_cap V C s VFI NN T R). assert (I := reach_invA V C s VFI R).
  assert (sumf (c_n C) (fun j => match j_ph (s_jobs s j) with Running => c_cnt C j | _ => 0 end) <= held_sum C s); [|lia].
  unfold held_sum. apply sumf_le. intros k Hk. unfold held. specialize (NN k).
  destruct (j_ph (s_jobs s k)) eqn:P; try (destruct (s_disk s k); lia).
  destruct (a_hold _ _ I k (or_intror P)) as [c D]. rewrite D. lia.
Qed.

(* no step of any process deletes (or alters) the token file of a job that is and stays running *)
Theorem running_file_stable : forall V C s l s' r j,
  v_fire V = true -> reachable V C s -> step V C s l = Some (s', r) ->
  j_ph (s_jobs s j) = Running -> j_ph (s_jobs s' j) = Running ->
  s_disk s j = Written (c_cnt C j) /\ s_disk s' j = Written (c_cnt C j).
Proof.
  intros V C s l s' r j VFI R H P P'. split.
  - apply (running_has_file V C s j VFI R). auto.
  - apply (running_has_file V C s' j VFI); [eapply R_step; eauto|auto].
Qed.

(* a watcher thread only deletes the file of a job that is not between acquire and exit *)
(* TokenFile.watch deletes only when the job lock is free and there is no pid file or the
   process it names is gone; in a reachable state this means the job is not between acquire
   and exit: the scheduler holds the job lock from before the token is taken until the pid
   file exists                                                                           *)
Theorem watcher_not_early : forall V C s p n s' r,
  v_fire V = true -> reachable V C s -> step V C s (Fire p n) = Some (s', r) ->
  j_lock (s_jobs s n) = false /\ (j_pid (s_jobs s n) = false \/ j_ph (s_jobs s n) <> Running) /\
  (j_ph (s_jobs s n) = Idle \/ j_ph (s_jobs s n) = Ended \/ j_ph (s_jobs s n) = Done).
Proof.
  intros V C s p n s' r VFI R H. simpl in H. open_guard H. split_and G.
  assert (PJ := can_finish_phase s n (reach_invL V C s VFI R) G0).
  unfold watcher_can_finish in G0. apply andb_true_iff in G0. destruct G0 as [K1 K2].
  split; [destruct (j_lock (s_jobs s n)); simpl in K1; congruence|]. split.
  - destruct (j_pid (s_jobs s n)); auto. right. simpl in K2. destruct (j_ph (s_jobs s n)); simpl in K2; congruence.
  - destruct PJ as [E|[E|E]]; auto.
Qed.

Theorem start_window_locked : forall V C s j,
  v_fire V = true -> reachable V C s ->
  (j_ph (s_jobs s j) = Creating \/ j_ph (s_jobs s j) = Holding -> j_lock (s_jobs s j) = true) /\
  (j_ph (s_jobs s j) = Running -> j_pid (s_jobs s j) = true).
Proof.
  intros V C s j VFI R. assert (L := reach_invL V C s VFI R). split; [apply (l_locked _ L)|apply (l_pid _ L)].
Qed.

(* ---- ProcessCounterToken *)
Lemma pheld_change n cnt t t' j :
  (j < n)%nat -> (forall x, x <> j -> pt_held t' x = pt_held t x) ->
  pheld_sum n cnt t' = pheld_sum n cnt t - (if pt_held t j then cnt j else 0) + (if pt_held t' j then cnt j else 0).
Proof.
  intros Hj H. unfold pheld_sum.
  apply (sumf_change n (fun k => if pt_held t k then cnt k else 0) (fun k => if pt_held t' k then cnt k else 0) j); auto.
  intros x Hx. rewrite H; auto.
Qed.

Lemma pinv total n cnt t :
  (forall j, 0 <= cnt j) -> 0 <= total -> preachable total n cnt t ->
  0 <= pt_avail t /\ pt_avail t + pheld_sum n cnt t = total /\ (forall j, pt_held t j = true -> (j < n)%nat).
Proof.
  intros NN T R. induction R.
  - simpl. split; [lia|]. split; [|intros; discriminate]. unfold pheld_sum. rewrite sumf_zero; auto. lia.
  - destruct IHR as [A [E F]]. destruct l; simpl in H.
    + destruct (pt_held t j) eqn:HJ; simpl in H; try discriminate.
      destruct (j <? n)%nat eqn:LT; simpl in H; try discriminate. apply Nat.ltb_lt in LT.
      destruct (pt_avail t <? cnt j) eqn:LA; inversion H; subst; clear H; auto.
      simpl. split; [lia|]. split.
      * rewrite (pheld_change n cnt t _ j); simpl; auto.
        -- rewrite HJ, upd_same. lia.
        -- intros x Hx. apply upd_other; auto.
      * intros k. unfold upd. destruct (Nat.eqb_spec k j); subst; auto.
    + destruct (pt_held t j) eqn:HJ; inversion H; subst; clear H.
      specialize (NN j). simpl. split; [lia|]. split.
      * rewrite (pheld_change n cnt t _ j); simpl; auto.
        -- rewrite HJ, upd_same. lia.
        -- intros x Hx. apply upd_other; auto.
      * intros k. unfold upd. destruct (Nat.eqb_spec k j); subst; [discriminate|auto].
Qed.

Theorem capacity_inproc : forall total n cnt t,
  (forall j, 0 <= cnt j) -> 0 <= total -> preachable total n cnt t ->
  0 <= pt_avail t /\ pt_avail t + pheld_sum n cnt t = total.
Proof. intros. destruct (pinv total n cnt t) as [A [B _]]; auto. Qed.

(* ------------------------------------------------------------------ C09 *)
(* with the repaired _update the token stays usable whatever is left in the directory:
   start, acquire and release only need token.lock *)
Lemma pre_parsable V C s p pr :
  v_empty V = true -> s_lock s = None -> p_cache pr = p_cache (s_procs s p) ->
  parsable C (sweep V C s pr) (s_procs (sweep V C s pr) p) = true.
Proof.
  intros VE L E. apply (parsable_sweep V C s pr _ VE L). rewrite sweep_cache. auto.
Qed.

Theorem release_enabled : forall V C s p j,
  v_empty V = true -> p_alive (s_procs s p) = true -> c_owner C j = p -> j_orph (s_jobs s j) = false ->
  j_ph (s_jobs s j) = Holding \/ j_ph (s_jobs s j) = Ended -> s_lock s = None ->
  exists s' r, step V C s (Release p j) = Some (s', r).
Proof.
  intros V C s p j VE A O Or P L. change (step V C s (Release p j)) with (core V C (sweep V C s (s_procs s p)) (Release p j)).
  simpl. rewrite sweep_jobs, sweep_alive, A, O, Nat.eqb_refl, Or. unfold lock_free. rewrite sweep_lock, L.
  rewrite (pre_parsable V C s p (s_procs s p) VE L eq_refl). simpl.
  destruct P as [P|P]; rewrite P; destruct (p_cache _ j); try destruct (is_present _); eauto.
Qed.

Theorem start_enabled : forall V C s p,
  v_empty V = true -> p_alive (s_procs s p) = false -> s_lock s = None ->
  exists s', step V C s (Start p) = Some (s', ROk) /\ p_alive (s_procs s' p) = true.
Proof.
  intros V C s p VE A L. change (step V C s (Start p)) with (core V C (sweep V C s fresh_proc) (Start p)).
  simpl. rewrite sweep_alive, A. unfold lock_free. rewrite sweep_lock, L.
  change (mkProc true 0 (fun _ => None) true [] []) with fresh_proc.
  rewrite (parsable_sweep V C s fresh_proc fresh_proc VE L eq_refl). simpl.
  eexists. split; [reflexivity|]. simpl. rewrite upd_same. reflexivity.
Qed.

(* after a recount of the repaired code the only unwritten files left are the one being
   created now and those the recounting process still had in cache (a stale entry of the same
   name, dropped when its pending deletion event is handled); a starting process leaves none *)
Lemma sweep_no_stale V C s pr k :
  v_empty V = true -> s_lock s = None -> s_disk (sweep V C s pr) k = Empty -> p_cache pr k <> None.
Proof.
  intros VE L D. unfold sweep, lock_free in D. rewrite VE, L in D. simpl in D. unfold stale_empty in D.
  destruct (s_disk s k); try discriminate. destruct (p_cache pr k); [discriminate|discriminate].
Qed.

Lemma core_disk_empty V C s l s' r k :
  (exists p, l = Start p) \/ (exists p j, l = Acquire p j) \/ (exists p j, l = Release p j) ->
  core V C s l = Some (s', r) -> s_disk s' k = Empty ->
  s_lock s = None /\ (s_disk s k = Empty \/ s_lock s' = Some k).
Proof.
  intros HL H D. destruct HL as [[p ->]|[[p [j ->]]|[p [j ->]]]]; simpl in H.
  - destruct (negb _ && lock_free s && _) eqn:G.
    + split_and G. apply lock_free_None in G1. inversion H; subst. simpl in D. auto.
    + destruct (negb _ && lock_free s) eqn:G2; [|discriminate]. split_and G2. apply lock_free_None in G0.
      inversion H; subst. auto.
  - open_guard H. split_and G. apply lock_free_None in G1. split; auto.
    destruct (_ <? _); inversion H; subst; clear H; simpl in *; auto.
    unfold upd in D. destruct (Nat.eqb_spec k j); subst; auto.
  - destruct (match j_ph _ with Holding => Some Idle | Ended => Some Done | _ => None end); try discriminate.
    open_guard H. split_and G. apply lock_free_None in G1. split; auto.
    destruct (p_cache _ j).
    + destruct (is_present (s_disk s j)); inversion H; subst; clear H; simpl in *; auto.
      unfold upd in D. destruct (Nat.eqb_spec k j); subst; [discriminate|auto].
    + inversion H; subst; clear H; simpl in *; auto.
Qed.

Theorem start_reclaims : forall V C s p s' r k,
  v_empty V = true -> step V C s (Start p) = Some (s', r) -> s_disk s' k <> Empty.
Proof.
  intros V C s p s' r k VE H D.
  change (step V C s (Start p)) with (core V C (sweep V C s fresh_proc) (Start p)) in H.
  destruct (core_disk_empty V C _ _ s' r k (or_introl (ex_intro _ p eq_refl)) H D) as [L [E|E]].
  - rewrite sweep_lock in L. apply (sweep_no_stale V C s fresh_proc k VE L E). reflexivity.
  - simpl in H. destruct (negb _ && lock_free _ && _); [|destruct (negb _ && lock_free _)]; inversion H; subst; simpl in E; congruence.
Qed.

Theorem recount_reclaims : forall V C s l p j s' r k,
  v_empty V = true -> l = Acquire p j \/ l = Release p j -> step V C s l = Some (s', r) ->
  s_disk s' k = Empty -> s_lock s' = Some k \/ p_cache (s_procs s p) k <> None.
Proof.
  intros V C s l p j s' r k VE HL H D.
  assert (H' : core V C (sweep V C s (s_procs s p)) l = Some (s', r)) by (destruct HL; subst; exact H).
  assert (HL' : (exists p, l = Start p) \/ (exists p j, l = Acquire p j) \/ (exists p j, l = Release p j)).
  { destruct HL; subst; [right; left|right; right]; eauto. }
  destruct (core_disk_empty V C _ _ s' r k HL' H' D) as [L [E|E]]; auto.
  rewrite sweep_lock in L. right. apply (sweep_no_stale V C s _ k VE L E).
Qed.

Lemma release_core_exit V C s p j s' r :
  InvA C s -> core V C s (Release p j) = Some (s', r) ->
  s_disk s' j = Absent /\ p_cache (s_procs s' p) j = None /\
  p_avail (s_procs s' p) = c_total C - held_sum C s' /\
  ((j_ph (s_jobs s j) = Holding /\ j_ph (s_jobs s' j) = Idle) \/
   (j_ph (s_jobs s j) = Ended /\ j_ph (s_jobs s' j) = Done)).
Proof.
  intros I H. simpl in H.
  destruct (match j_ph (s_jobs s j) with Holding => Some Idle | Ended => Some Done | _ => None end) as [ph'|] eqn:NPH; try discriminate.
  open_guard H. split_and G. apply lock_free_None in G1. apply Nat.eqb_eq in G3. subst p.
  set (p := c_owner C j) in *.
  assert (PG := good_all C s I p).
  destruct (recount_facts C s (s_procs s p) I G0 PG) as [R1 [R2 [R3 R4]]].
  assert (RG := recount_good C s (s_procs s p) I G0 PG).
  assert (RA := recount_avail C s (s_procs s p) I G0 PG).
  assert (PJ : (j_ph (s_jobs s j) = Holding /\ ph' = Idle) \/ (j_ph (s_jobs s j) = Ended /\ ph' = Done)).
  { destruct (j_ph (s_jobs s j)); inversion NPH; auto. }
  remember (recount C s (s_procs s p)) as pr eqn:EPR. clear EPR.
  destruct (p_cache pr j) as [c|] eqn:PC.
  - assert (HCJ : p_cache pr j <> None) by congruence.
    assert (DJ := R1 j HCJ). assert (PRS : is_present (s_disk s j) = true) by (destruct (s_disk s j); simpl; congruence).
    rewrite PRS in H. inversion H; subst; clear H. simpl.
    assert (Hc : c = c_cnt C j) by (apply (RG j c PC)).
    assert (Hjn : (j < c_n C)%nat) by (apply (RG j c PC)).
    rewrite upd_same, emit_cache, emit_avail, upd_same, notify_ph, upd_same. simpl. rewrite upd_same.
    repeat split; auto.
    + rewrite RA. match goal with |- _ = c_total C - held_sum C ?S' => rewrite (held_sum_set C s S' j) end; simpl; auto.
      * unfold held; simpl. rewrite upd_same. destruct (s_disk s j); try congruence; lia.
      * intros k Hk. apply upd_other; auto.
  - inversion H; subst; clear H. simpl. rewrite upd_same.
    assert (DJ : s_disk s j = Absent).
    { destruct (s_disk s j) eqn:DJ; auto; rewrite (R2 j) in PC by congruence; discriminate. }
    repeat split; auto.
    + destruct (v_notify V); rewrite ?notify_ph, upd_same; simpl; destruct PJ as [[P1 P2]|[P1 P2]]; subst; auto.
Qed.

Theorem release_on_every_exit : forall V C s p j s' r,
  v_fire V = true -> reachable V C s -> step V C s (Release p j) = Some (s', r) ->
  s_disk s' j = Absent /\ p_cache (s_procs s' p) j = None /\
  p_avail (s_procs s' p) = c_total C - held_sum C s' /\
  ((j_ph (s_jobs s j) = Holding /\ j_ph (s_jobs s' j) = Idle) \/
   (j_ph (s_jobs s j) = Ended /\ j_ph (s_jobs s' j) = Done)).
Proof.
  intros V C s p j s' r VFI R H. assert (I := reach_invA V C s VFI R).
  change (step V C s (Release p j)) with (core V C (sweep V C s (s_procs s p)) (Release p j)) in H.
  assert (X := release_core_exit V C _ p j s' r (invA_sweep V C s (s_procs s p) I) H).
  rewrite sweep_jobs in X. exact X.
Qed.

Theorem observer_survives : forall C s p,
  cnt_pos C -> reachable VF C s -> p_alive (s_procs s p) = true -> p_obs (s_procs s p) = true.
Proof. intros C s p NP R A. apply (b_obs _ _ (reach_invB C s NP R)); auto. Qed.

Lemma quiescent_disk C s k :
  InvA C s -> quiescent s -> s_disk s k <> Absent -> j_ph (s_jobs s k) = Ended /\ j_orph (s_jobs s k) = true.
Proof.
  intros I [_ Q] D. destruct (a_disk _ _ I k D) as [_ A]. unfold active in A.
  destruct (Q k) as [E|[E|E]]; auto; rewrite E in A; repeat (destruct A as [A|A]; try discriminate).
Qed.

Lemma quiescent_cache_empty C s p :
  cnt_pos C -> reachable VF C s -> quiescent s -> p_alive (s_procs s p) = true ->
  forall k, p_cache (s_procs s p) k = None.
Proof.
  intros NP R Q A k. assert (I := reach_invA VF C s eq_refl R). assert (B := reach_invB C s NP R).
  destruct (p_cache (s_procs s p) k) eqn:PC; auto. exfalso.
  assert (HC : p_cache (s_procs s p) k <> None) by congruence.
  destruct Q as [Q1 Q2]. destruct (Q1 p A) as [W E]. specialize (E (b_obs _ _ B p A)).
  destruct (b_known _ _ B p k A HC) as [K|K]; [|rewrite E in K; contradiction].
  destruct (quiescent_disk C s k I (conj Q1 Q2) K) as [_ O].
  destruct (b_watch _ _ B p k A HC K) as [X|[[X _]|X]].
  - rewrite W in X. contradiction.
  - congruence.
  - rewrite E in X. contradiction.
Qed.

Theorem idle_full : forall C s,
  cnt_pos C -> reachable VF C s -> quiescent s ->
  (forall p, p_alive (s_procs s p) = true ->
     p_avail (s_procs s p) = c_total C /\ forall k, p_cache (s_procs s p) k = None) /\
  (forall k, s_disk s k <> Absent ->
     j_ph (s_jobs s k) = Ended /\ j_orph (s_jobs s k) = true /\
     forall q, p_alive (s_procs s q) = true -> p_cache (s_procs s q) k = None).
Proof.
  intros C s NP R Q. assert (I := reach_invA VF C s eq_refl R). assert (B := reach_invB C s NP R). split.
  - intros p A. assert (E := quiescent_cache_empty C s p NP R Q A). split; auto.
    rewrite (b_avail _ _ B p A). unfold cache_sum. rewrite sumf_zero; [lia|]. intros k _. rewrite E. reflexivity.
  - intros k D. destruct (quiescent_disk C s k I Q D) as [P O]. repeat split; auto.
    intros q A. apply (quiescent_cache_empty C s q NP R Q A).
Qed.

(* without a crash nothing is left in the directory *)
Corollary idle_no_file : forall C s,
  cnt_pos C -> reachable VF C s -> quiescent s -> (forall j, j_orph (s_jobs s j) = false) ->
  forall k, s_disk s k = Absent.
Proof.
  intros C s NP R Q NO k. destruct (s_disk s k) eqn:D; auto.
  - destruct (idle_full C s NP R Q) as [_ F]. destruct (F k) as [_ [O _]]; [congruence|]. rewrite NO in O. discriminate.
  - destruct (idle_full C s NP R Q) as [_ F]. destruct (F k) as [_ [O _]]; [congruence|]. rewrite NO in O. discriminate.
Qed.

Theorem eventual_launch : forall C s p j,
  cnt_pos C -> reachable VF C s -> quiescent s -> p_obs (s_procs s p) = true -> ~ waiting_fits C s p j.
Proof.
  intros C s p j NP R Q _ [A [Hj [O [P [Or [K [C1 C2]]]]]]]. subst p.
  assert (B := reach_invB C s NP R).
  destruct (idle_full C s NP R Q) as [F _]. destruct (F _ A) as [AV CE].
  destruct (b_wait _ _ B j A P Or K) as [W|[k W]].
  - lia.
  - apply W. apply CE.
Qed.

(* possibility: in a quiescent state with an empty directory every job of a live scheduler
   whose request fits CAN be launched at once: acquire succeeds, the file is written, the
   process started                                                                        *)
Theorem launch_possible : forall C s p j,
  cnt_pos C -> reachable VF C s -> quiescent s -> (forall k, s_disk s k = Absent) ->
  p_alive (s_procs s p) = true -> (j < c_n C)%nat -> c_owner C j = p ->
  j_ph (s_jobs s j) = Idle -> j_orph (s_jobs s j) = false -> c_cnt C j <= c_total C ->
  exists s', run VF C s [Acquire p j; WriteF j; Launch j] = Some s' /\ j_ph (s_jobs s' j) = Running /\
             s_disk s' j = Written (c_cnt C j).
Proof.
  intros C s p j NP R Q DE A Hj O P Or FIT.
  assert (I := reach_invA VF C s eq_refl R).
  assert (L : s_lock s = None).
  { destruct (s_lock s) as [k|] eqn:LK; auto. destruct (a_lock1 _ _ I k LK) as [X _].
    destruct Q as [_ Q]. destruct (Q k) as [E|[E|[E _]]]; congruence. }
  assert (OK : j_ok (s_jobs s j) = true).
  { destruct (j_ok (s_jobs s j)) eqn:K; auto. exfalso.
    apply (eventual_launch C s p j NP R Q (observer_survives C s p NP R A)).
    unfold waiting_fits. specialize (NP j). repeat split; auto; lia. }
  set (s0 := sweep VF C s (s_procs s p)).
  assert (I0 : InvA C s0) by (apply invA_sweep; auto).
  assert (D0 : forall k, s_disk s0 k = Absent).
  { intros k. destruct (sweep_disk VF C s (s_procs s p) k) as [E|[E _]]; fold s0 in E; rewrite E; auto. }
  assert (P0 : parsable C s0 (s_procs s0 p) = true) by (apply pre_parsable; auto).
  assert (AV : p_avail (recount C s0 (s_procs s0 p)) = c_total C).
  { rewrite (recount_avail C s0 _ I0 P0 (good_all C s0 I0 p)). unfold held_sum. rewrite sumf_zero; [lia|].
    intros k _. unfold held. rewrite D0. reflexivity. }
  assert (S1 : exists s1, step VF C s (Acquire p j) = Some (s1, ROk) /\ s_lock s1 = Some j /\
                          j_ph (s_jobs s1 j) = Creating /\ j_orph (s_jobs s1 j) = false /\ s_disk s1 j = Empty).
  { change (step VF C s (Acquire p j)) with (core VF C s0 (Acquire p j)). simpl.
    unfold s0 at 1 2 3 4 5. rewrite sweep_alive, sweep_jobs, A, O, Nat.eqb_refl, P, Or, OK. fold s0.
    assert (LT : (j <? c_n C)%nat = true) by (apply Nat.ltb_lt; auto). rewrite LT.
    unfold lock_free. unfold s0 at 1. rewrite sweep_lock, L. fold s0. rewrite P0. simpl.
    rewrite AV. assert (LE : (c_total C <? c_cnt C j) = false) by lia. rewrite LE.
    eexists. split; [reflexivity|]. simpl. rewrite !upd_same. simpl. unfold s0. rewrite sweep_jobs. auto. }
  destruct S1 as [s1 [E1 [L1 [P1 [O1 DS1]]]]].
  assert (S2 : exists s2, step VF C s1 (WriteF j) = Some (s2, ROk) /\ j_ph (s_jobs s2 j) = Holding /\
                          j_orph (s_jobs s2 j) = false /\ s_disk s2 j = Written (c_cnt C j)).
  { simpl. rewrite L1, Nat.eqb_refl, DS1. cbn [is_present]. eexists. split; [reflexivity|]. simpl. rewrite !upd_same. simpl. auto. }
  destruct S2 as [s2 [E2 [P2 [O2 D2]]]].
  assert (S3 : exists s3, step VF C s2 (Launch j) = Some (s3, ROk) /\ j_ph (s_jobs s3 j) = Running /\ s_disk s3 j = s_disk s2 j).
  { simpl. rewrite P2, O2. eexists. split; [reflexivity|]. simpl. rewrite upd_same. auto. }
  destruct S3 as [s3 [E3 [P3 D3]]].
  exists s3. cbn [run]. rewrite E1, E2, E3. split; auto. split; auto. congruence.
Qed.

(* a process that knows the file of a job whose scheduler is dead has a watcher thread for it
   (or is about to drop a stale entry for that name) *)
Theorem crash_reclaim : forall C s q k,
  cnt_pos C -> reachable VF C s -> p_alive (s_procs s q) = true -> p_cache (s_procs s q) k <> None ->
  s_disk s k <> Absent -> j_orph (s_jobs s k) = true ->
  In k (p_wat (s_procs s q)) \/ In (EDeleted k) (p_evq (s_procs s q)).
Proof.
  intros C s q k NP R A HC D O. assert (B := reach_invB C s NP R).
  destruct (b_watch _ _ B q k A HC D) as [W|[[W _]|W]]; auto. congruence.
Qed.

(* ... that thread can run as soon as the job has ended - orderly (pid file removed) or
   killed (stale pid file left behind) - and then the file is gone *)
Theorem crash_reclaim_fires : forall V C s q k,
  v_fire V = true -> reachable V C s ->
  p_alive (s_procs s q) = true -> In k (p_wat (s_procs s q)) -> j_ph (s_jobs s k) = Ended ->
  exists s', step V C s (Fire q k) = Some (s', ROk) /\ s_disk s' k = Absent.
Proof.
  intros V C s q k VFI R A W P. assert (L := reach_invL V C s VFI R). simpl. rewrite A. apply mem_In in W. rewrite W. simpl.
  assert (WF : watcher_can_finish (s_jobs s k) = true).
  { unfold watcher_can_finish. rewrite P. simpl.
    destruct (j_lock (s_jobs s k)) eqn:LK; [|simpl; destruct (j_pid (s_jobs s k)); reflexivity].
    apply (l_unlocked _ L) in LK. destruct LK; congruence. }
  rewrite WF, VFI.
  destruct (is_present (s_disk s k)) eqn:PR; eexists; split; eauto; simpl.
  - apply upd_same.
  - destruct (s_disk s k); simpl in PR; congruence.
Qed.

(* ... and any process that (re)starts watches every written file it finds (an unwritten one
   is removed by the repaired _update, see start_reclaims) *)
Theorem crash_reclaim_restart : forall V C s p s' k c,
  v_fire V = true -> reachable V C s -> step V C s (Start p) = Some (s', ROk) -> s_disk s k = Written c ->
  In k (p_wat (s_procs s' p)) /\ p_alive (s_procs s' p) = true.
Proof.
  intros V C s p s' k c VFI R H D. assert (I := reach_invA V C s VFI R).
  change (step V C s (Start p)) with (core V C (sweep V C s fresh_proc) (Start p)) in H.
  assert (I0 := invA_sweep V C s fresh_proc I).
  assert (D0 : s_disk (sweep V C s fresh_proc) k = Written c).
  { destruct (sweep_disk V C s fresh_proc k) as [E|[_ [E _]]]; congruence. }
  simpl in H. open_start H ltac:(idtac).
  split_and G. inversion H; subst; clear H. simpl. rewrite upd_same.
  split; [|reflexivity]. rewrite recount_wat. simpl.
  eapply new_names_In; eauto. apply (a_disk _ _ I0). congruence.
Qed.

(* ====== part F: witnesses of the refutations; satisfiability of the hypotheses *)
Opaque recount notify emit parsable.

(* ------------------------------------------------------------------ witnesses *)
Lemma run_reachable V C tr : forall s s', reachable V C s -> run V C s tr = Some s' -> reachable V C s'.
Proof.
  induction tr as [|l tr IH]; simpl; intros s s' R H.
  - inversion H; subst; auto.
  - destruct (step V C s l) as [[s1 r]|] eqn:E; try discriminate. apply (IH s1 s'); auto. eapply R_step; eauto.
Qed.

Definition is_some {A} (o : option A) : bool := match o with Some _ => true | None => false end.
Definition final (V : variant) (C : cfg) (tr : list label) : state :=
  match run V C init tr with Some s => s | None => init end.
Lemma final_run V C tr : is_some (run V C init tr) = true -> run V C init tr = Some (final V C tr).
Proof. unfold final. destruct (run V C init tr); simpl; [reflexivity|discriminate]. Qed.
Lemma final_reachable V C tr : is_some (run V C init tr) = true -> reachable V C (final V C tr).
Proof. intros H. eapply run_reachable; [apply R_init|apply final_run; auto]. Qed.

Definition mkC (total : Z) (owners : list nat) (cnts : list Z) : cfg :=
  mkCfg total (length owners) (fun j => nth j owners 0%nat) (fun j => nth j cnts 1).

(* 1. the observer of process 1 dies on the token file that process 0 has opened but not
      written; process 1 never sees the release: its job 1 is WAITING for ever            *)
Definition C1 := mkC 1 [0; 1]%nat [1; 1].
Definition tr1 := [Start 0; Start 1; Acquire 0 0; Deliver 1 0; WriteF 0; Acquire 1 1; Launch 0; JobEnds 0 0;
                   Release 0 0; Fire 1 0; Deliver 0 0; Deliver 0 0; Deliver 0 0]%nat.

Ltac quiescent_2 :=
  split;
  [ intros p A; destruct p as [|[|p]]; [vm_compute; split; [reflexivity|intros; try reflexivity; try discriminate] ..
                                        | vm_compute in A; discriminate ]
  | intros j; destruct j as [|[|[|j]]]; vm_compute; auto ].

Theorem observer_death_refuted : exists C tr s p j,
  run V_no_parse C init tr = Some s /\ quiescent s /\ waiting_fits C s p j /\ p_obs (s_procs s p) = false.
Proof.
  exists C1, tr1, (final V_no_parse C1 tr1), 1%nat, 1%nat.
  split; [apply final_run; vm_compute; reflexivity|].
  split; [quiescent_2|].
  split; [|vm_compute; reflexivity].
  unfold waiting_fits. repeat split; try (vm_compute; reflexivity); simpl; lia.
Qed.

(* 2. a watcher of process 1 reclaims the file of the ended job 0 before process 0 releases
      it: release() returns early, job 1 of process 0 is never re-checked (observers alive) *)
Definition C2 := mkC 1 [0; 0]%nat [1; 1].
Definition tr2 := [Start 0; Start 1; Acquire 0 0; WriteF 0; Acquire 0 1; Deliver 1 0; Deliver 1 0; Launch 0;
                   JobEnds 0 0; Fire 1 0; Release 0 0; Deliver 0 0; Deliver 0 0; Deliver 0 0; Deliver 1 0]%nat.

Theorem release_unnotified_refuted : exists C tr s p j,
  run V_no_notify C init tr = Some s /\ quiescent s /\ waiting_fits C s p j /\ p_obs (s_procs s p) = true.
Proof.
  exists C2, tr2, (final V_no_notify C2 tr2), 0%nat, 1%nat.
  split; [apply final_run; vm_compute; reflexivity|].
  split; [quiescent_2|].
  split; [|vm_compute; reflexivity].
  unfold waiting_fits. repeat split; try (vm_compute; reflexivity); simpl; lia.
Qed.

(* 4. the job of a dead scheduler ends; the next scheduler's __init__ counts its token file,
      the watcher thread started by that _update deletes the file before the directory watch
      exists: no event ever tells, job 1 is WAITING for ever                               *)
Definition tr6 := [Start 0; Acquire 0 0; WriteF 0; Launch 0; Kill 0; JobEnds 0 0; StartRace 1 0]%nat.
Theorem restart_race_refuted : exists C tr s p j,
  run V_no_watch C init tr = Some s /\ quiescent s /\ waiting_fits C s p j /\ p_obs (s_procs s p) = true.
Proof.
  exists C1, tr6, (final V_no_watch C1 tr6), 1%nat, 1%nat.
  split; [apply final_run; vm_compute; reflexivity|].
  split; [quiescent_2|].
  split; [|vm_compute; reflexivity].
  unfold waiting_fits. repeat split; try (vm_compute; reflexivity); simpl; lia.
Qed.

(* 3. a file cached from an event is not charged, its deletion is credited: an idle token
      shows more than its total                                                            *)
Definition C3 := mkC 2 [0]%nat [1].
Definition tr3 := [Start 0; Start 1; Acquire 0 0; WriteF 0; Deliver 1 0; Deliver 1 0; Launch 0; JobEnds 0 0;
                   Release 0 0; Deliver 1 0; Fire 1 0; Deliver 0 0; Deliver 0 0; Deliver 0 0]%nat.
Theorem idle_overfull_refuted : exists C tr s p,
  run V_no_count C init tr = Some s /\ quiescent s /\ p_alive (s_procs s p) = true /\ p_obs (s_procs s p) = true /\
  c_total C < p_avail (s_procs s p).
Proof.
  exists C3, tr3, (final V_no_count C3 tr3), 1%nat.
  split; [apply final_run; vm_compute; reflexivity|].
  split; [quiescent_2|].
  repeat split; vm_compute; reflexivity.
Qed.

(* 5. scheduler 0 is killed between open() and write() of its token file: the empty file stays;
      from then on _update raises in every process: a new scheduler cannot be started, and the
      READY job 1 of the live scheduler 1, whose request fits, can never take the token      *)
Transparent parsable.
Lemma start_raises V C s p :
  v_empty V = false -> p_alive (s_procs s p) = false -> s_lock s = None -> parsable C s fresh_proc = false ->
  step V C s (Start p) = Some (s, RRaised).
Proof.
  intros VE A L P. change (step V C s (Start p)) with (core V C (sweep V C s fresh_proc) (Start p)).
  unfold sweep. rewrite VE. simpl. rewrite A. unfold lock_free. rewrite L. simpl.
  change (mkProc true 0 (fun _ => None) true [] []) with fresh_proc. rewrite P. reflexivity.
Qed.
Lemma acquire_blocked V C s p j :
  v_empty V = false -> parsable C s (s_procs s p) = false -> step V C s (Acquire p j) = None.
Proof.
  intros VE P. change (step V C s (Acquire p j)) with (core V C (sweep V C s (s_procs s p)) (Acquire p j)).
  unfold sweep. rewrite VE. simpl. rewrite P. rewrite !andb_false_r. reflexivity.
Qed.
Opaque parsable.

Definition tr8 := [Start 0; Start 1; Acquire 0 0; Kill 0; Deliver 1 0]%nat.
Theorem kill_in_create_refuted : exists C tr s,
  run V_no_empty C init tr = Some s /\ quiescent s /\
  (* job 1 of the live scheduler 1 is READY and its request fits the (unused) token ... *)
  p_alive (s_procs s 1) = true /\ j_ph (s_jobs s 1) = Idle /\ j_ok (s_jobs s 1) = true /\ c_owner C 1%nat = 1%nat /\
  1 <= c_cnt C 1%nat <= c_total C /\ held_sum C s = c_cnt C 0%nat /\ j_ph (s_jobs s 0) = Ended /\
  (* ... but acquire raises, and so does the start of any new scheduler *)
  step V_no_empty C s (Acquire 1 1) = None /\ step V_no_empty C s (Start 0) = Some (s, RRaised).
Proof.
  exists C1, tr8, (final V_no_empty C1 tr8).
  split; [apply final_run; vm_compute; reflexivity|].
  split; [quiescent_2|].
  repeat split; try (vm_compute; reflexivity); try (simpl; lia).
Qed.

(* 6. the pinned watcher thread of process 1 for job 0 leaves the job lock after an aborted start
      of job 0 (no pid file: "job finished"); job 0 starts again and runs; the thread then deletes
      "its" file by name: job 0 runs without a token file, job 1 is granted the same unit     *)
Definition tr9 := [Start 0; Start 1; Acquire 0 0; WriteF 0; Deliver 1 0; Release 0 0; Fire 1 0; Acquire 0 0; WriteF 0;
                   Launch 0; FireDelete 1 0; Acquire 1 1; WriteF 1; Launch 1]%nat.
Theorem stale_watcher_refuted : exists C tr s,
  run V_no_fire C init tr = Some s /\
  j_ph (s_jobs s 0) = Running /\ s_disk s 0 = Absent /\ j_ph (s_jobs s 1) = Running /\
  c_total C < sumf (c_n C) (fun j => match j_ph (s_jobs s j) with Running => c_cnt C j | _ => 0 end).
Proof.
  exists C1, tr9, (final V_no_fire C1 tr9).
  split; [apply final_run; vm_compute; reflexivity|].
  repeat split; vm_compute; reflexivity.
Qed.

(* ------------------------------------------------------------------ the hypotheses are satisfiable *)
Lemma C1_pos : cnt_pos C1.
Proof. intros j. destruct j as [|[|[|j]]]; simpl; lia. Qed.
Lemma C2_pos : cnt_pos C2.
Proof. intros j. destruct j as [|[|[|j]]]; simpl; lia. Qed.

(* capacity_disk, running_has_file: a reachable state holding the whole capacity, one job running *)
Definition C4 := mkC 3 [0; 0]%nat [1; 2].
Definition tr4 := [Start 0; Acquire 0 0; WriteF 0; Launch 0; Acquire 0 1; WriteF 1]%nat.
Example ex_capacity :
  cnt_nonneg C4 /\ 0 <= c_total C4 /\ reachable VL C4 (final VL C4 tr4) /\ held_sum C4 (final VL C4 tr4) = 3 /\
  j_ph (s_jobs (final VL C4 tr4) 0) = Running /\ j_ph (s_jobs (final VL C4 tr4) 1) = Holding.
Proof.
  split; [intros j; destruct j as [|[|[|j]]]; simpl; lia|]. split; [simpl; lia|].
  split; [apply final_reachable; vm_compute; reflexivity|].
  repeat split; vm_compute; reflexivity.
Qed.

(* idle_full, eventual_launch: the schedule of the first refutation, on the repaired code,
   ends quiescent after real activity (two processes, a refused start, a release, a watcher) *)
Definition tr1f := (tr1 ++ [Deliver 1 0; Deliver 1 0])%nat.
Example ex_quiescent :
  cnt_pos C1 /\ reachable VF C1 (final VF C1 tr1f) /\ quiescent (final VF C1 tr1f) /\
  j_ph (s_jobs (final VF C1 tr1f) 0) = Done /\ j_ok (s_jobs (final VF C1 tr1f) 1) = true /\
  p_obs (s_procs (final VF C1 tr1f) 1) = true.
Proof.
  split; [apply C1_pos|]. split; [apply final_reachable; vm_compute; reflexivity|].
  split; [quiescent_2|]. repeat split; vm_compute; reflexivity.
Qed.

(* release_on_every_exit: success, failure and aborted start all reach Release *)
Example ex_release_abort : exists s' r,
  step VF C4 (final VF C4 [Start 0; Acquire 0 0; WriteF 0]%nat) (Release 0 0) = Some (s', r) /\ j_ph (s_jobs s' 0) = Idle.
Proof. eexists. eexists. split; [vm_compute; reflexivity|]. vm_compute. reflexivity. Qed.
Example ex_release_failure : exists s' r,
  step VF C4 (final VF C4 [Start 0; Acquire 0 0; WriteF 0; Launch 0; JobEnds 0 1]%nat) (Release 0 0) = Some (s', r)
  /\ j_ph (s_jobs s' 0) = Done.
Proof. eexists. eexists. split; [vm_compute; reflexivity|]. vm_compute. reflexivity. Qed.

(* crash_reclaim: process 0 is killed while its job 0 runs; process 1 knows the file and watches it *)
Definition tr5 := [Start 0; Start 1; Acquire 0 0; WriteF 0; Deliver 1 0; Launch 0; Kill 0]%nat.
Example ex_crash :
  reachable VF C1 (final VF C1 tr5) /\ p_alive (s_procs (final VF C1 tr5) 1) = true /\
  p_cache (s_procs (final VF C1 tr5) 1) 0 <> None /\ s_disk (final VF C1 tr5) 0 <> Absent /\
  j_orph (s_jobs (final VF C1 tr5) 0) = true /\ In 0%nat (p_wat (s_procs (final VF C1 tr5) 1)).
Proof.
  split; [apply final_reachable; vm_compute; reflexivity|].
  repeat split; vm_compute; try reflexivity; try discriminate. left. reflexivity.
Qed.

(* crash_reclaim_fires with a stale pid file: scheduler 0 is killed, then its job is killed *)
Definition tr7 := [Start 0; Start 1; Acquire 0 0; WriteF 0; Deliver 1 0; Launch 0; Kill 0; JobKilled 0]%nat.
Example ex_crash_stale_pid :
  reachable VF C1 (final VF C1 tr7) /\ p_alive (s_procs (final VF C1 tr7) 1) = true /\
  In 0%nat (p_wat (s_procs (final VF C1 tr7) 1)) /\ j_ph (s_jobs (final VF C1 tr7) 0) = Ended /\
  j_pid (s_jobs (final VF C1 tr7) 0) = true /\ s_disk (final VF C1 tr7) 0 <> Absent.
Proof.
  split; [apply final_reachable; vm_compute; reflexivity|].
  repeat split; vm_compute; try reflexivity; try discriminate. left. reflexivity.
Qed.

(* the repaired start-up: the same race leaves job 1 ready *)
Example ex_restart_race_repaired :
  reachable VF C1 (final VF C1 tr6) /\ quiescent (final VF C1 tr6) /\ j_ok (s_jobs (final VF C1 tr6) 1) = true /\
  p_avail (s_procs (final VF C1 tr6) 1) = 1.
Proof.
  split; [apply final_reachable; vm_compute; reflexivity|].
  split; [quiescent_2|]. split; vm_compute; reflexivity.
Qed.

(* start_enabled / start_reclaims / launch_possible: on the repaired code the schedule of
   kill_in_create_refuted leaves a usable token: scheduler 0 can be started again (the empty
   file is removed), and job 1 is launched *)
Example ex_kill_in_create_repaired :
  reachable VF C1 (final VF C1 tr8) /\ s_disk (final VF C1 tr8) 0 = Empty /\ s_lock (final VF C1 tr8) = None /\
  is_some (run VF C1 (final VF C1 tr8) [Start 0; Acquire 1 1; WriteF 1; Launch 1]%nat) = true /\
  s_disk (final VF C1 (tr8 ++ [Start 0])%nat) 0 = Absent /\
  j_ph (s_jobs (final VF C1 (tr8 ++ [Acquire 1 1; WriteF 1; Launch 1])%nat) 1) = Running.
Proof.
  split; [apply final_reachable; vm_compute; reflexivity|]. repeat split; vm_compute; reflexivity.
Qed.

(* the repaired watcher: the schedule of stale_watcher_refuted without the separate delete *)
Example ex_stale_watcher_repaired :
  reachable VF C1 (final VF C1 [Start 0; Start 1; Acquire 0 0; WriteF 0; Deliver 1 0; Release 0 0; Fire 1 0; Acquire 0 0; WriteF 0; Launch 0]%nat) /\
  step VF C1 (final VF C1 [Start 0; Start 1; Acquire 0 0; WriteF 0; Deliver 1 0; Release 0 0; Fire 1 0; Acquire 0 0; WriteF 0; Launch 0]%nat) (FireDelete 1 0) = None.
Proof. split; [apply final_reachable; vm_compute; reflexivity|vm_compute; reflexivity]. Qed.

(* a finished job identity submitted again *)
Example ex_resubmit :
  j_ph (s_jobs (final VF C4 [Start 0; Acquire 0 0; WriteF 0; Launch 0; JobEnds 0 1; Release 0 0; Resubmit 0 0; Acquire 0 0]%nat) 0) = Creating.
Proof. vm_compute. reflexivity. Qed.

(* StartMid, DeliverRace: reachable states that use them (two processes) *)
Example ex_startmid :
  reachable VF C1 (final VF C1 [Start 0; StartMid 1 0 0]%nat) /\
  s_disk (final VF C1 [Start 0; StartMid 1 0 0]%nat) 0 = Written 1 /\
  p_cache (s_procs (final VF C1 [Start 0; StartMid 1 0 0]%nat) 1) 0 = Some 1 /\
  p_avail (s_procs (final VF C1 [Start 0; StartMid 1 0 0]%nat) 1) = 0 /\
  j_ok (s_jobs (final VF C1 [Start 0; StartMid 1 0 0]%nat) 1) = false.
Proof. split; [apply final_reachable; vm_compute; reflexivity|]. repeat split; vm_compute; reflexivity. Qed.

Example ex_deliverrace :
  let tr := [Start 0; Start 1; Acquire 0 0; WriteF 0; Deliver 1 0; Launch 0; JobEnds 0 0; Release 0 0;
             Deliver 1 0; DeliverRace 1 0 false 1]%nat in
  reachable VF C1 (final VF C1 tr) /\ j_ph (s_jobs (final VF C1 tr) 1) = Holding /\
  p_obs (s_procs (final VF C1 tr) 1) = true /\ p_avail (s_procs (final VF C1 tr) 1) = 0.
Proof. split; [apply final_reachable; vm_compute; reflexivity|]. repeat split; vm_compute; reflexivity. Qed.

(* capacity_inproc *)
Definition pcnt := fun j : nat => nth j [1; 2] 1.
Definition pt1 := mkP 2 (upd (fun _ => false) 0%nat true).
Definition pt2 := mkP 0 (upd (upd (fun _ => false) 0%nat true) 1%nat true).
Example ex_inproc : preachable 3 2 pcnt pt2 /\ pt_avail pt2 = 0 /\ pt_held pt2 0%nat = true /\ pt_held pt2 1%nat = true.
Proof.
  split; [|repeat split; reflexivity].
  apply (PR_step 3 2 pcnt pt1 (PAcquire 1) pt2 ROk); [|reflexivity].
  apply (PR_step 3 2 pcnt (pinit 3) (PAcquire 0) pt1 ROk); [apply PR_init|reflexivity].
Qed.
