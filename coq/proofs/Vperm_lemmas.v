(* Dict insertion order (C01): values that differ only by the order in which dict items
   were inserted, at any depth, hash to the same bytes; graphs that differ only by such
   values have the same identifiers.                                                  *)
From Coq Require Import ZArith NArith List Bool Lia Permutation.
From XV Require Import core.Value model.Hash model.Edits proofs.Sort_lemmas proofs.Hash_lemmas
  proofs.Neutral_lemmas proofs.Spec_lemmas.
Import ListNotations.

(* ---- generic list facts -------------------------------------------------------------------- *)
Lemma F2_length {A B} (R : A -> B -> Prop) l l' : Forall2 R l l' -> length l = length l'.
Proof. induction 1; cbn; congruence. Qed.

Lemma F2_filter {A B} (R : A -> B -> Prop) (p : A -> bool) (q : B -> bool) l l' :
  Forall2 R l l' -> (forall a b, R a b -> p a = q b) -> Forall2 R (filter p l) (filter q l').
Proof.
  intros F E. induction F as [|a b l l' Rab F IH]; cbn [filter]; [constructor|].
  rewrite (E a b Rab). destruct (q b); [constructor; assumption|exact IH].
Qed.

Lemma seq_list_F2 {A B} (R : A -> B -> Prop) (f : A -> hres) (g : B -> hres) l l' :
  Forall2 R l l' -> (forall a b, R a b -> f a = g b) -> seq_list f l = seq_list g l'.
Proof.
  intros F E. induction F as [|a b l l' Rab F IH]; cbn [seq_list]; [reflexivity|].
  rewrite (E a b Rab), IH. reflexivity.
Qed.

Lemma insert_by_F2 {A B} (R : A -> B -> Prop) (ka : A -> bytes) (kb : B -> bytes) :
  (forall a b, R a b -> ka a = kb b) ->
  forall a b l l', R a b -> Forall2 R l l' -> Forall2 R (insert_by ka a l) (insert_by kb b l').
Proof.
  intros K a b l l' Rab F. induction F as [|x y l l' Rxy F IH]; cbn [insert_by]; [constructor; [exact Rab|constructor]|].
  rewrite (K a b Rab), (K x y Rxy). destruct (bytes_leb (kb b) (kb y)).
  - constructor; [exact Rab|constructor; assumption].
  - constructor; [exact Rxy|exact IH].
Qed.

Lemma sort_by_F2 {A B} (R : A -> B -> Prop) (ka : A -> bytes) (kb : B -> bytes) :
  (forall a b, R a b -> ka a = kb b) ->
  forall l l', Forall2 R l l' -> Forall2 R (sort_by ka l) (sort_by kb l').
Proof.
  intros K l l' F. induction F as [|x y l l' Rxy F IH]; cbn [sort_by]; [constructor|].
  apply insert_by_F2; assumption.
Qed.

Lemma Permutation_filter' {A} (p : A -> bool) l l' : Permutation l l' -> Permutation (filter p l) (filter p l').
Proof.
  induction 1 as [|x l l' P IH|x y l|l l' l'' P1 IH1 P2 IH2]; cbn [filter].
  - constructor.
  - destruct (p x); [apply perm_skip|]; exact IH.
  - destruct (p x), (p y); try apply Permutation_refl. apply perm_swap.
  - eapply Permutation_trans; eassumption.
Qed.

Lemma NoDup_map_filter {A B} (f : A -> B) (p : A -> bool) l : NoDup (map f l) -> NoDup (map f (filter p l)).
Proof.
  induction l as [|x l IH]; cbn [map filter]; intros ND; [constructor|].
  inversion ND as [|? ? Hn ND']; subst. destruct (p x); cbn [map]; [|apply IH; exact ND'].
  constructor; [|apply IH; exact ND']. intros Hin. apply Hn.
  apply in_map_iff in Hin. destruct Hin as [y [E Hy]]. apply filter_In in Hy. destruct Hy as [Hy _].
  rewrite <- E. apply in_map. exact Hy.
Qed.

Definition itemrel (a b : bytes * value) : Prop := fst a = fst b /\ vperm (snd a) (snd b).

Lemma F2_keys l l1 : Forall2 itemrel l l1 -> map fst l = map fst l1.
Proof. induction 1 as [|a b l l1 [E _] F IH]; cbn [map]; [reflexivity|]. rewrite E, IH. reflexivity. Qed.

(* ---- vperm and the meta tests ---------------------------------------------------------------- *)
Lemma vperm_is_meta h v v' : vperm v v' -> is_meta h v = is_meta h v'.
Proof. intros P. inversion P; subst; reflexivity. Qed.

Lemma vperm_is_meta_false h v v' : vperm v v' -> is_meta_false h v = is_meta_false h v'.
Proof. intros P. inversion P; subst; reflexivity. Qed.

Lemma vperm_none v v' : vperm v v' -> (match v with VNone => true | _ => false end) = (match v' with VNone => true | _ => false end).
Proof. intros P. inversion P; subst; reflexivity. Qed.

(* ---- the hash of vperm-related values, across graphs with vperm-related signatures ------------ *)
Definition selrel (s s' : argsel) : Prop :=
  match s, s' with
  | AVal v, AVal v' => vperm v v'
  | ASkip, ASkip => True
  | AMissing, AMissing => True
  | _, _ => False
  end.
Definition argrel (p q : bytes * argsel) : Prop := fst p = fst q /\ selrel (snd p) (snd q).
Definition sigrel (r r' : res nodesig) : Prop :=
  match r, r' with
  | Ok sg, Ok sg' => sg_task sg = sg_task sg' /\ sg_tid sg = sg_tid sg' /\ Forall2 argrel (sg_args sg) (sg_args sg')
  | Err e, Err e' => e = e'
  | _, _ => False
  end.

Section Rel.
  Variable H : bytes -> bytes.
  Variables cs cs' : classes.
  Variables h h' : heap.
  Variable look : nat -> option bytes.
  Hypothesis Hmeta : forall v, is_meta h v = is_meta h' v.
  Hypothesis Hsig : forall n, sigrel (nsig cs h n) (nsig cs' h' n).

  Lemma hv_rel : forall fuel st v v', vperm v v' ->
    hv H cs h look fuel st v = hv H cs' h' look fuel st v'.
  Proof.
    induction fuel as [|f IH]; intros st v v' P; [reflexivity|].
    assert (Filt : forall l l1, Forall2 vperm l l1 ->
              Forall2 vperm (filter (fun x => negb (is_meta h x)) l) (filter (fun x => negb (is_meta h' x)) l1)).
    { intros l l1 F. apply F2_filter; [exact F|]. intros a b Rab. rewrite (vperm_is_meta h a b Rab), Hmeta. reflexivity. }
    assert (FiltD : forall l l1, Forall2 itemrel l l1 ->
              Forall2 itemrel (filter (fun kv : bytes * value => negb (is_meta h (snd kv))) l)
                              (filter (fun kv : bytes * value => negb (is_meta h' (snd kv))) l1)).
    { intros l l1 F. apply F2_filter; [exact F|]. intros a b [_ Rab]. rewrite (vperm_is_meta h _ _ Rab), Hmeta. reflexivity. }
    assert (Items : forall l l1, Forall2 itemrel l l1 ->
              seq_list (fun kv : list N * value => do b <- hv H cs h look f st (snd kv); Ok (STR_ID :: fst kv ++ fst b, snd b)) l
              = seq_list (fun kv : list N * value => do b <- hv H cs' h' look f st (snd kv); Ok (STR_ID :: fst kv ++ fst b, snd b)) l1).
    { intros l l1 F. apply (seq_list_F2 itemrel); [exact F|]. intros a b [Ek Rab]. cbv beta. unfold bytes in *. rewrite (IH st _ _ Rab), Ek. reflexivity. }
    assert (Refl2 : forall l : list value, Forall2 vperm l l) by (induction l; constructor; [apply vp_refl|assumption]).
    assert (ReflD : forall l : list (bytes * value), Forall2 itemrel l l)
      by (induction l; constructor; [split; [reflexivity|apply vp_refl]|assumption]).
    inversion P as [w|l l1 F|l l1 l2 F Pm ND]; subst.
    - (* the same value *)
      destruct v' as [| z | b | bits | s | s | q | l | l | m]; cbn [hv]; try reflexivity.
      + pose proof (Filt l l (Refl2 l)) as F. rewrite (F2_length _ _ _ F).
        rewrite (seq_list_F2 vperm _ (hv H cs' h' look f st) _ _ F); [reflexivity|]. intros a b Rab. apply IH. exact Rab.
      + pose proof (FiltD l l (ReflD l)) as F.
        pose proof (sort_by_F2 itemrel fst fst (fun a b (R : itemrel a b) => proj1 R) _ _ F) as Fs.
        rewrite (Items _ _ Fs). reflexivity.
      + destruct (index_of m st); [reflexivity|]. destruct (look m); [reflexivity|].
        unfold hnode_with. specialize (Hsig m). unfold sigrel in Hsig.
        destruct (nsig cs h m) as [sg|e], (nsig cs' h' m) as [sg'|e']; try contradiction; cbn [bind]; [|subst; reflexivity].
        destruct Hsig as [Et [Ei Fa]]. rewrite Et, Ei.
        assert (ET : (match sg_task sg' with
                      | Some t => do r <- hv H cs h look f (m :: st) (VRef t); Ok (tmark (m :: st) t (fst r), snd r)
                      | None => Ok ([], 0) end)
                   = (match sg_task sg' with
                      | Some t => do r <- hv H cs' h' look f (m :: st) (VRef t); Ok (tmark (m :: st) t (fst r), snd r)
                      | None => Ok ([], 0) end)).
        { destruct (sg_task sg'); [|reflexivity]. rewrite (IH (m :: st) _ _ (vp_refl _)). reflexivity. }
        rewrite ET.
        rewrite (seq_list_F2 argrel (hsel (hv H cs h look f (m :: st))) (hsel (hv H cs' h' look f (m :: st))) _ _ Fa); [reflexivity|].
        intros [k s] [k' s'] [Ek Rs]. cbn [fst snd] in *. subst k'. unfold hsel. cbn [fst snd].
        destruct s as [| |u], s' as [| |u']; cbn [selrel] in Rs; try contradiction; try reflexivity.
        rewrite (IH (m :: st) _ _ Rs). reflexivity.
    - (* lists *)
      cbn [hv]. pose proof (Filt l l1 F) as Ff. rewrite (F2_length _ _ _ Ff).
      rewrite (seq_list_F2 vperm _ (hv H cs' h' look f st) _ _ Ff); [reflexivity|]. intros a b Rab. apply IH. exact Rab.
    - (* dicts *)
      cbn [hv].
      pose proof (FiltD l l1 F) as Ff.
      pose proof (sort_by_F2 itemrel fst fst (fun a b (R : itemrel a b) => proj1 R) _ _ Ff) as Fs.
      rewrite (Items _ _ Fs).
      assert (Es : sort_by fst (filter (fun kv : bytes * value => negb (is_meta h' (snd kv))) l1)
                   = sort_by fst (filter (fun kv : bytes * value => negb (is_meta h' (snd kv))) l2)).
      { apply sort_by_perm; [apply Permutation_filter'; exact Pm|].
        apply NoDup_map_filter. rewrite <- (F2_keys l l1 F). exact ND. }
      unfold bytes in *. rewrite Es. reflexivity.
  Qed.
End Rel.

(* ---- Python == does not see insertion order ---------------------------------------------------- *)
Lemma assoc_F2 k : forall l l1, Forall2 itemrel l l1 ->
  match assoc k l, assoc k l1 with
  | Some v, Some v1 => vperm v v1
  | None, None => True
  | _, _ => False
  end.
Proof.
  induction 1 as [|[ka va] [kb vb] l l1 [E R] F IH]; cbn [assoc]; [exact I|]. cbn [fst snd] in *. subst kb.
  destruct (bytes_eqb k ka); [exact R|exact IH].
Qed.

Lemma pyeq_vperm : forall d v v', vperm v v' -> pyeq d v = pyeq d v'.
Proof.
  induction d as [| z | b | b | s | s | q | x IHx | x IHx | n] using value_ind2; intros v v' P;
    inversion P as [w|l l1 F|l l1 l2 F Pm ND]; subst; try reflexivity.
  - (* list default vs lists *)
    cbn [pyeq]. clear P. revert l l1 F. induction x as [|u x IHl]; intros l l1 F.
    + inversion F; subst; reflexivity.
    + inversion IHx as [|? ? Hu IHx']; subst. inversion F as [|a b l' l1' Rab F']; subst; [reflexivity|].
      rewrite (Hu a b Rab). rewrite (IHl IHx' l' l1' F'). reflexivity.
  - (* dict default vs dicts *)
    cbn [pyeq].
    assert (Len : length l = length l2).
    { rewrite (F2_length _ _ _ F). apply Permutation_length. exact Pm. }
    rewrite Len. f_equal.
    assert (ND1 : NoDup (map fst l1)) by (rewrite <- (F2_keys l l1 F); exact ND).
    induction x as [|[k u] x IHl]; [reflexivity|].
    inversion IHx as [|? ? Hu IHx']; subst. cbn [snd] in Hu.
    pose proof (assoc_F2 k l l1 F) as A. rewrite <- (assoc_perm k l1 l2 Pm ND1).
    destruct (assoc k l) as [w|], (assoc k l1) as [w1|]; try contradiction; [|reflexivity].
    rewrite (Hu w w1 A). rewrite (IHl IHx'). reflexivity.
Qed.

Lemma remove_meta_vperm h : forall v v', vperm v v' -> vperm (remove_meta h v) (remove_meta h v').
Proof.
  induction v as [| z | b | b | s | s | q | l IHl | l IHl | n] using value_ind2; intros v' P;
    inversion P as [w|l0 l1 F|l0 l1 l2 F Pm ND]; subst; try apply vp_refl.
  - rewrite !remove_meta_list. apply vp_list. clear P.
    induction F as [|a b l l1 Rab F IHF]; [constructor|]. inversion IHl as [|? ? Ha IHl']; subst.
    cbn [filter]. rewrite <- (vperm_is_meta h a b Rab). destruct (is_meta h a); cbn [negb map]; [apply IHF; exact IHl'|].
    constructor; [apply Ha; exact Rab|apply IHF; exact IHl'].
  - rewrite !remove_meta_dict.
    apply (vp_dict _ (map (fun kv : list N * value => (fst kv, remove_meta h (snd kv)))
                          (filter (fun kv : list N * value => negb (is_meta h (snd kv))) l1))).
    + clear P Pm ND. induction F as [|[ka va] [kb vb] l l1 [Ek Rab] F IHF]; [constructor|]. inversion IHl as [|? ? Ha IHl']; subst.
      cbn [fst snd] in *. cbn [filter snd]. rewrite <- (vperm_is_meta h va vb Rab). destruct (is_meta h va); cbn [negb map fst snd]; [apply IHF; exact IHl'|].
      constructor; [split; [exact Ek|apply Ha; exact Rab]|apply IHF; exact IHl'].
    + apply Permutation_map. apply Permutation_filter'. exact Pm.
    + rewrite map_map. cbn [fst]. apply NoDup_map_filter. exact ND.
Qed.

(* the argument loop takes the same decision for two stored values related by vperm *)
Lemma argsel_vperm h a v v' : vperm v v' ->
  selrel (argsel_of h [(a_name a, v)] a) (argsel_of h [(a_name a, v')] a).
Proof.
  intros P. unfold argsel_of. cbn [assoc]. rewrite bytes_eqb_refl.
  rewrite <- (vperm_is_meta_false h v v' P), <- (vperm_none v v' P), <- (vperm_is_meta h v v' P).
  rewrite <- (match a_default a as o return (match o with Some d => pyeq d (remove_meta h v) | None => false end)
                                           = (match o with Some d => pyeq d (remove_meta h v') | None => false end)
              with Some d => pyeq_vperm d _ _ (remove_meta_vperm h v v' P) | None => eq_refl end).
  destruct (a_ignored a && negb (is_meta_false h v)); [exact I|]. destruct (a_gen a); [exact I|].
  match goal with |- selrel (if ?c then _ else _) _ => destruct c end; [exact I|].
  destruct (is_meta h v); [exact I|exact P].
Qed.

Lemma selrel_refl s : selrel s s.
Proof. destruct s; cbn; auto. apply vp_refl. Qed.

(* dict insertion order: replacing the value of one parameter of one node by the same value with
   dict items inserted in another order (at any depth) leaves the identifier of EVERY node unchanged *)
Theorem dict_order_neutral H cs h look n x k v v' :
  nth_error h n = Some x -> assoc k (n_fields x) = Some v -> vperm v v' ->
  forall fuel m, raw_ident H cs h look fuel m
               = raw_ident H cs (upd_nth h n (with_fields x (set_field k v' (n_fields x)))) look fuel m.
Proof.
  intros Ex Ev P fuel m.
  set (h' := upd_nth h n (with_fields x (set_field k v' (n_fields x)))).
  assert (M : meta_eq h h') by (apply (meta_eq_upd h n x); [exact Ex|reflexivity]).
  assert (S : forall q, sigrel (nsig cs h q) (nsig cs h' q)).
  { intros q. unfold nsig, getnode, h'. destruct (Nat.eq_dec n q) as [<-|D].
    - rewrite nth_upd_same by (eapply nth_error_lt; eassumption). rewrite Ex. cbn [bind with_fields n_cls n_task n_fields].
      destruct (getclass cs (n_cls x)) as [c|]; cbn [bind sigrel]; [|reflexivity].
      split; [reflexivity|split; [reflexivity|]]. cbn [sg_args]. unfold sigargs.
      apply F2_filter.
      + generalize (sort_by a_name (c_args c)) as args. induction args as [|a args IH]; cbn [map]; constructor; [|exact IH].
        split; [reflexivity|]. cbn [snd].
        rewrite <- (meta_eq_argsel h h' M). fold h'.
        destruct (list_eq_dec N.eq_dec (a_name a) k) as [Ek|Dk].
        * subst k. rewrite (argsel_single h a _ v Ev), (argsel_single h a _ v' (assoc_set_same _ _ _)).
          apply argsel_vperm. exact P.
        * rewrite argsel_other_arg by exact Dk. apply selrel_refl.
      + intros [ka sa] [kb sb] [_ Rs]. cbn [snd] in *. destruct sa, sb; cbn in Rs; try contradiction; reflexivity.
    - rewrite nth_upd_other by exact D. destruct (nth_error h q) as [y|]; cbn [bind sigrel]; [|reflexivity].
      destruct (getclass cs (n_cls y)) as [c|]; cbn [bind sigrel]; [|reflexivity].
      split; [reflexivity|split; [reflexivity|]]. cbn [sg_args]. rewrite <- (meta_eq_sigargs h _ M).
      generalize (sigargs h (n_fields y) (c_args c)) as l. induction l as [|p l IH]; constructor; [|exact IH].
      split; [reflexivity|apply selrel_refl]. }
  assert (Hm : forall w, is_meta h w = is_meta h' w) by (apply meta_eq_is_meta; exact M).
  unfold raw_ident, hnode, hnode_with. pose proof (S m) as Sm. unfold sigrel in Sm.
  destruct (nsig cs h m) as [sg|e], (nsig cs h' m) as [sg'|e']; try contradiction; cbn [bind]; [|subst; reflexivity].
  destruct Sm as [Et [Ei Fa]]. rewrite Et, Ei.
  assert (ET : (match sg_task sg' with
                | Some t => do r <- hv H cs h look fuel [m] (VRef t); Ok (tmark [m] t (fst r), snd r)
                | None => Ok ([], 0) end)
             = (match sg_task sg' with
                | Some t => do r <- hv H cs h' look fuel [m] (VRef t); Ok (tmark [m] t (fst r), snd r)
                | None => Ok ([], 0) end)).
  { destruct (sg_task sg'); [|reflexivity]. rewrite (hv_rel H cs cs h h' look Hm S fuel [m] _ _ (vp_refl _)). reflexivity. }
  rewrite ET.
  rewrite (seq_list_F2 argrel (hsel (hv H cs h look fuel [m])) (hsel (hv H cs h' look fuel [m])) _ _ Fa); [reflexivity|].
  intros [ka sa] [kb sb] [Ek Rs]. cbn [fst snd] in *. subst kb. unfold hsel. cbn [fst snd].
  destruct sa as [| |u], sb as [| |u']; cbn [selrel] in Rs; try contradiction; try reflexivity.
  rewrite (hv_rel H cs cs h h' look Hm S fuel [m] _ _ Rs). reflexivity.
Qed.

(* non-vacuity: a two-level dict whose items are inserted in another order at both levels *)
Example vperm_example :
  vperm (VDict [([97]%N, VDict [([120]%N, VInt 1); ([121]%N, VInt 2)]); ([98]%N, VList [VInt 3])])
        (VDict [([98]%N, VList [VInt 3]); ([97]%N, VDict [([121]%N, VInt 2); ([120]%N, VInt 1)])]).
Proof.
  apply (vp_dict _ [([97]%N, VDict [([121]%N, VInt 2); ([120]%N, VInt 1)]); ([98]%N, VList [VInt 3])]).
  - constructor; [split; [reflexivity|]|constructor; [split; [reflexivity|apply vp_refl]|constructor]].
    apply (vp_dict _ [([120]%N, VInt 1); ([121]%N, VInt 2)]).
    + constructor; [split; [reflexivity|apply vp_refl]|constructor; [split; [reflexivity|apply vp_refl]|constructor]].
    + apply perm_swap.
    + cbn. constructor; [intros [E|[]]; discriminate E|constructor; [intros []|constructor]].
  - apply perm_swap.
  - cbn. constructor; [intros [E|[]]; discriminate E|constructor; [intros []|constructor]].
Qed.
