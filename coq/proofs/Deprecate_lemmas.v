(* Proofs about model/Deprecate.v (property C20, workspace repair). *)
From Coq Require Import ZArith List Bool Lia Permutation.
From XV Require Import model.Deprecate.
Import ListNotations.
Open Scope Z_scope.

(* ------------------------------------------------------------------ keys *)
Lemma key_eqb_eq : forall a b, key_eqb a b = true <-> a = b.
Proof.
  intros [m1 n1 i1] [m2 n2 i2]; unfold key_eqb; simpl.
  rewrite !andb_true_iff, !Z.eqb_eq. split.
  - intros [[-> ->] ->]; reflexivity.
  - intros H; inversion H; auto.
Qed.
Lemma key_eqb_refl : forall a, key_eqb a a = true.
Proof. intros; apply key_eqb_eq; reflexivity. Qed.
Lemma key_eqb_neq : forall a b, key_eqb a b = false <-> a <> b.
Proof.
  intros a b. split.
  - intros H E. apply key_eqb_eq in E. congruence.
  - intros H. destruct (key_eqb a b) eqn:E; [apply key_eqb_eq in E; contradiction | reflexivity].
Qed.
Lemma key_eqb_sym : forall a b, key_eqb a b = key_eqb b a.
Proof.
  intros. destruct (key_eqb a b) eqn:E.
  - apply key_eqb_eq in E; subst. symmetry; apply key_eqb_refl.
  - symmetry. apply key_eqb_neq. apply key_eqb_neq in E. congruence.
Qed.

(* ------------------------------------------------------------------ 1. job data is never deleted *)
Definition grows (d d' : data) : Prop := core d = core d' /\ incl (d_done d) (d_done d').

Lemma grows_refl : forall d, grows d d.
Proof. intros; split; [reflexivity | apply incl_refl]. Qed.
Lemma grows_trans : forall a b c, grows a b -> grows b c -> grows a c.
Proof. intros a b c [H1 H2] [H3 H4]; split; [congruence | eapply incl_tran; eauto]. Qed.

Lemma F2_grows_refl : forall l, Forall2 grows l l.
Proof. induction l; constructor; auto using grows_refl. Qed.
Lemma F2_grows_trans : forall a b c, Forall2 grows a b -> Forall2 grows b c -> Forall2 grows a c.
Proof.
  intros a b c H; revert c; induction H; intros c' H'; inversion H'; subst; constructor; eauto using grows_trans.
Qed.

Lemma dirs_unlink : forall k w, dirs (unlink k w) = dirs w.
Proof.
  intros k; induction w as [|[k' e] w IH]; simpl; [reflexivity|].
  destruct e as [d|t]; simpl.
  - rewrite andb_false_r; simpl. unfold dirs in *; simpl. f_equal; exact IH.
  - destruct (key_eqb k' k); simpl; exact IH.
Qed.
Lemma dirs_rename : forall k n w, dirs (rename k n w) = dirs w.
Proof.
  intros k n; induction w as [|[k' e] w IH]; simpl; [reflexivity|].
  unfold dirs in *; simpl. destruct (key_eqb k' k); simpl; rewrite IH; reflexivity.
Qed.
Lemma dirs_add_link : forall n k w, dirs (add_link n k w) = dirs w.
Proof. intros; unfold add_link, dirs; rewrite flat_map_app; simpl; apply app_nil_r. Qed.

Lemma alias_grows : forall a b d, grows d (alias a b d).
Proof.
  intros a b d; unfold alias. destruct (a =? b); [apply grows_refl|].
  destruct (memZ a (d_done d) && negb (memZ b (d_done d))); [|apply grows_refl].
  split; [reflexivity | simpl; apply incl_appl, incl_refl].
Qed.
Lemma dirs_update : forall k f w, (forall d, grows d (f d)) -> Forall2 grows (dirs w) (dirs (update_dir k f w)).
Proof.
  intros k f w Hf; induction w as [|[k' e] w IH]; simpl; [constructor|].
  destruct (key_eqb k' k).
  - destruct e; unfold dirs; simpl; [constructor; [apply Hf | apply F2_grows_refl] | apply F2_grows_refl].
  - destruct e; unfold dirs in *; simpl; [constructor; [apply grows_refl | exact IH] | exact IH].
Qed.

Lemma prepass_step_gen_dirs : forall keep w k, dirs (prepass_step_gen keep w k) = dirs w.
Proof. intros; unfold prepass_step_gen; destruct (_ && _); [apply dirs_unlink | reflexivity]. Qed.
Lemma prepass_step_dirs : forall w k, dirs (prepass_step w k) = dirs w.
Proof. intros; apply prepass_step_gen_dirs. Qed.
Lemma prepass0_dirs : forall o w, dirs (prepass0 w o) = dirs w.
Proof.
  unfold prepass0; induction o; intros; simpl; [reflexivity|]. rewrite IHo; apply prepass_step_gen_dirs.
Qed.
(* the first loop removes links only, and only yielded ones *)
Lemma prepass_step_cases : forall w x,
  prepass_step w x = w \/ (yielded w x = true /\ is_link w x = true /\ loadable w x = true /\ prepass_step w x = unlink x w).
Proof.
  intros w x. unfold prepass_step, prepass_step_gen. cbn [negb orb].
  destruct (yielded w x); cbn [andb]; [|left; reflexivity].
  destruct (is_link w x); cbn [andb]; [|left; reflexivity].
  destruct (loadable w x); [right; repeat split; reflexivity | left; reflexivity].
Qed.
Lemma prepass_dirs : forall o w, dirs (prepass w o) = dirs w.
Proof.
  unfold prepass; induction o; intros; simpl; [reflexivity|]. rewrite IHo; apply prepass_step_dirs.
Qed.

Lemma main_step_dirs : forall rep fx cl w k, Forall2 grows (dirs w) (dirs (main_step rep fx cl w k)).
Proof.
  intros; unfold main_step.
  destruct (negb (yielded w k)); [apply F2_grows_refl|].
  destruct (lookup k w) as [[d|t]|]; try apply F2_grows_refl.
  destruct (d_recomp d) as [n|]; [|apply F2_grows_refl].
  destruct (k_id n =? k_id k); [apply F2_grows_refl|].
  destruct (negb fx); [apply F2_grows_refl|].
  set (w1 := if is_link w n && negb (exists_ w n) then unlink n w else w).
  assert (H1 : dirs w1 = dirs w) by (unfold w1; destruct (_ && _); [apply dirs_unlink | reflexivity]).
  rewrite <- H1.
  destruct (resolve w1 n) as [[k' dn]|].
  - destruct (key_eqb k' k); [|apply F2_grows_refl].
    destruct rep; [apply dirs_update; intros; apply alias_grows | apply F2_grows_refl].
  - destruct cl.
    + destruct rep.
      * rewrite <- (dirs_rename k n w1) at 1. apply dirs_update; intros; apply alias_grows.
      * rewrite dirs_rename. apply F2_grows_refl.
    + destruct rep.
      * rewrite <- (dirs_add_link n k w1) at 1. apply dirs_update; intros; apply alias_grows.
      * rewrite dirs_add_link. apply F2_grows_refl.
Qed.
Lemma mainpass_dirs : forall rep fx cl o w, Forall2 grows (dirs w) (dirs (mainpass rep fx cl w o)).
Proof.
  unfold mainpass; intros rep fx cl; induction o; intros; simpl; [apply F2_grows_refl|].
  eapply F2_grows_trans; [apply main_step_dirs | apply IHo].
Qed.

(* fix_deprecated never deletes job data (either version, any flags, any order) *)
Theorem run_preserves : forall rep fx cl o1 o2 w, Forall2 grows (dirs w) (dirs (run rep fx cl o1 o2 w)).
Proof.
  intros; unfold run.
  destruct (cl && (negb rep || fx)).
  - destruct rep.
    + rewrite <- (prepass_dirs o1 w) at 1. apply mainpass_dirs.
    + rewrite <- (prepass0_dirs o1 w) at 1. apply mainpass_dirs.
  - apply mainpass_dirs.
Qed.

Lemma F2_grows_marks : forall a b, Forall2 grows a b -> map core a = map core b.
Proof. induction 1; simpl; [reflexivity|]. destruct H as [H _]. rewrite H, IHForall2; reflexivity. Qed.

Theorem fix_preserves_data : forall fx cl o1 o2 w,
  Permutation (map core (dirs (fix_ws fx cl o1 o2 w))) (map core (dirs w)) /\
  Forall2 (fun d d' => d_mark d = d_mark d' /\ incl (d_done d) (d_done d')) (dirs w) (dirs (fix_ws fx cl o1 o2 w)).
Proof.
  intros. pose proof (run_preserves true fx cl o1 o2 w) as H. split.
  - rewrite (F2_grows_marks _ _ H). apply Permutation_refl.
  - unfold fix_ws. induction H; constructor; auto.
    destruct H as [Hc Hi]; split; [|exact Hi]. unfold core in Hc; congruence.
Qed.

(* ------------------------------------------------------------------ lookups after the primitive operations *)
Definition wf (w : ws) : Prop := NoDup (map fst w).

Lemma lookup_none_iff : forall x w, lookup x w = None <-> ~ In x (map fst w).
Proof.
  intros x; induction w as [|[k' e] w IH]; simpl.
  - split; auto.
  - destruct (key_eqb k' x) eqn:E.
    + apply key_eqb_eq in E; subst. split; [discriminate | intros H; exfalso; apply H; auto].
    + apply key_eqb_neq in E. rewrite IH. split; intros H; [intros [H1|H1]; congruence | auto].
Qed.
Lemma lookup_in : forall x e w, lookup x w = Some e -> In (x, e) w.
Proof.
  intros x e; induction w as [|[k' e'] w IH]; simpl; [discriminate|].
  destruct (key_eqb k' x) eqn:E.
  - apply key_eqb_eq in E; subst. intros H; inversion H; auto.
  - auto.
Qed.

Lemma lookup_unlink_other : forall x n w, x <> n -> lookup x (unlink n w) = lookup x w.
Proof.
  intros x n w Hx; induction w as [|[k' e] w IH]; simpl; [reflexivity|].
  destruct (key_eqb k' n && is_link_entry e) eqn:E; simpl.
  - apply andb_true_iff in E; destruct E as [E _]. apply key_eqb_eq in E; subst.
    assert (key_eqb n x = false) by (apply key_eqb_neq; congruence). rewrite H. exact IH.
  - destruct (key_eqb k' x); [reflexivity | exact IH].
Qed.
Lemma lookup_unlink_dir : forall x d n w, lookup x w = Some (Dir d) -> lookup x (unlink n w) = Some (Dir d).
Proof.
  intros x d n; induction w as [|[k' e] w IH]; simpl; [discriminate|].
  destruct (key_eqb k' x) eqn:E.
  - intros H; inversion H; subst. simpl. rewrite andb_false_r; simpl. rewrite E; reflexivity.
  - intros H. destruct (key_eqb k' n && is_link_entry e); simpl; [auto | rewrite E; auto].
Qed.
Lemma unlink_keys_incl : forall n w x, In x (map fst (unlink n w)) -> In x (map fst w).
Proof.
  intros n w x; unfold unlink. rewrite !in_map_iff. intros [p [H1 H2]]. apply filter_In in H2. exists p; tauto.
Qed.
Lemma lookup_unlink_none : forall x n w, lookup x w = None -> lookup x (unlink n w) = None.
Proof. intros x n w; rewrite !lookup_none_iff. intros H H'; apply H; eapply unlink_keys_incl; eauto. Qed.
Lemma wf_unlink : forall n w, wf w -> wf (unlink n w).
Proof.
  intros n; unfold wf; induction w as [|[k' e] w IH]; simpl; intros H; [constructor|].
  inversion H; subst.
  destruct (key_eqb k' n && is_link_entry e); simpl; [auto|].
  constructor; [|auto]. intros H'; apply H2. eapply unlink_keys_incl; eauto.
Qed.
Lemma lookup_unlink_self : forall n w, wf w -> is_link w n = true -> lookup n (unlink n w) = None.
Proof.
  intros n; unfold wf, is_link; induction w as [|[k' e] w IH]; simpl; intros Hwf H; [discriminate|].
  inversion Hwf; subst.
  destruct (key_eqb k' n) eqn:E.
  - destruct e as [d|t]; [discriminate|]. simpl.
    apply key_eqb_eq in E; subst. apply lookup_unlink_none. apply lookup_none_iff; assumption.
  - simpl. rewrite E. auto.
Qed.
(* without wf: a link is never left at n *)
Lemma lookup_unlink_self_nolink : forall n w t, lookup n (unlink n w) <> Some (Link t).
Proof.
  intros n w t; induction w as [|[k' e] w IH]; simpl; [discriminate|].
  destruct (key_eqb k' n) eqn:E; simpl.
  - destruct e as [d|t']; simpl; [rewrite E; discriminate | exact IH].
  - rewrite E. exact IH.
Qed.

Lemma lookup_add_link : forall x n k w,
  lookup x (add_link n k w) = match lookup x w with Some e => Some e | None => if key_eqb n x then Some (Link k) else None end.
Proof.
  intros x n k; unfold add_link; induction w as [|[k' e] w IH]; simpl; [reflexivity|].
  destruct (key_eqb k' x); [reflexivity | exact IH].
Qed.
Lemma wf_add_link : forall n k w, wf w -> lookup n w = None -> wf (add_link n k w).
Proof.
  unfold wf, add_link; intros n k w H Hn. rewrite map_app; simpl.
  apply Permutation_NoDup with (l := n :: map fst w).
  - apply Permutation_cons_append.
  - constructor; [apply lookup_none_iff; exact Hn | exact H].
Qed.

Lemma lookup_rename_other : forall x k n w, x <> k -> x <> n -> lookup x (rename k n w) = lookup x w.
Proof.
  intros x k n w Hk Hn; induction w as [|[k' e] w IH]; simpl; [reflexivity|].
  destruct (key_eqb k' k) eqn:E; simpl.
  - apply key_eqb_eq in E; subst.
    assert (key_eqb n x = false) by (apply key_eqb_neq; congruence).
    assert (key_eqb k x = false) by (apply key_eqb_neq; congruence). rewrite H, H0. exact IH.
  - destruct (key_eqb k' x); [reflexivity | exact IH].
Qed.
Lemma rename_keys : forall k n w x, In x (map fst (rename k n w)) -> x = n \/ (x <> k /\ In x (map fst w)).
Proof.
  intros k n; induction w as [|[k' e] w IH]; simpl; intros x H; [contradiction|].
  destruct (key_eqb k' k) eqn:E; simpl in H.
  - destruct H as [H|H]; [left; congruence|]. destruct (IH _ H) as [H1|[H1 H2]]; auto.
  - apply key_eqb_neq in E. destruct H as [H|H]; [right; subst; auto|].
    destruct (IH _ H) as [H1|[H1 H2]]; auto.
Qed.
Lemma lookup_rename_src : forall k n w, k <> n -> lookup k (rename k n w) = None.
Proof.
  intros k n w H. apply lookup_none_iff. intros H'. apply rename_keys in H'. destruct H' as [H1|[H1 _]]; congruence.
Qed.
Lemma lookup_rename_dst : forall k n w, lookup n w = None -> lookup n (rename k n w) = lookup k w.
Proof.
  intros k n; induction w as [|[k' e] w IH]; simpl; [reflexivity|].
  destruct (key_eqb k' n) eqn:En; [discriminate|]. intros H.
  destruct (key_eqb k' k) eqn:E; simpl.
  - rewrite key_eqb_refl. reflexivity.
  - rewrite En. auto.
Qed.
Lemma rename_absent : forall k n w, ~ In k (map fst w) -> rename k n w = w.
Proof.
  intros k n; induction w as [|[k' e] w IH]; simpl; intros H; [reflexivity|].
  destruct (key_eqb k' k) eqn:E.
  - apply key_eqb_eq in E; subst. exfalso; apply H; auto.
  - rewrite IH; auto.
Qed.
Lemma wf_rename : forall k n w, wf w -> lookup n w = None -> wf (rename k n w).
Proof.
  intros k n; unfold wf; induction w as [|[k' e] w IH]; simpl; intros H Hn; [constructor|].
  inversion H; subst. destruct (key_eqb k' n) eqn:En; [discriminate|]. apply key_eqb_neq in En.
  destruct (key_eqb k' k) eqn:E; simpl.
  - apply key_eqb_eq in E; subst. rewrite rename_absent by assumption.
    constructor; [apply lookup_none_iff; exact Hn | assumption].
  - constructor; [|auto]. intros H'. apply rename_keys in H'. destruct H' as [H1|[H1 H4]]; [congruence | contradiction].
Qed.

Lemma lookup_update_dir : forall x k f w,
  lookup x (update_dir k f w) =
  if key_eqb k x then match lookup x w with Some (Dir d) => Some (Dir (f d)) | o => o end else lookup x w.
Proof.
  intros x k f; induction w as [|[k' e] w IH]; simpl; [destruct (key_eqb k x); reflexivity|].
  destruct (key_eqb k' k) eqn:E; simpl.
  - apply key_eqb_eq in E; subst. destruct (key_eqb k x) eqn:E2; [destruct e; reflexivity | reflexivity].
  - destruct (key_eqb k' x) eqn:E2.
    + destruct (key_eqb k x) eqn:E3; [|reflexivity].
      apply key_eqb_eq in E2, E3; subst. rewrite key_eqb_refl in E; discriminate.
    + exact IH.
Qed.
Lemma update_dir_keys : forall k f w, map fst (update_dir k f w) = map fst w.
Proof.
  intros k f; induction w as [|[k' e] w IH]; simpl; [reflexivity|].
  destruct (key_eqb k' k); simpl; [reflexivity | rewrite IH; reflexivity].
Qed.
Lemma wf_update_dir : forall k f w, wf w -> wf (update_dir k f w).
Proof. unfold wf; intros; rewrite update_dir_keys; assumption. Qed.
Lemma update_dir_id : forall k f w d, lookup k w = Some (Dir d) -> f d = d -> update_dir k f w = w.
Proof.
  intros k f w d; induction w as [|[k' e] w IH]; simpl; [discriminate|].
  destruct (key_eqb k' k); intros H Hf.
  - inversion H; subst. rewrite Hf; reflexivity.
  - rewrite IH; auto.
Qed.

(* ------------------------------------------------------------------ following links *)
Lemma resolve_f_mono : forall f f' w x r, resolve_f f w x = Some r -> (f <= f')%nat -> resolve_f f' w x = Some r.
Proof.
  induction f; intros f' w x r H Hle; simpl in H; [discriminate|].
  destruct f'; [lia|]. simpl.
  destruct (lookup x w) as [[d|t]|]; auto. apply IHf with (f' := f') in H; [exact H | lia].
Qed.
Lemma resolve_f_dir : forall f w x kx dx, resolve_f f w x = Some (kx, dx) -> lookup kx w = Some (Dir dx).
Proof.
  induction f; intros w x kx dx H; simpl in H; [discriminate|].
  destruct (lookup x w) as [[d|t]|] eqn:E; [inversion H; subst; exact E | eauto | discriminate].
Qed.
Lemma resolve_dir : forall w x d, lookup x w = Some (Dir d) -> resolve w x = Some (x, d).
Proof. intros w x d H; unfold resolve, maxhops; simpl; rewrite H; reflexivity. Qed.
Lemma resolve_link : forall w x t d, lookup x w = Some (Link t) -> lookup t w = Some (Dir d) -> resolve w x = Some (t, d).
Proof. intros w x t d H1 H2; unfold resolve, maxhops; simpl; rewrite H1, H2; reflexivity. Qed.
Lemma resolve_none : forall w x, lookup x w = None -> resolve w x = None.
Proof. intros w x H; unfold resolve, maxhops; simpl; rewrite H; reflexivity. Qed.

(* resolutions are preserved (up to the growth of the directory content) *)
Definition rpres (w w' : ws) : Prop :=
  forall f x kx dx, (f <= maxhops)%nat -> resolve_f f w x = Some (kx, dx) ->
    exists dx', resolve_f f w' x = Some (kx, dx') /\ grows dx dx'.
Lemma rpres_refl : forall w, rpres w w.
Proof. intros w f x kx dx _ H; exists dx; split; [exact H | apply grows_refl]. Qed.
Lemma rpres_trans : forall a b c, rpres a b -> rpres b c -> rpres a c.
Proof.
  intros a b c H1 H2 f x kx dx Hf H. destruct (H1 _ _ _ _ Hf H) as [d1 [H3 H4]].
  destruct (H2 _ _ _ _ Hf H3) as [d2 [H5 H6]]. exists d2; split; [exact H5 | eapply grows_trans; eauto].
Qed.

Lemma rpres_unlink : forall w n, is_link w n = true -> exists_ w n = false -> rpres w (unlink n w).
Proof.
  intros w n Hl He f; induction f; intros x kx dx Hf H; simpl in H; [discriminate|].
  destruct (key_eqb x n) eqn:E.
  - apply key_eqb_eq in E; subst. exfalso.
    assert (H' : resolve_f (S f) w n = Some (kx, dx)) by exact H.
    apply resolve_f_mono with (f' := maxhops) in H'; [|exact Hf].
    unfold exists_, resolve in He. rewrite H' in He. discriminate.
  - apply key_eqb_neq in E. simpl. rewrite lookup_unlink_other by exact E.
    destruct (lookup x w) as [[d|t]|]; [inversion H; subst; exists dx; split; [reflexivity | apply grows_refl] | | discriminate].
    apply IHf; [lia | exact H].
Qed.
Lemma rpres_add_link : forall w n k, lookup n w = None -> rpres w (add_link n k w).
Proof.
  intros w n k Hn f; induction f; intros x kx dx Hf H; simpl in H; [discriminate|].
  simpl. rewrite lookup_add_link.
  destruct (lookup x w) as [[d|t]|]; [inversion H; subst; exists dx; split; [reflexivity | apply grows_refl] | | discriminate].
  apply IHf; [lia | exact H].
Qed.
Lemma rpres_update_dir : forall w k g, (forall d, grows d (g d)) -> rpres w (update_dir k g w).
Proof.
  intros w k g Hg f; induction f; intros x kx dx Hf H; simpl in H; [discriminate|].
  simpl. rewrite lookup_update_dir.
  destruct (lookup x w) as [[d|t]|]; [| |discriminate].
  - inversion H; subst. destruct (key_eqb k kx); [exists (g dx); split; [reflexivity | apply Hg] | exists dx; split; [reflexivity | apply grows_refl]].
  - destruct (key_eqb k x); apply IHf; try lia; exact H.
Qed.

(* ------------------------------------------------------------------ one iteration of the main loop, analysed *)
Definition active (w : ws) (k : key) (d : data) (n : key) : Prop :=
  lookup k w = Some (Dir d) /\ d_params d = true /\ d_recomp d = Some n /\ k_id n <> k_id k.

Definition pre (w : ws) (n : key) : ws := if is_link w n && negb (exists_ w n) then unlink n w else w.

Definition act (rep cl : bool) (w : ws) (k n : key) : ws :=
  let w1 := pre w n in
  match resolve w1 n with
  | Some (k', _) => if key_eqb k' k then (if rep then update_dir k (alias (k_name k) (k_name n)) w1 else w1) else w1
  | None => if cl then let w2 := rename k n w1 in if rep then update_dir n (alias (k_name k) (k_name n)) w2 else w2
            else let w2 := add_link n k w1 in if rep then update_dir k (alias (k_name k) (k_name n)) w2 else w2
  end.

Lemma yielded_dir : forall w k d, lookup k w = Some (Dir d) -> yielded w k = d_params d.
Proof. intros w k d H; unfold yielded. rewrite (resolve_dir _ _ _ H). reflexivity. Qed.

Lemma step_active : forall rep cl w k d n, active w k d n -> main_step rep true cl w k = act rep cl w k n.
Proof.
  intros rep cl w k d n (H1 & H2 & H3 & H4). unfold main_step, act, pre.
  rewrite (yielded_dir _ _ _ H1), H2, H1, H3. simpl.
  destruct (k_id n =? k_id k) eqn:E; [apply Z.eqb_eq in E; contradiction | reflexivity].
Qed.
Lemma step_inactive : forall rep fx cl w k, (forall d n, ~ active w k d n) -> main_step rep fx cl w k = w.
Proof.
  intros rep fx cl w k H. unfold main_step.
  destruct (yielded w k) eqn:Y; simpl; [|reflexivity].
  destruct (lookup k w) as [[d|t]|] eqn:L; try reflexivity.
  destruct (d_recomp d) as [n|] eqn:R; [|reflexivity].
  destruct (k_id n =? k_id k) eqn:E; [reflexivity|].
  exfalso. apply (H d n). rewrite (yielded_dir _ _ _ L) in Y. apply Z.eqb_neq in E. repeat split; assumption.
Qed.
Lemma step_nofix : forall rep cl w k, main_step rep false cl w k = w.
Proof.
  intros; unfold main_step. destruct (negb (yielded w k)); [reflexivity|].
  destruct (lookup k w) as [[d|t]|]; try reflexivity. destruct (d_recomp d); [|reflexivity].
  destruct (k_id k0 =? k_id k); reflexivity.
Qed.
Lemma active_dec : forall w k, (exists d n, active w k d n) \/ (forall d n, ~ active w k d n).
Proof.
  intros w k. unfold active.
  destruct (lookup k w) as [[d|t]|] eqn:L; [| right; intros d n (H & _); discriminate | right; intros d n (H & _); discriminate].
  destruct (d_params d) eqn:P; [| right; intros d' n (H & H2 & _); inversion H; subst; congruence].
  destruct (d_recomp d) as [n|] eqn:R; [| right; intros d' n (H & _ & H3 & _); inversion H; subst; congruence].
  destruct (Z.eq_dec (k_id n) (k_id k)) as [E|E].
  - right; intros d' n' (H & _ & H3 & H4); inversion H; subst. rewrite R in H3; inversion H3; subst. contradiction.
  - left; exists d, n; auto.
Qed.
Lemma active_fun : forall w k d n d' n', active w k d n -> active w k d' n' -> d = d' /\ n = n'.
Proof. intros w k d n d' n' (H1 & _ & H3 & _) (H1' & _ & H3' & _). rewrite H1 in H1'; inversion H1'; subst. rewrite H3 in H3'; inversion H3'; auto. Qed.

Lemma pre_cases : forall w n, pre w n = w \/ (is_link w n = true /\ exists_ w n = false /\ pre w n = unlink n w).
Proof.
  intros; unfold pre. destruct (is_link w n) eqn:A; simpl; [|left; reflexivity].
  destruct (exists_ w n) eqn:B; simpl; [left; reflexivity | right; auto].
Qed.
Lemma rpres_pre : forall w n, rpres w (pre w n).
Proof. intros w n; destruct (pre_cases w n) as [H|(A & B & H)]; rewrite H; [apply rpres_refl | apply rpres_unlink; assumption]. Qed.
Lemma wf_pre : forall w n, wf w -> wf (pre w n).
Proof. intros w n Hw; destruct (pre_cases w n) as [H|(A & B & H)]; rewrite H; [assumption | apply wf_unlink; assumption]. Qed.
Lemma pre_dir : forall w n x d, lookup x w = Some (Dir d) -> lookup x (pre w n) = Some (Dir d).
Proof. intros w n x d Hx; destruct (pre_cases w n) as [H|(A & B & H)]; rewrite H; [assumption | apply lookup_unlink_dir; assumption]. Qed.
Lemma pre_other : forall w n x, x <> n -> lookup x (pre w n) = lookup x w.
Proof. intros w n x Hx; destruct (pre_cases w n) as [H|(A & B & H)]; rewrite H; [reflexivity | apply lookup_unlink_other; assumption]. Qed.
(* when the new path does not exist after the dangling link was removed, nothing is there *)
Lemma pre_none : forall w n, resolve (pre w n) n = None -> lookup n (pre w n) = None.
Proof.
  intros w n H. destruct (lookup n (pre w n)) as [[d|t]|] eqn:L; [| |reflexivity].
  - rewrite (resolve_dir _ _ _ L) in H; discriminate.
  - exfalso. destruct (pre_cases w n) as [E|(A & B & E)]; rewrite E in *.
    + unfold pre in E. unfold is_link in E. rewrite L in E. unfold exists_ in E. rewrite H in E. simpl in E.
      assert (X : lookup n (unlink n w) = Some (Link t)) by (rewrite E; exact L).
      exact (lookup_unlink_self_nolink _ _ _ X).
    + exact (lookup_unlink_self_nolink _ _ _ L).
Qed.
(* reverse: a directory seen after `pre` was there before (needs wf: no shadowed entries) *)
Lemma pre_dir_rev : forall w n x d, wf w -> lookup x (pre w n) = Some (Dir d) -> lookup x w = Some (Dir d).
Proof.
  intros w n x d Hw Hx; destruct (pre_cases w n) as [H|(A & B & H)]; rewrite H in Hx; [assumption|].
  destruct (key_eqb x n) eqn:E.
  - apply key_eqb_eq in E; subst. rewrite lookup_unlink_self in Hx by assumption. discriminate.
  - apply key_eqb_neq in E. rewrite lookup_unlink_other in Hx by assumption. exact Hx.
Qed.

Lemma memZ_last : forall b l, memZ b (l ++ [b]) = true.
Proof. intros b; induction l; simpl; [rewrite Z.eqb_refl; reflexivity | rewrite IHl; apply orb_true_r]. Qed.
Lemma alias_idem : forall a b d, alias a b (alias a b d) = alias a b d.
Proof.
  intros a b d. unfold alias. destruct (a =? b) eqn:E; [reflexivity|].
  destruct (memZ a (d_done d) && negb (memZ b (d_done d))) eqn:M; simpl.
  - rewrite memZ_last. rewrite andb_false_r. reflexivity.
  - rewrite M. reflexivity.
Qed.
Lemma alias_core : forall a b d, core (alias a b d) = core d.
Proof. intros a b d. destruct (alias_grows a b d) as [H _]. symmetry; exact H. Qed.
Lemma memZ_in : forall x l, memZ x l = true <-> In x l.
Proof.
  intros x; induction l; simpl; [split; [discriminate | contradiction]|].
  rewrite orb_true_iff, Z.eqb_eq, IHl. split; intros [H|H]; auto.
Qed.
Lemma alias_done : forall a b d, In a (d_done d) -> In b (d_done (alias a b d)).
Proof.
  intros a b d H; unfold alias. destruct (a =? b) eqn:E; [apply Z.eqb_eq in E; subst; exact H|].
  apply memZ_in in H. rewrite H; simpl.
  destruct (memZ b (d_done d)) eqn:M; simpl; [apply memZ_in; exact M | apply in_or_app; right; simpl; auto].
Qed.

(* stability of resolutions in link mode (cleanup = false) *)
Lemma rpres_act_link : forall rep w k n, rpres w (act rep false w k n).
Proof.
  intros rep w k n. unfold act.
  pose proof (rpres_pre w n) as H1. pose proof (pre_none w n) as Hn. set (w1 := pre w n) in *.
  destruct (resolve w1 n) as [[k' dn]|].
  - destruct (key_eqb k' k); [|exact H1]. destruct rep; [|exact H1].
    eapply rpres_trans; [exact H1 | apply rpres_update_dir; intros; apply alias_grows].
  - assert (H2 : rpres w (add_link n k w1)) by (eapply rpres_trans; [exact H1 | apply rpres_add_link; auto]).
    destruct rep; [|exact H2]. eapply rpres_trans; [exact H2 | apply rpres_update_dir; intros; apply alias_grows].
Qed.
Lemma rpres_step_link : forall rep w k, rpres w (main_step rep true false w k).
Proof.
  intros rep w k. destruct (active_dec w k) as [(d & n & H)|H].
  - rewrite (step_active _ _ _ _ _ _ H). apply rpres_act_link.
  - rewrite step_inactive by exact H. apply rpres_refl.
Qed.
Lemma rpres_mainpass_link : forall rep o w, rpres w (mainpass rep true false w o).
Proof.
  intros rep; unfold mainpass; induction o; intros w; simpl; [apply rpres_refl|].
  eapply rpres_trans; [apply rpres_step_link | apply IHo].
Qed.

(* link mode: whatever a path led to, it still leads to after the repair; in particular a new path
   occupied by different data is left as it is *)
Theorem fix_link_untouched : forall o1 o2 w x kx dx,
  resolve w x = Some (kx, dx) ->
  exists dx', resolve (fix_ws true false o1 o2 w) x = Some (kx, dx') /\ core dx' = core dx /\ incl (d_done dx) (d_done dx').
Proof.
  intros o1 o2 w x kx dx H. unfold fix_ws, run; simpl.
  destruct (rpres_mainpass_link true o2 w maxhops x kx dx (le_n _) H) as [dx' [H1 [H2 H3]]].
  exists dx'; auto.
Qed.

(* ------------------------------------------------------------------ 3. link mode: a second repair changes nothing *)
Definition ok (rep : bool) (w : ws) (k : key) : Prop :=
  forall d n, active w k d n ->
    exists k' dn, resolve w n = Some (k', dn) /\ (rep = true -> k' = k -> alias (k_name k) (k_name n) d = d).

Lemma pre_exists : forall w n, exists_ w n = true -> pre w n = w.
Proof. intros w n H; unfold pre; rewrite H; simpl; rewrite andb_false_r; reflexivity. Qed.

Lemma ok_step_id : forall rep cl w k, ok rep w k -> main_step rep true cl w k = w.
Proof.
  intros rep cl w k Hok. destruct (active_dec w k) as [(d & n & H)|H]; [|apply step_inactive; exact H].
  rewrite (step_active _ _ _ _ _ _ H). destruct (Hok d n H) as (k' & dn & R & A).
  unfold act. rewrite pre_exists by (unfold exists_; rewrite R; reflexivity). rewrite R.
  destruct (key_eqb k' k) eqn:E; [|reflexivity]. apply key_eqb_eq in E.
  destruct rep; [|reflexivity]. destruct H as (L & _). eapply update_dir_id; eauto.
Qed.

Lemma act_link_k : forall rep w k d n, active w k d n ->
  let w' := act rep false w k n in
  exists d', lookup k w' = Some (Dir d') /\ core d' = core d /\
    exists k' dn, resolve w' n = Some (k', dn) /\ (rep = true -> k' = k -> alias (k_name k) (k_name n) d' = d').
Proof.
  intros rep w k d n (L & P & R & I). unfold act.
  pose proof (pre_dir w n k d L) as L1. pose proof (pre_none w n) as Hn. set (w1 := pre w n) in *.
  destruct (resolve w1 n) as [[k' dn]|] eqn:RS.
  - destruct (key_eqb k' k) eqn:E.
    + apply key_eqb_eq in E; subst k'. destruct rep.
      * exists (alias (k_name k) (k_name n) d). rewrite lookup_update_dir, key_eqb_refl, L1.
        split; [reflexivity|]. split; [apply alias_core|].
        destruct (rpres_update_dir w1 k (alias (k_name k) (k_name n)) (fun d => alias_grows _ _ d) maxhops n k dn (le_n _) RS) as [dx' [H1 _]].
        exists k, dx'. split; [exact H1|]. intros _ _. apply alias_idem.
      * exists d. split; [exact L1|]. split; [reflexivity|]. exists k, dn. split; [exact RS | discriminate].
    + exists d. split; [exact L1|]. split; [reflexivity|]. exists k', dn. split; [exact RS|].
      intros _ H. subst. rewrite key_eqb_refl in E. discriminate.
  - specialize (Hn eq_refl).
    assert (Hkn : key_eqb n k = false).
    { apply key_eqb_neq. intros ->. rewrite L1 in Hn. discriminate. }
    assert (L2 : lookup k (add_link n k w1) = Some (Dir d)) by (rewrite lookup_add_link, L1; reflexivity).
    assert (N2 : lookup n (add_link n k w1) = Some (Link k)) by (rewrite lookup_add_link, Hn, key_eqb_refl; reflexivity).
    destruct rep.
    + exists (alias (k_name k) (k_name n) d). rewrite lookup_update_dir, key_eqb_refl, L2.
      split; [reflexivity|]. split; [apply alias_core|].
      exists k, (alias (k_name k) (k_name n) d). split; [|intros _ _; apply alias_idem].
      apply resolve_link.
      * rewrite lookup_update_dir. rewrite key_eqb_sym, Hkn. exact N2.
      * rewrite lookup_update_dir, key_eqb_refl, L2. reflexivity.
    + exists d. split; [exact L2|]. split; [reflexivity|]. exists k, d. split; [|discriminate].
      apply resolve_link; assumption.
Qed.

Lemma step_makes_ok : forall rep w k, ok rep (main_step rep true false w k) k.
Proof.
  intros rep w k. destruct (active_dec w k) as [(d & n & H)|H].
  - rewrite (step_active _ _ _ _ _ _ H).
    destruct (act_link_k rep w k d n H) as (d' & L' & C' & k' & dn & R' & A').
    intros d2 n2 (L2 & P2 & R2 & I2). rewrite L' in L2; inversion L2; subst d2.
    assert (n2 = n). { destruct H as (_ & _ & R & _). unfold core in C'. inversion C'. rewrite H2 in R2. rewrite R in R2. inversion R2; reflexivity. }
    subst n2. exists k', dn. auto.
  - rewrite step_inactive by exact H. intros d n Ha. exfalso; exact (H d n Ha).
Qed.

Lemma act_link_dir_rev : forall rep w k n x dx, wf w -> x <> k ->
  lookup x (act rep false w k n) = Some (Dir dx) -> lookup x w = Some (Dir dx).
Proof.
  intros rep w k n x dx Hw Hx. unfold act. pose proof (pre_dir_rev w n x dx Hw) as P. set (w1 := pre w n) in *.
  assert (Hk : key_eqb k x = false) by (apply key_eqb_neq; congruence).
  assert (A : lookup x (add_link n k w1) = Some (Dir dx) -> lookup x w = Some (Dir dx)).
  { rewrite lookup_add_link. destruct (lookup x w1) as [e|] eqn:L; [intros H; apply P; exact H|].
    destruct (key_eqb n x); discriminate. }
  destruct (resolve w1 n) as [[k' dn]|].
  - destruct (key_eqb k' k); [|exact P]. destruct rep; [|exact P]. rewrite lookup_update_dir, Hk. exact P.
  - destruct rep; [|exact A]. rewrite lookup_update_dir, Hk. exact A.
Qed.
Lemma wf_act_link : forall rep w k n, wf w -> wf (act rep false w k n).
Proof.
  intros rep w k n Hw. unfold act. pose proof (wf_pre w n Hw) as W1. pose proof (pre_none w n) as Hn. set (w1 := pre w n) in *.
  destruct (resolve w1 n) as [[k' dn]|].
  - destruct (key_eqb k' k); [|exact W1]. destruct rep; [apply wf_update_dir|]; exact W1.
  - assert (W2 : wf (add_link n k w1)) by (apply wf_add_link; auto).
    destruct rep; [apply wf_update_dir|]; exact W2.
Qed.
Lemma wf_step_link : forall rep w k, wf w -> wf (main_step rep true false w k).
Proof.
  intros rep w k Hw. destruct (active_dec w k) as [(d & n & H)|H].
  - rewrite (step_active _ _ _ _ _ _ H). apply wf_act_link; exact Hw.
  - rewrite step_inactive by exact H. exact Hw.
Qed.
Lemma step_link_dir_rev : forall rep w k x dx, wf w ->
  lookup x (main_step rep true false w k) = Some (Dir dx) ->
  (x <> k /\ lookup x w = Some (Dir dx)) \/ (x = k /\ exists d, lookup k w = Some (Dir d)).
Proof.
  intros rep w k x dx Hw. destruct (active_dec w k) as [(d & n & H)|H].
  - rewrite (step_active _ _ _ _ _ _ H). intros L.
    destruct (key_eqb x k) eqn:E.
    + apply key_eqb_eq in E; subst. right. split; [reflexivity|]. destruct H as (H & _). eauto.
    + apply key_eqb_neq in E. left. split; [exact E|]. eapply act_link_dir_rev; eauto.
  - rewrite step_inactive by exact H. intros L.
    destruct (key_eqb x k) eqn:E.
    + apply key_eqb_eq in E; subst. right; eauto.
    + apply key_eqb_neq in E. left; auto.
Qed.

Lemma step_keeps_ok : forall rep w k k2, wf w -> ok rep w k -> ok rep (main_step rep true false w k2) k.
Proof.
  intros rep w k k2 Hw Hok. destruct (key_eqb k k2) eqn:E.
  - apply key_eqb_eq in E; subst. apply step_makes_ok.
  - apply key_eqb_neq in E. intros d n (L & P & R & I).
    destruct (step_link_dir_rev _ _ _ _ _ Hw L) as [[_ L0]|[X _]]; [|contradiction].
    destruct (Hok d n (conj L0 (conj P (conj R I)))) as (k' & dn & RS & A).
    destruct (rpres_step_link rep w k2 maxhops n k' dn (le_n _) RS) as [dn' [H1 _]].
    exists k', dn'. split; [exact H1 | exact A].
Qed.
Lemma pass_keeps_ok : forall rep o w k, wf w -> ok rep w k -> ok rep (mainpass rep true false w o) k.
Proof.
  intros rep; unfold mainpass; induction o; intros w k Hw Hok; simpl; [exact Hok|].
  apply IHo; [apply wf_step_link; exact Hw | apply step_keeps_ok; assumption].
Qed.
Lemma pass_makes_ok : forall rep o w k, wf w -> In k o -> ok rep (mainpass rep true false w o) k.
Proof.
  intros rep; induction o; intros w k Hw Hin; [contradiction|].
  destruct Hin as [->|Hin].
  - change (mainpass rep true false w (k :: o)) with (mainpass rep true false (main_step rep true false w k) o).
    apply pass_keeps_ok; [apply wf_step_link; exact Hw | apply step_makes_ok].
  - change (mainpass rep true false w (a :: o)) with (mainpass rep true false (main_step rep true false w a) o).
    apply IHo; [apply wf_step_link; exact Hw | exact Hin].
Qed.
Lemma pass_link_dir_rev : forall rep o w x dx, wf w ->
  lookup x (mainpass rep true false w o) = Some (Dir dx) -> exists d, lookup x w = Some (Dir d).
Proof.
  intros rep; unfold mainpass; induction o; intros w x dx Hw; simpl; [eauto|].
  intros L. destruct (IHo _ _ _ (wf_step_link rep w a Hw) L) as [d L1].
  destruct (step_link_dir_rev _ _ _ _ _ Hw L1) as [[_ H]|[-> H]]; eauto.
Qed.
Lemma wf_mainpass_link : forall rep o w, wf w -> wf (mainpass rep true false w o).
Proof. intros rep; unfold mainpass; induction o; intros w Hw; simpl; [exact Hw | apply IHo, wf_step_link, Hw]. Qed.

(* every directory of w is examined by the loop *)
Definition covers (w : ws) (o : list key) : Prop := forall k d, lookup k w = Some (Dir d) -> In k o.

Lemma all_ok_pass_id : forall rep cl o w, (forall k, ok rep w k) -> mainpass rep true cl w o = w.
Proof.
  intros rep cl; unfold mainpass; induction o; intros w H; simpl; [reflexivity|].
  rewrite ok_step_id by apply H. apply IHo; exact H.
Qed.

Theorem link_pass_idempotent : forall rep w o o', wf w -> covers w o ->
  mainpass rep true false (mainpass rep true false w o) o' = mainpass rep true false w o.
Proof.
  intros rep w o o' Hw Hc. apply all_ok_pass_id. intros k d n Ha.
  destruct Ha as (L & P & R & I).
  destruct (pass_link_dir_rev _ _ _ _ _ Hw L) as [d0 L0].
  exact (pass_makes_ok rep o w k Hw (Hc _ _ L0) d n (conj L (conj P (conj R I)))).
Qed.

Theorem fix_idempotent : forall w o1 o2 o1' o2', wf w -> covers w o2 ->
  fix_ws true false o1' o2' (fix_ws true false o1 o2 w) = fix_ws true false o1 o2 w.
Proof. intros; unfold fix_ws, run; simpl. apply link_pass_idempotent; assumption. Qed.

(* link mode: after the repair the new path of every examined directory exists *)
Theorem fix_link_total : forall w o1 o2 k d n, wf w -> In k o2 -> active w k d n ->
  exists_ (fix_ws true false o1 o2 w) n = true.
Proof.
  intros w o1 o2 k d n Hw Hin (L & P & R & I). unfold fix_ws, run; simpl.
  destruct (rpres_mainpass_link true o2 w 1%nat k k d) as [d' [L' [C' _]]]; [unfold maxhops; lia | simpl; rewrite L; reflexivity |].
  simpl in L'. destruct (lookup k (mainpass true true false w o2)) as [[dd|t]|] eqn:LL; try discriminate.
  inversion L'; subst dd. unfold core in C'. inversion C'.
  assert (A : active (mainpass true true false w o2) k d' n) by (repeat split; congruence).
  destruct (pass_makes_ok true o2 w k Hw Hin d' n A) as (k' & dn & RS & _).
  unfold exists_. rewrite RS. reflexivity.
Qed.

(* ------------------------------------------------------------------ frame lemmas for one active iteration (any mode) *)
Lemma lookup_update_link : forall x k f w t, lookup x w = Some (Link t) -> lookup x (update_dir k f w) = Some (Link t).
Proof. intros x k f w t H. rewrite lookup_update_dir, H. destruct (key_eqb k x); reflexivity. Qed.
Lemma lookup_update_none : forall x k f w, lookup x w = None -> lookup x (update_dir k f w) = None.
Proof. intros x k f w H. rewrite lookup_update_dir, H. destruct (key_eqb k x); reflexivity. Qed.
Lemma lookup_update_other : forall x k f w, x <> k -> lookup x (update_dir k f w) = lookup x w.
Proof. intros x k f w H. rewrite lookup_update_dir. assert (key_eqb k x = false) by (apply key_eqb_neq; congruence). rewrite H0; reflexivity. Qed.

Section Frame.
Variables (rep cl : bool) (w : ws) (k2 : key) (d2 : data) (n2 : key).
Hypothesis A2 : active w k2 d2 n2.

Let w1 := pre w n2.
Let L2 : lookup k2 w1 = Some (Dir d2).
Proof. destruct A2 as (L & _). apply pre_dir; exact L. Qed.
Let K2 : k2 <> n2.
Proof. destruct A2 as (_ & _ & _ & I). intros E; subst; apply I; reflexivity. Qed.

Lemma frame_dir : forall x dx, lookup x w = Some (Dir dx) -> x <> k2 -> lookup x (act rep cl w k2 n2) = Some (Dir dx).
Proof.
  intros x dx Lx Hx. unfold act. fold w1. pose proof (pre_dir w n2 x dx Lx) as L1. fold w1 in L1.
  pose proof (pre_none w n2) as Hn. fold w1 in Hn.
  destruct (resolve w1 n2) as [[k' dn]|].
  - destruct (key_eqb k' k2); [|exact L1]. destruct rep; [|exact L1]. rewrite lookup_update_other; assumption.
  - specialize (Hn eq_refl). assert (Hxn : x <> n2) by (intros E; subst; rewrite L1 in Hn; discriminate).
    destruct cl.
    + assert (X : lookup x (rename k2 n2 w1) = Some (Dir dx)) by (rewrite lookup_rename_other; assumption).
      destruct rep; [|exact X]. rewrite lookup_update_other; assumption.
    + assert (X : lookup x (add_link n2 k2 w1) = Some (Dir dx)) by (rewrite lookup_add_link, L1; reflexivity).
      destruct rep; [|exact X]. rewrite lookup_update_other; assumption.
Qed.

Lemma frame_link : forall x t, lookup x w = Some (Link t) -> exists_ w x = true -> lookup x (act rep cl w k2 n2) = Some (Link t).
Proof.
  intros x t Lx Ex. unfold act. fold w1.
  assert (L1 : lookup x w1 = Some (Link t)).
  { unfold w1. destruct (pre_cases w n2) as [E|(Hl & He & E)]; rewrite E; [exact Lx|].
    rewrite lookup_unlink_other; [exact Lx|]. intros ->. congruence. }
  assert (E1 : exists_ w1 x = true).
  { unfold exists_ in *. destruct (resolve w x) as [[kx dx]|] eqn:R; [|discriminate].
    destruct (rpres_pre w n2 maxhops x kx dx (le_n _) R) as [dx' [R' _]]. fold w1 in R'. unfold resolve. rewrite R'. reflexivity. }
  pose proof (pre_none w n2) as Hn. fold w1 in Hn.
  destruct (resolve w1 n2) as [[k' dn]|] eqn:RS.
  - destruct (key_eqb k' k2); [|exact L1]. destruct rep; [|exact L1]. apply lookup_update_link; exact L1.
  - specialize (Hn eq_refl).
    assert (Hxn : x <> n2) by (intros E; subst; unfold exists_ in E1; rewrite RS in E1; discriminate).
    assert (Hxk : x <> k2) by (intros E; subst; rewrite L2 in L1; discriminate).
    destruct cl.
    + assert (X : lookup x (rename k2 n2 w1) = Some (Link t)) by (rewrite lookup_rename_other; assumption).
      destruct rep; [|exact X]. apply lookup_update_link; exact X.
    + assert (X : lookup x (add_link n2 k2 w1) = Some (Link t)) by (rewrite lookup_add_link, L1; reflexivity).
      destruct rep; [|exact X]. apply lookup_update_link; exact X.
Qed.

Lemma frame_none : forall x, lookup x w = None -> x <> n2 -> lookup x (act rep cl w k2 n2) = None.
Proof.
  intros x Lx Hxn. unfold act. fold w1.
  assert (L1 : lookup x w1 = None).
  { unfold w1. destruct (pre_cases w n2) as [E|(Hl & He & E)]; rewrite E; [exact Lx | apply lookup_unlink_none; exact Lx]. }
  assert (Hxk : x <> k2) by (intros E; subst; rewrite L2 in L1; discriminate).
  destruct (resolve w1 n2) as [[k' dn]|].
  - destruct (key_eqb k' k2); [|exact L1]. destruct rep; [|exact L1]. apply lookup_update_none; exact L1.
  - destruct cl.
    + assert (X : lookup x (rename k2 n2 w1) = None) by (rewrite lookup_rename_other; assumption).
      destruct rep; [|exact X]. apply lookup_update_none; exact X.
    + assert (X : lookup x (add_link n2 k2 w1) = None).
      { rewrite lookup_add_link, L1. assert (key_eqb n2 x = false) by (apply key_eqb_neq; congruence). rewrite H; reflexivity. }
      destruct rep; [|exact X]. apply lookup_update_none; exact X.
Qed.

Lemma frame_rev : forall x dx', wf w -> lookup x (act rep cl w k2 n2) = Some (Dir dx') ->
  exists y dy, lookup y w = Some (Dir dy) /\ grows dy dx' /\ (y = x \/ (y = k2 /\ x = n2)).
Proof.
  intros x dx' Hw. unfold act. fold w1.
  pose proof (pre_dir_rev w n2 x dx' Hw) as P. fold w1 in P.
  pose proof (pre_none w n2) as Hn. fold w1 in Hn.
  assert (L0 : lookup k2 w = Some (Dir d2)) by (destruct A2 as (L & _); exact L).
  assert (U : forall w', lookup k2 w' = Some (Dir d2) -> (forall y, y <> k2 -> lookup y w' = Some (Dir dx') -> lookup y w = Some (Dir dx')) ->
              lookup x (if rep then update_dir k2 (alias (k_name k2) (k_name n2)) w' else w') = Some (Dir dx') ->
              exists y dy, lookup y w = Some (Dir dy) /\ grows dy dx' /\ (y = x \/ (y = k2 /\ x = n2))).
  { intros w' Lk Hrev H. destruct (key_eqb x k2) eqn:E.
    - apply key_eqb_eq in E; subst x. exists k2, d2. split; [exact L0|]. split; [|auto].
      destruct rep.
      + rewrite lookup_update_dir, key_eqb_refl, Lk in H. inversion H; subst. apply alias_grows.
      + rewrite Lk in H. inversion H; subst. apply grows_refl.
    - apply key_eqb_neq in E. exists x, dx'. split; [|split; [apply grows_refl | auto]].
      apply Hrev; [exact E|]. destruct rep; [rewrite lookup_update_other in H by exact E|]; exact H. }
  destruct (resolve w1 n2) as [[k' dn]|].
  - destruct (key_eqb k' k2).
    + apply U; [exact L2 | intros y _ H; apply (pre_dir_rev w n2 y dx' Hw); exact H].
    + intros H. exists x, dx'. split; [apply P; exact H | split; [apply grows_refl | auto]].
  - specialize (Hn eq_refl). destruct cl.
    + intros H. destruct (key_eqb x n2) eqn:E.
      * apply key_eqb_eq in E; subst x. exists k2, d2. split; [exact L0|]. split; [|auto].
        assert (X : lookup n2 (rename k2 n2 w1) = Some (Dir d2)) by (rewrite lookup_rename_dst; assumption).
        destruct rep.
        -- rewrite lookup_update_dir, key_eqb_refl, X in H. inversion H; subst. apply alias_grows.
        -- rewrite X in H. inversion H; subst. apply grows_refl.
      * apply key_eqb_neq in E.
        assert (X : lookup x (rename k2 n2 w1) = Some (Dir dx')) by (destruct rep; [rewrite lookup_update_other in H by exact E|]; exact H).
        destruct (key_eqb x k2) eqn:E2.
        -- apply key_eqb_eq in E2; subst x. rewrite lookup_rename_src in X by exact K2. discriminate.
        -- apply key_eqb_neq in E2. rewrite lookup_rename_other in X by assumption.
           exists x, dx'. split; [apply P; exact X | split; [apply grows_refl | auto]].
    + apply U.
      * rewrite lookup_add_link, L2. reflexivity.
      * intros y _ H. apply (pre_dir_rev w n2 y dx' Hw). rewrite lookup_add_link in H. fold w1.
        destruct (lookup y w1) as [e|]; [exact H|]. destruct (key_eqb n2 y); discriminate.
Qed.

Lemma wf_act : wf w -> wf (act rep cl w k2 n2).
Proof.
  intros Hw. unfold act. fold w1. pose proof (wf_pre w n2 Hw) as W1. fold w1 in W1.
  pose proof (pre_none w n2) as Hn. fold w1 in Hn.
  destruct (resolve w1 n2) as [[k' dn]|].
  - destruct (key_eqb k' k2); [|exact W1]. destruct rep; [apply wf_update_dir|]; exact W1.
  - specialize (Hn eq_refl). destruct cl.
    + assert (W2 : wf (rename k2 n2 w1)) by (apply wf_rename; assumption).
      destruct rep; [apply wf_update_dir|]; exact W2.
    + assert (W2 : wf (add_link n2 k2 w1)) by (apply wf_add_link; assumption).
      destruct rep; [apply wf_update_dir|]; exact W2.
Qed.
End Frame.

Lemma wf_step : forall rep fx cl w k, wf w -> wf (main_step rep fx cl w k).
Proof.
  intros rep fx cl w k Hw. destruct fx; [|rewrite step_nofix; exact Hw].
  destruct (active_dec w k) as [(d & n & H)|H].
  - rewrite (step_active _ _ _ _ _ _ H). eapply wf_act; eauto.
  - rewrite step_inactive by exact H. exact Hw.
Qed.

(* ------------------------------------------------------------------ 2. the old data becomes reachable under the new path *)

(* ------------------------------------------------------------------ 2. the old data becomes reachable under the new path *)
Section Reach.
Variables (cl : bool) (k : key) (d : data) (n : key).
Hypothesis Hp : d_params d = true.
Hypothesis Hr : d_recomp d = Some n.
Hypothesis Hi : k_id n <> k_id k.

Let Hkn : k <> n.
Proof. intros E; subst; apply Hi; reflexivity. Qed.

Definition good (d' : data) : Prop := grows d d' /\ (In (k_name k) (d_done d) -> In (k_name n) (d_done d')).
Definition unc (x : key) (w : ws) : Prop := forall k2 d2, lookup k2 w = Some (Dir d2) -> d_recomp d2 = Some n -> k2 = x.
Definition P1 (w : ws) : Prop :=
  lookup k w = Some (Dir d) /\ (lookup n w = None \/ lookup n w = Some (Link k)) /\ unc k w.
Definition P2 (w : ws) : Prop :=
  exists d', lookup k w = Some (Dir d') /\ lookup n w = Some (Link k) /\ good d' /\ unc k w.
Definition P3 (w : ws) : Prop :=
  exists d', lookup n w = Some (Dir d') /\ good d' /\ unc n w.

Let S := main_step true true cl.

Lemma good_recomp : forall d', good d' -> d_recomp d' = Some n /\ d_params d' = true.
Proof. intros d' [[C _] _]. unfold core in C. inversion C. split; congruence. Qed.

Lemma prepass_step_P1 : forall w x, wf w -> P1 w -> wf (prepass_step w x) /\ P1 (prepass_step w x).
Proof.
  intros w x Hw (Lk & Ln & U).
  destruct (prepass_step_cases w x) as [->|(_ & El & _ & ->)]; [split; [exact Hw | repeat split; assumption]|].
  split; [apply wf_unlink; exact Hw|]. split; [apply lookup_unlink_dir; exact Lk|]. split.
  - destruct Ln as [Ln|Ln]; [left; apply lookup_unlink_none; exact Ln|].
    destruct (key_eqb x n) eqn:E.
    + apply key_eqb_eq in E; subst x. left. apply lookup_unlink_self; assumption.
    + apply key_eqb_neq in E. right. rewrite lookup_unlink_other by congruence. exact Ln.
  - intros k2 dd L R. apply (U k2 dd); [|exact R].
    destruct (key_eqb k2 x) eqn:E.
    + apply key_eqb_eq in E; subst k2. rewrite lookup_unlink_self in L by assumption. discriminate.
    + apply key_eqb_neq in E. rewrite lookup_unlink_other in L by exact E. exact L.
Qed.
Lemma prepass_P1 : forall o w, wf w -> P1 w -> wf (prepass w o) /\ P1 (prepass w o).
Proof.
  unfold prepass; induction o; intros w Hw H; simpl; [auto|].
  destruct (prepass_step_P1 w a Hw H) as [H1 H2]. apply IHo; assumption.
Qed.

Lemma unc_step : forall x w k2 d2 n2, wf w -> unc x w -> active w k2 d2 n2 -> k2 <> x -> unc x (act true cl w k2 n2).
Proof.
  intros x w k2 d2 n2 Hw U A2 Hk y dy' L R.
  destruct (frame_rev true cl w k2 d2 n2 A2 y dy' Hw L) as (z & dz & Lz & [Cz _] & Hz).
  assert (Rz : d_recomp dz = Some n) by (unfold core in Cz; inversion Cz; congruence).
  pose proof (U z dz Lz Rz) as E. destruct Hz as [->|[-> _]]; [exact E | contradiction].
Qed.

(* an iteration on another entry keeps the situation "not yet repaired" *)
Lemma step_P1_other : forall w k2, wf w -> P1 w -> k2 <> k -> P1 (S w k2).
Proof.
  intros w k2 Hw (Lk & Ln & U) Hk. unfold S.
  destruct (active_dec w k2) as [(d2 & n2 & A2)|A2]; [|rewrite step_inactive by exact A2; repeat split; assumption].
  rewrite (step_active _ _ _ _ _ _ A2).
  assert (Hn2 : n2 <> n).
  { intros ->. destruct A2 as (L2 & _ & R2 & _). apply Hk. exact (U k2 d2 L2 R2). }
  split; [apply (frame_dir true cl w k2 n2 k d Lk); congruence|]. split.
  - destruct Ln as [Ln|Ln].
    + left. apply (frame_none true cl w k2 d2 n2 A2); [exact Ln | congruence].
    + right. apply (frame_link true cl w k2 d2 n2 A2); [exact Ln|].
      unfold exists_. rewrite (resolve_link _ _ _ _ Ln Lk). reflexivity.
  - eapply unc_step; eauto.
Qed.

(* the iteration on the entry itself repairs it *)
Lemma step_P1_self : forall w, wf w -> P1 w -> P2 (S w k) \/ (cl = true /\ P3 (S w k)).
Proof.
  intros w Hw (Lk & Ln & U). unfold S.
  assert (A : active w k d n) by (repeat split; assumption).
  rewrite (step_active _ _ _ _ _ _ A). unfold act.
  assert (G : good (alias (k_name k) (k_name n) d)) by (split; [apply alias_grows | apply alias_done]).
  destruct Ln as [Ln|Ln].
  - (* the new path is free *)
    assert (Epre : pre w n = w) by (unfold pre, is_link; rewrite Ln; reflexivity).
    rewrite Epre. rewrite (resolve_none _ _ Ln).
    destruct cl.
    + right. split; [reflexivity|]. exists (alias (k_name k) (k_name n) d).
      split; [rewrite lookup_update_dir, key_eqb_refl, lookup_rename_dst, Lk by exact Ln; reflexivity|].
      split; [exact G|].
      intros y dy L R.
      destruct (key_eqb y n) eqn:E; [apply key_eqb_eq in E; exact E|]. apply key_eqb_neq in E. exfalso.
      rewrite lookup_update_other in L by exact E.
      destruct (key_eqb y k) eqn:E2.
      * apply key_eqb_eq in E2; subst y. rewrite lookup_rename_src in L by exact Hkn. discriminate.
      * apply key_eqb_neq in E2. rewrite lookup_rename_other in L by assumption. apply E2. exact (U y dy L R).
    + left. exists (alias (k_name k) (k_name n) d).
      split; [rewrite lookup_update_dir, key_eqb_refl, lookup_add_link, Lk; reflexivity|].
      split; [rewrite lookup_update_other by congruence; rewrite lookup_add_link, Ln, key_eqb_refl; reflexivity|].
      split; [exact G|].
      intros y dy L R.
      destruct (key_eqb y k) eqn:E; [apply key_eqb_eq in E; exact E|]. apply key_eqb_neq in E.
      rewrite lookup_update_other in L by exact E. rewrite lookup_add_link in L.
      destruct (lookup y w) as [e|] eqn:Ly; [inversion L; subst e; exact (U y dy Ly R)|].
      destruct (key_eqb n y); discriminate.
  - (* previously linked by an earlier repair *)
    assert (Rn : resolve w n = Some (k, d)) by (apply (resolve_link _ _ _ _ Ln Lk)).
    rewrite pre_exists by (unfold exists_; rewrite Rn; reflexivity). rewrite Rn, key_eqb_refl.
    left. exists (alias (k_name k) (k_name n) d).
    split; [rewrite lookup_update_dir, key_eqb_refl, Lk; reflexivity|].
    split; [rewrite lookup_update_other by congruence; exact Ln|].
    split; [exact G|].
    intros y dy L R.
    destruct (key_eqb y k) eqn:E; [apply key_eqb_eq in E; exact E|]. apply key_eqb_neq in E.
    rewrite lookup_update_other in L by exact E. exact (U y dy L R).
Qed.

Lemma step_P2 : forall w k2, wf w -> P2 w -> P2 (S w k2).
Proof.
  intros w k2 Hw (d' & Lk & Ln & G & U). unfold S.
  destruct (active_dec w k2) as [(d2 & n2 & A2)|A2]; [|rewrite step_inactive by exact A2; exists d'; auto].
  rewrite (step_active _ _ _ _ _ _ A2).
  destruct (good_recomp d' G) as [Rd' Pd'].
  destruct (key_eqb k2 k) eqn:E.
  - apply key_eqb_eq in E; subst k2.
    destruct A2 as (L2 & _ & R2 & _). rewrite Lk in L2; inversion L2; subst d2. rewrite Rd' in R2; inversion R2; subst n2.
    assert (Rn : resolve w n = Some (k, d')) by (apply (resolve_link _ _ _ _ Ln Lk)).
    unfold act. rewrite pre_exists by (unfold exists_; rewrite Rn; reflexivity). rewrite Rn, key_eqb_refl.
    exists (alias (k_name k) (k_name n) d').
    split; [rewrite lookup_update_dir, key_eqb_refl, Lk; reflexivity|].
    split; [rewrite lookup_update_other by congruence; exact Ln|].
    split.
    + destruct G as [G1 G2]. split; [eapply grows_trans; [exact G1 | apply alias_grows]|].
      intros H. destruct (alias_grows (k_name k) (k_name n) d') as [_ I]. apply I. auto.
    + intros y dy L R.
      destruct (key_eqb y k) eqn:E; [apply key_eqb_eq in E; exact E|]. apply key_eqb_neq in E.
      rewrite lookup_update_other in L by exact E. exact (U y dy L R).
  - apply key_eqb_neq in E.
    assert (Hn2 : n2 <> n).
    { intros ->. destruct A2 as (L2 & _ & R2 & _). apply E. exact (U k2 d2 L2 R2). }
    exists d'. split; [apply (frame_dir true cl w k2 n2 k d' Lk); congruence|].
    split; [apply (frame_link true cl w k2 d2 n2 A2); [exact Ln | unfold exists_; rewrite (resolve_link _ _ _ _ Ln Lk); reflexivity]|].
    split; [exact G|]. eapply unc_step; eauto.
Qed.

Lemma step_P3 : forall w k2, wf w -> P3 w -> P3 (S w k2).
Proof.
  intros w k2 Hw (d' & Ln & G & U). unfold S.
  destruct (active_dec w k2) as [(d2 & n2 & A2)|A2]; [|rewrite step_inactive by exact A2; exists d'; auto].
  rewrite (step_active _ _ _ _ _ _ A2).
  destruct (good_recomp d' G) as [Rd' Pd'].
  assert (E : k2 <> n).
  { intros ->. destruct A2 as (L2 & _ & R2 & I2). rewrite Ln in L2; inversion L2; subst d2.
    rewrite Rd' in R2; inversion R2; subst n2. apply I2; reflexivity. }
  exists d'. split; [apply (frame_dir true cl w k2 n2 n d' Ln); congruence|].
  split; [exact G|]. eapply unc_step; eauto.
Qed.

Definition repaired (w : ws) : Prop := P2 w \/ (cl = true /\ P3 w).

Lemma pass_repaired : forall o w, wf w -> repaired w -> repaired (mainpass true true cl w o).
Proof.
  unfold mainpass; induction o; intros w Hw H; simpl; [exact H|].
  apply IHo; [apply wf_step; exact Hw|].
  destruct H as [H|[C H]]; [left; apply step_P2; assumption | right; split; [exact C | apply step_P3; assumption]].
Qed.
Lemma pass_repairs : forall o w, wf w -> P1 w -> In k o -> repaired (mainpass true true cl w o).
Proof.
  induction o; intros w Hw H Hin; [contradiction|].
  change (mainpass true true cl w (a :: o)) with (mainpass true true cl (S w a) o).
  destruct (key_eqb a k) eqn:E.
  - apply key_eqb_eq in E; subst a. apply pass_repaired; [apply wf_step; exact Hw | apply step_P1_self; assumption].
  - apply key_eqb_neq in E. apply IHo; [apply wf_step; exact Hw | apply step_P1_other; assumption|].
    destruct Hin as [Hin|Hin]; [contradiction | exact Hin].
Qed.

Lemma repaired_reaches : forall w, repaired w ->
  exists kf d', resolve w n = Some (kf, d') /\ core d' = core d /\ incl (d_done d) (d_done d') /\
    (In (k_name k) (d_done d) -> found w n = true) /\ (cl = false -> kf = k).
Proof.
  intros w [(d' & Lk & Ln & [[C I] G] & _)|[Ccl (d' & Ln & [[C I] G] & _)]].
  - exists k, d'. pose proof (resolve_link _ _ _ _ Ln Lk) as R.
    repeat split; auto. intros H. unfold found. rewrite R. apply memZ_in. auto.
  - exists n, d'. pose proof (resolve_dir _ _ _ Ln) as R.
    repeat split; auto; [|congruence]. intros H. unfold found. rewrite R. apply memZ_in. auto.
Qed.
End Reach.

(* After `deprecated list --fix [--cleanup]`: a job directory k whose recomputed identity n differs from
   its name, whose new path is free (or already links to it) and is not claimed by another directory,
   is reachable under n: by a link to k (always so without --cleanup), or because it was moved there;
   and a submit of the replacement task finds the result of the old run (found).                      *)
Theorem fix_reaches : forall cl o1 o2 w k d n,
  wf w -> active w k d n -> In k o2 ->
  (lookup n w = None \/ lookup n w = Some (Link k)) ->
  (forall k2 d2, lookup k2 w = Some (Dir d2) -> d_recomp d2 = Some n -> k2 = k) ->
  let w' := fix_ws true cl o1 o2 w in
  exists kf d', resolve w' n = Some (kf, d') /\ core d' = core d /\ incl (d_done d) (d_done d') /\
    (In (k_name k) (d_done d) -> found w' n = true) /\ (cl = false -> kf = k).
Proof.
  intros cl o1 o2 w k d n Hw (L & P & R & I) Hin Hfree Hunc. unfold fix_ws, run. simpl.
  assert (H1 : P1 k d n w) by (repeat split; assumption).
  apply (repaired_reaches cl k d n).
  destruct cl; simpl.
  - destruct (prepass_P1 k d n o1 w Hw H1) as [W2 H2]. apply pass_repairs; assumption.
  - apply pass_repairs; assumption.
Qed.

(* a listing call (no --fix) leaves the workspace as it is, with or without --cleanup *)
Theorem list_only_unchanged : forall cl o1 o2 w, fix_ws false cl o1 o2 w = w.
Proof.
  intros cl o1 o2 w. unfold fix_ws, run. simpl. rewrite andb_false_r.
  unfold mainpass. induction o2; simpl; [reflexivity|]. rewrite step_nofix. exact IHo2.
Qed.

(* ------------------------------------------------------------------ witnesses: defects of the pinned commit, limits, satisfiable hypotheses *)
Definition xk : key := mkkey 1 1 1.          (* jobs/m1.oldname/id1 *)
Definition xn : key := mkkey 1 2 2.          (* jobs/m1.newname/id2 : the task class was renamed *)
Definition xd : data := mkdata 7 true (Some xn) [1].   (* done marker: oldname.done *)
Definition xw : ws := [(xk, Dir xd)].

Lemma lookup_single : forall k e k2 e2, lookup k2 [(k, e)] = Some e2 -> k2 = k /\ e2 = e.
Proof.
  intros k e k2 e2; simpl. destruct (key_eqb k k2) eqn:E; [|discriminate].
  apply key_eqb_eq in E. intros H; inversion H; auto.
Qed.

Lemma xw_hyps : wf xw /\ active xw xk xd xn /\ In xk [xk] /\ lookup xn xw = None /\
  (forall k2 d2, lookup k2 xw = Some (Dir d2) -> d_recomp d2 = Some xn -> k2 = xk) /\ In (k_name xk) (d_done xd).
Proof.
  split; [repeat constructor; simpl; tauto|].
  split; [repeat split; simpl; discriminate|].
  split; [simpl; auto|]. split; [reflexivity|]. split; [|simpl; auto].
  intros k2 d2 H _. apply lookup_single in H. tauto.
Qed.

(* Defect C20-1 of the pinned commit: the old directory becomes reachable under the new path, but when the
   task class itself was renamed its result marker is named after the old task: a re-submit finds nothing. *)
Theorem resubmit_refuted : exists o2 w k d n,
  wf w /\ active w k d n /\ In k o2 /\ lookup n w = None /\
  (forall k2 d2, lookup k2 w = Some (Dir d2) -> d_recomp d2 = Some n -> k2 = k) /\
  In (k_name k) (d_done d) /\
  (forall cl, exists_ (fix_ws_prefix true cl [] o2 w) n = true /\ found (fix_ws_prefix true cl [] o2 w) n = false).
Proof.
  exists [xk], xw, xk, xd, xn. destruct xw_hyps as (H1 & H2 & H3 & H4 & H5 & H6).
  repeat (split; [assumption|]). intros [|]; vm_compute; auto.
Qed.
(* ... and the repaired command does find it on the same workspace *)
Example resubmit_repaired : forall cl, found (fix_ws true cl [] [xk] xw) xn = true.
Proof. intros [|]; vm_compute; reflexivity. Qed.

(* Defect C20-2 of the pinned commit: `deprecated list --cleanup` (no --fix, announced as ignored) removes the
   links of an earlier repair: the old result is not reachable any more under the new path.                   *)
Definition yd : data := mkdata 7 true (Some xn) [1; 2].
Definition yw : ws := [(xk, Dir yd); (xn, Link xk)].
Theorem cleanup_nofix_refuted : exists o1 o2 w n,
  wf w /\ found w n = true /\ found (fix_ws_prefix false true o1 o2 w) n = false.
Proof.
  exists [xk; xn], [xk; xn], yw, xn. split; [repeat constructor; simpl; intuition discriminate|]. vm_compute; auto.
Qed.

(* Limit (both versions): with --cleanup a second call may still change the tree.  Here a dangling link
   x -> t comes to life when the first call moves a directory to t; the first loop of the second call
   removes it.  No job data is involved; see cleanup_idempotent for the shapes on which a second call is a no-op. *)
Definition zt : key := mkkey 1 2 3.
Definition zx : key := mkkey 1 2 4.
Definition zw : ws := [(xk, Dir (mkdata 7 true (Some zt) [])); (zx, Link zt)].
Theorem cleanup_twice_refuted : exists o w,
  wf w /\ (forall k e, lookup k w = Some e -> In k o) /\
  fix_ws true true o o (fix_ws true true o o w) <> fix_ws true true o o w.
Proof.
  exists [xk; zx; zt], zw. split; [repeat constructor; simpl; intuition discriminate|]. split.
  - intros k e H. simpl in H.
    destruct (key_eqb xk k) eqn:E1; [apply key_eqb_eq in E1; subst; simpl; auto|].
    destruct (key_eqb zx k) eqn:E2; [apply key_eqb_eq in E2; subst; simpl; auto | discriminate].
  - vm_compute. discriminate.
Qed.

(* the hypotheses of fix_reaches / fix_idempotent / fix_link_total are satisfiable by a workspace with two
   stale directories, one of them already linked by an earlier repair, and an unrelated link *)
Definition e_k1 : key := mkkey 1 1 11.
Definition e_n1 : key := mkkey 1 2 12.
Definition e_k2 : key := mkkey 3 4 21.
Definition e_n2 : key := mkkey 3 4 22.
Definition e_d1 : data := mkdata 1 true (Some e_n1) [1].
Definition e_d2 : data := mkdata 2 true (Some e_n2) [4].
Definition e_w : ws := [(e_k1, Dir e_d1); (e_k2, Dir e_d2); (e_n2, Link e_k2); (mkkey 9 9 9, Link e_k1)].
Example reach_hyps_sat :
  wf e_w /\ active e_w e_k1 e_d1 e_n1 /\ In e_k1 [e_k2; e_k1] /\
  (lookup e_n1 e_w = None \/ lookup e_n1 e_w = Some (Link e_k1)) /\
  (forall k2 d2, lookup k2 e_w = Some (Dir d2) -> d_recomp d2 = Some e_n1 -> k2 = e_k1) /\
  covers e_w [e_k2; e_k1] /\
  active e_w e_k2 e_d2 e_n2 /\ lookup e_n2 e_w = Some (Link e_k2).
Proof.
  assert (D : forall k2 d2, lookup k2 e_w = Some (Dir d2) -> (k2 = e_k1 /\ d2 = e_d1) \/ (k2 = e_k2 /\ d2 = e_d2)).
  { intros k2 d2 H. simpl in H.
    destruct (key_eqb e_k1 k2) eqn:E1; [apply key_eqb_eq in E1; inversion H; auto|].
    destruct (key_eqb e_k2 k2) eqn:E2; [apply key_eqb_eq in E2; inversion H; auto|].
    destruct (key_eqb e_n2 k2); [discriminate|]. destruct (key_eqb (mkkey 9 9 9) k2); discriminate. }
  split; [repeat constructor; simpl; intuition discriminate|].
  split; [repeat split; simpl; discriminate|].
  split; [simpl; auto|]. split; [left; reflexivity|].
  split; [intros k2 d2 H R; destruct (D _ _ H) as [[-> ->]|[-> ->]]; [reflexivity | discriminate]|].
  split; [intros k2 d2 H; destruct (D _ _ H) as [[-> _]|[-> _]]; simpl; auto|].
  split; [repeat split; simpl; discriminate | reflexivity].
Qed.
Example reach_example : forall cl,
  found (fix_ws true cl [e_k1; e_k2; e_n2; mkkey 9 9 9] [e_k2; e_k1] e_w) e_n1 = true /\
  found (fix_ws true cl [e_k1; e_k2; e_n2; mkkey 9 9 9] [e_k2; e_k1] e_w) e_n2 = true.
Proof. intros [|]; vm_compute; auto. Qed.
Example untouched_hyp_sat : resolve e_w (mkkey 9 9 9) = Some (e_k1, e_d1).
Proof. reflexivity. Qed.

(* ------------------------------------------------------------------ 3'. --cleanup: a second call changes nothing (shape hypotheses) *)
(* every link points directly at a job directory (with its params.json): what the repair itself creates *)
Definition direct (w : ws) : Prop :=
  forall x t, lookup x w = Some (Link t) -> exists dt, lookup t w = Some (Dir dt) /\ d_params dt = true /\ d_recomp dt <> None.
(* no directory sits on the new path of another one *)
Definition clear (w : ws) : Prop := forall k d n, active w k d n -> forall dn, lookup n w <> Some (Dir dn).
Definition nolinks (w : ws) : Prop := forall x t, lookup x w <> Some (Link t).

Lemma in_lookup : forall w x e, wf w -> In (x, e) w -> lookup x w = Some e.
Proof.
  unfold wf; induction w as [|[k' e'] w IH]; simpl; intros x e Hw H; [contradiction|].
  inversion Hw; subst. destruct H as [H|H].
  - inversion H; subst. rewrite key_eqb_refl. reflexivity.
  - destruct (key_eqb k' x) eqn:E; [|auto].
    apply key_eqb_eq in E; subst. exfalso. apply H2. apply in_map_iff. exists (x, e); auto.
Qed.

Lemma prepass_step_dir_rev : forall w y x d, wf w -> lookup x (prepass_step w y) = Some (Dir d) -> lookup x w = Some (Dir d).
Proof.
  intros w y x d Hw. destruct (prepass_step_cases w y) as [->|(_ & El & _ & ->)]; [auto|]. intros H.
  destruct (key_eqb x y) eqn:E.
  - apply key_eqb_eq in E; subst. rewrite lookup_unlink_self in H by assumption. discriminate.
  - apply key_eqb_neq in E. rewrite lookup_unlink_other in H by exact E. exact H.
Qed.
Lemma prepass_step_link_rev : forall w y x t, lookup x (prepass_step w y) = Some (Link t) -> lookup x w = Some (Link t).
Proof.
  intros w y x t. destruct (prepass_step_cases w y) as [->|(_ & _ & _ & ->)]; [auto|]. intros H.
  destruct (key_eqb x y) eqn:E.
  - apply key_eqb_eq in E; subst. exfalso. exact (lookup_unlink_self_nolink _ _ _ H).
  - apply key_eqb_neq in E. rewrite lookup_unlink_other in H by exact E. exact H.
Qed.
Lemma prepass_step_dir : forall w y x d, lookup x w = Some (Dir d) -> lookup x (prepass_step w y) = Some (Dir d).
Proof. intros w y x d H. unfold prepass_step, prepass_step_gen. destruct (_ && _); [apply lookup_unlink_dir|]; exact H. Qed.
Lemma wf_prepass_step : forall w y, wf w -> wf (prepass_step w y).
Proof. intros w y H. unfold prepass_step, prepass_step_gen. destruct (_ && _); [apply wf_unlink|]; exact H. Qed.
Lemma wf_prepass : forall o w, wf w -> wf (prepass w o).
Proof. unfold prepass; induction o; intros w H; simpl; [exact H | apply IHo, wf_prepass_step, H]. Qed.
Lemma direct_prepass_step : forall w y, direct w -> direct (prepass_step w y).
Proof.
  intros w y H x t L. apply prepass_step_link_rev in L. destruct (H x t L) as (dt & Lt & Pt).
  exists dt. split; [apply prepass_step_dir; exact Lt | exact Pt].
Qed.
Lemma prepass_link_rev : forall o w x t, lookup x (prepass w o) = Some (Link t) -> lookup x w = Some (Link t).
Proof. unfold prepass; induction o; intros w x t H; simpl in H; [exact H|]. apply IHo in H. eapply prepass_step_link_rev; eauto. Qed.
Lemma prepass_dir_rev : forall o w x d, wf w -> lookup x (prepass w o) = Some (Dir d) -> lookup x w = Some (Dir d).
Proof.
  unfold prepass; induction o; intros w x d Hw H; simpl in H; [exact H|].
  apply IHo in H; [|apply wf_prepass_step; exact Hw]. eapply prepass_step_dir_rev; eauto.
Qed.
Lemma prepass_step_removes : forall w y t, wf w -> direct w -> lookup y w = Some (Link t) -> lookup y (prepass_step w y) = None.
Proof.
  intros w y t Hw Hd L. destruct (Hd y t L) as (dt & Lt & Pt & Rt). unfold prepass_step, prepass_step_gen.
  assert (Y : yielded w y = true) by (unfold yielded; rewrite (resolve_link _ _ _ _ L Lt); exact Pt).
  assert (I : is_link w y = true) by (unfold is_link; rewrite L; reflexivity).
  assert (Ld : loadable w y = true).
  { unfold loadable. rewrite (resolve_link _ _ _ _ L Lt). destruct (d_recomp dt); [reflexivity|contradiction]. }
  rewrite Y, I, Ld. simpl. apply lookup_unlink_self; assumption.
Qed.
Lemma prepass_nolink_at : forall o w x t, wf w -> direct w -> In x o -> lookup x (prepass w o) <> Some (Link t).
Proof.
  induction o; intros w x t Hw Hd Hin; [contradiction|].
  change (prepass w (a :: o)) with (prepass (prepass_step w a) o).
  destruct (key_eqb a x) eqn:E.
  - apply key_eqb_eq in E; subst a. intros H. apply prepass_link_rev in H.
    pose proof (prepass_step_link_rev _ _ _ _ H) as H0.
    rewrite (prepass_step_removes _ _ _ Hw Hd H0) in H. discriminate.
  - apply key_eqb_neq in E. destruct Hin as [Hin|Hin]; [contradiction|].
    apply IHo; [apply wf_prepass_step; exact Hw | apply direct_prepass_step; exact Hd | exact Hin].
Qed.

(* invariant of the second loop on a link-free workspace *)
Definition tgt (w : ws) : Prop := forall k d n, active w k d n ->
  lookup n w = None \/ exists dn, lookup n w = Some (Dir dn) /\ d_recomp dn = Some n.
Definition J (w : ws) : Prop := wf w /\ nolinks w /\ tgt w.
Definition okc (w : ws) (k : key) : Prop := forall d n, active w k d n ->
  exists dn, lookup n w = Some (Dir dn) /\ d_recomp dn = Some n.

Lemma pre_nolinks : forall w n, nolinks w -> pre w n = w.
Proof.
  intros w n H. unfold pre, is_link. destruct (lookup n w) as [[d|t]|] eqn:L; try reflexivity. exfalso; exact (H n t L).
Qed.
Lemma act_cleanup_free : forall rep w k n, nolinks w -> lookup n w = None ->
  act rep true w k n = if rep then update_dir n (alias (k_name k) (k_name n)) (rename k n w) else rename k n w.
Proof. intros rep w k n H L. unfold act. rewrite (pre_nolinks _ _ H), (resolve_none _ _ L). reflexivity. Qed.
Lemma act_occupied : forall rep cl w k n dn, nolinks w -> lookup n w = Some (Dir dn) -> k <> n -> act rep cl w k n = w.
Proof.
  intros rep cl w k n dn H L Hk. unfold act. rewrite (pre_nolinks _ _ H), (resolve_dir _ _ _ L).
  assert (E : key_eqb n k = false) by (apply key_eqb_neq; congruence). rewrite E. reflexivity.
Qed.
Lemma active_neq : forall w k d n, active w k d n -> k <> n.
Proof. intros w k d n (_ & _ & _ & I) E. subst. apply I; reflexivity. Qed.

Lemma lookup_rename_link_rev : forall w k n x t, wf w -> lookup x (rename k n w) = Some (Link t) -> exists y, lookup y w = Some (Link t).
Proof.
  intros w k n x t Hw H. apply lookup_in in H. unfold rename in H. apply in_map_iff in H.
  destruct H as [[y e] [H1 H2]]. simpl in H1. exists y. apply in_lookup; [exact Hw|].
  destruct (key_eqb y k); inversion H1; subst e; exact H2 || (subst; exact H2).
Qed.

Section CleanupStep.
Variables (rep : bool).
Let S := main_step rep true true.

Lemma J_step : forall w k2, J w -> J (S w k2).
Proof.
  intros w k2 (Hw & Hl & Ht). unfold S.
  destruct (active_dec w k2) as [(d2 & n2 & A2)|A2]; [|rewrite step_inactive by exact A2; repeat split; assumption].
  rewrite (step_active _ _ _ _ _ _ A2). pose proof (active_neq _ _ _ _ A2) as K2.
  destruct (Ht _ _ _ A2) as [Ln|(dn & Ln & Rn)]; [|rewrite (act_occupied _ _ _ _ _ _ Hl Ln K2); repeat split; assumption].
  split; [eapply wf_act; eauto|]. split.
  - intros x t L. rewrite (act_cleanup_free _ _ _ _ Hl Ln) in L.
    assert (L' : lookup x (rename k2 n2 w) = Some (Link t)).
    { destruct rep; [|exact L]. rewrite lookup_update_dir in L. destruct (key_eqb n2 x); [|exact L].
      destruct (lookup x (rename k2 n2 w)) as [[dd|tt]|]; [discriminate | exact L | discriminate]. }
    destruct (lookup_rename_link_rev _ _ _ _ _ Hw L') as [y Ly]. exact (Hl y t Ly).
  - intros k d n A. destruct A as (L & P & R & I).
    destruct (frame_rev rep true w k2 d2 n2 A2 k d Hw L) as (y & dy & Ly & [Cy _] & Hy).
    unfold core in Cy. inversion Cy as [[C1 C2 C3]].
    destruct Hy as [->|[-> ->]].
    + assert (Ak : active w k dy n) by (repeat split; congruence).
      assert (Kk2 : k <> k2).
      { intros ->. rewrite (act_cleanup_free _ _ _ _ Hl Ln) in L.
        assert (X : lookup k2 (rename k2 n2 w) = None) by (apply lookup_rename_src; exact K2).
        destruct rep; [rewrite lookup_update_other in L by exact K2|]; rewrite X in L; discriminate. }
      rewrite (act_cleanup_free _ _ _ _ Hl Ln).
      destruct (key_eqb n n2) eqn:E1.
      * apply key_eqb_eq in E1; subst n. right.
        assert (X : lookup n2 (rename k2 n2 w) = Some (Dir d2)) by (rewrite lookup_rename_dst by exact Ln; destruct A2 as (L2 & _); exact L2).
        destruct A2 as (_ & _ & R2 & _).
        destruct rep.
        -- exists (alias (k_name k2) (k_name n2) d2). rewrite lookup_update_dir, key_eqb_refl, X. split; [reflexivity|].
           pose proof (alias_core (k_name k2) (k_name n2) d2) as AC. unfold core in AC. inversion AC. congruence.
        -- exists d2. auto.
      * apply key_eqb_neq in E1.
        assert (Y : lookup n (if rep then update_dir n2 (alias (k_name k2) (k_name n2)) (rename k2 n2 w) else rename k2 n2 w)
                    = lookup n (rename k2 n2 w)) by (destruct rep; [apply lookup_update_other; exact E1 | reflexivity]).
        rewrite Y.
        destruct (key_eqb n k2) eqn:E2.
        -- apply key_eqb_eq in E2; subst n. left. apply lookup_rename_src; exact K2.
        -- apply key_eqb_neq in E2. rewrite lookup_rename_other by assumption. exact (Ht _ _ _ Ak).
    + (* the directory just moved to its own new path: it is not active any more *)
      exfalso. destruct A2 as (L2 & _ & R2 & _). rewrite Ly in L2; inversion L2; subst dy.
      assert (En : n = n2) by congruence. subst n. apply I; reflexivity.
Qed.

Lemma okc_ok : forall w k, okc w k -> ok rep w k.
Proof.
  intros w k H d n A. destruct (H d n A) as (dn & Ln & Rn). exists n, dn. split; [apply resolve_dir; exact Ln|].
  intros _ E. exfalso. exact (active_neq _ _ _ _ A (eq_sym E)).
Qed.

Lemma step_makes_okc : forall w k, J w -> okc (S w k) k.
Proof.
  intros w k (Hw & Hl & Ht). unfold S.
  destruct (active_dec w k) as [(d & n & A)|A]; [|rewrite step_inactive by exact A; intros d n A'; exfalso; exact (A d n A')].
  rewrite (step_active _ _ _ _ _ _ A). pose proof (active_neq _ _ _ _ A) as K.
  destruct (Ht _ _ _ A) as [Ln|(dn & Ln & Rn)].
  - rewrite (act_cleanup_free _ _ _ _ Hl Ln). intros d' n' (L' & _). exfalso.
    assert (X : lookup k (rename k n w) = None) by (apply lookup_rename_src; exact K).
    destruct rep; [rewrite lookup_update_other in L' by exact K|]; rewrite X in L'; discriminate.
  - rewrite (act_occupied _ _ _ _ _ _ Hl Ln K). intros d' n' A'.
    destruct (active_fun _ _ _ _ _ _ A A') as [-> ->]. exists dn; auto.
Qed.

Lemma step_keeps_okc : forall w k k2, J w -> okc w k -> okc (S w k2) k.
Proof.
  intros w k k2 HJ Hok. destruct (key_eqb k k2) eqn:E; [apply key_eqb_eq in E; subst; apply step_makes_okc; exact HJ|].
  apply key_eqb_neq in E. destruct HJ as (Hw & Hl & Ht). unfold S.
  destruct (active_dec w k2) as [(d2 & n2 & A2)|A2]; [|rewrite step_inactive by exact A2; exact Hok].
  rewrite (step_active _ _ _ _ _ _ A2). intros d n (L & P & R & I).
  destruct (frame_rev rep true w k2 d2 n2 A2 k d Hw L) as (y & dy & Ly & [Cy _] & Hy).
  unfold core in Cy. inversion Cy as [[C1 C2 C3]].
  destruct Hy as [->|[-> ->]].
  - assert (Ak : active w k dy n) by (repeat split; congruence).
    destruct (Hok _ _ Ak) as (dn & Ln & Rn). exists dn. split; [|exact Rn].
    apply frame_dir; [exact Ln|]. intros ->.
    destruct A2 as (L2 & _ & R2 & I2). rewrite Ln in L2; inversion L2; subst d2. rewrite Rn in R2; inversion R2; subst n2. apply I2; reflexivity.
  - exfalso. destruct A2 as (L2 & _ & R2 & _). rewrite Ly in L2; inversion L2; subst dy.
      assert (En : n = n2) by congruence. subst n. apply I; reflexivity.
Qed.

Lemma J_pass : forall o w, J w -> J (mainpass rep true true w o).
Proof. unfold mainpass; induction o; intros w H; simpl; [exact H | apply IHo, J_step, H]. Qed.
Lemma pass_keeps_okc : forall o w k, J w -> okc w k -> okc (mainpass rep true true w o) k.
Proof. unfold mainpass; induction o; intros w k HJ H; simpl; [exact H|]. apply IHo; [apply J_step; exact HJ | apply step_keeps_okc; assumption]. Qed.
Lemma pass_makes_okc : forall o w k, J w -> In k o -> okc (mainpass rep true true w o) k.
Proof.
  induction o; intros w k HJ Hin; [contradiction|].
  change (mainpass rep true true w (a :: o)) with (mainpass rep true true (S w a) o).
  destruct Hin as [->|Hin]; [apply pass_keeps_okc; [apply J_step; exact HJ | apply step_makes_okc; exact HJ]|].
  apply IHo; [apply J_step; exact HJ | exact Hin].
Qed.

(* a directory that sits at its own recomputed path never moves *)
Lemma settled_step : forall w x dx k2, lookup x w = Some (Dir dx) -> d_recomp dx = Some x -> lookup x (S w k2) = Some (Dir dx).
Proof.
  intros w x dx k2 L R. unfold S.
  destruct (active_dec w k2) as [(d2 & n2 & A2)|A2]; [|rewrite step_inactive by exact A2; exact L].
  rewrite (step_active _ _ _ _ _ _ A2). apply frame_dir; [exact L|]. intros ->.
  destruct A2 as (L2 & _ & R2 & I2). rewrite L in L2; inversion L2; subst d2. rewrite R in R2; inversion R2; subst n2. apply I2; reflexivity.
Qed.
Lemma settled_pass : forall o w x dx, lookup x w = Some (Dir dx) -> d_recomp dx = Some x -> lookup x (mainpass rep true true w o) = Some (Dir dx).
Proof. unfold mainpass; induction o; intros w x dx L R; simpl; [exact L|]. apply IHo; [apply settled_step; assumption | exact R]. Qed.

(* a directory that appears during the loop at a path where there was none sits at its own recomputed path *)
Lemma new_dir_settled : forall o w x dx, J w -> (forall d0, lookup x w <> Some (Dir d0)) ->
  lookup x (mainpass rep true true w o) = Some (Dir dx) -> d_recomp dx = Some x.
Proof.
  induction o; intros w x dx HJ Hno H; [exfalso; exact (Hno _ H)|].
  change (mainpass rep true true w (a :: o)) with (mainpass rep true true (S w a) o) in H.
  destruct (lookup x (S w a)) as [[d0|t0]|] eqn:L0.
  - assert (R0 : d_recomp d0 = Some x).
    { unfold S in L0. destruct (active_dec w a) as [(d2 & n2 & A2)|A2]; [|rewrite step_inactive in L0 by exact A2; exfalso; exact (Hno _ L0)].
      rewrite (step_active _ _ _ _ _ _ A2) in L0. destruct HJ as (Hw & _ & _).
      destruct (frame_rev rep true w a d2 n2 A2 x d0 Hw L0) as (y & dy & Ly & [Cy _] & Hy).
      destruct Hy as [->|[-> ->]]; [exfalso; exact (Hno _ Ly)|].
      destruct A2 as (L2 & _ & R2 & _). rewrite Ly in L2; inversion L2; subst dy. unfold core in Cy. inversion Cy. congruence. }
    rewrite (settled_pass o _ _ _ L0 R0) in H. inversion H; subst. exact R0.
  - apply (IHo (S w a)); [apply J_step; exact HJ | intros d0 E; rewrite L0 in E; discriminate | exact H].
  - apply (IHo (S w a)); [apply J_step; exact HJ | intros d0 E; rewrite L0 in E; discriminate | exact H].
Qed.

Lemma cleanup_pass_all_ok : forall o w, J w -> covers w o -> forall k, ok rep (mainpass rep true true w o) k.
Proof.
  intros o w HJ Hc k. apply okc_ok.
  destruct (lookup k w) as [[d0|t0]|] eqn:L0.
  - apply pass_makes_okc; [exact HJ | exact (Hc _ _ L0)].
  - intros d n (L & _ & R & I). exfalso. apply I.
    rewrite (new_dir_settled o w k d HJ) in R; [inversion R; reflexivity | intros d0 E; rewrite L0 in E; discriminate | exact L].
  - intros d n (L & _ & R & I). exfalso. apply I.
    rewrite (new_dir_settled o w k d HJ) in R; [inversion R; reflexivity | intros d0 E; rewrite L0 in E; discriminate | exact L].
Qed.
End CleanupStep.

Lemma prepass_nolinks_id : forall o w, nolinks w -> prepass w o = w.
Proof.
  unfold prepass; induction o; intros w H; simpl; [reflexivity|].
  assert (E : prepass_step w a = w).
  { unfold prepass_step, prepass_step_gen, is_link. destruct (lookup a w) as [[d|t]|] eqn:L; try (rewrite andb_false_r; reflexivity). exfalso; exact (H a t L). }
  rewrite E. apply IHo; exact H.
Qed.

Theorem cleanup_idempotent : forall w o1 o2 o1' o2',
  wf w -> direct w -> clear w -> (forall k e, lookup k w = Some e -> In k o1) -> covers w o2 ->
  fix_ws true true o1' o2' (fix_ws true true o1 o2 w) = fix_ws true true o1 o2 w.
Proof.
  intros w o1 o2 o1' o2' Hw Hd Hc Ho1 Ho2. unfold fix_ws, run. simpl.
  set (w1 := prepass w o1).
  assert (Hl1 : nolinks w1).
  { intros x t L. pose proof (prepass_link_rev _ _ _ _ L) as L0.
    exact (prepass_nolink_at o1 w x t Hw Hd (Ho1 _ _ L0) L). }
  assert (W1 : wf w1) by (apply wf_prepass; exact Hw).
  assert (A1 : forall k d n, active w1 k d n -> active w k d n).
  { intros k d n (L & P & R & I). repeat split; try assumption. eapply prepass_dir_rev; eauto. }
  assert (J1 : J w1).
  { split; [exact W1|]. split; [exact Hl1|]. intros k d n A. left.
    destruct (lookup n w1) as [[dn|t]|] eqn:L; [|exfalso; exact (Hl1 _ _ L) | reflexivity].
    exfalso. apply (Hc _ _ _ (A1 _ _ _ A) dn). eapply prepass_dir_rev; eauto. }
  assert (C1 : covers w1 o2) by (intros k d L; apply (Ho2 k d); eapply prepass_dir_rev; eauto).
  set (w2 := mainpass true true true w1 o2).
  assert (J2 : J w2) by (apply J_pass; exact J1).
  destruct J2 as (_ & Hl2 & _).
  rewrite (prepass_nolinks_id o1' w2 Hl2).
  apply all_ok_pass_id. apply cleanup_pass_all_ok; assumption.
Qed.

Example cleanup_idem_hyps_sat :
  wf e_w /\ direct e_w /\ clear e_w /\ (forall k e, lookup k e_w = Some e -> In k [e_k1; e_k2; e_n2; mkkey 9 9 9]) /\ covers e_w [e_k2; e_k1].
Proof.
  destruct reach_hyps_sat as (H1 & A1 & _ & _ & _ & Hc & A2 & _).
  assert (K : forall k e, lookup k e_w = Some e ->
     (k = e_k1 /\ e = Dir e_d1) \/ (k = e_k2 /\ e = Dir e_d2) \/ (k = e_n2 /\ e = Link e_k2) \/ (k = mkkey 9 9 9 /\ e = Link e_k1)).
  { intros k e H. simpl in H.
    destruct (key_eqb e_k1 k) eqn:E1; [apply key_eqb_eq in E1; inversion H; auto|].
    destruct (key_eqb e_k2 k) eqn:E2; [apply key_eqb_eq in E2; inversion H; auto|].
    destruct (key_eqb e_n2 k) eqn:E3; [apply key_eqb_eq in E3; inversion H; auto|].
    destruct (key_eqb (mkkey 9 9 9) k) eqn:E4; [apply key_eqb_eq in E4; inversion H; auto 6 | discriminate]. }
  split; [exact H1|]. split; [|split; [|split; [|exact Hc]]].
  - intros x t L. destruct (K _ _ L) as [[_ E]|[[_ E]|[[-> E]|[-> E]]]]; try discriminate; inversion E; subst.
    + exists e_d2; split; [reflexivity|split; [reflexivity|discriminate]].
    + exists e_d1; split; [reflexivity|split; [reflexivity|discriminate]].
  - intros k d n A dn L. destruct A as (Lk & _ & R & _).
    destruct (K _ _ Lk) as [[-> E]|[[-> E]|[[_ E]|[_ E]]]]; try discriminate; inversion E; subst; simpl in R; inversion R; subst; simpl in L; discriminate.
  - intros k e L. destruct (K _ _ L) as [[-> _]|[[-> _]|[[-> _]|[-> _]]]]; simpl; auto.
Qed.

(* =========================================================================================
   Where d_recomp comes from: the identity the repair command recomputes from params.json
   (model/Deprecate.v `recompute`: the loader of model/Serial.v, then the identifier of
   model/Hash.v, with the classes as they are now).                                        *)
From Coq Require Import NArith.
From XV Require Import core.Value model.Hash model.Edits model.Seal model.Serial
  proofs.Hash_lemmas proofs.Neutral_lemmas proofs.Serial_lemmas proofs.Walk_reach_lemmas.
Close Scope Z_scope.

(* two class tables with the same declared arguments class by class (the type identifiers may differ:
   this is what @deprecate changes)                                                                *)
Definition same_args (cs cs' : classes) : Prop :=
  forall k, option_map c_args (nth_error cs k) = option_map c_args (nth_error cs' k).

Lemma def_of_same_args cs cs' fm h n : same_args cs cs' -> def_of cs fm h n = def_of cs' fm h n.
Proof.
  intros S. unfold def_of. destruct (nth_error h n) as [x|]; [|reflexivity].
  specialize (S (n_cls x)).
  destruct (nth_error cs (n_cls x)) as [c|], (nth_error cs' (n_cls x)) as [c'|]; cbn in S; try discriminate; [|reflexivity].
  inversion S as [E]. unfold xpmvalues. rewrite E. reflexivity.
Qed.

Lemma fold_left_ext2 {A S} (f g : S -> A -> S) (l : list A) :
  (forall s a, f s a = g s a) -> forall s, fold_left f l s = fold_left g l s.
Proof. intros E. induction l as [|a l IH]; intros s; cbn [fold_left]; [reflexivity|]. rewrite E. apply IH. Qed.

(* what is written to params.json does not mention the type identifier: the file written before the
   class was deprecated is the file that would be written now                                       *)
Lemma collect_same_args cs cs' fm h : same_args cs cs' ->
  forall fuel i st, collect cs fm h fuel i st = collect cs' fm h fuel i st.
Proof.
  intros S. induction fuel as [|f IH]; intros i st; cbn [collect]; [reflexivity|].
  destruct i as [v|n].
  - destruct v; try reflexivity.
    + apply fold_left_ext2. intros; apply IH.
    + apply fold_left_ext2. intros; apply IH.
    + apply IH.
  - destruct (mem n (snd st)); [reflexivity|]. rewrite (def_of_same_args cs cs' fm h n S).
    destruct (nth_error h n) as [x|]; [|reflexivity]. destruct (def_of cs' fm h n) as [d|]; [|reflexivity].
    assert (E1 : forall (l : list (bytes * value)) s,
               fold_left (fun st kv => collect cs fm h f (IVal (snd kv)) st) l s
               = fold_left (fun st kv => collect cs' fm h f (IVal (snd kv)) st) l s)
      by (intros; apply fold_left_ext2; intros; apply IH).
    assert (E2 : forall (l : list nat) s,
               fold_left (fun st p => collect cs fm h f (INode p) st) l s
               = fold_left (fun st p => collect cs' fm h f (INode p) st) l s)
      by (intros; apply fold_left_ext2; intros; apply IH).
    cbv zeta. rewrite !E2, E1. destruct (n_task x); [rewrite IH|]; reflexivity.
Qed.

Lemma save_same_args cs cs' fm h fuel r : same_args cs cs' -> save cs fm h fuel r = save cs' fm h fuel r.
Proof. intros S. unfold save. rewrite (collect_same_args cs cs' fm h S). reflexivity. Qed.

(* the definitions of a saved graph always load (their class is known) *)
Lemma load_into_saved cs h : forall ds g,
  (forall d, In d ds -> def_of cs true h (d_id d) = Some d) -> exists g', load_into cs true true g ds = Some g'.
Proof.
  induction ds as [|d ds IH]; intros g Hd; cbn [load_into]; [eexists; reflexivity|].
  pose proof (Hd d (or_introl eq_refl)) as Ed. unfold def_of in Ed.
  destruct (nth_error h (d_id d)) as [x|]; [|discriminate].
  destruct (nth_error cs (n_cls x)) as [c|] eqn:Ec; [|discriminate].
  assert (Ecl : d_cls d = n_cls x) by (inversion Ed; reflexivity).
  unfold load_node. rewrite Ecl, Ec. apply IH. intros d' Hd'. apply Hd. right. exact Hd'.
Qed.

(* THE RECOMPUTED IDENTITY.  A graph h was submitted (root r) when the classes were cs0; its params.json holds
   `save cs0 true h fuel r`.  The classes are now cs: same declared arguments, other type identifiers
   (deprecated classes carry the identifier of their replacement).  Whatever the graph holds - meta flags of
   the three kinds at any position, shared and cyclic configurations, pre-tasks, init tasks - the path the repair
   command computes from the file is (type identifier of the root's class now, full identifier of h under
   the classes of now): what a submit of the same graph answers today.                                    *)
Theorem recompute_is_identity H cs0 cs h fuel r f x c d :
  same_args cs0 cs ->
  wf_heap h -> fields_nodup h -> (forall c, In c cs -> NoDup (map a_name (c_args c))) ->
  (forall n, complete_at cs h n) ->
  resolves (save cs0 true h fuel r) = true ->
  nth_error h r = Some x -> nth_error cs (n_cls x) = Some c ->
  full_pure H cs h f r = Ok d ->
  recompute H cs true f h (save cs0 true h fuel r) r = Some (c_tid c, d).
Proof.
  intros S W N Hc Comp Res Ex Ec E.
  rewrite (save_same_args cs0 cs true h fuel r S) in *.
  destruct (load_into_saved cs h (save cs true h fuel r) h (save_defs_ok cs h fuel r)) as [h' L].
  assert (R : reload cs true true h fuel r = Some h') by (unfold reload; rewrite Res; exact L).
  destruct (reload_ident cs H h fuel r h' (fun _ => None)) as [[_ Eq] _]; [intros d0 _; apply Comp|exact R|].
  pose proof (reload_full_ident cs H h fuel r h' W N Hc Comp R f r d (nth_error_lt h r x Ex) E) as E'.
  unfold recompute, loaded. rewrite Res, L.
  specialize (Eq r). rewrite Ex in Eq. destruct (nth_error h' r) as [y|]; [|contradiction].
  destruct Eq as [Ecl _]. rewrite <- Ecl, Ec, E'. reflexivity.
Qed.

(* ... and a graph written with the replacement class has that identity: the FULL identifier (the name of
   the job directory) of every node is unchanged when a node moves to a class with the same type identifier
   and the same arguments (the raw-identifier statement is reclass_neutral)                              *)
Theorem reclass_full H cs h n x c c' k' :
  wf_heap h -> nth_error h n = Some x -> nth_error cs (n_cls x) = Some c -> nth_error cs k' = Some c' ->
  same_sig_class c c' ->
  forall fuel m d, m < length h ->
    full_pure H cs h fuel m = Ok d -> full_pure H cs (upd_nth h n (with_cls x k')) fuel m = Ok d.
Proof.
  intros W Ex Ec Ec' Sg fuel m d Lm E.
  apply (full_pure_same_succs H cs cs h (upd_nth h n (with_cls x k')) fuel m d W); try assumption.
  - split; [symmetry; apply upd_nth_length_eq|]. intros k. destruct (Nat.eq_dec n k) as [<-|D].
    + rewrite nth_upd_same by (apply nth_error_Some; congruence). rewrite Ex.
      split; [intros q; reflexivity|split; reflexivity].
    + rewrite nth_upd_other by exact D. destruct (nth_error h k); [|exact I]. split; [tauto|split; reflexivity].
  - intros k. unfold raw_pure. rewrite (reclass_neutral H cs h (fun _ => None) n x c c' k' Ex Ec Ec' Sg fuel k). reflexivity.
Qed.

(* ---- a concrete instance: Aux(x), NewTask(n, aux: Meta[Optional[Aux]] = None), OldTask(NewTask) deprecated;
   the stored job is OldTask(n=1, aux=setmeta(Aux(x=3), False))                                            *)
Definition rx_arg (nm : bytes) (ign req : bool) : argdecl :=
  {| a_name := nm; a_ignored := ign; a_gen := false; a_const := false; a_required := req; a_default := None |}.
Definition rx_aux : class := {| c_tid := [97]%N; c_args := [rx_arg [120]%N false true] |}.
Definition rx_task (tid : bytes) : class :=
  {| c_tid := tid; c_args := [rx_arg [110]%N false true; rx_arg [97]%N true false] |}.
Definition rx_before : classes := [rx_aux; rx_task [116]%N; rx_task [111]%N].   (* the old class has its own type identifier *)
Definition rx_now : classes := [rx_aux; rx_task [116]%N; rx_task [116]%N].      (* @deprecate: the identifier of the parent *)
(* the hash function of the instance: the identity (the byte stream itself; what distinguishes two streams
   distinguishes their digests under any injective hash).  SHA-256 is used in the correspondence run.      *)
Definition rx_H : bytes -> bytes := fun b => b.
Definition rx_old_task : node :=
  {| n_cls := 2; n_fields := [([110]%N, VInt 1); ([97]%N, VRef 0)]; n_meta := None; n_task := None; n_pre := []; n_init := [] |}.
Definition rx_heap : heap :=
  [ {| n_cls := 0; n_fields := [([120]%N, VInt 3)]; n_meta := Some false; n_task := None; n_pre := []; n_init := [] |};
    rx_old_task ].

(* the record of a family of defects: a loader that restores the meta flag only when it is truthy loses the
   explicit False; the member is no longer counted and another identity is recomputed            *)
Lemma recompute_truthy_refuted :
  exists a b, recompute rx_H rx_now true 20 rx_heap (save rx_before true rx_heap 20 1) 1 = Some a /\
              recompute rx_H rx_now false 20 rx_heap (save rx_before true rx_heap 20 1) 1 = Some b /\
              snd a <> snd b.
Proof.
  eexists. eexists. split; [vm_compute; reflexivity|]. split; [vm_compute; reflexivity|].
  cbn [snd]. intros E. discriminate E.
Qed.

(* the hypotheses of recompute_is_identity and reclass_full are satisfiable by that instance; the identity
   under the classes of now is the one of the graph written with the replacement class, and is not the one the
   job was stored under                                                                                       *)
Example recompute_hyps_sat :
  same_args rx_before rx_now /\ wf_heap rx_heap /\ fields_nodup rx_heap /\
  (forall c, In c rx_now -> NoDup (map a_name (c_args c))) /\ (forall n, complete_at rx_now rx_heap n) /\
  resolves (save rx_before true rx_heap 20 1) = true /\
  same_sig_class (rx_task [116]%N) (rx_task [116]%N) /\
  exists d, full_pure rx_H rx_now rx_heap 20 1 = Ok d /\
            full_pure rx_H rx_now (upd_nth rx_heap 1 (with_cls rx_old_task 1)) 20 1 = Ok d /\
            full_pure rx_H rx_before rx_heap 20 1 <> Ok d.
Proof.
  assert (ND1 : NoDup (map a_name (c_args rx_aux))) by (cbn; repeat constructor; cbn; intuition discriminate).
  assert (ND2 : forall t, NoDup (map a_name (c_args (rx_task t)))) by (intros t; cbn; repeat constructor; cbn; intuition discriminate).
  split; [intros [|[|[|k]]]; try reflexivity; destruct k; reflexivity|].
  split.
  { intros n x Ex m Hm. destruct n as [|[|n]]; cbn in Ex.
    - inversion Ex; subst; cbn in Hm; contradiction.
    - inversion Ex; subst; cbn in Hm. destruct Hm as [<-|[]]. cbn. lia.
    - destruct n; discriminate. }
  split.
  { intros n x Ex. destruct n as [|[|n]]; cbn in Ex; [| |destruct n; discriminate]; inversion Ex; subst; cbn;
      repeat constructor; cbn; intuition discriminate. }
  split.
  { intros c Hc. cbn in Hc. destruct Hc as [<-|[<-|[<-|[]]]]; [exact ND1|apply ND2|apply ND2]. }
  split.
  { intros n x c Ex Ec. destruct n as [|[|n]]; cbn in Ex; [| |destruct n; discriminate]; inversion Ex; subst; cbn in Ec; inversion Ec; subst.
    - split; [exact ND1|]. split.
      + intros k v [Hk|[]]. inversion Hk; subst. exists (rx_arg [120]%N false true). split; [left; reflexivity|reflexivity].
      + split; [cbn; repeat constructor; cbn; intuition discriminate|].
        intros a [<-|[]] [Hd|Hr]; cbn in *; [congruence|discriminate].
    - split; [apply ND2|]. split.
      + intros k v [Hk|[Hk|[]]]; inversion Hk; subst;
          [exists (rx_arg [110]%N false true)|exists (rx_arg [97]%N true false)]; (split; [cbn; tauto|reflexivity]).
      + split; [cbn; repeat constructor; cbn; intuition discriminate|].
        intros a [<-|[<-|[]]] _; cbn; discriminate. }
  split; [vm_compute; reflexivity|].
  split; [split; [reflexivity|split; [apply Permutation_refl|apply ND2]]|].
  eexists. split; [vm_compute; reflexivity|]. split; [vm_compute; reflexivity|].
  vm_compute. intros E. discriminate E.
Qed.

(* =========================================================================================
   What @deprecate does to the class table (model/Deprecate.v `deprecate`, `deprecate_all`):
   the hypothesis `same_sig_class` of the identifier theorems is DERIVED from it.            *)
Lemma deprecate_other cs k p j : j <> k -> nth_error (deprecate cs k p) j = nth_error cs j.
Proof.
  intros D. unfold deprecate. destruct (nth_error cs k); [|reflexivity]. destruct (nth_error cs p); [|reflexivity].
  apply nth_upd_other. congruence.
Qed.

Lemma deprecate_at cs k p c pc : nth_error cs k = Some c -> nth_error cs p = Some pc ->
  nth_error (deprecate cs k p) k = Some {| c_tid := c_tid pc; c_args := c_args c |}.
Proof.
  intros Ek Ep. unfold deprecate. rewrite Ek, Ep. apply nth_upd_same. eapply nth_error_lt; eassumption.
Qed.

(* the declared arguments are untouched: the params.json written before the deprecation is the one written after *)
Lemma deprecate_same_args cs k p : same_args cs (deprecate cs k p).
Proof.
  intros j. destruct (Nat.eq_dec j k) as [->|D]; [|rewrite (deprecate_other cs k p j D); reflexivity].
  unfold deprecate. destruct (nth_error cs k) as [c|] eqn:Ek; [|rewrite Ek; reflexivity].
  destruct (nth_error cs p) as [pc|]; [|rewrite Ek; reflexivity].
  rewrite nth_upd_same by (eapply nth_error_lt; eassumption). reflexivity.
Qed.

Lemma same_args_trans a b c : same_args a b -> same_args b c -> same_args a c.
Proof. intros X Y j. rewrite (X j). apply Y. Qed.

Lemma deprecate_all_same_args : forall steps cs, same_args cs (deprecate_all cs steps).
Proof.
  induction steps as [|s steps IH]; intros cs; [intros j; reflexivity|].
  cbn [deprecate_all fold_left]. eapply same_args_trans; [apply deprecate_same_args|apply IH].
Qed.

Lemma same_args_at cs cs' j c : same_args cs cs' -> nth_error cs j = Some c ->
  exists c', nth_error cs' j = Some c' /\ c_args c' = c_args c.
Proof.
  intros S E. specialize (S j). rewrite E in S. destruct (nth_error cs' j) as [c'|]; [|discriminate].
  exists c'. split; [reflexivity|]. cbn in S. congruence.
Qed.

(* later deprecations of OTHER classes leave the pair alone *)
Lemma deprecate_all_frame : forall s2 cs k p c pc,
  nth_error cs k = Some c -> nth_error cs p = Some pc ->
  (forall s, In s s2 -> fst s <> k /\ fst s <> p) ->
  nth_error (deprecate_all cs s2) k = Some c /\ nth_error (deprecate_all cs s2) p = Some pc.
Proof.
  induction s2 as [|s s2 IH]; intros cs k p c pc Ek Ep Hs; [split; assumption|].
  cbn [deprecate_all fold_left]. destruct (Hs s (or_introl eq_refl)) as [Dk Dp].
  apply IH; [rewrite deprecate_other by congruence; exact Ek|rewrite deprecate_other by congruence; exact Ep|].
  intros s' Hs'. apply Hs. right. exact Hs'.
Qed.

(* after the deprecations s1, then `@deprecate class k(p)`, then the deprecations s2 of other classes: the class k
   and its replacement p have the same type identifier and the same arguments                                 *)
Lemma deprecate_all_same_sig cs s1 k p s2 c pc :
  nth_error cs k = Some c -> nth_error cs p = Some pc -> k <> p ->
  Permutation (c_args c) (c_args pc) -> NoDup (map a_name (c_args c)) ->
  (forall s, In s s2 -> fst s <> k /\ fst s <> p) ->
  exists c' pc', nth_error (deprecate_all cs (s1 ++ (k, p) :: s2)) k = Some c' /\
                 nth_error (deprecate_all cs (s1 ++ (k, p) :: s2)) p = Some pc' /\ same_sig_class c' pc'.
Proof.
  intros Ek Ep D P ND Hs.
  unfold deprecate_all. rewrite fold_left_app. cbn [fold_left fst snd].
  set (cs1 := fold_left (fun cs s => deprecate cs (fst s) (snd s)) s1 cs).
  destruct (same_args_at cs cs1 k c (deprecate_all_same_args s1 cs) Ek) as [c1 [Ek1 Ea1]].
  destruct (same_args_at cs cs1 p pc (deprecate_all_same_args s1 cs) Ep) as [p1 [Ep1 Eb1]].
  pose proof (deprecate_at cs1 k p c1 p1 Ek1 Ep1) as Ek2.
  assert (Ep2 : nth_error (deprecate cs1 k p) p = Some p1) by (rewrite deprecate_other by congruence; exact Ep1).
  destruct (deprecate_all_frame s2 (deprecate cs1 k p) k p _ _ Ek2 Ep2 Hs) as [F1 F2].
  eexists. eexists. split; [exact F1|]. split; [exact F2|].
  split; [reflexivity|]. cbn [c_args]. rewrite Ea1, Eb1. split; assumption.
Qed.

(* A CONFIGURATION WHOSE CLASS IS DEPRECATED HAS THE IDENTIFIER ITS REPLACEMENT WOULD YIELD.  cs: the classes as
   declared; the deprecations are performed in the order python executes them; x: any node of any graph whose class
   is the deprecated class k.  Writing the graph with the replacement class p instead changes the identifier of NO
   node (raw identifier, any hash function, any cache state) ...                                              *)
Theorem deprecate_same_identifier H cs s1 k p s2 c pc h look n x :
  nth_error cs k = Some c -> nth_error cs p = Some pc -> k <> p ->
  Permutation (c_args c) (c_args pc) -> NoDup (map a_name (c_args c)) ->
  (forall s, In s s2 -> fst s <> k /\ fst s <> p) ->
  nth_error h n = Some x -> n_cls x = k ->
  forall fuel m, raw_ident H (deprecate_all cs (s1 ++ (k, p) :: s2)) h look fuel m
               = raw_ident H (deprecate_all cs (s1 ++ (k, p) :: s2)) (upd_nth h n (with_cls x p)) look fuel m.
Proof.
  intros Ek Ep D P ND Hs Ex Ecl fuel m.
  destruct (deprecate_all_same_sig cs s1 k p s2 c pc Ek Ep D P ND Hs) as [c' [pc' [E1 [E2 Sg]]]].
  apply (reclass_neutral H _ h look n x c' pc' p Ex); [rewrite Ecl; exact E1|exact E2|exact Sg].
Qed.

(* ... nor the FULL identifier (the name of the job directory) of any node *)
Theorem deprecate_same_full_identifier H cs s1 k p s2 c pc h n x :
  nth_error cs k = Some c -> nth_error cs p = Some pc -> k <> p ->
  Permutation (c_args c) (c_args pc) -> NoDup (map a_name (c_args c)) ->
  (forall s, In s s2 -> fst s <> k /\ fst s <> p) ->
  wf_heap h -> nth_error h n = Some x -> n_cls x = k ->
  forall fuel m d, m < length h ->
    full_pure H (deprecate_all cs (s1 ++ (k, p) :: s2)) h fuel m = Ok d ->
    full_pure H (deprecate_all cs (s1 ++ (k, p) :: s2)) (upd_nth h n (with_cls x p)) fuel m = Ok d.
Proof.
  intros Ek Ep D P ND Hs W Ex Ecl fuel m d Lm E.
  destruct (deprecate_all_same_sig cs s1 k p s2 c pc Ek Ep D P ND Hs) as [c' [pc' [E1 [E2 Sg]]]].
  apply (reclass_full H _ h n x c' pc' p W Ex); [rewrite Ecl; exact E1|exact E2|exact Sg|exact Lm|exact E].
Qed.

(* the instance above IS a deprecation: rx_now = @deprecate applied to rx_before; and a class renamed twice
   (Older(Old), Old(New): two deprecations, the parent first) ends with the identifier of New               *)
Example rx_now_is_deprecate : deprecate_all rx_before [(2, 1)] = rx_now.
Proof. reflexivity. Qed.
Example deprecate_chain :
  map c_tid (deprecate_all [rx_task [110]%N; rx_task [111]%N; rx_task [114]%N] [(1, 0); (2, 1)]) = [[110]%N; [110]%N; [110]%N] /\
  (* ... but not if the order were the other one (python cannot produce it: a parent is defined before its child) *)
  map c_tid (deprecate_all [rx_task [110]%N; rx_task [111]%N; rx_task [114]%N] [(2, 1); (1, 0)]) = [[110]%N; [110]%N; [111]%N].
Proof. split; reflexivity. Qed.
(* without the swap the deprecated class keeps another identity: the theorem rests on what `deprecate` does *)
Example without_deprecate_differs :
  full_pure rx_H rx_before rx_heap 20 1 <> full_pure rx_H rx_before (upd_nth rx_heap 1 (with_cls rx_old_task 1)) 20 1.
Proof. vm_compute. intros E. discriminate E. Qed.

(* =========================================================================================
   Two directories stored under two FORMER identifiers of ONE configuration (a class renamed twice, a job run
   before and after each renaming ...): the hypothesis "claimed by no other directory" of fix_reaches.      *)
Open Scope Z_scope.

(* link mode: the claimant of n that is examined FIRST gets the new path, whatever comes later *)
Theorem first_claimant_reaches : forall o1 pr post w k d n,
  wf w -> active w k d n -> lookup n w = None ->
  (forall x dx, In x pr -> lookup x w = Some (Dir dx) -> d_recomp dx <> Some n) ->
  let w' := fix_ws true false o1 (pr ++ k :: post) w in
  exists d', resolve w' n = Some (k, d') /\ core d' = core d /\ incl (d_done d) (d_done d') /\
             (In (k_name k) (d_done d) -> found w' n = true).
Proof.
  intros o1 pr post w k d n Hw (L & P & R & I) Hfree Hpre. unfold fix_ws, run. cbn [andb].
  unfold mainpass. rewrite fold_left_app. cbn [fold_left].
  (* 1. the steps before k leave n free and k where it is *)
  assert (Q : forall l w0, (forall x, In x l -> In x pr) ->
            wf w0 -> lookup n w0 = None -> (exists dk, lookup k w0 = Some (Dir dk) /\ grows d dk) ->
            (forall x dx, In x pr -> lookup x w0 = Some (Dir dx) -> d_recomp dx <> Some n) ->
            let w1 := fold_left (main_step true true false) l w0 in
            wf w1 /\ lookup n w1 = None /\ (exists dk, lookup k w1 = Some (Dir dk) /\ grows d dk)).
  { induction l as [|x l IH]; intros w0 Hl W0 N0 K0 C0; cbn [fold_left]; [repeat split; assumption|].
    assert (Hx : In x pr) by (apply Hl; left; reflexivity).
    assert (Dxk : x <> k).
    { intros ->. destruct K0 as (dk & Lk & [Ck _]). apply (C0 k dk Hx Lk).
      unfold core in Ck. inversion Ck. congruence. }
    apply IH.
    - intros y Hy. apply Hl. right. exact Hy.
    - apply wf_step. exact W0.
    - destruct (active_dec w0 x) as [(dx & nx & A)|A]; [|rewrite step_inactive by exact A; exact N0].
      rewrite (step_active _ _ _ _ _ _ A). apply (frame_none true false w0 x dx nx A); [exact N0|].
      intros ->. destruct A as (Lx & _ & Rx & _). exact (C0 x dx Hx Lx Rx).
    - destruct K0 as (dk & Lk & G). exists dk. split; [|exact G].
      destruct (active_dec w0 x) as [(dx & nx & A)|A]; [|rewrite step_inactive by exact A; exact Lk].
      rewrite (step_active _ _ _ _ _ _ A). apply (frame_dir true false w0 x nx); [exact Lk|congruence].
    - intros y dy Hy Ly.
      destruct (step_link_dir_rev true w0 x y dy W0 Ly) as [[_ Ly0]|[-> [d0 Ly0]]]; [exact (C0 y dy Hy Ly0)|].
      (* y = x: its content may have grown, its recomputed identity has not *)
      destruct (active_dec w0 x) as [(dx & nx & A)|A].
      + destruct A as (Lx & Px & Rx & Ix). intros Rn.
        assert (A : active w0 x dx nx) by (repeat split; assumption).
        rewrite (step_active _ _ _ _ _ _ A) in Ly.
        destruct (act_link_k true w0 x dx nx A) as (d1 & L1 & C1 & _). cbn zeta in L1. rewrite L1 in Ly. inversion Ly; subst d1.
        unfold core in C1. inversion C1. apply (C0 x dx Hx Lx). congruence.
      + rewrite step_inactive in Ly by exact A. exact (C0 x dy Hy Ly). }
  destruct (Q pr w (fun x H => H) Hw Hfree (ex_intro _ d (conj L (grows_refl d))) Hpre) as (W1 & N1 & dk & Lk & [Ck Ik]).
  set (w1 := fold_left (main_step true true false) pr w) in *.
  assert (Ek : d_params dk = true /\ d_recomp dk = Some n) by (unfold core in Ck; inversion Ck; split; congruence).
  destruct Ek as [Pk Rk].
  assert (A1 : active w1 k dk n) by (repeat split; assumption).
  (* 2. the step of k creates the link n -> k *)
  rewrite (step_active _ _ _ _ _ _ A1).
  assert (Hkn : key_eqb n k = false).
  { apply key_eqb_neq. intros E. apply I. rewrite E. reflexivity. }
  assert (Epre : pre w1 n = w1).
  { unfold pre, is_link. rewrite N1. reflexivity. }
  assert (R2 : exists d2, resolve (act true false w1 k n) n = Some (k, d2) /\ grows dk d2 /\
                          (In (k_name k) (d_done dk) -> In (k_name n) (d_done d2))).
  { unfold act. rewrite Epre. rewrite (resolve_none w1 n N1).
    exists (alias (k_name k) (k_name n) dk). split; [|split; [apply alias_grows|apply alias_done]].
    apply resolve_link.
    - rewrite lookup_update_dir. rewrite key_eqb_sym, Hkn. rewrite lookup_add_link, N1, key_eqb_refl. reflexivity.
    - rewrite lookup_update_dir, key_eqb_refl. rewrite lookup_add_link, Lk. reflexivity. }
  destruct R2 as (d2 & R2 & [C2 I2] & D2).
  (* 3. the later steps preserve what n leads to *)
  destruct (rpres_mainpass_link true post (act true false w1 k n) maxhops n k d2 (le_n _) R2) as (d3 & R3 & [C3 I3]).
  unfold mainpass in R3. exists d3. split; [exact R3|]. split; [congruence|].
  split; [intros z Hz; apply I3, I2, Ik; exact Hz|].
  intros Hd. unfold found, resolve. rewrite R3. apply memZ_in. apply I3. apply D2. apply Ik. exact Hd.
Qed.

(* THE LIMITATION.  k1 never finished, k2 holds a finished result, both recompute to n, n is free.  Whatever the
   mode: if the file system lists k1 first the new identifier leads to k1 - a re-submit does not find the result
   that exists -, if it lists k2 first it leads to k2; in either case the other directory is not reachable under
   the new identifier ("every job directory stored under a former identifier" cannot hold: there is one path). *)
Definition tc_k1 : key := mkkey 1 1 11.
Definition tc_k2 : key := mkkey 1 1 12.
Definition tc_n : key := mkkey 1 1 20.
Definition tc_d1 : data := mkdata 101 true (Some tc_n) [].
Definition tc_d2 : data := mkdata 102 true (Some tc_n) [1].
Definition tc_w : ws := [(tc_k1, Dir tc_d1); (tc_k2, Dir tc_d2)].

Theorem two_former_identifiers_refuted :
  wf tc_w /\ active tc_w tc_k1 tc_d1 tc_n /\ active tc_w tc_k2 tc_d2 tc_n /\ lookup tc_n tc_w = None /\
  forall cl,
    option_map (fun r => d_mark (snd r)) (resolve (fix_ws true cl [tc_k1; tc_k2] [tc_k1; tc_k2] tc_w) tc_n) = Some 101 /\
    found (fix_ws true cl [tc_k1; tc_k2] [tc_k1; tc_k2] tc_w) tc_n = false /\
    option_map (fun r => d_mark (snd r)) (resolve (fix_ws true cl [tc_k2; tc_k1] [tc_k2; tc_k1] tc_w) tc_n) = Some 102 /\
    found (fix_ws true cl [tc_k2; tc_k1] [tc_k2; tc_k1] tc_w) tc_n = true.
Proof.
  split; [repeat constructor; simpl; intuition discriminate|].
  split; [repeat split; simpl; discriminate|].
  split; [repeat split; simpl; discriminate|].
  split; [reflexivity|]. intros [|]; repeat split.
Qed.

(* the hypotheses of first_claimant_reaches hold for the directory examined first, in both orders *)
Example first_claimant_hyps_sat :
  (forall x dx, In x [] -> lookup x tc_w = Some (Dir dx) -> d_recomp dx <> Some tc_n) /\
  found (fix_ws true false [] ([] ++ tc_k2 :: [tc_k1]) tc_w) tc_n = true.
Proof. split; [intros x dx []|reflexivity]. Qed.
Close Scope Z_scope.

(* the hypotheses of deprecate_same_identifier / deprecate_same_full_identifier are satisfiable: the instance above *)
Example deprecate_hyps_sat :
  nth_error rx_before 2 = Some (rx_task [111]%N) /\ nth_error rx_before 1 = Some (rx_task [116]%N) /\ 2 <> 1 /\
  Permutation (c_args (rx_task [111]%N)) (c_args (rx_task [116]%N)) /\ NoDup (map a_name (c_args (rx_task [111]%N))) /\
  (forall s : nat * nat, In s [] -> fst s <> 2 /\ fst s <> 1) /\
  nth_error rx_heap 1 = Some rx_old_task /\ n_cls rx_old_task = 2 /\
  exists d, full_pure rx_H (deprecate_all rx_before ([] ++ (2, 1) :: [])) rx_heap 20 1 = Ok d.
Proof.
  split; [reflexivity|]. split; [reflexivity|]. split; [lia|]. split; [apply Permutation_refl|].
  split; [cbn; repeat constructor; cbn; intuition discriminate|]. split; [intros s []|].
  split; [reflexivity|]. split; [reflexivity|]. eexists. vm_compute. reflexivity.
Qed.

(* `--cleanup` MOVES the directory: its former path no longer exists afterwards (in link mode it still does).  Whatever
   pointed at the former path from outside jobs/ - the links xp/<name>/jobs/<type>/<id> the scheduler makes for the
   experiments, which `orphans` reads - dangles unless the command re-points it (fixes/C20-4; the workspace model has
   no xp/ part: observed by the oracle, key C20:experiment-index-broken:cleanup)                                  *)
Lemma cleanup_moves_former_path :
  lookup xk (fix_ws true true [] [xk] xw) = None /\ lookup xn (fix_ws true true [] [xk] xw) <> None /\
  exists d', lookup xk (fix_ws true false [] [xk] xw) = Some (Dir d').
Proof. split; [reflexivity|]. split; [discriminate|]. eexists. reflexivity. Qed.

Open Scope Z_scope.
(* =========================================================================================
   Interrupted repairs (model/Deprecate.v `partials`, `interrupted`).                       *)

(* ---- what an interruption inside the iteration on x can leave *)
Lemma partials_cases : forall cl w x wi, In wi (partials cl w x) ->
  exists dx nx, active w x dx nx /\
    (wi = pre w nx \/
     (resolve (pre w nx) nx = None /\
      ((cl = true /\ wi = update_dir x (alias (k_name x) (k_name nx)) (pre w nx)) \/
       (cl = false /\ wi = add_link nx x (pre w nx))))).
Proof.
  intros cl w x wi. unfold partials.
  destruct (yielded w x) eqn:Y; cbn [negb]; [|intros []].
  destruct (lookup x w) as [[dx|t]|] eqn:L; [|intros []|intros []].
  destruct (d_recomp dx) as [nx|] eqn:R; [|intros []].
  destruct (k_id nx =? k_id x) eqn:E; [intros []|].
  assert (A : active w x dx nx).
  { repeat split; try assumption; [rewrite (yielded_dir _ _ _ L) in Y; exact Y|apply Z.eqb_neq; exact E]. }
  fold (pre w nx). intros Hin. exists dx, nx. split; [exact A|].
  destruct (resolve (pre w nx) nx) as [[k' dn]|] eqn:RS.
  - destruct Hin as [<-|[]]. left; reflexivity.
  - destruct cl; destruct Hin as [<-|[<-|[]]]; try (left; reflexivity); right; split; auto.
Qed.

(* ---- a modification that concerns the entry x only *)
Definition benign (n x : key) (w w' : ws) : Prop :=
  wf w' /\
  (forall y dy, y <> x -> lookup y w = Some (Dir dy) -> lookup y w' = Some (Dir dy)) /\
  (lookup n w = None -> lookup n w' = None) /\
  (forall t, lookup n w = Some (Link t) -> exists_ w n = true -> lookup n w' = Some (Link t)) /\
  (forall y dy', lookup y w' = Some (Dir dy') ->
     exists z dz, lookup z w = Some (Dir dz) /\ core dz = core dy' /\ (z = y \/ z = x)).

Lemma unc_benign : forall n x t w w', benign n x w w' -> x <> t -> unc n t w -> unc n t w'.
Proof.
  intros n x t w w' (_ & _ & _ & _ & B4) Hx U y dy' L R.
  destruct (B4 y dy' L) as (z & dz & Lz & C & Hz).
  assert (Rz : d_recomp dz = Some n) by (unfold core in C; inversion C; congruence).
  pose proof (U z dz Lz Rz) as E. destruct Hz as [-> | ->]; [exact E|contradiction].
Qed.

Lemma benign_P1 : forall k d n x w w', benign n x w w' -> x <> k -> P1 k d n w -> P1 k d n w'.
Proof.
  intros k d n x w w' B Hx (Lk & Ln & U). pose proof B as (_ & B1 & B2 & B3 & _).
  split; [apply B1; [congruence|exact Lk]|]. split.
  - destruct Ln as [Ln|Ln]; [left; apply B2; exact Ln|right; apply (B3 k Ln)].
    unfold exists_. rewrite (resolve_link _ _ _ _ Ln Lk). reflexivity.
  - eapply unc_benign; eauto.
Qed.
Lemma benign_P2 : forall k d n x w w', benign n x w w' -> x <> k -> P2 k d n w -> P2 k d n w'.
Proof.
  intros k d n x w w' B Hx (d' & Lk & Ln & G & U). pose proof B as (_ & B1 & _ & B3 & _).
  exists d'. split; [apply B1; [congruence|exact Lk]|]. split.
  - apply (B3 k Ln). unfold exists_. rewrite (resolve_link _ _ _ _ Ln Lk). reflexivity.
  - split; [exact G|]. eapply unc_benign; eauto.
Qed.
Lemma benign_P3 : forall k d n x w w', benign n x w w' -> x <> n -> P3 k d n w -> P3 k d n w'.
Proof.
  intros k d n x w w' B Hx (d' & Ln & G & U). pose proof B as (_ & B1 & _ & _ & _).
  exists d'. split; [apply B1; [congruence|exact Ln]|]. split; [exact G|]. eapply unc_benign; eauto.
Qed.

(* the three kinds of partial states are benign *)
Lemma benign_pre : forall n x w nx, wf w -> nx <> n -> benign n x w (pre w nx).
Proof.
  intros n x w nx Hw Hn. split; [apply wf_pre; exact Hw|].
  split; [intros y dy _ L; apply pre_dir; exact L|].
  split; [intros L; rewrite pre_other by congruence; exact L|].
  split; [intros t L _; rewrite pre_other by congruence; exact L|].
  intros y dy' L. exists y, dy'. split; [eapply pre_dir_rev; eauto|]. split; [reflexivity|left; reflexivity].
Qed.
Lemma benign_link : forall n x w dx nx, wf w -> active w x dx nx -> nx <> n -> benign n x w (act false false w x nx).
Proof.
  intros n x w dx nx Hw A Hn. split; [apply wf_act; exact Hw|].
  split; [intros y dy Hy L; apply (frame_dir false false w x nx y dy L Hy)|].
  split; [intros L; apply (frame_none false false w x dx nx A n L); congruence|].
  split; [intros t L E; apply (frame_link false false w x dx nx A n t L E)|].
  intros y dy' L. destruct (frame_rev false false w x dx nx A y dy' Hw L) as (z & dz & Lz & [C _] & Hz).
  exists z, dz. split; [exact Lz|]. split; [exact C|]. destruct Hz as [->|[-> _]]; [left|right]; reflexivity.
Qed.
Lemma benign_alias : forall n x w nx a b, wf w -> nx <> n -> x <> n -> benign n x w (update_dir x (alias a b) (pre w nx)).
Proof.
  intros n x w nx a b Hw Hn Hxn. split; [apply wf_update_dir, wf_pre; exact Hw|].
  split; [intros y dy Hy L; rewrite lookup_update_other by exact Hy; apply pre_dir; exact L|].
  split; [intros L; rewrite lookup_update_other by congruence; rewrite pre_other by congruence; exact L|].
  split; [intros t L _; rewrite lookup_update_other by congruence; rewrite pre_other by congruence; exact L|].
  intros y dy' L. rewrite lookup_update_dir in L. destruct (key_eqb x y) eqn:E.
  - apply key_eqb_eq in E; subst y. destruct (lookup x (pre w nx)) as [[d0|t]|] eqn:L0; try discriminate.
    inversion L; subst dy'. exists x, d0. split; [eapply pre_dir_rev; eauto|]. split; [symmetry; apply alias_core|left; reflexivity].
  - exists y, dy'. split; [eapply pre_dir_rev; eauto|]. split; [reflexivity|left; reflexivity].
Qed.
Lemma act_link_partial : forall w x nx, resolve (pre w nx) nx = None -> add_link nx x (pre w nx) = act false false w x nx.
Proof. intros w x nx R. unfold act. rewrite R. reflexivity. Qed.

Section Interrupted.
Variables (cl : bool) (k : key) (d : data) (n : key).
Hypothesis Hp : d_params d = true.
Hypothesis Hr : d_recomp d = Some n.
Hypothesis Hi : k_id n <> k_id k.

(* the situation of the job (k, stored under a former identifier; n, its new path) in a workspace: not yet repaired,
   linked, or moved - for some content d1 of the directory that has grown from d *)
Definition inv (w : ws) : Prop :=
  exists d1, grows d d1 /\ (In (k_name k) (d_done d) -> In (k_name k) (d_done d1)) /\
             (P1 k d1 n w \/ P2 k d1 n w \/ (cl = true /\ P3 k d1 n w)).

Lemma grows_hyps : forall d1, grows d d1 -> d_params d1 = true /\ d_recomp d1 = Some n.
Proof. intros d1 [C _]. unfold core in C. inversion C. split; congruence. Qed.

(* the entry x <> k being stepped: its new path is not n, and it is not n *)
Lemma other_target : forall d1 w x dx nx, active w x dx nx -> x <> k -> P1 k d1 n w \/ P2 k d1 n w -> nx <> n /\ x <> n.
Proof.
  intros d1 w x dx nx (Lx & _ & Rx & _) Hx H.
  assert (U : unc n k w) by (destruct H as [(_ & _ & U)|(d' & _ & _ & _ & U)]; exact U).
  split.
  - intros ->. apply Hx. exact (U x dx Lx Rx).
  - intros ->. destruct H as [(_ & [Ln|Ln] & _)|(d' & _ & Ln & _)]; rewrite Lx in Ln; discriminate.
Qed.
Lemma other_target3 : forall d1 w x dx nx, grows d d1 -> active w x dx nx -> P3 k d1 n w -> nx <> n /\ x <> n.
Proof.
  intros d1 w x dx nx G (Lx & _ & Rx & Ix) (d' & Ln & Gd & U).
  destruct (grows_hyps d1 G) as [P1' R1'].
  assert (Hxn : x <> n).
  { intros ->. rewrite Ln in Lx. inversion Lx; subst dx.
    destruct (good_recomp k d1 n P1' R1' d' Gd) as [Rd _]. rewrite Rd in Rx. inversion Rx; subst nx. apply Ix; reflexivity. }
  split; [|exact Hxn]. intros ->. apply Hxn. exact (U x dx Lx Rx).
Qed.

(* an interruption inside an iteration keeps the situation *)
Lemma partial_inv : forall w x wi, wf w -> inv w -> In wi (partials cl w x) -> wf wi /\ inv wi.
Proof.
  intros w x wi Hw (d1 & G & D & H) Hin.
  destruct (partials_cases cl w x wi Hin) as (dx & nx & A & Hwi).
  destruct (grows_hyps d1 G) as [P1' R1'].
  assert (Generic : forall wi', benign n x w wi' -> x <> n ->
            (x <> k \/ (cl = true /\ P3 k d1 n w)) -> wf wi' /\ inv wi').
  { intros wi' B Hxn Hxk. split; [destruct B as [W _]; exact W|]. exists d1. split; [exact G|]. split; [exact D|].
    destruct H as [H|[H|[C H]]].
    - left. destruct Hxk as [Hxk|[_ H3]]; [eapply benign_P1; eauto|].
      destruct H as (Lk & _). destruct H3 as (d' & Ln & _ & U3). exfalso.
      assert (k = n) by (apply (U3 k d1 Lk R1')). subst. apply Hi; reflexivity.
    - right; left. destruct Hxk as [Hxk|[_ H3]]; [eapply benign_P2; eauto|].
      destruct H as (d' & Lk & Ln & _). destruct H3 as (d3 & Ln3 & _). rewrite Ln in Ln3. discriminate.
    - right; right. split; [exact C|]. eapply benign_P3; eauto. }
  destruct (key_eqb x k) eqn:Exk.
  - (* the entry of the job itself *)
    apply key_eqb_eq in Exk; subst x.
    destruct H as [H|[H|[C H]]].
    + (* not yet repaired: active with (d1, n) *)
      destruct H as (Lk & Ln & U).
      destruct A as (Lx & _ & Rx & _). rewrite Lk in Lx. inversion Lx; subst dx. rewrite R1' in Rx. inversion Rx; subst nx.
      assert (Epre : pre w n = w).
      { destruct Ln as [Ln|Ln]; [unfold pre, is_link; rewrite Ln; reflexivity|].
        apply pre_exists. unfold exists_. rewrite (resolve_link _ _ _ _ Ln Lk). reflexivity. }
      rewrite Epre in Hwi.
      assert (Hkn : k <> n) by (intros E; apply Hi; rewrite E; reflexivity).
      destruct Hwi as [->|[RS [[C ->]|[C ->]]]].
      * split; [exact Hw|]. exists d1. split; [exact G|]. split; [exact D|]. left. repeat split; assumption.
      * (* cleanup: aliased, not yet moved *)
        assert (Ln0 : lookup n w = None).
        { destruct Ln as [Ln|Ln]; [exact Ln|]. rewrite (resolve_link _ _ _ _ Ln Lk) in RS. discriminate. }
        split; [apply wf_update_dir; exact Hw|].
        exists (alias (k_name k) (k_name n) d1).
        split; [eapply grows_trans; [exact G|apply alias_grows]|].
        split; [intros Hd; destruct (alias_grows (k_name k) (k_name n) d1) as [_ I]; apply I, D, Hd|].
        left. split; [rewrite lookup_update_dir, key_eqb_refl, Lk; reflexivity|].
        split; [left; rewrite lookup_update_other by congruence; exact Ln0|].
        intros y dy L R. rewrite lookup_update_dir in L. destruct (key_eqb k y) eqn:E; [apply key_eqb_eq in E; auto|].
        exact (U y dy L R).
      * (* link mode: linked, not yet aliased *)
        assert (Ln0 : lookup n w = None).
        { destruct Ln as [Ln|Ln]; [exact Ln|]. rewrite (resolve_link _ _ _ _ Ln Lk) in RS. discriminate. }
        split; [apply wf_add_link; assumption|].
        exists d1. split; [exact G|]. split; [exact D|]. left.
        split; [rewrite lookup_add_link, Lk; reflexivity|].
        split; [right; rewrite lookup_add_link, Ln0, key_eqb_refl; reflexivity|].
        intros y dy L R. rewrite lookup_add_link in L.
        destruct (lookup y w) as [e|] eqn:Ly; [inversion L; subst e; exact (U y dy Ly R)|].
        destruct (key_eqb n y); discriminate.
    + (* linked: the new path exists, the only modification left is the alias *)
      destruct H as (d' & Lk & Ln & Gd & U).
      destruct (good_recomp k d1 n P1' R1' d' Gd) as [Rd' Pd'].
      destruct A as (Lx & _ & Rx & _). rewrite Lk in Lx. inversion Lx; subst dx. rewrite Rd' in Rx. inversion Rx; subst nx.
      assert (Rn : resolve w n = Some (k, d')) by (apply (resolve_link _ _ _ _ Ln Lk)).
      assert (Epre : pre w n = w) by (apply pre_exists; unfold exists_; rewrite Rn; reflexivity).
      rewrite Epre in Hwi. destruct Hwi as [->|[RS _]]; [|rewrite Rn in RS; discriminate].
      split; [exact Hw|]. exists d1. split; [exact G|]. split; [exact D|]. right; left. exists d'. split; [exact Lk|]. split; [exact Ln|]. split; [exact Gd|exact U].
    + (* moved: the entry k is another directory by now *)
      destruct (other_target3 d1 w k dx nx G A H) as [Hn Hxn].
      destruct Hwi as [->|[RS [[C' ->]|[C' ->]]]].
      * apply Generic; [apply benign_pre; assumption|exact Hxn|right; split; assumption].
      * apply Generic; [apply benign_alias; assumption|exact Hxn|right; split; assumption].
      * rewrite (act_link_partial _ _ _ RS). apply Generic; [eapply benign_link; eauto|exact Hxn|right; split; assumption].
  - apply key_eqb_neq in Exk.
    assert (T : nx <> n /\ x <> n).
    { destruct H as [H|[H|[C H]]]; [eapply other_target; eauto|eapply other_target; eauto|eapply other_target3; eauto]. }
    destruct T as [Hn Hxn].
    destruct Hwi as [->|[RS [[C' ->]|[C' ->]]]].
    + apply Generic; [apply benign_pre; assumption|exact Hxn|left; exact Exk].
    + apply Generic; [apply benign_alias; assumption|exact Hxn|left; exact Exk].
    + rewrite (act_link_partial _ _ _ RS). apply Generic; [eapply benign_link; eauto|exact Hxn|left; exact Exk].
Qed.

(* complete iterations keep the situation too *)
Lemma step_inv : forall w x, wf w -> inv w -> inv (main_step true true cl w x).
Proof.
  intros w x Hw (d1 & G & D & H). destruct (grows_hyps d1 G) as [P1' R1'].
  exists d1. split; [exact G|]. split; [exact D|].
  destruct H as [H|[H|[C H]]].
  - destruct (key_eqb x k) eqn:E.
    + apply key_eqb_eq in E; subst x. destruct (step_P1_self cl k d1 n P1' R1' Hi w Hw H) as [H2|[C H3]]; [right; left; exact H2|right; right; split; assumption].
    + apply key_eqb_neq in E. left. apply step_P1_other; assumption.
  - right; left. apply step_P2; assumption.
  - right; right. split; [exact C|]. apply step_P3; assumption.
Qed.
Lemma pass_inv : forall o w, wf w -> inv w -> wf (mainpass true true cl w o) /\ inv (mainpass true true cl w o).
Proof.
  unfold mainpass. induction o as [|x o IH]; intros w Hw H; cbn [fold_left]; [split; assumption|].
  apply IH; [apply wf_step; exact Hw|apply step_inv; assumption].
Qed.

(* the first loop of a second run *)
Lemma prepass_step_P2 : forall d1 w x, wf w -> P2 k d1 n w ->
  P2 k d1 n (prepass_step w x) \/ exists d', good k d1 n d' /\ P1 k d' n (prepass_step w x).
Proof.
  intros d1 w x Hw (d' & Lk & Ln & Gd & U).
  destruct (prepass_step_cases w x) as [->|(_ & El & _ & ->)]; [left; exists d'; split; [exact Lk|]; split; [exact Ln|]; split; [exact Gd|exact U]|].
  assert (U' : unc n k (unlink x w)).
  { intros y dy L R. apply (U y dy); [|exact R]. destruct (key_eqb y x) eqn:E.
    - apply key_eqb_eq in E; subst y. rewrite lookup_unlink_self in L by assumption. discriminate.
    - apply key_eqb_neq in E. rewrite lookup_unlink_other in L by exact E. exact L. }
  destruct (key_eqb x n) eqn:E.
  - apply key_eqb_eq in E; subst x. right. exists d'. split; [exact Gd|].
    split; [apply lookup_unlink_dir; exact Lk|]. split; [left; apply lookup_unlink_self; assumption|exact U'].
  - apply key_eqb_neq in E. left. exists d'. split; [apply lookup_unlink_dir; exact Lk|].
    split; [rewrite lookup_unlink_other by congruence; exact Ln|]. split; [exact Gd|exact U'].
Qed.
Lemma prepass_step_P3 : forall d1 w x, wf w -> P3 k d1 n w -> P3 k d1 n (prepass_step w x).
Proof.
  intros d1 w x Hw (d' & Ln & Gd & U).
  destruct (prepass_step_cases w x) as [->|(_ & El & _ & ->)]; [exists d'; split; [exact Ln|]; split; [exact Gd|exact U]|].
  exists d'. split; [apply lookup_unlink_dir; exact Ln|]. split; [exact Gd|].
  intros y dy L R. apply (U y dy); [|exact R]. destruct (key_eqb y x) eqn:E.
  - apply key_eqb_eq in E; subst y. rewrite lookup_unlink_self in L by assumption. discriminate.
  - apply key_eqb_neq in E. rewrite lookup_unlink_other in L by exact E. exact L.
Qed.

(* the conclusion of fix_reaches, for the original content d *)
Definition reached (w : ws) : Prop :=
  exists kf d', resolve w n = Some (kf, d') /\ core d' = core d /\ incl (d_done d) (d_done d') /\
                (In (k_name k) (d_done d) -> found w n = true).

Lemma repaired_reached : forall d1 w, grows d d1 -> (In (k_name k) (d_done d) -> In (k_name k) (d_done d1)) ->
  repaired cl k d1 n w -> reached w.
Proof.
  intros d1 w [C I] D H. destruct (repaired_reaches cl k d1 n w H) as (kf & d' & R & C' & I' & F & _).
  exists kf, d'. split; [exact R|]. split; [congruence|]. split; [intros z Hz; apply I', I, Hz|]. intros Hd. apply F, D, Hd.
Qed.

(* a complete run from any such situation repairs the job *)
Lemma rerun_reaches : forall o1 o2 w, wf w -> inv w -> (forall y dy, lookup y w = Some (Dir dy) -> In y o2) ->
  reached (fix_ws true cl o1 o2 w).
Proof.
  intros o1 o2 w Hw (d1 & G & D & H) Hcov. destruct (grows_hyps d1 G) as [P1' R1'].
  unfold fix_ws, run. cbn [negb orb andb]. rewrite andb_true_r.
  assert (FromP1 : forall d2 w0, grows d d2 -> (In (k_name k) (d_done d) -> In (k_name k) (d_done d2)) ->
             wf w0 -> P1 k d2 n w0 -> In k o2 -> reached (mainpass true true cl w0 o2)).
  { intros d2 w0 G2 D2 W0 H0 Hin. destruct (grows_hyps d2 G2) as [P2' R2'].
    apply (repaired_reached d2 _ G2 D2). apply pass_repairs; assumption. }
  assert (FromRep : forall w0, wf w0 -> repaired cl k d1 n w0 -> reached (mainpass true true cl w0 o2)).
  { intros w0 W0 H0. apply (repaired_reached d1 _ G D). apply pass_repaired; assumption. }
  destruct cl eqn:Ecl.
  - (* cleanup: the first loop runs *)
    destruct H as [H|[H|[_ H]]].
    + destruct (prepass_P1 k d1 n o1 w Hw H) as [W1 H1]. apply (FromP1 d1); try assumption.
      destruct H as (Lk & _). exact (Hcov k d1 Lk).
    + assert (Hin : In k o2) by (destruct H as (d' & Lk & _); exact (Hcov k d' Lk)).
      assert (Q : forall o w0, wf w0 -> P2 k d1 n w0 ->
                wf (prepass w0 o) /\ (P2 k d1 n (prepass w0 o) \/ exists d', good k d1 n d' /\ P1 k d' n (prepass w0 o))).
      { unfold prepass. induction o as [|x o IH]; intros w0 W0 H0; cbn [fold_left]; [split; [exact W0|left; exact H0]|].
        destruct (prepass_step_P2 d1 w0 x W0 H0) as [H2|(d' & Gd & H1)].
        - apply IH; [apply wf_prepass_step; exact W0|exact H2].
        - destruct (prepass_P1 k d' n o (prepass_step w0 x) (wf_prepass_step _ _ W0) H1) as [W2 H2].
          split; [exact W2|right; exists d'; split; assumption]. }
      destruct (Q o1 w Hw H) as [W1 [H2|(d' & [Gd Dd] & H1)]].
      * apply FromRep; [exact W1|left; exact H2].
      * apply (FromP1 d'); try assumption.
        -- eapply grows_trans; eassumption.
        -- intros Hd. destruct Gd as [_ I]. apply I, D, Hd.
    + assert (Q : forall o w0, wf w0 -> P3 k d1 n w0 -> wf (prepass w0 o) /\ P3 k d1 n (prepass w0 o)).
      { unfold prepass. induction o as [|x o IH]; intros w0 W0 H0; cbn [fold_left]; [split; assumption|].
        apply IH; [apply wf_prepass_step; exact W0|apply prepass_step_P3; assumption]. }
      destruct (Q o1 w Hw H) as [W1 H3]. apply FromRep; [exact W1|right; split; [reflexivity|exact H3]].
  - destruct H as [H|[H|[C _]]]; [|apply FromRep; [exact Hw|left; exact H]|discriminate].
    apply (FromP1 d1); try assumption. destruct H as (Lk & _). exact (Hcov k d1 Lk).
Qed.
End Interrupted.

Lemma in_prefixes_app : forall {A} (p l : list A), In p (prefixes l) -> exists q, l = p ++ q.
Proof.
  intros A p l. revert p. induction l as [|x l IH]; intros p Hin; cbn [prefixes] in Hin.
  - destruct Hin as [<-|[]]. exists []. reflexivity.
  - destruct Hin as [<-|Hin]; [exists (x :: l); reflexivity|].
    apply in_map_iff in Hin. destruct Hin as (p' & <- & Hp'). destruct (IH p' Hp') as [q ->]. exists q. reflexivity.
Qed.

(* AFTER ANY INTERRUPTED REPAIR THE JOB IS STILL THERE, AND A SECOND RUN COMPLETES THE REPAIR.  w: any workspace; k: a
   directory stored under a former identifier whose new path n is free or already links to it and is claimed by no other
   directory (the hypotheses of fix_reaches); the command (either mode, any examination orders) is interrupted anywhere - wi;
   it is then run again, to its end, examining every directory: n leads to the data of k, and a re-submit finds the result. *)
Theorem interrupted_then_rerun_reaches : forall cl o1 o2 w k d n wi o1' o2',
  wf w -> active w k d n ->
  (lookup n w = None \/ lookup n w = Some (Link k)) ->
  (forall k2 d2, lookup k2 w = Some (Dir d2) -> d_recomp d2 = Some n -> k2 = k) ->
  In wi (interrupted cl o1 o2 w) ->
  (forall y dy, lookup y wi = Some (Dir dy) -> In y o2') ->
  let w' := fix_ws true cl o1' o2' wi in
  exists kf d', resolve w' n = Some (kf, d') /\ core d' = core d /\ incl (d_done d) (d_done d') /\
                (In (k_name k) (d_done d) -> found w' n = true).
Proof.
  intros cl o1 o2 w k d n wi o1' o2' Hw (L & P & R & I) Hfree Hunc Hin Hcov.
  assert (H0 : inv cl k d n w).
  { exists d. split; [apply grows_refl|]. split; [auto|]. left. repeat split; assumption. }
  assert (Hwi : wf wi /\ inv cl k d n wi).
  { unfold interrupted in Hin. apply in_app_or in Hin. destruct Hin as [Hin|Hin].
    - destruct cl; [|destruct Hin]. apply in_map_iff in Hin. destruct Hin as (p & <- & _).
      destruct (prepass_P1 k d n p w Hw) as [W1 H1]; [repeat split; assumption|].
      split; [exact W1|]. exists d. split; [apply grows_refl|]. split; [auto|]. left. exact H1.
    - apply in_flat_map in Hin. destruct Hin as (pr & _ & Hin).
      set (w0 := if cl then prepass w o1 else w) in *.
      assert (W0 : wf w0 /\ inv cl k d n w0).
      { unfold w0. destruct cl; [|split; assumption].
        destruct (prepass_P1 k d n o1 w Hw) as [W1 H1]; [repeat split; assumption|].
        split; [exact W1|]. exists d. split; [apply grows_refl|]. split; [auto|]. left. exact H1. }
      destruct W0 as [W0 I0].
      destruct (pass_inv cl k d n P R I pr w0 W0 I0) as [W1 I1].
      destruct Hin as [<-|Hin]; [split; assumption|].
      destruct (nth_error o2 (length pr)) as [x|]; [|destruct Hin].
      apply (partial_inv cl k d n P R I _ x wi W1 I1 Hin). }
  destruct Hwi as [Wi Ii].
  exact (rerun_reaches cl k d n P R I o1' o2' wi Wi Ii Hcov).
Qed.

(* ... and no interruption loses job data: the directories of an interrupted state are those of the workspace, each with
   the same payload / params.json / recomputed identity and at least the same .done markers                          *)
Lemma partials_dirs : forall cl w x wi, In wi (partials cl w x) -> Forall2 grows (dirs w) (dirs wi).
Proof.
  intros cl w x wi Hin. destruct (partials_cases cl w x wi Hin) as (dx & nx & _ & Hwi).
  assert (Epre : dirs (pre w nx) = dirs w).
  { destruct (pre_cases w nx) as [->|(_ & _ & ->)]; [reflexivity|apply dirs_unlink]. }
  destruct Hwi as [->|[_ [[_ ->]|[_ ->]]]].
  - rewrite Epre. apply F2_grows_refl.
  - rewrite <- Epre. apply dirs_update. intros d0. apply alias_grows.
  - rewrite dirs_add_link, Epre. apply F2_grows_refl.
Qed.
Theorem interrupted_preserves_data : forall cl o1 o2 w wi,
  In wi (interrupted cl o1 o2 w) -> Forall2 grows (dirs w) (dirs wi).
Proof.
  intros cl o1 o2 w wi Hin. unfold interrupted in Hin. apply in_app_or in Hin. destruct Hin as [Hin|Hin].
  - destruct cl; [|destruct Hin]. apply in_map_iff in Hin. destruct Hin as (p & <- & _). rewrite prepass_dirs. apply F2_grows_refl.
  - apply in_flat_map in Hin. destruct Hin as (pr & _ & Hin).
    assert (E0 : Forall2 grows (dirs w) (dirs (mainpass true true cl (if cl then prepass w o1 else w) pr))).
    { eapply F2_grows_trans; [|apply mainpass_dirs]. destruct cl; [rewrite prepass_dirs|]; apply F2_grows_refl. }
    destruct Hin as [<-|Hin]; [exact E0|].
    destruct (nth_error o2 (length pr)) as [x|]; [|destruct Hin].
    eapply F2_grows_trans; [exact E0|eapply partials_dirs; eauto].
Qed.

(* ---- records.  (1) the order of the commit that introduced the aliases - the directory is moved, THEN its result files
   are aliased: an interruption in between leaves the directory under its new identifier without the aliases, and no later
   run looks at it again (it sits under its own identifier): the result of a renamed task is never found.  With the order
   of the repaired command (fixes/C20-6) every interruption point of the same workspace is completed by the next run. *)
Theorem moved_first_refuted :
  In (rename xk xn xw) (partials_moved_first xw xk) /\
  found (fix_ws true true [xn] [xn] (rename xk xn xw)) xn = false /\
  forall cl wi, In wi (interrupted cl [xk] [xk] xw) -> found (fix_ws true cl [xk; xn] [xk; xn] wi) xn = true.
Proof.
  split; [left; reflexivity|]. split; [reflexivity|].
  intros cl wi Hin. destruct cl; cbn in Hin; repeat (destruct Hin as [<-|Hin]; [reflexivity|]); destruct Hin.
Qed.

(* (2) params.json rewritten IN PLACE (no params.json.tmp + replace): an interruption during the write leaves a record that
   cannot be loaded any more (the real command even stops there with a JSONDecodeError): the record of the job is lost -
   not a state of `interrupted`, whose states all keep it (interrupted_preserves_data) - and no later run repairs the job *)
Definition unreadable (d : data) : data := mkdata (d_mark d) (d_params d) None (d_done d).
Theorem inplace_write_refuted :
  let wi := update_dir xk unreadable xw in
  map core (dirs wi) <> map core (dirs xw) /\
  (forall cl, ~ In wi (interrupted cl [xk] [xk] xw)) /\
  forall cl, found (fix_ws true cl [xk] [xk] wi) xn = false.
Proof.
  split; [cbn; intros E; discriminate E|]. split.
  - intros cl Hin. pose proof (interrupted_preserves_data cl [xk] [xk] xw _ Hin) as F.
    cbn in F. inversion F as [|? ? ? ? [C _] _]; subst. cbn in C. discriminate C.
  - intros [|]; reflexivity.
Qed.

(* the hypotheses of interrupted_then_rerun_reaches are satisfiable: the workspace xw, interrupted after the aliasing (cleanup) *)
Example interrupted_hyps_sat :
  wf xw /\ active xw xk xd xn /\ lookup xn xw = None /\
  In (update_dir xk (alias (k_name xk) (k_name xn)) xw) (interrupted true [xk] [xk] xw) /\
  (forall y dy, lookup y (update_dir xk (alias (k_name xk) (k_name xn)) xw) = Some (Dir dy) -> In y [xk]).
Proof.
  destruct xw_hyps as (W & A & _ & F & _). split; [exact W|]. split; [exact A|]. split; [exact F|].
  split; [cbn; tauto|]. intros y dy L. cbn in L. destruct (key_eqb xk y) eqn:E; [|discriminate].
  apply key_eqb_eq in E. left; exact E.
Qed.
Close Scope Z_scope.
