(* Proofs about model/Deprecate.v (property C20, workspace repair). *)
From Coq Require Import ZArith List Bool Lia Permutation.
From XV Require Import model.Deprecate.
Import ListNotations.
Open Scope Z_scope.

(* ------------------------------------------------------------------ keys *)
Lemma key_eqb_eq : forall a b, key_eqb a b = true <-> a = b.
Proof.
  intros [m1 n1 i1] [m2 n2 i2]; unfold key_eqb; simpl.
  rewrite !andb_true_iff, !Z.eqb_eq. split.
  - intros [[-> ->] ->]; reflexivity.
  - intros H; inversion H; auto.
Qed.
Lemma key_eqb_refl : forall a, key_eqb a a = true.
Proof. intros; apply key_eqb_eq; reflexivity. Qed.
Lemma key_eqb_neq : forall a b, key_eqb a b = false <-> a <> b.
Proof.
  intros a b. split.
  - intros H E. apply key_eqb_eq in E. congruence.
  - intros H. destruct (key_eqb a b) eqn:E; [apply key_eqb_eq in E; contradiction | reflexivity].
Qed.
Lemma key_eqb_sym : forall a b, key_eqb a b = key_eqb b a.
Proof.
  intros. destruct (key_eqb a b) eqn:E.
  - apply key_eqb_eq in E; subst. symmetry; apply key_eqb_refl.
  - symmetry. apply key_eqb_neq. apply key_eqb_neq in E. congruence.
Qed.

(* ------------------------------------------------------------------ 1. job data is never deleted *)
Definition grows (d d' : data) : Prop := core d = core d' /\ incl (d_done d) (d_done d').

Lemma grows_refl : forall d, grows d d.
Proof. intros; split; [reflexivity | apply incl_refl]. Qed.
Lemma grows_trans : forall a b c, grows a b -> grows b c -> grows a c.
Proof. intros a b c [H1 H2] [H3 H4]; split; [congruence | eapply incl_tran; eauto]. Qed.

Lemma F2_grows_refl : forall l, Forall2 grows l l.
Proof. induction l; constructor; auto using grows_refl. Qed.
Lemma F2_grows_trans : forall a b c, Forall2 grows a b -> Forall2 grows b c -> Forall2 grows a c.
Proof.
  intros a b c H; revert c; induction H; intros c' H'; inversion H'; subst; constructor; eauto using grows_trans.
Qed.

Lemma dirs_unlink : forall k w, dirs (unlink k w) = dirs w.
Proof.
  intros k; induction w as [|[k' e] w IH]; simpl; [reflexivity|].
  destruct e as [d|t]; simpl.
  - rewrite andb_false_r; simpl. unfold dirs in *; simpl. f_equal; exact IH.
  - destruct (key_eqb k' k); simpl; exact IH.
Qed.
Lemma dirs_rename : forall k n w, dirs (rename k n w) = dirs w.
Proof.
  intros k n; induction w as [|[k' e] w IH]; simpl; [reflexivity|].
  unfold dirs in *; simpl. destruct (key_eqb k' k); simpl; rewrite IH; reflexivity.
Qed.
Lemma dirs_add_link : forall n k w, dirs (add_link n k w) = dirs w.
Proof. intros; unfold add_link, dirs; rewrite flat_map_app; simpl; apply app_nil_r. Qed.

Lemma alias_grows : forall a b d, grows d (alias a b d).
Proof.
  intros a b d; unfold alias. destruct (a =? b); [apply grows_refl|].
  destruct (memZ a (d_done d) && negb (memZ b (d_done d))); [|apply grows_refl].
  split; [reflexivity | simpl; apply incl_appl, incl_refl].
Qed.
Lemma dirs_update : forall k f w, (forall d, grows d (f d)) -> Forall2 grows (dirs w) (dirs (update_dir k f w)).
Proof.
  intros k f w Hf; induction w as [|[k' e] w IH]; simpl; [constructor|].
  destruct (key_eqb k' k).
  - destruct e; unfold dirs; simpl; [constructor; [apply Hf | apply F2_grows_refl] | apply F2_grows_refl].
  - destruct e; unfold dirs in *; simpl; [constructor; [apply grows_refl | exact IH] | exact IH].
Qed.

Lemma prepass_step_dirs : forall w k, dirs (prepass_step w k) = dirs w.
Proof. intros; unfold prepass_step; destruct (_ && _); [apply dirs_unlink | reflexivity]. Qed.
Lemma prepass_dirs : forall o w, dirs (prepass w o) = dirs w.
Proof.
  unfold prepass; induction o; intros; simpl; [reflexivity|]. rewrite IHo; apply prepass_step_dirs.
Qed.

Lemma main_step_dirs : forall rep fx cl w k, Forall2 grows (dirs w) (dirs (main_step rep fx cl w k)).
Proof.
  intros; unfold main_step.
  destruct (negb (yielded w k)); [apply F2_grows_refl|].
  destruct (lookup k w) as [[d|t]|]; try apply F2_grows_refl.
  destruct (d_recomp d) as [n|]; [|apply F2_grows_refl].
  destruct (k_id n =? k_id k); [apply F2_grows_refl|].
  destruct (negb fx); [apply F2_grows_refl|].
  set (w1 := if is_link w n && negb (exists_ w n) then unlink n w else w).
  assert (H1 : dirs w1 = dirs w) by (unfold w1; destruct (_ && _); [apply dirs_unlink | reflexivity]).
  rewrite <- H1.
  destruct (resolve w1 n) as [[k' dn]|].
  - destruct (key_eqb k' k); [|apply F2_grows_refl].
    destruct rep; [apply dirs_update; intros; apply alias_grows | apply F2_grows_refl].
  - destruct cl.
    + destruct rep.
      * rewrite <- (dirs_rename k n w1) at 1. apply dirs_update; intros; apply alias_grows.
      * rewrite dirs_rename. apply F2_grows_refl.
    + destruct rep.
      * rewrite <- (dirs_add_link n k w1) at 1. apply dirs_update; intros; apply alias_grows.
      * rewrite dirs_add_link. apply F2_grows_refl.
Qed.
Lemma mainpass_dirs : forall rep fx cl o w, Forall2 grows (dirs w) (dirs (mainpass rep fx cl w o)).
Proof.
  unfold mainpass; intros rep fx cl; induction o; intros; simpl; [apply F2_grows_refl|].
  eapply F2_grows_trans; [apply main_step_dirs | apply IHo].
Qed.

(* fix_deprecated never deletes job data (either version, any flags, any order) *)
Theorem run_preserves : forall rep fx cl o1 o2 w, Forall2 grows (dirs w) (dirs (run rep fx cl o1 o2 w)).
Proof.
  intros; unfold run.
  destruct (cl && (negb rep || fx)).
  - rewrite <- (prepass_dirs o1 w) at 1. apply mainpass_dirs.
  - apply mainpass_dirs.
Qed.

Lemma F2_grows_marks : forall a b, Forall2 grows a b -> map core a = map core b.
Proof. induction 1; simpl; [reflexivity|]. destruct H as [H _]. rewrite H, IHForall2; reflexivity. Qed.

Theorem fix_preserves_data : forall fx cl o1 o2 w,
  Permutation (map core (dirs (fix_ws fx cl o1 o2 w))) (map core (dirs w)) /\
  Forall2 (fun d d' => d_mark d = d_mark d' /\ incl (d_done d) (d_done d')) (dirs w) (dirs (fix_ws fx cl o1 o2 w)).
Proof.
  intros. pose proof (run_preserves true fx cl o1 o2 w) as H. split.
  - rewrite (F2_grows_marks _ _ H). apply Permutation_refl.
  - unfold fix_ws. induction H; constructor; auto.
    destruct H as [Hc Hi]; split; [|exact Hi]. unfold core in Hc; congruence.
Qed.

(* ------------------------------------------------------------------ lookups after the primitive operations *)
Definition wf (w : ws) : Prop := NoDup (map fst w).

Lemma lookup_none_iff : forall x w, lookup x w = None <-> ~ In x (map fst w).
Proof.
  intros x; induction w as [|[k' e] w IH]; simpl.
  - split; auto.
  - destruct (key_eqb k' x) eqn:E.
    + apply key_eqb_eq in E; subst. split; [discriminate | intros H; exfalso; apply H; auto].
    + apply key_eqb_neq in E. rewrite IH. split; intros H; [intros [H1|H1]; congruence | auto].
Qed.
Lemma lookup_in : forall x e w, lookup x w = Some e -> In (x, e) w.
Proof.
  intros x e; induction w as [|[k' e'] w IH]; simpl; [discriminate|].
  destruct (key_eqb k' x) eqn:E.
  - apply key_eqb_eq in E; subst. intros H; inversion H; auto.
  - auto.
Qed.

Lemma lookup_unlink_other : forall x n w, x <> n -> lookup x (unlink n w) = lookup x w.
Proof.
  intros x n w Hx; induction w as [|[k' e] w IH]; simpl; [reflexivity|].
  destruct (key_eqb k' n && is_link_entry e) eqn:E; simpl.
  - apply andb_true_iff in E; destruct E as [E _]. apply key_eqb_eq in E; subst.
    assert (key_eqb n x = false) by (apply key_eqb_neq; congruence). rewrite H. exact IH.
  - destruct (key_eqb k' x); [reflexivity | exact IH].
Qed.
Lemma lookup_unlink_dir : forall x d n w, lookup x w = Some (Dir d) -> lookup x (unlink n w) = Some (Dir d).
Proof.
  intros x d n; induction w as [|[k' e] w IH]; simpl; [discriminate|].
  destruct (key_eqb k' x) eqn:E.
  - intros H; inversion H; subst. simpl. rewrite andb_false_r; simpl. rewrite E; reflexivity.
  - intros H. destruct (key_eqb k' n && is_link_entry e); simpl; [auto | rewrite E; auto].
Qed.
Lemma unlink_keys_incl : forall n w x, In x (map fst (unlink n w)) -> In x (map fst w).
Proof.
  intros n w x; unfold unlink. rewrite !in_map_iff. intros [p [H1 H2]]. apply filter_In in H2. exists p; tauto.
Qed.
Lemma lookup_unlink_none : forall x n w, lookup x w = None -> lookup x (unlink n w) = None.
Proof. intros x n w; rewrite !lookup_none_iff. intros H H'; apply H; eapply unlink_keys_incl; eauto. Qed.
Lemma wf_unlink : forall n w, wf w -> wf (unlink n w).
Proof.
  intros n; unfold wf; induction w as [|[k' e] w IH]; simpl; intros H; [constructor|].
  inversion H; subst.
  destruct (key_eqb k' n && is_link_entry e); simpl; [auto|].
  constructor; [|auto]. intros H'; apply H2. eapply unlink_keys_incl; eauto.
Qed.
Lemma lookup_unlink_self : forall n w, wf w -> is_link w n = true -> lookup n (unlink n w) = None.
Proof.
  intros n; unfold wf, is_link; induction w as [|[k' e] w IH]; simpl; intros Hwf H; [discriminate|].
  inversion Hwf; subst.
  destruct (key_eqb k' n) eqn:E.
  - destruct e as [d|t]; [discriminate|]. simpl.
    apply key_eqb_eq in E; subst. apply lookup_unlink_none. apply lookup_none_iff; assumption.
  - simpl. rewrite E. auto.
Qed.
(* without wf: a link is never left at n *)
Lemma lookup_unlink_self_nolink : forall n w t, lookup n (unlink n w) <> Some (Link t).
Proof.
  intros n w t; induction w as [|[k' e] w IH]; simpl; [discriminate|].
  destruct (key_eqb k' n) eqn:E; simpl.
  - destruct e as [d|t']; simpl; [rewrite E; discriminate | exact IH].
  - rewrite E. exact IH.
Qed.

Lemma lookup_add_link : forall x n k w,
  lookup x (add_link n k w) = match lookup x w with Some e => Some e | None => if key_eqb n x then Some (Link k) else None end.
Proof.
  intros x n k; unfold add_link; induction w as [|[k' e] w IH]; simpl; [reflexivity|].
  destruct (key_eqb k' x); [reflexivity | exact IH].
Qed.
Lemma wf_add_link : forall n k w, wf w -> lookup n w = None -> wf (add_link n k w).
Proof.
  unfold wf, add_link; intros n k w H Hn. rewrite map_app; simpl.
  apply Permutation_NoDup with (l := n :: map fst w).
  - apply Permutation_cons_append.
  - constructor; [apply lookup_none_iff; exact Hn | exact H].
Qed.

Lemma lookup_rename_other : forall x k n w, x <> k -> x <> n -> lookup x (rename k n w) = lookup x w.
Proof.
  intros x k n w Hk Hn; induction w as [|[k' e] w IH]; simpl; [reflexivity|].
  destruct (key_eqb k' k) eqn:E; simpl.
  - apply key_eqb_eq in E; subst.
    assert (key_eqb n x = false) by (apply key_eqb_neq; congruence).
    assert (key_eqb k x = false) by (apply key_eqb_neq; congruence). rewrite H, H0. exact IH.
  - destruct (key_eqb k' x); [reflexivity | exact IH].
Qed.
Lemma rename_keys : forall k n w x, In x (map fst (rename k n w)) -> x = n \/ (x <> k /\ In x (map fst w)).
Proof.
  intros k n; induction w as [|[k' e] w IH]; simpl; intros x H; [contradiction|].
  destruct (key_eqb k' k) eqn:E; simpl in H.
  - destruct H as [H|H]; [left; congruence|]. destruct (IH _ H) as [H1|[H1 H2]]; auto.
  - apply key_eqb_neq in E. destruct H as [H|H]; [right; subst; auto|].
    destruct (IH _ H) as [H1|[H1 H2]]; auto.
Qed.
Lemma lookup_rename_src : forall k n w, k <> n -> lookup k (rename k n w) = None.
Proof.
  intros k n w H. apply lookup_none_iff. intros H'. apply rename_keys in H'. destruct H' as [H1|[H1 _]]; congruence.
Qed.
Lemma lookup_rename_dst : forall k n w, lookup n w = None -> lookup n (rename k n w) = lookup k w.
Proof.
  intros k n; induction w as [|[k' e] w IH]; simpl; [reflexivity|].
  destruct (key_eqb k' n) eqn:En; [discriminate|]. intros H.
  destruct (key_eqb k' k) eqn:E; simpl.
  - rewrite key_eqb_refl. reflexivity.
  - rewrite En. auto.
Qed.
Lemma rename_absent : forall k n w, ~ In k (map fst w) -> rename k n w = w.
Proof.
  intros k n; induction w as [|[k' e] w IH]; simpl; intros H; [reflexivity|].
  destruct (key_eqb k' k) eqn:E.
  - apply key_eqb_eq in E; subst. exfalso; apply H; auto.
  - rewrite IH; auto.
Qed.
Lemma wf_rename : forall k n w, wf w -> lookup n w = None -> wf (rename k n w).
Proof.
  intros k n; unfold wf; induction w as [|[k' e] w IH]; simpl; intros H Hn; [constructor|].
  inversion H; subst. destruct (key_eqb k' n) eqn:En; [discriminate|]. apply key_eqb_neq in En.
  destruct (key_eqb k' k) eqn:E; simpl.
  - apply key_eqb_eq in E; subst. rewrite rename_absent by assumption.
    constructor; [apply lookup_none_iff; exact Hn | assumption].
  - constructor; [|auto]. intros H'. apply rename_keys in H'. destruct H' as [H1|[H1 H4]]; [congruence | contradiction].
Qed.

Lemma lookup_update_dir : forall x k f w,
  lookup x (update_dir k f w) =
  if key_eqb k x then match lookup x w with Some (Dir d) => Some (Dir (f d)) | o => o end else lookup x w.
Proof.
  intros x k f; induction w as [|[k' e] w IH]; simpl; [destruct (key_eqb k x); reflexivity|].
  destruct (key_eqb k' k) eqn:E; simpl.
  - apply key_eqb_eq in E; subst. destruct (key_eqb k x) eqn:E2; [destruct e; reflexivity | reflexivity].
  - destruct (key_eqb k' x) eqn:E2.
    + destruct (key_eqb k x) eqn:E3; [|reflexivity].
      apply key_eqb_eq in E2, E3; subst. rewrite key_eqb_refl in E; discriminate.
    + exact IH.
Qed.
Lemma update_dir_keys : forall k f w, map fst (update_dir k f w) = map fst w.
Proof.
  intros k f; induction w as [|[k' e] w IH]; simpl; [reflexivity|].
  destruct (key_eqb k' k); simpl; [reflexivity | rewrite IH; reflexivity].
Qed.
Lemma wf_update_dir : forall k f w, wf w -> wf (update_dir k f w).
Proof. unfold wf; intros; rewrite update_dir_keys; assumption. Qed.
Lemma update_dir_id : forall k f w d, lookup k w = Some (Dir d) -> f d = d -> update_dir k f w = w.
Proof.
  intros k f w d; induction w as [|[k' e] w IH]; simpl; [discriminate|].
  destruct (key_eqb k' k); intros H Hf.
  - inversion H; subst. rewrite Hf; reflexivity.
  - rewrite IH; auto.
Qed.

(* ------------------------------------------------------------------ following links *)
Lemma resolve_f_mono : forall f f' w x r, resolve_f f w x = Some r -> (f <= f')%nat -> resolve_f f' w x = Some r.
Proof.
  induction f; intros f' w x r H Hle; simpl in H; [discriminate|].
  destruct f'; [lia|]. simpl.
  destruct (lookup x w) as [[d|t]|]; auto. apply IHf with (f' := f') in H; [exact H | lia].
Qed.
Lemma resolve_f_dir : forall f w x kx dx, resolve_f f w x = Some (kx, dx) -> lookup kx w = Some (Dir dx).
Proof.
  induction f; intros w x kx dx H; simpl in H; [discriminate|].
  destruct (lookup x w) as [[d|t]|] eqn:E; [inversion H; subst; exact E | eauto | discriminate].
Qed.
Lemma resolve_dir : forall w x d, lookup x w = Some (Dir d) -> resolve w x = Some (x, d).
Proof. intros w x d H; unfold resolve, maxhops; simpl; rewrite H; reflexivity. Qed.
Lemma resolve_link : forall w x t d, lookup x w = Some (Link t) -> lookup t w = Some (Dir d) -> resolve w x = Some (t, d).
Proof. intros w x t d H1 H2; unfold resolve, maxhops; simpl; rewrite H1, H2; reflexivity. Qed.
Lemma resolve_none : forall w x, lookup x w = None -> resolve w x = None.
Proof. intros w x H; unfold resolve, maxhops; simpl; rewrite H; reflexivity. Qed.

(* resolutions are preserved (up to the growth of the directory content) *)
Definition rpres (w w' : ws) : Prop :=
  forall f x kx dx, (f <= maxhops)%nat -> resolve_f f w x = Some (kx, dx) ->
    exists dx', resolve_f f w' x = Some (kx, dx') /\ grows dx dx'.
Lemma rpres_refl : forall w, rpres w w.
Proof. intros w f x kx dx _ H; exists dx; split; [exact H | apply grows_refl]. Qed.
Lemma rpres_trans : forall a b c, rpres a b -> rpres b c -> rpres a c.
Proof.
  intros a b c H1 H2 f x kx dx Hf H. destruct (H1 _ _ _ _ Hf H) as [d1 [H3 H4]].
  destruct (H2 _ _ _ _ Hf H3) as [d2 [H5 H6]]. exists d2; split; [exact H5 | eapply grows_trans; eauto].
Qed.

Lemma rpres_unlink : forall w n, is_link w n = true -> exists_ w n = false -> rpres w (unlink n w).
Proof.
  intros w n Hl He f; induction f; intros x kx dx Hf H; simpl in H; [discriminate|].
  destruct (key_eqb x n) eqn:E.
  - apply key_eqb_eq in E; subst. exfalso.
    assert (H' : resolve_f (S f) w n = Some (kx, dx)) by exact H.
    apply resolve_f_mono with (f' := maxhops) in H'; [|exact Hf].
    unfold exists_, resolve in He. rewrite H' in He. discriminate.
  - apply key_eqb_neq in E. simpl. rewrite lookup_unlink_other by exact E.
    destruct (lookup x w) as [[d|t]|]; [inversion H; subst; exists dx; split; [reflexivity | apply grows_refl] | | discriminate].
    apply IHf; [lia | exact H].
Qed.
Lemma rpres_add_link : forall w n k, lookup n w = None -> rpres w (add_link n k w).
Proof.
  intros w n k Hn f; induction f; intros x kx dx Hf H; simpl in H; [discriminate|].
  simpl. rewrite lookup_add_link.
  destruct (lookup x w) as [[d|t]|]; [inversion H; subst; exists dx; split; [reflexivity | apply grows_refl] | | discriminate].
  apply IHf; [lia | exact H].
Qed.
Lemma rpres_update_dir : forall w k g, (forall d, grows d (g d)) -> rpres w (update_dir k g w).
Proof.
  intros w k g Hg f; induction f; intros x kx dx Hf H; simpl in H; [discriminate|].
  simpl. rewrite lookup_update_dir.
  destruct (lookup x w) as [[d|t]|]; [| |discriminate].
  - inversion H; subst. destruct (key_eqb k kx); [exists (g dx); split; [reflexivity | apply Hg] | exists dx; split; [reflexivity | apply grows_refl]].
  - destruct (key_eqb k x); apply IHf; try lia; exact H.
Qed.

(* ------------------------------------------------------------------ one iteration of the main loop, analysed *)
Definition active (w : ws) (k : key) (d : data) (n : key) : Prop :=
  lookup k w = Some (Dir d) /\ d_params d = true /\ d_recomp d = Some n /\ k_id n <> k_id k.

Definition pre (w : ws) (n : key) : ws := if is_link w n && negb (exists_ w n) then unlink n w else w.

Definition act (rep cl : bool) (w : ws) (k n : key) : ws :=
  let w1 := pre w n in
  match resolve w1 n with
  | Some (k', _) => if key_eqb k' k then (if rep then update_dir k (alias (k_name k) (k_name n)) w1 else w1) else w1
  | None => if cl then let w2 := rename k n w1 in if rep then update_dir n (alias (k_name k) (k_name n)) w2 else w2
            else let w2 := add_link n k w1 in if rep then update_dir k (alias (k_name k) (k_name n)) w2 else w2
  end.

Lemma yielded_dir : forall w k d, lookup k w = Some (Dir d) -> yielded w k = d_params d.
Proof. intros w k d H; unfold yielded. rewrite (resolve_dir _ _ _ H). reflexivity. Qed.

Lemma step_active : forall rep cl w k d n, active w k d n -> main_step rep true cl w k = act rep cl w k n.
Proof.
  intros rep cl w k d n (H1 & H2 & H3 & H4). unfold main_step, act, pre.
  rewrite (yielded_dir _ _ _ H1), H2, H1, H3. simpl.
  destruct (k_id n =? k_id k) eqn:E; [apply Z.eqb_eq in E; contradiction | reflexivity].
Qed.
Lemma step_inactive : forall rep fx cl w k, (forall d n, ~ active w k d n) -> main_step rep fx cl w k = w.
Proof.
  intros rep fx cl w k H. unfold main_step.
  destruct (yielded w k) eqn:Y; simpl; [|reflexivity].
  destruct (lookup k w) as [[d|t]|] eqn:L; try reflexivity.
  destruct (d_recomp d) as [n|] eqn:R; [|reflexivity].
  destruct (k_id n =? k_id k) eqn:E; [reflexivity|].
  exfalso. apply (H d n). rewrite (yielded_dir _ _ _ L) in Y. apply Z.eqb_neq in E. repeat split; assumption.
Qed.
Lemma step_nofix : forall rep cl w k, main_step rep false cl w k = w.
Proof.
  intros; unfold main_step. destruct (negb (yielded w k)); [reflexivity|].
  destruct (lookup k w) as [[d|t]|]; try reflexivity. destruct (d_recomp d); [|reflexivity].
  destruct (k_id k0 =? k_id k); reflexivity.
Qed.
Lemma active_dec : forall w k, (exists d n, active w k d n) \/ (forall d n, ~ active w k d n).
Proof.
  intros w k. unfold active.
  destruct (lookup k w) as [[d|t]|] eqn:L; [| right; intros d n (H & _); discriminate | right; intros d n (H & _); discriminate].
  destruct (d_params d) eqn:P; [| right; intros d' n (H & H2 & _); inversion H; subst; congruence].
  destruct (d_recomp d) as [n|] eqn:R; [| right; intros d' n (H & _ & H3 & _); inversion H; subst; congruence].
  destruct (Z.eq_dec (k_id n) (k_id k)) as [E|E].
  - right; intros d' n' (H & _ & H3 & H4); inversion H; subst. rewrite R in H3; inversion H3; subst. contradiction.
  - left; exists d, n; auto.
Qed.
Lemma active_fun : forall w k d n d' n', active w k d n -> active w k d' n' -> d = d' /\ n = n'.
Proof. intros w k d n d' n' (H1 & _ & H3 & _) (H1' & _ & H3' & _). rewrite H1 in H1'; inversion H1'; subst. rewrite H3 in H3'; inversion H3'; auto. Qed.

Lemma pre_cases : forall w n, pre w n = w \/ (is_link w n = true /\ exists_ w n = false /\ pre w n = unlink n w).
Proof.
  intros; unfold pre. destruct (is_link w n) eqn:A; simpl; [|left; reflexivity].
  destruct (exists_ w n) eqn:B; simpl; [left; reflexivity | right; auto].
Qed.
Lemma rpres_pre : forall w n, rpres w (pre w n).
Proof. intros w n; destruct (pre_cases w n) as [H|(A & B & H)]; rewrite H; [apply rpres_refl | apply rpres_unlink; assumption]. Qed.
Lemma wf_pre : forall w n, wf w -> wf (pre w n).
Proof. intros w n Hw; destruct (pre_cases w n) as [H|(A & B & H)]; rewrite H; [assumption | apply wf_unlink; assumption]. Qed.
Lemma pre_dir : forall w n x d, lookup x w = Some (Dir d) -> lookup x (pre w n) = Some (Dir d).
Proof. intros w n x d Hx; destruct (pre_cases w n) as [H|(A & B & H)]; rewrite H; [assumption | apply lookup_unlink_dir; assumption]. Qed.
Lemma pre_other : forall w n x, x <> n -> lookup x (pre w n) = lookup x w.
Proof. intros w n x Hx; destruct (pre_cases w n) as [H|(A & B & H)]; rewrite H; [reflexivity | apply lookup_unlink_other; assumption]. Qed.
(* when the new path does not exist after the dangling link was removed, nothing is there *)
Lemma pre_none : forall w n, resolve (pre w n) n = None -> lookup n (pre w n) = None.
Proof.
  intros w n H. destruct (lookup n (pre w n)) as [[d|t]|] eqn:L; [| |reflexivity].
  - rewrite (resolve_dir _ _ _ L) in H; discriminate.
  - exfalso. destruct (pre_cases w n) as [E|(A & B & E)]; rewrite E in *.
    + unfold pre in E. unfold is_link in E. rewrite L in E. unfold exists_ in E. rewrite H in E. simpl in E.
      assert (X : lookup n (unlink n w) = Some (Link t)) by (rewrite E; exact L).
      exact (lookup_unlink_self_nolink _ _ _ X).
    + exact (lookup_unlink_self_nolink _ _ _ L).
Qed.
(* reverse: a directory seen after `pre` was there before (needs wf: no shadowed entries) *)
Lemma pre_dir_rev : forall w n x d, wf w -> lookup x (pre w n) = Some (Dir d) -> lookup x w = Some (Dir d).
Proof.
  intros w n x d Hw Hx; destruct (pre_cases w n) as [H|(A & B & H)]; rewrite H in Hx; [assumption|].
  destruct (key_eqb x n) eqn:E.
  - apply key_eqb_eq in E; subst. rewrite lookup_unlink_self in Hx by assumption. discriminate.
  - apply key_eqb_neq in E. rewrite lookup_unlink_other in Hx by assumption. exact Hx.
Qed.

Lemma memZ_last : forall b l, memZ b (l ++ [b]) = true.
Proof. intros b; induction l; simpl; [rewrite Z.eqb_refl; reflexivity | rewrite IHl; apply orb_true_r]. Qed.
Lemma alias_idem : forall a b d, alias a b (alias a b d) = alias a b d.
Proof.
  intros a b d. unfold alias. destruct (a =? b) eqn:E; [reflexivity|].
  destruct (memZ a (d_done d) && negb (memZ b (d_done d))) eqn:M; simpl.
  - rewrite memZ_last. rewrite andb_false_r. reflexivity.
  - rewrite M. reflexivity.
Qed.
Lemma alias_core : forall a b d, core (alias a b d) = core d.
Proof. intros a b d. destruct (alias_grows a b d) as [H _]. symmetry; exact H. Qed.
Lemma memZ_in : forall x l, memZ x l = true <-> In x l.
Proof.
  intros x; induction l; simpl; [split; [discriminate | contradiction]|].
  rewrite orb_true_iff, Z.eqb_eq, IHl. split; intros [H|H]; auto.
Qed.
Lemma alias_done : forall a b d, In a (d_done d) -> In b (d_done (alias a b d)).
Proof.
  intros a b d H; unfold alias. destruct (a =? b) eqn:E; [apply Z.eqb_eq in E; subst; exact H|].
  apply memZ_in in H. rewrite H; simpl.
  destruct (memZ b (d_done d)) eqn:M; simpl; [apply memZ_in; exact M | apply in_or_app; right; simpl; auto].
Qed.

(* stability of resolutions in link mode (cleanup = false) *)
Lemma rpres_act_link : forall rep w k n, rpres w (act rep false w k n).
Proof.
  intros rep w k n. unfold act.
  pose proof (rpres_pre w n) as H1. pose proof (pre_none w n) as Hn. set (w1 := pre w n) in *.
  destruct (resolve w1 n) as [[k' dn]|].
  - destruct (key_eqb k' k); [|exact H1]. destruct rep; [|exact H1].
    eapply rpres_trans; [exact H1 | apply rpres_update_dir; intros; apply alias_grows].
  - assert (H2 : rpres w (add_link n k w1)) by (eapply rpres_trans; [exact H1 | apply rpres_add_link; auto]).
    destruct rep; [|exact H2]. eapply rpres_trans; [exact H2 | apply rpres_update_dir; intros; apply alias_grows].
Qed.
Lemma rpres_step_link : forall rep w k, rpres w (main_step rep true false w k).
Proof.
  intros rep w k. destruct (active_dec w k) as [(d & n & H)|H].
  - rewrite (step_active _ _ _ _ _ _ H). apply rpres_act_link.
  - rewrite step_inactive by exact H. apply rpres_refl.
Qed.
Lemma rpres_mainpass_link : forall rep o w, rpres w (mainpass rep true false w o).
Proof.
  intros rep; unfold mainpass; induction o; intros w; simpl; [apply rpres_refl|].
  eapply rpres_trans; [apply rpres_step_link | apply IHo].
Qed.

(* link mode: whatever a path led to, it still leads to after the repair; in particular a new path
   occupied by different data is left as it is *)
Theorem fix_link_untouched : forall o1 o2 w x kx dx,
  resolve w x = Some (kx, dx) ->
  exists dx', resolve (fix_ws true false o1 o2 w) x = Some (kx, dx') /\ core dx' = core dx /\ incl (d_done dx) (d_done dx').
Proof.
  intros o1 o2 w x kx dx H. unfold fix_ws, run; simpl.
  destruct (rpres_mainpass_link true o2 w maxhops x kx dx (le_n _) H) as [dx' [H1 [H2 H3]]].
  exists dx'; auto.
Qed.

(* ------------------------------------------------------------------ 3. link mode: a second repair changes nothing *)
Definition ok (rep : bool) (w : ws) (k : key) : Prop :=
  forall d n, active w k d n ->
    exists k' dn, resolve w n = Some (k', dn) /\ (rep = true -> k' = k -> alias (k_name k) (k_name n) d = d).

Lemma pre_exists : forall w n, exists_ w n = true -> pre w n = w.
Proof. intros w n H; unfold pre; rewrite H; simpl; rewrite andb_false_r; reflexivity. Qed.

Lemma ok_step_id : forall rep cl w k, ok rep w k -> main_step rep true cl w k = w.
Proof.
  intros rep cl w k Hok. destruct (active_dec w k) as [(d & n & H)|H]; [|apply step_inactive; exact H].
  rewrite (step_active _ _ _ _ _ _ H). destruct (Hok d n H) as (k' & dn & R & A).
  unfold act. rewrite pre_exists by (unfold exists_; rewrite R; reflexivity). rewrite R.
  destruct (key_eqb k' k) eqn:E; [|reflexivity]. apply key_eqb_eq in E.
  destruct rep; [|reflexivity]. destruct H as (L & _). eapply update_dir_id; eauto.
Qed.

Lemma act_link_k : forall rep w k d n, active w k d n ->
  let w' := act rep false w k n in
  exists d', lookup k w' = Some (Dir d') /\ core d' = core d /\
    exists k' dn, resolve w' n = Some (k', dn) /\ (rep = true -> k' = k -> alias (k_name k) (k_name n) d' = d').
Proof.
  intros rep w k d n (L & P & R & I). unfold act.
  pose proof (pre_dir w n k d L) as L1. pose proof (pre_none w n) as Hn. set (w1 := pre w n) in *.
  destruct (resolve w1 n) as [[k' dn]|] eqn:RS.
  - destruct (key_eqb k' k) eqn:E.
    + apply key_eqb_eq in E; subst k'. destruct rep.
      * exists (alias (k_name k) (k_name n) d). rewrite lookup_update_dir, key_eqb_refl, L1.
        split; [reflexivity|]. split; [apply alias_core|].
        destruct (rpres_update_dir w1 k (alias (k_name k) (k_name n)) (fun d => alias_grows _ _ d) maxhops n k dn (le_n _) RS) as [dx' [H1 _]].
        exists k, dx'. split; [exact H1|]. intros _ _. apply alias_idem.
      * exists d. split; [exact L1|]. split; [reflexivity|]. exists k, dn. split; [exact RS | discriminate].
    + exists d. split; [exact L1|]. split; [reflexivity|]. exists k', dn. split; [exact RS|].
      intros _ H. subst. rewrite key_eqb_refl in E. discriminate.
  - specialize (Hn eq_refl).
    assert (Hkn : key_eqb n k = false).
    { apply key_eqb_neq. intros ->. rewrite L1 in Hn. discriminate. }
    assert (L2 : lookup k (add_link n k w1) = Some (Dir d)) by (rewrite lookup_add_link, L1; reflexivity).
    assert (N2 : lookup n (add_link n k w1) = Some (Link k)) by (rewrite lookup_add_link, Hn, key_eqb_refl; reflexivity).
    destruct rep.
    + exists (alias (k_name k) (k_name n) d). rewrite lookup_update_dir, key_eqb_refl, L2.
      split; [reflexivity|]. split; [apply alias_core|].
      exists k, (alias (k_name k) (k_name n) d). split; [|intros _ _; apply alias_idem].
      apply resolve_link.
      * rewrite lookup_update_dir. rewrite key_eqb_sym, Hkn. exact N2.
      * rewrite lookup_update_dir, key_eqb_refl, L2. reflexivity.
    + exists d. split; [exact L2|]. split; [reflexivity|]. exists k, d. split; [|discriminate].
      apply resolve_link; assumption.
Qed.

Lemma step_makes_ok : forall rep w k, ok rep (main_step rep true false w k) k.
Proof.
  intros rep w k. destruct (active_dec w k) as [(d & n & H)|H].
  - rewrite (step_active _ _ _ _ _ _ H).
    destruct (act_link_k rep w k d n H) as (d' & L' & C' & k' & dn & R' & A').
    intros d2 n2 (L2 & P2 & R2 & I2). rewrite L' in L2; inversion L2; subst d2.
    assert (n2 = n). { destruct H as (_ & _ & R & _). unfold core in C'. inversion C'. rewrite H2 in R2. rewrite R in R2. inversion R2; reflexivity. }
    subst n2. exists k', dn. auto.
  - rewrite step_inactive by exact H. intros d n Ha. exfalso; exact (H d n Ha).
Qed.

Lemma act_link_dir_rev : forall rep w k n x dx, wf w -> x <> k ->
  lookup x (act rep false w k n) = Some (Dir dx) -> lookup x w = Some (Dir dx).
Proof.
  intros rep w k n x dx Hw Hx. unfold act. pose proof (pre_dir_rev w n x dx Hw) as P. set (w1 := pre w n) in *.
  assert (Hk : key_eqb k x = false) by (apply key_eqb_neq; congruence).
  assert (A : lookup x (add_link n k w1) = Some (Dir dx) -> lookup x w = Some (Dir dx)).
  { rewrite lookup_add_link. destruct (lookup x w1) as [e|] eqn:L; [intros H; apply P; exact H|].
    destruct (key_eqb n x); discriminate. }
  destruct (resolve w1 n) as [[k' dn]|].
  - destruct (key_eqb k' k); [|exact P]. destruct rep; [|exact P]. rewrite lookup_update_dir, Hk. exact P.
  - destruct rep; [|exact A]. rewrite lookup_update_dir, Hk. exact A.
Qed.
Lemma wf_act_link : forall rep w k n, wf w -> wf (act rep false w k n).
Proof.
  intros rep w k n Hw. unfold act. pose proof (wf_pre w n Hw) as W1. pose proof (pre_none w n) as Hn. set (w1 := pre w n) in *.
  destruct (resolve w1 n) as [[k' dn]|].
  - destruct (key_eqb k' k); [|exact W1]. destruct rep; [apply wf_update_dir|]; exact W1.
  - assert (W2 : wf (add_link n k w1)) by (apply wf_add_link; auto).
    destruct rep; [apply wf_update_dir|]; exact W2.
Qed.
Lemma wf_step_link : forall rep w k, wf w -> wf (main_step rep true false w k).
Proof.
  intros rep w k Hw. destruct (active_dec w k) as [(d & n & H)|H].
  - rewrite (step_active _ _ _ _ _ _ H). apply wf_act_link; exact Hw.
  - rewrite step_inactive by exact H. exact Hw.
Qed.
Lemma step_link_dir_rev : forall rep w k x dx, wf w ->
  lookup x (main_step rep true false w k) = Some (Dir dx) ->
  (x <> k /\ lookup x w = Some (Dir dx)) \/ (x = k /\ exists d, lookup k w = Some (Dir d)).
Proof.
  intros rep w k x dx Hw. destruct (active_dec w k) as [(d & n & H)|H].
  - rewrite (step_active _ _ _ _ _ _ H). intros L.
    destruct (key_eqb x k) eqn:E.
    + apply key_eqb_eq in E; subst. right. split; [reflexivity|]. destruct H as (H & _). eauto.
    + apply key_eqb_neq in E. left. split; [exact E|]. eapply act_link_dir_rev; eauto.
  - rewrite step_inactive by exact H. intros L.
    destruct (key_eqb x k) eqn:E.
    + apply key_eqb_eq in E; subst. right; eauto.
    + apply key_eqb_neq in E. left; auto.
Qed.

Lemma step_keeps_ok : forall rep w k k2, wf w -> ok rep w k -> ok rep (main_step rep true false w k2) k.
Proof.
  intros rep w k k2 Hw Hok. destruct (key_eqb k k2) eqn:E.
  - apply key_eqb_eq in E; subst. apply step_makes_ok.
  - apply key_eqb_neq in E. intros d n (L & P & R & I).
    destruct (step_link_dir_rev _ _ _ _ _ Hw L) as [[_ L0]|[X _]]; [|contradiction].
    destruct (Hok d n (conj L0 (conj P (conj R I)))) as (k' & dn & RS & A).
    destruct (rpres_step_link rep w k2 maxhops n k' dn (le_n _) RS) as [dn' [H1 _]].
    exists k', dn'. split; [exact H1 | exact A].
Qed.
Lemma pass_keeps_ok : forall rep o w k, wf w -> ok rep w k -> ok rep (mainpass rep true false w o) k.
Proof.
  intros rep; unfold mainpass; induction o; intros w k Hw Hok; simpl; [exact Hok|].
  apply IHo; [apply wf_step_link; exact Hw | apply step_keeps_ok; assumption].
Qed.
Lemma pass_makes_ok : forall rep o w k, wf w -> In k o -> ok rep (mainpass rep true false w o) k.
Proof.
  intros rep; induction o; intros w k Hw Hin; [contradiction|].
  destruct Hin as [->|Hin].
  - change (mainpass rep true false w (k :: o)) with (mainpass rep true false (main_step rep true false w k) o).
    apply pass_keeps_ok; [apply wf_step_link; exact Hw | apply step_makes_ok].
  - change (mainpass rep true false w (a :: o)) with (mainpass rep true false (main_step rep true false w a) o).
    apply IHo; [apply wf_step_link; exact Hw | exact Hin].
Qed.
Lemma pass_link_dir_rev : forall rep o w x dx, wf w ->
  lookup x (mainpass rep true false w o) = Some (Dir dx) -> exists d, lookup x w = Some (Dir d).
Proof.
  intros rep; unfold mainpass; induction o; intros w x dx Hw; simpl; [eauto|].
  intros L. destruct (IHo _ _ _ (wf_step_link rep w a Hw) L) as [d L1].
  destruct (step_link_dir_rev _ _ _ _ _ Hw L1) as [[_ H]|[-> H]]; eauto.
Qed.
Lemma wf_mainpass_link : forall rep o w, wf w -> wf (mainpass rep true false w o).
Proof. intros rep; unfold mainpass; induction o; intros w Hw; simpl; [exact Hw | apply IHo, wf_step_link, Hw]. Qed.

(* every directory of w is examined by the loop *)
Definition covers (w : ws) (o : list key) : Prop := forall k d, lookup k w = Some (Dir d) -> In k o.

Lemma all_ok_pass_id : forall rep cl o w, (forall k, ok rep w k) -> mainpass rep true cl w o = w.
Proof.
  intros rep cl; unfold mainpass; induction o; intros w H; simpl; [reflexivity|].
  rewrite ok_step_id by apply H. apply IHo; exact H.
Qed.

Theorem link_pass_idempotent : forall rep w o o', wf w -> covers w o ->
  mainpass rep true false (mainpass rep true false w o) o' = mainpass rep true false w o.
Proof.
  intros rep w o o' Hw Hc. apply all_ok_pass_id. intros k d n Ha.
  destruct Ha as (L & P & R & I).
  destruct (pass_link_dir_rev _ _ _ _ _ Hw L) as [d0 L0].
  exact (pass_makes_ok rep o w k Hw (Hc _ _ L0) d n (conj L (conj P (conj R I)))).
Qed.

Theorem fix_idempotent : forall w o1 o2 o1' o2', wf w -> covers w o2 ->
  fix_ws true false o1' o2' (fix_ws true false o1 o2 w) = fix_ws true false o1 o2 w.
Proof. intros; unfold fix_ws, run; simpl. apply link_pass_idempotent; assumption. Qed.

(* link mode: after the repair the new path of every examined directory exists *)
Theorem fix_link_total : forall w o1 o2 k d n, wf w -> In k o2 -> active w k d n ->
  exists_ (fix_ws true false o1 o2 w) n = true.
Proof.
  intros w o1 o2 k d n Hw Hin (L & P & R & I). unfold fix_ws, run; simpl.
  destruct (rpres_mainpass_link true o2 w 1%nat k k d) as [d' [L' [C' _]]]; [unfold maxhops; lia | simpl; rewrite L; reflexivity |].
  simpl in L'. destruct (lookup k (mainpass true true false w o2)) as [[dd|t]|] eqn:LL; try discriminate.
  inversion L'; subst dd. unfold core in C'. inversion C'.
  assert (A : active (mainpass true true false w o2) k d' n) by (repeat split; congruence).
  destruct (pass_makes_ok true o2 w k Hw Hin d' n A) as (k' & dn & RS & _).
  unfold exists_. rewrite RS. reflexivity.
Qed.

(* ------------------------------------------------------------------ frame lemmas for one active iteration (any mode) *)
Lemma lookup_update_link : forall x k f w t, lookup x w = Some (Link t) -> lookup x (update_dir k f w) = Some (Link t).
Proof. intros x k f w t H. rewrite lookup_update_dir, H. destruct (key_eqb k x); reflexivity. Qed.
Lemma lookup_update_none : forall x k f w, lookup x w = None -> lookup x (update_dir k f w) = None.
Proof. intros x k f w H. rewrite lookup_update_dir, H. destruct (key_eqb k x); reflexivity. Qed.
Lemma lookup_update_other : forall x k f w, x <> k -> lookup x (update_dir k f w) = lookup x w.
Proof. intros x k f w H. rewrite lookup_update_dir. assert (key_eqb k x = false) by (apply key_eqb_neq; congruence). rewrite H0; reflexivity. Qed.

Section Frame.
Variables (rep cl : bool) (w : ws) (k2 : key) (d2 : data) (n2 : key).
Hypothesis A2 : active w k2 d2 n2.

Let w1 := pre w n2.
Let L2 : lookup k2 w1 = Some (Dir d2).
Proof. destruct A2 as (L & _). apply pre_dir; exact L. Qed.
Let K2 : k2 <> n2.
Proof. destruct A2 as (_ & _ & _ & I). intros E; subst; apply I; reflexivity. Qed.

Lemma frame_dir : forall x dx, lookup x w = Some (Dir dx) -> x <> k2 -> lookup x (act rep cl w k2 n2) = Some (Dir dx).
Proof.
  intros x dx Lx Hx. unfold act. fold w1. pose proof (pre_dir w n2 x dx Lx) as L1. fold w1 in L1.
  pose proof (pre_none w n2) as Hn. fold w1 in Hn.
  destruct (resolve w1 n2) as [[k' dn]|].
  - destruct (key_eqb k' k2); [|exact L1]. destruct rep; [|exact L1]. rewrite lookup_update_other; assumption.
  - specialize (Hn eq_refl). assert (Hxn : x <> n2) by (intros E; subst; rewrite L1 in Hn; discriminate).
    destruct cl.
    + assert (X : lookup x (rename k2 n2 w1) = Some (Dir dx)) by (rewrite lookup_rename_other; assumption).
      destruct rep; [|exact X]. rewrite lookup_update_other; assumption.
    + assert (X : lookup x (add_link n2 k2 w1) = Some (Dir dx)) by (rewrite lookup_add_link, L1; reflexivity).
      destruct rep; [|exact X]. rewrite lookup_update_other; assumption.
Qed.

Lemma frame_link : forall x t, lookup x w = Some (Link t) -> exists_ w x = true -> lookup x (act rep cl w k2 n2) = Some (Link t).
Proof.
  intros x t Lx Ex. unfold act. fold w1.
  assert (L1 : lookup x w1 = Some (Link t)).
  { unfold w1. destruct (pre_cases w n2) as [E|(Hl & He & E)]; rewrite E; [exact Lx|].
    rewrite lookup_unlink_other; [exact Lx|]. intros ->. congruence. }
  assert (E1 : exists_ w1 x = true).
  { unfold exists_ in *. destruct (resolve w x) as [[kx dx]|] eqn:R; [|discriminate].
    destruct (rpres_pre w n2 maxhops x kx dx (le_n _) R) as [dx' [R' _]]. fold w1 in R'. unfold resolve. rewrite R'. reflexivity. }
  pose proof (pre_none w n2) as Hn. fold w1 in Hn.
  destruct (resolve w1 n2) as [[k' dn]|] eqn:RS.
  - destruct (key_eqb k' k2); [|exact L1]. destruct rep; [|exact L1]. apply lookup_update_link; exact L1.
  - specialize (Hn eq_refl).
    assert (Hxn : x <> n2) by (intros E; subst; unfold exists_ in E1; rewrite RS in E1; discriminate).
    assert (Hxk : x <> k2) by (intros E; subst; rewrite L2 in L1; discriminate).
    destruct cl.
    + assert (X : lookup x (rename k2 n2 w1) = Some (Link t)) by (rewrite lookup_rename_other; assumption).
      destruct rep; [|exact X]. apply lookup_update_link; exact X.
    + assert (X : lookup x (add_link n2 k2 w1) = Some (Link t)) by (rewrite lookup_add_link, L1; reflexivity).
      destruct rep; [|exact X]. apply lookup_update_link; exact X.
Qed.

Lemma frame_none : forall x, lookup x w = None -> x <> n2 -> lookup x (act rep cl w k2 n2) = None.
Proof.
  intros x Lx Hxn. unfold act. fold w1.
  assert (L1 : lookup x w1 = None).
  { unfold w1. destruct (pre_cases w n2) as [E|(Hl & He & E)]; rewrite E; [exact Lx | apply lookup_unlink_none; exact Lx]. }
  assert (Hxk : x <> k2) by (intros E; subst; rewrite L2 in L1; discriminate).
  destruct (resolve w1 n2) as [[k' dn]|].
  - destruct (key_eqb k' k2); [|exact L1]. destruct rep; [|exact L1]. apply lookup_update_none; exact L1.
  - destruct cl.
    + assert (X : lookup x (rename k2 n2 w1) = None) by (rewrite lookup_rename_other; assumption).
      destruct rep; [|exact X]. apply lookup_update_none; exact X.
    + assert (X : lookup x (add_link n2 k2 w1) = None).
      { rewrite lookup_add_link, L1. assert (key_eqb n2 x = false) by (apply key_eqb_neq; congruence). rewrite H; reflexivity. }
      destruct rep; [|exact X]. apply lookup_update_none; exact X.
Qed.

Lemma frame_rev : forall x dx', wf w -> lookup x (act rep cl w k2 n2) = Some (Dir dx') ->
  exists y dy, lookup y w = Some (Dir dy) /\ grows dy dx' /\ (y = x \/ (y = k2 /\ x = n2)).
Proof.
  intros x dx' Hw. unfold act. fold w1.
  pose proof (pre_dir_rev w n2 x dx' Hw) as P. fold w1 in P.
  pose proof (pre_none w n2) as Hn. fold w1 in Hn.
  assert (L0 : lookup k2 w = Some (Dir d2)) by (destruct A2 as (L & _); exact L).
  assert (U : forall w', lookup k2 w' = Some (Dir d2) -> (forall y, y <> k2 -> lookup y w' = Some (Dir dx') -> lookup y w = Some (Dir dx')) ->
              lookup x (if rep then update_dir k2 (alias (k_name k2) (k_name n2)) w' else w') = Some (Dir dx') ->
              exists y dy, lookup y w = Some (Dir dy) /\ grows dy dx' /\ (y = x \/ (y = k2 /\ x = n2))).
  { intros w' Lk Hrev H. destruct (key_eqb x k2) eqn:E.
    - apply key_eqb_eq in E; subst x. exists k2, d2. split; [exact L0|]. split; [|auto].
      destruct rep.
      + rewrite lookup_update_dir, key_eqb_refl, Lk in H. inversion H; subst. apply alias_grows.
      + rewrite Lk in H. inversion H; subst. apply grows_refl.
    - apply key_eqb_neq in E. exists x, dx'. split; [|split; [apply grows_refl | auto]].
      apply Hrev; [exact E|]. destruct rep; [rewrite lookup_update_other in H by exact E|]; exact H. }
  destruct (resolve w1 n2) as [[k' dn]|].
  - destruct (key_eqb k' k2).
    + apply U; [exact L2 | intros y _ H; apply (pre_dir_rev w n2 y dx' Hw); exact H].
    + intros H. exists x, dx'. split; [apply P; exact H | split; [apply grows_refl | auto]].
  - specialize (Hn eq_refl). destruct cl.
    + intros H. destruct (key_eqb x n2) eqn:E.
      * apply key_eqb_eq in E; subst x. exists k2, d2. split; [exact L0|]. split; [|auto].
        assert (X : lookup n2 (rename k2 n2 w1) = Some (Dir d2)) by (rewrite lookup_rename_dst; assumption).
        destruct rep.
        -- rewrite lookup_update_dir, key_eqb_refl, X in H. inversion H; subst. apply alias_grows.
        -- rewrite X in H. inversion H; subst. apply grows_refl.
      * apply key_eqb_neq in E.
        assert (X : lookup x (rename k2 n2 w1) = Some (Dir dx')) by (destruct rep; [rewrite lookup_update_other in H by exact E|]; exact H).
        destruct (key_eqb x k2) eqn:E2.
        -- apply key_eqb_eq in E2; subst x. rewrite lookup_rename_src in X by exact K2. discriminate.
        -- apply key_eqb_neq in E2. rewrite lookup_rename_other in X by assumption.
           exists x, dx'. split; [apply P; exact X | split; [apply grows_refl | auto]].
    + apply U.
      * rewrite lookup_add_link, L2. reflexivity.
      * intros y _ H. apply (pre_dir_rev w n2 y dx' Hw). rewrite lookup_add_link in H. fold w1.
        destruct (lookup y w1) as [e|]; [exact H|]. destruct (key_eqb n2 y); discriminate.
Qed.

Lemma wf_act : wf w -> wf (act rep cl w k2 n2).
Proof.
  intros Hw. unfold act. fold w1. pose proof (wf_pre w n2 Hw) as W1. fold w1 in W1.
  pose proof (pre_none w n2) as Hn. fold w1 in Hn.
  destruct (resolve w1 n2) as [[k' dn]|].
  - destruct (key_eqb k' k2); [|exact W1]. destruct rep; [apply wf_update_dir|]; exact W1.
  - specialize (Hn eq_refl). destruct cl.
    + assert (W2 : wf (rename k2 n2 w1)) by (apply wf_rename; assumption).
      destruct rep; [apply wf_update_dir|]; exact W2.
    + assert (W2 : wf (add_link n2 k2 w1)) by (apply wf_add_link; assumption).
      destruct rep; [apply wf_update_dir|]; exact W2.
Qed.
End Frame.

Lemma wf_step : forall rep fx cl w k, wf w -> wf (main_step rep fx cl w k).
Proof.
  intros rep fx cl w k Hw. destruct fx; [|rewrite step_nofix; exact Hw].
  destruct (active_dec w k) as [(d & n & H)|H].
  - rewrite (step_active _ _ _ _ _ _ H). eapply wf_act; eauto.
  - rewrite step_inactive by exact H. exact Hw.
Qed.
