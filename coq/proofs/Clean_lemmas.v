(* Proofs about model/Clean.v (C19). *)
From Coq Require Import NArith List Bool Lia.
From XV Require Import model.Filter model.Clean proofs.Filter_lemmas.
Import ListNotations.
Open Scope N_scope.

Lemma key_eqb_eq : forall a b, key_eqb a b = true <-> a = b.
Proof.
  intros [a1 a2] [b1 b2]. unfold key_eqb. simpl.
  rewrite andb_true_iff, !str_eqb_eq. split.
  - intros [H1 H2]. subst. reflexivity.
  - intro H. inversion H. auto.
Qed.

Lemma mem_key_In : forall k l, mem_key k l = true <-> In k l.
Proof.
  intros k l. unfold mem_key. rewrite existsb_exists. split.
  - intros (x & Hx & E). apply key_eqb_eq in E. subst. assumption.
  - intro H. exists k. split; [assumption | apply key_eqb_eq; reflexivity].
Qed.

Lemma stored_spec : forall w k, stored w k = true <-> exists j, In j (w_jobs w) /\ job_key j = k.
Proof.
  intros w k. unfold stored. rewrite existsb_exists. split.
  - intros (j & Hj & E). apply key_eqb_eq in E. eauto.
  - intros (j & Hj & E). exists j. split; [assumption | apply key_eqb_eq; assumption].
Qed.

Lemma finished_state_spec : forall j, finished (state j) = true <-> finished_spec j.
Proof.
  intro j. unfold state, finished_spec.
  destruct (j_done j), (j_failed j), (j_pid j), (j_alive j); simpl; split; intro H;
    try reflexivity; try discriminate; auto;
    try (right; split; [reflexivity | intros [A B]; discriminate]);
    try (destruct H as [H | [H1 H2]]; try discriminate; exfalso; apply H2; split; reflexivity).
Qed.

Lemma finished_not_running : forall j, finished_spec j -> running j = false.
Proof.
  intros j H. unfold running. destruct H as [H | [H1 H2]].
  - rewrite H. reflexivity.
  - destruct (j_done j); [reflexivity|]. simpl.
    destruct (j_pid j), (j_alive j); try reflexivity. exfalso. apply H2. split; reflexivity.
Qed.

Lemma xps_of_spec : forall w j name, In name (xps_of w j) <-> in_experiment w name j.
Proof.
  intros w j name. unfold xps_of, in_experiment. rewrite in_map_iff. split.
  - intros (x & E & Hx). apply filter_In in Hx. destruct Hx as [Hx Hm].
    apply mem_key_In in Hm. exists x. auto.
  - intros (x & Hx & E & Hm). exists x. split; [assumption|].
    apply filter_In. split; [assumption | apply mem_key_In; assumption].
Qed.

Lemma selected_iff : forall w o j, selected w o j = true <-> selected_spec w o j.
Proof.
  intros w o j. unfold selected, selected_gen, selected_spec.
  rewrite andb_true_iff, orb_true_iff, mem_In, xps_of_spec.
  assert (Hn : isnil (o_experiment o) = true <-> o_experiment o = []).
  { destruct (o_experiment o); simpl; split; intro H; try reflexivity; discriminate. }
  rewrite Hn. destruct (o_filter o) as [f|].
  - rewrite eval_meaning. tauto.
  - tauto.
Qed.

(* ---- jobs clean ---------------------------------------------------------- *)
Theorem clean_exact : forall w o k,
  In k (clean w o) <->
  o_perform o = true /\
  exists j, In j (w_jobs w) /\ job_key j = k /\ selected_spec w o j /\ finished_spec j.
Proof.
  intros w o k. unfold clean, clean_gen.
  replace (raises_gen (fun _ => true) o) with false
    by (unfold raises_gen; destruct (o_filter o); reflexivity).
  destruct (o_perform o) eqn:Ep.
  - rewrite andb_false_r. simpl. rewrite in_map_iff. split.
    + intros (j & E & Hj). apply filter_In in Hj. destruct Hj as [Hj Hc].
      apply andb_true_iff in Hc. destruct Hc as [Hs Hf].
      split; [reflexivity|]. exists j. split; [assumption|]. split; [assumption|]. split.
      * apply selected_iff. exact Hs.
      * apply finished_state_spec. exact Hf.
    + intros (_ & j & Hj & E & Hs & Hf). exists j. split; [assumption|].
      apply filter_In. split; [assumption|]. apply andb_true_iff. split.
      * apply selected_iff in Hs. exact Hs.
      * apply finished_state_spec. exact Hf.
  - rewrite andb_false_r. simpl. split; [tauto | intros [H _]; discriminate].
Qed.

Corollary clean_only_with_perform : forall w o, o_perform o = false -> clean w o = [].
Proof.
  intros w o H. destruct (clean w o) as [|k l] eqn:E; [reflexivity|].
  assert (Hk : In k (clean w o)) by (rewrite E; left; reflexivity).
  apply clean_exact in Hk. destruct Hk as [Hp _]. rewrite H in Hp. discriminate.
Qed.

Lemma nodup_map_inj : forall (A B : Type) (f : A -> B) (l : list A) x y,
  NoDup (map f l) -> In x l -> In y l -> f x = f y -> x = y.
Proof.
  intros A B f. induction l as [|a l IH]; intros x y Hn Hx Hy E; simpl in *.
  - contradiction.
  - inversion Hn as [|? ? Hna Hnl]; subst. destruct Hx as [Hx|Hx]; destruct Hy as [Hy|Hy]; subst.
    + reflexivity.
    + exfalso. apply Hna. rewrite E. apply in_map. assumption.
    + exfalso. apply Hna. rewrite <- E. apply in_map. assumption.
    + apply IH; assumption.
Qed.

(* job directories are distinct: the statement per job *)
Theorem clean_exact_job : forall w o j,
  NoDup (map job_key (w_jobs w)) -> In j (w_jobs w) ->
  (In (job_key j) (clean w o) <->
   o_perform o = true /\ selected_spec w o j /\ finished_spec j).
Proof.
  intros w o j Hn Hj. rewrite clean_exact. split.
  - intros (Hp & j' & Hj' & E & Hs & Hf).
    assert (j' = j) by (eapply nodup_map_inj; eauto). subst. auto.
  - intros (Hp & Hs & Hf). split; [assumption|]. exists j. auto.
Qed.

Theorem never_running : forall w o j,
  NoDup (map job_key (w_jobs w)) -> In j (w_jobs w) ->
  In (job_key j) (clean w o) -> running j = false.
Proof.
  intros w o j Hn Hj H. apply (clean_exact_job w o j Hn Hj) in H.
  destruct H as (_ & _ & Hf). apply finished_not_running. assumption.
Qed.

(* what is removed was a stored job directory *)
Theorem clean_removes_stored : forall w o k, In k (clean w o) -> stored w k = true.
Proof.
  intros w o k H. apply clean_exact in H. destruct H as (_ & j & Hj & E & _).
  apply stored_spec. eauto.
Qed.

(* ---- orphans ------------------------------------------------------------- *)
Lemma index_keys_spec : forall w io k,
  stored w k = true -> (In k (index_keys w io) <-> referenced w io k).
Proof.
  intros w io k Hs. unfold index_keys, referenced. rewrite in_app_iff, in_flat_map. split.
  - intros [(x & Hx & Hk) | H].
    + apply filter_In in Hk. exists x. tauto.
    + destruct io; [contradiction|]. apply in_flat_map in H. destruct H as (x & Hx & Hk).
      apply filter_In in Hk. exists x. tauto.
  - intros (x & Hx & [Hk | [Eio Hk]]).
    + left. exists x. split; [assumption|]. apply filter_In. auto.
    + right. subst io. apply in_flat_map. exists x. split; [assumption|]. apply filter_In. auto.
Qed.

Theorem orphans_exact : forall w c io k,
  In k (orphans_clean w c io) <->
  c = true /\ (exists j, In j (w_jobs w) /\ job_key j = k) /\ ~ referenced w io k.
Proof.
  intros w c io k. unfold orphans_clean. destruct c.
  - rewrite filter_In, in_map_iff, negb_true_iff. split.
    + intros [(j & E & Hj) Hm]. split; [reflexivity|]. split; [eauto|].
      intro Hr. apply index_keys_spec in Hr; [|apply stored_spec; eauto].
      apply mem_key_In in Hr. rewrite Hr in Hm. discriminate.
    + intros (_ & (j & Hj & E) & Hr). split; [eauto|].
      destruct (mem_key k (index_keys w io)) eqn:Em; [|reflexivity].
      exfalso. apply Hr. apply mem_key_In in Em. apply index_keys_spec in Em; [assumption|].
      apply stored_spec. eauto.
  - simpl. split; [tauto | intros [H _]; discriminate].
Qed.

(* the statement of the property: default options, index and backup index *)
Corollary orphans_exact_default : forall w k,
  In k (orphans_clean w true false) <->
  (exists j, In j (w_jobs w) /\ job_key j = k) /\
  (forall x, In x (w_xps w) -> ~ In k (x_jobs x) /\ ~ In k (bak_keys x)).
Proof.
  intros w k. rewrite orphans_exact. unfold referenced. split.
  - intros (_ & Hs & Hr). split; [assumption|]. intros x Hx. split; intro Hk; apply Hr; exists x; auto.
  - intros (Hs & Hr). split; [reflexivity|]. split; [assumption|].
    intros (x & Hx & [Hk | [_ Hk]]); destruct (Hr x Hx); contradiction.
Qed.

Corollary orphans_nothing_without_clean : forall w io, orphans_clean w false io = [].
Proof. reflexivity. Qed.

(* ---- non-trivial instances of the hypotheses ----------------------------- *)
Definition sa : str := [97].            (* "a" *)
Definition sb : str := [98].            (* "b" *)
Definition sx : str := [120].           (* "x" *)
Definition t1 : str := [109; 46; 116].  (* "m.t" *)
Definition t2 : str := [110; 46; 116].  (* "n.t" *)
Definition h1 : str := [49].
Definition h2 : str := [50].
Definition h3 : str := [51].
Definition xa : str := [88; 65].        (* "XA" *)
Definition xb : str := [88; 66].        (* "XB" *)

Definition mkjob t h d f p a tags : job :=
  {| j_task := t; j_hash := h; j_done := d; j_failed := f; j_pid := p; j_alive := a; j_tags := tags |}.

(* three jobs: done x=a in XA; failed x=b in XB (other task, same script name);
   relaunched after a failure (old marker, live process) in XA               *)
Definition ws_ex : ws :=
  {| w_jobs := [ mkjob t1 h1 true false false false [(sx, sa)];
                 mkjob t2 h2 false true false false [(sx, sb)];
                 mkjob t1 h3 false true true true [(sx, sa)] ];
     w_xps := [ {| x_name := xa; x_jobs := [(t1, h1); (t1, h3)]; x_bak := None |};
                {| x_name := xb; x_jobs := [(t2, h2)]; x_bak := Some [(t1, h1)] |} ] |}.

Example ws_ex_nodup : NoDup (map job_key (w_jobs ws_ex)).
Proof.
  simpl. repeat constructor; simpl; intuition discriminate.
Qed.

Example clean_ex_plain :
  clean ws_ex {| o_experiment := []; o_filter := None; o_perform := true |} = [(t1, h1); (t2, h2)].
Proof. vm_compute. reflexivity. Qed.

Example clean_ex_filter :
  clean ws_ex {| o_experiment := xa;
                 o_filter := Some (single (ANotIn (VTag sx) [sb]));
                 o_perform := true |} = [(t1, h1)].
Proof. vm_compute. reflexivity. Qed.

Example orphans_ex : orphans_clean {| w_jobs := w_jobs ws_ex; w_xps := [] |} true false
                     = [(t1, h1); (t2, h2); (t1, h3)]
                     /\ orphans_clean ws_ex true false = []
                     /\ orphans_clean {| w_jobs := w_jobs ws_ex;
                                         w_xps := [ {| x_name := xb; x_jobs := [(t2, h2)];
                                                       x_bak := Some [(t1, h1)] |} ] |} true true
                        = [(t1, h1); (t1, h3)].
Proof. vm_compute. auto. Qed.

(* ---- the pinned commit, literally ---------------------------------------- *)
(* a negated-membership filter selects every job: every finished job goes *)
Theorem not_in_deletes_all_prefix : forall w v l,
  clean_prefix w {| o_experiment := []; o_filter := Some (single (ANotIn v l)); o_perform := true |}
  = map job_key (filter (fun j => finished (state_prefix j)) (w_jobs w)).
Proof.
  intros w v l. unfold clean_prefix, clean_gen, raises_gen, selected_gen. simpl.
  rewrite andb_false_r. simpl. reflexivity.
Qed.

Theorem clean_not_in_refuted : exists w o j,
  In j (w_jobs w) /\ In (job_key j) (clean_prefix w o) /\ ~ selected_spec w o j.
Proof.
  exists ws_ex, {| o_experiment := []; o_filter := Some (single (ANotIn (VTag sx) [sb])); o_perform := true |},
         (mkjob t2 h2 false true false false [(sx, sb)]).
  split; [right; left; reflexivity|]. split.
  - vm_compute. right. left. reflexivity.
  - intros [_ Hm]. simpl in Hm. apply Hm. exists sb. split; [reflexivity | left; reflexivity].
Qed.

(* a membership filter selects nothing: nothing is cleaned *)
Theorem clean_in_refuted : exists w o j,
  In j (w_jobs w) /\ o_perform o = true /\ selected_spec w o j /\ finished_spec j /\
  ~ In (job_key j) (clean_prefix w o).
Proof.
  exists ws_ex, {| o_experiment := []; o_filter := Some (single (AIn (VTag sx) [sa])); o_perform := true |},
         (mkjob t1 h1 true false false false [(sx, sa)]).
  split; [left; reflexivity|]. split; [reflexivity|]. split.
  - split; [left; reflexivity|]. simpl. exists sa. split; [reflexivity | left; reflexivity].
  - split; [left; reflexivity|]. vm_compute. tauto.
Qed.

Theorem clean_regex_raises_prefix : forall o f,
  o_filter o = Some f -> has_regex f = true -> clean_prefix_raises o = true.
Proof.
  intros o f Ho Hf. unfold clean_prefix_raises, raises_gen, build_prefix. rewrite Ho, Hf. reflexivity.
Qed.

(* --experiment reaches the jobs of other experiments with the same script name *)
Theorem clean_experiment_refuted : exists w o j,
  In j (w_jobs w) /\ o_experiment o <> [] /\ In (job_key j) (clean_prefix w o) /\
  ~ in_experiment w (o_experiment o) j.
Proof.
  exists ws_ex, {| o_experiment := xa; o_filter := None; o_perform := true |},
         (mkjob t2 h2 false true false false [(sx, sb)]).
  split; [right; left; reflexivity|]. split; [discriminate|]. split.
  - vm_compute. right. left. reflexivity.
  - intros (x & Hx & En & Hk). simpl in Hx. destruct Hx as [Hx | [Hx | []]]; subst x; simpl in *.
    + destruct Hk as [Hk | [Hk | []]]; discriminate.
    + discriminate.
Qed.

(* a relaunched job (old failure marker, live process) is removed *)
Theorem clean_running_refuted : exists w o j,
  NoDup (map job_key (w_jobs w)) /\ In j (w_jobs w) /\ running j = true /\
  In (job_key j) (clean_prefix w o).
Proof.
  exists ws_ex, {| o_experiment := []; o_filter := None; o_perform := true |},
         (mkjob t1 h3 false true true true [(sx, sa)]).
  split; [exact ws_ex_nodup|]. split; [right; right; left; reflexivity|].
  split; [reflexivity|]. vm_compute. right. right. left. reflexivity.
Qed.

(* the repaired functions on the same witnesses *)
Example repaired_on_witnesses :
  clean ws_ex {| o_experiment := []; o_filter := Some (single (ANotIn (VTag sx) [sb])); o_perform := true |}
    = [(t1, h1)]
  /\ clean ws_ex {| o_experiment := []; o_filter := Some (single (AIn (VTag sx) [sa])); o_perform := true |}
    = [(t1, h1)]
  /\ clean ws_ex {| o_experiment := xa; o_filter := None; o_perform := true |} = [(t1, h1)]
  /\ clean_prefix ws_ex {| o_experiment := xa; o_filter := None; o_perform := true |}
    = [(t1, h1); (t2, h2); (t1, h3)].
Proof. vm_compute. auto. Qed.

Example clean_regex_hyp_sat :
  let o := {| o_experiment := []; o_perform := false;
              o_filter := Some (single (ARegex VName {| p_re := RAny; p_eol := false |})) |} in
  o_filter o = Some (single (ARegex VName {| p_re := RAny; p_eol := false |}))
  /\ has_regex (single (ARegex VName {| p_re := RAny; p_eol := false |})) = true.
Proof. split; reflexivity. Qed.

Example never_running_hyp_sat :
  let o := {| o_experiment := []; o_filter := None; o_perform := true |} in
  let j := mkjob t1 h1 true false false false [(sx, sa)] in
  NoDup (map job_key (w_jobs ws_ex)) /\ In j (w_jobs ws_ex) /\ In (job_key j) (clean ws_ex o).
Proof.
  split; [exact ws_ex_nodup|]. split; [left; reflexivity|]. vm_compute. left. reflexivity.
Qed.

(* --perform is what makes the difference on a workspace with finished jobs *)
Example perform_hyp_sat :
  let o p := {| o_experiment := []; o_filter := None; o_perform := p |} in
  o_perform (o false) = false /\ clean ws_ex (o false) = [] /\ clean ws_ex (o true) <> [].
Proof. vm_compute. repeat split; discriminate. Qed.

(* ---- orphans on workspaces with link entries ------------------------------ *)
Lemma all_index_keys_spec : forall w io k,
  In k (all_index_keys w io) <->
  exists x, In x (w_xps w) /\ (In k (x_jobs x) \/ (io = false /\ In k (bak_keys x))).
Proof.
  intros w io k. unfold all_index_keys. rewrite in_app_iff, in_flat_map. split.
  - intros [(x & Hx & Hk) | H]; [exists x; tauto|].
    destruct io; [contradiction|]. apply in_flat_map in H. destruct H as (x & Hx & Hk). exists x. tauto.
  - intros (x & Hx & [Hk | [Eio Hk]]); [left; eauto|].
    right. subst io. apply in_flat_map. eauto.
Qed.

Lemma index_dirs_spec : forall w links io k,
  In k (index_dirs w links io) <-> referenced_l w links io k.
Proof.
  intros w links io k. unfold index_dirs, referenced_l. rewrite in_map_iff. split.
  - intros (k' & E & Hk'). apply all_index_keys_spec in Hk'. destruct Hk' as (x & Hx & H). exists x, k'. tauto.
  - intros (x & k' & Hx & H & E). exists k'. split; [assumption|]. apply all_index_keys_spec. eauto.
Qed.

(* removed <-> --clean, a real job directory, that no index entry (index or backup index) leads to *)
Theorem orphans_l_exact : forall w links c io k,
  In k (orphans_clean_l w links c io) <->
  c = true /\ (exists j, In j (w_jobs w) /\ job_key j = k) /\ ~ referenced_l w links io k.
Proof.
  intros w links c io k. unfold orphans_clean_l. destruct c.
  - rewrite filter_In, in_map_iff, negb_true_iff. split.
    + intros [(j & E & Hj) Hm]. split; [reflexivity|]. split; [eauto|].
      intro Hr. apply index_dirs_spec in Hr. apply mem_key_In in Hr. rewrite Hr in Hm. discriminate.
    + intros (_ & (j & Hj & E) & Hr). split; [eauto|].
      destruct (mem_key k (index_dirs w links io)) eqn:Em; [|reflexivity].
      exfalso. apply Hr. apply index_dirs_spec. apply mem_key_In. exact Em.
  - simpl. split; [tauto | intros [H _]; discriminate].
Qed.

(* a job directory that an index entry leads to -- by its own name or through a link -- is kept *)
Corollary orphans_l_keeps_referenced : forall w links c io x k',
  In x (w_xps w) -> In k' (x_jobs x) -> ~ In (resolve links k') (orphans_clean_l w links c io).
Proof.
  intros w links c io x k' Hx Hk H. apply orphans_l_exact in H. destruct H as (_ & _ & Hr).
  apply Hr. exists x, k'. auto.
Qed.

Lemma resolve_nil : forall k, resolve [] k = k.
Proof. reflexivity. Qed.

(* without link entries this is the orphans_clean of the ordinary workspaces *)
Lemma orphans_l_nolinks : forall w c io, orphans_clean_l w [] c io = orphans_clean w c io.
Proof.
  intros w c io. unfold orphans_clean_l, orphans_clean. destruct c; [|reflexivity].
  apply filter_ext_in. intros k Hk. f_equal.
  apply in_map_iff in Hk. destruct Hk as (j & E & Hj).
  assert (Hs : stored w k = true) by (apply stored_spec; eauto).
  destruct (mem_key k (index_keys w io)) eqn:E1; destruct (mem_key k (index_dirs w [] io)) eqn:E2; try reflexivity.
  - apply mem_key_In in E1. apply index_keys_spec in E1; [|assumption]. destruct E1 as (x & Hx & H).
    assert (H0 : In k (index_dirs w [] io)) by (apply index_dirs_spec; exists x, k; auto).
    apply mem_key_In in H0. congruence.
  - apply mem_key_In in E2. apply index_dirs_spec in E2. destruct E2 as (x & k' & Hx & H & Er).
    rewrite resolve_nil in Er. subst k'.
    assert (H0 : In k (index_keys w io)) by (apply index_keys_spec; [assumption|exists x; auto]).
    apply mem_key_In in H0. congruence.
Qed.

(* the code before the repair: the directory behind a link is removed although the index of an
   experiment leads to it (state after `deprecated list --fix` and a new run of the experiment) *)
Definition k_old : key := ([111; 108; 100], [48; 49]).     (* old/01 *)
Definition k_new : key := ([110; 101; 119], [48; 50]).     (* new/02 *)
Definition ws_link : ws :=
  {| w_jobs := [ {| j_task := fst k_old; j_hash := snd k_old; j_done := true; j_failed := false;
                    j_pid := false; j_alive := false; j_tags := [] |} ];
     w_xps := [ {| x_name := [88]; x_jobs := [k_new]; x_bak := None |} ] |}.
Lemma orphans_through_link_refuted : exists w links k l,
  orphans_clean_l_prefix w links true false = Some l /\ In k l /\ referenced_l w links false k.
Proof.
  exists ws_link, [(k_new, k_old)], k_old, [k_old]. split; [vm_compute; reflexivity|]. split; [left; reflexivity|].
  exists {| x_name := [88]; x_jobs := [k_new]; x_bak := None |}, k_new.
  split; [left; reflexivity|]. split; [left; left; reflexivity|]. vm_compute. reflexivity.
Qed.
(* ... and an entry that is a link and is in no index makes the command fail *)
Lemma orphans_link_raises_prefix : exists w links, orphans_clean_l_prefix w links true false = None.
Proof.
  exists {| w_jobs := w_jobs ws_link; w_xps := [ {| x_name := [88]; x_jobs := [k_old]; x_bak := None |} ] |},
         [(k_new, k_old)]. vm_compute. reflexivity.
Qed.
Example orphans_l_ex :
  orphans_clean_l ws_link [(k_new, k_old)] true false = []
  /\ orphans_clean_l ws_link [] true false = [k_old].
Proof. split; vm_compute; reflexivity. Qed.
