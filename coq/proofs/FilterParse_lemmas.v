(* Proofs about model/FilterParse.v (C19): the character-level grammar of job filters. *)
From Coq Require Import NArith List Bool Lia.
From XV Require Import model.Filter model.FilterParse proofs.Filter_lemmas.
Import ListNotations.
Open Scope N_scope.

(* ---- the operator token of a parsed text is "and" or "or", nothing else ---- *)
Section Ops.
  Variable opm : str -> pst -> option pst.

  Lemma p_op_token : forall st op st', p_op opm st = Some (op, st') -> wf_op op.
  Proof.
    intros st op st' H. unfold p_op in H.
    destruct (opm s_and st); [inversion H; left; reflexivity|].
    destruct (opm s_or st); [inversion H; right; reflexivity|discriminate].
  Qed.

  Lemma more_atoms_ops : forall fuel st l st',
    more_atoms opm fuel st = (l, st') -> Forall (fun oa => wf_op (fst oa)) l.
  Proof.
    induction fuel as [|f IH]; intros st l st' H; cbn [more_atoms] in H.
    - inversion H. constructor.
    - destruct (p_op opm st) as [[op st1]|] eqn:Eo; [|inversion H; constructor].
      destruct (p_atom st1) as [[a st2]|]; [|inversion H; constructor].
      destruct (more_atoms opm f st2) as [l' st3] eqn:Em. inversion H; subst.
      constructor; [exact (p_op_token _ _ _ Eo)|exact (IH _ _ _ Em)].
  Qed.

  Lemma parse_with_ops : forall t r,
    parse_with opm t = Some r -> Forall (fun oa => wf_op (fst oa)) (r_rest r).
  Proof.
    intros t r H. unfold parse_with in H.
    destruct (p_atom (None, expandtabs t 0)) as [[a st1]|]; [|discriminate].
    destruct (more_atoms opm (length (snd st1)) st1) as [l st2] eqn:Em.
    destruct (snd (skipw st2)); [|discriminate]. inversion H; subst. cbn.
    exact (more_atoms_ops _ _ _ _ Em).
  Qed.
End Ops.

(* whatever its case, a text whose operator is not exactly "and" or "or" is not accepted *)
Theorem parse_ops : forall t r, parse_filter t = Some r -> Forall (fun oa => wf_op (fst oa)) (r_rest r).
Proof. intros t r. apply parse_with_ops. Qed.

(* ---- what is built evaluates as the expression it stands for ------------- *)
Section Eval.
  Variable dec : str -> option pattern.

  Lemma rget_var_of : forall v e, rget v e = get (var_of v) e.
  Proof.
    intros v e. unfold rget, var_of.
    destruct (str_eqb v s_state); [reflexivity|]. destruct (str_eqb v s_name); reflexivity.
  Qed.

  Lemma reval_atom_of : forall a a' e, atom_of dec a = Some a' -> reval_atom dec a e = Some (eval_atom a' e).
  Proof.
    intros a a' e H. destruct a as [v [w|s]|v src|v l|v l]; cbn in H |- *.
    - inversion H; subst. cbn. rewrite !rget_var_of. reflexivity.
    - inversion H; subst. cbn. rewrite !rget_var_of. reflexivity.
    - destruct (dec src); [|discriminate]. inversion H; subst. cbn. rewrite rget_var_of. reflexivity.
    - inversion H; subst. cbn. rewrite rget_var_of. reflexivity.
    - inversion H; subst. cbn. rewrite rget_var_of. reflexivity.
  Qed.

  Lemma reval_rest_of : forall l l' b e,
    rest_of dec l = Some l' -> reval_rest dec (Some b) l e = Some (fold_left (step_bool e) l' b).
  Proof.
    induction l as [|[op a] l IH]; intros l' b e H; cbn in H.
    - inversion H. reflexivity.
    - destruct (atom_of dec a) as [a'|] eqn:Ea; [|discriminate].
      destruct (rest_of dec l) as [r|] eqn:Er; [|discriminate]. inversion H; subst.
      cbn [reval_rest fold_left]. rewrite (reval_atom_of _ _ e Ea).
      rewrite (IH r _ e eq_refl). f_equal. f_equal. unfold step_bool, bop_of. cbn.
      destruct (str_eqb op s_and); [apply andb_comm|apply orb_comm].
  Qed.

  Theorem reval_expr_of : forall r x e, expr_of dec r = Some x -> reval dec r e = Some (eval x e).
  Proof.
    intros r x e H. unfold expr_of in H.
    destruct (atom_of dec (r_first r)) as [a|] eqn:Ea; [|discriminate].
    destruct (rest_of dec (r_rest r)) as [l|] eqn:El; [|discriminate]. inversion H; subst.
    unfold reval. rewrite (reval_atom_of _ _ e Ea). rewrite (reval_rest_of _ _ _ e El).
    rewrite eval_fold_left. reflexivity.
  Qed.

  (* when every regular expression source is understood, what is built always stands for an expression *)
  Lemma atom_of_total : (forall s, dec s <> None) -> forall a, exists a', atom_of dec a = Some a'.
  Proof.
    intros Hd a. destruct a as [v [w|s]|v src|v l|v l]; cbn; eauto.
    destruct (dec src) eqn:E; [eauto|]. exfalso. exact (Hd _ E).
  Qed.
  Lemma rest_of_total : (forall s, dec s <> None) -> forall l, exists l', rest_of dec l = Some l'.
  Proof.
    intros Hd. induction l as [|[op a] l [l' IH]]; cbn; [eauto|].
    destruct (atom_of_total Hd a) as [a' Ea]. rewrite Ea, IH. eauto.
  Qed.
  Theorem expr_of_total : (forall s, dec s <> None) -> forall r, exists x, expr_of dec r = Some x.
  Proof.
    intros Hd r. unfold expr_of. destruct (atom_of_total Hd (r_first r)) as [a Ea].
    destruct (rest_of_total Hd (r_rest r)) as [l El]. rewrite Ea, El. eauto.
  Qed.

  (* an accepted text answers True exactly when the documented meaning of the expression it stands for holds;
     the connective is a disjunction only where the text says "or" *)
  Theorem parse_meaning : forall t r x e,
    parse_filter t = Some r -> expr_of dec r = Some x ->
    (reval dec r e = Some true <-> meaning x e)
    /\ Forall2 (fun (oa : str * ratom) (ob : bop * atom) =>
                  (fst oa = s_and /\ fst ob = BAnd) \/ (fst oa = s_or /\ fst ob = BOr)) (r_rest r) (x_rest x).
  Proof.
    intros t r x e Hp Hx. split.
    - rewrite (reval_expr_of _ _ e Hx). rewrite <- eval_meaning. split; [intro H; inversion H; reflexivity|intro H; rewrite H; reflexivity].
    - apply parse_ops in Hp. unfold expr_of in Hx.
      destruct (atom_of dec (r_first r)) as [a0|]; [|discriminate].
      destruct (rest_of dec (r_rest r)) as [l|] eqn:El; [|discriminate]. inversion Hx; subst. cbn.
      clear Hx. revert l El. induction Hp as [|[op ra] rest Hop Hrest IH]; intros l El; cbn in El.
      + inversion El. constructor.
      + destruct (atom_of dec ra); [|discriminate]. destruct (rest_of dec rest) as [l'|]; [|discriminate].
        inversion El; subst. constructor; [|apply IH; reflexivity].
        cbn in Hop |- *. destruct Hop as [-> | ->]; [left|right]; split; reflexivity.
  Qed.
End Eval.

(* ---- the grammar before fixes/C19-5 took and/or out of longer words ------ *)
(* x = "a" order = "b"   is read   x = "a" or der = "b" *)
Definition glued_text : str := [120;32;61;32;34;97;34;32;111;114;100;101;114;32;61;32;34;98;34].
Lemma literal_ops_refuted : exists t r,
  parse_filter_literal t = Some r /\ parse_filter t = None /\
  r_rest r = [(s_or, RAEq [100; 101; 114] (ROConst [98]))].
Proof. exists glued_text. eexists. split; [vm_compute; reflexivity|]. split; vm_compute; reflexivity. Qed.
