(* Proofs about model/FilterParse.v (C19): the character-level grammar of job filters. *)
From Coq Require Import NArith List Bool Lia.
From XV Require Import model.Filter model.FilterParse proofs.Filter_lemmas.
Import ListNotations.
Open Scope N_scope.

(* ---- the operator token of a parsed text is "and" or "or", nothing else ---- *)
Section Ops.
  Variable opm : str -> pst -> option pst.

  Lemma p_op_token : forall st op st', p_op opm st = Some (op, st') -> wf_op op.
  Proof.
    intros st op st' H. unfold p_op in H.
    destruct (opm s_and st); [inversion H; left; reflexivity|].
    destruct (opm s_or st); [inversion H; right; reflexivity|discriminate].
  Qed.

  Lemma more_atoms_ops : forall fuel st l st',
    more_atoms opm fuel st = (l, st') -> Forall (fun oa => wf_op (fst oa)) l.
  Proof.
    induction fuel as [|f IH]; intros st l st' H; cbn [more_atoms] in H.
    - inversion H. constructor.
    - destruct (p_op opm st) as [[op st1]|] eqn:Eo; [|inversion H; constructor].
      destruct (p_atom st1) as [[a st2]|]; [|inversion H; constructor].
      destruct (more_atoms opm f st2) as [l' st3] eqn:Em. inversion H; subst.
      constructor; [exact (p_op_token _ _ _ Eo)|exact (IH _ _ _ Em)].
  Qed.

  Lemma parse_with_ops : forall t r,
    parse_with opm t = Some r -> Forall (fun oa => wf_op (fst oa)) (r_rest r).
  Proof.
    intros t r H. unfold parse_with in H.
    destruct (p_atom (None, expandtabs t 0)) as [[a st1]|]; [|discriminate].
    destruct (more_atoms opm (length (snd st1)) st1) as [l st2] eqn:Em.
    destruct (snd (skipw st2)); [|discriminate]. inversion H; subst. cbn.
    exact (more_atoms_ops _ _ _ _ Em).
  Qed.
End Ops.

(* whatever its case, a text whose operator is not exactly "and" or "or" is not accepted *)
Theorem parse_ops : forall t r, parse_filter t = Some r -> Forall (fun oa => wf_op (fst oa)) (r_rest r).
Proof. intros t r. apply parse_with_ops. Qed.

(* ---- what is built evaluates as the expression it stands for ------------- *)
Section Eval.
  Variable dec : str -> option pattern.

  Lemma rget_var_of : forall v e, rget v e = get (var_of v) e.
  Proof.
    intros v e. unfold rget, var_of.
    destruct (str_eqb v s_state); [reflexivity|]. destruct (str_eqb v s_name); reflexivity.
  Qed.

  Lemma reval_atom_of : forall a a' e, atom_of dec a = Some a' -> reval_atom dec a e = Some (eval_atom a' e).
  Proof.
    intros a a' e H. destruct a as [v [w|s]|v src|v l|v l]; cbn in H |- *.
    - inversion H; subst. cbn. rewrite !rget_var_of. reflexivity.
    - inversion H; subst. cbn. rewrite !rget_var_of. reflexivity.
    - destruct (dec src); [|discriminate]. inversion H; subst. cbn. rewrite rget_var_of. reflexivity.
    - inversion H; subst. cbn. rewrite rget_var_of. reflexivity.
    - inversion H; subst. cbn. rewrite rget_var_of. reflexivity.
  Qed.

  Lemma reval_rest_of : forall l l' b e,
    rest_of dec l = Some l' -> reval_rest dec (Some b) l e = Some (fold_left (step_bool e) l' b).
  Proof.
    induction l as [|[op a] l IH]; intros l' b e H; cbn in H.
    - inversion H. reflexivity.
    - destruct (atom_of dec a) as [a'|] eqn:Ea; [|discriminate].
      destruct (rest_of dec l) as [r|] eqn:Er; [|discriminate]. inversion H; subst.
      cbn [reval_rest fold_left]. rewrite (reval_atom_of _ _ e Ea).
      rewrite (IH r _ e eq_refl). f_equal. f_equal. unfold step_bool, bop_of. cbn.
      destruct (str_eqb op s_and); [apply andb_comm|apply orb_comm].
  Qed.

  Theorem reval_expr_of : forall r x e, expr_of dec r = Some x -> reval dec r e = Some (eval x e).
  Proof.
    intros r x e H. unfold expr_of in H.
    destruct (atom_of dec (r_first r)) as [a|] eqn:Ea; [|discriminate].
    destruct (rest_of dec (r_rest r)) as [l|] eqn:El; [|discriminate]. inversion H; subst.
    unfold reval. rewrite (reval_atom_of _ _ e Ea). rewrite (reval_rest_of _ _ _ e El).
    rewrite eval_fold_left. reflexivity.
  Qed.

  (* when every regular expression source is understood, what is built always stands for an expression *)
  Lemma atom_of_total : (forall s, dec s <> None) -> forall a, exists a', atom_of dec a = Some a'.
  Proof.
    intros Hd a. destruct a as [v [w|s]|v src|v l|v l]; cbn; eauto.
    destruct (dec src) eqn:E; [eauto|]. exfalso. exact (Hd _ E).
  Qed.
  Lemma rest_of_total : (forall s, dec s <> None) -> forall l, exists l', rest_of dec l = Some l'.
  Proof.
    intros Hd. induction l as [|[op a] l [l' IH]]; cbn; [eauto|].
    destruct (atom_of_total Hd a) as [a' Ea]. rewrite Ea, IH. eauto.
  Qed.
  Theorem expr_of_total : (forall s, dec s <> None) -> forall r, exists x, expr_of dec r = Some x.
  Proof.
    intros Hd r. unfold expr_of. destruct (atom_of_total Hd (r_first r)) as [a Ea].
    destruct (rest_of_total Hd (r_rest r)) as [l El]. rewrite Ea, El. eauto.
  Qed.

  (* an accepted text answers True exactly when the documented meaning of the expression it stands for holds;
     the connective is a disjunction only where the text says "or" *)
  Theorem parse_meaning : forall t r x e,
    parse_filter t = Some r -> expr_of dec r = Some x ->
    (reval dec r e = Some true <-> meaning x e)
    /\ Forall2 (fun (oa : str * ratom) (ob : bop * atom) =>
                  (fst oa = s_and /\ fst ob = BAnd) \/ (fst oa = s_or /\ fst ob = BOr)) (r_rest r) (x_rest x).
  Proof.
    intros t r x e Hp Hx. split.
    - rewrite (reval_expr_of _ _ e Hx). rewrite <- eval_meaning. split; [intro H; inversion H; reflexivity|intro H; rewrite H; reflexivity].
    - apply parse_ops in Hp. unfold expr_of in Hx.
      destruct (atom_of dec (r_first r)) as [a0|]; [|discriminate].
      destruct (rest_of dec (r_rest r)) as [l|] eqn:El; [|discriminate]. inversion Hx; subst. cbn.
      clear Hx. revert l El. induction Hp as [|[op ra] rest Hop Hrest IH]; intros l El; cbn in El.
      + inversion El. constructor.
      + destruct (atom_of dec ra); [|discriminate]. destruct (rest_of dec rest) as [l'|]; [|discriminate].
        inversion El; subst. constructor; [|apply IH; reflexivity].
        cbn in Hop |- *. destruct Hop as [-> | ->]; [left|right]; split; reflexivity.
  Qed.
End Eval.

(* ---- the grammar before fixes/C19-5 took and/or out of longer words ------ *)
(* x = "a" order = "b"   is read   x = "a" or der = "b" *)
Definition glued_text : str := [120;32;61;32;34;97;34;32;111;114;100;101;114;32;61;32;34;98;34].
Lemma literal_ops_refuted : exists t r,
  parse_filter_literal t = Some r /\ parse_filter t = None /\
  r_rest r = [(s_or, RAEq [100; 101; 114] (ROConst [98]))].
Proof. exists glued_text. eexists. split; [vm_compute; reflexivity|]. split; vm_compute; reflexivity. Qed.

(* ---- print then parse ------------------------------------------------------ *)
Lemma alpha_facts : forall c, is_alpha c = true ->
  is_ws c = false /\ (64 =? c) = false /\ (c =? 34) = false /\ (c =? 39) = false /\ (c =? 9) = false.
Proof.
  intros c H. unfold is_alpha in H. unfold is_ws.
  apply orb_true_iff in H. destruct H as [H|H]; apply andb_true_iff in H; destruct H as [H1 H2];
    apply N.leb_le in H1; apply N.leb_le in H2;
    repeat split; repeat (rewrite (proj2 (N.eqb_neq _ _)) by lia); reflexivity.
Qed.

Lemma skip_go_nonws : forall p c s, is_ws c = false -> skip_go p (c :: s) = (p, c :: s).
Proof. intros p c s H. cbn. rewrite H. reflexivity. Qed.

Lemma strip_prefix_app : forall w r, strip_prefix w (w ++ r) = Some r.
Proof. induction w as [|a w IH]; intros r; cbn; [reflexivity|]. rewrite N.eqb_refl. apply IH. Qed.

Lemma tagchar_facts : forall c, is_tagchar c = true -> (c =? 9) = false /\ (c =? 32) = false.
Proof.
  intros c H. unfold is_tagchar, is_alpha, is_digit in H.
  repeat (apply orb_true_iff in H; destruct H as [H|H]);
    try (apply andb_true_iff in H; destruct H as [H1 H2]; apply N.leb_le in H1; apply N.leb_le in H2);
    try (apply N.eqb_eq in H);
    split; apply N.eqb_neq; lia.
Qed.

Lemma take_tagchars_app : forall v r, forallb is_tagchar v = true ->
  (r = [] \/ exists c r', r = c :: r' /\ is_tagchar c = false) -> take_tagchars (v ++ r) = (v, r).
Proof.
  induction v as [|c v IH]; intros r Hv Hr; cbn.
  - destruct Hr as [->|(c & r' & -> & Hc)]; cbn; [reflexivity|]. rewrite Hc. reflexivity.
  - cbn in Hv. apply andb_true_iff in Hv. destruct Hv as [Hc Hv]. rewrite Hc. rewrite (IH r Hv Hr). reflexivity.
Qed.

(* a leading blank changes nothing but the previous character *)
Lemma lit_space : forall w p s, lit w (p, 32 :: s) = lit w (Some 32, s).
Proof. intros. unfold lit, skipw. cbn. reflexivity. Qed.
Lemma word_space : forall p s, word (p, 32 :: s) = word (Some 32, s).
Proof. intros. unfold word, skipw. cbn. reflexivity. Qed.
Lemma quoted1_space : forall q p s, quoted1 q (p, 32 :: s) = quoted1 q (Some 32, s).
Proof. intros. unfold quoted1, skipw. cbn. reflexivity. Qed.
Lemma p_var_space : forall p s, p_var (p, 32 :: s) = p_var (Some 32, s).
Proof. intros. unfold p_var. rewrite !lit_space, word_space. reflexivity. Qed.
Lemma p_quoted_space : forall p s, p_quoted (p, 32 :: s) = p_quoted (Some 32, s).
Proof. intros. unfold p_quoted. rewrite !quoted1_space. reflexivity. Qed.

Definition stops (r : str) : Prop := r = [] \/ exists r', r = 32 :: r'.
Lemma stops_alpha : forall r, stops r -> r = [] \/ exists c r', r = c :: r' /\ is_tagchar c = false.
Proof. intros r [->|(r' & ->)]; [left; reflexivity|right; exists 32, r'; split; reflexivity]. Qed.

Lemma p_var_print : forall v r p, wf_var v -> stops r -> exists p', p_var (p, v ++ r) = Some (v, (p', r)).
Proof.
  intros v r p [->|[->|Hne]] Hr.
  - eexists. unfold p_var, lit. cbn. reflexivity.
  - eexists. unfold p_var, lit. cbn. reflexivity.
  - destruct Hne as (c & w & -> & Hc & Hv).
    destruct (alpha_facts c Hc) as (Hws & H64 & _).
    eexists. unfold p_var, lit, word, skipw. cbn [fst snd app].
    rewrite (skip_go_nonws _ _ _ Hws). cbn [strip_prefix s_state s_name]. rewrite H64. rewrite Hc.
    rewrite (take_tagchars_app w r Hv (stops_alpha r Hr)). reflexivity.
Qed.

Lemma take_body_print : forall s r, wf_str s -> take_body 34 (s ++ 34 :: r) = Some (s, r).
Proof.
  induction s as [|c s IH]; intros r H; cbn.
  - reflexivity.
  - unfold wf_str in H. cbn in H. apply andb_true_iff in H. destruct H as [Hc Hs].
    unfold plain_char in Hc. apply negb_true_iff in Hc. apply orb_false_iff in Hc. destruct Hc as [Hc H9].
    apply orb_false_iff in Hc. destruct Hc as [Hc H13]. apply orb_false_iff in Hc. destruct Hc as [H34 H10].
    rewrite H34, H10, H13. cbn. rewrite (IH r Hs). reflexivity.
Qed.

Lemma p_quoted_print : forall s r p, wf_str s -> p_quoted (p, pr_quoted s ++ r) = Some (s, (Some 34, r)).
Proof.
  intros s r p H. unfold p_quoted, quoted1, skipw, pr_quoted. cbn.
  rewrite <- app_assoc. cbn. rewrite (take_body_print s r H). reflexivity.
Qed.

Arguments pr_quoted : simpl never.

Lemma pr_more_length : forall l, (length l <= length (pr_more l))%nat.
Proof.
  induction l as [|s l IH]; cbn; [lia|]. rewrite !app_length. lia.
Qed.

Lemma more_strings_print : forall l fuel r, Forall wf_str l -> (length l <= fuel)%nat ->
  more_strings fuel (Some 34, pr_more l ++ 93 :: r) = (l, (Some 34, 93 :: r)).
Proof.
  induction l as [|s l IH]; intros fuel r Hl Hf.
  - destruct fuel; cbn; reflexivity.
  - destruct fuel as [|f]; [cbn in Hf; lia|]. inversion Hl; subst.
    cbn [more_strings pr_more]. unfold lit at 1, skipw. cbn [fst snd app skip_go is_ws].
    cbn [N.eqb orb strip_prefix last_of fold_left].
    replace (44 :: 32 :: pr_quoted s ++ pr_more l) with ([44; 32] ++ pr_quoted s ++ pr_more l) by reflexivity.
    cbn. rewrite p_quoted_space. rewrite <- app_assoc.
    rewrite (p_quoted_print s (pr_more l ++ 93 :: r) (Some 32) H1).
    rewrite (IH f r H2); [reflexivity|cbn in Hf; lia].
Qed.

Arguments p_var : simpl never.
Arguments p_quoted : simpl never.
Arguments p_strlist : simpl never.
Arguments lit : simpl never.
Arguments keyword : simpl never.

Lemma lit_here : forall c w p r, is_ws c = false ->
  lit (c :: w) (p, (c :: w) ++ r) = Some (last_of (c :: w) p, r).
Proof.
  intros c w p r H. unfold lit, skipw. cbn [fst snd app]. rewrite (skip_go_nonws _ _ _ H).
  change (c :: w ++ r) with ((c :: w) ++ r). rewrite strip_prefix_app. reflexivity.
Qed.
Lemma lit_sp : forall c w p r, is_ws c = false ->
  lit (c :: w) (p, 32 :: (c :: w) ++ r) = Some (last_of (c :: w) (Some 32), r).
Proof. intros. rewrite lit_space. apply lit_here. assumption. Qed.
Lemma lit_fail : forall c w p d r, is_ws d = false -> (c =? d) = false -> lit (c :: w) (p, d :: r) = None.
Proof.
  intros c w p d r H Hcd. unfold lit, skipw. cbn [fst snd]. rewrite (skip_go_nonws _ _ _ H).
  cbn. rewrite Hcd. reflexivity.
Qed.
Lemma lit_fail_sp : forall c w p d r, is_ws d = false -> (c =? d) = false -> lit (c :: w) (p, 32 :: d :: r) = None.
Proof. intros. rewrite lit_space. apply lit_fail; assumption. Qed.

Lemma p_strlist_print : forall s l r p, wf_str s -> Forall wf_str l ->
  p_strlist (p, pr_quoted s ++ pr_more l ++ 93 :: r) = Some (s :: l, (Some 34, 93 :: r)).
Proof.
  intros s l r p Hs Hl. unfold p_strlist. rewrite (p_quoted_print s _ p Hs). cbn [snd].
  rewrite more_strings_print; [reflexivity|assumption|].
  rewrite app_length. pose proof (pr_more_length l). lia.
Qed.

Lemma p_var_quote_none : forall p s r, p_var (p, 32 :: pr_quoted s ++ r) = None.
Proof. intros. unfold p_var, lit, word, skipw, pr_quoted. cbn. reflexivity. Qed.

Lemma stops_cons32 : forall r, stops (32 :: r).
Proof. intros. right. eexists. reflexivity. Qed.

Lemma pr_list_cons : forall s l, pr_list (s :: l) = 91 :: pr_quoted s ++ pr_more l ++ [93].
Proof. reflexivity. Qed.

Lemma p_member_print : forall kw mk v s l r p, wf_var v -> wf_str s -> Forall wf_str l ->
  (exists c w, kw = c :: w /\ is_ws c = false) ->
  exists p', p_member kw mk (p, v ++ 32 :: kw ++ 32 :: pr_list (s :: l) ++ r) = Some (mk v (s :: l), (p', r)).
Proof.
  intros kw mk v s l r p Hv Hs Hl (c & w & -> & Hc).
  destruct (p_var_print v (32 :: (c :: w) ++ 32 :: pr_list (s :: l) ++ r) p Hv (stops_cons32 _)) as [p1 E1].
  eexists. unfold p_member. rewrite E1.
  rewrite (lit_sp c w p1 _ Hc). rewrite pr_list_cons.
  replace (32 :: (91 :: pr_quoted s ++ pr_more l ++ [93]) ++ r)
    with (32 :: [91] ++ (pr_quoted s ++ pr_more l ++ 93 :: r)).
  2:{ cbn. rewrite <- !app_assoc. reflexivity. }
  rewrite (lit_sp 91 [] _ _ eq_refl).
  rewrite (p_strlist_print s l r _ Hs Hl).
  change (93 :: r) with ([93] ++ r). rewrite (lit_here 93 [] _ r eq_refl). reflexivity.
Qed.

Lemma p_atom_print : forall a r p, wf_atom a -> stops r ->
  exists p', p_atom (p, pr_atom a ++ r) = Some (a, (p', r)).
Proof.
  intros a r p Ha Hr. destruct a as [v [w|s]|v src|v l|v l]; cbn [wf_atom] in Ha.
  - (* v = w *)
    destruct Ha as [Hv Hw]. unfold pr_atom. rewrite <- !app_assoc. cbn [app].
    destruct (p_var_print v (32 :: 61 :: 32 :: w ++ r) p Hv (stops_cons32 _)) as [p1 E1].
    destruct (p_var_print w r (Some 32) Hw Hr) as [p2 E2].
    exists p2. unfold p_atom, p_eq. rewrite E1.
    change (32 :: 61 :: 32 :: w ++ r) with (32 :: [61] ++ (32 :: w ++ r)).
    rewrite (lit_sp 61 [] p1 _ eq_refl). rewrite p_var_space, E2. reflexivity.
  - (* v = "s" *)
    destruct Ha as [Hv Hs]. unfold pr_atom. rewrite <- !app_assoc. cbn [app].
    destruct (p_var_print v (32 :: 61 :: 32 :: pr_quoted s ++ r) p Hv (stops_cons32 _)) as [p1 E1].
    eexists. unfold p_atom, p_eq. rewrite E1.
    change (32 :: 61 :: 32 :: pr_quoted s ++ r) with (32 :: [61] ++ (32 :: pr_quoted s ++ r)).
    rewrite (lit_sp 61 [] p1 _ eq_refl). rewrite p_var_quote_none, p_quoted_space.
    rewrite (p_quoted_print s r _ Hs). reflexivity.
  - (* v ~ "src" *)
    destruct Ha as [Hv Hs]. unfold pr_atom. rewrite <- !app_assoc. cbn [app].
    destruct (p_var_print v (32 :: 126 :: 32 :: pr_quoted src ++ r) p Hv (stops_cons32 _)) as [p1 E1].
    eexists. unfold p_atom, p_eq, p_regex. rewrite E1.
    rewrite (lit_fail_sp 61 [] p1 126 _ eq_refl eq_refl).
    change (32 :: 126 :: 32 :: pr_quoted src ++ r) with (32 :: [126] ++ (32 :: pr_quoted src ++ r)).
    rewrite (lit_sp 126 [] p1 _ eq_refl). rewrite p_quoted_space.
    rewrite (p_quoted_print src r _ Hs). reflexivity.
  - (* v in [...] *)
    destruct Ha as (Hv & Hne & Hl). destruct l as [|s l]; [congruence|]. inversion Hl; subst.
    assert (E : pr_atom (RAIn v (s :: l)) ++ r = v ++ 32 :: s_in ++ 32 :: pr_list (s :: l) ++ r).
    { unfold pr_atom. rewrite <- !app_assoc. cbn [app]. rewrite <- !app_assoc. reflexivity. }
    rewrite E.
    destruct (p_var_print v (32 :: s_in ++ 32 :: pr_list (s :: l) ++ r) p Hv (stops_cons32 _)) as [p1 E1].
    destruct (p_member_print s_in RAIn v s l r p Hv H1 H2) as [p' E2].
    { exists 105, [110]. split; reflexivity. }
    exists p'. unfold p_atom, p_eq, p_regex. rewrite E1.
    match goal with |- context [lit [61] ?st] =>
      assert (F1 : lit [61] st = None) by (apply (lit_fail_sp 61 [] p1 105); reflexivity) end.
    match goal with |- context [lit [126] ?st] =>
      assert (F2 : lit [126] st = None) by (apply (lit_fail_sp 126 [] p1 105); reflexivity) end.
    rewrite F1, F2, E2. reflexivity.
  - (* v not in [...] *)
    destruct Ha as (Hv & Hne & Hl). destruct l as [|s l]; [congruence|]. inversion Hl; subst.
    assert (E : pr_atom (RANotIn v (s :: l)) ++ r = v ++ 32 :: s_notin ++ 32 :: pr_list (s :: l) ++ r).
    { unfold pr_atom. rewrite <- !app_assoc. cbn [app]. rewrite <- !app_assoc. reflexivity. }
    rewrite E.
    destruct (p_var_print v (32 :: s_notin ++ 32 :: pr_list (s :: l) ++ r) p Hv (stops_cons32 _)) as [p1 E1].
    destruct (p_member_print s_notin RANotIn v s l r p Hv H1 H2) as [p' E2].
    { exists 110, [111; 116; 32; 105; 110]. split; reflexivity. }
    exists p'. unfold p_atom, p_eq, p_regex. rewrite E1.
    match goal with |- context [lit [61] ?st] =>
      assert (F1 : lit [61] st = None) by (apply (lit_fail_sp 61 [] p1 110); reflexivity) end.
    match goal with |- context [lit [126] ?st] =>
      assert (F2 : lit [126] st = None) by (apply (lit_fail_sp 126 [] p1 110); reflexivity) end.
    rewrite F1, F2. unfold p_member at 1. rewrite E1.
    match goal with |- context [lit s_in ?st] =>
      assert (F3 : lit s_in st = None) by (apply (lit_fail_sp 105 [110] p1 110); reflexivity) end.
    rewrite F3, E2. reflexivity.
Qed.

Lemma p_atom_space : forall p s, p_atom (p, 32 :: s) = p_atom (Some 32, s).
Proof. intros. unfold p_atom, p_eq, p_regex, p_member. rewrite !p_var_space. reflexivity. Qed.

Lemma keyword_sp : forall w p r, wf_op w ->
  exists p', keyword w (p, 32 :: w ++ 32 :: r) = Some (p', 32 :: r).
Proof. intros w p r [->| ->]; eexists; unfold keyword, skipw; cbn; reflexivity. Qed.
Lemma keyword_and_on_or : forall p r, keyword s_and (p, 32 :: s_or ++ r) = None.
Proof. intros. unfold keyword, skipw. cbn. reflexivity. Qed.
Lemma p_op_end : forall p, p_op keyword (p, []) = None.
Proof. intros. unfold p_op, keyword, skipw. cbn. reflexivity. Qed.

Lemma pr_rest_stops : forall l, stops (pr_rest l).
Proof. intros [|[op a] l]; [left; reflexivity|right; eexists; reflexivity]. Qed.
Lemma pr_rest_length : forall l, (length l <= length (pr_rest l))%nat.
Proof.
  induction l as [|[op a] l IH]; cbn; [lia|]. rewrite app_length. cbn. rewrite !app_length. lia.
Qed.

Definition wf_step (oa : str * ratom) : Prop := wf_op (fst oa) /\ wf_atom (snd oa).

Lemma more_atoms_print : forall l fuel p, Forall wf_step l -> (length l <= fuel)%nat ->
  exists p', more_atoms keyword fuel (p, pr_rest l) = (l, (p', [])).
Proof.
  induction l as [|[op a] l IH]; intros fuel p Hl Hf.
  - exists p. destruct fuel; cbn [more_atoms pr_rest]; [reflexivity|]. rewrite p_op_end. reflexivity.
  - destruct fuel as [|f]; [cbn in Hf; lia|]. inversion Hl as [|x y [Hop Ha] Hl']; subst. cbn [fst snd] in Hop, Ha.
    cbn [pr_rest more_atoms].
    destruct (keyword_sp op p (pr_atom a ++ pr_rest l) Hop) as [p1 Ek].
    destruct (p_atom_print a (pr_rest l) (Some 32) Ha (pr_rest_stops l)) as [p2 Ea].
    destruct (IH f p2 Hl') as [p3 Em]; [cbn in Hf; lia|].
    exists p3.
    pose proof (keyword_and_on_or p (32 :: pr_atom a ++ pr_rest l)) as Eno.
    pose proof (p_atom_space p1 (pr_atom a ++ pr_rest l)) as Esp.
    unfold p_op. unfold str, pst in *.
    destruct Hop as [-> | ->].
    + rewrite Ek, Esp, Ea, Em. reflexivity.
    + rewrite Eno, Ek, Esp, Ea, Em. reflexivity.
Qed.

(* no tab in what is printed, so expandtabs leaves it alone *)
Definition notab (s : str) : Prop := forallb (fun c => negb (c =? 9)) s = true.
Lemma notab_app : forall a b, notab a -> notab b -> notab (a ++ b).
Proof. intros a b Ha Hb. unfold notab in *. rewrite forallb_app, Ha, Hb. reflexivity. Qed.
Lemma notab_cons : forall c s, (c =? 9) = false -> notab s -> notab (c :: s).
Proof. intros c s Hc Hs. unfold notab in *. cbn. rewrite Hc, Hs. reflexivity. Qed.
Lemma notab_nil : notab [].
Proof. reflexivity. Qed.
Lemma notab_var : forall v, wf_var v -> notab v.
Proof.
  intros v [->|[->|(c & w & -> & Hc & Hw)]]; [reflexivity|reflexivity|].
  apply notab_cons; [apply (alpha_facts c Hc)|].
  induction w as [|d w IH]; [reflexivity|]. cbn in Hw. apply andb_true_iff in Hw. destruct Hw as [Hd Hw].
  apply notab_cons; [apply (tagchar_facts d Hd)|apply IH; exact Hw].
Qed.
Lemma notab_str : forall s, wf_str s -> notab s.
Proof.
  induction s as [|c s IH]; intros H; [reflexivity|]. unfold wf_str in H. cbn in H.
  apply andb_true_iff in H. destruct H as [Hc Hs]. apply notab_cons; [|apply IH; exact Hs].
  unfold plain_char in Hc. apply negb_true_iff in Hc. apply orb_false_iff in Hc. tauto.
Qed.
Lemma notab_quoted : forall s, wf_str s -> notab (pr_quoted s).
Proof.
  intros s H. unfold pr_quoted. apply notab_cons; [reflexivity|].
  apply notab_app; [apply notab_str; exact H|reflexivity].
Qed.
Lemma notab_more : forall l, Forall wf_str l -> notab (pr_more l).
Proof.
  induction l as [|s l IH]; intros H; [reflexivity|]. inversion H; subst. cbn [pr_more].
  apply notab_cons; [reflexivity|]. apply notab_cons; [reflexivity|].
  apply notab_app; [apply notab_quoted; assumption|apply IH; assumption].
Qed.
Lemma notab_list : forall l, Forall wf_str l -> notab (pr_list l).
Proof.
  intros [|s l] H; [reflexivity|]. inversion H; subst. cbn [pr_list].
  apply notab_cons; [reflexivity|]. apply notab_app; [apply notab_quoted; assumption|].
  apply notab_app; [apply notab_more; assumption|reflexivity].
Qed.
Lemma notab_atom : forall a, wf_atom a -> notab (pr_atom a).
Proof.
  intros a Ha. destruct a as [v [w|s]|v src|v l|v l]; cbn [wf_atom pr_atom] in *.
  - destruct Ha. apply notab_app; [apply notab_var; assumption|].
    apply notab_app; [reflexivity|apply notab_var; assumption].
  - destruct Ha. apply notab_app; [apply notab_var; assumption|].
    apply notab_app; [reflexivity|apply notab_quoted; assumption].
  - destruct Ha. apply notab_app; [apply notab_var; assumption|].
    apply notab_app; [reflexivity|apply notab_quoted; assumption].
  - destruct Ha as (Hv & _ & Hl). apply notab_app; [apply notab_var; assumption|].
    apply notab_cons; [reflexivity|]. apply notab_app; [reflexivity|].
    apply notab_cons; [reflexivity|]. apply notab_list; assumption.
  - destruct Ha as (Hv & _ & Hl). apply notab_app; [apply notab_var; assumption|].
    apply notab_cons; [reflexivity|]. apply notab_app; [reflexivity|].
    apply notab_cons; [reflexivity|]. apply notab_list; assumption.
Qed.
Lemma notab_rest : forall l, Forall wf_step l -> notab (pr_rest l).
Proof.
  induction l as [|[op a] l IH]; intros H; [reflexivity|]. inversion H as [|x y [Hop Ha] Hl']; subst.
  cbn [fst snd] in Hop, Ha. cbn [pr_rest]. apply notab_cons; [reflexivity|].
  apply notab_app; [destruct Hop as [-> | ->]; reflexivity|].
  apply notab_cons; [reflexivity|]. apply notab_app; [apply notab_atom; assumption|apply IH; assumption].
Qed.
Lemma expandtabs_notab : forall s col, notab s -> expandtabs s col = s.
Proof.
  induction s as [|c s IH]; intros col H; [reflexivity|]. unfold notab in H. cbn in H.
  apply andb_true_iff in H. destruct H as [Hc Hs]. apply negb_true_iff in Hc.
  cbn [expandtabs]. rewrite Hc. destruct ((c =? 10) || (c =? 13)); rewrite (IH _ Hs); reflexivity.
Qed.

(* every well-formed expression has a text that createFilter reads back as that expression *)
Theorem print_parse : forall r, wf_expr r -> parse_filter (pr_expr r) = Some r.
Proof.
  intros [a l] [Ha Hl]. cbn [r_first r_rest] in Ha, Hl.
  assert (Hl' : Forall wf_step l) by exact Hl.
  unfold parse_filter, parse_with, pr_expr. cbn [r_first r_rest].
  rewrite expandtabs_notab by (apply notab_app; [apply notab_atom; assumption|apply notab_rest; assumption]).
  destruct (p_atom_print a (pr_rest l) None Ha (pr_rest_stops l)) as [p1 Ea].
  destruct (more_atoms_print l (length (pr_rest l)) p1 Hl' (pr_rest_length l)) as [p2 Em].
  unfold str, pst in *. rewrite Ea. cbn [snd]. rewrite Em. reflexivity.
Qed.

(* the hypotheses of print_parse are satisfiable by an expression with every kind of test *)
Example print_parse_ex :
  let r := {| r_first := RAEq [120] (ROConst [97; 32; 98]);
              r_rest := [(s_and, RAIn s_state [[68; 79; 78; 69]; [69]]);
                         (s_or, RANotIn [109] [[97]]);
                         (s_and, RARegex s_name [94; 97; 46; 42; 36]);
                         (s_or, RAEq [97; 110; 100] (ROVar [111; 114]))] |} in
  wf_expr r /\ parse_filter (pr_expr r) = Some r.
Proof.
  cbv zeta. split; [|vm_compute; reflexivity].
  assert (W : forall v, v <> [] -> forallb is_alpha v = true -> wf_var v).
  { intros [|c w] Hne Ha; [congruence|]. cbn in Ha. apply andb_true_iff in Ha. destruct Ha as [Hc Hw].
    right; right. exists c, w. split; [reflexivity|]. split; [exact Hc|].
    rewrite forallb_forall in *. intros x Hx. unfold is_tagchar. rewrite (Hw x Hx). reflexivity. }
  split; cbn [r_first r_rest].
  - split; [apply W; [discriminate|reflexivity]|reflexivity].
  - repeat apply Forall_cons; try apply Forall_nil; split; cbn [fst snd wf_atom].
    + left; reflexivity.
    + split; [left; reflexivity|]. split; [discriminate|]. repeat constructor.
    + right; reflexivity.
    + split; [apply W; [discriminate|reflexivity]|]. split; [discriminate|]. repeat constructor.
    + left; reflexivity.
    + split; [right; left; reflexivity|reflexivity].
    + right; reflexivity.
    + split; apply W; try discriminate; reflexivity.
Qed.

(* tag names are letters, digits, underscores (starting with a letter), as the help of `jobs` says: alphanumeric *)
Definition tagname_text : str := [109;111;100;101;108;95;50;32;61;32;34;97;34].      (* model_2 = "a" *)
Lemma tag_names_alphanumeric :
  parse_filter tagname_text = Some {| r_first := RAEq [109;111;100;101;108;95;50] (ROConst [97]); r_rest := [] |}.
Proof. vm_compute. reflexivity. Qed.
