(* Proofs for C17 (model/GenPath.v). *)
From Coq Require Import List NArith ZArith Bool Arith Lia Decimal DecimalNat DecimalFacts Permutation.
From XV Require Import model.Walk model.GenPath proofs.Walk_lemmas.
Import ListNotations.
Open Scope N_scope.

(* ---- decimal indices --------------------------------------------------------- *)
Lemma digits_inj : forall a b, digits a = digits b -> a = b.
Proof.
  induction a; destruct b; simpl; intros E; try discriminate; auto;
    inversion E; f_equal; auto.
Qed.

Lemma dec_inj i j : dec i = dec j -> i = j.
Proof. unfold dec. intros E. apply Unsigned.to_uint_inj, digits_inj; auto. Qed.

Lemma digits_noslash : forall d, existsb (N.eqb 47) (digits d) = false.
Proof. induction d; simpl; auto. Qed.

Lemma digits_nodot : forall d, existsb (N.eqb 46) (digits d) = false.
Proof. induction d; simpl; auto. Qed.

Lemma to_uint_nonnil n : Nat.to_uint n <> Nil.
Proof.
  assert (E : Nat.to_uint n = unorm (Nat.to_uint n)).
  { rewrite <- Unsigned.to_of. rewrite Unsigned.of_to. auto. }
  rewrite E. apply unorm_nonnil.
Qed.

Lemma dec_plain i : plain (dec i) = true.
Proof.
  unfold plain, dec.
  assert (Hn := to_uint_nonnil i). assert (Hs := digits_noslash (Nat.to_uint i)).
  assert (Hd := digits_nodot (Nat.to_uint i)).
  destruct (Nat.to_uint i) as [|d|d|d|d|d|d|d|d|d|d] eqn:E; try congruence; simpl in *;
    rewrite ?Hs; simpl; auto.
Qed.

Lemma k_out_plain : plain k_out = true. Proof. reflexivity. Qed.
Lemma k_pre_plain : plain k_pre = true. Proof. reflexivity. Qed.
Lemma k_init_plain : plain k_init = true. Proof. reflexivity. Qed.

(* ---- pathlib on plain names ---------------------------------------------------- *)
Lemma split_noslash s : existsb (N.eqb 47) s = false -> split s = [s].
Proof.
  induction s as [|c s IH]; cbn [existsb split]; auto.
  intros E. apply orb_false_iff in E. destruct E as [E1 E2].
  rewrite N.eqb_sym in E1. rewrite E1, (IH E2). auto.
Qed.

Lemma plain_inv s : plain s = true ->
  s <> [] /\ existsb (N.eqb 47) s = false /\ str_eqb s [46] = false /\ str_eqb s [46; 46] = false.
Proof.
  unfold plain. rewrite !andb_true_iff, !negb_true_iff. intros [[[A B] C] D].
  repeat split; auto. destruct s; [discriminate | congruence].
Qed.

Lemma parse_plain s : plain s = true -> parse s = {| p_root := 0; p_parts := [s] |}.
Proof.
  intros P. destruct (plain_inv s P) as [Hn [Hs [Hd _]]].
  unfold parse, comps. rewrite (split_noslash s Hs). simpl.
  unfold keep. rewrite Hd. destruct s as [|c s]; [congruence|]. cbn [is_nil negb andb filter].
  cbn [existsb] in Hs. apply orb_false_iff in Hs. destruct Hs as [Hc _]. rewrite N.eqb_sym in Hc.
  unfold root_of. rewrite Hc. auto.
Qed.

Lemma pjoin_rel a l : pjoin a {| p_root := 0; p_parts := l |} = {| p_root := p_root a; p_parts := p_parts a ++ l |}.
Proof. reflexivity. Qed.

Section GenFacts.
  Variable esc : str -> str.

  Lemma fold_push_plain : forall pos acc,
    Forall (fun k => plain (esc k) = true) pos ->
    fold_left (fun p k => pjoin p (parse (esc k))) pos {| p_root := 0; p_parts := acc |}
    = {| p_root := 0; p_parts := acc ++ map esc pos |}.
  Proof.
    induction pos as [|k pos IH]; simpl; intros acc H.
    - rewrite List.app_nil_r; auto.
    - inversion H; subst. rewrite (parse_plain _ H2), pjoin_rel. simpl.
      rewrite IH; auto. rewrite <- List.app_assoc. auto.
  Qed.

  (* the components below the job directory *)
  Definition rel_comps (pos : list str) (file : str) : list str :=
    match pos with [] => [file] | _ => k_out :: map esc pos ++ [file] end.

  Lemma gen_value_plain jd pos file :
    Forall (fun k => plain (esc k) = true) pos -> plain file = true ->
    gen_value esc jd pos file = {| p_root := p_root jd; p_parts := p_parts jd ++ rel_comps pos file |}.
  Proof.
    intros Hk Hf. unfold gen_value, currentpath, configpath, rel_comps.
    rewrite (parse_plain _ Hf).
    destruct pos as [|k pos]; [reflexivity|].
    rewrite (parse_plain _ k_out_plain), fold_push_plain; auto.
    rewrite !pjoin_rel. simpl. rewrite <- List.app_assoc. reflexivity.
  Qed.

  Lemma rel_comps_nonempty pos file : rel_comps pos file <> [].
  Proof. destruct pos; simpl; congruence. Qed.

  Lemma rel_comps_plain pos file :
    Forall (fun k => plain (esc k) = true) pos -> plain file = true ->
    Forall (fun c => plain c = true) (rel_comps pos file).
  Proof.
    intros Hk Hf. unfold rel_comps. destruct pos as [|k pos]; [constructor; auto|].
    constructor; [apply k_out_plain|]. apply Forall_app. split; [|constructor; auto].
    apply Forall_map. auto.
  Qed.

  Lemma rel_comps_inj pos1 f1 pos2 f2 :
    (forall a b, esc a = esc b -> a = b) ->
    rel_comps pos1 f1 = rel_comps pos2 f2 -> pos1 = pos2 /\ f1 = f2.
  Proof.
    intros Hinj. unfold rel_comps.
    destruct pos1 as [|k1 p1]; destruct pos2 as [|k2 p2]; intros E.
    - inversion E; auto.
    - exfalso. inversion E.
    - exfalso. inversion E.
    - assert (E' := f_equal (@tl _) E). simpl in E'. change (esc k1 :: map esc p1 ++ [f1]) with (map esc (k1 :: p1) ++ [f1]) in E'.
      change (esc k2 :: map esc p2 ++ [f2]) with (map esc (k2 :: p2) ++ [f2]) in E'.
      apply app_inj_tail in E'. destruct E' as [Em ->]. split; auto.
      revert Em. generalize (k1 :: p1) (k2 :: p2). intros la.
      induction la as [|x la IH]; intros lb; destruct lb as [|y lb]; simpl; intros Em; try discriminate; auto.
      inversion Em. f_equal; auto.
  Qed.
End GenFacts.

Lemma in_nth_default {A} (l : list (list A)) i x : In x (nth i l []) -> exists c, In c l /\ In x c.
Proof.
  intros H. destruct (Nat.lt_ge_cases i (length l)) as [Hl|Hl].
  - exists (nth i l []). split; auto. apply nth_In; auto.
  - rewrite nth_overflow in H; auto. destruct H.
Qed.

Lemma NoDup_fst_unique {A B} (l : list (A * B)) a b1 b2 :
  NoDup (map fst l) -> In (a, b1) l -> In (a, b2) l -> b1 = b2.
Proof.
  induction l as [|[x y] l IH]; simpl; intros Hn H1 H2; [tauto|].
  inversion Hn; subst.
  destruct H1 as [H1|H1]; destruct H2 as [H2|H2].
  - congruence.
  - inversion H1; subst. exfalso. apply H3. apply in_map_iff. exists (a, b2); auto.
  - inversion H2; subst. exfalso. apply H3. apply in_map_iff. exists (a, b1); auto.
  - auto.
Qed.

Section GenTheorems.
  Variable esc : str -> str.
  Variable SE : nat -> node -> list edge.
  Variable h : heap.
  Variable gens : list (list (str * str)).

  Notation cut := (cut_sealed h).
  Notation expanded := (expanded h cut).
  Notation out_edges := (out_edges h SE).
  Notation path := (path h SE cut).

  Definition keys_ok : Prop :=
    forall n e k, expanded n -> In e (out_edges n) -> In k (fst e) -> plain (esc k) = true.
  Definition files_ok : Prop :=
    forall c af, In c gens -> In af c -> plain (snd af) = true.
  Definition all_unamb : Prop := forall n, unamb h SE cut n.

  Lemma path_keys : keys_ok -> forall a p c, path a p c -> Forall (fun k => plain (esc k) = true) p.
  Proof.
    intros K a p c H. induction H as [a Ha | a rel b p c Ha Hin Hp IH]; [constructor|].
    apply Forall_app. split; auto. apply Forall_forall. intros k Hk. eapply K; eauto.
  Qed.

  Lemma gens_of_files : files_ok -> forall n af, In af (gens_of h gens n) -> plain (snd af) = true.
  Proof.
    intros F n af H. unfold gens_of in H. destruct (nth_error h n); [|destruct H].
    apply in_nth_default in H. destruct H as [c [Hc Hin]]. eapply F; eauto.
  Qed.

  (* the Sealer always terminates *)
  Theorem generated_total : forall root jd, exists l, generated esc SE h gens root jd = Some l.
  Proof.
    intros. unfold generated. destruct (walk_correct h SE cut root) as [evs [E _]].
    rewrite E. eauto.
  Qed.

  Lemma generated_inv root jd l e :
    generated esc SE h gens root jd = Some l -> In e l ->
    exists evs pos af, walk h SE cut root = Some evs /\ In (g_node e, pos) evs /\
      In af (gens_of h gens (g_node e)) /\ g_arg e = fst af /\ g_file e = snd af /\
      g_path e = gen_value esc jd pos (snd af).
  Proof.
    unfold generated. destruct (walk h SE cut root) as [evs|] eqn:E; [|discriminate].
    intros El Hin. inversion El; subst l. apply in_flat_map in Hin.
    destruct Hin as [[n pos] [Hev He]]. unfold entries_of in He. apply in_map_iff in He.
    destruct He as [af [<- Haf]]. simpl in *. exists evs, pos, af. repeat split; auto.
  Qed.

  Theorem inside_jobdir : keys_ok -> files_ok ->
    forall root jd l e, generated esc SE h gens root jd = Some l -> In e l ->
    exists comps, comps <> [] /\ Forall (fun c => plain c = true) comps /\
      g_path e = {| p_root := p_root jd; p_parts := p_parts jd ++ comps |}.
  Proof.
    intros K F root jd l e El Hin.
    destruct (generated_inv _ _ _ _ El Hin) as [evs [pos [af [Ew [Hev [Haf [_ [_ Hp]]]]]]]].
    destruct (walk_correct h SE cut root) as [evs' [Ew' [_ [_ Hpath]]]].
    rewrite Ew in Ew'. inversion Ew'; subst evs'.
    assert (Hk := path_keys K _ _ _ (Hpath _ _ Hev)).
    assert (Hf := gens_of_files F _ _ Haf).
    exists (rel_comps esc pos (snd af)). split; [apply rel_comps_nonempty|].
    split; [apply rel_comps_plain; auto|]. rewrite Hp. apply gen_value_plain; auto.
  Qed.

  Theorem distinct : all_unamb -> (forall a b, esc a = esc b -> a = b) -> keys_ok -> files_ok ->
    forall root jd l e1 e2, generated esc SE h gens root jd = Some l -> In e1 l -> In e2 l ->
    (g_node e1, g_file e1) <> (g_node e2, g_file e2) -> g_path e1 <> g_path e2.
  Proof.
    intros U Hinj K F root jd l e1 e2 El H1 H2 Hne Hp.
    destruct (generated_inv _ _ _ _ El H1) as [evs [pos1 [af1 [Ew [Hev1 [Haf1 [_ [Hf1 Hp1]]]]]]]].
    destruct (generated_inv _ _ _ _ El H2) as [evs2 [pos2 [af2 [Ew2 [Hev2 [Haf2 [_ [Hf2 Hp2]]]]]]]].
    rewrite Ew in Ew2. inversion Ew2; subst evs2. clear Ew2.
    destruct (walk_correct h SE cut root) as [evs' [Ew' [Hnd [_ Hpath]]]].
    rewrite Ew in Ew'. inversion Ew'; subst evs'. clear Ew'.
    rewrite Hp1, Hp2 in Hp.
    rewrite !gen_value_plain in Hp;
      try (eapply path_keys; eauto); try (eapply gens_of_files; eauto).
    inversion Hp as [Hc]. apply app_inv_head in Hc.
    apply rel_comps_inj in Hc; auto. destruct Hc as [Epos Efile].
    apply Hne. rewrite Hf1, Hf2, Efile. f_equal.
    destruct (Nat.eq_dec (g_node e1) (g_node e2)) as [|Hn]; auto.
    exfalso. exact (walk_positions_distinct h SE cut U root evs _ _ _ _ Ew Hev1 Hev2 Hn Epos).
  Qed.

  (* the same file name on the same object: the same path (interpretation fixed in DESIGN.md) *)
  Theorem same_object_same_name : forall root jd l e1 e2,
    generated esc SE h gens root jd = Some l -> In e1 l -> In e2 l ->
    g_node e1 = g_node e2 -> g_file e1 = g_file e2 -> g_path e1 = g_path e2.
  Proof.
    intros root jd l e1 e2 El H1 H2 En Ef.
    destruct (generated_inv _ _ _ _ El H1) as [evs [pos1 [af1 [Ew [Hev1 [_ [_ [Hf1 Hp1]]]]]]]].
    destruct (generated_inv _ _ _ _ El H2) as [evs2 [pos2 [af2 [Ew2 [Hev2 [_ [_ [Hf2 Hp2]]]]]]]].
    rewrite Ew in Ew2. inversion Ew2; subst evs2.
    destruct (walk_correct h SE cut root) as [evs' [Ew' [Hnd _]]].
    rewrite Ew in Ew'. inversion Ew'; subst evs'.
    rewrite En in Hev1. rewrite (NoDup_fst_unique _ _ _ _ Hnd Hev1 Hev2) in Hp1. congruence.
  Qed.

  (* reproducible: the result does not depend on the fuel ... *)
  Theorem reproducible_fuel : forall fuel root jd l,
    generated_fuel esc SE h gens fuel root jd = Some l -> generated esc SE h gens root jd = Some l.
  Proof.
    unfold generated_fuel, generated. intros fuel root jd l.
    destruct (visit h SE cut fuel [] root st0) as [st|] eqn:E; [|discriminate].
    rewrite (walk_fuel_irrelevant h SE cut _ _ _ E). auto.
  Qed.

  (* ... and the layout below the job directory depends on the graph only *)
  Definition place (jd : ppath) (r : nat * str * str * list str) : entry :=
    let '(n, a, f, comps) := r in
    {| g_node := n; g_arg := a; g_file := f;
       g_path := {| p_root := p_root jd; p_parts := p_parts jd ++ comps |} |}.

  Theorem reproducible_layout : keys_ok -> files_ok -> forall root,
    exists rels, forall jd, generated esc SE h gens root jd = Some (map (place jd) rels).
  Proof.
    intros K F root. unfold generated.
    destruct (walk_correct h SE cut root) as [evs [Ew [_ [_ Hpath]]]]. rewrite Ew.
    exists (flat_map (fun ev => map (fun af => (fst ev, fst af, snd af, rel_comps esc (snd ev) (snd af)))
                                    (gens_of h gens (fst ev))) evs).
    intros jd. f_equal.
    assert (G : forall l, (forall m p, In (m, p) l -> path root p m) ->
              flat_map (entries_of esc h gens jd) l =
              map (place jd) (flat_map (fun ev => map (fun af => (fst ev, fst af, snd af, rel_comps esc (snd ev) (snd af)))
                                    (gens_of h gens (fst ev))) l)).
    { induction l as [|[m p] l IH]; simpl; intros Hl; auto.
      rewrite map_app, IH by (intros; apply Hl; auto). f_equal.
      unfold entries_of. rewrite map_map. simpl. apply map_ext_in. intros af Haf. simpl.
      f_equal. apply gen_value_plain.
      - eapply path_keys; eauto.
      - eapply gens_of_files; eauto. }
    apply G; auto.
  Qed.
End GenTheorems.

(* ---- the decidable hypotheses ---------------------------------------------------- *)
Lemma is_prefix_spec a b : is_prefix a b = true <-> prefix a b.
Proof.
  revert b; induction a as [|x a IH]; intros b; simpl.
  - split; auto. intros _. exists b; auto.
  - destruct b as [|y b].
    + split; [discriminate | intros [c Hc]; discriminate].
    + rewrite andb_true_iff, str_eqb_eq, IH. split.
      * intros [-> [c ->]]. exists c; auto.
      * intros [c Hc]. inversion Hc; subst. split; auto. exists c; auto.
Qed.

Lemma keys_eqb_eq a b : keys_eqb a b = true <-> a = b.
Proof.
  revert b; induction a as [|x a IH]; destruct b as [|y b]; simpl; try (split; congruence).
  rewrite andb_true_iff, str_eqb_eq, IH. split; [intros [-> ->]; auto | intros E; inversion E; auto].
Qed.

Lemma edge_eqb_eq e1 e2 : edge_eqb e1 e2 = true <-> e1 = e2.
Proof.
  destruct e1 as [l1 n1], e2 as [l2 n2]. unfold edge_eqb. simpl.
  rewrite andb_true_iff, keys_eqb_eq, Nat.eqb_eq. split; [intros [-> ->]; auto | intros E; inversion E; auto].
Qed.

Section Reflect.
  Variable esc : str -> str.
  Variable SE : nat -> node -> list edge.
  Variable h : heap.
  Variable gens : list (list (str * str)).

  Lemma expandedb_spec n : expandedb h n = true <-> expanded h (cut_sealed h) n.
  Proof.
    unfold expandedb, expanded. destruct (nth_error h n) as [nd|] eqn:E.
    - rewrite negb_true_iff. split; [intros H; exists nd; auto | intros [nd' [_ H]]; auto].
    - split; [discriminate | intros [nd' [H _]]; discriminate].
  Qed.

  Lemma out_edges_range n e : In e (out_edges h SE n) -> (n < length h)%nat.
  Proof.
    unfold out_edges. destruct (nth_error h n) eqn:E; [|intros []].
    intros _. apply nth_error_range. congruence.
  Qed.

  Lemma unambb_sound : unambb SE h = true -> all_unamb SE h.
  Proof.
    unfold unambb. rewrite forallb_forall. intros H n e1 e2 H1 H2 X1 X2.
    assert (Hn := out_edges_range _ _ H1).
    assert (Hb := H n ltac:(apply in_seq; lia)). unfold unamb_nodeb in Hb.
    rewrite forallb_forall in Hb.
    assert (F1 : In e1 (filter (fun e => expandedb h (snd e)) (out_edges h SE n)))
      by (apply filter_In; split; auto; apply expandedb_spec; auto).
    assert (F2 : In e2 (filter (fun e => expandedb h (snd e)) (out_edges h SE n)))
      by (apply filter_In; split; auto; apply expandedb_spec; auto).
    specialize (Hb e1 F1). apply andb_true_iff in Hb. destruct Hb as [Hne Hall].
    split.
    - destruct (fst e1); [discriminate | congruence].
    - intros Hp. rewrite forallb_forall in Hall. specialize (Hall e2 F2).
      apply is_prefix_spec in Hp. rewrite Hp in Hall. simpl in Hall. apply edge_eqb_eq; auto.
  Qed.

  Lemma keys_plainb_sound : keys_plainb esc SE h = true -> keys_ok esc SE h.
  Proof.
    unfold keys_plainb. rewrite forallb_forall. intros H n e k Hx He Hk.
    assert (Hn := out_edges_range _ _ He).
    assert (Hb := H n ltac:(apply in_seq; lia)).
    apply expandedb_spec in Hx. rewrite Hx in Hb.
    rewrite forallb_forall in Hb. specialize (Hb e He). rewrite forallb_forall in Hb. auto.
  Qed.

  Lemma files_plainb_sound : files_plainb gens = true -> files_ok gens.
  Proof.
    unfold files_plainb. rewrite forallb_forall. intros H c af Hc Haf.
    specialize (H c Hc). rewrite forallb_forall in H. auto.
  Qed.
End Reflect.

(* ---- the repaired key encoding: every key gives one plain segment, injectively ----- *)
Lemma esc_chars_noslash s : existsb (N.eqb 47) (esc_chars s) = false.
Proof.
  induction s as [|c s IH]; simpl; auto.
  destruct (N.eqb_spec c 37); [simpl; auto|].
  destruct (N.eqb_spec c 47); [simpl; auto|].
  change ([c] ++ esc_chars s) with (c :: esc_chars s). cbn [existsb].
  rewrite IH, orb_false_r. apply N.eqb_neq. auto.
Qed.

Lemma esc_chars_nil s : esc_chars s = [] -> s = [].
Proof.
  destruct s as [|c s]; auto. simpl.
  destruct (c =? 37); [discriminate|]. destruct (c =? 47); discriminate.
Qed.

Lemma esc_chars_inj : forall a b, esc_chars a = esc_chars b -> a = b.
Proof.
  induction a as [|x a IH]; intros b E.
  - symmetry in E. apply esc_chars_nil in E. auto.
  - destruct b as [|y b]; [apply esc_chars_nil in E; discriminate|].
    simpl in E.
    destruct (N.eqb_spec x 37) as [->|Hx37]; destruct (N.eqb_spec y 37) as [->|Hy37].
    + inversion E. f_equal; auto.
    + destruct (N.eqb_spec y 47) as [->|Hy47]; inversion E. congruence.
    + destruct (N.eqb_spec x 47) as [->|Hx47]; inversion E. congruence.
    + destruct (N.eqb_spec x 47) as [->|Hx47]; destruct (N.eqb_spec y 47) as [->|Hy47];
        inversion E; try congruence; f_equal; auto.
Qed.

(* the three special images are not images of esc_chars *)
Lemma esc_chars_not_special s :
  esc_chars s <> [37] /\ esc_chars s <> [37; 50; 69] /\ esc_chars s <> [37; 50; 69; 37; 50; 69].
Proof.
  destruct s as [|c s]; simpl; [repeat split; discriminate|].
  destruct (N.eqb_spec c 37) as [->|H37]; [repeat split; discriminate|].
  destruct (N.eqb_spec c 47) as [->|H47]; [repeat split; discriminate|].
  repeat split; intros E; inversion E; congruence.
Qed.

Lemma esc_fix_cases k :
  (esc_chars k = [] /\ esc_fix k = [37]) \/
  (esc_chars k = [46] /\ esc_fix k = [37; 50; 69]) \/
  (esc_chars k = [46; 46] /\ esc_fix k = [37; 50; 69; 37; 50; 69]) \/
  (esc_chars k <> [] /\ esc_chars k <> [46] /\ esc_chars k <> [46; 46] /\ esc_fix k = esc_chars k).
Proof.
  unfold esc_fix. destruct (esc_chars k) as [|c1 r1]; auto.
  destruct (N.eq_dec c1 46) as [->|H1].
  - destruct r1 as [|c2 r2]; auto.
    destruct (N.eq_dec c2 46) as [->|H2].
    + destruct r2; auto. right; right; right. repeat split; congruence.
    + right; right; right. repeat split; try congruence.
      destruct c2 as [|p]; auto. repeat (destruct p as [p|p|]; auto; try congruence).
  - right; right; right. repeat split; try congruence.
    destruct c1 as [|p]; auto. repeat (destruct p as [p|p|]; auto; try congruence).
Qed.

Lemma esc_fix_inj a b : esc_fix a = esc_fix b -> a = b.
Proof.
  intros E. apply esc_chars_inj.
  destruct (esc_chars_not_special a) as [A1 [A2 A3]].
  destruct (esc_chars_not_special b) as [B1 [B2 B3]].
  destruct (esc_fix_cases a) as [[Ea Fa]|[[Ea Fa]|[[Ea Fa]|[_ [_ [_ Fa]]]]]];
  destruct (esc_fix_cases b) as [[Eb Fb]|[[Eb Fb]|[[Eb Fb]|[_ [_ [_ Fb]]]]]];
    rewrite Fa, Fb in E; try congruence.
Qed.

Lemma esc_fix_plain k : plain (esc_fix k) = true.
Proof.
  destruct (esc_fix_cases k) as [[_ ->]|[[_ ->]|[[_ ->]|[N1 [N2 [N3 ->]]]]]]; try reflexivity.
  unfold plain. rewrite esc_chars_noslash.
  assert (D1 : str_eqb (esc_chars k) [46] = false).
  { destruct (str_eqb (esc_chars k) [46]) eqn:E; auto. apply str_eqb_eq in E. congruence. }
  assert (D2 : str_eqb (esc_chars k) [46; 46] = false).
  { destruct (str_eqb (esc_chars k) [46; 46]) eqn:E; auto. apply str_eqb_eq in E. congruence. }
  rewrite D1, D2. destruct (esc_chars k); [congruence | reflexivity].
Qed.

Lemma keys_ok_fix SE h : keys_ok esc_fix SE h.
Proof. intros n e k _ _ _. apply esc_fix_plain. Qed.

(* ---- packaged statements (props/C17.v) ----------------------------------------------- *)
(* repaired push: no hypothesis on the keys *)
Theorem inside_jobdir_fix : forall h gens root jd l e,
  files_ok gens -> generated esc_fix seal_edges h gens root jd = Some l -> In e l ->
  exists comps, comps <> [] /\ Forall (fun c => plain c = true) comps /\
    g_path e = {| p_root := p_root jd; p_parts := p_parts jd ++ comps |}.
Proof. intros. eapply inside_jobdir; eauto. apply keys_ok_fix. Qed.

Theorem distinct_fix : forall h gens root jd l e1 e2,
  all_unamb seal_edges h -> files_ok gens ->
  generated esc_fix seal_edges h gens root jd = Some l -> In e1 l -> In e2 l ->
  (g_node e1, g_file e1) <> (g_node e2, g_file e2) -> g_path e1 <> g_path e2.
Proof.
  intros h gens root jd l e1 e2 U F. apply distinct; auto.
  - apply esc_fix_inj. - apply keys_ok_fix.
Qed.

Theorem reproducible_layout_fix : forall h gens root, files_ok gens ->
  exists rels, forall jd, generated esc_fix seal_edges h gens root jd = Some (map (place jd) rels).
Proof. intros. apply reproducible_layout; auto. apply keys_ok_fix. Qed.

(* the code as it is: for dict keys that are plain names *)
Theorem distinct_plainkeys : forall h gens root jd l e1 e2,
  all_unamb seal_edges h -> keys_ok esc_prefix seal_edges h -> files_ok gens ->
  generated esc_prefix seal_edges h gens root jd = Some l -> In e1 l -> In e2 l ->
  (g_node e1, g_file e1) <> (g_node e2, g_file e2) -> g_path e1 <> g_path e2.
Proof. intros h gens root jd l e1 e2 U K F. apply distinct; auto. Qed.

(* ---- examples: the hypotheses are satisfiable by non-trivial graphs ---------------- *)
Definition s_c : str := [99].           (* "c" *)
Definition s_d : str := [100].          (* "d" *)
Definition s_l : str := [108].          (* "l" *)
Definition s_p : str := [112].          (* "p" *)
Definition s_otxt : str := [111; 46; 116; 120; 116].   (* "o.txt" *)
Definition mk (c : nat) fs pr := {| cls := c; fields := fs; pre := pr; init := []; task := None; sealed := false |}.
Definition ex_gens : list (list (str * str)) := [[(s_p, k_out)]; [(s_p, s_otxt)]].
Definition ex_jd : ppath := {| p_root := 1; p_parts := [[74; 79; 66]] |}.

(* task 0: c -> 1, l -> [2; 1], d -> {"a": 2}; node 1: c -> 2 and a cycle back to 1; pre-task 3 at 1 *)
Definition ex_heap : heap :=
  [ mk 0 [(s_c, VRef 1); (s_l, VList [VRef 2; VRef 1]); (s_d, VDict [([97], VRef 2)])] [];
    mk 1 [(s_c, VRef 2); (s_d, VDict [([97], VRef 1)])] [3%nat];
    mk 1 [] [];
    mk 1 [] [] ].

Example ex_hyps : unambb seal_edges ex_heap = true /\ files_plainb ex_gens = true /\ keys_plainb esc_prefix seal_edges ex_heap = true.
Proof. vm_compute. auto. Qed.

Example ex_hyps_prop : all_unamb seal_edges ex_heap /\ files_ok ex_gens /\ keys_ok esc_prefix seal_edges ex_heap.
Proof.
  destruct ex_hyps as [A [B C]]. split; [apply unambb_sound; auto|].
  split; [apply files_plainb_sound; auto | apply keys_plainb_sound; auto].
Qed.

Example ex_generated : exists l, generated esc_fix seal_edges ex_heap ex_gens 0 ex_jd = Some l /\ length l = 4%nat.
Proof. eexists. split; [vm_compute; reflexivity | reflexivity]. Qed.

(* ---- refutations: the literal code with dict keys that are not plain names ---------- *)
(* d = {"": Leaf, ".": Leaf}: both leaves receive <job>/out/d/o.txt *)
Definition bad_heap1 : heap :=
  [ mk 0 [(s_d, VDict [([], VRef 1); ([46], VRef 2)])] []; mk 1 [] []; mk 1 [] [] ].

Theorem distinct_prefix_refuted :
  exists h gens root jd l e1 e2,
    all_unamb seal_edges h /\ files_ok gens /\ generated esc_prefix seal_edges h gens root jd = Some l /\
    In e1 l /\ In e2 l /\ g_node e1 <> g_node e2 /\ g_path e1 = g_path e2.
Proof.
  exists bad_heap1, ex_gens, 0%nat, ex_jd.
  eexists. eexists. eexists.
  split; [apply unambb_sound; vm_compute; reflexivity|].
  split; [apply files_plainb_sound; vm_compute; reflexivity|].
  split; [vm_compute; reflexivity|].
  split; [left; reflexivity|].
  split; [right; left; reflexivity|].
  split; [simpl; congruence | reflexivity].
Qed.

(* d = {"/abs": Leaf}: the leaf receives /abs/o.txt *)
Definition bad_heap2 : heap :=
  [ mk 0 [(s_d, VDict [([47; 97; 98; 115], VRef 1)])] []; mk 1 [] [] ].

Theorem inside_prefix_refuted :
  exists h gens root jd l e,
    files_ok gens /\ generated esc_prefix seal_edges h gens root jd = Some l /\ In e l /\
    ~ exists comps, g_path e = {| p_root := p_root jd; p_parts := p_parts jd ++ comps |}.
Proof.
  exists bad_heap2, ex_gens, 0%nat, ex_jd.
  eexists. eexists.
  split; [apply files_plainb_sound; vm_compute; reflexivity|].
  split; [vm_compute; reflexivity|].
  split; [left; reflexivity|].
  intros [comps E]. vm_compute in E. inversion E.
Qed.

(* with the repaired push the same graphs are fine *)
Example bad_heaps_repaired :
  (exists l, generated esc_fix seal_edges bad_heap1 ex_gens 0 ex_jd = Some l /\
     map g_path l = [ {| p_root := 1; p_parts := [[74;79;66]; k_out; s_d; [37]; s_otxt] |};
                      {| p_root := 1; p_parts := [[74;79;66]; k_out; s_d; [37;50;69]; s_otxt] |};
                      {| p_root := 1; p_parts := [[74;79;66]; k_out] |} ]) /\
  (exists l, generated esc_fix seal_edges bad_heap2 ex_gens 0 ex_jd = Some l /\
     map g_path l = [ {| p_root := 1; p_parts := [[74;79;66]; k_out; s_d; [37;50;70;97;98;115]; s_otxt] |};
                      {| p_root := 1; p_parts := [[74;79;66]; k_out] |} ]).
Proof. split; eexists; split; vm_compute; reflexivity. Qed.


(* ================================================================================== *)
(* all_unamb seal_edges holds for every graph with well-formed names                              *)
Local Open Scope nat_scope.

(* ---- induction on values (nested lists) ----------------------------------------- *)
Section ValueInd.
  Variable P : value -> Prop.
  Hypothesis Hnone : P VNone.
  Hypothesis Hscalar : forall z, P (VScalar z).
  Hypothesis Hstr : forall s, P (VStr s).
  Hypothesis Href : forall n, P (VRef n).
  Hypothesis Hlist : forall l, Forall P l -> P (VList l).
  Hypothesis Hdict : forall l, Forall (fun kv => P (snd kv)) l -> P (VDict l).

  Fixpoint value_ind2 (v : value) : P v :=
    match v with
    | VNone => Hnone
    | VScalar z => Hscalar z
    | VStr s => Hstr s
    | VRef n => Href n
    | VList l => Hlist l ((fix go (l : list value) : Forall P l :=
                             match l with [] => Forall_nil _ | x :: l' => Forall_cons _ (value_ind2 x) (go l') end) l)
    | VDict l => Hdict l ((fix go (l : list (str * value)) : Forall (fun kv => P (snd kv)) l :=
                             match l with [] => Forall_nil _
                                     | kv :: l' => Forall_cons _ (value_ind2 (snd kv)) (go l') end) l)
    end.
End ValueInd.

Lemma nodup_keys_spec l : nodup_keys l = true -> NoDup l.
Proof.
  induction l as [|k l IH]; simpl; intros H; constructor.
  - apply andb_true_iff in H. destruct H as [H _]. apply negb_true_iff in H.
    intros Hin. assert (E : existsb (str_eqb k) l = true).
    { apply existsb_exists. exists k. split; auto. apply str_eqb_eq; auto. }
    congruence.
  - apply andb_true_iff in H. destruct H; auto.
Qed.

Section EdgesM.
  Variable metaf : nat -> bool.

(* ---- unfolding the nested fixpoints of edges_value_m metaf -------------------------------- *)
Fixpoint elist (rel : list str) (i j : nat) (l : list value) : list edge :=
  match l with
  | [] => []
  | x :: l' => if flagged metaf x then edges_value_m metaf (rel ++ [meta_key j]) x ++ elist rel i (S j) l'
               else edges_value_m metaf (rel ++ [dec i]) x ++ elist rel (S i) j l'
  end.
Definition groups (rel : list str) (l : list (str * value)) : list (str * list edge) :=
  map (fun kx => (fst kx, edges_value_m metaf (rel ++ [fst kx]) (snd kx))) l.

Lemma edges_value_list rel l : edges_value_m metaf rel (VList l) = elist rel 0 0 l.
Proof.
  simpl. generalize 0%nat at 2 4. generalize 0%nat.
  induction l as [|x l IH]; intros i j; simpl; auto.
  destruct (flagged metaf x); f_equal; apply IH.
Qed.
Lemma edges_value_dict_m rel l : edges_value_m metaf rel (VDict l) = concat (map snd (sort_keys (groups rel l))).
Proof.
  simpl. do 3 f_equal. unfold groups. induction l as [|[k x] l IH]; simpl; auto. f_equal. apply IH.
Qed.

Lemma insert_key_In {A} (kv : str * A) : forall l x, In x (insert_key kv l) <-> x = kv \/ In x l.
Proof.
  induction l as [|y l IH]; intros x; simpl.
  - split; intros [H|H]; auto.
  - destruct (str_leb (fst kv) (fst y)); simpl; [split; intros [H|H]; auto|].
    rewrite IH. split; intros H; tauto.
Qed.
Lemma sort_keys_In {A} : forall (l : list (str * A)) x, In x (sort_keys l) <-> In x l.
Proof.
  induction l as [|y l IH]; intros x; simpl; [tauto|].
  rewrite insert_key_In, IH. split; intros [H|H]; auto.
Qed.

Lemma elist_In rel : forall l i j e, In e (elist rel i j l) <->
  exists p x k, nth_error l p = Some x /\ nth_error (lkeys metaf i j l) p = Some k /\
                In e (edges_value_m metaf (rel ++ [k]) x).
Proof.
  induction l as [|x l IH]; intros i j e; simpl.
  - split; [tauto|]. intros [p [y [k [H _]]]]. destruct p; discriminate.
  - destruct (flagged metaf x); rewrite in_app_iff, IH; split.
    + intros [H|[p [y [k [Hn [Hk Hy]]]]]].
      * exists 0%nat, x, (meta_key j). auto.
      * exists (S p), y, k. auto.
    + intros [[|p] [y [k [Hn [Hk Hy]]]]]; simpl in *.
      * inversion Hn; inversion Hk; subst. auto.
      * right. exists p, y, k. auto.
    + intros [H|[p [y [k [Hn [Hk Hy]]]]]].
      * exists 0%nat, x, (dec i). auto.
      * exists (S p), y, k. auto.
    + intros [[|p] [y [k [Hn [Hk Hy]]]]]; simpl in *.
      * inversion Hn; inversion Hk; subst. auto.
      * right. exists p, y, k. auto.
Qed.

(* the keys of one list are pairwise different *)
Lemma digits_nounderscore : forall d, existsb (N.eqb 95) (digits d) = false.
Proof. induction d; simpl; auto. Qed.

Lemma dec_not_meta a b : dec a <> meta_key b.
Proof.
  intros E. assert (H := digits_nounderscore (Nat.to_uint a)). unfold dec in E. rewrite E in H.
  simpl in H. discriminate.
Qed.

Lemma meta_key_inj a b : meta_key a = meta_key b -> a = b.
Proof. unfold meta_key. intros E. apply app_inv_head in E. apply dec_inj; auto. Qed.

Lemma lkeys_shape : forall l i j k, In k (lkeys metaf i j l) ->
  (exists a, (i <= a)%nat /\ k = dec a) \/ (exists b, (j <= b)%nat /\ k = meta_key b).
Proof.
  induction l as [|x l IH]; intros i j k H; simpl in H; [tauto|].
  destruct (flagged metaf x); destruct H as [<-|H].
  - right. exists j. auto.
  - destruct (IH _ _ _ H) as [[a [L E]]|[b [L E]]]; [left; exists a; auto | right; exists b; split; auto; lia].
  - left. exists i. auto.
  - destruct (IH _ _ _ H) as [[a [L E]]|[b [L E]]]; [left; exists a; split; auto; lia | right; exists b; auto].
Qed.

Lemma lkeys_nodup : forall l i j, NoDup (lkeys metaf i j l).
Proof.
  induction l as [|x l IH]; intros i j; simpl; [constructor|].
  destruct (flagged metaf x); constructor; auto; intros H; apply lkeys_shape in H;
    destruct H as [[a [L E]]|[b [L E]]].
  - symmetry in E. exact (dec_not_meta _ _ E).
  - apply meta_key_inj in E. lia.
  - apply dec_inj in E. lia.
  - exact (dec_not_meta _ _ E).
Qed.

Lemma lkeys_length : forall l i j, length (lkeys metaf i j l) = length l.
Proof. induction l as [|x l IH]; intros i j; simpl; auto. destruct (flagged metaf x); simpl; auto. Qed.

Lemma edict_In rel l e : In e (concat (map snd (sort_keys (groups rel l)))) <->
  exists k x, In (k, x) l /\ In e (edges_value_m metaf (rel ++ [k]) x).
Proof.
  rewrite in_concat. split.
  - intros [es [Hes He]]. apply in_map_iff in Hes. destruct Hes as [[k es'] [<- Hg]].
    apply (proj1 (sort_keys_In _ _)) in Hg. unfold groups in Hg. apply in_map_iff in Hg.
    destruct Hg as [[k' x] [Eg Hin]]. simpl in Eg. inversion Eg; subst. exists k, x. auto.
  - intros [k [x [Hin He]]]. exists (edges_value_m metaf (rel ++ [k]) x). split; auto.
    apply in_map_iff. exists (k, edges_value_m metaf (rel ++ [k]) x). split; auto.
    apply (proj2 (sort_keys_In _ _)). unfold groups. apply in_map_iff. exists (k, x). auto.
Qed.

(* every label of edges_value_m metaf rel v extends rel *)
Lemma edges_value_prefix : forall v rel e, In e (edges_value_m metaf rel v) -> prefix rel (fst e).
Proof.
  induction v as [| | |n|l IH|l IH] using value_ind2; intros rel e He; try (simpl in He; tauto).
  - simpl in He. destruct He as [<-|[]]. exists []. simpl. rewrite List.app_nil_r. auto.
  - rewrite edges_value_list in He. apply elist_In in He. destruct He as [j [x [k [Hn [Hk He]]]]].
    rewrite Forall_forall in IH. destruct (IH x (nth_error_In _ _ Hn) _ _ He) as [c Hc].
    exists ([k] ++ c). rewrite Hc, <- List.app_assoc. auto.
  - rewrite edges_value_dict_m in He. apply edict_In in He. destruct He as [k [x [Hn He]]].
    rewrite Forall_forall in IH. destruct (IH (k, x) Hn _ _ He) as [c Hc]. simpl in Hc.
    exists ([k] ++ c). rewrite Hc, <- List.app_assoc. auto.
Qed.

(* two labels below rel ++ [a] and rel ++ [b], one a prefix of the other: a = b *)
Lemma prefix_same_key (rel : list str) a b l1 l2 :
  prefix (rel ++ [a]) l1 -> prefix (rel ++ [b]) l2 -> prefix l1 l2 -> a = b.
Proof.
  intros [c1 ->] [c2 ->] [c E].
  rewrite <- !List.app_assoc in E. apply app_inv_head in E. simpl in E. inversion E; auto.
Qed.

Lemma edges_value_unamb : forall v rel, dict_ok v = true ->
  forall e1 e2, In e1 (edges_value_m metaf rel v) -> In e2 (edges_value_m metaf rel v) ->
                prefix (fst e1) (fst e2) -> e1 = e2.
Proof.
  induction v as [| | |n|l IH|l IH] using value_ind2; intros rel Hok e1 e2 H1 H2 Hp;
    try (simpl in H1; tauto).
  - simpl in H1, H2. destruct H1 as [<-|[]]. destruct H2 as [<-|[]]. auto.
  - rewrite edges_value_list in H1, H2. apply elist_In in H1, H2.
    destruct H1 as [j1 [x1 [k1 [Hn1 [Hk1 He1]]]]]. destruct H2 as [j2 [x2 [k2 [Hn2 [Hk2 He2]]]]].
    assert (Ek : k1 = k2).
    { eapply prefix_same_key; [eapply edges_value_prefix; eauto | eapply edges_value_prefix; eauto | auto]. }
    subst k2.
    assert (Ej : j1 = j2).
    { apply (proj1 (NoDup_nth_error (lkeys metaf 0 0 l)) (lkeys_nodup l 0%nat 0%nat)); [|congruence].
      apply nth_error_Some. congruence. }
    subst j2. rewrite Hn1 in Hn2. inversion Hn2; subst x2.
    rewrite Forall_forall in IH. simpl in Hok. rewrite forallb_forall in Hok.
    eapply (IH x1 (nth_error_In _ _ Hn1)); eauto. apply Hok. eapply nth_error_In; eauto.
  - rewrite edges_value_dict_m in H1, H2. apply edict_In in H1, H2.
    destruct H1 as [k1 [x1 [Hn1 He1]]]. destruct H2 as [k2 [x2 [Hn2 He2]]].
    assert (Ek : k1 = k2).
    { eapply prefix_same_key; [eapply edges_value_prefix; eauto | eapply edges_value_prefix; eauto | auto]. }
    subst k2. simpl in Hok. apply andb_true_iff in Hok. destruct Hok as [Hnd Hall].
    apply nodup_keys_spec in Hnd.
    assert (Ex : x1 = x2) by (eapply NoDup_fst_unique; eauto). subst x2.
    rewrite Forall_forall in IH. rewrite forallb_forall in Hall.
    eapply (IH (k1, x1) Hn1); eauto.
Qed.

(* ---- the edges of a node ------------------------------------------------------------ *)
Lemma mapi_from_In {A B} (f : nat -> A -> B) : forall l i y,
  In y (mapi_from f i l) <-> exists j x, nth_error l j = Some x /\ y = f (i + j) x.
Proof.
  induction l as [|x l IH]; intros i y; simpl.
  - split; [tauto|]. intros [j [z [H _]]]. destruct j; discriminate.
  - rewrite IH. split.
    + intros [<-|[j [z [Hn ->]]]].
      * exists 0, x. rewrite Nat.add_0_r. auto.
      * exists (S j), z. rewrite Nat.add_succ_r. auto.
    + intros [[|j] [z [Hn ->]]].
      * inversion Hn; subst. rewrite Nat.add_0_r. auto.
      * right. exists j, z. rewrite Nat.add_succ_r. auto.
Qed.

Inductive edge_kind (n : nat) (nd : node) (e : edge) : Prop :=
| EK_field : forall kv c, In kv (fields nd) -> In e (edges_value_m metaf [fst kv] (snd kv)) ->
                          fst e = fst kv :: c -> edge_kind n nd e
| EK_pre : forall j t, nth_error (pre nd) j = Some t -> e = ([k_pre; dec j], t) -> edge_kind n nd e
| EK_init : forall j t, nth_error (init nd) j = Some t -> e = ([k_init; dec j], t) -> edge_kind n nd e
| EK_task : forall t, task nd = Some t -> t <> n -> e = ([], t) -> edge_kind n nd e.

Lemma node_edges_kind n nd e : In e (seal_edges_m metaf n nd) -> edge_kind n nd e.
Proof.
  unfold seal_edges_m. rewrite !in_app_iff. intros [H|[H|[H|H]]].
  - apply in_flat_map in H. destruct H as [kv [Hkv He]].
    destruct (edges_value_prefix _ _ _ He) as [c Hc]. eapply EK_field; eauto.
  - unfold edges_tasks in H. apply mapi_from_In in H. destruct H as [j [t [Hn ->]]]. eapply EK_pre; eauto.
  - unfold edges_tasks in H. apply mapi_from_In in H. destruct H as [j [t [Hn ->]]]. eapply EK_init; eauto.
  - destruct (task nd) as [t|] eqn:Et; [|destruct H].
    destruct (Nat.eqb t n) eqn:En; [destruct H|]. destruct H as [<-|[]].
    apply Nat.eqb_neq in En. eapply EK_task; eauto.
Qed.

Lemma prefix_cons {A} (a b : A) l1 l2 : prefix (a :: l1) (b :: l2) -> a = b /\ prefix l1 l2.
Proof. intros [c E]. inversion E; subst. split; auto. exists c; auto. Qed.

Lemma k_pre_init : k_pre <> k_init. Proof. discriminate. Qed.

Theorem names_wf_unamb_m h : names_wf h -> task_targets_cut h -> all_unamb (seal_edges_m metaf) h.
Proof.
  intros W T n e1 e2 H1 H2 X1 X2.
  unfold out_edges in H1, H2. destruct (nth_error h n) as [nd|] eqn:En; [|destruct H1].
  destruct (W n nd En) as [Nd [Npre [Ninit Hdict]]].
  apply node_edges_kind in H1, H2.
  assert (NT : forall (e : edge) t, task nd = Some t -> t <> n -> e = (([] : list str), t) -> expanded h (cut_sealed h) (snd e) -> False).
  { intros e t Et Hne -> Hx. exact (T n nd t En Et Hne Hx). }
  split.
  - destruct H1 as [kv c _ _ Hc | j t _ -> | j t _ -> | t Et Hne He]; try (rewrite Hc); try discriminate.
    exfalso; eauto.
  - intros Hp.
    destruct H1 as [kv1 c1 Hkv1 He1 Hc1 | j1 t1 Hn1 E1 | j1 t1 Hn1 E1 | t1 Et1 Hne1 E1];
      [| | |exfalso; eauto];
    (destruct H2 as [kv2 c2 Hkv2 He2 Hc2 | j2 t2 Hn2 E2 | j2 t2 Hn2 E2 | t2 Et2 Hne2 E2];
      [| | |exfalso; eauto]); subst; simpl in *.
    + (* field / field *)
      assert (Hp' := Hp). rewrite Hc1, Hc2 in Hp'. apply prefix_cons in Hp'. destruct Hp' as [Ek _].
      assert (Ekv : kv1 = kv2).
      { destruct kv1 as [a b1], kv2 as [a' b2]. simpl in Ek. subst a'. f_equal.
        eapply NoDup_fst_unique; eauto. }
      subst kv2. eapply edges_value_unamb; eauto.
    + rewrite Hc1 in Hp. apply prefix_cons in Hp. destruct Hp as [Ek _].
      exfalso. apply Npre. rewrite <- Ek. apply in_map; auto.
    + rewrite Hc1 in Hp. apply prefix_cons in Hp. destruct Hp as [Ek _].
      exfalso. apply Ninit. rewrite <- Ek. apply in_map; auto.
    + rewrite Hc2 in Hp. apply prefix_cons in Hp. destruct Hp as [Ek _].
      exfalso. apply Npre. rewrite Ek. apply in_map; auto.
    + apply prefix_cons in Hp. destruct Hp as [_ Hp]. apply prefix_cons in Hp. destruct Hp as [Ej _].
      apply dec_inj in Ej. subst j2. congruence.
    + apply prefix_cons in Hp. destruct Hp as [Ek _]. exfalso. apply k_pre_init; auto.
    + rewrite Hc2 in Hp. apply prefix_cons in Hp. destruct Hp as [Ek _].
      exfalso. apply Ninit. rewrite Ek. apply in_map; auto.
    + apply prefix_cons in Hp. destruct Hp as [Ek _]. exfalso. apply k_pre_init; auto.
    + apply prefix_cons in Hp. destruct Hp as [_ Hp]. apply prefix_cons in Hp. destruct Hp as [Ej _].
      apply dec_inj in Ej. subst j2. congruence.
Qed.


End EdgesM.

(* every element counts (the code before fixes/C17-4.diff) *)
Theorem names_wf_unamb h : names_wf h -> task_targets_cut h -> all_unamb seal_edges h.
Proof. exact (names_wf_unamb_m no_meta h). Qed.
Lemma edges_value_dict rel l : edges_value_s rel (VDict l) = concat (map snd (sort_keys (groups no_meta rel l))).
Proof. exact (edges_value_dict_m no_meta rel l). Qed.

(* decidable forms *)
Lemma names_wfb_sound h : names_wfb h = true -> names_wf h.
Proof.
  unfold names_wfb. rewrite forallb_forall. intros H n nd En.
  specialize (H nd (nth_error_In _ _ En)). unfold node_names_okb in H.
  rewrite !andb_true_iff, !negb_true_iff in H. destruct H as [[[A B] C] D].
  assert (G : forall k l, existsb (str_eqb k) l = false -> ~ In k l).
  { intros k l E Hin. assert (X : existsb (str_eqb k) l = true).
    { apply existsb_exists. exists k. split; auto. apply str_eqb_eq; auto. } congruence. }
  split; [apply nodup_keys_spec; auto|]. split; [apply G; auto|]. split; [apply G; auto|].
  rewrite forallb_forall in D. auto.
Qed.

Lemma task_targets_cutb_sound h : task_targets_cutb h = true -> task_targets_cut h.
Proof.
  unfold task_targets_cutb, task_targets_cut. rewrite forallb_forall. intros H n nd t En Et Hne Hx.
  assert (Hn : n < length h) by (apply nth_error_range; congruence).
  specialize (H n ltac:(apply in_seq; lia)). rewrite En, Et in H.
  apply orb_true_iff in H. destruct H as [H|H].
  - apply Nat.eqb_eq in H. auto.
  - apply negb_true_iff in H. apply expandedb_spec in Hx. congruence.
Qed.

Theorem distinct_wf : forall h gens root jd l e1 e2,
  names_wf h -> task_targets_cut h -> files_ok gens ->
  generated esc_fix seal_edges h gens root jd = Some l -> In e1 l -> In e2 l ->
  (g_node e1, g_file e1) <> (g_node e2, g_file e2) -> g_path e1 <> g_path e2.
Proof. intros h gens root jd l e1 e2 W T. apply distinct_fix. apply names_wf_unamb; auto. Qed.

Example ex_names_wf : names_wf ex_heap /\ task_targets_cut ex_heap.
Proof. split; [apply names_wfb_sound | apply task_targets_cutb_sound]; vm_compute; reflexivity. Qed.

(* ---- the key order is a total order: sorting is canonical ----------------------------- *)
Lemma str_leb_total : forall a b, str_leb a b = false -> str_leb b a = true.
Proof.
  induction a as [|x a IH]; destruct b as [|y b]; simpl; try discriminate; auto.
  destruct (N.ltb_spec x y); [discriminate|]. destruct (N.ltb_spec y x); auto.
Qed.

Lemma str_leb_antisym : forall a b, str_leb a b = true -> str_leb b a = true -> a = b.
Proof.
  induction a as [|x a IH]; destruct b as [|y b]; simpl; try discriminate; auto.
  destruct (N.ltb_spec x y); destruct (N.ltb_spec y x); try discriminate; try lia.
  intros H1 H2. assert (x = y) by lia. subst. f_equal. auto.
Qed.

Lemma str_leb_trans : forall a b c, str_leb a b = true -> str_leb b c = true -> str_leb a c = true.
Proof.
  induction a as [|x a IH]; destruct b as [|y b]; destruct c as [|z c]; simpl; try discriminate; auto.
  destruct (N.ltb_spec x y); destruct (N.ltb_spec y x); destruct (N.ltb_spec y z); destruct (N.ltb_spec z y);
    destruct (N.ltb_spec x z); destruct (N.ltb_spec z x); try discriminate; try lia; auto.
  apply IH.
Qed.

Lemma insert_key_comm {A} (a b : str * A) : fst a <> fst b ->
  forall l, insert_key a (insert_key b l) = insert_key b (insert_key a l).
Proof.
  intros Hne. induction l as [|c l IH]; simpl.
  - destruct (str_leb (fst a) (fst b)) eqn:Eab; destruct (str_leb (fst b) (fst a)) eqn:Eba; auto.
    + exfalso. apply Hne. apply str_leb_antisym; auto.
    + apply str_leb_total in Eab. congruence.
  - destruct (str_leb (fst b) (fst c)) eqn:Ebc; destruct (str_leb (fst a) (fst c)) eqn:Eac; simpl;
      rewrite ?Ebc, ?Eac;
      destruct (str_leb (fst a) (fst b)) eqn:Eab; destruct (str_leb (fst b) (fst a)) eqn:Eba; simpl;
      rewrite ?Ebc, ?Eac; auto;
      try (exfalso; apply Hne; apply str_leb_antisym; auto; fail);
      try (apply str_leb_total in Eab; congruence).
    + rewrite (str_leb_trans _ _ _ Eab Ebc) in Eac. discriminate.
    + rewrite (str_leb_trans _ _ _ Eba Eac) in Ebc. discriminate.
    + f_equal. apply IH.
Qed.

Lemma sort_keys_perm {A} : forall (l l' : list (str * A)),
  Permutation l l' -> NoDup (map fst l) -> sort_keys l = sort_keys l'.
Proof.
  induction 1 as [|x l l' Hp IH|x y l|l l' l'' H1 IH1 H2 IH2]; intros Nd; simpl; auto.
  - inversion Nd; subst. f_equal. auto.
  - apply insert_key_comm. inversion Nd; subst. simpl in H1. intros E. apply H1. left. auto.
  - rewrite IH1; auto. apply IH2.
    eapply Permutation_NoDup; [apply Permutation_map; exact H1 | exact Nd].
Qed.

(* the entries of a dict may be inserted in any order *)
Theorem dict_order_irrelevant : forall rel l l',
  Permutation l l' -> NoDup (map fst l) ->
  edges_value_s rel (VDict l) = edges_value_s rel (VDict l').
Proof.
  intros rel l l' Hp Nd. rewrite !edges_value_dict. do 2 f_equal.
  apply sort_keys_perm.
  - unfold groups. apply Permutation_map. auto.
  - unfold groups. rewrite map_map. simpl. auto.
Qed.

(* ---- the generated values depend on the graph only through the Sealer's edges, the classes
   and the sealed flags ------------------------------------------------------------------ *)
Lemma fold_opt_ext_eq {A S} (f g : A -> S -> option S) l :
  (forall x s, f x s = g x s) -> forall s, fold_opt f l s = fold_opt g l s.
Proof.
  intros H. induction l as [|x l IH]; intros s; simpl; auto.
  rewrite H. destruct (g x s); auto.
Qed.

Definition heap_sim (SE : nat -> node -> list edge) (h h' : heap) : Prop :=
  length h = length h' /\
  forall n nd, nth_error h n = Some nd ->
    exists nd', nth_error h' n = Some nd' /\ SE n nd = SE n nd' /\ cls nd = cls nd' /\ sealed nd = sealed nd'.

Lemma sim_none SE h h' n : heap_sim SE h h' -> nth_error h n = None -> nth_error h' n = None.
Proof. intros [L _] H. apply nth_error_None. apply nth_error_None in H. lia. Qed.

Lemma visit_sim SE h h' : heap_sim SE h h' -> forall fuel pos n st,
  visit h SE (cut_sealed h) fuel pos n st = visit h' SE (cut_sealed h') fuel pos n st.
Proof.
  intros Sim. induction fuel as [|f IH]; intros pos n st; simpl; auto.
  destruct (nth_error h n) as [nd|] eqn:En.
  - destruct (proj2 Sim n nd En) as [nd' [En' [Ee [_ Es]]]]. rewrite En'.
    destruct (memb n (visited st)); auto.
    unfold cut_sealed. rewrite En, En', Es. destruct (sealed nd'); auto.
    rewrite Ee. rewrite (fold_opt_ext_eq _ (fun e s => visit h' SE (cut_sealed h') f (pos ++ fst e) (snd e) s)); auto.
  - rewrite (sim_none _ _ _ _ Sim En). auto.
Qed.

Theorem generated_sim : forall esc SE h h' gens root jd,
  heap_sim SE h h' -> generated esc SE h gens root jd = generated esc SE h' gens root jd.
Proof.
  intros esc SE h h' gens root jd Sim. unfold generated, walk, fuel_bound.
  rewrite (visit_sim SE h h' Sim), (proj1 Sim).
  destruct (visit h' SE (cut_sealed h') (S (length h')) [] root st0) as [st|]; auto.
  f_equal. apply flat_map_ext. intros [n pos]. unfold entries_of. simpl.
  assert (G : gens_of h gens n = gens_of h' gens n).
  { unfold gens_of. destruct (nth_error h n) as [nd|] eqn:En.
    - destruct (proj2 Sim n nd En) as [nd' [En' [_ [Ec _]]]]. rewrite En', Ec. auto.
    - rewrite (sim_none _ _ _ _ Sim En). auto. }
  rewrite G. auto.
Qed.


(* ---- the same configuration written with two insertion orders -------------------------- *)
(* task 0: d = {"a": 1, "b": 1} / d = {"b": 1, "a": 1}; 1 = a leaf shared under both keys *)
Definition perm_heap1 : heap := [ mk 0 [(s_d, VDict [([97%N], VRef 1); ([98%N], VRef 1)])] []; mk 1 [] [] ].
Definition perm_heap2 : heap := [ mk 0 [(s_d, VDict [([98%N], VRef 1); ([97%N], VRef 1)])] []; mk 1 [] [] ].

Example perm_heaps_sim : heap_sim seal_edges perm_heap1 perm_heap2.
Proof.
  split; [reflexivity|]. intros n nd En.
  destruct n as [|[|n]]; simpl in En; inversion En; subst.
  - eexists. split; [reflexivity|]. repeat split.
  - eexists. split; [reflexivity|]. repeat split.
  - destruct n; discriminate.
Qed.

(* the code before fixes/C17-2.diff (dict entries visited in insertion order): same identifier,
   same job directory, other paths                                                            *)
Theorem dictorder_insertion_refuted :
  exists h h' gens root jd,
    heap_sim seal_edges h h' /\
    generated esc_fix seal_edges_insertion h gens root jd <> generated esc_fix seal_edges_insertion h' gens root jd.
Proof.
  exists perm_heap1, perm_heap2, ex_gens, 0, ex_jd. split; [apply perm_heaps_sim|].
  vm_compute. intros E. inversion E.
Qed.

Example perm_heaps_repaired :
  generated esc_fix seal_edges perm_heap1 ex_gens 0 ex_jd = generated esc_fix seal_edges perm_heap2 ex_gens 0 ex_jd.
Proof. apply generated_sim, perm_heaps_sim. Qed.

(* ---- assignment order of the parameters (.values) vs declaration order (xpmvalues) ------ *)
Lemma assoc_str_In {A} k (v : A) l : NoDup (map fst l) -> In (k, v) l -> assoc_str k l = Some v.
Proof.
  induction l as [|[k' v'] l IH]; simpl; intros N H; [contradiction|].
  inversion N; subst. destruct H as [H|H].
  - inversion H; subst. rewrite (proj2 (str_eqb_eq k k) eq_refl). reflexivity.
  - destruct (str_eqb k k') eqn:E; auto.
    apply str_eqb_eq in E. subst. exfalso. apply H2. apply (in_map fst) in H. exact H.
Qed.

Lemma assoc_str_Some_In {A} k (v : A) l : assoc_str k l = Some v -> In (k, v) l.
Proof.
  induction l as [|[k' v'] l IH]; simpl; intros H; [discriminate|].
  destruct (str_eqb k k') eqn:E.
  - apply str_eqb_eq in E. inversion H; subst. left; reflexivity.
  - right; auto.
Qed.

Lemma assoc_str_perm {A} k (l l' : list (str * A)) :
  Permutation l l' -> NoDup (map fst l) -> assoc_str k l = assoc_str k l'.
Proof.
  intros P N.
  assert (N' : NoDup (map fst l')) by (eapply Permutation_NoDup; [apply Permutation_map; exact P | exact N]).
  destruct (assoc_str k l) as [v|] eqn:E.
  - symmetry. apply assoc_str_In; auto. eapply Permutation_in; eauto. apply assoc_str_Some_In; auto.
  - destruct (assoc_str k l') as [v|] eqn:E'; auto.
    apply assoc_str_Some_In in E'. apply (Permutation_in _ (Permutation_sym P)) in E'.
    rewrite (assoc_str_In k v l N E') in E. discriminate.
Qed.

(* what the walk iterates does not depend on the order in which the parameters were assigned *)
Theorem xpmvalues_perm : forall decl vals vals',
  Permutation vals vals' -> NoDup (map fst vals) -> xpmvalues decl vals = xpmvalues decl vals'.
Proof.
  intros decl vals vals' P N. unfold xpmvalues. apply flat_map_ext. intros a.
  rewrite (assoc_str_perm a vals vals' P N). reflexivity.
Qed.

Lemma by_decl_reassigned decls nd nd' : node_reassigned nd nd' -> by_decl decls nd = by_decl decls nd'.
Proof.
  intros [C [P [N [Pr [I [T S]]]]]]. unfold by_decl. rewrite <- C, <- Pr, <- I, <- T, <- S.
  rewrite (xpmvalues_perm _ _ _ P N). reflexivity.
Qed.

Lemma Forall2_len {A B} (R : A -> B -> Prop) l l' : Forall2 R l l' -> length l = length l'.
Proof. induction 1; simpl; auto. Qed.

Lemma Forall2_nth {A B} (R : A -> B -> Prop) l l' : Forall2 R l l' ->
  forall n x, nth_error l n = Some x -> exists x', nth_error l' n = Some x' /\ R x x'.
Proof.
  induction 1 as [|a b l l' Hab H IH]; intros n x En.
  - destruct n; discriminate.
  - destruct n as [|n]; simpl in *.
    + inversion En; subst. eauto.
    + apply IH; auto.
Qed.

Lemma reassigned_sim decls h h' : heap_reassigned h h' -> heap_sim (seal_edges_decl decls) h h'.
Proof.
  intros R. split; [eapply Forall2_len; eauto|].
  intros n nd En. destruct (Forall2_nth _ _ _ R n nd En) as [nd' [En' Hn]].
  exists nd'. split; auto. unfold seal_edges_decl.
  rewrite (by_decl_reassigned decls _ _ Hn). destruct Hn as [C [_ [_ [_ [_ [_ S]]]]]]. auto.
Qed.

(* same configuration, parameters assigned in another order: same generated values *)
Theorem assignment_order_irrelevant : forall esc decls h h' gens root jd,
  heap_reassigned h h' ->
  generated esc (seal_edges_decl decls) h gens root jd = generated esc (seal_edges_decl decls) h' gens root jd.
Proof. intros. apply generated_sim, reassigned_sim; auto. Qed.

(* the walk over a heap in assignment order = the walk of the theorems above over the heap put in
   declaration order                                                                          *)
Lemma visit_map2 (g : node -> node) (E E' : nat -> node -> list edge) cut cut' h :
  (forall n nd, E n (g nd) = E' n nd) -> (forall n, cut n = cut' n) ->
  forall fuel pos n st, visit (map g h) E cut fuel pos n st = visit h E' cut' fuel pos n st.
Proof.
  intros HE HC. induction fuel as [|f IH]; intros pos n st; simpl; auto.
  rewrite nth_error_map. destruct (nth_error h n) as [nd|]; simpl; auto.
  destruct (memb n (visited st)); auto. rewrite HC. destruct (cut' n); auto.
  rewrite HE.
  rewrite (fold_opt_ext_eq _ (fun e s => visit h E' cut' f (pos ++ fst e) (snd e) s)); auto.
Qed.

Lemma cut_sealed_by_decl decls h n : cut_sealed (map (by_decl decls) h) n = cut_sealed h n.
Proof. unfold cut_sealed. rewrite nth_error_map. destruct (nth_error h n); reflexivity. Qed.

Theorem generated_by_decl : forall esc decls h gens root jd,
  generated esc (seal_edges_decl decls) h gens root jd
  = generated esc seal_edges (map (by_decl decls) h) gens root jd.
Proof.
  intros esc decls h gens root jd. unfold generated, walk, fuel_bound. rewrite map_length.
  rewrite (visit_map2 (by_decl decls) seal_edges (seal_edges_decl decls)
             (cut_sealed (map (by_decl decls) h)) (cut_sealed h) h
             (fun n nd => eq_refl) (cut_sealed_by_decl decls h)).
  destruct (visit h (seal_edges_decl decls) (cut_sealed h) (S (length h)) [] root st0) as [st|]; auto.
  f_equal. apply flat_map_ext. intros [n pos]. unfold entries_of, gens_of. simpl.
  rewrite nth_error_map. destruct (nth_error h n); reflexivity.
Qed.

(* hence inside the job directory and distinct, for configurations assigned in any order *)
Theorem assigned_inside_distinct : forall decls h gens root jd l,
  names_wf (map (by_decl decls) h) -> task_targets_cut (map (by_decl decls) h) -> files_ok gens ->
  generated esc_fix (seal_edges_decl decls) h gens root jd = Some l ->
  (forall e, In e l ->
     exists comps, comps <> [] /\ Forall (fun c => plain c = true) comps /\
       g_path e = {| p_root := p_root jd; p_parts := p_parts jd ++ comps |}) /\
  (forall e1 e2, In e1 l -> In e2 l ->
     (g_node e1, g_file e1) <> (g_node e2, g_file e2) -> g_path e1 <> g_path e2).
Proof.
  intros decls h gens root jd l W T F G. rewrite generated_by_decl in G. split.
  - intros e He. eapply inside_jobdir_fix; eauto.
  - intros e1 e2 H1 H2. eapply distinct_wf; eauto.
Qed.

(* a walk iterating .values.items() (assignment order): Main(c=s, c2=s) and Main(c2=s, c=s) - one
   configuration, one identifier, one job directory - give s two different paths               *)
Definition s_c2 : str := [99%N; 50%N].         (* "c2" *)
Definition asg_decls : list (list str) := [[s_c; s_c2; s_p]; [s_p]].
Definition asg_heap1 : heap := [ mk 0 [(s_c, VRef 1); (s_c2, VRef 1)] []; mk 1 [] [] ].
Definition asg_heap2 : heap := [ mk 0 [(s_c2, VRef 1); (s_c, VRef 1)] []; mk 1 [] [] ].

Example asg_heaps_reassigned : heap_reassigned asg_heap1 asg_heap2.
Proof.
  constructor; [|constructor; [|constructor]].
  - repeat split. + apply perm_swap. + simpl. constructor; [intros [H|[]]; discriminate|]. constructor; [intros []|constructor].
  - repeat split. + apply Permutation_refl. + constructor.
Qed.

Theorem assignment_order_refuted :
  exists h h' gens root jd,
    heap_reassigned h h' /\
    generated esc_fix seal_edges_assigned h gens root jd <> generated esc_fix seal_edges_assigned h' gens root jd.
Proof.
  exists asg_heap1, asg_heap2, ex_gens, 0, ex_jd. split; [apply asg_heaps_reassigned|].
  vm_compute. intros E. inversion E.
Qed.

Example asg_heaps_repaired :
  generated esc_fix (seal_edges_decl asg_decls) asg_heap1 ex_gens 0 ex_jd
  = generated esc_fix (seal_edges_decl asg_decls) asg_heap2 ex_gens 0 ex_jd
  /\ exists l, generated esc_fix (seal_edges_decl asg_decls) asg_heap2 ex_gens 0 ex_jd = Some l /\ length l = 2%nat.
Proof.
  split; [apply assignment_order_irrelevant, asg_heaps_reassigned|].
  eexists. split; [vm_compute; reflexivity|reflexivity].
Qed.

Example asg_hyps : names_wf (map (by_decl asg_decls) asg_heap2) /\ task_targets_cut (map (by_decl asg_decls) asg_heap2).
Proof. split; [apply names_wfb_sound | apply task_targets_cutb_sound]; vm_compute; reflexivity. Qed.

(* ---- order of the pre-tasks ------------------------------------------------------------- *)
Lemma sort_keys_perm' {A} : forall (l l' : list (str * A)),
  Permutation l l' -> (forall a b, In a l -> In b l -> fst a = fst b -> a = b) -> sort_keys l = sort_keys l'.
Proof.
  induction 1 as [|x l l' Hp IH|x y l|l l' l'' H1 IH1 H2 IH2]; intros K; simpl; auto.
  - f_equal. apply IH. intros a b Ha Hb. apply K; right; auto.
  - destruct (list_eq_dec N.eq_dec (fst x) (fst y)) as [E|E].
    + assert (x = y) by (apply K; simpl; auto). subst. reflexivity.
    + apply insert_key_comm. auto.
  - rewrite IH1; auto. apply IH2. intros a b Ha Hb.
    apply K; [apply (Permutation_in a (Permutation_sym H1) Ha) | apply (Permutation_in b (Permutation_sym H1) Hb)].
Qed.

Theorem sort_pre_perm : forall idk l l',
  Permutation l l' -> (forall a b, In a l -> In b l -> idk a = idk b -> a = b) -> sort_pre idk l = sort_pre idk l'.
Proof.
  intros idk l l' P K. unfold sort_pre. f_equal. apply sort_keys_perm'.
  - apply Permutation_map. exact P.
  - intros a b Ha Hb E. apply in_map_iff in Ha. apply in_map_iff in Hb.
    destruct Ha as [x [<- Hx]]. destruct Hb as [y [<- Hy]]. simpl in E. rewrite (K x y Hx Hy E). reflexivity.
Qed.

Lemma norm_node_repre decls idk nd nd' : node_repre nd nd' ->
  (forall a b, In a (pre nd) -> In b (pre nd) -> idk a = idk b -> a = b) ->
  norm_node decls idk nd = norm_node decls idk nd'.
Proof.
  intros [C [Fd [P [I [T S]]]]] K. unfold norm_node, by_pre, by_decl. simpl.
  rewrite <- C, <- Fd, <- I, <- T, <- S. rewrite (sort_pre_perm idk _ _ P K). reflexivity.
Qed.

Lemma repre_sim decls idk h h' : heap_repre h h' -> pre_ids_distinct idk h ->
  heap_sim (seal_edges_sorted decls idk) h h'.
Proof.
  intros R K. split; [eapply Forall2_len; eauto|].
  intros n nd En. destruct (Forall2_nth _ _ _ R n nd En) as [nd' [En' Hn]].
  exists nd'. split; auto. unfold seal_edges_sorted.
  rewrite (norm_node_repre decls idk _ _ Hn (K nd (nth_error_In _ _ En))).
  destruct Hn as [C [_ [_ [_ [_ S]]]]]. auto.
Qed.

(* same configuration, pre-tasks added in another order: same generated values *)
Theorem pretask_order_irrelevant : forall esc decls idk h h' gens root jd,
  heap_repre h h' -> pre_ids_distinct idk h ->
  generated esc (seal_edges_sorted decls idk) h gens root jd
  = generated esc (seal_edges_sorted decls idk) h' gens root jd.
Proof. intros. apply generated_sim, repre_sim; auto. Qed.

(* ... and parameters assigned in another order *)
Theorem assignment_order_irrelevant_sorted : forall esc decls idk h h' gens root jd,
  heap_reassigned h h' ->
  generated esc (seal_edges_sorted decls idk) h gens root jd
  = generated esc (seal_edges_sorted decls idk) h' gens root jd.
Proof.
  intros esc decls idk h h' gens root jd R. apply generated_sim.
  split; [eapply Forall2_len; eauto|].
  intros n nd En. destruct (Forall2_nth _ _ _ R n nd En) as [nd' [En' Hn]].
  exists nd'. split; auto. unfold seal_edges_sorted, norm_node.
  rewrite (by_decl_reassigned decls _ _ Hn). destruct Hn as [C [_ [_ [_ [_ [_ S]]]]]]. auto.
Qed.

(* the walk of a node map that keeps classes and sealed flags = the plain walk on the mapped heap *)
Lemma generated_map : forall esc SE (g : node -> node) h gens root jd,
  (forall nd, cls (g nd) = cls nd) -> (forall nd, sealed (g nd) = sealed nd) ->
  generated esc (fun n nd => SE n (g nd)) h gens root jd = generated esc SE (map g h) gens root jd.
Proof.
  intros esc SE g h gens root jd Hc Hs. unfold generated, walk, fuel_bound. rewrite map_length.
  assert (Cut : forall n, cut_sealed (map g h) n = cut_sealed h n).
  { intros n. unfold cut_sealed. rewrite nth_error_map. destruct (nth_error h n); simpl; auto. }
  rewrite (visit_map2 g SE (fun n nd => SE n (g nd)) (cut_sealed (map g h)) (cut_sealed h) h
             (fun n nd => eq_refl) Cut).
  destruct (visit h (fun n nd => SE n (g nd)) (cut_sealed h) (S (length h)) [] root st0) as [st|]; auto.
  f_equal. apply flat_map_ext. intros [n pos]. unfold entries_of, gens_of. simpl.
  rewrite nth_error_map. destruct (nth_error h n); simpl; auto. rewrite Hc. reflexivity.
Qed.

Theorem generated_sorted_norm : forall esc decls idk h gens root jd,
  generated esc (seal_edges_sorted decls idk) h gens root jd
  = generated esc seal_edges (map (norm_node decls idk) h) gens root jd.
Proof. intros. apply (generated_map esc seal_edges (norm_node decls idk)); reflexivity. Qed.

Theorem sorted_inside_distinct : forall decls idk h gens root jd l,
  names_wf (map (norm_node decls idk) h) -> task_targets_cut (map (norm_node decls idk) h) -> files_ok gens ->
  generated esc_fix (seal_edges_sorted decls idk) h gens root jd = Some l ->
  (forall e, In e l ->
     exists comps, comps <> [] /\ Forall (fun c => plain c = true) comps /\
       g_path e = {| p_root := p_root jd; p_parts := p_parts jd ++ comps |}) /\
  (forall e1 e2, In e1 l -> In e2 l ->
     (g_node e1, g_file e1) <> (g_node e2, g_file e2) -> g_path e1 <> g_path e2).
Proof.
  intros decls idk h gens root jd l W T F G. rewrite generated_sorted_norm in G. split.
  - intros e He. eapply inside_jobdir_fix; eauto.
  - intros e1 e2 H1 H2. eapply distinct_wf; eauto.
Qed.

(* the walk in list order (the code before fixes/C17-3.diff): t.add_pretasks(a, b) and
   t.add_pretasks(b, a) - one identifier, one job directory - swap the paths of a and b          *)
Definition pre_gens : list (list (str * str)) := [[]; [(s_p, s_otxt)]].
Definition pre_heap12 : heap := [ mk 0 [] [1%nat; 2%nat]; mk 1 [] []; mk 1 [] [] ].
Definition pre_heap21 : heap := [ mk 0 [] [2%nat; 1%nat]; mk 1 [] []; mk 1 [] [] ].
Definition pre_idk (n : nat) : str := [N.of_nat n].

Example pre_heaps_repre : heap_repre pre_heap12 pre_heap21 /\ pre_ids_distinct pre_idk pre_heap12.
Proof.
  split.
  - constructor; [|constructor; [|constructor; [|constructor]]]; repeat split; auto. apply perm_swap.
  - intros nd Hnd a b Ha Hb E. unfold pre_idk in E. inversion E. apply Nat2N.inj. auto.
Qed.

Theorem pretask_order_refuted :
  exists h h' gens root jd,
    heap_repre h h' /\
    generated esc_fix seal_edges h gens root jd <> generated esc_fix seal_edges h' gens root jd /\
    (* the two pre-tasks swap their paths *)
    exists l l' e e', generated esc_fix seal_edges h gens root jd = Some l /\
      generated esc_fix seal_edges h' gens root jd = Some l' /\ In e l /\ In e' l' /\
      g_node e <> g_node e' /\ g_path e = g_path e'.
Proof.
  exists pre_heap12, pre_heap21, pre_gens, 0%nat, ex_jd. split; [apply pre_heaps_repre|].
  split; [vm_compute; intros E; inversion E|].
  eexists. eexists. eexists. eexists. split; [vm_compute; reflexivity|]. split; [vm_compute; reflexivity|].
  split; [left; reflexivity|]. split; [left; reflexivity|]. split; [simpl; discriminate | reflexivity].
Qed.

Example pre_heaps_repaired :
  generated esc_fix (seal_edges_sorted asg_decls pre_idk) pre_heap12 pre_gens 0 ex_jd
  = generated esc_fix (seal_edges_sorted asg_decls pre_idk) pre_heap21 pre_gens 0 ex_jd
  /\ exists l, generated esc_fix (seal_edges_sorted asg_decls pre_idk) pre_heap21 pre_gens 0 ex_jd = Some l
               /\ length l = 2%nat.
Proof.
  split; [apply pretask_order_irrelevant; apply pre_heaps_repre|].
  eexists. split; [vm_compute; reflexivity|reflexivity].
Qed.

(* ---- non-overlapping paths --------------------------------------------------------------- *)
Section PrefixFree.
  Variable esc : str -> str.
  Variable SE : nat -> node -> list edge.
  Variable h : heap.
  Variable gens : list (list (str * str)).

  Notation cut := (cut_sealed h).
  Notation expanded := (expanded h cut).
  Notation out_edges := (out_edges h SE).
  Notation path := (path h SE cut).

  (* a root path that continues the root path of c1 leaves c1 by an edge whose first key is the next key *)
  Lemma path_split : all_unamb SE h ->
    forall a p1 c1, path a p1 c1 -> forall k rest c2, path a (p1 ++ k :: rest) c2 ->
    exists r b, In (k :: r, b) (out_edges c1) /\ expanded b.
  Proof.
    intros U a p1 c1 H1. induction H1 as [a Ha | a rel b p c Ha Hin Hp IH]; intros k rest c2 H2.
    - simpl in H2. apply path_inv in H2.
      destruct H2 as [[E _]|[rel [b [p' [E [_ [Hin Hp]]]]]]]; [discriminate|].
      assert (Hb := path_start _ _ _ _ _ _ Hp).
      destruct (U a (rel, b) (rel, b) Hin Hin Hb Hb) as [Hne _]. simpl in Hne.
      destruct rel as [|k' r]; [exfalso; apply Hne; auto|].
      simpl in E. inversion E; subst. exists r, b. auto.
    - assert (Hb := path_start _ _ _ _ _ _ Hp).
      apply path_inv in H2. destruct H2 as [[E _]|[rel0 [b0 [p0 [E [_ [Hin0 Hp0]]]]]]].
      + exfalso. rewrite <- List.app_assoc in E. apply app_eq_nil in E. destruct E as [_ E].
        apply app_eq_nil in E. destruct E as [_ E]. discriminate.
      + assert (Hb0 := path_start _ _ _ _ _ _ Hp0).
        rewrite <- List.app_assoc in E.
        assert (Ee : (rel, b) = (rel0, b0)).
        { destruct (app_eq_prefix _ _ _ _ E) as [Hpre|Hpre].
          - apply (U a (rel, b) (rel0, b0)); auto.
          - symmetry. apply (U a (rel0, b0) (rel, b)); auto. }
        inversion Ee; subst. apply app_inv_head in E. subst. eapply IH; eauto.
  Qed.

  Lemma path_nil_root : all_unamb SE h -> forall a c, path a [] c -> a = c.
  Proof.
    intros U a c H. apply path_inv in H. destruct H as [[_ [E _]]|[rel [b [p' [E [_ [Hin Hp]]]]]]]; auto.
    symmetry in E. apply app_eq_nil in E. destruct E as [-> ->].
    assert (Hb := path_start _ _ _ _ _ _ Hp).
    destruct (U a ([], b) ([], b) Hin Hin Hb Hb) as [Hne _]. exfalso; apply Hne; auto.
  Qed.

  Lemma esc_prefix_split : (forall a b, esc a = esc b -> a = b) ->
    forall pos1 pos2 f1 f2 x rest,
    map esc pos2 ++ [f2] = (map esc pos1 ++ [f1]) ++ x :: rest ->
    exists k rest', pos2 = pos1 ++ k :: rest' /\ esc k = f1.
  Proof.
    intros Hinj. induction pos1 as [|a p IH]; intros pos2 f1 f2 x rest E.
    - destruct pos2 as [|k q]; simpl in E; [inversion E|]. inversion E; subst. exists k, q. auto.
    - destruct pos2 as [|b q]; simpl in E.
      + inversion E as [[E1 E2]]. destruct (map esc p); discriminate.
      + inversion E as [[E1 E2]]. apply Hinj in E1. subst b.
        destruct (IH q f1 f2 x rest E2) as [k [rest' [-> Ek]]]. exists k, rest'. auto.
  Qed.

  Theorem prefix_free : all_unamb SE h -> (forall a b, esc a = esc b -> a = b) ->
    keys_ok esc SE h -> files_ok gens ->
    no_file_key_clash esc SE h gens ->
    forall root, root_files_not_out h gens root ->
    forall jd l e1 e2, generated esc SE h gens root jd = Some l -> In e1 l -> In e2 l ->
    ~ proper_prefix (g_path e1) (g_path e2).
  Proof.
    intros U Hinj K F NC root NR jd l e1 e2 El H1 H2 [_ [x [rest Hp]]].
    destruct (generated_inv _ _ _ _ _ _ _ _ El H1) as [evs [pos1 [af1 [Ew [Hev1 [Haf1 [_ [Hf1 Hp1]]]]]]]].
    destruct (generated_inv _ _ _ _ _ _ _ _ El H2) as [evs2 [pos2 [af2 [Ew2 [Hev2 [Haf2 [_ [Hf2 Hp2]]]]]]]].
    rewrite Ew in Ew2. inversion Ew2; subst evs2. clear Ew2.
    destruct (walk_correct h SE cut root) as [evs' [Ew' [Hnd [_ Hpath]]]].
    rewrite Ew in Ew'. inversion Ew'; subst evs'. clear Ew'.
    assert (P1 := Hpath _ _ Hev1). assert (P2 := Hpath _ _ Hev2).
    rewrite Hp1, Hp2 in Hp.
    rewrite !gen_value_plain in Hp;
      try (eapply path_keys; eauto); try (eapply gens_of_files; eauto).
    simpl in Hp. rewrite <- List.app_assoc in Hp. apply app_inv_head in Hp.
    unfold rel_comps in Hp.
    destruct pos1 as [|k1 p1]; destruct pos2 as [|k2 p2]; simpl in Hp.
    - inversion Hp.
    - inversion Hp as [[E1 E2]]. apply (path_nil_root U) in P1. subst root.
      apply (NR af1 Haf1). auto.
    - inversion Hp.
    - assert (E2 : map esc (k2 :: p2) ++ [snd af2] = (map esc (k1 :: p1) ++ [snd af1]) ++ x :: rest).
      { simpl. inversion Hp. reflexivity. }
      destruct (esc_prefix_split Hinj _ _ _ _ _ _ E2) as [k [rest' [Epos Ek]]].
      rewrite Epos in P2.
      destruct (path_split U _ _ _ P1 _ _ _ P2) as [r [b [Hin Hb]]].
      exact (NC _ _ _ _ _ (path_end _ _ _ _ _ _ P1) Hin Hb Haf1 Ek).
  Qed.

  Lemma no_file_key_clashb_sound : no_file_key_clashb esc SE h gens = true -> no_file_key_clash esc SE h gens.
  Proof.
    unfold no_file_key_clashb. rewrite forallb_forall. intros H n k r b af Hx Hin Hb Haf.
    assert (Hn := out_edges_range SE h _ _ Hin).
    assert (G := H n ltac:(apply in_seq; lia)).
    apply expandedb_spec in Hx. rewrite Hx in G. rewrite forallb_forall in G.
    specialize (G _ Hin). simpl in G. apply expandedb_spec in Hb. rewrite Hb in G.
    rewrite forallb_forall in G. specialize (G _ Haf). apply negb_true_iff in G.
    intros E. apply str_eqb_eq in E. congruence.
  Qed.

  Lemma root_files_not_outb_sound root : root_files_not_outb h gens root = true -> root_files_not_out h gens root.
  Proof.
    unfold root_files_not_outb. rewrite forallb_forall. intros H af Haf E.
    specialize (H af Haf). apply negb_true_iff in H. apply str_eqb_eq in E. congruence.
  Qed.
End PrefixFree.

(* packaged for the repaired code *)
Theorem prefix_free_wf : forall h gens root jd l e1 e2,
  names_wf h -> task_targets_cut h -> files_ok gens ->
  no_file_key_clash esc_fix seal_edges h gens -> root_files_not_out h gens root ->
  generated esc_fix seal_edges h gens root jd = Some l -> In e1 l -> In e2 l ->
  ~ proper_prefix (g_path e1) (g_path e2).
Proof.
  intros h gens root jd l e1 e2 W T F NC NR. apply prefix_free; auto.
  - apply names_wf_unamb; auto. - apply esc_fix_inj. - apply keys_ok_fix.
Qed.

(* without the two hypotheses: every hypothesis of distinct_wf holds and a generated file is the
   folder in which another generated path lies.
     class 0 (task): a: Param[C1], p = pathgenerator("out");  class 1: b: Param[C2], p = pathgenerator("b");
     class 2: p = pathgenerator("c")                                                                   *)
Definition ov_a : str := [97%N].  Definition ov_b : str := [98%N].  Definition ov_c : str := [99%N].
Definition ov_gens : list (list (str * str)) := [[(s_p, k_out)]; [(s_p, ov_b)]; [(s_p, ov_c)]].
Definition ov_heap : heap := [ mk 0 [(ov_a, VRef 1)] []; mk 1 [(ov_b, VRef 2)] []; mk 2 [] [] ].

Theorem prefix_free_refuted : exists h gens root jd l e1 e2 e3,
  names_wf h /\ task_targets_cut h /\ files_ok gens /\
  generated esc_fix seal_edges h gens root jd = Some l /\ In e1 l /\ In e2 l /\ In e3 l /\
  (* <job>/out is a file of the task and the folder of everything below it *)
  proper_prefix (g_path e1) (g_path e2) /\
  (* <job>/out/a/b is a file of configuration 1 and the folder of configuration 2 *)
  proper_prefix (g_path e2) (g_path e3).
Proof.
  exists ov_heap, ov_gens, 0%nat, ex_jd. eexists.
  exists {| g_node := 0; g_arg := s_p; g_file := k_out; g_path := {| p_root := 1; p_parts := [[74%N; 79%N; 66%N]; k_out] |} |}.
  exists {| g_node := 1; g_arg := s_p; g_file := ov_b; g_path := {| p_root := 1; p_parts := [[74%N; 79%N; 66%N]; k_out; ov_a; ov_b] |} |}.
  exists {| g_node := 2; g_arg := s_p; g_file := ov_c; g_path := {| p_root := 1; p_parts := [[74%N; 79%N; 66%N]; k_out; ov_a; ov_b; ov_c] |} |}.
  split; [apply names_wfb_sound; vm_compute; reflexivity|].
  split; [apply task_targets_cutb_sound; vm_compute; reflexivity|].
  split; [apply files_plainb_sound; vm_compute; reflexivity|].
  split; [vm_compute; reflexivity|].
  split; [right; right; left; reflexivity|]. split; [right; left; reflexivity|]. split; [left; reflexivity|].
  split; (split; [reflexivity|]).
  - exists ov_a, [ov_b]. reflexivity.
  - exists ov_c, []. reflexivity.
Qed.

(* the hypotheses of prefix_free_wf are satisfiable: same graph, file names that are no parameter names *)
Definition ov_gens_ok : list (list (str * str)) := [[(s_p, s_otxt)]; [(s_p, s_otxt)]; [(s_p, s_otxt)]].
Example ov_hyps :
  names_wf ov_heap /\ task_targets_cut ov_heap /\ files_ok ov_gens_ok /\
  no_file_key_clash esc_fix seal_edges ov_heap ov_gens_ok /\ root_files_not_out ov_heap ov_gens_ok 0 /\
  exists l, generated esc_fix seal_edges ov_heap ov_gens_ok 0 ex_jd = Some l /\ length l = 3%nat.
Proof.
  split; [apply names_wfb_sound; vm_compute; reflexivity|].
  split; [apply task_targets_cutb_sound; vm_compute; reflexivity|].
  split; [apply files_plainb_sound; vm_compute; reflexivity|].
  split; [apply no_file_key_clashb_sound; vm_compute; reflexivity|].
  split; [apply root_files_not_outb_sound; vm_compute; reflexivity|].
  eexists. split; [vm_compute; reflexivity|reflexivity].
Qed.

(* ---- list elements flagged as meta-parameters ---------------------------------------------- *)
(* without flagged elements the counter of the flagged ones is irrelevant *)
Lemma lkeys_unflagged metaf : forall l i j j',
  forallb (fun x => negb (flagged metaf x)) l = true -> lkeys metaf i j l = lkeys metaf i j' l.
Proof.
  induction l as [|x l IH]; intros i j j' H; simpl in *; auto.
  apply andb_true_iff in H. destruct H as [Hx Hl]. apply negb_true_iff in Hx. rewrite Hx.
  f_equal. apply IH; auto.
Qed.

(* the key of every unflagged element of a list is the key it has in the list without the flagged
   elements (what the identifier sees): dropping or inserting flagged elements moves nothing     *)
Theorem meta_list_elements_irrelevant : forall metaf l,
  let unflagged := fun x => negb (flagged metaf x) in
  map fst (filter (fun kx => unflagged (snd kx)) (combine (lkeys metaf 0 0 l) l))
  = lkeys metaf 0 0 (filter unflagged l)
  /\ lkeys metaf 0 0 (filter unflagged l) = map dec (seq 0 (length (filter unflagged l))).
Proof.
  intros metaf l unflagged.
  assert (G : forall l i j j',
            map fst (filter (fun kx => unflagged (snd kx)) (combine (lkeys metaf i j l) l))
            = lkeys metaf i j' (filter unflagged l)).
  { induction l0 as [|x l0 IH]; intros i j j'; simpl; auto.
    unfold unflagged at 1 3. destruct (flagged metaf x) eqn:Fx; simpl.
    - unfold unflagged at 1. rewrite Fx. simpl. apply IH.
    - unfold unflagged at 1. rewrite Fx. simpl. rewrite Fx. f_equal. apply IH. }
  assert (K : forall l i j, forallb unflagged l = true -> lkeys metaf i j l = map dec (seq i (length l))).
  { induction l0 as [|x l0 IH]; intros i j H; simpl in *; auto.
    apply andb_true_iff in H. destruct H as [Hx Hl]. unfold unflagged in Hx. apply negb_true_iff in Hx.
    rewrite Hx. f_equal. apply IH; auto. }
  split; [apply G|]. apply K. apply forallb_forall. intros x Hx. apply filter_In in Hx. tauto.
Qed.

(* all three repairs: inside the job directory and distinct *)
Theorem full_inside_distinct : forall decls idk metaf h gens root jd l,
  names_wf (map (norm_node decls idk) h) -> task_targets_cut (map (norm_node decls idk) h) -> files_ok gens ->
  generated esc_fix (seal_edges_full decls idk metaf) h gens root jd = Some l ->
  (forall e, In e l ->
     exists comps, comps <> [] /\ Forall (fun c => plain c = true) comps /\
       g_path e = {| p_root := p_root jd; p_parts := p_parts jd ++ comps |}) /\
  (forall e1 e2, In e1 l -> In e2 l ->
     (g_node e1, g_file e1) <> (g_node e2, g_file e2) -> g_path e1 <> g_path e2).
Proof.
  intros decls idk metaf h gens root jd l W T F G.
  unfold seal_edges_full in G.
  rewrite (generated_map esc_fix (seal_edges_m metaf) (norm_node decls idk)) in G by reflexivity.
  split.
  - intros e He. eapply inside_jobdir; eauto. apply keys_ok_fix.
  - intros e1 e2 H1 H2. eapply distinct; eauto.
    + apply names_wf_unamb_m; auto. + apply esc_fix_inj. + apply keys_ok_fix.
Qed.

Theorem pretask_order_irrelevant_full : forall esc decls idk metaf h h' gens root jd,
  heap_repre h h' -> pre_ids_distinct idk h ->
  generated esc (seal_edges_full decls idk metaf) h gens root jd
  = generated esc (seal_edges_full decls idk metaf) h' gens root jd.
Proof.
  intros esc decls idk metaf h h' gens root jd R K. apply generated_sim.
  split; [eapply Forall2_len; eauto|].
  intros n nd En. destruct (Forall2_nth _ _ _ R n nd En) as [nd' [En' Hn]].
  exists nd'. split; auto. unfold seal_edges_full.
  rewrite (norm_node_repre decls idk _ _ Hn (K nd (nth_error_In _ _ En))).
  destruct Hn as [C [_ [_ [_ [_ S]]]]]. auto.
Qed.

Theorem assignment_order_irrelevant_full : forall esc decls idk metaf h h' gens root jd,
  heap_reassigned h h' ->
  generated esc (seal_edges_full decls idk metaf) h gens root jd
  = generated esc (seal_edges_full decls idk metaf) h' gens root jd.
Proof.
  intros esc decls idk metaf h h' gens root jd R. apply generated_sim.
  split; [eapply Forall2_len; eauto|].
  intros n nd En. destruct (Forall2_nth _ _ _ R n nd En) as [nd' [En' Hn]].
  exists nd'. split; auto. unfold seal_edges_full, norm_node.
  rewrite (by_decl_reassigned decls _ _ Hn). destruct Hn as [C [_ [_ [_ [_ [_ S]]]]]]. auto.
Qed.

(* every element counts (the code before fixes/C17-4.diff): L(l=[m, a]) with m flagged and L(l=[a]) - one
   identifier, one job directory - give a two different paths; with the flagged elements numbered apart
   a keeps its path                                                                                 *)
Definition ml_gens : list (list (str * str)) := [[]; [(s_p, s_otxt)]].
Definition ml_heap2 : heap := [ mk 0 [(s_l, VList [VRef 1; VRef 2])] []; mk 1 [] []; mk 1 [] [] ].
Definition ml_heap1 : heap := [ mk 0 [(s_l, VList [VRef 2])] []; mk 1 [] []; mk 1 [] [] ].
Definition ml_metaf (n : nat) : bool := Nat.eqb n 1.
Definition path_of (n : nat) (r : option (list entry)) : option (list ppath) :=
  option_map (fun l => map g_path (filter (fun e => Nat.eqb (g_node e) n) l)) r.

Theorem meta_list_refuted :
  exists metaf h h' gens root jd a,
    (* h' is h without the flagged element of the list; a is not flagged *)
    metaf a = false /\
    path_of a (generated esc_fix seal_edges h gens root jd) <> path_of a (generated esc_fix seal_edges h' gens root jd) /\
    path_of a (generated esc_fix (seal_edges_m metaf) h gens root jd)
    = path_of a (generated esc_fix (seal_edges_m metaf) h' gens root jd).
Proof.
  exists ml_metaf, ml_heap2, ml_heap1, ml_gens, 0%nat, ex_jd, 2%nat.
  split; [reflexivity|]. split; [vm_compute; intros E; inversion E | vm_compute; reflexivity].
Qed.

Example ml_generated :
  option_map (map (fun e => (g_node e, p_parts (g_path e)))) (generated esc_fix (seal_edges_m ml_metaf) ml_heap2 ml_gens 0 ex_jd)
  = Some [ (1%nat, [[74%N; 79%N; 66%N]; k_out; s_l; meta_key 0; s_otxt]);
           (2%nat, [[74%N; 79%N; 66%N]; k_out; s_l; dec 0; s_otxt]) ].
Proof. vm_compute. reflexivity. Qed.

(* ---- what the identifier ignores but the walk follows (open findings) ------------------------ *)
(* a parameter the identifier ignores (Meta[...]) declared before p: T(m=s, p=s) and T(p=s) have one identifier,
   one job directory; the shared s is placed under out/m in one, out/p in the other                       *)
Definition s_m : str := [109%N].
Definition ig_heap1 : heap := [ mk 0 [(s_m, VRef 1); (s_p, VRef 1)] []; mk 1 [] [] ].
Definition ig_heap2 : heap := [ mk 0 [(s_p, VRef 1)] []; mk 1 [] [] ].

Theorem ignored_parameter_refuted :
  exists h h' gens root jd s,
    (* h' is h without the value of the first (ignored) parameter of the root *)
    (exists nd rest kv, h = nd :: rest /\ h' = {| cls := cls nd; fields := tl (fields nd); pre := pre nd; init := init nd;
                                               task := task nd; sealed := sealed nd |} :: rest /\ hd_error (fields nd) = Some kv) /\
    path_of s (generated esc_fix seal_edges h gens root jd) <> path_of s (generated esc_fix seal_edges h' gens root jd).
Proof.
  exists ig_heap1, ig_heap2, ml_gens, 0%nat, ex_jd, 1%nat. split.
  - exists (mk 0 [(s_m, VRef 1); (s_p, VRef 1)] []), [mk 1 [] []], (s_m, VRef 1). repeat split.
  - vm_compute. intros E. inversion E.
Qed.

(* the full identifier hashes the set of the pre-tasks of the whole graph: T(a=A+q, b=B) and T(a=A, b=B+q) have one
   identifier, one job directory; q is placed under out/a/__pre_tasks__/0 in one, out/b/__pre_tasks__/0 in the other *)
Definition s_a : str := [97%N].
Definition s_b : str := [98%N].
Definition at_gens : list (list (str * str)) := [[]; []; [(s_p, s_otxt)]].
Definition at_heap1 : heap := [ mk 0 [(s_a, VRef 1); (s_b, VRef 2)] []; mk 1 [] [3%nat]; mk 1 [] []; mk 2 [] [] ].
Definition at_heap2 : heap := [ mk 0 [(s_a, VRef 1); (s_b, VRef 2)] []; mk 1 [] []; mk 1 [] [3%nat]; mk 2 [] [] ].

Theorem pretask_attachment_refuted :
  exists h h' gens root jd q,
    (* the same configurations, the same set of pre-tasks over the graph, attached to another configuration *)
    map (fun nd => (cls nd, fields nd, init nd, task nd, sealed nd)) h
    = map (fun nd => (cls nd, fields nd, init nd, task nd, sealed nd)) h' /\
    Permutation (flat_map pre h) (flat_map pre h') /\
    path_of q (generated esc_fix seal_edges h gens root jd) <> path_of q (generated esc_fix seal_edges h' gens root jd).
Proof.
  exists at_heap1, at_heap2, at_gens, 0%nat, ex_jd, 3%nat.
  split; [reflexivity|]. split; [apply Permutation_refl|]. vm_compute. intros E. inversion E.
Qed.
