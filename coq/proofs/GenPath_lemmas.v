(* Proofs for C17 (model/GenPath.v). *)
From Coq Require Import List NArith ZArith Bool Arith Lia Decimal DecimalNat DecimalFacts.
From XV Require Import model.Walk model.GenPath proofs.Walk_lemmas.
Import ListNotations.
Open Scope N_scope.

(* ---- decimal indices --------------------------------------------------------- *)
Lemma digits_inj : forall a b, digits a = digits b -> a = b.
Proof.
  induction a; destruct b; simpl; intros E; try discriminate; auto;
    inversion E; f_equal; auto.
Qed.

Lemma dec_inj i j : dec i = dec j -> i = j.
Proof. unfold dec. intros E. apply Unsigned.to_uint_inj, digits_inj; auto. Qed.

Lemma digits_noslash : forall d, existsb (N.eqb 47) (digits d) = false.
Proof. induction d; simpl; auto. Qed.

Lemma digits_nodot : forall d, existsb (N.eqb 46) (digits d) = false.
Proof. induction d; simpl; auto. Qed.

Lemma to_uint_nonnil n : Nat.to_uint n <> Nil.
Proof.
  assert (E : Nat.to_uint n = unorm (Nat.to_uint n)).
  { rewrite <- Unsigned.to_of. rewrite Unsigned.of_to. auto. }
  rewrite E. apply unorm_nonnil.
Qed.

Lemma dec_plain i : plain (dec i) = true.
Proof.
  unfold plain, dec.
  assert (Hn := to_uint_nonnil i). assert (Hs := digits_noslash (Nat.to_uint i)).
  assert (Hd := digits_nodot (Nat.to_uint i)).
  destruct (Nat.to_uint i) as [|d|d|d|d|d|d|d|d|d|d] eqn:E; try congruence; simpl in *;
    rewrite ?Hs; simpl; auto.
Qed.

Lemma k_out_plain : plain k_out = true. Proof. reflexivity. Qed.
Lemma k_pre_plain : plain k_pre = true. Proof. reflexivity. Qed.
Lemma k_init_plain : plain k_init = true. Proof. reflexivity. Qed.

(* ---- pathlib on plain names ---------------------------------------------------- *)
Lemma split_noslash s : existsb (N.eqb 47) s = false -> split s = [s].
Proof.
  induction s as [|c s IH]; cbn [existsb split]; auto.
  intros E. apply orb_false_iff in E. destruct E as [E1 E2].
  rewrite N.eqb_sym in E1. rewrite E1, (IH E2). auto.
Qed.

Lemma plain_inv s : plain s = true ->
  s <> [] /\ existsb (N.eqb 47) s = false /\ str_eqb s [46] = false /\ str_eqb s [46; 46] = false.
Proof.
  unfold plain. rewrite !andb_true_iff, !negb_true_iff. intros [[[A B] C] D].
  repeat split; auto. destruct s; [discriminate | congruence].
Qed.

Lemma parse_plain s : plain s = true -> parse s = {| p_root := 0; p_parts := [s] |}.
Proof.
  intros P. destruct (plain_inv s P) as [Hn [Hs [Hd _]]].
  unfold parse, comps. rewrite (split_noslash s Hs). simpl.
  unfold keep. rewrite Hd. destruct s as [|c s]; [congruence|]. cbn [is_nil negb andb filter].
  cbn [existsb] in Hs. apply orb_false_iff in Hs. destruct Hs as [Hc _]. rewrite N.eqb_sym in Hc.
  unfold root_of. rewrite Hc. auto.
Qed.

Lemma pjoin_rel a l : pjoin a {| p_root := 0; p_parts := l |} = {| p_root := p_root a; p_parts := p_parts a ++ l |}.
Proof. reflexivity. Qed.

Section GenFacts.
  Variable esc : str -> str.

  Lemma fold_push_plain : forall pos acc,
    Forall (fun k => plain (esc k) = true) pos ->
    fold_left (fun p k => pjoin p (parse (esc k))) pos {| p_root := 0; p_parts := acc |}
    = {| p_root := 0; p_parts := acc ++ map esc pos |}.
  Proof.
    induction pos as [|k pos IH]; simpl; intros acc H.
    - rewrite List.app_nil_r; auto.
    - inversion H; subst. rewrite (parse_plain _ H2), pjoin_rel. simpl.
      rewrite IH; auto. rewrite <- List.app_assoc. auto.
  Qed.

  (* the components below the job directory *)
  Definition rel_comps (pos : list str) (file : str) : list str :=
    match pos with [] => [file] | _ => k_out :: map esc pos ++ [file] end.

  Lemma gen_value_plain jd pos file :
    Forall (fun k => plain (esc k) = true) pos -> plain file = true ->
    gen_value esc jd pos file = {| p_root := p_root jd; p_parts := p_parts jd ++ rel_comps pos file |}.
  Proof.
    intros Hk Hf. unfold gen_value, currentpath, configpath, rel_comps.
    rewrite (parse_plain _ Hf).
    destruct pos as [|k pos]; [reflexivity|].
    rewrite (parse_plain _ k_out_plain), fold_push_plain; auto.
    rewrite !pjoin_rel. simpl. rewrite <- List.app_assoc. reflexivity.
  Qed.

  Lemma rel_comps_nonempty pos file : rel_comps pos file <> [].
  Proof. destruct pos; simpl; congruence. Qed.

  Lemma rel_comps_plain pos file :
    Forall (fun k => plain (esc k) = true) pos -> plain file = true ->
    Forall (fun c => plain c = true) (rel_comps pos file).
  Proof.
    intros Hk Hf. unfold rel_comps. destruct pos as [|k pos]; [constructor; auto|].
    constructor; [apply k_out_plain|]. apply Forall_app. split; [|constructor; auto].
    apply Forall_map. auto.
  Qed.

  Lemma rel_comps_inj pos1 f1 pos2 f2 :
    (forall a b, esc a = esc b -> a = b) ->
    rel_comps pos1 f1 = rel_comps pos2 f2 -> pos1 = pos2 /\ f1 = f2.
  Proof.
    intros Hinj. unfold rel_comps.
    destruct pos1 as [|k1 p1]; destruct pos2 as [|k2 p2]; intros E.
    - inversion E; auto.
    - exfalso. inversion E.
    - exfalso. inversion E.
    - assert (E' := f_equal (@tl _) E). simpl in E'. change (esc k1 :: map esc p1 ++ [f1]) with (map esc (k1 :: p1) ++ [f1]) in E'.
      change (esc k2 :: map esc p2 ++ [f2]) with (map esc (k2 :: p2) ++ [f2]) in E'.
      apply app_inj_tail in E'. destruct E' as [Em ->]. split; auto.
      revert Em. generalize (k1 :: p1) (k2 :: p2). intros la.
      induction la as [|x la IH]; intros lb; destruct lb as [|y lb]; simpl; intros Em; try discriminate; auto.
      inversion Em. f_equal; auto.
  Qed.
End GenFacts.

Lemma in_nth_default {A} (l : list (list A)) i x : In x (nth i l []) -> exists c, In c l /\ In x c.
Proof.
  intros H. destruct (Nat.lt_ge_cases i (length l)) as [Hl|Hl].
  - exists (nth i l []). split; auto. apply nth_In; auto.
  - rewrite nth_overflow in H; auto. destruct H.
Qed.

Lemma NoDup_fst_unique {A B} (l : list (A * B)) a b1 b2 :
  NoDup (map fst l) -> In (a, b1) l -> In (a, b2) l -> b1 = b2.
Proof.
  induction l as [|[x y] l IH]; simpl; intros Hn H1 H2; [tauto|].
  inversion Hn; subst.
  destruct H1 as [H1|H1]; destruct H2 as [H2|H2].
  - congruence.
  - inversion H1; subst. exfalso. apply H3. apply in_map_iff. exists (a, b2); auto.
  - inversion H2; subst. exfalso. apply H3. apply in_map_iff. exists (a, b1); auto.
  - auto.
Qed.

Section GenTheorems.
  Variable esc : str -> str.
  Variable h : heap.
  Variable gens : list (list (str * str)).

  Notation cut := (cut_sealed h).
  Notation expanded := (expanded h cut).
  Notation out_edges := (out_edges h true).
  Notation path := (path h true cut).

  Definition keys_ok : Prop :=
    forall n e k, expanded n -> In e (out_edges n) -> In k (fst e) -> plain (esc k) = true.
  Definition files_ok : Prop :=
    forall c af, In c gens -> In af c -> plain (snd af) = true.
  Definition all_unamb : Prop := forall n, unamb h true cut n.

  Lemma path_keys : keys_ok -> forall a p c, path a p c -> Forall (fun k => plain (esc k) = true) p.
  Proof.
    intros K a p c H. induction H as [a Ha | a rel b p c Ha Hin Hp IH]; [constructor|].
    apply Forall_app. split; auto. apply Forall_forall. intros k Hk. eapply K; eauto.
  Qed.

  Lemma gens_of_files : files_ok -> forall n af, In af (gens_of h gens n) -> plain (snd af) = true.
  Proof.
    intros F n af H. unfold gens_of in H. destruct (nth_error h n); [|destruct H].
    apply in_nth_default in H. destruct H as [c [Hc Hin]]. eapply F; eauto.
  Qed.

  (* the Sealer always terminates *)
  Theorem generated_total : forall root jd, exists l, generated esc h gens root jd = Some l.
  Proof.
    intros. unfold generated. destruct (walk_correct h true cut root) as [evs [E _]].
    rewrite E. eauto.
  Qed.

  Lemma generated_inv root jd l e :
    generated esc h gens root jd = Some l -> In e l ->
    exists evs pos af, walk h true cut root = Some evs /\ In (g_node e, pos) evs /\
      In af (gens_of h gens (g_node e)) /\ g_arg e = fst af /\ g_file e = snd af /\
      g_path e = gen_value esc jd pos (snd af).
  Proof.
    unfold generated. destruct (walk h true cut root) as [evs|] eqn:E; [|discriminate].
    intros El Hin. inversion El; subst l. apply in_flat_map in Hin.
    destruct Hin as [[n pos] [Hev He]]. unfold entries_of in He. apply in_map_iff in He.
    destruct He as [af [<- Haf]]. simpl in *. exists evs, pos, af. repeat split; auto.
  Qed.

  Theorem inside_jobdir : keys_ok -> files_ok ->
    forall root jd l e, generated esc h gens root jd = Some l -> In e l ->
    exists comps, comps <> [] /\ Forall (fun c => plain c = true) comps /\
      g_path e = {| p_root := p_root jd; p_parts := p_parts jd ++ comps |}.
  Proof.
    intros K F root jd l e El Hin.
    destruct (generated_inv _ _ _ _ El Hin) as [evs [pos [af [Ew [Hev [Haf [_ [_ Hp]]]]]]]].
    destruct (walk_correct h true cut root) as [evs' [Ew' [_ [_ Hpath]]]].
    rewrite Ew in Ew'. inversion Ew'; subst evs'.
    assert (Hk := path_keys K _ _ _ (Hpath _ _ Hev)).
    assert (Hf := gens_of_files F _ _ Haf).
    exists (rel_comps esc pos (snd af)). split; [apply rel_comps_nonempty|].
    split; [apply rel_comps_plain; auto|]. rewrite Hp. apply gen_value_plain; auto.
  Qed.

  Theorem distinct : all_unamb -> (forall a b, esc a = esc b -> a = b) -> keys_ok -> files_ok ->
    forall root jd l e1 e2, generated esc h gens root jd = Some l -> In e1 l -> In e2 l ->
    (g_node e1, g_file e1) <> (g_node e2, g_file e2) -> g_path e1 <> g_path e2.
  Proof.
    intros U Hinj K F root jd l e1 e2 El H1 H2 Hne Hp.
    destruct (generated_inv _ _ _ _ El H1) as [evs [pos1 [af1 [Ew [Hev1 [Haf1 [_ [Hf1 Hp1]]]]]]]].
    destruct (generated_inv _ _ _ _ El H2) as [evs2 [pos2 [af2 [Ew2 [Hev2 [Haf2 [_ [Hf2 Hp2]]]]]]]].
    rewrite Ew in Ew2. inversion Ew2; subst evs2. clear Ew2.
    destruct (walk_correct h true cut root) as [evs' [Ew' [Hnd [_ Hpath]]]].
    rewrite Ew in Ew'. inversion Ew'; subst evs'. clear Ew'.
    rewrite Hp1, Hp2 in Hp.
    rewrite !gen_value_plain in Hp;
      try (eapply path_keys; eauto); try (eapply gens_of_files; eauto).
    inversion Hp as [Hc]. apply app_inv_head in Hc.
    apply rel_comps_inj in Hc; auto. destruct Hc as [Epos Efile].
    apply Hne. rewrite Hf1, Hf2, Efile. f_equal.
    destruct (Nat.eq_dec (g_node e1) (g_node e2)) as [|Hn]; auto.
    exfalso. exact (walk_positions_distinct h true cut U root evs _ _ _ _ Ew Hev1 Hev2 Hn Epos).
  Qed.

  (* the same file name on the same object: the same path (interpretation fixed in DESIGN.md) *)
  Theorem same_object_same_name : forall root jd l e1 e2,
    generated esc h gens root jd = Some l -> In e1 l -> In e2 l ->
    g_node e1 = g_node e2 -> g_file e1 = g_file e2 -> g_path e1 = g_path e2.
  Proof.
    intros root jd l e1 e2 El H1 H2 En Ef.
    destruct (generated_inv _ _ _ _ El H1) as [evs [pos1 [af1 [Ew [Hev1 [_ [_ [Hf1 Hp1]]]]]]]].
    destruct (generated_inv _ _ _ _ El H2) as [evs2 [pos2 [af2 [Ew2 [Hev2 [_ [_ [Hf2 Hp2]]]]]]]].
    rewrite Ew in Ew2. inversion Ew2; subst evs2.
    destruct (walk_correct h true cut root) as [evs' [Ew' [Hnd _]]].
    rewrite Ew in Ew'. inversion Ew'; subst evs'.
    rewrite En in Hev1. rewrite (NoDup_fst_unique _ _ _ _ Hnd Hev1 Hev2) in Hp1. congruence.
  Qed.

  (* reproducible: the result does not depend on the fuel ... *)
  Theorem reproducible_fuel : forall fuel root jd l,
    generated_fuel esc h gens fuel root jd = Some l -> generated esc h gens root jd = Some l.
  Proof.
    unfold generated_fuel, generated. intros fuel root jd l.
    destruct (visit h true cut fuel [] root st0) as [st|] eqn:E; [|discriminate].
    rewrite (walk_fuel_irrelevant h true cut _ _ _ E). auto.
  Qed.

  (* ... and the layout below the job directory depends on the graph only *)
  Definition place (jd : ppath) (r : nat * str * str * list str) : entry :=
    let '(n, a, f, comps) := r in
    {| g_node := n; g_arg := a; g_file := f;
       g_path := {| p_root := p_root jd; p_parts := p_parts jd ++ comps |} |}.

  Theorem reproducible_layout : keys_ok -> files_ok -> forall root,
    exists rels, forall jd, generated esc h gens root jd = Some (map (place jd) rels).
  Proof.
    intros K F root. unfold generated.
    destruct (walk_correct h true cut root) as [evs [Ew [_ [_ Hpath]]]]. rewrite Ew.
    exists (flat_map (fun ev => map (fun af => (fst ev, fst af, snd af, rel_comps esc (snd ev) (snd af)))
                                    (gens_of h gens (fst ev))) evs).
    intros jd. f_equal.
    assert (G : forall l, (forall m p, In (m, p) l -> path root p m) ->
              flat_map (entries_of esc h gens jd) l =
              map (place jd) (flat_map (fun ev => map (fun af => (fst ev, fst af, snd af, rel_comps esc (snd ev) (snd af)))
                                    (gens_of h gens (fst ev))) l)).
    { induction l as [|[m p] l IH]; simpl; intros Hl; auto.
      rewrite map_app, IH by (intros; apply Hl; auto). f_equal.
      unfold entries_of. rewrite map_map. simpl. apply map_ext_in. intros af Haf. simpl.
      f_equal. apply gen_value_plain.
      - eapply path_keys; eauto.
      - eapply gens_of_files; eauto. }
    apply G; auto.
  Qed.
End GenTheorems.

(* ---- the decidable hypotheses ---------------------------------------------------- *)
Lemma is_prefix_spec a b : is_prefix a b = true <-> prefix a b.
Proof.
  revert b; induction a as [|x a IH]; intros b; simpl.
  - split; auto. intros _. exists b; auto.
  - destruct b as [|y b].
    + split; [discriminate | intros [c Hc]; discriminate].
    + rewrite andb_true_iff, str_eqb_eq, IH. split.
      * intros [-> [c ->]]. exists c; auto.
      * intros [c Hc]. inversion Hc; subst. split; auto. exists c; auto.
Qed.

Lemma keys_eqb_eq a b : keys_eqb a b = true <-> a = b.
Proof.
  revert b; induction a as [|x a IH]; destruct b as [|y b]; simpl; try (split; congruence).
  rewrite andb_true_iff, str_eqb_eq, IH. split; [intros [-> ->]; auto | intros E; inversion E; auto].
Qed.

Lemma edge_eqb_eq e1 e2 : edge_eqb e1 e2 = true <-> e1 = e2.
Proof.
  destruct e1 as [l1 n1], e2 as [l2 n2]. unfold edge_eqb. simpl.
  rewrite andb_true_iff, keys_eqb_eq, Nat.eqb_eq. split; [intros [-> ->]; auto | intros E; inversion E; auto].
Qed.

Section Reflect.
  Variable esc : str -> str.
  Variable h : heap.
  Variable gens : list (list (str * str)).

  Lemma expandedb_spec n : expandedb h n = true <-> expanded h (cut_sealed h) n.
  Proof.
    unfold expandedb, expanded. destruct (nth_error h n) as [nd|] eqn:E.
    - rewrite negb_true_iff. split; [intros H; exists nd; auto | intros [nd' [_ H]]; auto].
    - split; [discriminate | intros [nd' [H _]]; discriminate].
  Qed.

  Lemma out_edges_range n e : In e (out_edges h true n) -> (n < length h)%nat.
  Proof.
    unfold out_edges. destruct (nth_error h n) eqn:E; [|intros []].
    intros _. apply nth_error_range. congruence.
  Qed.

  Lemma unambb_sound : unambb h = true -> all_unamb h.
  Proof.
    unfold unambb. rewrite forallb_forall. intros H n e1 e2 H1 H2 X1 X2.
    assert (Hn := out_edges_range _ _ H1).
    assert (Hb := H n ltac:(apply in_seq; lia)). unfold unamb_nodeb in Hb.
    rewrite forallb_forall in Hb.
    assert (F1 : In e1 (filter (fun e => expandedb h (snd e)) (out_edges h true n)))
      by (apply filter_In; split; auto; apply expandedb_spec; auto).
    assert (F2 : In e2 (filter (fun e => expandedb h (snd e)) (out_edges h true n)))
      by (apply filter_In; split; auto; apply expandedb_spec; auto).
    specialize (Hb e1 F1). apply andb_true_iff in Hb. destruct Hb as [Hne Hall].
    split.
    - destruct (fst e1); [discriminate | congruence].
    - intros Hp. rewrite forallb_forall in Hall. specialize (Hall e2 F2).
      apply is_prefix_spec in Hp. rewrite Hp in Hall. simpl in Hall. apply edge_eqb_eq; auto.
  Qed.

  Lemma keys_plainb_sound : keys_plainb esc h = true -> keys_ok esc h.
  Proof.
    unfold keys_plainb. rewrite forallb_forall. intros H n e k Hx He Hk.
    assert (Hn := out_edges_range _ _ He).
    assert (Hb := H n ltac:(apply in_seq; lia)).
    apply expandedb_spec in Hx. rewrite Hx in Hb.
    rewrite forallb_forall in Hb. specialize (Hb e He). rewrite forallb_forall in Hb. auto.
  Qed.

  Lemma files_plainb_sound : files_plainb gens = true -> files_ok gens.
  Proof.
    unfold files_plainb. rewrite forallb_forall. intros H c af Hc Haf.
    specialize (H c Hc). rewrite forallb_forall in H. auto.
  Qed.
End Reflect.

(* ---- the repaired key encoding: every key gives one plain segment, injectively ----- *)
Lemma esc_chars_noslash s : existsb (N.eqb 47) (esc_chars s) = false.
Proof.
  induction s as [|c s IH]; simpl; auto.
  destruct (N.eqb_spec c 37); [simpl; auto|].
  destruct (N.eqb_spec c 47); [simpl; auto|].
  change ([c] ++ esc_chars s) with (c :: esc_chars s). cbn [existsb].
  rewrite IH, orb_false_r. apply N.eqb_neq. auto.
Qed.

Lemma esc_chars_nil s : esc_chars s = [] -> s = [].
Proof.
  destruct s as [|c s]; auto. simpl.
  destruct (c =? 37); [discriminate|]. destruct (c =? 47); discriminate.
Qed.

Lemma esc_chars_inj : forall a b, esc_chars a = esc_chars b -> a = b.
Proof.
  induction a as [|x a IH]; intros b E.
  - symmetry in E. apply esc_chars_nil in E. auto.
  - destruct b as [|y b]; [apply esc_chars_nil in E; discriminate|].
    simpl in E.
    destruct (N.eqb_spec x 37) as [->|Hx37]; destruct (N.eqb_spec y 37) as [->|Hy37].
    + inversion E. f_equal; auto.
    + destruct (N.eqb_spec y 47) as [->|Hy47]; inversion E. congruence.
    + destruct (N.eqb_spec x 47) as [->|Hx47]; inversion E. congruence.
    + destruct (N.eqb_spec x 47) as [->|Hx47]; destruct (N.eqb_spec y 47) as [->|Hy47];
        inversion E; try congruence; f_equal; auto.
Qed.

(* the three special images are not images of esc_chars *)
Lemma esc_chars_not_special s :
  esc_chars s <> [37] /\ esc_chars s <> [37; 50; 69] /\ esc_chars s <> [37; 50; 69; 37; 50; 69].
Proof.
  destruct s as [|c s]; simpl; [repeat split; discriminate|].
  destruct (N.eqb_spec c 37) as [->|H37]; [repeat split; discriminate|].
  destruct (N.eqb_spec c 47) as [->|H47]; [repeat split; discriminate|].
  repeat split; intros E; inversion E; congruence.
Qed.

Lemma esc_fix_cases k :
  (esc_chars k = [] /\ esc_fix k = [37]) \/
  (esc_chars k = [46] /\ esc_fix k = [37; 50; 69]) \/
  (esc_chars k = [46; 46] /\ esc_fix k = [37; 50; 69; 37; 50; 69]) \/
  (esc_chars k <> [] /\ esc_chars k <> [46] /\ esc_chars k <> [46; 46] /\ esc_fix k = esc_chars k).
Proof.
  unfold esc_fix. destruct (esc_chars k) as [|c1 r1]; auto.
  destruct (N.eq_dec c1 46) as [->|H1].
  - destruct r1 as [|c2 r2]; auto.
    destruct (N.eq_dec c2 46) as [->|H2].
    + destruct r2; auto. right; right; right. repeat split; congruence.
    + right; right; right. repeat split; try congruence.
      destruct c2 as [|p]; auto. repeat (destruct p as [p|p|]; auto; try congruence).
  - right; right; right. repeat split; try congruence.
    destruct c1 as [|p]; auto. repeat (destruct p as [p|p|]; auto; try congruence).
Qed.

Lemma esc_fix_inj a b : esc_fix a = esc_fix b -> a = b.
Proof.
  intros E. apply esc_chars_inj.
  destruct (esc_chars_not_special a) as [A1 [A2 A3]].
  destruct (esc_chars_not_special b) as [B1 [B2 B3]].
  destruct (esc_fix_cases a) as [[Ea Fa]|[[Ea Fa]|[[Ea Fa]|[_ [_ [_ Fa]]]]]];
  destruct (esc_fix_cases b) as [[Eb Fb]|[[Eb Fb]|[[Eb Fb]|[_ [_ [_ Fb]]]]]];
    rewrite Fa, Fb in E; try congruence.
Qed.

Lemma esc_fix_plain k : plain (esc_fix k) = true.
Proof.
  destruct (esc_fix_cases k) as [[_ ->]|[[_ ->]|[[_ ->]|[N1 [N2 [N3 ->]]]]]]; try reflexivity.
  unfold plain. rewrite esc_chars_noslash.
  assert (D1 : str_eqb (esc_chars k) [46] = false).
  { destruct (str_eqb (esc_chars k) [46]) eqn:E; auto. apply str_eqb_eq in E. congruence. }
  assert (D2 : str_eqb (esc_chars k) [46; 46] = false).
  { destruct (str_eqb (esc_chars k) [46; 46]) eqn:E; auto. apply str_eqb_eq in E. congruence. }
  rewrite D1, D2. destruct (esc_chars k); [congruence | reflexivity].
Qed.

Lemma keys_ok_fix h : keys_ok esc_fix h.
Proof. intros n e k _ _ _. apply esc_fix_plain. Qed.

(* ---- packaged statements (props/C17.v) ----------------------------------------------- *)
(* repaired push: no hypothesis on the keys *)
Theorem inside_jobdir_fix : forall h gens root jd l e,
  files_ok gens -> generated esc_fix h gens root jd = Some l -> In e l ->
  exists comps, comps <> [] /\ Forall (fun c => plain c = true) comps /\
    g_path e = {| p_root := p_root jd; p_parts := p_parts jd ++ comps |}.
Proof. intros. eapply inside_jobdir; eauto. apply keys_ok_fix. Qed.

Theorem distinct_fix : forall h gens root jd l e1 e2,
  all_unamb h -> files_ok gens ->
  generated esc_fix h gens root jd = Some l -> In e1 l -> In e2 l ->
  (g_node e1, g_file e1) <> (g_node e2, g_file e2) -> g_path e1 <> g_path e2.
Proof.
  intros h gens root jd l e1 e2 U F. apply distinct; auto.
  - apply esc_fix_inj. - apply keys_ok_fix.
Qed.

Theorem reproducible_layout_fix : forall h gens root, files_ok gens ->
  exists rels, forall jd, generated esc_fix h gens root jd = Some (map (place jd) rels).
Proof. intros. apply reproducible_layout; auto. apply keys_ok_fix. Qed.

(* the code as it is: for dict keys that are plain names *)
Theorem distinct_plainkeys : forall h gens root jd l e1 e2,
  all_unamb h -> keys_ok esc_prefix h -> files_ok gens ->
  generated esc_prefix h gens root jd = Some l -> In e1 l -> In e2 l ->
  (g_node e1, g_file e1) <> (g_node e2, g_file e2) -> g_path e1 <> g_path e2.
Proof. intros h gens root jd l e1 e2 U K F. apply distinct; auto. Qed.

(* ---- examples: the hypotheses are satisfiable by non-trivial graphs ---------------- *)
Definition s_c : str := [99].           (* "c" *)
Definition s_d : str := [100].          (* "d" *)
Definition s_l : str := [108].          (* "l" *)
Definition s_p : str := [112].          (* "p" *)
Definition s_otxt : str := [111; 46; 116; 120; 116].   (* "o.txt" *)
Definition mk (c : nat) fs pr := {| cls := c; fields := fs; pre := pr; init := []; task := None; sealed := false |}.
Definition ex_gens : list (list (str * str)) := [[(s_p, k_out)]; [(s_p, s_otxt)]].
Definition ex_jd : ppath := {| p_root := 1; p_parts := [[74; 79; 66]] |}.

(* task 0: c -> 1, l -> [2; 1], d -> {"a": 2}; node 1: c -> 2 and a cycle back to 1; pre-task 3 at 1 *)
Definition ex_heap : heap :=
  [ mk 0 [(s_c, VRef 1); (s_l, VList [VRef 2; VRef 1]); (s_d, VDict [([97], VRef 2)])] [];
    mk 1 [(s_c, VRef 2); (s_d, VDict [([97], VRef 1)])] [3%nat];
    mk 1 [] [];
    mk 1 [] [] ].

Example ex_hyps : unambb ex_heap = true /\ files_plainb ex_gens = true /\ keys_plainb esc_prefix ex_heap = true.
Proof. vm_compute. auto. Qed.

Example ex_hyps_prop : all_unamb ex_heap /\ files_ok ex_gens /\ keys_ok esc_prefix ex_heap.
Proof.
  destruct ex_hyps as [A [B C]]. split; [apply unambb_sound; auto|].
  split; [apply files_plainb_sound; auto | apply keys_plainb_sound; auto].
Qed.

Example ex_generated : exists l, generated esc_fix ex_heap ex_gens 0 ex_jd = Some l /\ length l = 4%nat.
Proof. eexists. split; [vm_compute; reflexivity | reflexivity]. Qed.

(* ---- refutations: the literal code with dict keys that are not plain names ---------- *)
(* d = {"": Leaf, ".": Leaf}: both leaves receive <job>/out/d/o.txt *)
Definition bad_heap1 : heap :=
  [ mk 0 [(s_d, VDict [([], VRef 1); ([46], VRef 2)])] []; mk 1 [] []; mk 1 [] [] ].

Theorem distinct_prefix_refuted :
  exists h gens root jd l e1 e2,
    all_unamb h /\ files_ok gens /\ generated esc_prefix h gens root jd = Some l /\
    In e1 l /\ In e2 l /\ g_node e1 <> g_node e2 /\ g_path e1 = g_path e2.
Proof.
  exists bad_heap1, ex_gens, 0%nat, ex_jd.
  eexists. eexists. eexists.
  split; [apply unambb_sound; vm_compute; reflexivity|].
  split; [apply files_plainb_sound; vm_compute; reflexivity|].
  split; [vm_compute; reflexivity|].
  split; [left; reflexivity|].
  split; [right; left; reflexivity|].
  split; [simpl; congruence | reflexivity].
Qed.

(* d = {"/abs": Leaf}: the leaf receives /abs/o.txt *)
Definition bad_heap2 : heap :=
  [ mk 0 [(s_d, VDict [([47; 97; 98; 115], VRef 1)])] []; mk 1 [] [] ].

Theorem inside_prefix_refuted :
  exists h gens root jd l e,
    files_ok gens /\ generated esc_prefix h gens root jd = Some l /\ In e l /\
    ~ exists comps, g_path e = {| p_root := p_root jd; p_parts := p_parts jd ++ comps |}.
Proof.
  exists bad_heap2, ex_gens, 0%nat, ex_jd.
  eexists. eexists.
  split; [apply files_plainb_sound; vm_compute; reflexivity|].
  split; [vm_compute; reflexivity|].
  split; [left; reflexivity|].
  intros [comps E]. vm_compute in E. inversion E.
Qed.

(* with the repaired push the same graphs are fine *)
Example bad_heaps_repaired :
  (exists l, generated esc_fix bad_heap1 ex_gens 0 ex_jd = Some l /\
     map g_path l = [ {| p_root := 1; p_parts := [[74;79;66]; k_out; s_d; [37]; s_otxt] |};
                      {| p_root := 1; p_parts := [[74;79;66]; k_out; s_d; [37;50;69]; s_otxt] |};
                      {| p_root := 1; p_parts := [[74;79;66]; k_out] |} ]) /\
  (exists l, generated esc_fix bad_heap2 ex_gens 0 ex_jd = Some l /\
     map g_path l = [ {| p_root := 1; p_parts := [[74;79;66]; k_out; s_d; [37;50;70;97;98;115]; s_otxt] |};
                      {| p_root := 1; p_parts := [[74;79;66]; k_out] |} ]).
Proof. split; eexists; split; vm_compute; reflexivity. Qed.
