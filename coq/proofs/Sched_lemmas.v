(* Proofs about model/Sched.v (properties C04, C06, C07). *)
From Coq Require Import ZArith List Bool Arith Lia ZifyBool.
From XV Require Import model.Sched.
Import ListNotations.
Open Scope Z_scope.

Set Implicit Arguments.

(* ------------------------------------------------------------------ generic helpers *)
Lemma upd_same : forall A (f : nat -> A) j v, upd f j v j = v.
Proof. intros. unfold upd. now rewrite Nat.eqb_refl. Qed.
Lemma upd_other : forall A (f : nat -> A) j v x, x <> j -> upd f j v x = f x.
Proof. intros. unfold upd. destruct (Nat.eqb x j) eqn:E; auto. apply Nat.eqb_eq in E. congruence. Qed.

Ltac upd_simpl :=
  repeat match goal with
  | |- context [upd _ ?j _ ?j] => rewrite upd_same
  | H : context [upd _ ?j _ ?j] |- _ => rewrite upd_same in H
  | Hn : ?x <> ?j |- context [upd _ ?j _ ?x] => rewrite (upd_other _ _ Hn)
  | Hn : ?x <> ?j, H : context [upd _ ?j _ ?x] |- _ => rewrite (upd_other _ _ Hn) in H
  | Hn : ?j <> ?x |- context [upd _ ?j _ ?x] => rewrite (upd_other _ _ (not_eq_sym Hn))
  | Hn : ?j <> ?x, H : context [upd _ ?j _ ?x] |- _ => rewrite (upd_other _ _ (not_eq_sym Hn)) in H
  end.

Fixpoint count_nok (l : list dstatus) : nat :=
  match l with [] => O | d :: r => (if is_ok d then 0 else 1) + count_nok r end%nat.

Lemma replace_nth_length : forall A i (v : A) l, length (replace_nth i v l) = length l.
Proof. induction i; destruct l; simpl; auto. Qed.

Lemma nth_error_replace_same : forall A i (v : A) l x, nth_error l i = Some x -> nth_error (replace_nth i v l) i = Some v.
Proof. induction i; destruct l; simpl; intros; try discriminate; eauto. Qed.
Lemma nth_error_replace_other : forall A i i' (v : A) l, i <> i' -> nth_error (replace_nth i v l) i' = nth_error l i'.
Proof. induction i; destruct l; destruct i'; simpl; intros; try congruence; eauto. Qed.

Lemma count_nok_replace : forall i new l old, nth_error l i = Some old ->
  Z.of_nat (count_nok (replace_nth i new l)) = Z.of_nat (count_nok l) - (okval new - okval old).
Proof.
  induction i; destruct l; simpl; intros; try discriminate.
  - inversion H; subst. destruct new, old; cbv [is_ok okval]; lia.
  - specialize (IHi new l old H). destruct (is_ok d); lia.
Qed.

Lemma count_nok_repeat : forall n, count_nok (repeat DWAIT n) = n.
Proof. induction n; simpl; auto. Qed.

Lemma count_nok_zero : forall l, count_nok l = O -> forall i d, nth_error l i = Some d -> d = DOK.
Proof.
  induction l; simpl; intros; destruct i; simpl in *; try discriminate.
  - inversion H0; subst. destruct d; simpl in *; auto; lia.
  - destruct (is_ok a); try lia; eapply IHl; eauto; lia.
Qed.

(* ------------------------------------------------------------------ the job-local part of Dependency.check *)
Lemma dstatus_eqb_eq : forall a b, dstatus_eqb a b = true <-> a = b.
Proof. destruct a, b; simpl; split; congruence. Qed.

(* what an asynchronous dependency check may do to the record of its target (repaired code) *)
Record async_ok (r r' : jst) : Prop := {
  ao_held : held r' = held r;
  ao_launches : launches r' = launches r;
  ao_pc : pc r' = pc r \/ (pc r = PAwaitReady /\ pc r' = PWokenReady /\ ev r = false /\ ev r' = true);
  ao_ev : ev r = true -> ev r' = true /\ pc r' = pc r;
  ao_st : st r' = st r
          \/ (finished (st r) = false /\ st r' = ERROR /\ fdep r' = true /\ ev r' = true)
          \/ (notstarted (st r) = true /\ st r' = READY /\ uns r' = 0 /\ ev r' = true);
  ao_fdep : fdep r = true -> fdep r' = true;
  ao_len : length (cur r') = length (cur r);
  ao_wake : ev r' = true -> ev r = false -> pc r = PAwaitReady -> pc r' = PWokenReady;
  ao_evst : ev r' = ev r \/ st r' = ERROR \/ st r' = READY;
  ao_uns0 : r' = r \/ (uns r' = 0 -> notstarted (st r') = true -> st r' = READY);
  ao_fdep2 : fdep r' = fdep r \/ (finished (st r) = false /\ st r' = ERROR);
  ao_err : st r' = ERROR -> st r = ERROR \/ notstarted (st r) = true;
  ao_run : st r = RUNNING -> st r' = RUNNING
}.

Lemma async_ok_refl : forall r, async_ok r r.
Proof. intros; constructor; auto. intros; congruence. Qed.

Lemma set_event_l_spec : forall r r' w, set_event_l r = (r', w) ->
  st r' = st r /\ uns r' = uns r /\ cur r' = cur r /\ held r' = held r /\ fdep r' = fdep r /\ launches r' = launches r /\
  ev r' = true /\
  ((w = false /\ pc r' = pc r /\ (ev r = true \/ pc r <> PAwaitReady))
   \/ (w = true /\ ev r = false /\ pc r = PAwaitReady /\ pc r' = PWokenReady)).
Proof.
  unfold set_event_l; intros r r' w H. destruct (ev r) eqn:E; [|destruct (pc r) eqn:P];
    inversion H; subst; simpl; rewrite ?E, ?P; intuition (auto; congruence).
Qed.

Lemma depchanged_l_async : forall r i old new r' w,
  depchanged_l true true r i old new = (r', w) ->
  async_ok r r' /\ cur r' = replace_nth i new (cur r) /\
  uns r' = uns r - (okval new - okval old) /\
  (w = true <-> pc r' <> pc r) /\
  (st r' = ERROR -> st r = ERROR \/ new = DFAIL) /\
  (new = DFAIL -> finished (st r') = true \/ notstarted (st r) = false).
Proof.
  unfold depchanged_l; intros r i old new r' w H.
  set (r1 := w_cur (w_uns r (uns r - (okval new - okval old))) (replace_nth i new (cur r))) in *.
  destruct (dstatus_eqb new DFAIL && notstarted (st r1)) eqn:E1.
  - destruct (set_event_l (w_fdep (w_st r1 ERROR) true)) as [r2 w2] eqn:S2.
    apply set_event_l_spec in S2. simpl in S2.
    destruct S2 as (S_st & S_uns & S_cur & S_held & S_fdep & S_l & S_ev & S_pc).
    assert (N : (uns r2 =? 0) && (negb true || notstarted (st r2)) = false).
    { rewrite S_st. simpl. apply andb_false_r. }
    rewrite N in H. inversion H; subst r' w. clear H N. rewrite orb_false_r.
    apply andb_true_iff in E1. destruct E1 as [E1 E2'']. simpl in E2''.
    assert (E2 : finished (st r) = false) by (destruct (st r); simpl in *; congruence).
    apply dstatus_eqb_eq in E1.
    split; [constructor|]; simpl; rewrite ?S_st, ?S_uns, ?S_cur, ?S_held, ?S_fdep, ?S_l, ?replace_nth_length; auto;
      try solve [destruct S_pc as [(?&?&[?|?])|(?&?&?&?)]; subst; intuition (auto; congruence)].
    right. intros _ Hn. discriminate.
    intros X. rewrite X in E2''. discriminate.
  - destruct ((uns r1 =? 0) && (negb true || notstarted (st r1))) eqn:E3.
    + destruct (set_event_l (w_st r1 READY)) as [r3 w3] eqn:S3.
      apply set_event_l_spec in S3. simpl in S3.
      destruct S3 as (S_st & S_uns & S_cur & S_held & S_fdep & S_l & S_ev & S_pc).
      inversion H; subst r' w. clear H.
      apply andb_true_iff in E3. destruct E3 as [E3 E4]. simpl in E3, E4.
      apply Z.eqb_eq in E3.
      assert (NF : new = DFAIL -> notstarted (st r) = false).
      { intros ->. apply andb_false_iff in E1. destruct E1 as [E1|E1]; [discriminate|]. exact E1. }
      split; [constructor|]; simpl; rewrite ?S_st, ?S_uns, ?S_cur, ?S_held, ?S_fdep, ?S_l, ?replace_nth_length; auto;
        try solve [destruct S_pc as [(?&?&[?|?])|(?&?&?&?)]; subst; intuition (auto; congruence)].
      repeat split; auto; try congruence;
        try solve [destruct S_pc as [(?&?&[?|?])|(?&?&?&?)]; subst; intuition (auto; congruence)].
      all: try (intros Hf; rewrite Hf in E4; discriminate).
      all: try (intros Hf; specialize (NF Hf); simpl in E4; congruence).
    + inversion H; subst r' w. clear H.
      split; [constructor|]; simpl; rewrite ?replace_nth_length; auto; try (intros; congruence).
      * right. intros U Hn. apply andb_false_iff in E3. simpl in E3. destruct E3 as [E3|E3].
        -- apply Z.eqb_neq in E3. contradiction.
        -- congruence.
      * repeat split; auto; try congruence.
        intros ->. apply andb_false_iff in E1. destruct E1 as [E1|E1]; [discriminate|]. right. exact E1.
Qed.

Lemma replace_nth_id : forall (l : list dstatus) i x, nth_error l i = Some x -> replace_nth i x l = l.
Proof. induction l; destruct i; simpl; intros; try discriminate; try (inversion H; subst; auto). f_equal; eauto. Qed.

Lemma check_l_async : forall r i new r' w, check_l true true r i new = (r', w) ->
  async_ok r r' /\ (w = true <-> pc r' <> pc r) /\
  (st r' = ERROR -> st r = ERROR \/ new = DFAIL) /\
  (forall old, nth_error (cur r) i = Some old ->
     cur r' = replace_nth i new (cur r) /\ uns r' = uns r - (okval new - okval old) /\
     (new = DFAIL -> old <> DFAIL -> finished (st r') = true \/ notstarted (st r) = false)) /\
  (nth_error (cur r) i = None -> r' = r).
Proof.
  unfold check_l; intros r i new r' w H. destruct (nth_error (cur r) i) as [old|] eqn:N.
  - destruct (dstatus_eqb new old) eqn:E.
    + inversion H; subst. apply dstatus_eqb_eq in E. subst.
      split; [apply async_ok_refl|]. split; [intuition congruence|].
      split; [auto|]. split; [|discriminate]. intros old' Ho. inversion Ho; subst old'.
      rewrite (replace_nth_id _ _ N). repeat split; auto; try lia; congruence.
    + apply depchanged_l_async in H. destruct H as (A & C & U & Wk & E1 & F).
      split; [exact A|]. split; [exact Wk|]. split; [exact E1|]. split; [|discriminate].
      intros old' Ho. inversion Ho; subst old'. split; [exact C|]. split; [exact U|]. intros; auto.
  - inversion H; subst. split; [apply async_ok_refl|]. repeat split; auto; try congruence; try discriminate.
Qed.

(* ------------------------------------------------------------------ job-local invariant *)
Definition in_run (p : pcT) : bool :=
  match p with PExt ALockOutRun | PWoken ALockOutRun | PExt AProc | PWoken AProc => true | _ => false end.
Definition in_start (p : pcT) : bool :=
  match p with PExt ALockIn | PWoken ALockIn | PExt ALockOutAbort | PWoken ALockOutAbort => true | _ => in_run p end.
Definition code_state (c : Z) : jstate := if c =? 0 then DONE else ERROR.
Definition is_adopt (p : pcT) : bool := match p with PExt AAdopt | PWoken AAdopt => true | _ => false end.

Record linv (ds : list dep) (mk : bool) (code : Z) (ad : option jstate) (r : jst) : Prop := {
  l_A : past_loop (pc r) = true -> finished (st r) = true;
  l_D : st r = DONE -> past_loop (pc r) = true;
  l_EV : pc r = PAwaitReady -> ev r = false /\ st r = WAITING /\ uns r <> 0;
  l_CI : started (pc r) = true -> length (cur r) = length ds /\ uns r = Z.of_nat (count_nok (cur r));
  l_L1 : (launches r <= 1)%nat;
  l_run : in_run (pc r) = true -> launches r = 1%nat;
  l_L2 : launches r = 1%nat -> mk = false /\ (in_run (pc r) = true \/ (past_loop (pc r) = true /\ st r = code_state code));
  l_L0 : launches r = 0%nat -> st r = DONE -> (ad = None /\ mk = true) \/ ad = Some DONE;
  l_mk : mk = true -> ad = None -> started (pc r) = true -> st r = DONE;
  l_E : ad = None -> st r = ERROR -> launches r = 0%nat -> fdep r = true;
  l_EN : st r = ERROR -> pc r = PWokenReady \/ past_loop (pc r) = true \/ is_adopt (pc r) = true;
  l_un : started (pc r) = false -> launches r = 0%nat /\ held r = [] /\ st r = UNSCHEDULED /\ fdep r = false /\ cur r = [] /\ uns r = 0;
  l_F : (exists i, nth_error (cur r) i = Some DFAIL) -> finished (st r) = true \/ is_adopt (pc r) = true;
  l_held : held r <> [] -> pc r = PExt ALockOutAbort \/ pc r = PWoken ALockOutAbort \/ in_run (pc r) = true;
  l_WR : pc r = PWokenReady -> ev r = true;
  l_RS : st r = READY -> started (pc r) = true;
  l_WS : pc r = PWokenReady -> st r = READY \/ st r = ERROR;
  l_RT : forall v, pc r = PReturned v -> st r = v;
  l_ad : ad <> None -> started (pc r) = true -> is_adopt (pc r) = true \/ (past_loop (pc r) = true /\ Some (st r) = ad);
  l_adpc : is_adopt (pc r) = true -> ad <> None;
  l_adst : is_adopt (pc r) = true -> st r = RUNNING;
  l_RUN : st r = RUNNING -> in_run (pc r) = true \/ is_adopt (pc r) = true
}.

Lemma linv_jst0 : forall ds mk code ad, linv ds mk code ad jst0.
Proof.
  intros; constructor; simpl; try discriminate; auto; try lia; try (intros; repeat split; auto; fail);
    try (intros X; exfalso; apply X; reflexivity);
    try (intros; match goal with H : exists _, _ |- _ => destruct H as [i Hi]; destruct i; discriminate end).
Qed.

(* an asynchronous check preserves the local invariant *)
Lemma linv_async : forall ds mk code ad r r',
  linv ds mk code ad r -> started (pc r) = true -> async_ok r r' ->
  (in_start (pc r) = true -> st r' = ERROR -> st r = ERROR) ->
  uns r' = Z.of_nat (count_nok (cur r')) ->
  ((exists i, nth_error (cur r') i = Some DFAIL) -> (exists i, nth_error (cur r) i = Some DFAIL) \/ finished (st r') = true \/ is_adopt (pc r) = true) ->
  linv ds mk code ad r'.
Proof.
  intros ds mk code ad r r' L S A Hnf Hu Hf.
  destruct A as [Ah Al Ap Ae As Afd Alen Aw Aes Au0 Af2 Aerr Arun].
  assert (PC : pc r' = pc r \/ (pc r = PAwaitReady /\ pc r' = PWokenReady /\ ev r = false)) by (destruct Ap as [?|(?&?&?&?)]; auto).
  assert (FIN : finished (st r) = true -> st r' = st r).
  { intros F. destruct As as [?|[(?&?)|(N&?)]]; auto; try congruence. destruct (st r); simpl in *; congruence. }
  constructor.
  - (* A *) intros P. destruct PC as [E|(E1&E2&_)]; [|rewrite E2 in P; discriminate].
    rewrite E in P. pose proof (l_A L P) as F. rewrite (FIN F). exact F.
  - (* D *) intros D. assert (st r = DONE).
    { destruct As as [E|[(?&E&_)|(?&E&_)]]; congruence. }
    pose proof (l_D L H) as P. destruct PC as [E|(E1&_)]; [congruence|]. rewrite E1 in P. discriminate.
  - (* EV *) intros P. destruct PC as [E|(_&E2&_)]; [|congruence]. rewrite E in P.
    destruct (l_EV L P) as (E1 & E2 & E3).
    assert (st r' = st r).
    { destruct As as [?|[(_&_&_&X)|(_&_&_&X)]]; auto; pose proof (Aw X E1 P); congruence. }
    assert (ev r' = false).
    { destruct Aes as [?|[?|?]]; congruence. }
    repeat split; auto; try congruence.
    destruct Au0 as [->|U]; auto. intros Z0. rewrite H, E2 in U. specialize (U Z0 eq_refl). discriminate.
  - (* CI *) intros _. split; [rewrite Alen; apply (l_CI L S)|exact Hu].
  - rewrite Al. apply (l_L1 L).
  - intros R. rewrite Al. apply (l_run L). destruct PC as [E|(_&E&_)]; [congruence|]. rewrite E in R; discriminate.
  - intros L1. rewrite Al in L1. destruct (l_L2 L L1) as (M & [R|(P & C)]); split; auto.
    + left. destruct PC as [E|(E&_)]; [congruence|]. rewrite E in R; discriminate.
    + right. pose proof (l_A L P) as F. rewrite (FIN F). destruct PC as [E|(E&_)]; [split; congruence|].
      rewrite E in P; discriminate.
  - intros L0 D. rewrite Al in L0. apply (l_L0 L L0). destruct As as [E|[(?&E&_)|(?&E&_)]]; congruence.
  - intros M AD _. pose proof (l_mk L M AD S) as D. rewrite FIN; auto. rewrite D; auto.
  - intros AD E L0. rewrite Al in L0. destruct As as [X|[(_&_&X&_)|(_&X&_)]]; auto; try congruence.
    apply Afd. apply (l_E L); congruence.
  - (* EN *) intros E.
    destruct As as [X|[(NF&_&_&EV)|(_&X&_)]]; try congruence.
    + rewrite X in E. destruct (l_EN L E) as [P|[P|P]].
      * left. destruct PC as [E'|(E'&_)]; congruence.
      * right; left. destruct PC as [E'|(E'&_)]; [congruence|]. rewrite E' in P; discriminate.
      * right; right. destruct PC as [E'|(E'&_)]; [congruence|]. rewrite E' in P; discriminate.
    + destruct (pc r) eqn:P; simpl in S; try discriminate.
      * left. apply Aw; auto. apply (l_EV L P).
      * left. destruct PC as [?|(?&_)]; congruence.
      * destruct a; try (exfalso; assert (st r = ERROR) by (apply Hnf; auto); rewrite H in NF; discriminate).
        -- pose proof (l_A L) as F. rewrite P in F. simpl in F. rewrite F in NF; auto. discriminate.
        -- right; right. destruct PC as [E'|(E'&_)]; [rewrite E'; reflexivity|discriminate].
      * destruct a; try (exfalso; assert (st r = ERROR) by (apply Hnf; auto); rewrite H in NF; discriminate).
        -- pose proof (l_A L) as F. rewrite P in F. simpl in F. rewrite F in NF; auto. discriminate.
        -- right; right. destruct PC as [E'|(E'&_)]; [rewrite E'; reflexivity|discriminate].
      * pose proof (l_A L) as F. rewrite P in F. simpl in F. rewrite F in NF; auto. discriminate.
  - intros NS. exfalso. destruct PC as [E|(_&E&_)]; rewrite E in NS; [congruence|discriminate].
  - intros X. assert (AP : is_adopt (pc r) = true -> is_adopt (pc r') = true).
    { intros F. destruct PC as [E|(E&_)]; [congruence|]. rewrite E in F; discriminate. }
    destruct (Hf X) as [Y|[Y|Y]]; auto. destruct (l_F L Y) as [F|F]; [left; rewrite (FIN F); exact F|right; auto].
  - rewrite Ah. intros H. destruct (l_held L H) as [P|[P|P]]; destruct PC as [E|(E&_)]; rewrite ?E in *; try discriminate; tauto.
  - intros P. destruct Ap as [E|(_&_&_&E)]; auto.
    rewrite E in P. apply Ae. apply (l_WR L P).
  - intros R. destruct PC as [E|(_&E&_)]; rewrite E; auto.
  - intros P. destruct Ap as [E|(P0&_&E0&E1)].
    + rewrite E in P. destruct (l_WS L P) as [X|X].
      * destruct As as [Y|[(_&Y&_)|(_&Y&_)]]; auto. left; congruence.
      * right. rewrite FIN; rewrite X; auto.
    + destruct (l_EV L P0) as (_ & W0 & _).
      destruct As as [Y|[(_&Y&_)|(_&Y&_)]]; auto.
      destruct Aes as [Z|[Z|Z]]; auto. congruence.
  - intros v P. destruct PC as [E|(_&E&_)]; [|congruence]. rewrite E in P.
    pose proof (l_RT L P) as X. assert (F : finished (st r) = true) by (apply (l_A L); rewrite P; auto).
    rewrite (FIN F). exact X.
  - intros AD _. destruct (l_ad L AD S) as [X|(X & Y)].
    + left. destruct PC as [E|(E&_)]; [congruence|]. rewrite E in X; discriminate.
    + right. pose proof (l_A L X) as F. rewrite (FIN F). destruct PC as [E|(E&_)]; [split; congruence|].
      rewrite E in X; discriminate.
  - intros X. apply (l_adpc L). destruct PC as [E|(_&E&_)]; [congruence|]. rewrite E in X; discriminate.
  - intros X. apply Arun. apply (l_adst L). destruct PC as [E|(_&E&_)]; [congruence|]. rewrite E in X; discriminate.
  - intros X. assert (Y : st r = RUNNING) by (destruct As as [E|[(_&E&_)|(_&E&_)]]; congruence).
    destruct (l_RUN L Y) as [Z|Z]; [left|right]; (destruct PC as [E|(E&_)]; [congruence|rewrite E in Z; discriminate]).
Qed.

(* ------------------------------------------------------------------ the coroutine's own steps (job-local part) *)
(* the facts that do not mention the program counter *)
Record lmid (ds : list dep) (mk : bool) (code : Z) (ad : option jstate) (r : jst) : Prop := {
  m_CI : length (cur r) = length ds /\ uns r = Z.of_nat (count_nok (cur r));
  m_L1 : (launches r <= 1)%nat;
  m_mk1 : launches r = 1%nat -> mk = false;
  m_L0 : launches r = 0%nat -> st r = DONE -> (ad = None /\ mk = true) \/ ad = Some DONE;
  m_mk : mk = true -> ad = None -> st r = DONE;
  m_E : ad = None -> st r = ERROR -> launches r = 0%nat -> fdep r = true;
  m_F : (exists i, nth_error (cur r) i = Some DFAIL) -> finished (st r) = true;
  m_held : held r = [];
  m_fin : finished (st r) = true -> launches r = 1%nat -> st r = code_state code;
  m_nf : finished (st r) = false -> launches r = 0%nat;
  m_ad : ad <> None -> Some (st r) = ad /\ finished (st r) = true
}.

Lemma lmid_ev : forall ds mk code ad r b, lmid ds mk code ad r -> lmid ds mk code ad (w_ev r b).
Proof. intros ds mk code ad r b [? ? ? ? ? ? ? ? ? ? ?]; constructor; simpl; auto. Qed.

Lemma linv_doneh : forall ds mk code ad r, lmid ds mk code ad r -> finished (st r) = true ->
  linv ds mk code ad (w_pc r (PExt ADoneH)).
Proof.
  intros ds mk code ad r [CI L1 MK1 L0 MK ME MF MH MFIN MNF MAD] F; constructor; simpl; auto; try discriminate; try congruence.
  intros AD _. right. split; auto. apply MAD; auto.
  intros X. rewrite X in F. discriminate.
Qed.

Lemma linv_awaitready : forall ds mk code ad r, lmid ds mk code ad r -> st r = WAITING -> ev r = false -> uns r <> 0 ->
  linv ds mk code ad (w_pc r PAwaitReady).
Proof.
  intros ds mk code ad r [CI L1 MK1 L0 MK ME MF MH MFIN MNF MAD] S E U.
  assert (ADN : ad = None).
  { destruct ad; auto. destruct MAD as (_ & X); [discriminate|]. rewrite S in X. discriminate. }
  constructor; simpl; auto; try discriminate; try congruence.
  intros L. rewrite S in MNF. simpl in MNF. rewrite MNF in L; auto. discriminate.
Qed.

Lemma linv_lockin : forall ds mk code ad r, lmid ds mk code ad r -> st r = READY ->
  linv ds mk code ad (w_pc r (PExt ALockIn)).
Proof.
  intros ds mk code ad r [CI L1 MK1 L0 MK ME MF MH MFIN MNF MAD] S.
  assert (ADN : ad = None).
  { destruct ad; auto. destruct MAD as (_ & X); [discriminate|]. rewrite S in X. discriminate. }
  constructor; simpl; auto; try discriminate; try congruence.
  intros L. rewrite S in MNF. simpl in MNF. rewrite MNF in L; auto. discriminate.
Qed.

Lemma finish_l_ok : forall ds mk code ad r, lmid ds mk code ad r -> finished (st r) = true ->
  linv ds mk code ad (fst (finish_l r)).
Proof. intros. simpl. apply linv_doneh; auto. Qed.

Lemma loop_tail_l_ok : forall ds mk code ad r, lmid ds mk code ad r ->
  (finished (st r) = false -> st r = WAITING /\ ev r = false /\ uns r <> 0) ->
  linv ds mk code ad (fst (loop_tail_l r)).
Proof.
  intros ds mk code ad r M H. unfold loop_tail_l. destruct (finished (st r)) eqn:F.
  - apply finish_l_ok; auto.
  - destruct (H eq_refl) as (?&?&?). simpl. apply linv_awaitready; auto.
Qed.

Lemma after_ready_l_ok : forall ds mk code ad r, lmid ds mk code ad r ->
  (st r = READY \/ finished (st r) = true \/ (st r = WAITING /\ uns r <> 0)) ->
  linv ds mk code ad (fst (after_ready_l r)).
Proof.
  intros ds mk code ad r M H. unfold after_ready_l. simpl.
  destruct (st r) eqn:S; try (apply loop_tail_l_ok; [apply lmid_ev; auto|simpl; rewrite S; simpl; intros; try discriminate;
     destruct H as [?|[?|(?&?)]]; try discriminate; auto]).
  simpl. apply linv_lockin; [apply lmid_ev; auto|simpl; auto].
Qed.

Lemma main_loop_l_ok : forall ds mk code ad r, lmid ds mk code ad r ->
  (st r = READY /\ ev r = true \/ finished (st r) = true \/ (st r = WAITING /\ uns r <> 0)) ->
  linv ds mk code ad (fst (main_loop_l r)).
Proof.
  intros ds mk code ad r M H. unfold main_loop_l. destruct (finished (st r)) eqn:F.
  - apply finish_l_ok; auto.
  - destruct (ev r) eqn:E.
    + apply after_ready_l_ok; auto. destruct H as [(?&?)|[?|?]]; auto; congruence.
    + destruct H as [(?&?)|[?|(?&?)]]; try congruence. simpl. apply linv_awaitready; auto.
Qed.

(* ------------------------------------------------------------------ registration loop of aio_submit *)
Record reginv (n : nat) (r : jst) : Prop := {
  ri_len : length (cur r) = n;
  ri_uns : uns r = Z.of_nat (count_nok (cur r));
  ri_l : launches r = 0%nat;
  ri_h : held r = [];
  ri_pc : pc r = PSpawned;
  ri_st : (st r = WAITING /\ ev r = false /\ uns r <> 0) \/ (st r = READY /\ ev r = true /\ uns r = 0)
          \/ (st r = ERROR /\ ev r = true /\ fdep r = true);
  ri_F : (exists i, nth_error (cur r) i = Some DFAIL) -> st r = ERROR;
  ri_fd : fdep r = true -> exists i, nth_error (cur r) i = Some DFAIL
}.

Lemma count_nok_wait : forall l i, nth_error l i = Some DWAIT -> (count_nok l > 0)%nat.
Proof. induction l; destruct i; simpl; intros; try discriminate. inversion H; subst; simpl; lia. specialize (IHl _ H). lia. Qed.

Lemma nth_error_replace : forall A i j (v : A) l, nth_error (replace_nth i v l) j =
  if Nat.eqb i j then match nth_error l j with Some _ => Some v | None => None end else nth_error l j.
Proof.
  induction i; destruct l; destruct j; simpl; auto; try (destruct (Nat.eqb i j); auto; fail).
Qed.

Lemma reginv_check : forall n r i new r' w, reginv n r -> nth_error (cur r) i = Some DWAIT ->
  check_l true true r i new = (r', w) -> reginv n r' /\ cur r' = replace_nth i new (cur r).
Proof.
  intros n r i new r' w R N H. apply check_l_async in H. destruct H as (A & _ & E & C & _).
  destruct (C _ N) as (Cc & Cu & Cf). clear C.
  destruct A as [Ah Al Ap Ae As Afd Alen Aw Aes Au0 Af2]. destruct R as [Rl Ru Rla Rh Rp Rs Rf Rfd].
  assert (U' : uns r' = Z.of_nat (count_nok (cur r'))).
  { rewrite Cc, Cu, Ru. symmetry. apply count_nok_replace; auto. }
  split; auto. constructor; auto; try congruence.
  - destruct Ap as [?|(?&_)]; congruence.
  - pose proof (count_nok_wait _ _ N) as P.
    destruct Rs as [(S&E0&U)|[(S&E0&U)|(S&E0&F)]].
    + destruct As as [X|[(_&X&X2&X3)|(_&X&X2&X3)]]; auto.
      left. rewrite X, S. split; auto. split.
      * destruct Aes as [?|[?|?]]; congruence.
      * destruct Au0 as [->|Y]; auto. intros Z0. rewrite X, S in Y. specialize (Y Z0 eq_refl). discriminate.
    + lia.
    + right; right. destruct (Ae E0) as (E1 & _). split; auto.
      destruct As as [X|[(X&_)|(X&_)]]; try congruence; rewrite S in X; discriminate.
  - intros (k & Hk). rewrite Cc in Hk. rewrite nth_error_replace in Hk.
    destruct (Nat.eqb i k) eqn:Ek.
    + apply Nat.eqb_eq in Ek. subst k. rewrite N in Hk. inversion Hk; subst new.
      assert (F : finished (st r') = true).
      { destruct Cf as [F|F]; auto; try discriminate.
        destruct Rs as [(S&_)|[(S&_)|(S&_)]]; rewrite S in F; try discriminate.
        destruct As as [X|[(X&_)|(X&_)]]; try (rewrite S in X; discriminate). rewrite X, S. reflexivity. }
      destruct As as [X|[(_&X&_)|(_&X&_)]]; auto; try (rewrite X in F; discriminate).
      destruct Rs as [(S&_)|[(S&_&U)|(S&_)]]; try congruence; rewrite X, S in F; discriminate.
    + assert (S : st r = ERROR) by (apply Rf; eauto).
      destruct As as [X|[(X&_)|(X&_)]]; try congruence; rewrite S in X; discriminate.
  - intros FD. rewrite Cc. destruct Af2 as [X|(NF & X)].
    + rewrite X in FD. destruct (Rfd FD) as (k & Hk). exists k. rewrite nth_error_replace.
      destruct (Nat.eqb i k) eqn:Ek; auto. apply Nat.eqb_eq in Ek. subst k. congruence.
    + destruct (E X) as [Y|Y]; [rewrite Y in NF; discriminate|]. subst new. exists i.
      rewrite nth_error_replace, Nat.eqb_refl, N. auto.
Qed.

Lemma replace_nth_app : forall A (done : list A) v x tl, replace_nth (length done) v (done ++ x :: tl) = done ++ v :: tl.
Proof. induction done; simpl; intros; auto. f_equal; auto. Qed.
Lemma nth_error_app_len : forall A (done : list A) x tl, nth_error (done ++ x :: tl) (length done) = Some x.
Proof. induction done; simpl; auto. Qed.

Lemma reg_l_ok : forall news n r done,
  reginv n r -> cur r = done ++ repeat DWAIT (length news) ->
  reginv n (reg_l true true r news (length done)) /\ cur (reg_l true true r news (length done)) = done ++ news.
Proof.
  induction news as [|x rest IH]; simpl; intros n r done R C.
  - rewrite app_nil_r in *. auto.
  - destruct (check_l true true r (length done) x) as [r' w] eqn:H. simpl.
    assert (N : nth_error (cur r) (length done) = Some DWAIT) by (rewrite C; apply nth_error_app_len).
    destruct (@reginv_check n r (length done) x r' w R N H) as (R' & C').
    rewrite C, replace_nth_app in C'.
    specialize (IH n r' (done ++ [x]) R').
    rewrite app_length in IH. simpl in IH. rewrite Nat.add_1_r in IH.
    rewrite <- !app_assoc in IH. simpl in IH. apply IH. exact C'.
Qed.

(* shape of the results of the loop functions: they only move the program counter and the event *)
Definition loop_shape (r : jst) (p : jst * bool) : Prop :=
  st (fst p) = st r /\ cur (fst p) = cur r /\ uns (fst p) = uns r /\ held (fst p) = held r /\
  fdep (fst p) = fdep r /\ launches (fst p) = launches r /\
  (snd p = true <-> (past_loop (pc (fst p)) = true /\ st r <> DONE)) /\
  ((pc (fst p) = PExt ADoneH /\ finished (st r) = true) \/
   (pc (fst p) = PAwaitReady /\ finished (st r) = false) \/
   (pc (fst p) = PExt ALockIn /\ st r = READY)).

Lemma finish_l_shape : forall r, finished (st r) = true -> loop_shape r (finish_l r).
Proof. intros r F. unfold loop_shape, finish_l. simpl. destruct (st r); simpl in *; try discriminate; intuition congruence. Qed.
Lemma loop_tail_l_shape : forall r, loop_shape r (loop_tail_l r).
Proof.
  intros r. unfold loop_tail_l. destruct (finished (st r)) eqn:F; [apply finish_l_shape; auto|].
  unfold loop_shape. simpl. intuition congruence.
Qed.
Lemma after_ready_l_shape : forall r, loop_shape r (after_ready_l r).
Proof.
  intros r. unfold after_ready_l. simpl.
  destruct (st r) eqn:S; try (pose proof (loop_tail_l_shape (w_ev r false)) as L; unfold loop_shape in *; simpl in *; rewrite S in *; exact L).
  unfold loop_shape; simpl. intuition congruence.
Qed.
Lemma main_loop_l_shape : forall r, loop_shape r (main_loop_l r).
Proof.
  intros r. unfold main_loop_l. destruct (finished (st r)) eqn:F; [apply finish_l_shape; auto|].
  destruct (ev r); [apply after_ready_l_shape|]. unfold loop_shape; simpl. intuition congruence.
Qed.

Lemma spawn_l_ok : forall ds mk code ad r news,
  linv ds mk code ad r -> pc r = PSpawned -> length news = length ds ->
  let p := spawn_l true true mk (is_some_b ad) r news in
  linv ds mk code ad (fst p) /\ cur (fst p) = news /\ started (pc (fst p)) = true /\
  (snd p = true <-> (past_loop (pc (fst p)) = true /\ st (fst p) <> DONE)) /\
  (st (fst p) = READY -> forall i d, nth_error news i = Some d -> d = DOK) /\
  held (fst p) = [] /\ launches (fst p) = 0%nat /\
  (st (fst p) = DONE -> mk = true) /\
  (in_start (pc (fst p)) = true -> st (fst p) = READY) /\
  (fdep (fst p) = true -> exists i, nth_error news i = Some DFAIL) /\
  counted (pc (fst p)) = true /\
  (pc (fst p) = PExt ADoneH \/ pc (fst p) = PAwaitReady \/ pc (fst p) = PExt ALockIn \/ pc (fst p) = PExt AAdopt).
Proof.
  intros ds mk code ad r news L P Len p.
  assert (NS : started (pc r) = false) by (rewrite P; auto).
  destruct (l_un L NS) as (Ul & Uh & Us & Uf & Uc & Uu).
  set (r0 := w_st (w_ev r false) WAITING).
  set (r1 := match news with
             | [] => w_st (w_ev r0 true) READY
             | _ => reg_l true true (w_cur (w_uns r0 (Z.of_nat (length news))) (repeat DWAIT (length news))) news 0
             end).
  assert (R1 : reginv (length news) r1 /\ cur r1 = news).
  { subst r1. destruct news as [|x rest] eqn:En.
    - simpl. split; [constructor; simpl; auto|auto].
      + rewrite Uc; auto.
      + rewrite Uc; simpl; auto.
      + intros (i & Hi). rewrite Uc in Hi. destruct i; discriminate.
      + intros X. congruence.
    - rewrite <- En in *. apply (@reg_l_ok news (length news) _ []); simpl; auto.
      constructor; simpl; auto.
      + apply repeat_length.
      + rewrite count_nok_repeat; auto.
      + left. repeat split; auto. rewrite En. simpl. lia.
      + intros (i & Hi). apply nth_error_In in Hi. apply repeat_spec in Hi. discriminate.
      + intros X. congruence. }
  destruct R1 as (R1 & C1). destruct R1 as [Rl Ru Rla Rh Rp Rs Rf Rfd].
  set (r2 := if mk then w_st r1 DONE else r1).
  destruct ad as [v|].
  { (* a process of an earlier run is still running: RUNNING, wait for it *)
    assert (Ep : p = (w_pc (w_st r2 RUNNING) (PExt AAdopt), false)) by reflexivity. rewrite Ep. simpl.
    assert (C2 : cur r2 = news) by (subst r2; destruct mk; simpl; auto).
    assert (U2 : uns r2 = Z.of_nat (count_nok (cur r2))) by (subst r2; destruct mk; simpl; auto).
    assert (H2 : held r2 = []) by (subst r2; destruct mk; simpl; auto).
    assert (L2 : launches r2 = 0%nat) by (subst r2; destruct mk; simpl; auto).
    assert (F2 : fdep r2 = fdep r1) by (subst r2; destruct mk; simpl; auto).
    split.
    { constructor; simpl; auto; try discriminate; try congruence; try lia.
      intros _. split; [rewrite C2; congruence|exact U2]. }
    split; [exact C2|]. split; [reflexivity|]. split; [split; [discriminate|intros (X & _); discriminate]|].
    split; [discriminate|]. split; [exact H2|]. split; [exact L2|]. split; [discriminate|]. split; [discriminate|].
    split; [rewrite F2, <- C1; exact Rfd|]. split; [reflexivity|]. right; right; right; reflexivity. }
  assert (M2 : lmid ds mk code None r2).
  { subst r2. destruct mk; constructor; simpl; auto; try congruence; try lia.
    - intros _ D. destruct Rs as [(S&_)|[(S&_)|(S&_)]]; congruence.
    - intros _ E _. destruct Rs as [(S&_)|[(S&_)|(S&_&F)]]; congruence.
    - intros X. rewrite (Rf X). auto. }
  assert (D2 : st r2 = READY /\ ev r2 = true \/ finished (st r2) = true \/ st r2 = WAITING /\ uns r2 <> 0).
  { subst r2. destruct mk; simpl; auto.
    destruct Rs as [(S&E&U)|[(S&E&U)|(S&E&F)]]; auto. right; left. rewrite S; auto. }
  pose proof (main_loop_l_ok M2 D2) as LI.
  pose proof (main_loop_l_shape r2) as (S_st & S_cur & S_uns & S_held & S_fdep & S_l & S_snd & S_pc).
  assert (Ep : p = main_loop_l r2) by reflexivity. rewrite Ep.
  split; [exact LI|]. split.
  { rewrite S_cur. subst r2. destruct mk; simpl; auto. }
  split.
  { destruct S_pc as [(X&_)|[(X&_)|(X&_)]]; rewrite X; auto. }
  split.
  { rewrite S_snd, S_st. tauto. }
  split.
  { rewrite S_st. intros RD i d Hi. subst r2. destruct mk; simpl in RD; try discriminate.
    destruct Rs as [(S&_)|[(S&_&U)|(S&_)]]; try congruence.
    rewrite Ru in U. rewrite C1 in U. eapply count_nok_zero; eauto. lia. }
  split.
  { rewrite S_held. subst r2. destruct mk; simpl; auto. }
  split.
  { rewrite S_l. subst r2. destruct mk; simpl; auto. }
  split.
  { rewrite S_st. subst r2. destruct mk; simpl; auto.
    intros D. destruct Rs as [(S&_)|[(S&_)|(S&_)]]; congruence. }
  split.
  { rewrite S_st. destruct S_pc as [(X&_)|[(X&_)|(X&Y)]]; rewrite X; simpl; auto; discriminate. }
  split.
  { rewrite S_fdep. rewrite <- C1. subst r2. destruct mk; simpl; auto. }
  split; [destruct S_pc as [(X&_)|[(X&_)|(X&_)]]; rewrite X; auto|].
  destruct S_pc as [(X&_)|[(X&_)|(X&_)]]; auto.
Qed.

(* the other steps of the coroutine, job-local part *)
(* a job that is in its loop or in aio_start has no process left by an earlier run *)
Lemma ad_none : forall ds mk code ad r, linv ds mk code ad r -> started (pc r) = true ->
  is_adopt (pc r) = false -> past_loop (pc r) = false -> ad = None.
Proof.
  intros ds mk code ad r L S A P. destruct ad as [v|]; auto.
  destruct (l_ad L) as [X|(X & _)]; auto; try discriminate; congruence.
Qed.

Lemma lmid_of_linv : forall ds mk code ad r, linv ds mk code ad r -> started (pc r) = true -> held r = [] ->
  (finished (st r) = false -> launches r = 0%nat) ->
  (finished (st r) = true -> launches r = 1%nat -> st r = code_state code) ->
  (mk = true -> st r = DONE) ->
  ad = None -> is_adopt (pc r) = false ->
  lmid ds mk code ad r.
Proof.
  intros ds mk code ad r L S H NF FIN MK ADN NA. constructor; auto.
  - apply (l_CI L S).
  - apply (l_L1 L).
  - intros L1. apply (l_L2 L L1).
  - apply (l_L0 L).
  - apply (l_E L).
  - intros X. destruct (l_F L X) as [Y|Y]; auto. congruence.
  - intros X. congruence.
Qed.

Lemma lmid_st : forall ds mk code ad r v, lmid ds mk code ad r -> mk = false -> ad = None ->
  (v = DONE -> launches r = 1%nat) -> (v = ERROR -> launches r = 0%nat -> fdep r = true) ->
  ((exists i, nth_error (cur r) i = Some DFAIL) -> finished v = true) ->
  (finished v = true -> launches r = 1%nat -> v = code_state code) ->
  (finished v = false -> launches r = 0%nat) ->
  lmid ds mk code ad (w_st r v).
Proof.
  intros ds mk code ad r v [CI L1 MK1 L0 MK ME MF MH MFIN MNF MAD] M ADN D E F FIN NF.
  constructor; simpl; auto; try congruence.
  intros L D'. specialize (D D'). congruence.
Qed.

(* PWoken ALockOutAbort: the aborted start returns *)
Lemma abort_l_ok : forall ds mk code ad r, linv ds mk code ad r -> pc r = PWoken ALockOutAbort -> held r = [] ->
  let p := abort_l true r in
  linv ds mk code ad (fst p) /\ loop_shape (if uns r =? 0 then fst (set_event_l (w_st r READY)) else w_st r WAITING) p.
Proof.
  intros ds mk code ad r L P H p.
  assert (S : started (pc r) = true) by (rewrite P; auto).
  assert (ADN : ad = None) by (apply (ad_none L S); rewrite P; reflexivity).
  assert (L0 : launches r = 0%nat).
  { pose proof (l_L1 L). destruct (launches r) as [|[|n]] eqn:E; auto; try lia.
    destruct (l_L2 L E) as (_ & [X|(X&_)]); rewrite P in X; discriminate. }
  assert (MK : mk = false).
  { destruct mk; auto. pose proof (l_mk L eq_refl ADN S) as D. pose proof (l_D L D) as X. rewrite P in X. discriminate. }
  assert (NE : st r <> ERROR).
  { intros E. destruct (l_EN L E) as [X|[X|X]]; rewrite P in X; discriminate. }
  assert (ND : st r <> DONE).
  { intros E. pose proof (l_D L E) as X; rewrite P in X; discriminate. }
  assert (NFL : (exists i, nth_error (cur r) i = Some DFAIL) -> False).
  { intros X. destruct (l_F L X) as [F|F]; [destruct (st r); simpl in F; congruence|rewrite P in F; discriminate]. }
  assert (M : lmid ds mk code ad r).
  { apply lmid_of_linv; auto; try congruence. rewrite P; reflexivity. }
  unfold p, abort_l. simpl. destruct (uns r =? 0) eqn:U.
  - destruct (set_event_l (w_st r READY)) as [r2 w2] eqn:SE. apply set_event_l_spec in SE. simpl in SE.
    destruct SE as (S_st & S_uns & S_cur & S_held & S_fdep & S_l & S_ev & S_pc). simpl.
    split; [|apply main_loop_l_shape].
    apply main_loop_l_ok; [|left; auto].
    destruct M as [CI L1 MK1 L0' MK' ME MF MH MFIN MNF MAD].
    constructor; rewrite ?S_st, ?S_uns, ?S_cur, ?S_held, ?S_fdep, ?S_l; auto; try congruence; try discriminate;
      try (intros X; exfalso; auto; fail).
  - simpl. split; [|apply main_loop_l_shape].
    apply main_loop_l_ok.
    + apply lmid_st; auto; try discriminate; try (intros X; exfalso; auto; fail).
    + right; right. simpl. split; auto. apply Z.eqb_neq; auto.
Qed.

(* PWoken AProc: the process has exited *)
Lemma proc_l_ok : forall ds mk code ad r, linv ds mk code ad r -> pc r = PWoken AProc -> held r = [] ->
  let p := proc_l code r in
  linv ds mk code ad (fst p) /\ loop_shape (w_st r (code_state code)) p /\ pc (fst p) = PExt ADoneH.
Proof.
  intros ds mk code ad r L P H p.
  assert (S : started (pc r) = true) by (rewrite P; auto).
  assert (ADN : ad = None) by (apply (ad_none L S); rewrite P; reflexivity).
  assert (L1 : launches r = 1%nat) by (apply (l_run L); rewrite P; auto).
  destruct (l_L2 L L1) as (MK & _).
  assert (M : lmid ds mk code ad (w_st r (code_state code))).
  { pose proof (l_CI L S). pose proof (l_L1 L).
    constructor; simpl; auto; try congruence; try lia.
    - intros _. unfold code_state. destruct (code =? 0); auto.
    - intros F. unfold code_state in F. destruct (code =? 0); discriminate. }
  assert (F : finished (code_state code) = true) by (unfold code_state; destruct (code =? 0); auto).
  unfold p, proc_l. fold (code_state code). unfold loop_tail_l. simpl. rewrite F.
  split; [apply finish_l_ok; auto|]. split; [apply finish_l_shape; auto|reflexivity].
Qed.

(* PWoken AAdopt: the process left by an earlier run has ended *)
Lemma adopt_l_ok : forall ds mk code v r, linv ds mk code (Some v) r -> pc r = PWoken AAdopt -> finished v = true ->
  let p := adopt_l v r in
  linv ds mk code (Some v) (fst p) /\ loop_shape (w_st r v) p /\ pc (fst p) = PExt ADoneH.
Proof.
  intros ds mk code v r L P FV p.
  assert (S : started (pc r) = true) by (rewrite P; auto).
  assert (L0 : launches r = 0%nat).
  { pose proof (l_L1 L). destruct (launches r) as [|[|n]] eqn:E; auto; try lia.
    destruct (l_L2 L E) as (_ & [X|(X&_)]); rewrite P in X; discriminate. }
  assert (H : held r = []).
  { destruct (held r) eqn:E; auto. assert (X : held r <> []) by congruence.
    destruct (l_held L X) as [Y|[Y|Y]]; rewrite P in Y; discriminate. }
  assert (M : lmid ds mk code (Some v) (w_st r v)).
  { pose proof (l_CI L S). pose proof (l_L1 L).
    constructor; simpl; auto; try congruence; try lia; try discriminate.
    intros _ D. right. congruence. }
  unfold p, adopt_l. unfold loop_tail_l. simpl. rewrite FV.
  split; [apply finish_l_ok; auto|]. split; [apply finish_l_shape; auto|reflexivity].
Qed.

(* a change of program counter that keeps the class of the job *)
Lemma linv_deliver : forall ds mk code ad r a, linv ds mk code ad r -> pc r = PExt a -> linv ds mk code ad (w_pc r (PWoken a)).
Proof.
  intros ds mk code ad r a [A D EV CI L1 RUN L2 L0 MK E EN UN F H WR RS WS RT AD ADPC ADST LRUN] P.
  constructor; simpl; auto; try discriminate; rewrite P in *; simpl in *;
    try (destruct a; simpl in *; auto; fail).
  - intros X. destruct (EN X) as [Y|Y]; [discriminate|]. right. destruct a; auto.
  - intros X. destruct (H X) as [Y|[Y|Y]]; try discriminate; destruct a; simpl in *; try discriminate; auto.
Qed.

Ltac pcc := intros; try (intuition (try discriminate; try congruence; auto); fail).

Lemma linv_lockoutrun : forall ds mk code ad r, linv ds mk code ad r -> pc r = PWoken ALockOutRun -> linv ds mk code ad (w_pc r (PExt AProc)).
Proof.
  intros ds mk code ad r [A D EV CI L1 RUN L2 L0 MK E EN UN F H WR RS WS RT AD ADPC ADST LRUN] P.
  constructor; simpl; rewrite P in *; simpl in *; pcc.
Qed.

Lemma linv_returned : forall ds mk code ad r, linv ds mk code ad r -> pc r = PWoken ADoneH -> linv ds mk code ad (w_pc r (PReturned (st r))).
Proof.
  intros ds mk code ad r [A D EV CI L1 RUN L2 L0 MK E EN UN F H WR RS WS RT AD ADPC ADST LRUN] P.
  constructor; simpl; rewrite P in *; simpl in *; pcc.
Qed.

Lemma linv_spawned : forall ds mk code ad r, linv ds mk code ad r -> pc r = PNot -> linv ds mk code ad (w_pc r PSpawned).
Proof.
  intros ds mk code ad r [A D EV CI L1 RUN L2 L0 MK E EN UN F H WR RS WS RT AD ADPC ADST LRUN] P.
  assert (U := UN). rewrite P in U. simpl in U. destruct (U eq_refl) as (U1&U2&U3&U4&U5&U6).
  constructor; simpl; auto; try discriminate; try congruence; try lia;
    try (intros X; rewrite U5 in X; destruct X as [i X]; destruct i; discriminate).
Qed.
Lemma linv_dup : forall ds mk code ad r k, linv ds mk code ad r -> pc r = PNot -> linv ds mk code ad (w_pc r (PDup k)).
Proof.
  intros ds mk code ad r k [A D EV CI L1 RUN L2 L0 MK E EN UN F H WR RS WS RT AD ADPC ADST LRUN] P.
  assert (U := UN). rewrite P in U. simpl in U. destruct (U eq_refl) as (U1&U2&U3&U4&U5&U6).
  constructor; simpl; auto; try discriminate; try congruence; try lia;
    try (intros X; rewrite U5 in X; destruct X as [i X]; destruct i; discriminate).
Qed.

(* PWoken ALockIn: aio_start after the job lock has been taken *)
Lemma lockin_facts : forall ds mk code ad r, linv ds mk code ad r -> pc r = PWoken ALockIn ->
  launches r = 0%nat /\ mk = false /\ st r <> ERROR /\ st r <> DONE /\
  ((exists i, nth_error (cur r) i = Some DFAIL) -> False) /\ ad = None.
Proof.
  intros ds mk code ad r L P.
  assert (S : started (pc r) = true) by (rewrite P; auto).
  assert (ADN : ad = None) by (apply (ad_none L S); rewrite P; reflexivity).
  assert (L0 : launches r = 0%nat).
  { pose proof (l_L1 L). destruct (launches r) as [|[|n]] eqn:E; auto; try lia.
    destruct (l_L2 L E) as (_ & [X|(X&_)]); rewrite P in X; discriminate. }
  assert (MK : mk = false).
  { destruct mk; auto. pose proof (l_mk L eq_refl ADN S) as D. pose proof (l_D L D) as X. rewrite P in X. discriminate. }
  assert (NE : st r <> ERROR).
  { intros E. destruct (l_EN L E) as [X|[X|X]]; rewrite P in X; discriminate. }
  assert (ND : st r <> DONE).
  { intros E. pose proof (l_D L E) as X; rewrite P in X; discriminate. }
  repeat split; auto.
  intros X. destruct (l_F L X) as [F|F]; [destruct (st r); simpl in F; congruence|rewrite P in F; discriminate].
Qed.

Lemma linv_launch : forall ds mk code ad r hd, linv ds mk code ad r -> pc r = PWoken ALockIn ->
  linv ds mk code ad (w_pc (w_st (w_launches (w_held r hd) (S (launches (w_held r hd)))) RUNNING) (PExt ALockOutRun)).
Proof.
  intros ds mk code ad r hd L P. destruct (lockin_facts L P) as (L0 & MK & NE & ND & NF & ADN).
  destruct L as [A D EV CI L1 RUN L2 L0' MK' E EN UN F H WR RS WS RT AD ADPC ADST LRUN].
  constructor; simpl; rewrite P in *; simpl in *; rewrite ?L0; pcc.
Qed.

Lemma held_nil_of_pc : forall ds mk code ad r, linv ds mk code ad r ->
  pc r <> PExt ALockOutAbort -> pc r <> PWoken ALockOutAbort -> in_run (pc r) = false -> held r = [].
Proof.
  intros ds mk code ad r L N1 N2 N3. destruct (held r) eqn:E; auto. exfalso.
  assert (X : held r <> []) by congruence. destruct (l_held L X) as [Y|[Y|Y]]; congruence.
Qed.

(* the aborted start: the locks taken so far are kept until the job lock has been released *)
Lemma linv_abortheld : forall ds mk code ad r hd, linv ds mk code ad r -> pc r = PWoken ALockIn ->
  linv ds mk code ad (w_pc (w_held r hd) (PExt ALockOutAbort)).
Proof.
  intros ds mk code ad r hd L P. destruct (lockin_facts L P) as (L0 & MK & NE & ND & NF & ADN).
  destruct L as [A D EV CI L1 RUN L2 L0' MK' E EN UN F H WR RS WS RT AD ADPC ADST LRUN].
  constructor; simpl; rewrite P in *; simpl in *; rewrite ?L0; pcc.
Qed.

Lemma linv_release : forall ds mk code ad r, linv ds mk code ad r -> started (pc r) = true -> linv ds mk code ad (w_held r []).
Proof.
  intros ds mk code ad r [A D EV CI L1 RUN L2 L0' MK' E EN UN F H WR RS WS RT AD ADPC ADST LRUN] S.
  constructor; simpl; pcc.
Qed.

(* ------------------------------------------------------------------ the global invariant *)
Definition jl (W : workload) (s : state) (x : nat) : Prop :=
  linv (deps W x) (j_marker (spec W x)) (j_code (spec W x)) (adopted W x) (jobs s x).

Definition cb_ok (s : state) (c : cb) : Prop :=
  match c with
  | CCheck j _ | CNotify j _ => started (pc (jobs s j)) = true
  | _ => True
  end.

Definition cntf (s : state) (j : nat) : bool := counted (pc (jobs s j)).

Record Inv (W : workload) (s : state) : Prop := {
  I_loc : forall x, jl W s x;
  I_out : forall x, (njobs W <= x)%nat -> pc (jobs s x) = PNot;
  I_CO : forall x i k, started (pc (jobs s x)) = true -> nth_error (cur (jobs s x)) i = Some DOK ->
           nth_error (deps W x) i = Some (DJob k) -> st (jobs s k) = DONE;
  I_CF : forall x i, started (pc (jobs s x)) = true -> nth_error (cur (jobs s x)) i = Some DFAIL ->
           exists k, nth_error (deps W x) i = Some (DJob k) /\ st (jobs s k) = ERROR;
  I_RD : forall x k, (st (jobs s x) = READY \/ in_start (pc (jobs s x)) = true) -> In (DJob k) (deps W x) ->
           st (jobs s k) = DONE;
  I_FD : forall x, fdep (jobs s x) = true -> exists k, In (DJob k) (deps W x) /\ st (jobs s k) = ERROR;
  I_LD : forall x k, launches (jobs s x) = 1%nat -> In (DJob k) (deps W x) -> st (jobs s k) = DONE;
  I_sub : forall x k, spawned (pc (jobs s x)) = true -> In (DJob k) (deps W x) -> spawned (pc (jobs s k)) = true;
  I_cnt : unfinished s = Z.of_nat (length (filter (cntf s) (seq 0 (njobs W))));
  I_failed : forall x, In x (failed s) <-> (past_loop (pc (jobs s x)) = true /\ st (jobs s x) <> DONE);
  I_q : forall c, In c (queue s) -> cb_ok s c
}.

Lemma wf_dep : forall W j d, wf W = true -> In d (deps W j) -> dep_wf W j d = true.
Proof.
  intros W j d H I. unfold wf in H. rewrite forallb_forall in H.
  destruct (Nat.lt_ge_cases j (njobs W)) as [L|L].
  - assert (X : In j (seq 0 (njobs W))) by (apply in_seq; lia).
    specialize (H _ X). rewrite forallb_forall in H. auto.
  - unfold deps, spec in I. rewrite nth_overflow in I; auto; simpl in I; contradiction.
Qed.
Lemma wf_lt : forall W j k, wf W = true -> In (DJob k) (deps W j) -> (k < j)%nat.
Proof. intros W j k H I. pose proof (@wf_dep W j (DJob k) H I) as X. simpl in X. apply Nat.ltb_lt; auto. Qed.

Lemma count_upd_gen : forall (f : nat -> bool) (g : nat -> bool) j a n,
  (forall x, x <> j -> f x = g x) ->
  (length (filter f (seq a n)) + (if (a <=? j)%nat && (j <? a + n)%nat then (if g j then 1 else 0) else 0)
   = length (filter g (seq a n)) + (if (a <=? j)%nat && (j <? a + n)%nat then (if f j then 1 else 0) else 0))%nat.
Proof.
  intros f g j a n H. revert a. induction n; intros a; simpl.
  - destruct ((a <=? j)%nat && (j <? a + 0)%nat) eqn:E; auto.
    apply andb_true_iff in E. destruct E as [E1 E2]. apply Nat.leb_le in E1. apply Nat.ltb_lt in E2. lia.
  - specialize (IHn (S a)).
    destruct (Nat.eq_dec a j) as [->|N].
    + assert (E0 : ((j <=? j)%nat && (j <? j + S n)%nat) = true).
      { apply andb_true_iff; split; [apply Nat.leb_le|apply Nat.ltb_lt]; lia. }
      assert (E1 : ((S j <=? j)%nat && (j <? S j + n)%nat) = false).
      { apply andb_false_iff; left. apply Nat.leb_gt. lia. }
      rewrite E0. rewrite E1 in IHn. destruct (f j), (g j); simpl; lia.
    + rewrite (H a N).
      assert (E : ((a <=? j)%nat && (j <? a + S n)%nat) = ((S a <=? j)%nat && (j <? S a + n)%nat)).
      { replace (a + S n)%nat with (S a + n)%nat by lia. f_equal.
        destruct (a <=? j)%nat eqn:A1; destruct (S a <=? j)%nat eqn:A2; auto;
          [apply Nat.leb_le in A1; apply Nat.leb_gt in A2; lia | apply Nat.leb_gt in A1; apply Nat.leb_le in A2; lia]. }
      rewrite E. set (c := ((S a <=? j)%nat && (j <? S a + n)%nat)) in *. destruct (g a); simpl; lia.
Qed.

(* what no transition ever undoes; stab0: moreover nothing is launched *)
Definition stab_gen (strict : bool) (s s' : state) : Prop :=
  forall k,
    (st (jobs s k) = DONE -> st (jobs s' k) = DONE) /\
    (st (jobs s k) = ERROR -> st (jobs s' k) = ERROR) /\
    (past_loop (pc (jobs s k)) = true -> past_loop (pc (jobs s' k)) = true) /\
    (forall r0, pc (jobs s k) = PReturned r0 -> pc (jobs s' k) = PReturned r0) /\
    (launches (jobs s' k) = launches (jobs s k) \/
     (strict = false /\ launches (jobs s' k) = S (launches (jobs s k)) /\ pc (jobs s k) = PWoken ALockIn)).
Definition stab := stab_gen false.
Definition stab0 := stab_gen true.

Lemma stab0_refl : forall s s', jobs s' = jobs s -> stab0 s s'.
Proof. intros s s' E k. rewrite E. repeat split; auto. Qed.
Lemma stab0_stab : forall s s', stab0 s s' -> stab s s'.
Proof. intros s s' H k. destruct (H k) as (A & B & C & D & [E|(E & _)]); [|discriminate]. repeat split; auto. Qed.
Lemma stab0_trans : forall s1 s2 s3, stab0 s1 s2 -> stab0 s2 s3 -> stab0 s1 s3.
Proof.
  intros s1 s2 s3 A B k. destruct (A k) as (A1 & A2 & A3 & A4 & [A5|(A5&_)]); [|discriminate].
  destruct (B k) as (B1 & B2 & B3 & B4 & [B5|(B5&_)]); [|discriminate].
  split; [auto|]. split; [auto|]. split; [auto|]. split; [intros r0 X; eauto|]. left. congruence.
Qed.

Lemma past_not_adopt : forall p, past_loop p = true -> is_adopt p = true -> False.
Proof. intros p. destruct p as [| | | | |a|a|]; try discriminate; destruct a; discriminate. Qed.

Lemma inv_update : forall strict W s s' j r',
  wf W = true -> Inv W s -> (j < njobs W)%nat ->
  jobs s' = upd (jobs s) j r' ->
  linv (deps W j) (j_marker (spec W j)) (j_code (spec W j)) (adopted W j) r' ->
  (st (jobs s j) = DONE -> st r' = DONE) -> (st (jobs s j) = ERROR -> st r' = ERROR) ->
  (started (pc (jobs s j)) = true -> started (pc r') = true) ->
  (past_loop (pc (jobs s j)) = true -> past_loop (pc r') = true) ->
  (forall r0, pc (jobs s j) = PReturned r0 -> pc r' = PReturned r0) ->
  (launches r' = launches (jobs s j) \/
   (strict = false /\ launches r' = S (launches (jobs s j)) /\ pc (jobs s j) = PWoken ALockIn)) ->
  (spawned (pc (jobs s j)) = true -> spawned (pc r') = true) ->
  (spawned (pc r') = true -> forall k, In (DJob k) (deps W j) -> spawned (pc (jobs s k)) = true) ->
  (forall i k, started (pc r') = true -> nth_error (cur r') i = Some DOK -> nth_error (deps W j) i = Some (DJob k) ->
     st (jobs s k) = DONE) ->
  (forall i, started (pc r') = true -> nth_error (cur r') i = Some DFAIL ->
     exists k, nth_error (deps W j) i = Some (DJob k) /\ st (jobs s k) = ERROR) ->
  ((st r' = READY \/ in_start (pc r') = true) -> forall k, In (DJob k) (deps W j) -> st (jobs s k) = DONE) ->
  (fdep r' = true -> exists k, In (DJob k) (deps W j) /\ st (jobs s k) = ERROR) ->
  (launches r' = 1%nat -> forall k, In (DJob k) (deps W j) -> st (jobs s k) = DONE) ->
  unfinished s' - unfinished s = (if counted (pc r') then 1 else 0) - (if counted (pc (jobs s j)) then 1 else 0) ->
  (forall x, In x (failed s') <->
     In x (failed s) \/ (x = j /\ past_loop (pc r') = true /\ past_loop (pc (jobs s j)) = false /\ st r' <> DONE)) ->
  (forall c, In c (queue s') -> In c (queue s) \/ cb_ok s' c) ->
  Inv W s' /\ stab_gen strict s s'.
Proof.
  intros strict W s s' j r' WF I Jn EJ L SD SE SS SP RET LCH SW SUB CO CF RD FD LD CNT FL Q.
  set (r := jobs s j) in *.
  assert (SAME : forall x, x <> j -> jobs s' x = jobs s x).
  { intros x N. rewrite EJ. apply upd_other; auto. }
  assert (ATJ : jobs s' j = r') by (rewrite EJ; apply upd_same).
  assert (STD : forall k, st (jobs s k) = DONE -> st (jobs s' k) = DONE).
  { intros k D. destruct (Nat.eq_dec k j) as [->|N]; [rewrite ATJ; auto|rewrite SAME; auto]. }
  assert (STE : forall k, st (jobs s k) = ERROR -> st (jobs s' k) = ERROR).
  { intros k D. destruct (Nat.eq_dec k j) as [->|N]; [rewrite ATJ; auto|rewrite SAME; auto]. }
  assert (STA : forall k, started (pc (jobs s k)) = true -> started (pc (jobs s' k)) = true).
  { intros k D. destruct (Nat.eq_dec k j) as [->|N]; [rewrite ATJ; auto|rewrite SAME; auto]. }
  assert (SPW : forall k, spawned (pc (jobs s k)) = true -> spawned (pc (jobs s' k)) = true).
  { intros k D. destruct (Nat.eq_dec k j) as [->|N]; [rewrite ATJ; auto|rewrite SAME; auto]. }
  split; [|intros k; destruct (Nat.eq_dec k j) as [->|N]; [rewrite ATJ; repeat split; auto|rewrite SAME; repeat split; auto]].
  constructor.
  - intros x. unfold jl. destruct (Nat.eq_dec x j) as [->|N]; [rewrite ATJ; auto|rewrite SAME; auto; apply (I_loc I)].
  - intros x G. rewrite SAME; [apply (I_out I); auto|lia].
  - intros x i k. destruct (Nat.eq_dec x j) as [->|N].
    + rewrite ATJ. intros. apply STD. eapply CO; eauto.
    + rewrite SAME; auto. intros. apply STD. eapply (I_CO I); eauto.
  - intros x i. destruct (Nat.eq_dec x j) as [->|N].
    + rewrite ATJ. intros A B. destruct (CF _ A B) as (k & K1 & K2). exists k; split; auto.
    + rewrite SAME; auto. intros A B. destruct (I_CF I _ _ A B) as (k & K1 & K2). exists k; split; auto.
  - intros x k. destruct (Nat.eq_dec x j) as [->|N].
    + rewrite ATJ. intros. apply STD. eapply RD; eauto.
    + rewrite SAME; auto. intros. apply STD. eapply (I_RD I); eauto.
  - intros x. destruct (Nat.eq_dec x j) as [->|N].
    + rewrite ATJ. intros A. destruct (FD A) as (k & K1 & K2). exists k; split; auto.
    + rewrite SAME; auto. intros A. destruct (I_FD I _ A) as (k & K1 & K2). exists k; split; auto.
  - intros x k. destruct (Nat.eq_dec x j) as [->|N].
    + rewrite ATJ. intros. apply STD. eapply LD; eauto.
    + rewrite SAME; auto. intros. apply STD. eapply (I_LD I); eauto.
  - intros x k. destruct (Nat.eq_dec x j) as [->|N].
    + rewrite ATJ. intros. apply SPW. eapply SUB; eauto.
    + rewrite SAME; auto. intros. apply SPW. eapply (I_sub I); eauto.
  - pose proof (@count_upd_gen (cntf s') (cntf s) j 0 (njobs W)) as C.
    assert (HX : forall x, x <> j -> cntf s' x = cntf s x).
    { intros x N. unfold cntf. rewrite SAME; auto. }
    specialize (C HX). clear HX.
    assert (E : ((0 <=? j)%nat && (j <? 0 + njobs W)%nat) = true).
    { apply andb_true_iff; split; [apply Nat.leb_le|apply Nat.ltb_lt]; lia. }
    rewrite E in C. unfold cntf at 2 4 in C. rewrite ATJ in C. fold r in C.
    pose proof (I_cnt I) as C0.
    destruct (counted (pc r')), (counted (pc r)); lia.
  - intros x. rewrite FL. rewrite (I_failed I). destruct (Nat.eq_dec x j) as [->|N].
    + rewrite ATJ. fold r. split.
      * intros [(P & D)|(_ & P & NP & D)].
        -- split; [auto|]. pose proof (l_A (I_loc I j) P) as F. fold r in F.
           destruct (st r) eqn:S; simpl in F; try discriminate; [exfalso; auto|].
           rewrite SE; auto; discriminate.
        -- split; auto.
      * intros (P & D). destruct (past_loop (pc r)) eqn:PR.
        -- left. split; auto; intros D'; apply D; auto.
        -- right. auto.
    + rewrite SAME; auto. split; [intros [X|(X&_)]; [auto|contradiction]|auto].
  - intros c Hc. destruct (Q c Hc) as [X|X]; auto.
    pose proof (I_q I c X) as Y. destruct c; simpl in *; auto.
Qed.

