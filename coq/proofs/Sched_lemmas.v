(* Proofs about model/Sched.v (properties C04, C06, C07). *)
From Coq Require Import ZArith List Bool Arith Lia ZifyBool.
From XV Require Import model.Sched.
Import ListNotations.
Open Scope Z_scope.

Set Implicit Arguments.

(* ------------------------------------------------------------------ generic helpers *)
Lemma upd_same : forall A (f : nat -> A) j v, upd f j v j = v.
Proof. intros. unfold upd. now rewrite Nat.eqb_refl. Qed.
Lemma upd_other : forall A (f : nat -> A) j v x, x <> j -> upd f j v x = f x.
Proof. intros. unfold upd. destruct (Nat.eqb x j) eqn:E; auto. apply Nat.eqb_eq in E. congruence. Qed.

Ltac upd_simpl :=
  repeat match goal with
  | |- context [upd _ ?j _ ?j] => rewrite upd_same
  | H : context [upd _ ?j _ ?j] |- _ => rewrite upd_same in H
  | Hn : ?x <> ?j |- context [upd _ ?j _ ?x] => rewrite (upd_other _ _ Hn)
  | Hn : ?x <> ?j, H : context [upd _ ?j _ ?x] |- _ => rewrite (upd_other _ _ Hn) in H
  | Hn : ?j <> ?x |- context [upd _ ?j _ ?x] => rewrite (upd_other _ _ (not_eq_sym Hn))
  | Hn : ?j <> ?x, H : context [upd _ ?j _ ?x] |- _ => rewrite (upd_other _ _ (not_eq_sym Hn)) in H
  end.

Fixpoint count_nok (l : list dstatus) : nat :=
  match l with [] => O | d :: r => (if is_ok d then 0 else 1) + count_nok r end%nat.

Lemma replace_nth_length : forall A i (v : A) l, length (replace_nth i v l) = length l.
Proof. induction i; destruct l; simpl; auto. Qed.

Lemma nth_error_replace_same : forall A i (v : A) l x, nth_error l i = Some x -> nth_error (replace_nth i v l) i = Some v.
Proof. induction i; destruct l; simpl; intros; try discriminate; eauto. Qed.
Lemma nth_error_replace_other : forall A i i' (v : A) l, i <> i' -> nth_error (replace_nth i v l) i' = nth_error l i'.
Proof. induction i; destruct l; destruct i'; simpl; intros; try congruence; eauto. Qed.

Lemma count_nok_replace : forall i new l old, nth_error l i = Some old ->
  Z.of_nat (count_nok (replace_nth i new l)) = Z.of_nat (count_nok l) - (okval new - okval old).
Proof.
  induction i; destruct l; simpl; intros; try discriminate.
  - inversion H; subst. destruct new, old; cbv [is_ok okval]; lia.
  - specialize (IHi new l old H). destruct (is_ok d); lia.
Qed.

Lemma count_nok_repeat : forall n, count_nok (repeat DWAIT n) = n.
Proof. induction n; simpl; auto. Qed.

Lemma count_nok_zero : forall l, count_nok l = O -> forall i d, nth_error l i = Some d -> d = DOK.
Proof.
  induction l; simpl; intros; destruct i; simpl in *; try discriminate.
  - inversion H0; subst. destruct d; simpl in *; auto; lia.
  - destruct (is_ok a); try lia; eapply IHl; eauto; lia.
Qed.

(* ------------------------------------------------------------------ the job-local part of Dependency.check *)
(* what an asynchronous dependency check may do to the record of its target (repaired code) *)
Record async_ok (r r' : jst) : Prop := {
  ao_held : held r' = held r;
  ao_launches : launches r' = launches r;
  ao_pc : pc r' = pc r \/ (pc r = PAwaitReady /\ pc r' = PWokenReady /\ ev r = false);
  ao_ev : ev r = true -> ev r' = true /\ pc r' = pc r;
  ao_st : st r' = st r
          \/ (finished (st r) = false /\ st r' = ERROR /\ fdep r' = true /\ ev r' = true)
          \/ (notstarted (st r) = true /\ st r' = READY /\ uns r' = 0 /\ ev r' = true);
  ao_fdep : fdep r = true -> fdep r' = true;
  ao_len : length (cur r') = length (cur r)
}.

Lemma async_ok_refl : forall r, async_ok r r.
Proof. intros; constructor; auto. Qed.

Lemma set_event_l_spec : forall r r' w, set_event_l r = (r', w) ->
  st r' = st r /\ uns r' = uns r /\ cur r' = cur r /\ held r' = held r /\ fdep r' = fdep r /\ launches r' = launches r /\
  ev r' = true /\
  ((w = false /\ pc r' = pc r /\ (ev r = true \/ pc r <> PAwaitReady))
   \/ (w = true /\ ev r = false /\ pc r = PAwaitReady /\ pc r' = PWokenReady)).
Proof.
  unfold set_event_l; intros r r' w H. destruct (ev r) eqn:E; [|destruct (pc r) eqn:P];
    inversion H; subst; simpl; rewrite ?E, ?P; intuition (auto; congruence).
Qed.

Lemma depchanged_l_async : forall r i old new r' w,
  depchanged_l true r i old new = (r', w) ->
  async_ok r r' /\ cur r' = replace_nth i new (cur r) /\
  (st r' = READY \/ uns r' = uns r - (okval new - okval old)) /\
  uns r' = uns r - (okval new - okval old) /\
  (w = true <-> pc r' <> pc r) /\
  (st r' = ERROR -> st r = ERROR \/ new = DFAIL) /\
  (new = DFAIL -> finished (st r') = true).
Proof.
  unfold depchanged_l; intros r i old new r' w H.
  set (r1 := w_cur (w_uns r (uns r - (okval new - okval old))) (replace_nth i new (cur r))) in *.
  destruct (dstatus_eqb new DFAIL && negb (finished (st r1))) eqn:E1.
  - destruct (set_event_l (w_fdep (w_st r1 ERROR) true)) as [r2 w2] eqn:S2.
    apply set_event_l_spec in S2. simpl in S2.
    destruct S2 as (S_st & S_uns & S_cur & S_held & S_fdep & S_l & S_ev & S_pc).
    assert (N : (uns r2 =? 0) && (negb true || notstarted (st r2)) = false).
    { rewrite S_st. simpl. apply andb_false_r. }
    rewrite N in H. inversion H; subst r' w. clear H N.
    apply andb_true_iff in E1. destruct E1 as [E1 E2]. apply negb_true_iff in E2. simpl in E2.
    assert (new = DFAIL) by (destruct new; simpl in E1; congruence).
    split; [constructor|]; simpl; rewrite ?S_st, ?S_uns, ?S_cur, ?S_held, ?S_fdep, ?S_l, ?replace_nth_length; auto.
    + destruct S_pc as [(?&?&?)|(?&?&?&?)]; [left|right]; auto.
    + intros Hev. destruct S_pc as [(?&?&?)|(?&?&?&?)]; [auto | congruence].
    + right; left. auto.
    + rewrite orb_false_r. repeat split; auto.
      * intros ->. destruct S_pc as [(?&?&?)|(?&?&?&?)]; congruence.
      * intros Hp. destruct S_pc as [(?&?&?)|(?&?&?&?)]; [exfalso; auto | auto].
  - destruct ((uns r1 =? 0) && (negb true || notstarted (st r1))) eqn:E3.
    + destruct (set_event_l (w_st r1 READY)) as [r3 w3] eqn:S3.
      apply set_event_l_spec in S3. simpl in S3.
      destruct S3 as (S_st & S_uns & S_cur & S_held & S_fdep & S_l & S_ev & S_pc).
      inversion H; subst r' w. clear H.
      apply andb_true_iff in E3. destruct E3 as [E3 E4]. simpl in E3, E4.
      apply Z.eqb_eq in E3.
      split; [constructor|]; simpl; rewrite ?S_st, ?S_uns, ?S_cur, ?S_held, ?S_fdep, ?S_l, ?replace_nth_length; auto.
      * destruct S_pc as [(?&?&?)|(?&?&?&?)]; [left|right]; auto.
      * intros Hev. destruct S_pc as [(?&?&?)|(?&?&?&?)]; [auto | congruence].
      * right; right. auto.
      * repeat split; auto; try congruence.
        -- intros ->. destruct S_pc as [(?&?&?)|(?&?&?&?)]; congruence.
        -- intros Hp. destruct S_pc as [(?&?&?)|(?&?&?&?)]; [exfalso; auto | auto].
        -- intros ->. apply andb_false_iff in E1. destruct E1 as [E1|E1]; [discriminate|].
           apply negb_false_iff in E1. simpl in E1. destruct (st r); simpl in *; congruence.
    + inversion H; subst r' w. clear H.
      split; [constructor|]; simpl; rewrite ?replace_nth_length; auto.
      repeat split; auto; try congruence.
      intros ->. apply andb_false_iff in E1. destruct E1 as [E1|E1]; [discriminate|].
      apply negb_false_iff in E1. auto.
Qed.
